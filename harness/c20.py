"""C20 — scan positions have the geometry their parameters describe (abtem/scan.py, LinearAxis.coordinates)."""
import sys
from fractions import Fraction

import numpy as np

from common import Ctx, LeanDriver, Property, bool_s, dyadic, err_kind, list_s, opt_s, rat_s, run_property


# ----------------------------------------------------------------------------- helpers
def val_s(v):
    if v is None:
        return "none"
    if isinstance(v, (list, tuple)):
        return "q:" + list_s(v, rat_s)
    return "s:" + rat_s(v)


def pt_s(p):
    return "none" if p is None else f"{rat_s(p[0])},{rat_s(p[1])}"


def fl(xs):
    return [float(x) for x in xs]


def close(a, b, rel=1e-11, ab=1e-12):
    return abs(float(a) - float(b)) <= ab + rel * max(abs(float(a)), abs(float(b)))


def close_seq(a, b, **kw):
    return len(a) == len(b) and all(close(x, y, **kw) for x, y in zip(a, b))


def rats(s):
    return [] if s == "_" else [Fraction(x) for x in s.split(",")]


def near_int_quotient(r, d):
    if d == 0:
        return False
    q = Fraction(float(r)) / Fraction(float(d))
    k = round(q)
    return q != k and abs(q - k) <= Fraction(1, 10 ** 9) * max(1, abs(k))


def tup(v):
    return tuple(v) if isinstance(v, list) else v


# ----------------------------------------------------------------------------- implementation side
def grid_scan(c):
    from abtem.scan import GridScan

    return GridScan(start=tup(c["start"]), end=tup(c["end"]), gpts=tup(c["gpts"]), sampling=tup(c["sampling"]),
                    endpoint=tup(c["endpoint"]))


def line_scan(c):
    from abtem.scan import LineScan

    ls = LineScan(start=tup(c["start"]), end=tup(c["end"]), gpts=c["gpts"], sampling=c["sampling"], endpoint=c["endpoint"])
    for op in c["ops"]:
        if op[0] == "G":
            ls.gpts = op[1]
        elif op[0] == "S":
            ls.sampling = op[1]
        elif op[0] == "A":
            ls.start = tuple(op[1])
        else:
            ls.end = tuple(op[1])
    return ls


def norm_of(a, b):
    return 0.0 if a is None or b is None else float(np.linalg.norm(np.array(b) - np.array(a)))


def line_wire(c):
    """request line for the model; the float norm numpy computes is an input of the model"""
    a, b = c["start"], c["end"]
    ops = []
    for op in c["ops"]:
        if op[0] == "G":
            ops.append(f"G={int(op[1])}")
        elif op[0] == "S":
            ops.append("S=" + rat_s(op[1]))
        elif op[0] == "A":
            a = op[1]
            ops.append(f"A={rat_s(a[0])},{rat_s(a[1])},{rat_s(norm_of(a, b))}")
        else:
            b = op[1]
            ops.append(f"B={rat_s(b[0])},{rat_s(b[1])},{rat_s(norm_of(a, b))}")
    return " ".join(["line", pt_s(c["start"]), pt_s(c["end"]), rat_s(norm_of(c["start"], c["end"])), opt_s(c["gpts"]),
                     opt_s(c["sampling"], rat_s), bool_s(c["endpoint"]), ";".join(ops) or "~"])


def grid_wire(kind, c):
    ep = c["endpoint"]
    ep = [ep, ep] if isinstance(ep, bool) else list(ep)
    return " ".join([kind, pt_s(c["start"]), pt_s(c["end"]), val_s(c["gpts"]), val_s(c["sampling"]), list_s(ep, bool_s)])


# ----------------------------------------------------------------------------- generators
def gen_grid(rng, valid=False):
    start = [dyadic(rng, -4, 4, 3), dyadic(rng, -4, 4, 3)]
    ext = [rng.choice([dyadic(rng, 0.25, 12, 3) or 1.0, float(rng.randint(1, 9)), rng.choice([0.7, 3.3])]) for _ in range(2)]
    end = [start[0] + ext[0], start[1] + ext[1]]
    u = rng.random()
    if valid and u < 0.08:  # one reversed axis (accepted by the constructor)
        k = rng.randint(0, 1)
        end[k] = start[k] - ext[k]
    if not valid and u < 0.05:
        end = None
    elif not valid and u < 0.10:
        end = [start[0] - ext[0], start[1] - ext[1] if rng.random() < 0.5 else start[1] + ext[1]]
    which = rng.choice(["g", "g", "s", "s", "gs", ""]) if not valid else rng.choice(["g", "s"])

    def g1():
        return rng.randint(2, 12) if rng.random() < 0.85 else 1

    def s1():
        return rng.choice([dyadic(rng, 0.0625, 2, 4) or 0.25, rng.choice([0.1, 0.3, 0.7])])

    gpts = None if "g" not in which else (g1() if rng.random() < 0.5 else [g1(), g1()])
    sampling = None if "s" not in which else (s1() if rng.random() < 0.5 else [s1(), s1()])
    ep = rng.choice([False, False, True, [rng.random() < 0.5, rng.random() < 0.5]])
    return dict(start=start, end=end, gpts=gpts, sampling=sampling, endpoint=ep)


def gen_line(rng, valid=False):
    start = [dyadic(rng, -4, 4, 3), dyadic(rng, -4, 4, 3)]
    k = rng.random()
    s = dyadic(rng, 0.25, 4, 2) or 1.0
    if k < 0.3:
        d = rng.choice([[3 * s, 4 * s], [4 * s, -3 * s], [-5 * s, 12 * s], [8 * s, 15 * s]])  # rational norm
    elif k < 0.5:
        d = rng.choice([[s, 0.0], [0.0, -s]])
    else:
        d = [dyadic(rng, -6, 6, 3) or 1.0, dyadic(rng, -6, 6, 3) or 0.5]
    end = [start[0] + d[0], start[1] + d[1]]
    if not valid and rng.random() < 0.05:
        end = None
    which = rng.choice(["g", "g", "s", "s", "gs", ""]) if not valid else rng.choice(["g", "s"])
    gpts = rng.choice([1, 2, 3, 5, 8, 13, rng.randint(2, 20)]) if "g" in which else None
    sampling = rng.choice([dyadic(rng, 0.0625, 2, 4) or 0.25, 0.1, 0.3, 0.7]) if "s" in which else None
    ops = []
    for _ in range(rng.choice([0, 0, 1, 2, 3])):
        t = rng.choice("GSAB")
        if t == "G":
            ops.append(["G", rng.randint(1, 16)])
        elif t == "S":
            ops.append(["S", rng.choice([dyadic(rng, 0.0625, 2, 4) or 0.25, 0.3])])
        elif t == "A":
            ops.append(["A", [dyadic(rng, -9, -5, 2), dyadic(rng, -9, -5, 2)]])
        else:
            ops.append(["B", [dyadic(rng, 5, 9, 2), dyadic(rng, 5, 9, 2)]])
    return dict(start=start, end=end, gpts=gpts, sampling=sampling, endpoint=rng.random() < 0.6, ops=ops)


class C20(Property):
    id = "C20"
    props_file = "AbtemVerif/Props/C20.lean"
    drive_file = "AbtemVerif/Drive/C20.lean"
    trusted = [
        "hand model (Model/Scan.lean) of the None-guards / error branches / zip order / meshgrid(ij) around the generated linspace "
        "arguments and LineScan arithmetic (tied by differential correspondence); Model/Grid.lean for GridScan's grid (C17)",
        "numpy.linspace implements the text modelled by Np.linspace (validated by the correspondence itself); numpy.linalg.norm enters "
        "the LineScan model as an input value",
        "IEEE: float64 evaluation within 1e-11 of the exact value; ceil arguments within 1e-9 of an integer and not exactly "
        "representable are classified boundary; the default float32 positions are compared at 2e-6",
        "FFT (probe part only): numpy/pyFFTW fft2/ifft2 implement the DFT pair; the probe-shift statement is proved for the 1-D DFT "
        "on ZMod N and observed on the real 2-D code",
    ]
    assumptions = ["finite inputs; extents / samplings > 0 and gpts >= 1 for the geometric statements (guards of the theorems)"]
    rule = ("random GridScan (start, end or None / reversed, gpts and/or sampling scalar or pair, endpoint bool or pair) and LineScan "
            "(3-4-5 type, axis aligned and generic directions; gpts and/or sampling; 0-3 later assignments to gpts / sampling / start / end) "
            "and LinearAxis.coordinates(n) for n in -2..9; distinct = distinct case JSON; non-trivial = a scan that yields positions")

    # ---------------------------------------------------------------- correspondence
    def correspondence(self, ctx: Ctx):
        import abtem
        from abtem.core.axes import LinearAxis

        drv = LeanDriver(self.drive_file)
        rng = ctx.rng
        lines, tags = [], []
        with abtem.config.set({"precision": "float64"}):
            for _ in range(ctx.n(250, 4000)):
                c = gen_grid(rng)
                boundary = False
                if c["end"] is not None and c["sampling"] is not None:
                    ss = c["sampling"] if isinstance(c["sampling"], list) else [c["sampling"]] * 2
                    boundary = any(near_int_quotient(c["end"][i] - c["start"][i], ss[i]) for i in range(2))
                try:
                    sc = grid_scan(c)
                except Exception as e:  # noqa
                    for kind in ("ginit",):
                        lines.append(grid_wire(kind, c))
                        tags.append((kind, c, ["err", err_kind(e)], boundary))
                    ctx.count("grid:init-err:" + err_kind(e))
                    ctx.case(c, nontrivial=False)
                    continue
                g = sc.grid
                lines.append(grid_wire("ginit", c))
                tags.append(("ginit", c, ["ok", g.extent, g.gpts, g.sampling], boundary))
                lines.append(grid_wire("gpos", c))
                try:
                    arr = np.asarray(sc.get_positions())
                    n0, n1 = arr.shape[0], arr.shape[1]
                    flat = arr.reshape(-1, 2)
                    tags.append(("gpos", c, ["ok", fl(arr[:, 0, 0]) if n1 else [], fl(arr[0, :, 1]) if n0 else [], n0 * n1,
                                             fl(flat[0]) if len(flat) else None, fl(flat[-1]) if len(flat) else None,
                                             bool(np.all(arr[:, :, 0] == arr[:, :1, 0]) and np.all(arr[:, :, 1] == arr[:1, :, 1]))], boundary))
                    ctx.count("grid:positions-ok")
                    nontrivial = True
                except Exception as e:  # noqa
                    tags.append(("gpos", c, ["err", err_kind(e)], boundary))
                    ctx.count("grid:positions-err:" + err_kind(e))
                    nontrivial = False
                lines.append(grid_wire("gaxes", c))
                try:
                    axes = sc.ensemble_axes_metadata
                    tags.append(("gaxes", c, ["ok"] + [[a.sampling, a.offset, a.endpoint] for a in axes]
                                 + [fl(a.coordinates(n)) for a, n in zip(axes, sc.gpts)], boundary))
                except Exception as e:  # noqa
                    tags.append(("gaxes", c, ["err", err_kind(e)], boundary))
                ctx.case(c, nontrivial=nontrivial)
            for _ in range(ctx.n(250, 4000)):
                c = gen_line(rng)
                lines.append(line_wire(c))
                try:
                    ls = line_scan(c)
                except Exception as e:  # noqa
                    tags.append(("line", c, ["err", err_kind(e)], False))
                    continue
                # boundary: any ceil(extent / sampling) the history evaluated near an integer
                boundary = False
                a, b, samp = c["start"], c["end"], c["sampling"]
                if samp is not None:
                    boundary |= near_int_quotient(norm_of(a, b), samp)
                for op in c["ops"]:
                    if op[0] == "S":
                        samp = op[1]
                    elif op[0] == "A":
                        a = op[1]
                    elif op[0] == "B":
                        b = op[1]
                    elif op[0] == "G":
                        samp = None  # recomputed from the gpts; later ceil sees an exact multiple
                    if samp is not None and a is not None and b is not None:
                        boundary |= near_int_quotient(norm_of(a, b), samp)
                    if op[0] in "AB" and samp is None and ls.sampling is not None:
                        boundary = boundary or True  # ceil(extent / (old extent / n)): generically not exact
                out = ["ok", ls.gpts, ls.sampling]
                try:
                    out.append([fl(p) for p in np.asarray(ls.get_positions())])
                    nontrivial = True
                except Exception as e:  # noqa
                    out.append("err:" + err_kind(e))
                    nontrivial = False
                try:
                    ax = ls.ensemble_axes_metadata[0]
                    out.append([ax.sampling, ax.offset, ax.endpoint])
                    out.append(fl(ax.coordinates(ls.gpts)) if ls.gpts is not None else "err:none")
                except Exception as e:  # noqa
                    out.append("err:" + err_kind(e))
                    out.append("err:none")
                tags.append(("line", c, out, boundary))
                ctx.count(f"line:{'positions' if nontrivial else 'no-positions'}:ops={len(c['ops'])}")
                ctx.case(c, nontrivial=nontrivial)
            for _ in range(ctx.n(60, 600)):
                o, s, n = dyadic(rng, -4, 4, 3), rng.choice([dyadic(rng, -2, 2, 4), 0.1, 0.3]), rng.randint(-2, 9)
                lines.append(f"coords {rat_s(o)} {rat_s(s)} {n}")
                try:
                    tags.append(("coords", dict(offset=o, sampling=s, n=n), ["ok", fl(LinearAxis(sampling=s, offset=o).coordinates(n))], False))
                except Exception as e:  # noqa
                    tags.append(("coords", dict(offset=o, sampling=s, n=n), ["err", err_kind(e)], False))
            from abtem.scan import CustomScan
            for _ in range(ctx.n(60, 600)):
                pts = [[dyadic(rng, -8, 8, 3), dyadic(rng, -8, 8, 3)] for _ in range(rng.choice([0, 1, 1, 2, 3, 5]))]
                lines.append("custom " + (",".join(f"{rat_s(x)}:{rat_s(y)}" for x, y in pts) or "_"))
                try:
                    cs = CustomScan(np.array(pts, float).reshape(-1, 2)) if len(pts) != 1 or rng.random() < 0.5 else CustomScan(tuple(pts[0]))
                    axes = cs.ensemble_axes_metadata
                    tags.append(("custom", dict(points=pts), ["ok", len(cs.get_positions()), list(cs.shape), np.asarray(cs.get_positions()).tolist(),
                                                              None if not axes else [list(v) for v in axes[0].values]], False))
                except Exception as e:  # noqa
                    tags.append(("custom", dict(points=pts), ["err", err_kind(e)], False))
        for bad in ["ginit 0,0 1,1 s:4 none", "line 0,0 3,4 5 4 none X ~", "coords 0 1", "gpos 0,0 1 s:2 none F,F"]:
            lines.append(bad)
            tags.append(("bad", bad, "bad-op", False))
        outs = drv.query(lines)
        for out, (kind, c, impl, boundary) in zip(outs, tags):
            t = out.split()
            ok = False
            if kind == "bad":
                ok = out == impl
            elif impl[0] == "err":
                ok = t[:2] == ["err", impl[1]]
            elif t[0] != "ok":
                ok = False
            elif kind == "ginit":
                po = lambda s, f: None if s == "none" else [f(x) for x in s.split(",")]
                e, g, s = po(t[1], Fraction), po(t[2], int), po(t[3], Fraction)
                ok = ((e is None) == (impl[1] is None) and (e is None or close_seq(e, impl[1]))
                      and g == (None if impl[2] is None else [int(x) for x in impl[2]])
                      and (s is None) == (impl[3] is None) and (s is None or close_seq(s, impl[3])))
            elif kind == "gpos":
                xs, ys = rats(t[1]), rats(t[2])
                pp = lambda s: None if s == "none" else [Fraction(x) for x in s.split(":")]
                first, last = pp(t[4]), pp(t[5])
                # an axis with zero positions makes the other axis unobservable in the (n0, n1, 2) array
                ok = ((close_seq(xs, impl[1]) or not ys) and (close_seq(ys, impl[2]) or not xs) and int(t[3]) == impl[3] and impl[6]
                      and (first is None) == (impl[4] is None) and (first is None or close_seq(first, impl[4]))
                      and (last is None or close_seq(last, impl[5])))
            elif kind == "gaxes":
                def ax(s):
                    a, b, e = s.split(",")
                    return [Fraction(a), Fraction(b), e == "T"]
                m0, m1 = ax(t[1]), ax(t[2])
                ok = (close(m0[0], impl[1][0]) and close(m0[1], impl[1][1]) and m0[2] == bool(impl[1][2])
                      and close(m1[0], impl[2][0]) and close(m1[1], impl[2][1]) and m1[2] == bool(impl[2][2])
                      and close_seq(rats(t[3]), impl[3]) and close_seq(rats(t[4]), impl[4]))
            elif kind == "line":
                g = None if t[1] == "none" else int(t[1])
                s = None if t[2] == "none" else Fraction(t[2])
                ok = g == impl[1] and (s is None) == (impl[2] is None) and (s is None or close(s, impl[2]))
                if isinstance(impl[3], str):
                    ok = ok and t[3] == impl[3]
                else:
                    pts = [] if t[3] == "_" else [[Fraction(v) for v in p.split(":")] for p in t[3].split(",")]
                    ok = ok and not t[3].startswith("err") and len(pts) == len(impl[3]) and all(close_seq(p, q) for p, q in zip(pts, impl[3]))
                if isinstance(impl[4], str):
                    ok = ok and t[4] == impl[4]
                else:
                    a, b, e = t[4].split(",") if not t[4].startswith("err") else ("nan", "nan", "")
                    ok = ok and not t[4].startswith("err") and close(Fraction(a), impl[4][0]) and close(Fraction(b), impl[4][1]) and (e == "T") == bool(impl[4][2])
                    if not isinstance(impl[5], str):
                        ok = ok and not t[5].startswith("err") and close_seq(rats(t[5]), impl[5])
            elif kind == "coords":
                ok = close_seq(rats(t[1]), impl[1])
            elif kind == "custom":
                pp = lambda z: None if z == "none" else [] if z == "_" else [[Fraction(v) for v in q.split(":")] for q in z.split(",")]
                mp, ma = pp(t[3]), pp(t[4])
                ok = (int(t[1]) == impl[1] and ([] if t[2] == "_" else [int(x) for x in t[2].split(",")]) == impl[2]
                      and len(mp) == len(impl[3]) and all(close_seq(a, b) for a, b in zip(mp, impl[3]))
                      and (ma is None) == (impl[4] is None) and (ma is None or all(close_seq(a, b) for a, b in zip(ma, impl[4]))))
            if not ok and boundary:
                ctx.boundary += 1
                continue
            ctx.agree({"ginit": "GridScan.__init__ (grid)", "gpos": "GridScan.get_positions", "gaxes": "GridScan.ensemble_axes_metadata + coordinates",
                       "line": "LineScan (init, setters, get_positions, axis)", "coords": "LinearAxis.coordinates", "custom": "CustomScan",
                       "bad": "malformed request rejected"}[kind], c, out[:600], impl, ok=ok)
        ctx.traces += len(tags)

    # ---------------------------------------------------------------- conformance (independent of the model)
    def oracle_grid(self, ctx, c, prec):
        import abtem

        with abtem.config.set({"precision": prec}):
            sc = grid_scan(c)
            tol = dict(rel=1e-10, ab=1e-10) if prec == "float64" else dict(rel=3e-6, ab=3e-6)
            rev = [c["end"][i] < c["start"][i] for i in range(2)]
            try:
                arr = np.asarray(sc.get_positions())
            except ValueError as e:
                # recorded finding: only if re-derived - a reversed axis, sampling given, a negative computed number of positions
                if any(rev) and c["gpts"] is None and c["sampling"] is not None and any(r and n < 0 for r, n in zip(rev, sc.gpts)):
                    ctx.violation("gridscan-reversed-axis-with-sampling-raises-at-get-positions", c, dict(gpts=list(sc.gpts), error=repr(e)))
                    return
                raise
            n = sc.gpts
            if any(rev) and c["gpts"] is None and c["sampling"] is not None and any(r and k == 0 for r, k in zip(rev, n)) and arr.size == 0:
                ctx.violation("gridscan-reversed-axis-with-sampling-is-empty", c, dict(gpts=list(n)))
                return
            if tuple(arr.shape) != (n[0], n[1], 2):
                ctx.violation("gridscan-position-count", c, dict(shape=list(arr.shape), gpts=list(n)))
                return
            ep = sc.endpoint
            axes = sc.ensemble_axes_metadata
            for i in range(2):
                line = arr[:, 0, i] if i == 0 else arr[0, :, i]
                d = sc.sampling[i]
                if ep[i] and n[i] == 1:
                    ctx.count("grid:axis-skipped:endpoint-with-one-position (C17 finding inconsistent:endpoint-with-gpts-1)")
                    if not close(arr[0, 0, i] if i == 0 else arr[0, 0, i], c["start"][i], **tol):
                        ctx.violation("gridscan-single-position-not-at-start", c, dict(axis=i))
                    continue  # C17 known finding (sampling 0): a single position at start
                want = [c["start"][i] + k * d for k in range(n[i])]
                if not close_seq(line, want, **tol):
                    ctx.violation(f"gridscan-positions-not-start-plus-k-sampling:endpoint={bool(ep[i])}", c,
                                  dict(axis=i, got=fl(line), want=want, prec=prec))
                last_want = c["end"][i] if ep[i] else c["end"][i] - d
                if not close(line[-1], last_want, **tol):
                    ctx.violation(f"gridscan-last-position-wrong:endpoint={bool(ep[i])}", c, dict(axis=i, last=float(line[-1]), want=last_want, prec=prec))
                coords = fl(axes[i].coordinates(n[i]))
                if not close_seq(coords, line, **tol):
                    ctx.violation(f"gridscan-axis-coordinates-differ-from-positions:endpoint={bool(ep[i])}", c,
                                  dict(axis=i, coords=coords, positions=fl(line), prec=prec))
                if bool(axes[i].endpoint) != bool(ep[i]) or not close(axes[i].sampling, d) or not close(axes[i].offset, c["start"][i]):
                    ctx.violation("gridscan-axis-metadata-wrong", c, dict(axis=i))

    def oracle_line(self, ctx, c, prec):
        import abtem

        with abtem.config.set({"precision": prec}):
            ls = line_scan(c)
            tol = dict(rel=1e-10, ab=1e-10) if prec == "float64" else dict(rel=3e-6, ab=3e-6)
            pos = np.asarray(ls.get_positions())
            n = ls.gpts
            if pos.shape != (n, 2):
                ctx.violation("linescan-position-count", c, dict(shape=list(pos.shape), gpts=n))
                return
            a, b = np.array(ls.start, float), np.array(ls.end, float)
            L = float(np.linalg.norm(b - a))
            u = (b - a) / L
            s = ls.sampling
            want = [list(a + k * s * u) for k in range(n)]
            if not all(close_seq(p, w, **tol) for p, w in zip(pos, want)):
                ctx.violation(f"linescan-positions-not-start-plus-k-sampling:endpoint={ls.endpoint}", c, dict(got=pos.tolist(), want=want, prec=prec))
            last = b if (ls.endpoint and n > 1) else b - s * u
            if not close_seq(pos[-1], last, **tol):
                ctx.violation(f"linescan-last-position-wrong:endpoint={ls.endpoint}", c, dict(last=pos[-1].tolist(), want=list(last), prec=prec))
            # assigning the end point it already has must not change the scan (recorded finding for endpoint=True, see findings/C20.json)
            if prec == "float64":
                ls2 = line_scan(c)
                ls2.end = ls2.end
                if ls2.gpts != n:
                    ctx.violation(f"linescan-reassigning-end-changes-gpts:endpoint={ls.endpoint}:delta={ls2.gpts - n:+d}", c,
                                  dict(gpts=n, after=ls2.gpts, sampling=float(s), extent=L))
                else:
                    ctx.count(f"line:reassign-end-keeps-gpts:endpoint={ls.endpoint}")
            ax = ls.ensemble_axes_metadata[0]
            dist = [float(np.linalg.norm(p - a)) for p in pos.astype(float)]
            if not close_seq(fl(ax.coordinates(n)), dist, **tol):
                ctx.violation("linescan-axis-coordinates-differ-from-distances", c, dict(coords=fl(ax.coordinates(n)), dist=dist, prec=prec))

    def oracle_custom_and_probe(self, ctx, c):
        import abtem
        from abtem.scan import CustomScan

        with abtem.config.set({"precision": "float64"}):
            pts = np.array(c["points"], float)
            cs = CustomScan(pts)
            if not np.array_equal(np.asarray(cs.get_positions()), pts) or len(cs) != len(pts):
                ctx.violation("customscan-positions-differ", c, dict(got=np.asarray(cs.get_positions()).tolist()))
            ax = cs.ensemble_axes_metadata[0]
            if [list(v) for v in ax.values] != pts.tolist():
                ctx.violation("customscan-axis-values-differ", c, dict(values=[list(v) for v in ax.values]))
            n, ext = c["gpts"], c["extent"]
            probe = abtem.Probe(energy=c["energy"], semiangle_cutoff=c["cutoff"], extent=ext, gpts=n)
            a0 = np.asarray(probe.build(scan=CustomScan([(0.0, 0.0)]), lazy=False).array)[0]
            arr = np.asarray(probe.build(scan=cs, lazy=False).array)
            scale = float(np.abs(a0).max())
            for k, p in enumerate(pts):
                px = p / (np.array(ext, float) / np.array(n, float))
                if np.allclose(px, np.round(px), atol=1e-12):
                    want = np.roll(a0, tuple(int(v) for v in np.round(px)), axis=(0, 1))  # periodic shift by whole pixels
                else:
                    kx = np.fft.fftfreq(n[0])[:, None]
                    ky = np.fft.fftfreq(n[1])[None, :]
                    want = np.fft.ifft2(np.fft.fft2(a0) * np.exp(-2j * np.pi * (kx * px[0] + ky * px[1])))  # band-limited shift
                err = float(np.abs(arr[k] - want).max())
                if err > 1e-9 * scale:
                    ctx.violation("probe-at-r-is-not-the-shifted-origin-probe", c, dict(point=p.tolist(), err=err, scale=scale))
                if abs(float((np.abs(arr[k]) ** 2).sum()) - float((np.abs(a0) ** 2).sum())) > 1e-9 * float((np.abs(a0) ** 2).sum()):
                    ctx.violation("probe-norm-depends-on-position", c, dict(point=p.tolist()))

    def gen_probe_case(self, rng):
        n = [rng.choice([8, 12, 16]), rng.choice([8, 10, 16])]
        ext = [rng.choice([4.0, 6.0, 8.0]), rng.choice([4.0, 5.0, 8.0])]
        pix = [ext[0] / n[0], ext[1] / n[1]]
        pts = []
        for _ in range(rng.randint(1, 4)):
            if rng.random() < 0.5:
                pts.append([rng.randint(-n[0], 2 * n[0]) * pix[0], rng.randint(-n[1], 2 * n[1]) * pix[1]])
            else:
                pts.append([dyadic(rng, -2, 10, 4), dyadic(rng, -2, 10, 4)])
        return dict(kind="probe", points=pts, gpts=n, extent=ext, energy=rng.choice([60e3, 100e3, 200e3]), cutoff=rng.choice([10, 20, 30]))

    def run_case(self, ctx, c):
        try:
            if c["kind"] == "grid":
                for prec in ("float64", "float32"):
                    self.oracle_grid(ctx, c, prec)
            elif c["kind"] == "line":
                for prec in ("float64", "float32"):
                    self.oracle_line(ctx, c, prec)
            else:
                self.oracle_custom_and_probe(ctx, c)
        except Exception as e:  # noqa
            ctx.violation(f"{c['kind']}-scan-raises:{err_kind(e)}", c, dict(error=repr(e)))

    def conformance(self, ctx: Ctx):
        rng = ctx.rng
        for _ in range(ctx.n(200, 3000)):
            c = dict(gen_grid(rng, valid=True), kind="grid")
            self.run_case(ctx, c)
            ctx.case(c)
        for _ in range(ctx.n(200, 3000)):
            c = dict(gen_line(rng, valid=True), kind="line")
            if any(op[0] == "S" for op in c["ops"]) or True:
                self.run_case(ctx, c)
            ctx.case(c)
        for _ in range(ctx.n(25, 300)):
            c = self.gen_probe_case(rng)
            self.run_case(ctx, c)
            ctx.case(c)

    def replay(self, ctx: Ctx, case):
        self.run_case(ctx, case)


if __name__ == "__main__":
    sys.exit(run_property(C20()))
