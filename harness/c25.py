"""C25 — each atomic potential parametrization is internally consistent (abtem/parametrizations)."""
import json
import struct
import sys
import warnings
from fractions import Fraction

import numpy as np

from common import REPO, Ctx, LeanDriver, Property, list_s, run_property

warnings.filterwarnings("ignore")

TABLES = {"lobato": "lobato.json", "kirkland": "kirkland.json", "peng_high": "peng_high.json", "peng_low": "peng_low.json",
          "peng_ionic": "peng_ionic.json"}


def bits(x) -> str:
    return str(struct.unpack("<Q", struct.pack("<d", float(x)))[0])


def unbits(s) -> float:
    return struct.unpack("<d", struct.pack("<Q", int(s)))[0]


def load_exact(name):
    return json.loads((REPO / "abtem/parametrizations/data" / TABLES[name]).read_text(), parse_float=Fraction, parse_int=Fraction)


def polymul(p, q):
    r = [Fraction(0)] * (len(p) + len(q) - 1)
    for i, a in enumerate(p):
        for j, b in enumerate(q):
            r[i + j] += a * b
    return r


def polyadd(p, q):
    n = max(len(p), len(q))
    return [(p[i] if i < len(p) else 0) + (q[i] if i < len(q) else 0) for i in range(n)]


def lobato_numerators(a, b):
    """independent expansion: N = Σ a_i (2 + b_i x) Π_{j≠i} (1+b_j x)^2 ;  N' = Σ a_i b_i (3 + b_i x) Π_{j≠i} (1+b_j x)^3"""
    N, Nd = [Fraction(0)], [Fraction(0)]
    for i in range(5):
        t = [2 * a[i], a[i] * b[i]]
        u = [3 * a[i] * b[i], a[i] * b[i] * b[i]]
        for j in range(5):
            if j != i:
                lin = [Fraction(1), b[j]]
                t = polymul(t, polymul(lin, lin))
                u = polymul(u, polymul(lin, polymul(lin, lin)))
        N, Nd = polyadd(N, t), polyadd(Nd, u)
    return N, Nd


RECORDED = {  # the three known ionic entries (float64, grid r = 0.01 … 3.0 step 0.01): minimum, its location, largest increase, its location
    "peng_ionic:Si++++": dict(min=-0.0106467, r_min=1.07, inc=0.000362509, r_inc=1.19),
    "peng_ionic:Ge++++": dict(min=-0.00948386, r_min=1.45, inc=0.000214262, r_inc=1.62),
    "peng_ionic:Pd++": dict(min=-0.158504, r_min=1.64, inc=0.0132028, r_inc=1.90),
}


def parametrization(name, table=None):
    import abtem.parametrizations as P

    cls = {"lobato": P.LobatoParametrization, "kirkland": P.KirklandParametrization, "peng": P.PengParametrization}[name]
    return cls(table) if table else cls()


class C25(Property):
    id = "C25"
    props_file = "AbtemVerif/Props/C25.lean"
    drive_file = "AbtemVerif/Drive/C25.lean"
    extra_lean = ["AbtemVerif/Lib/ParamCalc.lean", "AbtemVerif/Lib/ParamProj.lean"]
    trusted = [
        "IEEE: float64/float32 evaluation of the kernels (Float twins of the generated formulas agree with the numba kernels to 1e-12; the "
        "public API callables (float32 parameters) compared pointwise with a per-term float32 allowance); `np.array(np.pi, dtype=float32)` is read as π",
        "QUADRATURE (validation, not proof): scipy.integrate.quad for the Hankel / 3-D Fourier / projection integrals that relate the real-space "
        "and reciprocal-space forms — the transform pairs themselves are NOT formalised",
        "JSON: the coefficient files are read as exact decimals by the translator; json.load / float() rounding on the Python side is IEEE",
        "κ > 0 (abtem.core.constants.kappa, built from ase.units; checked numerically) is a hypothesis of the potential theorems",
    ]
    assumptions = ["sign/monotonicity theorems hold for every tabulated element except the listed Peng entries with a negative Gaussian weight "
                   "(Ra in peng_high; Rb, Np in peng_low; 15 entries of peng_ionic), which are only sampled",
                   "Lobato real-space potential positivity/monotonicity is sampled only (mixed-sign coefficients)"]
    rule = ("correspondence: every entry of the five tables (exact), Float twins of all kernels on random elements × arguments, scaled parameters, "
            "Lobato numerator polynomials of all elements against an independent Fraction expansion; conformance: every element of all five "
            "default tables on r / k grids through the public API, quadrature validation for sampled elements; distinct = distinct case JSON")

    # ------------------------------------------------------------------ correspondence
    def correspondence(self, ctx: Ctx):
        from abtem.core.constants import kappa
        from abtem.parametrizations import validate_parameters
        from abtem.parametrizations.functions import kirkland, lobato, peng

        rng = ctx.rng
        lines, todo = [], []

        def ask(line, fn):
            lines.append(line)
            todo.append(fn)

        exact = {t: load_exact(t) for t in TABLES}
        # (a) tables, exactly, every entry; hypotheses; exceptions
        for t, data in exact.items():
            impl_tbl = validate_parameters(TABLES[t])
            syms = list(data)
            if not ctx.thorough and t in ("peng_low", "peng_ionic"):
                syms = rng.sample(syms, 25)
            for sym in syms + ["Xx"]:
                case = dict(kind="entry", table=t, symbol=sym)

                def check(out, case=case, data=data, impl_tbl=impl_tbl):
                    sym = case["symbol"]
                    tk = out.split()
                    if sym not in impl_tbl:
                        ctx.agree("table entry", case, tk, ["err", "key_error"])
                    else:
                        model = [[Fraction(x) for x in r.split(",")] for r in tk[1].split(";")]
                        ctx.agree("table entry (exact decimals)", case, [[str(x) for x in r] for r in model], [[str(x) for x in r] for r in data[sym]])
                        ok = all(float(m) == float(v) for rm, rv in zip(model, impl_tbl[sym]) for m, v in zip(rm, rv))
                        ctx.agree("table entry (values loaded by abTEM)", case, "float(model) == loaded", "float(model) == loaded" if ok else "differs")
                    ctx.count(f"entry:{case['table']}")
                    ctx.case(case, nontrivial=sym != "Xx")

                ask(f"entry {t} {sym}", check)
            bad = sorted(s for s, v in data.items() if min(min(r) for r in v) <= 0) if t != "lobato" else []
            if t != "lobato":
                ask(f"exceptions {t}", lambda out, bad=bad, t=t: ctx.agree("coefficient-sign exceptions", {"table": t},
                                                                          sorted(out.split()[1].split(",")) if out.split()[1] != "_" else [], bad))
        # (d) Lobato numerator polynomials, every element
        lob = exact["lobato"]
        for sym in (list(lob) if ctx.thorough else rng.sample(list(lob), 30) + ["H", "He", "Au"]):
            case = dict(kind="lobpoly", symbol=sym)

            def check(out, case=case):
                a, b = lob[case["symbol"]]
                N, Nd = lobato_numerators(a, b)
                tk = out.split()
                def strip(p):  # the list representation may carry trailing zero coefficients
                    p = list(p)
                    while p and p[-1] == 0:
                        p.pop()
                    return [str(x) for x in p]

                model = [[Fraction(x) for x in tk[1].split(",")], [Fraction(x) for x in tk[2].split(",")]]
                ctx.agree("Lobato numerator polynomials", case, [strip(p) for p in model], [strip(p) for p in (N, Nd)])
                ctx.case(case)

            ask(f"lobpoly {sym}", check)
            ask(f"hyp lobato {sym}", lambda out, sym=sym: ctx.agree("Lobato coefficient hypothesis", {"symbol": sym}, out.split()[1],
                                                                    "T" if all(c > 0 for p in lobato_numerators(*lob[sym]) for c in p) else "F"))
        # (b) Float twins of the kernels
        kern = {("lobato", "sf"): lobato.scattering_factor, ("lobato", "pot"): lobato.potential, ("lobato", "dpot"): lobato.potential_derivative,
                ("lobato", "psf"): lobato.projected_scattering_factor, ("kirkland", "sf"): kirkland.scattering_factor,
                ("kirkland", "pot"): kirkland.potential, ("kirkland", "dpot"): kirkland.potential_derivative,
                ("kirkland", "psf"): kirkland.projected_scattering_factor, ("peng", "sf"): peng.scattering_factor,
                ("peng", "sfk2"): peng.scattering_factor_k2}
        tblname = {"lobato": "lobato", "kirkland": "kirkland", "peng": "peng_high"}
        for _ in range(ctx.n(120, 1500)):
            form, fn = rng.choice(list(kern))
            data = exact[tblname[form]]
            sym = rng.choice(list(data))
            par = parametrization(form)
            name = {"sf": "scattering_factor", "sfk2": "scattering_factor", "pot": "potential", "dpot": "potential", "psf": "projected_scattering_factor"}[fn]
            if form == "peng" and fn == "sf":
                name = "potential"
            p = np.array(par.scaled_parameters(sym, name), dtype=np.float64)
            x = rng.choice([0.0, 0.015625, 0.25, 1.0, 2.5, 7.75]) if fn in ("sf", "sfk2", "psf") else rng.choice([0.03125, 0.25, 1.0, 2.5])
            case = dict(kind="kernel", form=form, fn=fn, symbol=sym, x=x)

            def check(out, case=case, p=p, f=kern[(form, fn)]):
                impl = float(f(np.float64(case["x"]), p))
                model = unbits(out.split()[1])
                tol = 2e-6 if case["fn"] == "psf" else 1e-12
                ok = abs(impl - model) <= tol * max(abs(impl), 1e-300)
                ctx.agree(f"{case['form']}.{case['fn']} kernel (Float twin)", case, model, impl, ok=ok)
                ctx.count(f"kernel:{case['form']}.{case['fn']}")
                ctx.case(case)

            ask(f"kernel {form} {fn} {bits(x)} {list_s(p.reshape(-1), bits)}", check)
        # (c) scaled parameters
        for _ in range(ctx.n(40, 400)):
            form = rng.choice(["lobato", "kirkland"])
            sym = rng.choice(list(exact[form]))
            par = parametrization(form)
            raw = np.array(par.parameters[sym], dtype=float)
            sc = np.array(par.scaled_parameters(sym, "potential"), dtype=float)
            j = rng.randrange(raw.shape[1])
            which = rng.choice(["A", "B"] if form == "lobato" else ["A", "B", "C", "D"])
            if form == "lobato":
                args, want = ([raw[0, j], raw[1, j], kappa], sc[0, j]) if which == "A" else ([raw[1, j]], sc[1, j])
            else:
                args, want = {"A": ([raw[0, j], kappa], sc[0, j]), "B": ([raw[1, j]], sc[1, j]),
                              "C": ([raw[2, j], raw[3, j], kappa], sc[2, j]), "D": ([raw[3, j]], sc[3, j])}[which]
            case = dict(kind="scaled", form=form, which=which, symbol=sym, j=j)

            def check(out, case=case, want=want):
                model = unbits(out.split()[1])
                ctx.agree(f"{case['form']} scaled_parameters {case['which']}", case, model, float(want), ok=abs(model - want) <= 1e-12 * abs(want))
                ctx.case(case)

            ask(f"scaled {form} {which} {list_s(args, bits)}", check)
        # (c') Peng scaled_parameters (widths / 2**2, potential / projected / projected-sf rows), all three tables, Ra always
        import abtem.parametrizations as PP

        ask("scaled peng div _", lambda out: ctx.agree("peng width divisor", {"kind": "pengdiv"}, unbits(out.split()[1]), 4.0))
        for i in range(ctx.n(60, 600)):
            tbl = rng.choice(["peng_high", "peng_low", "peng_ionic"])
            sym = "Ra" if i == 0 else rng.choice(list(exact[tbl]))
            tbl = "peng_high" if i == 0 else tbl
            par = PP.PengParametrization(TABLES[tbl])
            raw = np.array(par.parameters[sym], dtype=float)
            sfp = np.array(par.scaled_parameters(sym, "scattering_factor"), dtype=float)
            j = rng.randrange(5)
            which = rng.choice(["potA", "potB", "projA", "projB", "psfA", "psfB", "div"])
            rows = {"pot": "potential", "proj": "projected_potential", "psf": "projected_scattering_factor"}
            if which == "div":
                args, want, line = [], raw[1, j] / sfp[1, j], "scaled peng div _"
            else:
                sc = np.array(par.scaled_parameters(sym, rows[which[:-1]]), dtype=float)
                a, b = raw[0, j], sfp[1, j]
                args = {"potA": [a, b, kappa], "projA": [a, b, kappa], "psfA": [a, kappa]}.get(which, [b])
                want = sc[0, j] if which.endswith("A") else sc[1, j]
                line = f"scaled peng {which} {list_s(args, bits)}"
            case = dict(kind="scaled", form="peng", table=tbl, which=which, symbol=sym, j=j)

            def check(out, case=case, want=want):
                model = unbits(out.split()[1])
                ctx.agree(f"peng scaled_parameters {case['which']}", case, model, float(want), ok=abs(model - want) <= 1e-12 * abs(want))
                ctx.count(f"scaled:peng:{case['which']}")
                ctx.case(case)

            ask(line, check)
        bad = ["entry nosuch H", "kernel lobato sf 0 1,2", "scaled peng A 1", "lobpoly"]
        outs = LeanDriver(self.drive_file).query(lines + bad)
        for fn, out in zip(todo, outs):
            fn(out)
        for b, out in zip(bad, outs[len(lines):]):
            ctx.agree("driver rejects malformed request", b, out, "bad-op")
        ctx.traces += len(lines)

    # ------------------------------------------------------------------ conformance (implementation only)
    def oracle(self, ctx: Ctx, case):
        from abtem.core.constants import kappa

        par = parametrization(case["parametrization"], case.get("table"))
        sym = case["symbol"]
        kind = case["check"]
        if kind == "signs":
            from abtem.parametrizations.functions import kirkland, lobato, peng

            name = case["parametrization"]
            tag = f"{case.get('table', name).replace('.json', '')}:{sym}"
            sf_fn = {"lobato": lobato.scattering_factor, "kirkland": kirkland.scattering_factor, "peng": peng.scattering_factor_k2}[name]
            pot_fn = {"lobato": lobato.potential, "kirkland": kirkland.potential, "peng": peng.scattering_factor}[name]
            psf_fn = {"lobato": lobato.projected_scattering_factor, "kirkland": kirkland.projected_scattering_factor,
                      "peng": peng.scattering_factor_k2}[name]
            k = np.linspace(0.0, 6.0, 481)
            r = np.linspace(0.01, 3.0, 300)
            # float64 evaluation of the kernels at scaled_parameters: strict sign / monotonicity, no conditioning allowance
            f = np.asarray(sf_fn(k ** 2, np.array(par.scaled_parameters(sym, "scattering_factor"), dtype=np.float64)), dtype=float)
            v = np.asarray(pot_fn(r, np.array(par.scaled_parameters(sym, "potential"), dtype=np.float64)), dtype=float)
            psf = np.asarray(psf_fn(k ** 2, np.array(par.scaled_parameters(sym, "projected_scattering_factor"), dtype=np.float64)), dtype=float)
            if not (f > 0).all():
                ctx.violation(f"{tag}:scattering-factor-not-positive", case, {"min": float(f.min()), "at k": float(k[int(f.argmin())])})
            if not (np.diff(f) < 0).all():
                i = int(np.argmax(np.diff(f)))
                ctx.violation(f"{tag}:scattering-factor-not-decreasing", case, {"k": float(k[i]), "increase": float(np.diff(f)[i])})
            # the three recorded ionic entries: the known key is emitted only when the observed failure IS the recorded one — potential
            # re-derived here from the published Gaussians of the JSON row (own formula), minimum and location inside a band around
            # the recorded values; anything else on these ions is reported under `…:changed`
            rec = RECORDED.get(tag)
            suffix = ""
            if rec is not None:
                row = load_exact(case.get("table", "peng_high.json").replace(".json", ""))[sym]
                a_ = np.array([float(x) for x in row[0]])
                b_ = np.array([float(x) for x in row[1]]) / 4.0
                own = (np.pi ** 1.5 * a_[:, None] / b_[:, None] ** 1.5 / kappa * np.exp(-np.pi ** 2 * r[None] ** 2 / b_[:, None])).sum(0)
                same = bool(np.abs(own - v).max() <= 1e-9 * np.abs(v).max())
                i_min = int(v.argmin())
                inc = np.diff(v)
                i_inc = int(np.argmax(inc))
                ok = (same and abs(v[i_min] - rec["min"]) <= 0.02 * abs(rec["min"]) and abs(r[i_min] - rec["r_min"]) <= 0.03
                      and abs(r[i_inc] - rec["r_inc"]) <= 0.05 and abs(inc[i_inc] - rec["inc"]) <= 0.05 * abs(rec["inc"])
                      and bool((v[: int(np.argmax(v <= 0))] > 0).all()))
                suffix = "" if ok else ":changed"
            if not (v > 0).all():
                ctx.violation(f"{tag}:potential-not-positive{suffix}", case, {"min": float(v.min()), "at r": float(r[int(v.argmin())])})
            if not (np.diff(v) < 0).all():
                i = int(np.argmax(np.diff(v)))
                ctx.violation(f"{tag}:potential-not-decreasing{suffix}", case, {"r": float(r[i]), "increase": float(np.diff(v)[i])})
            raw = np.array(par.parameters[sym], dtype=float)
            cond = float(np.abs(raw[0]).sum() / abs(raw[0].sum()))
            # proved algebraically for the kernels; numba evaluates π in float32 inside the Lobato/Kirkland projected kernels
            if np.abs(psf * kappa - f).max() > 1e-6 * cond * abs(f[0]):
                ctx.violation(f"{tag}:projected-scattering-factor-differs-from-sf-over-kappa", case,
                              {"max rel diff": float(np.abs(psf * kappa - f).max() / abs(f[0]))})
            # public API (float32 parameters through get_function): the callables the API returns are compared POINTWISE with the float64
            # kernels; allowance = float32 rounding of each term, 2e-6·Σ_i |term_i(x)|·(2 + decay exponent of term i at x)
            def allowance(fn, x, pname):
                p64 = np.array(par.scaled_parameters(sym, pname), dtype=np.float64)
                amp_rows = [0, 2] if name == "kirkland" else [0]
                tot = np.zeros_like(x)
                for j in range(p64.shape[1]):
                    for row_ in amp_rows:  # one term at a time
                        q = p64.copy()
                        for other in amp_rows:
                            q[other, :] = 0.0
                        q[row_, j] = p64[row_, j]
                        t = np.abs(np.asarray(fn(x, q), dtype=float))
                        tot += t * (2.0 + np.abs(np.log(np.maximum(t, 1e-300) / max(t.max(), 1e-300))))
                return 2e-6 * tot

            kk = k[:241]
            fa = np.asarray(par.scattering_factor(sym)(kk ** 2), dtype=float)
            va = np.asarray(par.potential(sym)(r), dtype=float)
            tf, tv = allowance(sf_fn, kk ** 2, "scattering_factor"), allowance(pot_fn, r, "potential")
            if not (np.abs(fa - f[:241]) <= tf).all() or not (np.abs(va - v) <= tv).all():
                ctx.violation(f"{tag}:public-api-differs-from-float64-kernels", case,
                              {"sf worst / allowance": float((np.abs(fa - f[:241]) / tf).max()), "pot worst / allowance": float((np.abs(va - v) / tv).max())})
            # sign and monotonicity of the API callables themselves (beyond their float32 allowance)
            if rec is None and (not (fa > -tf).all() or not (np.diff(fa) < tf[1:] + tf[:-1]).all()
                                or not (va > -tv).all() or not (np.diff(va) < tv[1:] + tv[:-1]).all()):
                ctx.violation(f"{tag}:public-api-callable-not-positive-decreasing", case, {"min sf": float(fa.min()), "min pot": float(va.min())})
        elif kind == "transforms":  # VALIDATION by quadrature (the transform pairs are not formalised)
            from scipy.integrate import quad
            from scipy.special import j0

            V = par.potential(sym)
            vp = par.projected_potential(sym)
            psf = par.projected_scattering_factor(sym)
            sf = par.scattering_factor(sym)
            R = case["R"]
            # analytic projection of the 3-D potential
            num = 2 * quad(lambda z: float(V(np.array([np.sqrt(R * R + z * z)]))[0]), 0, 60, limit=400, epsabs=0, epsrel=1e-9)[0]
            ana = float(np.asarray(vp(np.array([R])))[0])
            if abs(num - ana) > 2e-4 * abs(ana):
                ctx.violation(f"{case['parametrization']}-projected-potential-is-not-the-projection", case, {"quadrature": num, "analytic": ana})
            k = case["k"]
            # 2-D Fourier (Hankel) transform of the projected potential
            pieces = np.linspace(0, 40, 161)
            h = sum(quad(lambda r: float(np.asarray(vp(np.array([r])))[0]) * j0(2 * np.pi * k * r) * r, a, b, limit=200, epsabs=0, epsrel=1e-10)[0]
                    for a, b in zip(pieces[:-1], pieces[1:]))
            num2 = 2 * np.pi * h
            ana2 = float(np.asarray(psf(np.array([k * k])))[0])
            if abs(num2 - ana2) > 5e-4 * abs(ana2):
                ctx.violation(f"{case['parametrization']}-projected-scattering-factor-is-not-the-2d-transform", case, {"quadrature": num2, "analytic": ana2})
            # 3-D Fourier transform of the potential
            g = sum(quad(lambda r: float(V(np.array([r]))[0]) * (np.sinc(2 * k * r)) * r * r, a, b, limit=200, epsabs=0, epsrel=1e-10)[0]
                    for a, b in zip(pieces[:-1], pieces[1:]) if b > 0)
            num3 = 4 * np.pi * g * kappa
            ana3 = float(np.asarray(sf(np.array([k * k])))[0])
            if abs(num3 - ana3) > 5e-4 * abs(ana3):
                ctx.violation(f"{case['parametrization']}-scattering-factor-is-not-the-3d-transform", case, {"quadrature": num3, "analytic": ana3})
        else:
            raise ValueError(kind)

    def conformance(self, ctx: Ctx):
        rng = ctx.rng
        # every element of every table in both tiers (the float64 sign oracle costs milliseconds per element)
        for name, tbl in (("lobato", "lobato"), ("kirkland", "kirkland"), ("peng", "peng_high"), ("peng", "peng_low"), ("peng", "peng_ionic")):
            n_before = ctx.evaluations
            for sym in load_exact(tbl):
                case = dict(parametrization=name, symbol=sym, check="signs")
                if tbl in ("peng_low", "peng_ionic"):
                    case["table"] = TABLES[tbl]
                self.oracle(ctx, case)
                ctx.count(f"signs:{tbl}")
                ctx.case(case)
            if ctx.evaluations == n_before:
                ctx.violation(f"{tbl}:sign-oracle-never-exercised", {"table": tbl}, {})
        fixed = [dict(parametrization="peng", symbol="Ra", R=0.5, k=0.5), dict(parametrization="lobato", symbol="He", R=0.5, k=0.5),
                 dict(parametrization="kirkland", symbol="H", R=0.25, k=1.0)]
        for i in range(ctx.n(10, 60)):
            case = dict(fixed[i]) if i < len(fixed) else dict(
                parametrization=rng.choice(["lobato", "kirkland", "peng"]), symbol=rng.choice(["C", "Si", "Cu", "Au", "O", "Sr", "Fe", "U", "Li"]),
                R=rng.choice([0.25, 0.5, 1.0]), k=rng.choice([0.25, 0.5, 1.0]))
            case["check"] = "transforms"
            self.oracle(ctx, case)
            ctx.count(f"transforms:{case['parametrization']}")
            ctx.case(case)

    def replay(self, ctx: Ctx, case):
        self.oracle(ctx, case)


if __name__ == "__main__":
    sys.exit(run_property(C25()))
