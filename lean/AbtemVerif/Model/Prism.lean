/-
C06 — executable model of the crop index arithmetic of the PRISM reduction
(`abtem/prism/utils.py`: `wrapped_slices`, `wrapped_crop_2d`, `minimum_crop`, `batch_crop_2d`, as used by
`SMatrixArray._reduce_to_waves`) around the generated definitions of `Gen/Prism.lean`.

Arrays are total functions `Nat → Nat → α` together with their shape; blocks are `List (List α)` (rows).
numpy semantics that matter are modelled as they are: Python slice clamping, `np.pad(mode="wrap")`,
`concatenate` (shape check along the other axis), `.size == 0` tests, `rint` (round half to even),
advanced-index bounds (`IndexError`).
-/
import AbtemVerif.Gen.Prism
namespace AbtemVerif.Prism
open AbtemVerif.Gen.Prism AbtemVerif.Py

/-- indices selected by a Python slice (step 1) on an axis of length `n` -/
def PySlice.indices (s : PySlice) (n : Nat) : List Nat :=
  let clamp (i : Int) : Nat := if i < 0 then (i + n).toNat else min i.toNat n
  let a := match s.start with | none => 0 | some i => clamp i
  let b := match s.stop with | none => n | some i => clamp i
  (List.range (b - a)).map (· + a)

/-- `array[..., rows, cols]` for index lists (basic slices already expanded) -/
def take2 {α} (x : Nat → Nat → α) (rows cols : List Nat) : List (List α) :=
  rows.map fun i => cols.map fun j => x i j

/-- numpy `.size` of a 2-D block -/
def size2 {α} (b : List (List α)) : Nat := (b.map List.length).sum

/-- `concatenate([a, b], axis=-1)`: the row counts must agree (numpy raises ValueError otherwise) -/
def hcat {α} (a b : List (List α)) : Except String (List (List α)) :=
  if a.length = b.length then .ok (List.zipWith (· ++ ·) a b) else .error "value_error"

/-- `concatenate([a, b], axis=-2)`: the column counts must agree -/
def vcat {α} (a b : List (List α)) : Except String (List (List α)) :=
  if (a ++ b).all (fun r => r.length = ((a ++ b).headD []).length) then .ok (a ++ b) else .error "value_error"

/-- indices read by `np.pad(x, (pl, pr), mode="wrap")[start:stop]` along one axis of length `n` -/
def padWrapIndices (n : Nat) (pl pr : Int) (start stop : Int) : List Nat :=
  let len := (pl + n + pr).toNat
  ((PySlice.mk (some start) (some stop)).indices len).map fun (j : Nat) => (((j : Int) - pl) % (n : Int)).toNat

/-- `X if Y.size == 0 … elif …: concatenate([X, Y], axis=-2)` of `wrapped_crop_2d` -/
def vcatOr {α} (A B : List (List α)) : Except String (List (List α)) :=
  if size2 A = 0 then .ok B else if size2 B = 0 then .ok A else vcat A B

/-- the final `if CD.size == 0: return AB; if AB.size == 0: return CD; return concatenate([AB, CD], axis=-1)` -/
def hcatOr {α} (AB CD : List (List α)) : Except String (List (List α)) :=
  if size2 CD = 0 then .ok AB else if size2 AB = 0 then .ok CD else hcat AB CD

/-- the block assembly of `wrapped_crop_2d` from the four index lists (rows `a`, `c`; columns `b`, `d`) -/
def assemble {α} (x : Nat → Nat → α) (ai ci bi di : List Nat) : Except String (List (List α)) :=
  match vcatOr (take2 x ai bi) (take2 x ci bi) with
  | .error e => .error e
  | .ok AB =>
    match vcatOr (take2 x ai di) (take2 x ci di) with
    | .error e => .error e
    | .ok CD => hcatOr AB CD

/-- `wrapped_crop_2d(array, corner, size)` on an `n0 × n1` array -/
def wrappedCrop2d {α} (x : Nat → Nat → α) (n0 n1 : Nat) (corner size : Int × Int) : Except String (List (List α)) :=
  let upper := upperCorner corner.1 size.1 corner.2 size.2
  match wrappedSlices corner.1 upper.1 n0, wrappedSlices corner.2 upper.2 n1 with
  | .ok (a, c), .ok (b, d) => assemble x (a.indices n0) (c.indices n0) (b.indices n1) (d.indices n1)
  | _, _ =>
    -- `except RuntimeError`: pad both axes periodically and slice
    let p0 := padAmounts corner.1 n0 size.1
    let p1 := padAmounts corner.2 n1 size.2
    let rows := padWrapIndices n0 p0.1 p0.2 (padSliceStart corner.1 p0.1 size.1) (padSliceStop corner.1 p0.1 size.1)
    let cols := padWrapIndices n1 p1.1 p1.2 (padSliceStart corner.2 p1.1 size.2) (padSliceStop corner.2 p1.1 size.2)
    .ok (take2 x rows cols)

/-- numpy `rint`: round half to even -/
def pyRint (x : Rat) : Int :=
  let f := x.floor
  let r := x - f
  if r < 1/2 then f else if r > 1/2 then f + 1 else if f % 2 = 0 then f else f + 1

def minL (l : List Int) : Int := l.foldl min (l.headD 0)
def maxL (l : List Int) : Int := l.foldl max (l.headD 0)

/-- `minimum_crop(positions, shape)`: `(crop_corner, size, corners)`; `positions` in pixels, at least one -/
def minimumCrop (pos : List (Rat × Rat)) (w : Nat × Nat) : (Int × Int) × (Int × Int) × List (Int × Int) :=
  let off := cropOffset w.1 w.2
  let corners := pos.map fun p => (pyRint (p.1 - off.1), pyRint (p.2 - off.2))
  let upper := corners.map fun c => (c.1 + (w.1 : Int), c.2 + (w.2 : Int))
  let cc := (minL (corners.map (·.1)), minL (corners.map (·.2)))
  let size := cropSize (maxL (upper.map (·.1))) cc.1 (maxL (upper.map (·.2))) cc.2
  (cc, size, corners.map fun c => (c.1 - cc.1, c.2 - cc.2))

/-- numpy advanced indexing with an integer that may be negative; out of range is an IndexError -/
def advIndex {α} (l : List α) (i : Int) : Except String α :=
  let n : Int := l.length
  if i < -n ∨ i ≥ n then .error "index_error"
  else match l[(if i < 0 then i + n else i).toNat]? with
    | some a => .ok a
    | none => .error "index_error"

/-- `batch_crop_2d(array, corners, new_shape)` for one batch member -/
def batchCrop {α} (block : List (List α)) (corner : Int × Int) (w : Nat × Nat) : Except String (List (List α)) :=
  (List.range w.1).mapM fun (i : Nat) => do
    let row ← advIndex block (batchIndexX i corner.1)
    (List.range w.2).mapM fun (j : Nat) => advIndex row (batchIndexY j corner.2)

/-- the cropping part of `SMatrixArray._reduce_to_waves` (window smaller than the grid): the windows cut from one
plane `x` for a batch of positions (`pixel` = position / sampling − window_offset) -/
def reduceWindows {α} (x : Nat → Nat → α) (n0 n1 : Nat) (w : Nat × Nat) (pixel : List (Rat × Rat)) :
    Except String (List (List (List α))) := do
  let (cc, size, corners) := minimumCrop pixel w
  let block ← wrappedCrop2d x n0 n1 cc size
  corners.mapM fun c => batchCrop block c w

/-- `tensordot(position_coefficients, array, axes=[-1, -3])` for one position: `Σ_k c_k · block_k`, pixel by pixel, on
blocks of shape `s0 × s1` -/
def combine {α} [Add α] [Mul α] [Zero α] (cs : List α) (blocks : List (List (List α))) (s0 s1 : Nat) : List (List α) :=
  (List.range s0).map fun (i : Nat) => (List.range s1).map fun (j : Nat) =>
    ((cs.zip blocks).map fun cb => cb.1 * ((cb.2.getD i []).getD j 0)).sum

/-- the window branch of `SMatrixArray._reduce_to_waves` as the code runs it: crop every plane `S_k` of the scattering
matrix to the common block, combine the cropped planes with the coefficients of each position, then cut each position's
window out of its combined block.  `coeffs[p]` are the coefficients `c_k` of position `p`. -/
def reduceToWaves {α} [Add α] [Mul α] [Zero α] (planes : List (Nat → Nat → α)) (n0 n1 : Nat) (w : Nat × Nat)
    (pixel : List (Rat × Rat)) (coeffs : List (List α)) : Except String (List (List (List α))) := do
  let (cc, size, corners) := minimumCrop pixel w
  let blocks ← planes.mapM fun S => wrappedCrop2d S n0 n1 cc size
  (corners.zip coeffs).mapM fun cp => batchCrop (combine cp.2 blocks size.1.toNat size.2.toNat) cp.1 w

/-- what the property asks for: the window of position `p` is the periodic window whose corner is
`rint(p − w // 2)`, independently of the other positions of the batch -/
def expectedWindow {α} (x : Nat → Nat → α) (n0 n1 : Nat) (w : Nat × Nat) (p : Rat × Rat) : List (List α) :=
  let off := cropOffset w.1 w.2
  let c0 := pyRint (p.1 - off.1)
  let c1 := pyRint (p.2 - off.2)
  (List.range w.1).map fun (i : Nat) => (List.range w.2).map fun (j : Nat) =>
    x ((c0 + i) % (n0 : Int)).toNat ((c1 + j) % (n1 : Int)).toNat

end AbtemVerif.Prism
