/-
Executable Float twin of the probe / plane-wave model of Props/C05.lean: the same composition around the *generated*
Float formulas of Gen/ProbeF.lean and Gen/FftShiftF.lean (abtem/waves.py, abtem/transfer.py, abtem/core/fft.py).
Core Lean only.
-/
import AbtemVerif.Gen.Probe
import AbtemVerif.Gen.ProbeF
import AbtemVerif.Gen.FftShiftF
import AbtemVerif.Model.Propagator
namespace AbtemVerif.ProbeModel
open AbtemVerif.Gen.ProbeF AbtemVerif.Gen.FftShiftF AbtemVerif.PropagatorModel

/-- `Aperture._evaluate_from_angular_grid` at one pixel (`cutoff = none`: `semiangle_cutoff == inf`) -/
def probeApertureF (soft zeroPixel : Bool) (cutoff : Option Float) (alpha phi s0 s1 : Float) : Float :=
  match cutoff with
  | none => 1
  | some c =>
    if soft then
      (if zeroPixel then softAtZero
       else softClip c alpha (softDenominator phi s0 s1))
    else (if hardTest alpha c then 1 else 0)

/-- `fft_shift_kernel` at one pixel -/
def scanKernelF (kx ky x y : Float) : CF := (cexpF (shiftPhase kx x)).mul (cexpF (shiftPhase ky y))

/-- `w · complex_exponential(-χ)` -/
def aberrationF (w chi : Float) : CF := (cexpF (aberrationPhase chi)).scale w

def energyF (ys : List CF) : Float := ys.foldl (fun acc c => acc + (c.re * c.re + c.im * c.im)) 0

/-- `_WavesNormalization(space="reciprocal")` on one reciprocal-space member -/
def normalizeF (ys : List CF) : List CF :=
  let f := normFactor (energyF ys)
  ys.map fun c => ⟨c.re / f, c.im / f⟩

structure Pixel where
  kx : Float
  ky : Float
  alpha : Float
  phi : Float
  chi : Float
  zero : Bool

/-- reciprocal-space array of `Probe._calculate_array` before the final ifft2: the scan kernel, then the top-level calls of the
function in their *generated* source order (`Gen.Probe.probeOps`; `Waves(...)`, `tilt.apply`, `ensure_real_space` leave the array alone) -/
def probeSpectrumF (soft : Bool) (cutoff : Option Float) (s0 s1 x y w : Float) (px : List Pixel) : Except String (List CF) :=
  let kernel := px.map fun p => scanKernelF p.kx p.ky x y
  AbtemVerif.Gen.Probe.probeOps.foldlM (fun ys op =>
    if op = "waves_builder.aperture.apply" then
      .ok (List.zipWith (fun (c : CF) (p : Pixel) => c.scale (probeApertureF soft p.zero cutoff p.alpha p.phi s0 s1)) ys px)
    else if op = "waves_builder.aberrations.apply" then
      .ok (List.zipWith (fun (c : CF) (p : Pixel) => c.mul (aberrationF w p.chi)) ys px)
    else if op = "waves.normalize" then .ok (normalizeF ys)
    else if op = "waves_builder.scan_positions._evaluate_kernel" || op = "Waves" || op = "waves_builder.tilt.apply"
        || op = "waves.ensure_real_space" then .ok ys
    else .error s!"unknown-op:{op}") kernel

end AbtemVerif.ProbeModel
