/-
C15 — index-level model of `_fft_interpolation_masks_1d`, `fft_interpolation_masks` (one axis) and the masked copy of
`fft_crop` (abtem/core/fft.py).  The tests and slice bounds are the *generated* expressions of Gen/FftCrop.lean; the
hand part is Python's slice normalisation and numpy's boolean-mask assignment
`new_array[mask_out] = array[mask_in]` (k-th selected input -> k-th selected output; unequal counts raise).
Core Lean only.
-/
import AbtemVerif.Gen.FftCrop
namespace AbtemVerif.FftCrop
open AbtemVerif.Gen.FftCrop

/-- normalised bound of a Python slice `[:b]` / `[b:]` on a sequence of length `n` (negative bounds count from the end) -/
def pyBound (n : Nat) (b : Int) : Nat := if b < 0 then ((n : Int) + b).toNat else min b.toNat n

/-- entry `j` of `mask1` (input mask, length `n1`) -/
def mask1 (n1 n2 : Nat) (j : Nat) : Bool :=
  if upTest n1 n2 then true
  else if downOne n2 then j == 0
  else if downEven n2 then decide (j < pyBound n1 (downEvenLo n2)) || decide (pyBound n1 (downEvenHi n2) ≤ j)
  else decide (j < pyBound n1 (downOddLo n2)) || decide (pyBound n1 (downOddHi n2) ≤ j)

/-- entry `j` of `mask2` (output mask, length `n2`) -/
def mask2 (n1 n2 : Nat) (j : Nat) : Bool :=
  if upTest n1 n2 then
    (if upOne n1 then j == 0
     else if upEven n1 then decide (j < pyBound n2 (upEvenLo n1)) || decide (pyBound n2 (upEvenHi n1) ≤ j)
     else decide (j < pyBound n2 (upOddLo n1)) || decide (pyBound n2 (upOddHi n1) ≤ j))
  else true

/-- `_fft_interpolation_masks_1d(n1, n2)` -/
def masks1d (n1 n2 : Nat) : List Bool × List Bool :=
  ((List.range n1).map (mask1 n1 n2), (List.range n2).map (mask2 n1 n2))

def selected1 (n1 n2 : Nat) : List Nat := (List.range n1).filter (mask1 n1 n2)
def selected2 (n1 n2 : Nat) : List Nat := (List.range n2).filter (mask2 n1 n2)

/-- the (input index, output index) pairs of `new_array[mask_out] = array[mask_in]` along one axis -/
def cropPairs (n1 n2 : Nat) : Except String (List (Nat × Nat)) :=
  if (selected1 n1 n2).length ≠ (selected2 n1 n2).length then .error "value_error"
  else .ok ((selected1 n1 n2).zip (selected2 n1 n2))

/-- `fft_crop` of a 1-D coefficient list to length `n2` (zeros elsewhere) -/
def crop1d {α} (zero : α) (x : List α) (n2 : Nat) : Except String (List α) := do
  let ps ← cropPairs x.length n2
  pure ((List.range n2).map fun j =>
    match ps.find? (fun p => p.2 == j) with
    | some p => x.getD p.1 zero
    | none => zero)

/-- `_fft_crop_fold` along one axis (real input, since fix of F16): the plain masked copy, and — when the axis is cropped to an even
length (generated test `foldTest`) — the source coefficient at the generated index `foldIndex` (+Nyquist of the short axis) is added
onto the same position of the cropped axis (its −Nyquist slot) -/
def cropFold1d (x : List Int) (n2 : Nat) : Except String (List Int) := do
  let c ← crop1d (0 : Int) x n2
  if foldTest x.length n2 then
    let k := (foldIndex n2).toNat
    pure (c.set k (c.getD k 0 + x.getD k 0))
  else pure c

/-- crop along the two last axes of a row-major 2-D array (separable: columns within each row, then rows) -/
def crop2d {α} (zero : α) (x : List (List α)) (m1 m2 : Nat) : Except String (List (List α)) := do
  let rows ← x.mapM (fun r => crop1d zero r m2)
  crop1d (List.replicate m2 zero) rows m1

end AbtemVerif.FftCrop
