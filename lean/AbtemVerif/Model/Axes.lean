/-
C35 — executable model of the axis metadata of abtem/core/axes.py.

The class table (`Gen/Axes.lean`: class names, base classes, own fields with defaults) is regenerated from the
source on every run; everything here is derived from it:

* `fieldsOf cls`     — the dataclass constructor signature (fields of the base chain first; a redefined field keeps
                       its position and takes the new default), i.e. what `dataclasses.fields` / `asdict` enumerate;
* `construct`        — `cls(**kwargs)` incl. the TypeError for an unknown keyword and `OrdinalAxis.__post_init__`;
* `toDict/fromDict`  — `axis_to_dict` / `axis_from_dict` (`AxisMetadata.to_dict/from_dict` are the same code);
* `getitem`          — `OrdinalAxis.__getitem__` for a number, a slice, an integer index list and a boolean mask
                       (numpy object-array indexing), `concat` — `OrdinalAxis.concatenate` / `AxisMetadata.concatenate`;
* `coordinates`      — `AxisMetadata.coordinates` (arange), `LinearAxis.coordinates` (linspace), `OrdinalAxis.coordinates`.

Not modelled: numpy arrays as field values (`tolist` conversion), formatting / labels / units conversion,
`safe_equality` on mixed types (the model compares same-kind values; numbers with `numpy.allclose` semantics).
-/
import AbtemVerif.Model.AxisValue
import AbtemVerif.Model.Linspace
import AbtemVerif.Model.Scan
import AbtemVerif.Gen.Axes
namespace AbtemVerif.Axes
open AbtemVerif.Gen.Axes AbtemVerif.Np

abbrev Fields := List (String × V)
abbrev ClassTable := List (String × Option String × Fields)

structure Axis where
  cls : String
  fields : Fields
deriving Repr

def lookupClass (t : ClassTable) (c : String) : Option (Option String × Fields) :=
  (t.find? (fun r => r.1 == c)).map (fun r => r.2)

/-- merge the own fields of a subclass into the inherited ones: a redefined field keeps its position with the
new default, new fields are appended -/
def mergeFields (inherited own : Fields) : Fields :=
  let updated := inherited.map fun (k, v) => match own.lookup k with
    | some v' => (k, v')
    | none => (k, v)
  updated ++ own.filter fun (k, _) => (inherited.lookup k).isNone

/-- constructor signature of a class (fuel bounds the length of the base chain) -/
def fieldsOfFuel (t : ClassTable) : Nat → String → Option Fields
  | 0, _ => none
  | fuel + 1, c =>
    match lookupClass t c with
    | none => none
    | some (none, own) => some own
    | some (some b, own) => (fieldsOfFuel t fuel b).map fun inh => mergeFields inh own

def fieldsOf (c : String) : Option Fields := fieldsOfFuel axisClasses axisClasses.length c

/-- `issubclass(c, b)` -/
def isSubclassFuel (t : ClassTable) : Nat → String → String → Bool
  | 0, _, _ => false
  | fuel + 1, c, b =>
    if c == b then true else
    match lookupClass t c with
    | some (some p, _) => isSubclassFuel t fuel p b
    | _ => false

def isSubclass (c b : String) : Bool := isSubclassFuel axisClasses axisClasses.length c b

def isOrdinal (c : String) : Bool := isSubclass c "OrdinalAxis"
def isLinear (c : String) : Bool := isSubclass c "LinearAxis"

/-- `OrdinalAxis.__post_init__`: a non-tuple `values` is turned into a tuple (a number into a 1-tuple, a string into
its characters); something that cannot be iterated raises ValueError -/
def normValues : V → Except String V
  | .tup l => .ok (.tup l)
  | .num q => .ok (.tup [.num q])
  | .bool b => .ok (.tup [.bool b])
  | .str s => .ok (.tup (s.toList.map fun ch => V.str (String.singleton ch)))
  | .none => .error "value_error"

def setField (fs : Fields) (k : String) (v : V) : Fields := fs.map fun (k', v') => if k' == k then (k', v) else (k', v')

/-- `cls(**kwargs)` -/
def construct (c : String) (kwargs : Fields) : Except String Axis :=
  match fieldsOf c with
  | none => .error "key_error"
  | some sig =>
    if kwargs.any (fun (k, _) => (sig.lookup k).isNone) then .error "type_error"
    else
      let fs : Fields := sig.map fun (k, d) => (k, (kwargs.lookup k).getD d)
      if isOrdinal c then
        match normValues ((fs.lookup "values").getD (.tup [])) with
        | .error e => .error e
        | .ok v => .ok { cls := c, fields := setField fs "values" v }
      else .ok { cls := c, fields := fs }

/-- `axis_to_dict` : `dataclasses.asdict(axis)` plus the `"type"` entry -/
def toDict (a : Axis) : Fields := a.fields ++ [("type", V.str a.cls)]

/-- `axis_from_dict` : `globals()[d["type"]](**{k: v for k, v in d.items() if k != "type"})` -/
def fromDict (d : Fields) : Except String Axis :=
  match d.lookup "type" with
  | some (.str c) => construct c (d.filter fun (k, _) => k != "type")
  | _ => .error "key_error"

def values (a : Axis) : List V :=
  match a.fields.lookup "values" with
  | some (.tup l) => l
  | _ => []

/-! ### indexing -/

inductive Item where
  | idx (i : Int)
  | slice (start stop step : Option Int)
  | ints (l : List Int)
  | mask (l : List Bool)
deriving Repr

/-- Python `range(*slice(start, stop, step).indices(n))` -/
def sliceIndices (start stop step : Option Int) (n : Nat) : Except String (List Nat) :=
  let st := step.getD 1
  let len : Int := n
  if st = 0 then .error "value_error"
  else if st > 0 then
    let clamp (i : Int) : Int := if i < 0 then max (i + len) 0 else min i len
    let lo := (start.map clamp).getD 0
    let hi := (stop.map clamp).getD len
    let cnt : Nat := if hi > lo then ((hi - lo + st - 1) / st).toNat else 0
    .ok ((List.range cnt).map fun (k : Nat) => (lo + (k : Int) * st).toNat)
  else
    let clamp (i : Int) : Int := if i < 0 then max (i + len) (-1) else min i (len - 1)
    let lo := (start.map clamp).getD (len - 1)
    let hi := (stop.map clamp).getD (-1)
    let cnt : Nat := if lo > hi then ((lo - hi + (-st) - 1) / (-st)).toNat else 0
    .ok ((List.range cnt).map fun (k : Nat) => (lo + (k : Int) * st).toNat)

/-- a (possibly negative) index into a sequence of length `n` -/
def wrapIndex (i : Int) (n : Nat) : Option Nat :=
  if 0 ≤ i ∧ i < n then some i.toNat else if i < 0 ∧ -(n : Int) ≤ i then some (i + n).toNat else none

/-- the selected positions -/
def select {α} (l : List α) : Item → Except String (List α)
  | .idx i => match wrapIndex i l.length with
    | some k => .ok (l.drop k |>.take 1)
    | none => .error "index_error"
  | .slice a b c => (sliceIndices a b c l.length).map fun ks => ks.filterMap fun k => l[k]?
  | .ints is =>
    if is.all (fun i => (wrapIndex i l.length).isSome) then
      .ok (is.filterMap fun i => (wrapIndex i l.length).bind fun k => l[k]?)
    else .error "index_error"
  | .mask m =>
    if m.length ≠ l.length ∧ m.length ≠ 0 then .error "index_error"  -- numpy accepts an empty boolean index
    else .ok ((l.zip m).filterMap fun (x, b) => if b then some x else none)

def numField? (a : Axis) (k : String) : Option Rat :=
  match a.fields.lookup k with
  | some (.num q) => some q
  | some (.bool b) => some (if b then 1 else 0)
  | _ => none

/-- `axis[item]`:
* `OrdinalAxis.__getitem__` : same class, same fields, `values` replaced by the selected ones;
* `LinearAxis.__getitem__` : only a forward slice (`start ≥ 0`, `step ≥ 1`; the stop is ignored) — the linear axis that starts at
  the first selected coordinate, `offset + start·sampling`, with sampling `sampling·step`; anything else raises TypeError;
* every other axis class is not subscriptable (TypeError). -/
def getitem (a : Axis) (it : Item) : Except String Axis :=
  if isOrdinal a.cls then
    match select (values a) it with
    | .error e => .error e
    | .ok vs => construct a.cls (setField a.fields "values" (.tup vs))
  else if isSubclass a.cls "LinearAxis" then
    match it with
    | .slice st _ sp =>
      let start := st.getD 0
      let step := sp.getD 1
      if start < 0 ∨ step < 1 then .error "type_error"
      else
        match numField? a "offset", numField? a "sampling" with
        | some o, some d =>
          construct a.cls (setField (setField a.fields "offset" (.num (o + (start : Rat) * d))) "sampling" (.num (d * (step : Rat))))
        | _, _ => .error "type_error"
    | _ => .error "type_error"
  else .error "type_error"

/-! ### equality of fields (`safe_equality`) and concatenation -/

/-- `numpy.isclose` with default tolerances -/
def isclose (a b : Rat) : Bool :=
  decide ((if 0 ≤ a - b then a - b else -(a - b)) ≤ (1 : Rat) / 100000000 + (1 : Rat) / 100000 * (if 0 ≤ b then b else -b))

/-- what `safe_equality` decides for two field values of the same kind -/
def fieldEq : V → V → Bool
  | .num a, .num b => isclose a b
  | a, b => a == b

/-- all fields except `exclude` agree -/
def fieldsEq (a b : Fields) (exclude : String) : Bool :=
  a.all fun (k, v) => k == exclude || match b.lookup k with
    | some w => fieldEq v w
    | none => false

/-- `OrdinalAxis.concatenate(other)` for an ordinal `self`, `AxisMetadata.concatenate(other)` otherwise -/
def concat (a b : Axis) : Except String Axis :=
  if isOrdinal a.cls then
    if isSubclass b.cls a.cls && fieldsEq a.fields b.fields "values" then
      construct a.cls (setField a.fields "values" (.tup (values a ++ values b)))
    else .error "runtime_error"
  else if isLinear a.cls then
    -- `LinearAxis.concatenate`: pieces that differ only in their offset join to the first piece; else the base rule
    if (a.fields.lookup "_concatenate") == some (V.bool true) && isLinear b.cls && isSubclass b.cls a.cls
        && fieldsEq a.fields (setField b.fields "offset" ((a.fields.lookup "offset").getD V.none)) "" then .ok a
    else .error "runtime_error"
  else
    if (a.fields.lookup "_concatenate") == some (V.bool true) && isSubclass b.cls a.cls && fieldsEq a.fields b.fields "" then .ok a
    else .error "runtime_error"

/-! ### coordinates -/

/-- `axis.coordinates(n)` -/
def coordinates (a : Axis) (n : Int) : Except String (List V) :=
  if isOrdinal a.cls then .ok (values a)
  else if isLinear a.cls then
    match numField? a "offset", numField? a "sampling" with
    | some o, some d => (AbtemVerif.Scan.axisCoordinates o d n).map fun l => l.map V.num
    | _, _ => .error "type_error"
  else if n < 0 then .ok [] else .ok ((arange n.toNat).map V.num)

end AbtemVerif.Axes
