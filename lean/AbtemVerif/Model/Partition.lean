/-
Core-only definitions shared by the partition / chunking models (C18, C19, C01, C02, C10).
Lemmas about them live in `AbtemVerif/Lib/Partition.lean`.

Python idioms modelled:
  `xs[start:start+c]` for consecutive starts            → `splitBy cs xs`
  `chunk_ranges` of one dimension (start, stop) pairs   → `ranges cs`
  `xs[a:b]` with `0 ≤ a ≤ b`                             → `sliceRange xs (a, b)`
  `np.concatenate(blocks)`                               → `List.flatten`
-/
namespace AbtemVerif.Partition

/-- consecutive blocks of the given sizes (a short tail is truncated like a Python slice) -/
def splitBy {α} : List Nat → List α → List (List α)
  | [], _ => []
  | c :: cs, xs => xs.take c :: splitBy cs (xs.drop c)

/-- `(start, stop)` of consecutive chunks, first chunk starting at `start` -/
def rangesFrom (start : Nat) : List Nat → List (Nat × Nat)
  | [] => []
  | c :: cs => (start, start + c) :: rangesFrom (start + c) cs

/-- `chunk_ranges` for one dimension -/
def ranges (cs : List Nat) : List (Nat × Nat) := rangesFrom 0 cs

/-- Python `xs[a:b]` for `0 ≤ a`, `0 ≤ b` -/
def sliceRange {α} (xs : List α) (r : Nat × Nat) : List α := (xs.drop r.1).take (r.2 - r.1)

/-- global index → (block index, index inside the block); `none` past the end -/
def locate : List Nat → Nat → Option (Nat × Nat)
  | [], _ => none
  | c :: cs, k => if k < c then some (0, k) else (locate cs (k - c)).map fun (b, l) => (b + 1, l)

/-- start offset of block `b` -/
def blockStart (cs : List Nat) (b : Nat) : Nat := (cs.take b).sum

/-- all block multi-indices of an n-dimensional chunking, row-major (`itertools.product` / `np.ndindex`) -/
def product {α} : List (List α) → List (List α)
  | [] => [[]]
  | xs :: rest => xs.flatMap fun x => (product rest).map fun t => x :: t

end AbtemVerif.Partition
