/-
C40 — hand model of `DiffractionPatterns._com / center_of_mass / coordinates` (abtem/measurements.py) around the
generated summands of `Gen/Com.lean`.  The pattern is an `nx × ny` table of exact rationals; coordinates are lists.
Core Lean only.

  `_com`            → `comX`, `comY`  (the two first moments; summands `array * x[:, None]`, `array * y[None]` generated)
  `coordinates`     → `coords` (`LinearAxis.coordinates` = half-open linspace from the lowest frequency; un-shifted
                       patterns: `ifftshift`), `angular_coordinates` → `FftGeom.angularCoords` (C14)
  `center_of_mass`  → `centerOfMass` (units "1/Å" | "mrad", ValueError otherwise)
-/
import AbtemVerif.Gen.Com
import AbtemVerif.Model.FftGeom
namespace AbtemVerif.Com
open AbtemVerif.Py AbtemVerif.Np AbtemVerif.Gen.Com AbtemVerif.FftGeom

def sumRange (n : Nat) (f : Nat → Rat) : Rat := ((List.range n).map f).sum

/-- `(array * x[:, None]).sum(axis=(-2, -1))` -/
def comX (nx ny : Nat) (I : Nat → Nat → Rat) (x : Nat → Rat) : Rat :=
  sumRange nx fun i => sumRange ny fun j => comXTerm (I i j) (x i)

/-- `(array * y[None]).sum(axis=(-2, -1))` -/
def comY (nx ny : Nat) (I : Nat → Nat → Rat) (y : Nat → Rat) : Rat :=
  sumRange nx fun i => sumRange ny fun j => comYTerm (I i j) (y j)

def total (nx ny : Nat) (I : Nat → Nat → Rat) : Rat := sumRange nx fun i => sumRange ny fun j => I i j

/-- `DiffractionPatterns.coordinates` for one axis [1/Å]: `linspace(lo, lo + s·n, n, endpoint=False)`, in FFT storage
order for un-shifted patterns -/
def coords (n : Nat) (s : Rat) (shifted : Bool) : List Rat :=
  let c := linspace (limits n s).1 ((limits n s).1 + s * n) n false
  if shifted then c else ifftshift c

/-- `center_of_mass(units)` of one pattern: `(com_x, com_y)`; `sx, sy` are the samplings in the requested unit -/
def centerOfMass (nx ny : Nat) (I : Nat → Nat → Rat) (sx sy : Rat) (shifted : Bool) (units : String) : Except String (Rat × Rat) :=
  if units = "mrad" then
    .ok (comX nx ny I (fun i => (angularCoords nx sx shifted).getD i 0), comY nx ny I (fun j => (angularCoords ny sy shifted).getD j 0))
  else if units = "1/Å" then
    .ok (comX nx ny I (fun i => (coords nx sx shifted).getD i 0), comY nx ny I (fun j => (coords ny sy shifted).getD j 0))
  else .error "value_error"

end AbtemVerif.Com
