/-
C40 — hand model of `DiffractionPatterns._com / center_of_mass / coordinates` (abtem/measurements.py) around the
generated summands of `Gen/Com.lean`.  The pattern is an `nx × ny` table of exact rationals; coordinates are lists.
Core Lean only.

  `_com`            → `momentX/Y` (first moments; summands generated), `total`, `comX`, `comY` (moment / guarded total;
                       division and zero guard generated)
  `coordinates`     → `coords` (`LinearAxis.coordinates` = half-open linspace from the lowest frequency; un-shifted
                       patterns: `ifftshift`), `angular_coordinates` → `FftGeom.angularCoords` (C14)
  `center_of_mass`  → `centerOfMass` (units "1/Å" | "mrad", ValueError otherwise)
-/
import AbtemVerif.Gen.Com
import AbtemVerif.Model.FftGeom
namespace AbtemVerif.Com
open AbtemVerif.Py AbtemVerif.Np AbtemVerif.Gen.Com AbtemVerif.FftGeom

def sumRange (n : Nat) (f : Nat → Rat) : Rat := ((List.range n).map f).sum

/-- first moment `(array * x[:, None]).sum(axis=(-2, -1))` -/
def momentX (nx ny : Nat) (I : Nat → Nat → Rat) (x : Nat → Rat) : Rat :=
  sumRange nx fun i => sumRange ny fun j => comXTerm (I i j) (x i)

/-- first moment `(array * y[None]).sum(axis=(-2, -1))` -/
def momentY (nx ny : Nat) (I : Nat → Nat → Rat) (y : Nat → Rat) : Rat :=
  sumRange nx fun i => sumRange ny fun j => comYTerm (I i j) (y j)

/-- `array.sum(axis=(-2, -1))` -/
def total (nx ny : Nat) (I : Nat → Nat → Rat) : Rat := sumRange nx fun i => sumRange ny fun j => I i j

/-- `com_x`: first moment divided by the total intensity (`where(total == 0, 1, total)`: empty patterns give 0) -/
def comX (nx ny : Nat) (I : Nat → Nat → Rat) (x : Nat → Rat) : Rat :=
  comXDiv (momentX nx ny I x) (comTotalGuard (total nx ny I))

/-- `com_y` -/
def comY (nx ny : Nat) (I : Nat → Nat → Rat) (y : Nat → Rat) : Rat :=
  comYDiv (momentY nx ny I y) (comTotalGuard (total nx ny I))

/-- `DiffractionPatterns.coordinates` for one axis [1/Å]: `linspace(lo, lo + s·n, n, endpoint=False)`, in FFT storage
order for un-shifted patterns -/
def coords (n : Nat) (s : Rat) (shifted : Bool) : List Rat :=
  let c := linspace (limits n s).1 ((limits n s).1 + s * n) n false
  if shifted then c else ifftshift c

/-- `center_of_mass(units)` of one pattern: `(com_x, com_y)`; `sx, sy` are the samplings in the requested unit -/
def centerOfMass (nx ny : Nat) (I : Nat → Nat → Rat) (sx sy : Rat) (shifted : Bool) (units : String) : Except String (Rat × Rat) :=
  if units = "mrad" then
    .ok (comX nx ny I (fun i => (angularCoords nx sx shifted).getD i 0), comY nx ny I (fun j => (angularCoords ny sy shifted).getD j 0))
  else if units = "1/Å" then
    .ok (comX nx ny I (fun i => (coords nx sx shifted).getD i 0), comY nx ny I (fun j => (coords ny sy shifted).getD j 0))
  else .error "value_error"

end AbtemVerif.Com
