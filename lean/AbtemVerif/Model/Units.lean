/-
C33 — hand model of `abtem/core/units.py`: `units_type`, `validate_units`,
`get_conversion_factor`, and of `LinearAxis.convert_units` (abtem/core/axes.py), around
the generated tables and formulas of `Gen/Units.lean` (`unitCategories`,
`conversionFactors pi`, `directFactor`, `angularFactor`).

`pi` is the rational stand-in for `np.pi` inside the table (the driver uses the float64
constant); `wavelength` is the value of `energy2wavelength(energy)` (uninterpreted here,
C24 is about that function).  Errors are the Python exception kinds.
-/
import AbtemVerif.Gen.Units
namespace AbtemVerif.Units
open AbtemVerif.Gen.Units

/-- `units_type = {unit: category for category, units in _unit_categories.items() for unit in units}`
(a later category would overwrite an earlier one) -/
def unitsType (u : String) : Option String :=
  unitCategories.foldl (fun acc cu => if cu.2.contains u then some cu.1 else acc) none

/-- `_conversion_factors[key]` -/
def factorOf (pi : Rat) (key : String) : Except String Rat :=
  match (conversionFactors pi).lookup key with
  | some f => .ok f
  | none => .error "key_error"

/-- the tail of `validate_units` once `units` is decided -/
def canonical (u : String) : Except String (Option String) :=
  match unitsType u with
  | none => .ok (some u)
  | some t =>
    if t = "real_space" then .ok (some (if u = "Angstrom" then "Å" else u))
    else if t = "reciprocal_space" then .ok (some (if u = "1/Angstrom" then "1/Å" else u))
    else if t = "angular" then .ok (some u)
    else .error "value_error"

/-- `validate_units(units, old_units)` -/
def validateUnits (units old : Option String) : Except String (Option String) :=
  match units, old with
  | none, none => .ok none
  | none, some o => canonical o
  | some u, none => canonical u
  | some u, some o =>
    match unitsType u, unitsType o with
    | some tu, some to => if tu ≠ to then .error "runtime_error" else canonical u
    | _, _ => .error "key_error"

/-- `validate_units` when the caller asserts the result is not None -/
def validated (units old : Option String) : Except String String :=
  match validateUnits units old with
  | .ok (some v) => .ok v
  | .ok none => .error "assertion_error"
  | .error e => .error e

/-- `get_conversion_factor(units, old_units, energy)`; `wavelength = energy.map energy2wavelength` -/
def conversionFactor (pi : Rat) (units old : Option String) (wavelength : Option Rat) : Except String Rat :=
  match units with
  | none => .ok 1
  | some u =>
    match old with
    | none => .error "runtime_error"
    | some o =>
      match unitsType o with
      | none => .error "key_error"
      | some to =>
        let general : Except String Rat := do
          let vu ← validated (some u) (some o)
          let vo ← validated (some o) none
          let fu ← factorOf pi vu
          let fo ← factorOf pi vo
          pure (directFactor fu fo)
        if to = "reciprocal_space" then
          match unitsType u with
          | none => .error "key_error"
          | some tu =>
            if tu = "angular" then
              match wavelength with
              | none => .error "runtime_error"
              | some w => do
                let vu ← validated (some u) (some "mrad")
                let vo ← validated (some o) none
                let fu ← factorOf pi vu
                let fo ← factorOf pi vo
                pure (angularFactor w fu fo)
            else general
        else general

/-- `LinearAxis.convert_units(units, energy=…)`: new `(units, sampling, offset)` -/
def convertAxis (pi : Rat) (axisUnits : String) (sampling offset : Rat) (units : String) (wavelength : Option Rat) :
    Except String (String × Rat × Rat) := do
  let c ← conversionFactor pi (some units) (some axisUnits) wavelength
  pure (units, sampling * c, offset * c)

end AbtemVerif.Units
