/-
Line-protocol helpers shared by every per-property driver (`AbtemVerif/Drive/Cxx.lean`).
Core Lean only (no Mathlib) so that drivers run with `lake env lean --run`.

Wire format (one request per line, one reply per line):
  tokens are separated by single spaces;
  Int      : optional '-' and decimal digits
  Rat      : `p/q` or `p` (exact; the Python side sends `fractions.Fraction(float)` so a
             float is transmitted as the exact dyadic rational it denotes)
  List     : comma separated, `_` for the empty list
  Option   : `none` or the value
  Bool     : `T` / `F`
-/
namespace AbtemVerif.Proto

def parseInt? (s : String) : Option Int := s.toInt?

def parseNat? (s : String) : Option Nat := s.toNat?

def parseRat? (s : String) : Option Rat :=
  match s.splitOn "/" with
  | [p] => (parseInt? p).map fun n => (n : Rat)
  | [p, q] => do
      let n ← parseInt? p
      let d ← parseNat? q
      if d = 0 then none else some (mkRat n d)
  | _ => none

def parseBool? (s : String) : Option Bool :=
  if s = "T" then some true else if s = "F" then some false else none

def parseList? {α} (f : String → Option α) (s : String) : Option (List α) :=
  if s = "_" then some [] else (s.splitOn ",").mapM f

def parseOpt? {α} (f : String → Option α) (s : String) : Option (Option α) :=
  if s = "none" then some none else (f s).map some

def showInt (i : Int) : String := toString i

def showRat (r : Rat) : String :=
  if r.den = 1 then toString r.num else s!"{r.num}/{r.den}"

def showBool (b : Bool) : String := if b then "T" else "F"

def showList {α} (f : α → String) (l : List α) : String :=
  if l.isEmpty then "_" else ",".intercalate (l.map f)

def showOpt {α} (f : α → String) : Option α → String
  | none => "none"
  | some a => f a

/-- nested list of ints, `;` between inner lists, `_` for empty inner, `~` for empty outer -/
def showListList {α} (f : α → String) (l : List (List α)) : String :=
  if l.isEmpty then "~" else ";".intercalate (l.map (showList f))

def parseListList? {α} (f : String → Option α) (s : String) : Option (List (List α)) :=
  if s = "~" then some [] else (s.splitOn ";").mapM (parseList? f)

def tokens (line : String) : List String :=
  (line.trimAscii.toString.splitOn " ").filter (· ≠ "")

/-- Run a pure request handler over stdin until EOF. -/
partial def loop (h : IO.FS.Stream) (handle : List String → String) : IO Unit := do
  let line ← h.getLine
  if line.isEmpty then return ()
  IO.println (handle (tokens line))
  loop h handle

/-- Stateful variant. -/
partial def loopS {σ} (h : IO.FS.Stream) (handle : σ → List String → σ × String) (s : σ) : IO Unit := do
  let line ← h.getLine
  if line.isEmpty then return ()
  let (s', out) := handle s (tokens line)
  IO.println out
  loopS h handle s'

def serve (handle : List String → String) : IO Unit := do
  loop (← IO.getStdin) handle

def serveS {σ} (handle : σ → List String → σ × String) (s : σ) : IO Unit := do
  loopS (← IO.getStdin) handle s

end AbtemVerif.Proto
