/-
C18 — model of abtem/core/chunks.py around the generated arithmetic (`Gen/Chunks.lean`).

Python values are modelled as they are: ints are `Int` (negative and zero chunk sizes flow through
exactly like in the code), a per-dimension chunk specification is a `Spec`, a whole `chunks`
argument a `ChunkArg`.  Exceptions are `Except String` with the kinds of `common.err_kind`.

  check_chunks_match_shape_length → `checkLength`        assert_chunks_match_shape → `assertMatch`
  fill_in_chunk_sizes             → `fillDim`, `fillIn`   validate_chunks           → `validateChunks`
  _auto_chunks                    → `classify`, `autoLoop` (zipper over the "auto" dims), `autoChunks`
  equal_sized_chunks              → `equalSizedChunks`    generate_chunks           → `generateChunks`
  chunk_ranges                    → `chunkRanges`         iterate_chunk_ranges      → `iterateChunkRanges`
-/
import AbtemVerif.Gen.Chunks
import AbtemVerif.Model.Partition
namespace AbtemVerif.Chunks
open AbtemVerif.Py AbtemVerif.Gen.Chunks

/-- one entry of a `chunks` tuple -/
inductive Spec where
  | int (c : Int)          -- an int (−1 = whole dimension)
  | auto                   -- the string "auto"
  | str                    -- any other string
  | tup (cs : List Int)    -- explicit tuple of ints
  | bad                    -- anything else (None)
  deriving Repr, DecidableEq

/-- the `chunks` argument of `validate_chunks` -/
inductive ChunkArg where
  | int (c : Int)
  | str
  | tuple (l : List Spec)
  | bad                    -- None
  deriving Repr, DecidableEq

abbrev Validated := List (List Int)

def Spec.isTup : Spec → Bool | .tup _ => true | _ => false
def Spec.isStr : Spec → Bool | .auto => true | .str => true | _ => false
def Spec.isIntOrTup : Spec → Bool | .int _ => true | .tup _ => true | _ => false
def Spec.tupVal : Spec → List Int | .tup cs => cs | _ => []

/-- `check_chunks_match_shape_length` (only tuples are checked) -/
def checkLength (shape : List Int) (l : List Spec) : Except String Unit :=
  if shape.length ≠ l.length then .error "value_error" else .ok ()

/-- `assert_chunks_match_shape`: no negative chunk size, and `all(sum(c) == s for s, c in zip(shape, chunks))` -/
def assertMatch (shape : List Int) (v : Validated) : Except String Validated :=
  if v.any (fun c => c.any chunkIsNegative) then .error "value_error"          -- negative chunk sizes (fix 3dfb10ad)
  else if (shape.zip v).all (fun (s, c) => decide (c.sum = s)) then .ok v else .error "value_error"

/-- body of the `fill_in_chunk_sizes` loop for one dimension -/
def fillDim (s : Int) : Spec → Except String (List Int)
  | .tup cs => .ok cs
  | .int c =>
    if fillIsWhole s c then .ok [s]
    else if c = 0 then .error "zero_division"          -- `s // c`
    else .ok (fillFull s c ++ (if fillRemTest s c ≠ 0 then [fillRem s c] else []))
  | _ => .error "runtime_error"

/-- `fill_in_chunk_sizes` (dimensions in order; the first failing dimension raises) -/
def fillIn (shape : List Int) (l : List Spec) : Except String Validated :=
  (shape.zip l).mapM fun (s, c) => fillDim s c

/-- `validate_chunks` for a tuple without strings: already validated / fill in / ValueError, then the final assert -/
def validateExplicit (shape : List Int) (l : List Spec) : Except String Validated := do
  checkLength shape l
  if l.all Spec.isTup then assertMatch shape (l.map Spec.tupVal)
  else if l.all Spec.isIntOrTup then (fillIn shape l) >>= assertMatch shape
  else .error "value_error"

/-! ### `_auto_chunks` -/

/-- `normalized_chunks`: `s if c == -1 else c` -/
def normalize (s : Int) : Spec → Spec
  | .int c => if c = -1 then .int s else .int c
  | c => c

def maxOf : List Int → Int
  | [] => 0
  | x :: xs => xs.foldl max x

/-- `(current_chunk, max_chunk, is_auto)` of one dimension, or the exception of the classification loop -/
def classify (n : Int) : Spec → Except String (Int × Int × Bool)
  | .auto => .ok (1, n, true)
  | .int c => .ok (c, c, false)
  | .tup cs => if cs = [] then .error "value_error" else .ok (maxOf cs, maxOf cs, false)   -- max(()) raises
  | _ => .error "runtime_error"

def prodCur (l : List (Int × Int)) : Int := (l.map Prod.fst).foldl (· * ·) 1

/-- the `while len(autodims)` loop.  State: the "auto" dimensions as `(current, shape)` pairs, split at the
cursor `j` (`done` = positions `< j`, `todo` = positions `≥ j`); `j = j % len(autodims)` is the wrap-around.
`F` = product of the chunk sizes of the non-auto dimensions. -/
def autoLoop (F maxEl : Int) : Nat → List (Int × Int) → List (Int × Int) → Except String (List (Int × Int))
  | 0, _, _ => .error "fuel"
  | fuel + 1, done, todo =>
    let st : List (Int × Int) × List (Int × Int) := if todo.isEmpty then ([], done) else (done, todo)
    match st.2 with
    | [] => .ok st.1
    | (c, n) :: rest =>
      let c' := autoBump c n
      let cur' := st.1 ++ (c', n) :: rest
      if autoExceeds (F * prodCur cur') maxEl then
        if autoIsZero (c' - 1) then .error "runtime_error" else .ok (st.1 ++ (c' - 1, n) :: rest)
      else if cur'.all (fun p => decide (p.1 = p.2)) then .ok cur'
      else autoLoop F maxEl fuel (st.1 ++ [(c', n)]) rest

/-- distance of the "auto" dimensions from their maximum (termination measure) -/
def autoDist (l : List (Int × Int)) : Nat := (l.map fun p => (p.2 - p.1).natAbs).sum

/-- fuel that is always enough (Props/C18 `auto_terminates`) -/
def autoFuel (autos : List (Int × Int)) : Nat := 2 * autos.length * (autoDist autos + 1) + 1

/-- the loop is entered only when there is an "auto" dimension (`while len(autodims)`) -/
def autoRun (F maxEl : Int) (autos : List (Int × Int)) : Except String (List (Int × Int)) :=
  if autos.isEmpty then .ok [] else autoLoop F maxEl (autoFuel autos) [] autos

/-- write the loop result back: "auto" dims get their current value, the others keep the normalised spec -/
def rebuild : List Spec → List (Int × Int) → List Spec
  | [], _ => []
  | .auto :: cs, (c, _) :: fs => .int c :: rebuild cs fs
  | .auto :: cs, [] => .auto :: rebuild cs []
  | c :: cs, fs => c :: rebuild cs fs

/-- `_auto_chunks(shape, chunks, max_elements)`; `maxEl = none` is `"auto"` without a dtype -/
def autoChunks (shape : List Int) (l : List Spec) (maxEl : Option Int) : Except String Validated := do
  checkLength shape l
  match maxEl with
  | none => .error "value_error"
  | some M =>
    let norm := List.zipWith normalize shape l
    let cls ← (shape.zip norm).mapM fun (n, c) => classify n c
    let autos := (cls.filter fun t => t.2.2).map fun t => (t.1, t.2.1)
    let F := ((cls.filter fun t => !t.2.2).map fun t => t.1).foldl (· * ·) 1
    let fin ← autoRun F M autos
    validateExplicit shape (rebuild norm fin)

/-- `validate_chunks(shape, chunks, max_elements)` -/
def validateChunks (shape : List Int) (ch : ChunkArg) (maxEl : Option Int) : Except String Validated :=
  match ch with
  | .tuple l => do
    checkLength shape l
    if l.all Spec.isTup then assertMatch shape (l.map Spec.tupVal)
    else if l.any Spec.isStr then (autoChunks shape l maxEl) >>= assertMatch shape
    else if l.all Spec.isIntOrTup then (fillIn shape l) >>= assertMatch shape
    else .error "value_error"
  | .int c =>
    if c = -1 then (validateExplicit shape (shape.map Spec.int)) >>= assertMatch shape
    else (autoChunks shape (List.replicate shape.length Spec.auto) (some c)) >>= assertMatch shape
  | .str => .error "not_implemented"
  | .bad => .error "type_error"

/-! ### equal-sized chunks, generators, ranges -/

def equalSizedChunks (n : Int) (numChunks chunkSize : Option Int) : Except String (List Int) :=
  if n = 0 then .ok []
  else if numChunks.isSome && chunkSize.isSome then .error "runtime_error"
  else
    let m? : Except String Int := match numChunks, chunkSize with
      | some m, _ => .ok m
      | none, some cs => if cs = 0 then .error "zero_division" else .ok (escNumChunks n 0 cs)
      | none, none => .error "runtime_error"
    match m? with
    | .error e => .error e
    | .ok m =>
      if escTooMany n m 0 then .error "runtime_error"
      else if m = 0 then .error "zero_division"          -- `num_items % num_chunks`
      else
        let chunks := if escDivides n m 0 then escEven n m 0 else escUneven n m 0
        if chunks.sum = n then .ok chunks else .error "assertion_error"

/-- consecutive `(start, end)` pairs -/
def runs (start : Int) : List Int → List (Int × Int)
  | [] => []
  | b :: bs => (start, genEnd start b) :: runs (genEnd start b) bs

def generateChunks (n : Int) (numChunks chunkSize : Option Int) (start : Int) : Except String (List (Int × Int)) :=
  (equalSizedChunks n numChunks chunkSize).map (runs start)

/-- `itertools.accumulate` -/
def accumulateFrom (acc : Int) : List Int → List Int
  | [] => []
  | x :: xs => (acc + x) :: accumulateFrom (acc + x) xs

def chunkRanges1 (c : List Int) : List (Int × Int) :=
  (c.zip (accumulateFrom 0 c)).map fun (cc, cum) => rangeOf cc cum

def chunkRanges (chunks : Validated) : List (List (Int × Int)) := chunks.map chunkRanges1

/-- `iterate_chunk_ranges`: block indices and slices, row-major -/
def iterateChunkRanges (chunks : Validated) : List (List Int × List (Int × Int)) :=
  (Partition.product (chunks.map fun c => pyRange c.length)).zip (Partition.product (chunkRanges chunks))

end AbtemVerif.Chunks
