/-
C34 — hand model of `abtem/core/config.py :: class set` (`__init__`, `_assign`, `__exit__`)
and of `dask.config.canonical_name`, over a tree of insertion-ordered dictionaries.

Python dicts are modelled as association lists in insertion order (`d[k] = v` on an existing
key keeps its position, on a new key appends; `pop` removes), so "the configuration is
exactly what it was" is list equality — key order included, which is stronger than
Python's `==`.  In-place mutation of nested dicts becomes functional update along the path.
Values are YAML-like: numbers, strings, dicts.  Every non-dict value met where the code
needs a dict raises exactly as Python does (TypeError / AttributeError); nothing is totalised.

Core Lean only.
-/
namespace AbtemVerif.Config

abbrev Key := String

/-- insertion-ordered dict operations, generic in the value type -/
def lookup {β} : List (Key × β) → Key → Option β
  | [], _ => none
  | (k', v) :: t, k => if k' = k then some v else lookup t k

/-- `d[k] = v` -/
def put {β} : List (Key × β) → Key → β → List (Key × β)
  | [], k, v => [(k, v)]
  | (k', v') :: t, k, v => if k' = k then (k', v) :: t else (k', v') :: put t k v

/-- `d.pop(k, None)` -/
def erase {β} : List (Key × β) → Key → List (Key × β)
  | [], _ => []
  | (k', v') :: t, k => if k' = k then t else (k', v') :: erase t k

def has {β} (d : List (Key × β)) (k : Key) : Bool := (lookup d k).isSome

inductive Val where
  | num (n : Int)
  | str (s : String)
  | dict (kvs : List (Key × Val))
  deriving Repr, BEq, Inhabited

abbrev Dict := List (Key × Val)

/-- exception kinds, named as `harness/common.py:err_kind` names them -/
inductive Err where
  | type_error      -- TypeError
  | other_error     -- AttributeError (`5 .setdefault`, `5 .pop`)
  | runtime_error   -- the exception raised by user code in a `with` body
  | index_error
  deriving Repr, BEq, DecidableEq, Inhabited

def Err.name : Err → String
  | .type_error => "type_error"
  | .other_error => "other_error"
  | .runtime_error => "runtime_error"
  | .index_error => "index_error"

/-- `dask.config.canonical_name(k, config)` for a dict `config` -/
def canon (k : Key) (d : Dict) : Key :=
  if has d k then k
  else
    let altk := if k.contains '_' then k.replace "_" "-" else k.replace "-" "_"
    if has d altk then altk else k

/-- what `_assign(keys, value, {}, record=False)` builds below a freshly inserted `{}` -/
def nest : List Key → Val → Val
  | [], v => v
  | k :: ks, v => .dict [(k, nest ks v)]

inductive Op where
  | replace | insert
  deriving Repr, BEq, DecidableEq, Inhabited

/-- one entry of `set._record`: `(op, path, value)` -/
structure Record where
  op : Op
  path : List Key
  old : Val            -- meaningful for `replace` only (`None` for insert)
  deriving Repr, Inhabited

/-- `set._assign(keys, value, d)` called with `record=True`.  Each successful top-level call
appends exactly one record (at the leaf, or at the first missing intermediate key after which
`record=False`).  A non-dict met on the way raises TypeError and leaves `d` untouched
(the record is appended only after the write succeeded). -/
def assign : List Key → Val → Dict → Except Err (Dict × Record)
  | [], _, _ => .error .index_error                    -- `keys[0]` of an empty sequence; `str.split` never returns []
  | [k], v, d =>
      let key := canon k d
      match lookup d key with
      | some old => .ok (put d key v, ⟨.replace, [key], old⟩)
      | none => .ok (put d key v, ⟨.insert, [key], .num 0⟩)
  | k :: k2 :: ks, v, d =>
      let key := canon k d
      match lookup d key with
      | none => .ok (put d key (nest (k2 :: ks) v), ⟨.insert, [key], .num 0⟩)
      | some (.dict sub) =>
          match assign (k2 :: ks) v sub with
          | .ok (sub', r) => .ok (put d key (.dict sub'), { r with path := key :: r.path })
          | .error e => .error e
      | some _ => .error .type_error                     -- `key in 5`, `"cpu"[key] = …`: TypeError

/-- `__exit__`, op = "replace": `for key in path[:-1]: d = d.setdefault(key, {})`, `d[path[-1]] = value` -/
def undoReplace : List Key → Val → Dict → Except Err Dict
  | [], _, _ => .error .index_error
  | [k], old, d => .ok (put d k old)
  | k :: k2 :: ks, old, d =>
      match lookup d k with
      | none =>
          match undoReplace (k2 :: ks) old [] with
          | .ok sub' => .ok (put d k (.dict sub'))
          | .error e => .error e
      | some (.dict sub) =>
          match undoReplace (k2 :: ks) old sub with
          | .ok sub' => .ok (put d k (.dict sub'))
          | .error e => .error e
      | some _ =>
          -- `d` is now a non-dict: the next `d.setdefault` is an AttributeError, a final `d[k] = v` a TypeError
          if ks.isEmpty then .error .type_error else .error .other_error

/-- `__exit__`, op = "insert": walk `path[:-1]` with `d = d[key]` (KeyError ⇒ skip the record), then `d.pop(path[-1], None)` -/
def undoInsert : List Key → Dict → Except Err Dict
  | [], _ => .error .index_error
  | [k], d => .ok (erase d k)
  | k :: k2 :: ks, d =>
      match lookup d k with
      | none => .ok d
      | some (.dict sub) =>
          match undoInsert (k2 :: ks) sub with
          | .ok sub' => .ok (put d k (.dict sub'))
          | .error e => .error e
      | some _ =>
          -- `5[key]` / `"cpu"[key]` is a TypeError (not a KeyError); a final `5 .pop` an AttributeError
          if ks.isEmpty then .error .other_error else .error .type_error

def undo (r : Record) (d : Dict) : Except Err Dict :=
  match r.op with
  | .replace => undoReplace r.path r.old d
  | .insert => undoInsert r.path d

/-- `__exit__`: the records in the order given (the caller passes `reversed(self._record)`); an
exception stops the loop and propagates, leaving the remaining records unapplied. -/
def exitAll : List Record → Dict → Dict × Option Err
  | [], d => (d, none)
  | r :: rs, d =>
      match undo r d with
      | .ok d' => exitAll rs d'
      | .error e => (d, some e)

/-- key string → path: kwargs replace `__` by `.` first; then `key.split(".")` -/
def keyPath (kw : Bool) (s : String) : List Key :=
  (if kw then s.replace "__" "." else s).splitOn "."

/-- The assignment loops of `set.__init__` (items of `arg` first, then `kwargs`; the caller
concatenates).  Returns the configuration reached, the records of the assignments that were
completed (in order), and the exception if one assignment raised. -/
def assignAll : List (List Key × Val) → Dict → Dict × List Record × Option Err
  | [], d => (d, [], none)
  | (ks, v) :: rest, d =>
      match assign ks v d with
      | .error e => (d, [], some e)
      | .ok (d', r) =>
          let (d'', rs, e) := assignAll rest d'
          (d'', r :: rs, e)

/-- `set.__init__`: the configuration after construction, the record list, and the exception raised (if any).
When an assignment raises, the `except BaseException` handler runs `self.__exit__(None, None, None)` over the
records of the completed assignments and re-raises (an exception from that `__exit__` would propagate instead). -/
def init (assigns : List (List Key × Val)) (d : Dict) : Dict × List Record × Option Err :=
  match assignAll assigns d with
  | (d', rs, none) => (d', rs, none)
  | (d', rs, some e) =>
      match exitAll rs.reverse d' with
      | (d'', none) => (d'', rs, some e)
      | (d'', some e') => (d'', rs, some e')

/-- read a value by an already canonical path (`d[k0][k1]…`) -/
def getPath : List Key → Dict → Option Val
  | [], _ => none
  | [k], d => lookup d k
  | k :: k2 :: ks, d =>
      match lookup d k with
      | some (.dict sub) => getPath (k2 :: ks) sub
      | _ => none

/-- Programs that use `config.set` as a context manager (well nested by construction). -/
inductive Script where
  | snap                                   -- observe the configuration (appended to the log)
  | raise                                  -- user code raises
  | poke (k : Key) (v : Val)               -- user code writes `cfg[k] = v` directly (NOT through `set`)
  | del (k : Key)                          -- user code does `cfg.pop(k, None)` directly
  | seq (a b : Script)
  | withSet (assigns : List (List Key × Val)) (body : Script)   -- `with set(arg, **kwargs): body`
  | tryCatch (body : Script)               -- `try: body  except Exception: pass`
  | reenter (assigns : List (List Key × Val)) (body after : Script)
      -- `s = set(arg, **kwargs)` then `with s:` { `with s: body` ; `after` } — ONE object entered again inside its own block
  deriving Repr, Inhabited

structure St where
  cfg : Dict
  log : List Dict
  deriving Repr, Inhabited

/-- big-step semantics: final state and the exception in flight (if any) -/
def run : Script → St → St × Option Err
  | .snap, st => ({ st with log := st.log ++ [st.cfg] }, none)
  | .raise, st => (st, some .runtime_error)
  | .poke k v, st => ({ st with cfg := put st.cfg k v }, none)
  | .del k, st => ({ st with cfg := erase st.cfg k }, none)
  | .seq a b, st =>
      match run a st with
      | (st', none) => run b st'
      | (st', some e) => (st', some e)
  | .withSet assigns body, st =>
      match init assigns st.cfg with
      | (c1, _, some e) => ({ st with cfg := c1 }, some e)        -- `set(...)` raised (after rolling back): the body never runs
      | (c1, recs, none) =>
          match run body { st with cfg := c1 } with
          | (st2, out) =>
              match exitAll recs.reverse st2.cfg with
              | (c3, none) => ({ st2 with cfg := c3 }, out)      -- `__exit__` returns None: the body's exception propagates
              | (c3, some e) => ({ st2 with cfg := c3 }, some e) -- `__exit__` raised: replaces the exception in flight
  | .tryCatch body, st =>
      match run body st with
      | (st', _) => (st', none)
  | .reenter assigns body after, st =>
      -- `__enter__` counts the open blocks of the object (`_depth`); the inner `__exit__` finds `_depth > 1`, decrements and
      -- returns without touching the configuration; only the outermost `__exit__` replays the records
      match init assigns st.cfg with
      | (c1, _, some e) => ({ st with cfg := c1 }, some e)
      | (c1, recs, none) =>
          let (st2, out) :=
            match run body { st with cfg := c1 } with          -- inner block, inner exit: no rollback
            | (sti, none) => run after sti                        -- rest of the outer block
            | (sti, some e) => (sti, some e)
          match exitAll recs.reverse st2.cfg with
          | (c3, none) => ({ st2 with cfg := c3 }, out)
          | (c3, some e) => ({ st2 with cfg := c3 }, some e)

/-- scripts whose bodies touch the configuration only through `set` -/
def Script.setOnly : Script → Bool
  | .snap => true
  | .raise => true
  | .poke _ _ => false
  | .del _ => false
  | .seq a b => a.setOnly && b.setOnly
  | .withSet _ body => body.setOnly
  | .tryCatch body => body.setOnly
  | .reenter _ body after => body.setOnly && after.setOnly

/-- does some `__exit__` raise while the script runs? (mirrors `run`) -/
def exitRaises : Script → St → Bool
  | .snap, _ => false
  | .raise, _ => false
  | .poke _ _, _ => false
  | .del _, _ => false
  | .seq a b, st =>
      exitRaises a st || (match run a st with
        | (st', none) => exitRaises b st'
        | _ => false)
  | .withSet assigns body, st =>
      match init assigns st.cfg with
      | (_, _, some _) => false
      | (c1, recs, none) =>
          exitRaises body { st with cfg := c1 } ||
            (exitAll recs.reverse (run body { st with cfg := c1 }).1.cfg).2.isSome
  | .tryCatch body, st => exitRaises body st
  | .reenter assigns body after, st =>
      match init assigns st.cfg with
      | (_, _, some _) => false
      | (c1, recs, none) =>
          let r := run body { st with cfg := c1 }
          let r2 := match r with
            | (sti, none) => run after sti
            | (sti, some e) => (sti, some e)
          exitRaises body { st with cfg := c1 } ||
            (match r with | (sti, none) => exitRaises after sti | _ => false) ||
            (exitAll recs.reverse r2.1.cfg).2.isSome

end AbtemVerif.Config
