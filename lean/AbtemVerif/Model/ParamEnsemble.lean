/-
C03 — model of parameter ensembles built from distributions (Pattern A: parameter values `V`, weights and results
are abstract; the numeric kernel is a parameter `f`).

  abtem/distributions.py `_unpack_distributions(*args, shape)`  → `unpack`: the k-th distribution-valued argument lives on new
        axis k (values expanded on every other axis), scalars are passed through, the weight array is the outer product
        of the distributions' weights (`weights * new_weights`, starting from 1.0)
  `tuple_range_except(n, i)`                                     → `rangeExcept`
  `EnsembleFromDistributions.ensemble_shape`                      → `ensembleShape`
  `EnsembleTransform._get_axes_metadata_from_distributions`       → `axesValues` (ParameterAxis(values=tuple(distribution)))
  numpy broadcasting of a pointwise formula over the unpacked arrays → `evalEnsemble`: member `idx` evaluates the kernel on
        `argsAt idx` (trusted: NUMPY broadcasting), row-major over the ensemble axes
  `EnsembleFromDistributions._partition_args / _partial_transform` → `partitionArgs` (one `divide` per distribution, C19), `blockArgs`
  `reduce_ensemble` (`mean` over axes flagged `_ensemble_mean`)   → `meanList`
(File name: Model/Distributions.lean belongs to C36.)
-/
import AbtemVerif.Model.Ensemble
namespace AbtemVerif.ParamEnsemble
open AbtemVerif.Partition

/-- an argument of an ensemble transform: a scalar or a 1-D distribution (values, weights) -/
inductive Arg (V W : Type) where
  | scalar (v : V)
  | dist (values : List V) (weights : List W)
  deriving Repr

variable {V W R : Type}

def Arg.isDist : Arg V W → Bool | .dist _ _ => true | _ => false

/-- `tuple_range_except(n, i)` -/
def rangeExcept (n i : Nat) : List Nat := (List.range n).filter (· ≠ i)

/-- `ensemble_shape`: one axis per distribution-valued argument, in argument order -/
def ensembleShape (args : List (Arg V W)) : List Nat :=
  args.filterMap fun | .dist vs _ => some vs.length | .scalar _ => none

/-- values listed by the ensemble axes metadata, in argument order -/
def axesValues (args : List (Arg V W)) : List (List V) :=
  args.filterMap fun | .dist vs _ => some vs | .scalar _ => none

/-- what `_unpack_distributions` returns for one argument: the scalar itself, or (axis carrying the values, the axes
it was expanded on, values) -/
inductive Unpacked (V : Type) where
  | scalar (v : V)
  | onAxis (axis : Nat) (expanded : List Nat) (values : List V)
  deriving Repr

/-- the loop of `_unpack_distributions`: `i` counts the distributions seen so far -/
def unpackLoop (numNew : Nat) (base : List Nat) : Nat → List (Arg V W) → List (Unpacked V)
  | _, [] => []
  | i, .scalar v :: rest => .scalar v :: unpackLoop numNew base i rest
  | i, .dist vs _ :: rest => .onAxis i (rangeExcept numNew i ++ base) vs :: unpackLoop numNew base (i + 1) rest

def unpack (args : List (Arg V W)) (baseDims : Nat) : List (Unpacked V) :=
  let numNew := (args.filter Arg.isDist).length
  unpackLoop numNew ((List.range baseDims).map (· + numNew)) 0 args

/-- scalar arguments seen by ensemble member `idx` (one index per distribution, in order) -/
def argsAt (dflt : V) : List (Arg V W) → List Nat → List V
  | [], _ => []
  | .scalar v :: rest, idx => v :: argsAt dflt rest idx
  | .dist vs _ :: rest, i :: idx => vs.getD i dflt :: argsAt dflt rest idx
  | .dist vs _ :: rest, [] => vs.getD 0 dflt :: argsAt dflt rest []

/-- weights seen by member `idx` (the code multiplies them: `weights * new_weights`) -/
def weightsAt (one : W) : List (Arg V W) → List Nat → List W
  | [], _ => []
  | .scalar _ :: rest, idx => weightsAt one rest idx
  | .dist _ ws :: rest, i :: idx => ws.getD i one :: weightsAt one rest idx
  | .dist _ ws :: rest, [] => ws.getD 0 one :: weightsAt one rest []

/-- all member multi-indices, row-major -/
def memberIndices (args : List (Arg V W)) : List (List Nat) :=
  product ((ensembleShape args).map List.range)

/-- the ensemble array: member `idx` is the kernel on the scalars it sees, paired with its weights -/
def evalEnsemble (dflt : V) (one : W) (f : List V → R) (args : List (Arg V W)) : List (List W × R) :=
  (memberIndices args).map fun idx => (weightsAt one args idx, f (argsAt dflt args idx))

/-- `_partition_args`: every distribution is divided by its own chunks (C19 `distBlocks`) -/
def partitionArgs (args : List (Arg V W)) (chunks : List (List Nat)) : List (List (List V × List W)) :=
  List.zipWith (fun (a : List V × List W) cs => List.zipWith Prod.mk (Ensemble.distBlocks a.1 cs) (Ensemble.distBlocks a.2 cs))
    (args.filterMap fun | .dist vs ws => some (vs, ws) | .scalar _ => none) chunks

/-- `_partial_transform(*blocks, keys)`: the block transform carries block `b_j` of distribution `j`, scalars unchanged -/
def blockArgs : List (Arg V W) → List (List V × List W) → List (Arg V W)
  | [], _ => []
  | .scalar v :: rest, bs => .scalar v :: blockArgs rest bs
  | .dist _ _ :: rest, b :: bs => .dist b.1 b.2 :: blockArgs rest bs
  | .dist vs ws :: rest, [] => .dist vs ws :: blockArgs rest []

/-- arithmetic mean of a list of rationals (`mean` over one ensemble axis) -/
def meanList (l : List Rat) : Rat := l.foldl (· + ·) 0 / (l.length : Rat)

/-- numpy broadcasting of one unpacked argument: a scalar is the same for every member; an array that lives on axis `a`
(expanded to size 1 on every other axis) reads `values[idx[a]]` at ensemble multi-index `idx` -/
def broadcastAt (dflt : V) : Unpacked V → List Nat → V
  | .scalar v, _ => v
  | .onAxis a _ vs, idx => vs.getD (idx.getD a 0) dflt

/-- the weighted mean a distribution with (intensity) weights `ws` defines for member results `fs` -/
def weightedMean (ws fs : List Rat) : Rat := (List.zipWith (· * ·) ws fs).sum / ws.sum

/-- `_unpack_distributions` for an averaged (`ensemble_mean`) distribution (fix 4ef047d8): the amplitude weights are
rescaled to unit mean square, `w * sqrt(n / Σ w²)`; on the intensity weights `u = w²` this is `u * n / Σ u` -/
def normalizeMeanWeights (us : List Rat) : List Rat := us.map fun u => u * (us.length : Rat) / us.sum

/-- composed ensemble transforms (`Probe._calculate_array`): every transform prepends its ensemble axes to those present -/
def applyAll {α : Type} (base : List α) (ts : List (List α)) : List α := ts.foldl (fun acc t => t ++ acc) base

/-- axes of a built probe: the array gets them in the order the transforms are applied, the metadata lists them in the
order the builder names its ensembles; a mismatch of the sizes is the RuntimeError of the array-object constructor -/
def composeAxes (named applied : List (String × Nat)) : Except String (List Nat × List String) :=
  let arr := applyAll [] (applied.map fun t => if t.2 = 0 then [] else [t.2])
  let listed := (named.filter fun t => t.2 ≠ 0)
  if arr = listed.map (·.2) then .ok (arr, listed.map (·.1)) else .error "runtime_error"

end AbtemVerif.ParamEnsemble
