/-
C17 — executable model of `abtem.core.grid.Grid` (abtem/core/grid.py): constructor, `_validate`, the three
setters, the three `_adjust_*` helpers, the locks, `endpoint`, `reciprocal_space_sampling`, `check_match`, `match`.

The per-dimension arithmetic is NOT written here: it is the generated `Gen/Grid.lean`
(`adjustExtentElt`, `adjustGptsElt`, `adjustSamplingElt`, `safeDivide`, `reciprocalElt`), regenerated from the
Python source on every run.  This file models the control flow around it *as it is*:

* every mutation happens in the order of the Python text, a call returns `(state after the call, exception?)`
  (`Res`), so that "an assignment that raises leaves the grid unchanged" is a theorem about this model and not
  an artefact of an `Except` monad;
* `None` can be assigned to all three quantities (the setters accept it), except to a locked, defined extent;
* assigned gpts must be positive (`validate_gpts`, ValueError — since the repair in /repo); no positivity check exists for
  extents and samplings, none is modelled (negative extents … are accepted);
* `ZeroDivisionError` of `r / d` for a zero sampling in `_adjust_gpts` (Python floats) is modelled;
* the lock test of the extent setter is `numpy.allclose(new, old)` (rtol 1e-5, atol 1e-8, with numpy
  broadcasting of a scalar / length-1 / mismatching sequence) — modelled exactly over `Rat`.

Not modelled: non-finite floats, numpy scalar types that are not `int`/`float` instances, the
"overspecified grid" warning, `round_to_power`.
-/
import AbtemVerif.Model.PyPrelude
import AbtemVerif.Gen.Grid
namespace AbtemVerif.Grid
open AbtemVerif.Py AbtemVerif.Gen.Grid

/-- a value handed to the constructor or to a setter: `None`, a Python number, or a sequence -/
inductive Val where
  | none
  | scalar (x : Rat)
  | seq (xs : List Rat)
deriving DecidableEq, Repr

structure Grid where
  dims : Nat
  endpoint : List Bool
  extent : Option (List Rat)
  gpts : Option (List Int)
  sampling : Option (List Rat)
  lockExtent : Bool
  lockGpts : Bool
  lockSampling : Bool
deriving DecidableEq, Repr

/-- state after a call, and the exception it raised (if any) -/
abbrev Res := Grid × Option String

def Res.bind (r : Res) (f : Grid → Res) : Res :=
  match r with
  | (g, none) => f g
  | (g, some e) => (g, some e)

/-- `Grid._validate` : `None` ↦ `None`; number ↦ `(dtype(v),) * dims`; sequence of the wrong length ↦ RuntimeError -/
def validate (dims : Nat) : Val → Except String (Option (List Rat))
  | .none => .ok none
  | .scalar x => .ok (some (List.replicate dims x))
  | .seq xs => if xs.length ≠ dims then .error "runtime_error" else .ok (some xs)

/-- `_validate(gpts, dtype=int)` followed by `Grid._check_gpts(gpts, extent)`: negative entries raise ValueError; an entry `0`
is legal only where the (defined) extent is zero — an empty scan block; with an undefined extent every entry must be `> 0` -/
def validateGpts (dims : Nat) (v : Val) (extent : Option (List Rat)) : Except String (Option (List Int)) :=
  match validate dims v with
  | .error e => .error e
  | .ok none => .ok none
  | .ok (some l) =>
    let ns := l.map pyInt
    if ns.any (fun n => decide (n < 0)) then .error "value_error"
    else match extent with
      | none => if ns.all (fun n => decide (0 < n)) then .ok (some ns) else .error "value_error"
      | some rs => if (ns.zip rs).any (fun p => decide (p.1 = 0) && decide (p.2 ≠ 0)) then .error "value_error" else .ok (some ns)

/-- `zip(a, b, c)` then the element function -/
def zipWith3 {α β γ δ} (f : α → β → γ → δ) : List α → List β → List γ → List δ
  | a :: as, b :: bs, c :: cs => f a b c :: zipWith3 f as bs cs
  | _, _, _ => []

/-- `Grid._adjust_extent(gpts, sampling)`; the second `_validate` runs after `self._extent` was assigned -/
def adjustExtent (g : Grid) (gpts : Option (List Int)) (sampling : Option (List Rat)) : Res :=
  match gpts, sampling with
  | some ns, some ds =>
    let ext := zipWith3 adjustExtentElt ns ds g.endpoint
    let g' := { g with extent := some ext }
    if ext.length ≠ g.dims then (g', some "runtime_error") else (g', none)
  | _, _ => (g, none)

/-- `Grid._adjust_gpts(extent, sampling)`; `r / d` on Python floats raises ZeroDivisionError for `d = 0`
while the generator is consumed, i.e. before `self._gpts` is assigned -/
def adjustGpts (g : Grid) (extent : Option (List Rat)) (sampling : Option (List Rat)) : Res :=
  match extent, sampling with
  | some rs, some ds =>
    if ((rs.zip ds).zip g.endpoint).any (fun x => decide (x.1.2 = 0)) then (g, some "zero_division")
    else ({ g with gpts := some (zipWith3 adjustGptsElt rs ds g.endpoint) }, none)
  | _, _ => (g, none)

/-- `Grid._adjust_sampling(extent, gpts)` -/
def adjustSampling (g : Grid) (extent : Option (List Rat)) (gpts : Option (List Int)) : Res :=
  match extent, gpts with
  | some rs, some ns =>
    let s := zipWith3 adjustSamplingElt rs ns g.endpoint
    let g' := { g with sampling := some s }
    if s.length ≠ g.dims then (g', some "runtime_error") else (g', none)
  | _, _ => (g, none)

/-- `numpy.isclose(a, b)` with the default tolerances: `|a - b| ≤ atol + rtol * |b|` -/
def isclose (a b : Rat) : Bool := decide (pyAbs (a - b) ≤ (1 : Rat) / 100000000 + (1 : Rat) / 100000 * pyAbs b)

def all2 (p : Rat → Rat → Bool) : List Rat → List Rat → Bool
  | a :: as, b :: bs => p a b && all2 p as bs
  | _, _ => true

/-- `numpy.allclose(new, old)` where `new` is what the caller passed (scalar or sequence) and `old` is a tuple:
broadcasting of mismatching lengths raises ValueError -/
def allclose (v : Val) (old : List Rat) : Except String Bool :=
  match v with
  | .none => .ok true
  | .scalar x => .ok (old.all (fun b => isclose x b))
  | .seq xs =>
    if xs.length = old.length then .ok (all2 isclose xs old)
    else if xs.length = 1 then .ok (old.all (fun b => isclose (xs.headD 0) b))
    else if old.length = 1 then .ok (xs.all (fun a => isclose a (old.headD 0)))
    else .error "value_error"

/-- the lock test of the extent setter: `self._lock_extent and self.extent is not None and not np.allclose(extent, self.extent)` -/
def extentLockFails (g : Grid) (v : Val) : Except String Bool :=
  if g.lockExtent then
    match g.extent with
    | some cur => (allclose v cur).map (fun c => !c)
    | none => .ok false
  else .ok false

/-- body of the extent setter after validation (`ve` is the validated, non-`None` extent) -/
def setExtentCore (g : Grid) (ve : Option (List Rat)) : Res :=
  let r : Res :=
    if g.lockSampling || g.gpts.isNone then
      -- locked gpts and sampling determine the extent: nothing to re-derive (RuntimeError)
      if g.lockGpts && g.gpts.isSome && g.sampling.isSome then (g, some "runtime_error")
      else (adjustGpts g ve g.sampling).bind fun g1 => adjustSampling g1 ve g1.gpts
    else adjustSampling g ve g.gpts
  r.bind fun g2 => ({ g2 with extent := ve }, none)

/-- `Grid.extent = v` -/
def setExtent (g : Grid) (v : Val) : Res :=
  if v = Val.none then
    -- `None` may not be assigned to a locked, defined extent (RuntimeError)
    if g.lockExtent && g.extent.isSome then (g, some "runtime_error") else ({ g with extent := none }, none)
  else
    match extentLockFails g v with
    | .error e => (g, some e)
    | .ok true => (g, some "runtime_error")
    | .ok false =>
      match validate g.dims v with
      | .error e => (g, some e)
      | .ok ve =>
        -- an extent equal (within tolerance) to the locked one leaves the grid as it is
        if g.lockExtent && g.extent.isSome then (g, none) else setExtentCore g ve

/-- body of the gpts setter after validation -/
def setGptsCore (g : Grid) (vg : Option (List Int)) : Res :=
  let r : Res :=
    if g.lockSampling && g.sampling.isSome then
      if g.lockExtent && g.extent.isSome then (g, some "runtime_error") else adjustExtent g vg g.sampling
    else if g.extent.isSome then adjustSampling g g.extent vg
    else adjustExtent g vg g.sampling
  r.bind fun g1 => ({ g1 with gpts := vg }, none)

/-- `Grid.gpts = v` (`dtype = int` truncates) -/
def setGpts (g : Grid) (v : Val) : Res :=
  if g.lockGpts then (g, some "runtime_error")
  else
    match validateGpts g.dims v g.extent with
    | .error e => (g, some e)
    | .ok vg => setGptsCore g vg

/-- body of the sampling setter after validation -/
def setSamplingCore (g : Grid) (vs : Option (List Rat)) : Res :=
  let r : Res :=
    if g.lockGpts then
      if g.lockExtent && g.extent.isSome && g.gpts.isSome then (g, some "runtime_error") else adjustExtent g g.gpts vs
    else if g.extent.isSome then adjustGpts g g.extent vs
    else adjustExtent g g.gpts vs
  r.bind fun g1 =>
    if g1.extent.isNone || g1.gpts.isNone then ({ g1 with sampling := vs }, none)
    else adjustSampling g1 g1.extent g1.gpts

/-- `Grid.sampling = v` -/
def setSampling (g : Grid) (v : Val) : Res :=
  if g.lockSampling then (g, some "runtime_error")
  else
    match validate g.dims v with
    | .error e => (g, some e)
    | .ok vs => setSamplingCore g vs

inductive Op where
  | setExtent (v : Val)
  | setGpts (v : Val)
  | setSampling (v : Val)
deriving DecidableEq, Repr

def step (g : Grid) : Op → Res
  | .setExtent v => setExtent g v
  | .setGpts v => setGpts g v
  | .setSampling v => setSampling g v

/-- a history of assignments in which the caller catches exceptions and carries on -/
def run (g : Grid) (ops : List Op) : Grid := ops.foldl (fun g op => (step g op).1) g

/-- `Grid.__init__` (exceptions abort the construction).  `endpoint` is the tuple the constructor stores
(a bool is replicated by the caller of this function, see `initB`). -/
def init (dims : Nat) (endpoint : List Bool) (extent gpts sampling : Val) (lockE lockG lockS : Bool) : Except String Grid :=
  match validate dims extent, validateGpts dims gpts ((validate dims extent).toOption.join), validate dims sampling with
  | .ok e, .ok gp, .ok s =>
    let g0 : Grid := { dims := dims, endpoint := endpoint, extent := e, gpts := gp, sampling := s,
                       lockExtent := lockE, lockGpts := lockG, lockSampling := lockS }
    let r1 : Res := if g0.extent.isNone then adjustExtent g0 g0.gpts g0.sampling else (g0, none)
    let r2 : Res := r1.bind fun g1 => if g1.gpts.isNone then adjustGpts g1 g1.extent g1.sampling else (g1, none)
    let r3 : Res := r2.bind fun g2 =>
      if sampling = Val.none || extent ≠ Val.none then adjustSampling g2 g2.extent g2.gpts else (g2, none)
    match r3 with
    | (g3, none) => .ok g3
    | (_, some err) => .error err
  | .error err, _, _ => .error err
  | _, .error err, _ => .error err
  | _, _, .error err => .error err

def initB (dims : Nat) (endpoint : Bool) (extent gpts sampling : Val) (lockE lockG lockS : Bool) : Except String Grid :=
  init dims (List.replicate dims endpoint) extent gpts sampling lockE lockG lockS

/-- `Grid.reciprocal_space_sampling` (GridUndefinedError if extent or gpts is `None`; the `assert` also wants
the sampling; `1 / (n * d)` on Python floats raises ZeroDivisionError) -/
def reciprocal (g : Grid) : Except String (List Rat) :=
  match g.extent, g.gpts, g.sampling with
  | some _, some ns, some ds =>
    if (ns.zip ds).any (fun x => decide ((x.1 : Rat) * x.2 = 0)) then .error "zero_division"
    else .ok (List.zipWith reciprocalElt ns ds)
  | none, _, _ => .error "grid_undefined"
  | _, none, _ => .error "grid_undefined"
  | some _, some _, none => .error "assertion_error"

/-- `Grid.check_match(other)` : RuntimeError if both extents are defined and not `isclose`, or both gpts are
defined and differ -/
def checkMatch (g o : Grid) : Except String Unit :=
  let extBad : Except String Bool := match g.extent, o.extent with
    | some a, some b =>
      if a.length = b.length then .ok (!(all2 isclose a b))
      else if a.length = 1 then .ok (!(b.all fun y => isclose (a.headD 0) y))
      else if b.length = 1 then .ok (!(a.all fun x => isclose x (b.headD 0)))
      else .error "value_error"
    | _, _ => .ok false
  match extBad with
  | .error e => .error e
  | .ok true => .error "runtime_error"
  | .ok false =>
    match g.gpts, o.gpts with
    | some a, some b => if a = b then .ok () else .error "runtime_error"
    | _, _ => .ok ()

/-! ### `Grid.match` -/

def valOfRats : Option (List Rat) → Val
  | none => .none
  | some l => .seq l

def valOfInts : Option (List Int) → Val
  | none => .none
  | some l => .seq (l.map fun (n : Int) => (n : Rat))

/-- both grids after the call, and the exception it raised (if any) -/
abbrev Res2 := (Grid × Grid) × Option String

def Res2.bind (r : Res2) (f : Grid → Grid → Res2) : Res2 :=
  match r with
  | ((s, o), none) => f s o
  | (p, some e) => (p, some e)

/-- extent phase of `match`: `other.extent = self.extent` if the other has none, else `self.extent = other.extent` when the
float32 images differ (`c1`, computed by numpy: `np.any(np.array(self.extent, float32) != np.array(other.extent, float32))`) -/
def matchExtent (s o : Grid) (c1 : Bool) : Res2 :=
  if o.extent.isNone then let r := setExtent o (valOfRats s.extent); ((s, r.1), r.2)
  else if c1 then let r := setExtent s (valOfRats o.extent); ((r.1, o), r.2)
  else ((s, o), none)

/-- gpts phase: exact comparison of the tuples -/
def matchGpts (s o : Grid) : Res2 :=
  if o.gpts.isNone then let r := setGpts o (valOfInts s.gpts); ((s, r.1), r.2)
  else if s.gpts ≠ o.gpts then let r := setGpts s (valOfInts o.gpts); ((r.1, o), r.2)
  else ((s, o), none)

/-- sampling phase: `self.sampling = other.sampling` unless `np.allclose` of the float32 images (`c3`) -/
def matchSampling (s o : Grid) (c3 : Bool) : Res2 :=
  if o.sampling.isNone then let r := setSampling o (valOfRats s.sampling); ((s, r.1), r.2)
  else if !c3 then let r := setSampling s (valOfRats o.sampling); ((r.1, o), r.2)
  else ((s, o), none)

/-- `self.match(other, check_match)`; the two float32 comparisons enter as the inputs `c1`, `c3` -/
def matchGrids (s o : Grid) (check : Bool) (c1 c3 : Bool) : Res2 :=
  let pre : Res2 :=
    if check then
      match checkMatch s o with
      | .ok _ => ((s, o), none)
      | .error e => ((s, o), some e)
    else ((s, o), none)
  ((pre.bind fun s o => matchExtent s o c1).bind fun s o => matchGpts s o).bind fun s o => matchSampling s o c3

end AbtemVerif.Grid
