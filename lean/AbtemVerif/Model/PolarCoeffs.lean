/-
The 25 polar aberration coefficients of abTEM (`polar_symbols` in abtem/transfer.py) and the 12 Cartesian
coefficients of `polar2cartesian` as records, so that a generated definition takes one binder `p : PolarCoeffs α`
and a Python subscript `parameters["C12"]` becomes the projection `p.C12`.  Core Lean only.
That the field list is exactly the key list of `polar_symbols` (in order) is checked against the generated
table in Props/C21.lean.
-/
namespace AbtemVerif

structure PolarCoeffs (α : Type) where
  C10 : α
  C12 : α
  phi12 : α
  C21 : α
  phi21 : α
  C23 : α
  phi23 : α
  C30 : α
  C32 : α
  phi32 : α
  C34 : α
  phi34 : α
  C41 : α
  phi41 : α
  C43 : α
  phi43 : α
  C45 : α
  phi45 : α
  C50 : α
  C52 : α
  phi52 : α
  C54 : α
  phi54 : α
  C56 : α
  phi56 : α

namespace PolarCoeffs

/-- field names in declaration order -/
def fieldNames : List String :=
  ["C10", "C12", "phi12", "C21", "phi21", "C23", "phi23", "C30", "C32", "phi32", "C34", "phi34", "C41", "phi41",
   "C43", "phi43", "C45", "phi45", "C50", "C52", "phi52", "C54", "phi54", "C56", "phi56"]

def toList {α} (p : PolarCoeffs α) : List α :=
  [p.C10, p.C12, p.phi12, p.C21, p.phi21, p.C23, p.phi23, p.C30, p.C32, p.phi32, p.C34, p.phi34, p.C41, p.phi41,
   p.C43, p.phi43, p.C45, p.phi45, p.C50, p.C52, p.phi52, p.C54, p.phi54, p.C56, p.phi56]

/-- build from a list in declaration order (missing entries default to `d`) -/
def ofList {α} (d : α) (l : List α) : PolarCoeffs α :=
  let g := fun i => l.getD i d
  ⟨g 0, g 1, g 2, g 3, g 4, g 5, g 6, g 7, g 8, g 9, g 10, g 11, g 12, g 13, g 14, g 15, g 16, g 17, g 18, g 19,
   g 20, g 21, g 22, g 23, g 24⟩

def const {α} (d : α) : PolarCoeffs α := ofList d []

end PolarCoeffs

structure CartesianCoeffs (α : Type) where
  C10 : α
  C12a : α
  C12b : α
  C21a : α
  C21b : α
  C23a : α
  C23b : α
  C30 : α
  C32a : α
  C32b : α
  C34a : α
  C34b : α

namespace CartesianCoeffs
def fieldNames : List String :=
  ["C10", "C12a", "C12b", "C21a", "C21b", "C23a", "C23b", "C30", "C32a", "C32b", "C34a", "C34b"]
def toList {α} (p : CartesianCoeffs α) : List α :=
  [p.C10, p.C12a, p.C12b, p.C21a, p.C21b, p.C23a, p.C23b, p.C30, p.C32a, p.C32b, p.C34a, p.C34b]
end CartesianCoeffs

end AbtemVerif
