/-
Small Python objects used by the generated PRISM definitions (`Gen/Prism.lean`). Core Lean only.
-/
namespace AbtemVerif.Prism

/-- Python `slice(start, stop)` with step 1; `none` is Python's `None`. -/
structure PySlice where
  start : Option Int
  stop : Option Int
deriving Repr, DecidableEq

/-- Python `abs` on an integer -/
def intAbs (x : Int) : Int := if 0 ≤ x then x else -x

end AbtemVerif.Prism
