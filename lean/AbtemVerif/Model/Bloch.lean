/-
C26 — executable model of the orchestration around the numerical kernels of the Bloch-wave path
(abtem/bloch/dynamical.py, abtem/bloch/utils.py).  Scalar formulas are the *generated*
`Gen.Bloch.{structScale, diagValue, diagScale}` and the writability flag `Gen.Bloch.structureMatrixIsCopy`.

* `ravelHkl`          : `ravel_hkl` (shift by `gpts // 2`, `np.ravel_multi_index`, ValueError outside the grid)
* `retrieve`          : `retrieve_structure_factor_values` (pandas label lookup, KeyError for a missing reflection;
                        the returned array is a read-only view)
* `structureMatrix`   : `calculate_structure_matrix` — exact (Gaussian rationals), including the in-place scaling of an
                        array that must be writable (F17) and `fill_diagonal`
* `dynScatter`        : `calculate_dynamical_scattering` after `eigh` (EIGH output is an input), in `Float`
Core Lean only.
-/
import AbtemVerif.Model.StructFactor
import AbtemVerif.Gen.Bloch
namespace AbtemVerif.Bloch
open AbtemVerif.StructFactor AbtemVerif.Gen.Bloch

/-- `np.ravel_multi_index(hkl + gpts // 2, gpts)` -/
def ravelHkl (gpts : Nat × Nat × Nat) (x : HKL) : Except String Int :=
  let (n0, n1, n2) := gpts
  let a := x.1 + (n0 / 2 : Nat)
  let b := x.2.1 + (n1 / 2 : Nat)
  let c := x.2.2 + (n2 / 2 : Nat)
  if a < 0 || a ≥ n0 || b < 0 || b ≥ n1 || c < 0 || c ≥ n2 then .error "value_error"
  else .ok ((a * n1 + b) * n2 + c)

/-- `pd.Series(array, index=ravel(src)).loc[ravel(dst)].to_numpy()`; the result is NOT writable -/
def retrieve (values : List GQ) (src dst : List HKL) (gpts : Nat × Nat × Nat) : Except String (List GQ) := do
  let s ← src.mapM (ravelHkl gpts)
  let d ← dst.mapM (ravelHkl gpts)
  let tbl := s.zip values
  d.mapM fun lbl => match tbl.find? (·.1 == lbl) with
    | some (_, v) => .ok v
    | none => .error "key_error"

def gqScale (r : Rat) (z : GQ) : GQ := ⟨r * z.re, r * z.im⟩

def sub3 (a b : HKL) : HKL := (a.1 - b.1, a.2.1 - b.2.1, a.2.2 - b.2.2)

/-- `calculate_structure_matrix`; rows of the result.  `M`, `sg` are per selected reflection. -/
def structureMatrix (values : List GQ) (src sel : List HKL) (gpts : Nat × Nat × Nat)
    (prefactor wavelength : Rat) (M sg : List Rat) : Except String (List (List GQ)) := do
  -- gmh = hkl_selected[None] - hkl_selected[:, None]  (entry [i, j] = sel[j] - sel[i])
  let gmh := sel.flatMap fun hi => sel.map fun hj => sub3 hj hi
  let flat ← retrieve values src gmh gpts
  -- `A *= …` needs a writable array: the retrieved one is a read-only view unless the code copied it
  if !structureMatrixIsCopy then .error "value_error" else
  let n := sel.length
  let rows := (List.range n).map fun i => (List.range n).map fun j =>
    if i = j then (⟨diagValue wavelength (sg.getD i 0) * diagScale (M.getD i 0), 0⟩ : GQ)
    else gqScale (structScale prefactor (M.getD i 0) (M.getD j 0)) (flat.getD (i * n + j) GQ.zero)
  .ok rows

/-! ### Float part -/
structure CF where
  re : Float
  im : Float

namespace CF
def add (a b : CF) : CF := ⟨a.re + b.re, a.im + b.im⟩
def mul (a b : CF) : CF := ⟨a.re * b.re - a.im * b.im, a.re * b.im + a.im * b.re⟩
def conj (a : CF) : CF := ⟨a.re, -a.im⟩
def ofReal (x : Float) : CF := ⟨x, 0⟩
def divReal (a : CF) (x : Float) : CF := ⟨a.re / x, a.im / x⟩
/-- `exp(i θ)` -/
def cis (θ : Float) : CF := ⟨Float.cos θ, Float.sin θ⟩
def zero : CF := ⟨0, 0⟩
end CF

/-- `calculate_dynamical_scattering` after `v, C = eigh(A)`:
`gamma = v·λ/2; C_inv = conj(C.T)/M[None]; C = M[:,None]·C; alpha = C_inv @ e_{i0}; out[t] = C @ (exp(2πi t gamma)·alpha)` -/
def dynScatter (C : Array (Array CF)) (v M : Array Float) (wavelength : Float) (ts : List Float) (i0 : Nat) : List (List CF) :=
  let n := C.size
  let gamma := v.map fun x => x * wavelength / 2.0
  let cinv (k j : Nat) : CF := CF.divReal (CF.conj ((C.getD j #[]).getD k CF.zero)) (M.getD j 1)
  let cm (g k : Nat) : CF := CF.mul (CF.ofReal (M.getD g 1)) ((C.getD g #[]).getD k CF.zero)
  let alpha := (List.range n).map fun k => cinv k i0
  ts.map fun t =>
    let w := (List.range n).map fun k => CF.mul (CF.cis (2.0 * 3.141592653589793 * t * gamma.getD k 0)) (alpha.getD k CF.zero)
    (List.range n).map fun g => (List.range n).foldl (fun acc k => CF.add acc (CF.mul (cm g k) (w.getD k CF.zero))) CF.zero

/-! ### orientation ensembles -/

/-- one row of the eager ensemble result: the member's values written at the member's positions within the ensemble's
reflection list (`array[i][..., bw.hkl_mask[hkl_mask]] = pattern`), zero elsewhere -/
def scatterRow {α} (zero : α) (width : Nat) (pos : List Nat) (vals : List α) : List α :=
  (List.range width).map fun k => ((pos.zip vals).lookup k).getD zero

/-- `BlochwaveEnsemble._calculate_diffraction_intensities` (eager): one row per orientation (and thickness), each written
from that member's own run only -/
def assembleEnsemble {α} (zero : α) (width : Nat) (members : List (List Nat × List α)) : List (List α) :=
  members.map fun m => scatterRow zero width m.1 m.2

end AbtemVerif.Bloch
