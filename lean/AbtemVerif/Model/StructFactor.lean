/-
C27 — executable model around the *generated* reflection condition and centering table
(`Gen/Reflection.lean`, regenerated from abtem/bloch/utils.py on every run):

* `reflectionMask`  : `get_reflection_condition(hkl, centering)` on a whole `(N,3)` array;
* `selectHkl`       : the filtering of the hkl grid in `StructureFactor.__init__`;
* `sfQ`             : `calculate_structure_factors` for atoms on quarter positions of the cell, exactly, over
                      Gaussian rationals (`exp(-2πi m/4) = (-i)^m`), with the per-atom scattering factors given;
* `wrapIndex`/`freqOfIndex` : the negative-index placement of `structure_factor_1d_to_3d` and the integer
                      `fftfreq` grid of `make_hkl_grid`;
* `hasAllPairs`/`autoDetect` : `all_positions_have_relative_periodic_pair` / `auto_detect_centering` on exact
                      (rational) scaled positions of an orthogonal cell.
Core Lean only (no Mathlib).
-/
import AbtemVerif.Gen.Reflection
namespace AbtemVerif.StructFactor
open AbtemVerif.Py AbtemVerif.Gen.Reflection

abbrev HKL := Int × Int × Int

/-- `get_reflection_condition(hkl, centering)`: one boolean per row, or the exception of the code.
Whether the code raises does not depend on the rows (it is a shape/branch error), so it also raises for `N = 0`. -/
def reflectionMask (centeringLower : String) (hkls : List HKL) : Except String (List Bool) :=
  match reflectionCondition centeringLower 0 0 0 with
  | .error e => .error e
  | .ok _ => hkls.mapM fun (h, k, l) => reflectionCondition centeringLower h k l

/-- `StructureFactor.__init__`: `if centering.lower() != "p": hkl = hkl[get_reflection_condition(hkl, centering)]` -/
def selectHkl (centeringLower : String) (hkls : List HKL) : Except String (List HKL) :=
  if centeringLower == "p" then .ok hkls
  else (reflectionMask centeringLower hkls).map fun m => ((hkls.zip m).filter (·.2)).map (·.1)

/-! ### Gaussian rationals -/
structure GQ where
  re : Rat
  im : Rat
deriving DecidableEq, Repr

namespace GQ
def zero : GQ := ⟨0, 0⟩
def add (a b : GQ) : GQ := ⟨a.re + b.re, a.im + b.im⟩
def smul (r : Rat) (a : GQ) : GQ := ⟨r * a.re, r * a.im⟩
def conj (a : GQ) : GQ := ⟨a.re, -a.im⟩
end GQ

/-- `exp(-2πi · m/4) = (-i)^m` -/
def phaseQ (m : Int) : GQ :=
  match m % 4 with
  | 0 => ⟨1, 0⟩
  | 1 => ⟨0, -1⟩
  | 2 => ⟨-1, 0⟩
  | _ => ⟨0, 1⟩

/-- `4 · (p · h)` for the scaled position `p = q/4` -/
def qdot (q h : HKL) : Int := q.1 * h.1 + q.2.1 * h.2.1 + q.2.2 * h.2.2

/-- `sum_j f_e[j] * exp(-2πi p_j·h) / volume` for one reflection; `atoms` = (quarter position, scattering factor at `h`) -/
def sfQ (vol : Rat) (atoms : List (HKL × Rat)) (h : HKL) : GQ :=
  GQ.smul (1 / vol) (atoms.foldl (fun acc a => GQ.add acc (GQ.smul a.2 (phaseQ (qdot a.1 h)))) GQ.zero)

/-! ### index placement -/
/-- Python negative-index wrap used by `structure_factor_3d[hkl[:,0], …] = …` (valid for `-n ≤ h < n`) -/
def wrapIndex (h : Int) (n : Nat) : Int := if h < 0 then h + n else h

/-- `np.fft.fftfreq(n, d=1/n).astype(int)[i]` -/
def freqOfIndex (i : Nat) (n : Nat) : Int := if i < (n + 1) / 2 then i else (i : Int) - n

/-! ### centering detection on exact scaled positions -/
abbrev Pos := Rat × Rat × Rat

def frac (x : Rat) : Rat := x - x.floor

/-- equality of scaled positions modulo lattice translations -/
def sameSite (a b : Pos) : Bool :=
  frac (a.1 - b.1) == 0 && frac (a.2.1 - b.2.1) == 0 && frac (a.2.2 - b.2.2) == 0

def shift (a : Pos) (t : List Rat) : Pos := (a.1 + t.getD 0 0, a.2.1 + t.getD 1 0, a.2.2 + t.getD 2 0)

/-- `all_positions_have_relative_periodic_pair` with exact comparisons: the number of triples
(position, translation, partner) with `partner ≡ position + translation` reaches `len(rel)·len(positions)` -/
def hasAllPairs (positions : List Pos) (rel : List (List Rat)) : Bool :=
  if rel.length = 0 then false
  else if positions.length % rel.length ≠ 0 then false
  else
    let nmatch : Nat := (positions.map fun p => (rel.map fun t => (positions.filter fun q => sameSite q (shift p t)).length).sum).sum
    decide (nmatch ≥ rel.length * positions.length)

/-- `auto_detect_centering` for a cell with three mutually orthogonal axes (every orthogonality guard passes);
`species` = scaled positions grouped by atomic number.  `order` is the list of keys of the generated table. -/
def autoDetect (species : List (List Pos)) : String :=
  let cands := (centeringTranslations.filter fun (c, _) => c != "P").filter fun (_, rel) =>
    species.all fun ps => hasAllPairs ps rel
  let names := cands.map (·.1)
  let names := if names.contains "F" then names.filter fun c => !(c == "A" || c == "B" || c == "C") else names
  match names with
  | [c] => c
  | _ => "P"

end AbtemVerif.StructFactor
