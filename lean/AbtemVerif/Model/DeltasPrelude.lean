/-
numpy / Python rounding used by the generated definitions of `Gen/Deltas.lean`. Core Lean only.
-/
namespace AbtemVerif.Deltas

/-- Python `round(x)` / numpy `round`, `rint`: round half to even -/
def pyRoundHalfEven (x : Rat) : Int :=
  let f := x.floor
  let r := x - f
  if r < 1/2 then f else if r > 1/2 then f + 1 else if f % 2 = 0 then f else f + 1

end AbtemVerif.Deltas
