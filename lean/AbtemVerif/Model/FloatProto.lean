/-
Line-protocol helpers for `Float` twins (generated `Gen/*F.lean` definitions): a float64 travels as the
decimal value of its IEEE-754 bit pattern, so both directions are exact.  Core Lean only.
-/
import AbtemVerif.Model.Proto
namespace AbtemVerif.Proto

def parseFloatBits? (s : String) : Option Float :=
  (parseNat? s).bind fun n => if n < 2 ^ 64 then some (Float.ofBits n.toUInt64) else none

def showFloatBits (x : Float) : String := toString x.toBits.toNat

def showExceptF : Except String Float → String
  | .ok x => s!"ok {showFloatBits x}"
  | .error e => s!"err {e}"

def showExceptFs : Except String (List Float) → String
  | .ok xs => s!"ok {showList showFloatBits xs}"
  | .error e => s!"err {e}"

end AbtemVerif.Proto
