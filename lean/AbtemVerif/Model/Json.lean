/-
C30 — hand model of the metadata path of `to_zarr` / `from_zarr` (abtem/array.py):
`encode_types` (nested in `ComputableList.to_zarr`), the JSON attribute storage of zarr,
`decode_types` (nested in `from_zarr`), `axis_to_dict` / `axis_from_dict` (abtem/core/axes.py),
`ArrayObject._metadata_to_dict` and the `pop`s of `_from_zarr_canonical`.

Python values are a tree type with the distinctions the code looks at: tuple vs list, dict with
string or int keys, numpy scalars / arrays vs Python scalars.  Floats are opaque payloads (their
`repr`), arrays are carried as their `.tolist()` image.  Core Lean only.
-/
namespace AbtemVerif.Json

inductive PKey where
  | s (s : String)
  | i (n : Int)
  deriving DecidableEq, Repr, Inhabited

inductive PyVal where
  | none
  | bool (b : Bool)
  | int (n : Int)
  | float (repr : String)
  | str (s : String)
  | npint (n : Int)
  | npfloat (repr : String)
  | npbool (b : Bool)
  | ndarray (tolist : PyVal)          -- a numpy array, carried as the value of `.tolist()`
  | arraylike (tolist : PyVal)        -- any other object with `__array__` (e.g. an ASE Cell), carried as `np.asarray(obj).tolist()`
  | tuple (xs : List PyVal)
  | list (xs : List PyVal)
  | dict (kvs : List (PKey × PyVal))
  deriving Repr, Inhabited, BEq

inductive Err where
  | key_error | type_error | other_error
  deriving DecidableEq, Repr, Inhabited

def Err.name : Err → String
  | .key_error => "key_error"
  | .type_error => "type_error"
  | .other_error => "other_error"

/-- insertion-ordered dict primitives (same conventions as Model/Config) -/
def lookup {κ β} [DecidableEq κ] : List (κ × β) → κ → Option β
  | [], _ => Option.none
  | (k', v) :: t, k => if k' = k then some v else lookup t k

def put {κ β} [DecidableEq κ] : List (κ × β) → κ → β → List (κ × β)
  | [], k, v => [(k, v)]
  | (k', v') :: t, k, v => if k' = k then (k', v) :: t else (k', v') :: put t k v

def erase {κ β} [DecidableEq κ] : List (κ × β) → κ → List (κ × β)
  | [], _ => []
  | (k', v') :: t, k => if k' = k then t else (k', v') :: erase t k

/-! ### `encode_types` -/
mutual
def encode : PyVal → PyVal
  | .tuple xs => .dict [(.s "_type", .str "tuple"), (.s "_value", .list (encodeL xs))]
  | .list xs => .list (encodeL xs)
  | .dict kvs =>
      -- a user dict that carries the tag key itself is wrapped, so that it cannot be mistaken for an encoded tuple
      if (lookup kvs (.s "_type")).isSome then .dict [(.s "_type", .str "dict"), (.s "_value", .dict (encodeKV kvs))]
      else .dict (encodeKV kvs)
  | .npint n => .int n
  | .npfloat r => .float r
  | .npbool b => .bool b
  | .ndarray t => t                       -- `obj.tolist()`, not re-encoded
  | .arraylike t => t                     -- `np.asarray(obj).tolist()`
  | .none => .none
  | .bool b => .bool b
  | .int n => .int n
  | .float r => .float r
  | .str s => .str s
def encodeL : List PyVal → List PyVal
  | [] => []
  | x :: xs => encode x :: encodeL xs
def encodeKV : List (PKey × PyVal) → List (PKey × PyVal)
  | [] => []
  | (k, v) :: t => (k, encode v) :: encodeKV t
end

/-! ### JSON attribute storage (`json.dumps` on write, `json.loads` on read) -/
def keyToJson : PKey → PKey
  | .s s => .s s
  | .i n => .s (toString n)               -- json.dumps coerces int keys to strings

mutual
def store : PyVal → Except Err PyVal
  | .none => .ok .none
  | .bool b => .ok (.bool b)
  | .int n => .ok (.int n)
  | .float r => .ok (.float r)
  | .str s => .ok (.str s)
  | .tuple xs => match storeL xs with       -- tuples are written as JSON arrays
      | .ok ys => .ok (.list ys)
      | .error e => .error e
  | .list xs => match storeL xs with
      | .ok ys => .ok (.list ys)
      | .error e => .error e
  | .dict kvs => match storeKV kvs with
      | .ok r => .ok (.dict r)
      | .error e => .error e
  | .npint _ => .error .type_error          -- "Object of type int64 is not JSON serializable"
  | .npfloat _ => .error .type_error
  | .npbool _ => .error .type_error
  | .ndarray _ => .error .type_error
  | .arraylike _ => .error .type_error
def storeL : List PyVal → Except Err (List PyVal)
  | [] => .ok []
  | x :: xs => match store x, storeL xs with
      | .ok y, .ok ys => .ok (y :: ys)
      | .error e, _ => .error e
      | _, .error e => .error e
def storeKV : List (PKey × PyVal) → Except Err (List (PKey × PyVal))
  | [] => .ok []
  | (k, v) :: t => match store v, storeKV t with
      | .ok y, .ok ys => .ok ((keyToJson k, y) :: ys)
      | .error e, _ => .error e
      | _, .error e => .error e
end

/-! ### `decode_types` -/
def keyAsVal : PKey → PyVal
  | .s s => .str s
  | .i n => .int n

mutual
def decode : PyVal → Except Err PyVal
  | .dict kvs =>
      match lookup kvs (.s "_type") with
      | some (.str "tuple") => decodeTupleValue kvs      -- `tuple(decode_types(v) for v in obj["_value"])`
      | some (.str "dict") =>
          -- `obj.get("_type") == "dict" and isinstance(obj.get("_value"), dict)`: the wrapped user dict
          match decodeDictValue kvs with
          | some r => r
          | Option.none => match decodeKV kvs with
              | .ok r => .ok (.dict r)
              | .error e => .error e
      | _ => match decodeKV kvs with
          | .ok r => .ok (.dict r)
          | .error e => .error e
  | .list xs => match decodeL xs with
      | .ok ys => .ok (.list ys)
      | .error e => .error e
  | v => .ok v
/-- `obj["_value"]` (first entry with that key; KeyError if absent), iterated and decoded item by item -/
def decodeTupleValue : List (PKey × PyVal) → Except Err PyVal
  | [] => .error .key_error
  | (k, v) :: t =>
      if k = .s "_value" then
        match v with
        | .list xs => match decodeL xs with
            | .ok ys => .ok (.tuple ys)
            | .error e => .error e
        | .tuple xs => match decodeL xs with
            | .ok ys => .ok (.tuple ys)
            | .error e => .error e
        | .str s => .ok (.tuple (s.toList.map fun c => .str (String.singleton c)))   -- iterating a str
        | .dict kvs' => .ok (.tuple (kvs'.map fun kv => keyAsVal kv.1))              -- iterating a dict
        | _ => .error .type_error                                                    -- not iterable
      else decodeTupleValue t
/-- the wrapped dict `obj["_value"]` decoded value by value, if `_value` is present and a dict (`none` otherwise) -/
def decodeDictValue : List (PKey × PyVal) → Option (Except Err PyVal)
  | [] => Option.none
  | (k, v) :: t =>
      if k = .s "_value" then
        match v with
        | .dict inner => some (match decodeKV inner with
            | .ok r => .ok (.dict r)
            | .error e => .error e)
        | _ => Option.none
      else decodeDictValue t
def decodeL : List PyVal → Except Err (List PyVal)
  | [] => .ok []
  | x :: xs => match decode x, decodeL xs with
      | .ok y, .ok ys => .ok (y :: ys)
      | .error e, _ => .error e
      | _, .error e => .error e
def decodeKV : List (PKey × PyVal) → Except Err (List (PKey × PyVal))
  | [] => .ok []
  | (k, v) :: t => match decode v, decodeKV t with
      | .ok y, .ok ys => .ok ((k, y) :: ys)
      | .error e, _ => .error e
      | _, .error e => .error e
end

/-- what is written and read back: `decode_types(json(encode_types(v)))` -/
def roundtrip (v : PyVal) : Except Err PyVal :=
  match store (encode v) with
  | .ok j => decode j
  | .error e => .error e

/-! ### the stated normalisation: numpy scalars become Python scalars, arrays become (nested) lists -/
mutual
def norm : PyVal → PyVal
  | .npint n => .int n
  | .npfloat r => .float r
  | .npbool b => .bool b
  | .ndarray t => t
  | .arraylike t => t
  | .tuple xs => .tuple (normL xs)
  | .list xs => .list (normL xs)
  | .dict kvs => .dict (normKV kvs)
  | .none => .none
  | .bool b => .bool b
  | .int n => .int n
  | .float r => .float r
  | .str s => .str s
def normL : List PyVal → List PyVal
  | [] => []
  | x :: xs => norm x :: normL xs
def normKV : List (PKey × PyVal) → List (PKey × PyVal)
  | [] => []
  | (k, v) :: t => (k, norm v) :: normKV t
end

/-! ### guards -/
mutual
/-- nested lists of Python scalars: what `ndarray.tolist()` returns -/
def Plain : PyVal → Bool
  | .none => false
  | .bool _ => true
  | .int _ => true
  | .float _ => true
  | .str _ => false
  | .list xs => PlainL xs
  | _ => false
def PlainL : List PyVal → Bool
  | [] => true
  | x :: xs => Plain x && PlainL xs
end

mutual
/-- well formed: array payloads are `tolist()` images; dict keys are strings -/
def Good : PyVal → Bool
  | .ndarray t => Plain t
  | .arraylike t => Plain t
  | .tuple xs => GoodL xs
  | .list xs => GoodL xs
  | .dict kvs => GoodKV kvs
  | _ => true
def GoodL : List PyVal → Bool
  | [] => true
  | x :: xs => Good x && GoodL xs
/-- every key is a string, every value is good -/
def GoodKV : List (PKey × PyVal) → Bool
  | [] => true
  | (k, v) :: t =>
      (match k with
       | .s _ => true
       | .i _ => false)
      && Good v && GoodKV t
end

/-! ### axis metadata: `axis_to_dict` / `axis_from_dict` over a table of dataclasses -/

/-- one `@dataclass` of abtem/core/axes.py: name, base class names, own fields with their defaults -/
structure ClassDecl where
  name : String
  bases : List String
  fields : List (String × PyVal)
  deriving Repr, Inhabited

def findClass (tbl : List ClassDecl) (n : String) : Option ClassDecl :=
  tbl.find? (fun c => c.name == n)

/-- dataclass field collection: base fields first (in MRO order, single inheritance), an overriding
declaration keeps the position of the inherited field and replaces its default -/
def classFields (tbl : List ClassDecl) : Nat → String → Option (List (String × PyVal))
  | 0, _ => Option.none
  | fuel + 1, n =>
      match findClass tbl n with
      | Option.none => Option.none
      | some c =>
          let base : Option (List (String × PyVal)) :=
            match c.bases with
            | [] => some []
            | b :: _ => if b == "object" then some [] else classFields tbl fuel b
          base.map fun bf => c.fields.foldl (fun acc (k, v) => put acc k v) bf

structure Axis where
  cls : String
  fields : List (String × PyVal)
  deriving Repr, Inhabited

/-- `tuple(value.tolist())` for array-valued fields of `dataclasses.asdict(axis)` -/
def arrToTuple : PyVal → PyVal
  | .ndarray (.list xs) => .tuple xs
  | v => v

/-- the dict `axis_to_dict` builds when every array-valued field can be turned into a tuple -/
def axisToDictRaw (a : Axis) : PyVal :=
  .dict (put (a.fields.map fun kv => (PKey.s kv.1, arrToTuple kv.2)) (.s "type") (.str a.cls))

/-- `tuple(value.tolist())` needs an iterable: a 0-d array field raises TypeError ('float' object is not iterable) -/
def fieldOk : PyVal → Bool
  | .ndarray (.list _) => true
  | .ndarray _ => false
  | _ => true

/-- `axis_to_dict` -/
def axisToDict (a : Axis) : Except Err PyVal :=
  if a.fields.all (fun kv => fieldOk kv.2) then .ok (axisToDictRaw a) else .error .type_error

/-- `axis_from_dict`: `globals()[d["type"]](**{k: v for k, v in d.items() if k != "type"})` -/
def axisFromDict (tbl : List ClassDecl) (d : PyVal) : Except Err Axis :=
  match d with
  | .dict kvs =>
      match lookup kvs (.s "type") with
      | some (.str c) =>
          match classFields tbl (tbl.length + 1) c with
          | Option.none => .error .key_error
          | some fs =>
              let args := kvs.filter fun kv => kv.1 != PKey.s "type"
              if args.all fun kv => match kv.1 with
                  | .s k => (lookup fs k).isSome
                  | .i _ => false
              then .ok ⟨c, fs.map fun (k, dflt) => (k, (lookup args (.s k)).getD dflt)⟩
              else .error .type_error          -- unexpected keyword argument
      | _ => .error .key_error
  | _ => .error .type_error

instance : BEq PKey := ⟨fun a b => decide (a = b)⟩

/-! ### metadata packing: `_metadata_to_dict` + `["kwargs"]`, and the pops of `_from_zarr_canonical` -/

def reserved : List String := ["axes", "data_origin", "type", "kwargs"]

/-- `_metadata_to_dict()` then `metadata_dict["kwargs"] = …` -/
def packMetadata (md : List (PKey × PyVal)) (axes origin cls kwargs : PyVal) : List (PKey × PyVal) :=
  put (put (put (put md (.s "axes") axes) (.s "data_origin") origin) (.s "type") cls) (.s "kwargs") kwargs

/-- `metadata.pop("data_origin", None); pop("type"); kwargs = pop("kwargs", None); pop("axes")`, then — the keys above shadow user
entries of the same name — `if isinstance(kwargs, dict) and isinstance(kwargs.get("metadata"), dict): metadata = dict(kwargs["metadata"])` -/
def unpackMetadata (md : List (PKey × PyVal)) : List (PKey × PyVal) :=
  match lookup md (.s "kwargs") with
  | some (.dict kw) =>
      match lookup kw (.s "metadata") with
      | some (.dict m) => m
      | _ => erase (erase (erase (erase md (.s "data_origin")) (.s "type")) (.s "kwargs")) (.s "axes")
  | _ => erase (erase (erase (erase md (.s "data_origin")) (.s "type")) (.s "kwargs")) (.s "axes")

end AbtemVerif.Json
