/-
C06 — ensemble bookkeeping of `SMatrix._eager_build_s_matrix_detect` (abtem/prism/s_matrix.py) for one detector:
one scattering matrix is built and reduced per frozen-phonon configuration (block) and the results are written into a
pre-allocated measurement.  Pattern A: the per-configuration results are parameters (`rs`, flattened arrays over ℚ).
Core Lean only.
-/
namespace AbtemVerif.PrismEnsemble

abbrev Arr := List Rat

def zeros (m : Nat) : Arr := List.replicate m 0
def addArr (a b : Arr) : Arr := List.zipWith (· + ·) a b
def divArr (a : Arr) (n : Nat) : Arr := a.map (· / (n : Rat))

/-- `mean`: the ensemble axis carries `_ensemble_mean`; `isWaves`: the measurement is a `Waves` object (a `WavesDetector`);
`m`: size of one per-configuration result.  Allocation: one row if the results are averaged, else one row per
configuration; loop over the blocks: accumulate into row 0 or write row `i`; finally divide by the number of blocks. -/
def eagerDetect (mean isWaves : Bool) (m : Nat) (rs : List Arr) : List Arr :=
  let n := rs.length
  let averaged := mean && !isWaves       -- exit waves are never averaged over the ensemble (repaired: /repo f4e1cd1b)
  let init : List Arr := List.replicate (if averaged then 1 else n) (zeros m)
  let filled := (List.range n).foldl
    (fun (meas : List Arr) i => if averaged then meas.map (fun row => addArr row (rs.getD i [])) else meas.set i (rs.getD i [])) init
  if averaged then (if n > 1 then filled.map (fun row => divArr row n) else filled) else filled

/-- what the lazy path and `Probe.multislice` give: every configuration separately, then `reduce_ensemble`
(mean over the flagged axis for measurements, nothing for waves) -/
def referenceDetect (mean isWaves : Bool) (m : Nat) (rs : List Arr) : List Arr :=
  if mean && !isWaves then [divArr' (rs.foldl addArr (zeros m)) rs.length] else rs
where divArr' (a : Arr) (n : Nat) : Arr := if n > 1 then divArr a n else a

/-! ### shapes of the eager S-matrix build (`SMatrix.build(lazy=False)`) -/

/-- numpy's rule for `target[...] = source`: after right alignment every source dimension equals the target's or is 1,
and the source has no extra leading dimensions other than 1 -/
def broadcastsInto (src dst : List Nat) : Bool :=
  let rs := src.reverse
  let rd := dst.reverse
  (List.zipWith (fun a b => a == b || a == 1) rs rd).all id && (rs.drop rd.length).all (· == 1)

/-- the array `SMatrix.build(lazy=False)` allocates: `ensemble_shape + (len(self),) + downsampled_gpts` -/
def allocatedShape (ensemble : List Nat) (nWaveVectors : Nat) (gpts : Nat × Nat) : List Nat :=
  ensemble ++ [nWaveVectors, gpts.1, gpts.2]

/-- the block `_build_s_matrix` returns for one ensemble member: the multislice of the plane waves, with a leading exit-plane
axis when the potential has more than one exit plane -/
def builtBlockShape (nExitPlanes nWaveVectors : Nat) (gpts : Nat × Nat) : List Nat :=
  (if nExitPlanes > 1 then [nExitPlanes] else []) ++ [nWaveVectors, gpts.1, gpts.2]

end AbtemVerif.PrismEnsemble
