/-
C11 — state-machine model of the caches a potential carries between builds
(abtem/integrals.py: `ScatteringFactorProjectionIntegrals.get_scattering_factor`,
`QuadratureProjectionIntegrals.get_integral_table`; abtem/potentials/iam.py:
`_FieldBuilderFromAtoms.get_sliced_atoms`).

Pattern A: the numeric computations are parameters
  `compute : Sym → G → V`   `_calculate_scattering_factor` / `_calculate_integral_table`
  `prepare : Unit → SA`      `_prepare_atoms` (does not read the grid)
`key : Sym → G → K` is the dictionary key the code forms from the arguments of the lookup; for the
real code it is the *generated* definition (`Gen/IntegralsCache.lean`, regenerated from the source).
Core Lean only.
-/
namespace AbtemVerif.Cache

/-- Python `dict[k]` on an association list (most recent binding first); `none` = KeyError -/
def dlookup {K V} [DecidableEq K] : List (K × V) → K → Option V
  | [], _ => none
  | (k', v) :: rest, k => if k' = k then some v else dlookup rest k

/-- `try: v = cache[key] except KeyError: v = compute(...); cache[key] = v` — returns the value handed to the
caller, the new dictionary and whether the computation ran (a miss). -/
def getCached {Sym G K V} [DecidableEq K] (key : Sym → G → K) (compute : Sym → G → V)
    (cache : List (K × V)) (s : Sym) (g : G) : V × List (K × V) × Bool :=
  match dlookup cache (key s g) with
  | some v => (v, cache, false)
  | none => (compute s g, (key s g, compute s g) :: cache, true)

/-- the lookups of one build: `reqs` lists, slice by slice, the species for which `integrate_on_grid` asks
(`for number in np.unique(atoms.numbers)`); all of them with the current grid -/
def buildVals {Sym G K V} [DecidableEq K] (key : Sym → G → K) (compute : Sym → G → V) :
    List (K × V) → List Sym → G → List (V × Bool) × List (K × V)
  | c, [], _ => ([], c)
  | c, s :: rest, g =>
    let r := getCached key compute c s g
    let rs := buildVals key compute r.2.1 rest g
    ((r.1, r.2.2) :: rs.1, rs.2)

inductive Op (G : Type) where
  /-- `potential.gpts = …` / `potential.sampling = …` / `grid.match(waves)`: the grid the next build uses -/
  | setGrid (g : G)
  /-- eager build of a potential without ensemble axes: `generate_slices` runs on the object itself -/
  | build
  /-- build whose `k` blocks run one after the other on ONE deep copy of the integrator (`_copy_kwargs` →
  `copy.deepcopy(integrator)`, caches included; new potentials have `_sliced_atoms = None`); nothing flows back.  The code path is
  the lazy build of a potential without ensemble axes (`k = 1`) -/
  | buildShared (k : Nat)
  /-- build of an ensemble of `k` configurations: every block works on its own deep copy of the integrator — eagerly
  (`generate_blocks` calls `_from_partitioned_args` per block) and lazily (each task's one-member potential takes the eager
  ensemble path again); nothing flows back -/
  | buildCopies (k : Nat)
deriving Repr

/-- the mutable state a potential object (with its integrator) carries -/
structure St (G K V SA : Type) where
  grid : G
  cache : List (K × V)
  /-- `_sliced_atoms` -/
  sliced : Option SA

/-- what a build observes: the grid it ran with, the kernel values it used (with miss flags), the sliced atoms -/
structure Out (G V SA : Type) where
  grid : G
  vals : List (V × Bool)
  sliced : SA
  /-- number of ensemble blocks whose lookups are concatenated in `vals` -/
  blocks : Nat

/-- `get_sliced_atoms` -/
def getSliced {G K V SA} (prepare : Unit → SA) (st : St G K V SA) : SA × St G K V SA :=
  match st.sliced with
  | some sa => (sa, st)
  | none => (prepare (), { st with sliced := some (prepare ()) })

def step {Sym G K V SA} [DecidableEq K] (key : Sym → G → K) (compute : Sym → G → V) (prepare : Unit → SA)
    (reqs : List Sym) (st : St G K V SA) : Op G → St G K V SA × Option (Out G V SA)
  | .setGrid g => ({ st with grid := g }, none)
  | .build =>
    let (sa, st1) := getSliced prepare st
    let r := buildVals key compute st1.cache reqs st1.grid
    ({ st1 with cache := r.2 }, some ⟨st1.grid, r.1, sa, 1⟩)
  | .buildShared k =>
    let r := buildVals key compute st.cache (List.replicate k reqs).flatten st.grid
    (st, some ⟨st.grid, r.1, prepare (), k⟩)
  | .buildCopies k =>
    let r := buildVals key compute st.cache reqs st.grid
    (st, some ⟨st.grid, (List.replicate k r.1).flatten, prepare (), k⟩)

/-- outputs of the builds of a history, in order -/
def run {Sym G K V SA} [DecidableEq K] (key : Sym → G → K) (compute : Sym → G → V) (prepare : Unit → SA)
    (reqs : List Sym) : St G K V SA → List (Op G) → List (Out G V SA)
  | _, [] => []
  | st, op :: ops =>
    let r := step key compute prepare reqs st op
    match r.2 with
    | some o => o :: run key compute prepare reqs r.1 ops
    | none => run key compute prepare reqs r.1 ops

/-- a newly constructed potential with grid `g` -/
def fresh {G K V SA} (g : G) : St G K V SA := ⟨g, [], none⟩

end AbtemVerif.Cache
