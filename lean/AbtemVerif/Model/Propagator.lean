/-
Executable Float twin of Lib/WaveOptics.lean: the same hand-written control flow around the *generated* Float
formulas of Gen/PropagatorF.lean (abtem/multislice.py, abtem/antialias.py, abtem/potentials/iam.py).
Compared pixel by pixel with the arrays built by the real functions (harness/c04.py, harness/c39.py).
Core Lean only.
-/
import AbtemVerif.Gen.PropagatorF
namespace AbtemVerif.PropagatorModel
open AbtemVerif.Gen.PropagatorF

/-- float64 <-> decimal value of its IEEE-754 bit pattern (exact both ways) -/
def fbits? (s : String) : Option Float :=
  s.toNat?.bind fun n => if n < 2 ^ 64 then some (Float.ofBits n.toUInt64) else none
def showF (x : Float) : String := toString x.toBits.toNat

structure CF where
  re : Float
  im : Float

def CF.mul (a b : CF) : CF := ⟨a.re * b.re - a.im * b.im, a.re * b.im + a.im * b.re⟩
def CF.scale (a : CF) (s : Float) : CF := ⟨a.re * s, a.im * s⟩

/-- `_complex_exponential` of abtem/core/complex.py (`cos x + 1j sin x`; the ℂ version is generated, Gen/PropagatorC) -/
def cexpF (x : Float) : CF := ⟨Float.cos x, Float.sin x⟩

/-- `antialias_aperture` at one pixel, arbitrary cutoff / taper -/
def apertureOfF (r cutoff taper : Float) : Float :=
  if apertureTaperTest taper then
    let a := apertureCos r cutoff taper
    let a := if apertureZeroMask r cutoff then apertureZeroValue else a
    apertureWhere r cutoff taper a
  else (if apertureHard r cutoff then 1 else 0)

/-- with explicit configuration values (`config.set` in the harness) -/
def apertureCfgF (cfgCutoff cfgTaper kx ky ms : Float) : Float :=
  apertureOfF (apertureRadius kx ky) (apertureCutoff cfgCutoff ms) (apertureTaper cfgTaper ms)

/-- with the defaults of abtem.yaml -/
def apertureF (kx ky ms : Float) : Float := apertureCfgF antialiasCutoff antialiasTaper kx ky ms

/-- `_fresnel_propagator_array` at one pixel; `order > 2` raises ValueError -/
def fresnelF (order : Nat) (kx ky dz wl : Float) : Except String CF :=
  if order > 2 then .error "value_error" else
  let f := (cexpF (fresnelPhaseX kx dz wl)).mul (cexpF (fresnelPhaseY ky dz wl))
  .ok (if order = 2 then f.mul (cexpF (fresnelPhase2 kx ky dz wl)) else f)

def tiltFactorF (kx ky tx ty dz : Float) : CF :=
  (cexpF (tiltPhaseX kx tx dz)).mul (cexpF (tiltPhaseY ky ty dz))

/-- `FresnelPropagator._calculate_array` at one pixel -/
def propagatorF (order : Nat) (kx ky dz wl ms : Float) (tilts : List (Float × Float)) : Except String CF := do
  let f ← fresnelF order kx ky dz wl
  let a := f.scale (apertureF kx ky ms)
  pure (tilts.foldl (fun acc t => (tiltFactorF kx ky t.1 t.2 dz).mul acc) a)

/-- The tilt list `FresnelPropagator._calculate_array` applies: the scalar base tilt (`waves.base_tilt`, metadata) unless it
equals `(0.0, 0.0)`, then — walking `waves.ensemble_axes_metadata` from the last axis to the first — the member tilt of every
axis that has a `.tilt` (`none` = an ensemble axis without tilt: broadcast dimension only). -/
def calcTilts (base : Float × Float) (axes : List (Option (Float × Float))) : List (Float × Float) :=
  (if base.1 != 0 || base.2 != 0 then [base] else []) ++ axes.reverse.filterMap id

/-- one member of the array returned by `FresnelPropagator._calculate_array` -/
def calcArrayF (order : Nat) (kx ky dz wl ms : Float) (base : Float × Float) (axes : List (Option (Float × Float))) :
    Except String CF :=
  propagatorF order kx ky dz wl ms (calcTilts base axes)

def transmissionF (sigma v : Float) : CF := cexpF (transmissionPhase sigma v)

end AbtemVerif.PropagatorModel
