/-
More numpy scalar semantics for generated definitions (`Rat`, `Float`); core Lean only.
Imported by generated modules through `EXTRA_IMPORTS` (tools/sites/*.py).
-/
namespace AbtemVerif.Py

/-- numpy `sign` on exact rationals -/
def pySignQ (x : Rat) : Rat := if 0 < x then 1 else if x < 0 then -1 else 0
/-- numpy `sign` on float64 (`sign(nan) = nan`, `sign(±0) = 0`) -/
def pySignF (x : Float) : Float := if 0 < x then 1 else if x < 0 then -1 else if x == 0 then 0 else x

end AbtemVerif.Py
