/-
C37 — executable model of the finite-difference Laplacian (abtem/finite_difference.py) around the generated
coefficient table and kernel summand of `Gen/FiniteDiff.lean`, and of the loop of
`_multislice_exponential_series`.  Exact arithmetic over ℚ; arrays are periodic functions of two integer indices.
-/
import AbtemVerif.Gen.FiniteDiff
namespace AbtemVerif.FiniteDiff
open AbtemVerif.Gen.FiniteDiff AbtemVerif.Py

/-- `finite_difference_coefficients(derivative, accuracy)` for accuracies served by the table (`accuracy ≤ 18`);
larger accuracies go through sympy and are not modelled -/
def coefficients (derivative accuracy : Int) : Except String (List Rat) :=
  if accuracy % 2 = 1 ∨ accuracy ≤ 0 then .error "value_error"
  else if derivative < 0 then .error "value_error"
  else if accuracy ≤ 18 then
    match fdCoefficients.lookup accuracy.toNat with
    | some c => .ok c
    | none => .error "key_error"
  else .error "not_modelled"

/-- `c = np.roll(c, -(len(c) // 2))` followed by `c[k]` for `-n ≤ k ≤ n` (negative indices count from the end) -/
def rolledAt (c : List Rat) (k : Int) : Rat :=
  let len : Int := c.length
  let idx := if k < 0 then len + k else k           -- Python negative index into the rolled array
  let src := (idx - stencilRollShift len) % len     -- np.roll(c, s)[i] = c[(i - s) mod len]
  c.getD src.toNat 0

/-- the stencil with wrap boundary on an `h × w` periodic array: `out[i, j] = Σ_{k=-n}^{n} cx[k] a[i+k, j] + cy[k] a[i, j+k]`
(the code pads by `n + 1 ≥ n` periodically, applies the kernel to the interior and removes the padding) -/
def laplace (c : List Rat) (px py : Rat) (h w : Nat) (a : Int → Int → Rat) (i j : Int) : Rat :=
  let n := stencilHalfWidth c.length
  ((List.range (2 * n.toNat + 1)).map fun (t : Nat) =>
    let k : Int := (t : Int) - n
    kernelSummand (rolledAt c k * px) (rolledAt c k * py) (a ((i + k) % (h : Int)) j) (a i ((j + k) % (w : Int)))).sum

/-- `LaplaceOperator.get_stencil(waves)` applied to an array: per-axis prefactors from the sampling -/
def laplaceOperator (accuracy : Int) (sampling : Rat × Rat) (h w : Nat) (a : Int → Int → Rat) (i j : Int) : Except String Rat :=
  (coefficients 2 accuracy).map fun c => laplace c (axisPrefactor sampling.1) (axisPrefactor sampling.2) h w a i j

/-- `q`-th moment `Σ_j c_j j^q` of a centred stencil -/
def moment (c : List Rat) (q : Nat) : Rat :=
  let m : Int := c.length / 2
  ((List.range c.length).map fun (t : Nat) => c.getD t 0 * (((t : Int) - m : Int) : Rat) ^ q).sum

/-- absolute moment `Σ_j |c_j| |j|^q` (scale of the rounding error of the decimal table) -/
def absMoment (c : List Rat) (q : Nat) : Rat :=
  let m : Int := c.length / 2
  ((List.range c.length).map fun (t : Nat) => pyAbs (c.getD t 0) * pyAbs ((((t : Int) - m : Int) : Rat) ^ q)).sum

/-- the order conditions of a centred second-derivative stencil of accuracy `p`: `p + 1` points, symmetric, moments
`0, 0, 2, 0, …, 0` up to order `p + 1` — up to the rounding of the 17-digit decimals (`tol` relative to `absMoment`) -/
def orderConditions (tol : Rat) (p : Nat) (c : List Rat) : Bool :=
  c.length = p + 1 && c == c.reverse &&
  (List.range (p + 2)).all fun q =>
    pyAbs (moment c q - (if q = 2 then 2 else 0)) ≤ tol * absMoment c q

/-- `_multislice_exponential_series`, loop structure only (no convergence test): `terms ≥ 1` applications of the
series operator `T`, term `i` divided by `i`, all added to the wave -/
def expSeries {W} [Add W] (T : W → W) (div : W → Nat → W) (terms : Nat) (w : W) : W :=
  let t1 := T w
  let rec go (fuel : Nat) (i : Nat) (temp acc : W) : W :=
    match fuel with
    | 0 => acc
    | fuel + 1 => let temp' := div (T temp) i; go fuel (i + 1) temp' (acc + temp')
  go (terms - 1) 2 t1 (w + t1)

/-- outcome of `_multislice_exponential_series` -/
inductive SeriesOutcome where
  | converged (terms : Nat)     -- `break`: the last term fell below the tolerance
  | diverged (term : Nat)       -- `raise DivergedError()`
  | notConverged                -- `raise NotConvergedError(...)` after `max_terms`
deriving Repr, DecidableEq

/-- the convergence logic of `_multislice_exponential_series` on a wave that is a superposition of eigen-modes of the series
operator: mode `k` has amplitude modulus `a_k ≥ 0` and the operator multiplies it by a number of modulus `y_k ≥ 0` (in vacuum a
purely imaginary number), so the `i`-th term has modulus `a_k y_k^i / i!` and `xp.abs(temp).sum()` is their sum.
The loop tests only the terms `i = 2 … max_terms`: first the tolerance (`break`), then `temp_amplitude > initial_amplitude` (raise). -/
def seriesOutcome (modes : List (Rat × Rat)) (tol : Rat) (maxTerms : Nat) : SeriesOutcome :=
  let initial := (modes.map (·.1)).sum
  let rec go (fuel i : Nat) (temp : List (Rat × Rat)) : SeriesOutcome :=
    match fuel with
    | 0 => .notConverged
    | fuel + 1 =>
      let temp' := temp.map fun m => (m.1 * m.2 / (i : Rat), m.2)
      let amp := (temp'.map (·.1)).sum
      if amp / initial ≤ tol then .converged i
      else if amp > initial then .diverged i
      else go fuel (i + 1) temp'
  go (maxTerms - 1) 2 (modes.map fun m => (m.1 * m.2, m.2))

/-- the padded computation of `_apply_boundary`: with `padding = n + 1` wrap-padded pixels on each side, output pixel `i` and
stencil offset `k` read padded index `padding + i + k`, which holds the value of pixel `(i + k) mod h` -/
def paddedIndex (len : Int) (i k : Int) : Int :=
  stencilPadding (stencilHalfWidth len) + i + k

end AbtemVerif.FiniteDiff
