/-
C19 — model of the ensemble partitioners (Pattern A: members are abstract values of any type).

  CustomScan._partition_args        positions[start_chunk : start_chunk + chunk] over `zip((0,)+cumsum, chunks)` → `sliceBlocks`
  DistributionFromValues.divide     values/weights[start:stop] over `zip(cumsum((0,)+chunks), cumsum(chunks))`     → `distBlocks`
                                    (an int `chunks` goes through `equal_sized_chunks`, C18 model)                 → `divide`
  FrozenPhonons / AtomsEnsemble     seed[start:stop] over `chunk_ranges(chunks)[0]`                                → `rangeBlocks`
  OrdinalAxis.__getitem__(slice)    values[slice] over `iterate_chunk_ranges`                                      → `rangeBlocks`
  GridScan._partition_args          per axis `{start, end, gpts=chunk, endpoint=False}` (generated gsStart/gsEnd)  → `gridAxisBlocks`
  LineScan._partition_args          per coordinate start/end (generated lsStart/lsEnd), gpts=chunk, endpoint=False → `lineBlocks`
  LinearAxis blocks                 offset + start·sampling (generated, after the fix)                             → `linearAxisBlocks`
  scan / axis coordinates           numpy.linspace (Model/Linspace.lean)
  WavesBuilder._chunk_splits        consecutive (cum_i, cum_{i+1}) of the sub-ensemble dimensions; chunks[slice]  → `chunkSplits`, `argChunks`
  Ensemble.generate_blocks          np.ndindex × itertools.product(*chunk_ranges)                                 → `blockGrid`
-/
import AbtemVerif.Gen.EnsembleSites
import AbtemVerif.Model.Partition
import AbtemVerif.Model.Linspace
import AbtemVerif.Model.Chunks
namespace AbtemVerif.Ensemble
open AbtemVerif.Partition AbtemVerif.Gen.EnsembleSites AbtemVerif.Np

/-- `np.cumsum` -/
def cumsum (acc : Nat) : List Nat → List Nat
  | [] => []
  | c :: cs => (acc + c) :: cumsum (acc + c) cs

/-- `zip((0,) + cumchunks, chunks)` -/
def startChunks (cs : List Nat) : List (Nat × Nat) := (0 :: cumsum 0 cs).zip cs

/-- blocks `xs[start_chunk : start_chunk + chunk]` (CustomScan) -/
def sliceBlocks {α} (xs : List α) (cs : List Nat) : List (List α) :=
  (startChunks cs).map fun (s, c) => sliceRange xs (s, s + c)

/-- blocks `xs[start:stop]` over `zip(np.cumsum((0,) + chunks), np.cumsum(chunks))` (DistributionFromValues.divide) -/
def distBlocks {α} (xs : List α) (cs : List Nat) : List (List α) :=
  ((cumsum 0 (0 :: cs)).zip (cumsum 0 cs)).map fun r => sliceRange xs r

/-- blocks over `chunk_ranges(chunks)[0]` (frozen-phonon seeds, trajectories, ordinal axis values) -/
def rangeBlocks {α} (xs : List α) (cs : List Nat) : List (List α) := (ranges cs).map (sliceRange xs)

/-- `DistributionFromValues.divide(chunks)`: an int is turned into equal-sized chunks, a tuple must sum to the length -/
def divide {α} (xs : List α) (chunks : Sum Int (List Nat)) : Except String (List (List α)) :=
  match chunks with
  | .inl m => (Chunks.equalSizedChunks xs.length (some m) none).map fun cs => distBlocks xs (cs.map Int.toNat)
  | .inr cs => if cs.sum = xs.length then .ok (distBlocks xs cs) else .error "assertion_error"

/-- one scan-axis block `{start, end, gpts}` (endpoint is always False) -/
structure AxisBlock where
  start : Rat
  stop : Rat
  gpts : Nat
  deriving Repr, DecidableEq

def gridAxisBlocks (start sampling : Rat) (cs : List Nat) : List AxisBlock :=
  (startChunks cs).map fun (s, c) =>
    let st := gsStart start sampling (s : Rat)
    ⟨st, gsEnd st sampling (c : Rat), c⟩

/-- `CustomScan.ensemble_shape`: a scan without positions is the "no scan" sentinel with shape `()` -/
def customScanShape {α} (positions : List α) : List Nat := if positions.isEmpty then [] else [positions.length]

/-- `AtomsEnsemble.atoms` reads the first configuration of the trajectory (IndexError on an empty one) -/
def firstConfig {α} (trajectory : List α) : Option α := trajectory.head?

/-- positions described by a block: `np.linspace(start, end, gpts, endpoint=False)` -/
def AxisBlock.positions (b : AxisBlock) : List Rat := linspace b.start b.stop b.gpts false

/-- one coordinate of the LineScan blocks -/
def lineBlocks (start sampling direction : Rat) (cs : List Nat) : List AxisBlock :=
  (startChunks cs).map fun (s, c) =>
    let st := lsStart start sampling direction (s : Rat)
    ⟨st, lsEnd st sampling direction (c : Rat), c⟩

/-- `LinearAxis.coordinates(n)` = `linspace(offset, offset + sampling·n, n, endpoint=False)` -/
def linearCoordinates (offset sampling : Rat) (n : Nat) : List Rat :=
  linspace offset (offset + sampling * (n : Rat)) n false

/-- blocks of a `LinearAxis` over `iterate_chunk_ranges`: `axis[slice(start, stop)]` → `(offset, sampling, length)` -/
def linearAxisBlocks (offset sampling : Rat) (cs : List Nat) : List (Rat × Rat × Nat) :=
  (ranges cs).map fun r => (linAxisBlockOffset offset sampling (r.1 : Rat), linAxisBlockSampling sampling 1, r.2 - r.1)

/-- `_chunk_splits` / `_arg_splits`: consecutive `(cum_i, cum_{i+1})` -/
def chunkSplits (dims : List Nat) : List (Nat × Nat) :=
  let cum := cumsum 0 (0 :: dims)
  (List.range (cum.length - 1)).map fun i => (cum.getD i 0, cum.getD (i + 1) 0)

/-- `chunks[slice(*arg_split)]` for every sub-ensemble -/
def argChunks {α} (dims : List Nat) (chunks : List α) : List (List α) := (chunkSplits dims).map (sliceRange chunks)

/-- `generate_blocks`: block multi-indices (np.ndindex) zipped with their per-axis ranges -/
def blockGrid (chunks : List (List Nat)) : List (List Nat × List (Nat × Nat)) :=
  (product (chunks.map fun c => List.range c.length)).zip (product (chunks.map ranges))

end AbtemVerif.Ensemble
