/-
C07 (shared with C02 / C01) — hand model of the exit-plane bookkeeping of
`abtem/potentials/iam.py`:

  `_validate_exit_planes(exit_planes, num_slices)`      → `validateExitPlanes`
  `BaseField._exit_plane_after`                          → `exitPlaneAfter` (pointer loop `flagsFrom`)
  `BaseField.exit_thicknesses`                           → `exitThicknesses`

The scalar tests and arguments (`exit_planes >= num_slices`, the three `range` arguments,
`exit_planes[-1] != num_slices - 1`, the appended plane, the `None` default, the entrance tests, the
flag test of the pointer loop) are the *generated* definitions of `Gen/ExitPlanes.lean`; the list
plumbing around them (and the explicit-tuple validation, a generator expression) is written here and tied by exhaustive correspondence (`harness/c07.py`).
Core Lean only.
-/
import AbtemVerif.Gen.ExitPlanes
namespace AbtemVerif.ExitPlanes
open AbtemVerif.Gen.ExitPlanes

/-- number of elements of Python `range(start, stop, step)` for `step > 0` -/
def rangeCount (start stop step : Int) : Nat := ((stop - start + step - 1) / step).toNat

/-- Python `list(range(start, stop, step))` (ValueError for `step = 0`) -/
def pyRange (start stop step : Int) : Except String (List Int) :=
  if step = 0 then .error "value_error"
  else if step > 0 then
    .ok ((List.range (rangeCount start stop step)).map fun (j : Nat) => start + (j : Int) * step)
  else
    .ok ((List.range (rangeCount stop start (-step))).map fun (j : Nat) => start + (j : Int) * step)

/-- the `exit_planes` argument of a potential: `None`, an `int`, or an explicit tuple -/
inductive ExitSpec where
  | none
  | int (k : Int)
  | tuple (l : List Int)
  deriving Repr, DecidableEq

/-- `any(b <= a for a, b in zip(planes[:-1], planes[1:]))` -/
def notIncreasing : List Int → Bool
  | a :: b :: rest => decide (b ≤ a) || notIncreasing (b :: rest)
  | _ => false

/-- the explicit-tuple check of `_validate_exit_planes`: ValueError unless the planes are strictly increasing slice
indices between −1 (entrance plane) and `num_slices − 1`; the empty tuple (used for single slices) passes -/
def tupleRejected (l : List Int) (n : Int) : Bool :=
  notIncreasing l || (decide (0 < l.length) && (decide (l.headD 0 < -1) || decide (l.getLastD 0 ≥ n)))

/-- `_exit_planes_of_selection` for a contiguous window `[a, b)` of the slices: the parent's planes inside the window,
relative to the window; the entrance plane only if the window starts at slice 0; `none` (→ default: last slice of the window)
when nothing is left or the result is not increasing -/
def windowPlanes (planes : List Int) (a b : Nat) : Option (List Int) :=
  let inside := (planes.filter fun p => decide ((a : Int) ≤ p) && decide (p < (b : Int))).map fun p => p - (a : Int)
  let r := (if decide (planes.headD 0 = -1) && decide (a < b) && decide (a = 0) then [(-1 : Int)] else []) ++ inside
  if r.isEmpty || notIncreasing r then none else some r

/-- `_validate_exit_planes` (accepted explicit tuples are returned unchanged) -/
def validateExitPlanes (spec : ExitSpec) (n : Int) : Except String (List Int) :=
  match spec with
  | .none => .ok [vNonePlane n]
  | .tuple l => if tupleRejected l n then .error "value_error" else .ok l
  | .int k =>
    if vTooLarge k n then .ok [vTooLargePlane k n]
    else
      match pyRange (vRangeStart k n) (vRangeStop k n) (vRangeStep k n) with
      | .error e => .error e
      | .ok r =>
        match r.getLast? with
        | Option.none => .error "index_error"            -- `exit_planes[-1]` of an empty list
        | some last =>
          let r' := if vLastMissing last n then r ++ [vAppended k n] else r
          .ok ((-1) :: r')

/-- the pointer loop of `_exit_plane_after`: `idx` = `exit_plane_index`, `i` = slice index, `m` slices left -/
def flagsFrom (planes : List Int) : Nat → Nat → Nat → List Bool
  | _, _, 0 => []
  | idx, i, m + 1 =>
    if aFlag (idx : Int) (planes.length : Int) (i : Int) (planes.getD idx 0) then
      true :: flagsFrom planes (idx + 1) (i + 1) m
    else
      false :: flagsFrom planes idx (i + 1) m

/-- exit-plane index at which the pointer loops start (1 after an entrance plane) -/
def startIndex (entrance : Bool) : Nat := if entrance then 1 else 0

/-- `BaseField._exit_plane_after` for a potential of `n` slices (`exit_planes[0]` of `()` is an IndexError) -/
def exitPlaneAfter (planes : List Int) (n : Nat) : Except String (List Bool) :=
  match planes with
  | [] => .error "index_error"
  | first :: _ => .ok (flagsFrom planes (startIndex (aEntrance first)) 0 n)

/-- `np.cumsum` -/
def cumsumFrom (acc : Rat) : List Rat → List Rat
  | [] => []
  | t :: ts => (acc + t) :: cumsumFrom (acc + t) ts
def cumsum (ts : List Rat) : List Rat := cumsumFrom 0 ts

/-- Python / numpy integer indexing of a sequence (negative indices wrap once, else IndexError) -/
def pyIndex {α} (xs : List α) (i : Int) : Except String α :=
  let j : Int := if i < 0 then i + xs.length else i
  if j < 0 then .error "index_error"
  else match xs[j.toNat]? with
    | some x => .ok x
    | Option.none => .error "index_error"

/-- `BaseField.exit_thicknesses` -/
def exitThicknesses (planes : List Int) (thickness : List Rat) : Except String (List Rat) :=
  match planes.mapM (pyIndex (cumsum thickness)) with
  | .error e => .error e
  | .ok vals =>
    match planes with
    | [] => .error "index_error"
    | first :: _ => if tEntrance first then .ok (0 :: vals.drop 1) else .ok vals

end AbtemVerif.ExitPlanes
