/-
C16 — hand model of `DiffractionPatterns._batch_interpolate_bilinear` (abtem/measurements.py) over exact rationals,
around the generated rescale expressions of `Gen/Resample.lean`.

  `_fourier_space_bilinear_nodes_and_weight` → `kgrid`, `nodeWeight`   (per axis: node = last old frequency ≤ new
        frequency, weight = distance / old step; "below the range" = node 0, weight 0; IndexError for one old pixel)
  `_interpolate_bilinear`                    → `bilinear` (4 neighbours, index clamped at the upper edge)
  `_batch_interpolate_bilinear`              → `interpolate` (bilinear, then `array / new_sums * old_sums` with the
        zero-sum guard — both generated)
Core Lean only.
-/
import AbtemVerif.Gen.Resample
import AbtemVerif.Model.Linspace
namespace AbtemVerif.Resample
open AbtemVerif.Py AbtemVerif.Np AbtemVerif.Gen.Resample

/-- `fftshift(fftfreq(n, r))` with `r = 1 / s / n` (`s` = sampling of the pattern) -/
def kgrid (n : Nat) (s : Rat) : List Rat := fftshift (fftfreq n (1 / s / n))

/-- first index of the smallest finite distance (`none` = `inf`); all infinite → index 0 (numpy `argmin`) -/
def argminOpt (ds : List (Option Rat)) : Nat × Option Rat :=
  (ds.zipIdx).foldl (fun (best : Nat × Option Rat) (p : Option Rat × Nat) =>
    match best.2, p.1 with
    | none, some x => (p.2, some x)
    | some b, some x => if x < b then (p.2, some x) else best
    | _, none => best) (0, none)

/-- node and weight of one new frequency: `distances = k_new − k`, negative → inf, `argmin`, `min / (k[1] − k[0])`, inf → 0 -/
def nodeWeight (k : List Rat) (knew : Rat) : Nat × Rat :=
  let ds := k.map fun ki => if knew - ki < 0 then none else some (knew - ki)
  let m := argminOpt ds
  (m.1, match m.2 with
    | none => 0
    | some d => d / (k.getD 1 0 - k.getD 0 0))

def sumList (l : List Rat) : Rat := l.foldl (· + ·) 0

/-- the four weights of `_interpolate_bilinear`: `wcol[0,1] = uw; wcol[0,0] = 1 - uw; wcol[1] = wcol[0] * vw; wcol[0] -= wcol[1]` -/
def blend (x00 x01 x10 x11 uw vw : Rat) : Rat :=
  x00 * ((1 - uw) - (1 - uw) * vw) + x01 * (uw - uw * vw) + x10 * ((1 - uw) * vw) + x11 * (uw * vw)

/-- `_interpolate_bilinear` on a row-major flat `H × W` table -/
def bilinear (H W : Nat) (x : List Rat) (vs us : List (Nat × Rat)) : List Rat :=
  vs.flatMap fun (v, vw) => us.map fun (u, uw) =>
    let v1 := min (v + 1) (H - 1)
    let u1 := min (u + 1) (W - 1)
    let at_ (i j : Nat) : Rat := x.getD (i * W + j) 0
    blend (at_ v u) (at_ v u1) (at_ v1 u) (at_ v1 u1) uw vw

/-- sum-preserving rescale (generated term and guard) -/
def rescale (new : List Rat) (oldSum : Rat) : List Rat :=
  new.map fun a => rescaleTerm a (newSumGuard (sumList new)) oldSum

/-- one pattern through `_batch_interpolate_bilinear` -/
def interpolate (H W : Nat) (sx sy : Rat) (x : List Rat) (H' W' : Nat) (sx' sy' : Rat) : Except String (List Rat) :=
  if H < 2 || W < 2 then .error "index_error"
  else
    let vs := (kgrid H' sx').map (nodeWeight (kgrid H sx))
    let us := (kgrid W' sy').map (nodeWeight (kgrid W sy))
    .ok (rescale (bilinear H W x vs us) (sumList x))

end AbtemVerif.Resample
