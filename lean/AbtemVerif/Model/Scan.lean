/-
C20 — executable model of the scan geometry of abtem/scan.py (`GridScan`, `LineScan`, `CustomScan`) and of
`LinearAxis.coordinates` (abtem/core/axes.py).

Every argument handed to `numpy.linspace`, LineScan's gpts / sampling arithmetic, GridScan's extent and the
`ScanAxis` arguments are the *generated* definitions of `Gen/Scan.lean`; `numpy.linspace` itself is
`Np.linspaceI` (Model/Linspace.lean); GridScan's grid is the C17 model `Grid.init` (Model/Grid.lean).
Hand-modelled here: the None-guards and error branches, the `zip` order of `ensemble_axes_metadata`, `meshgrid(ij)`.

`LineScan.extent = ‖end − start‖` is a square root; the model takes the norm as an input (`norm`), the
theorems hold for every non-zero value of it, the harness supplies the float norm numpy computes.
`CustomScan` is the identity on its positions.
Not modelled: float32 rounding of the positions (`dtype=get_dtype()`), `fractional` coordinates, `Atom` arguments,
`match_probe`, `_sort_into_extents`, partitioning (C19).
-/
import AbtemVerif.Model.PyPrelude
import AbtemVerif.Model.Linspace
import AbtemVerif.Model.Grid
import AbtemVerif.Gen.Scan
namespace AbtemVerif.Scan
open AbtemVerif.Np AbtemVerif.Grid AbtemVerif.Gen.Scan

/-- `LinearAxis.coordinates(n)` = `tuple(np.linspace(offset, offset + sampling * n, n, endpoint=False))` -/
def axisCoordinates (offset sampling : Rat) (n : Int) : Except String (List Rat) :=
  linspaceI (coordStart offset sampling n) (coordStop offset sampling n) (coordNum offset sampling n)
    (coordEndpoint offset sampling n)

/-- one axis of `GridScan.get_positions` / `_x_coordinates` / `_y_coordinates` -/
def gridAxisPositions (start stop : Rat) (gpts : Int) (endpoint : Bool) : Except String (List Rat) :=
  linspaceI (gridLinStart start stop gpts endpoint) (gridLinStop start stop gpts endpoint)
    (gridLinNum start stop gpts endpoint) (gridLinEndpoint start stop gpts endpoint)

structure GridScan where
  start : Option (Rat × Rat)
  stop : Option (Rat × Rat)
  grid : Grid.Grid
deriving Repr, DecidableEq

/-- `GridScan.__init__(start, end, gpts, sampling, endpoint)` (coordinates already validated to pairs) -/
def gridInit (start stop : Option (Rat × Rat)) (gpts sampling : Val) (endpoint : List Bool) : Except String GridScan :=
  let ext : Except String Val :=
    match start, stop with
    | some s, some e =>
      let x := gridExtent s.1 s.2 e.1 e.2
      if decide (x.1 ≤ 0) && decide (x.2 ≤ 0) then .error "value_error" else .ok (Val.seq [x.1, x.2])
    | _, _ => .ok Val.none
  match ext with
  | .error e => .error e
  | .ok ev =>
    match Grid.init 2 endpoint ev gpts sampling false false false with
    | .error e => .error e
    | .ok g => .ok { start := start, stop := stop, grid := g }

/-- `GridScan.get_positions()` : the two coordinate vectors (the array is `stack(meshgrid(x, y, indexing="ij"), -1)`) -/
def gridPositions (s : GridScan) : Except String (List Rat × List Rat) :=
  match s.start, s.stop, s.grid.gpts, s.grid.endpoint with
  | some a, some b, some [n0, n1], [e0, e1] =>
    match gridAxisPositions a.1 b.1 n0 e0, gridAxisPositions a.2 b.2 n1 e1 with
    | .ok xs, .ok ys => .ok (xs, ys)
    | .error e, _ => .error e
    | _, .error e => .error e
  | _, _, _, _ => .error "runtime_error"

/-- row-major flattening of `stack(meshgrid(xs, ys, indexing="ij"), axis=-1)` -/
def meshgridIJ (xs ys : List Rat) : List (Rat × Rat) := xs.flatMap fun x => ys.map fun y => (x, y)

/-- `GridScan.ensemble_axes_metadata` : `(sampling, offset, endpoint)` of the x- and the y-`ScanAxis`
(`zip(("x","y"), self.sampling, self.start, self.endpoint)`) -/
def gridAxes (s : GridScan) : Except String (List (Rat × Rat × Bool)) :=
  match s.grid.sampling, s.start, s.grid.endpoint with
  | some [d0, d1], some a, [e0, e1] =>
    .ok [(gridAxisSampling d0 a.1, gridAxisOffset d0 a.1, e0), (gridAxisSampling d1 a.2, gridAxisOffset d1 a.2, e1)]
  | _, _, _ => .error "type_error"

/-! ### LineScan -/

structure LineScan where
  start : Option (Rat × Rat)
  stop : Option (Rat × Rat)
  /-- `numpy.linalg.norm(end − start)` (only read when both points are defined) -/
  norm : Rat
  gpts : Option Int
  sampling : Option Rat
  endpoint : Bool
deriving Repr, DecidableEq

def LineScan.extent (l : LineScan) : Option Rat :=
  match l.start, l.stop with
  | some _, some _ => some l.norm
  | _, _ => none

def lineArgs {α} (f : Rat → Rat → Rat → Rat → Rat → Int → Rat → Bool → α) (l : LineScan) : α :=
  f (l.start.getD (0, 0)).1 (l.start.getD (0, 0)).2 (l.stop.getD (0, 0)).1 (l.stop.getD (0, 0)).2
    (l.extent.getD 0) (l.gpts.getD 0) (l.sampling.getD 0) l.endpoint

/-- `LineScan._adjust_sampling` -/
def lineAdjustSampling (l : LineScan) : LineScan :=
  match l.extent, l.gpts with
  | some _, some _ =>
    { l with sampling := some (if lineArgs lineUseEndpoint l then lineArgs lineSamplingEndpoint l else lineArgs lineSamplingOpen l) }
  | _, _ => l

/-- `LineScan._adjust_gpts` -/
def lineAdjustGpts (l : LineScan) : LineScan :=
  match l.extent, l.sampling with
  | some _, some _ => lineAdjustSampling { l with gpts := some (lineArgs lineGpts l) }
  | _, _ => l

/-- `LineScan.__init__` -/
def lineInit (start stop : Option (Rat × Rat)) (norm : Rat) (gpts : Option Int) (sampling : Option Rat) (endpoint : Bool) : LineScan :=
  lineAdjustSampling (lineAdjustGpts { start := start, stop := stop, norm := norm, gpts := gpts, sampling := sampling, endpoint := endpoint })

/-- `LineScan.gpts = n` -/
def lineSetGpts (l : LineScan) (n : Int) : LineScan := lineAdjustSampling { l with gpts := some n }
/-- `LineScan.sampling = s` -/
def lineSetSampling (l : LineScan) (s : Rat) : LineScan := lineAdjustGpts { l with sampling := some s }
/-- `LineScan._readjust` (called by `LineScan.start = p` / `LineScan.end = p`, with the norm of the new difference) : like `Grid.extent`, a changed extent keeps the number of positions and re-derives the sampling;
gpts are derived from the sampling only while they are undefined -/
def lineReadjust (l : LineScan) : LineScan := if l.gpts.isSome then lineAdjustSampling l else lineAdjustGpts l
def lineSetStart (l : LineScan) (p : Rat × Rat) (norm : Rat) : LineScan := lineReadjust { l with start := some p, norm := norm }
def lineSetStop (l : LineScan) (p : Rat × Rat) (norm : Rat) : LineScan := lineReadjust { l with stop := some p, norm := norm }

/-- `LineScan.get_positions()` -/
def linePositions (l : LineScan) : Except String (List (Rat × Rat)) :=
  match l.gpts with
  | none => .error "runtime_error"
  | some _ =>
    match l.start, l.stop with
    | some _, some _ =>
      match linspaceI (lineArgs lineXStart l) (lineArgs lineXStop l) (lineArgs lineXNum l) (lineArgs lineXEndpoint l),
            linspaceI (lineArgs lineYStart l) (lineArgs lineYStop l) (lineArgs lineYNum l) (lineArgs lineYEndpoint l) with
      | .ok xs, .ok ys => .ok (xs.zip ys)
      | .error e, _ => .error e
      | _, .error e => .error e
    | _, _ => .error "runtime_error"

/-- `LineScan.ensemble_axes_metadata` : `(sampling, offset, endpoint)` of the `ScanAxis` -/
def lineAxis (l : LineScan) : Except String (Rat × Rat × Bool) :=
  match l.sampling with
  | none => .error "assertion_error"
  | some _ => .ok (lineArgs lineAxisSampling l, lineArgs lineAxisOffset l, l.endpoint)

/-! ### CustomScan -/

/-- `CustomScan(positions)` (an `(n, 2)` array; a single pair is promoted to `(1, 2)` by the constructor) -/
structure CustomScan where
  positions : List (Rat × Rat)
deriving Repr

/-- `CustomScan.get_positions()` -/
def customPositions (c : CustomScan) : List (Rat × Rat) := c.positions
/-- `CustomScan.shape` : `()` for an empty scan, `(n,)` otherwise -/
def customShape (c : CustomScan) : List Nat := if c.positions.isEmpty then [] else [c.positions.length]
/-- `CustomScan.ensemble_axes_metadata` : no axis for an empty scan, else one `PositionsAxis` whose values are the positions -/
def customAxisValues (c : CustomScan) : Option (List (Rat × Rat)) := if c.positions.isEmpty then none else some c.positions

end AbtemVerif.Scan
