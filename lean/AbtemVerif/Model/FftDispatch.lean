/-
C38 — hand model of the FFT back-end selection and buffer discipline of `abtem/core/fft.py` and of
`get_dtype` (`abtem/core/utils.py`), around the generated `if` tests of `Gen/FftDispatch.lean`.

* `dispatch`       ← `_fft_dispatch` for a NumPy array: which library runs, or RuntimeError;
* `getDtype`       ← `get_dtype(complex)`;
* `fftCall`        ← `_fftw_dispatch` / `_mkl_fft_dispatch` / `np.fft.*`: which buffer holds the result, what happens to the input;
* `convolve`       ← `_fft2_convolve` (`fft2`, in-place `*= kernel` with the out-of-place fallback on ValueError, `ifft2`);
* `cachedCall`     ← `CachedFFTWConvolution.__call__` as a state machine over calls (plans are bound to a shape and dtype).

Array *values* are abstract (`α`, with the transforms `Ops.spec name` and the kernel product `Ops.mulK`): the numeric
kernels are parameters.  Memory is a list of buffers; a buffer id is its index.
-/
import AbtemVerif.Gen.FftDispatch
namespace AbtemVerif.Fft
open AbtemVerif.Gen.FftDispatch

inductive Backend where
  | numpy | fftw | mkl
  deriving DecidableEq, Repr

/-- which optional libraries could be imported -/
structure Env where
  hasFftw : Bool
  hasMkl : Bool

/-- `_fft_dispatch` on an `np.ndarray`: the configured library, RuntimeError for an unknown name or a missing library -/
def dispatch (env : Env) (cfg : String) : Except String Backend :=
  if isMkl cfg then (if env.hasMkl then .ok .mkl else .error "runtime_error")
  else if isFftw cfg then (if env.hasFftw then .ok .fftw else .error "runtime_error")
  else if isNumpy cfg then .ok .numpy
  else .error "runtime_error"

/-- which code path `FresnelPropagator.propagate` takes for the convolution with the propagator kernel -/
inductive Route where
  | cachedFftw
  | dispatched (b : Backend)
  deriving DecidableEq, Repr

/-- `FresnelPropagator.propagate`: NumPy arrays under `fft = fftw` go to `CachedFFTWConvolution` (which checks that pyfftw is
present), everything else to `fft2_convolve`, i.e. through `_fft_dispatch` -/
def propagateRoute (env : Env) (cfg : String) (isNumpyArray : Bool) : Except String Route :=
  if propagatorUsesCachedFftw cfg isNumpyArray then
    (if env.hasFftw then .ok .cachedFftw else .error "runtime_error")
  else (dispatch env cfg).map .dispatched

inductive DType where
  | float32 | float64 | complex64 | complex128
  deriving DecidableEq, Repr

/-- `get_dtype(complex)` for `config.get("precision") = precision` -/
def getDtype (precision : String) (cplx : Bool) : Except String DType :=
  if dtypeTest0 precision cplx then .ok .complex64
  else if dtypeTest1 precision cplx then .ok .float32
  else if dtypeTest2 precision cplx then .ok .complex128
  else if dtypeTest3 precision cplx then .ok .float64
  else .error "runtime_error"

/-! ### buffers -/

structure Ops (α : Type) where
  /-- the transform a library computes for `fft2`, `ifft2`, `fftn`, `ifftn` -/
  spec : String → α → α
  /-- `x * kernel` -/
  mulK : α → α → α

structure Mem (α : Type) where
  cells : List α

def Mem.get {α} (m : Mem α) (i : Nat) : Option α := m.cells[i]?
def Mem.alloc {α} (m : Mem α) (v : α) : Mem α × Nat := (⟨m.cells ++ [v]⟩, m.cells.length)
def Mem.set {α} (m : Mem α) (i : Nat) (v : α) : Mem α := ⟨m.cells.set i v⟩

/-- one transform of buffer `x`: new memory and the id of the buffer holding the result.
NumPy never touches its input; FFTW (and MKL) work in place — on `x` itself when `overwrite_x`, otherwise on a copy. -/
def fftCall {α} (ops : Ops α) (b : Backend) (name : String) (overwrite : Bool) (m : Mem α) (x : Nat) : Option (Mem α × Nat) :=
  match m.get x with
  | none => none
  | some v =>
    match b with
    | .numpy => some (m.alloc (ops.spec name v))
    | _ => if overwrite then some (m.set x (ops.spec name v), x) else some (m.alloc (ops.spec name v))

/-- `_fft2_convolve(x, kernel, overwrite_x)`; `inplaceOk = false` when `x *= kernel` raises ValueError
(the kernel broadcasts to a larger shape) and the product is formed out of place -/
def convolve {α} (ops : Ops α) (b : Backend) (overwrite inplaceOk : Bool) (kernel : α) (m : Mem α) (x : Nat) : Option (Mem α × Nat) :=
  match fftCall ops b "fft2" overwrite m x with
  | none => none
  | some (m1, a) =>
    match m1.get a with
    | none => none
    | some va =>
      let (m2, a2) := if inplaceOk then (m1.set a (ops.mulK va kernel), a) else m1.alloc (ops.mulK va kernel)
      fftCall ops b "ifft2" overwrite m2 a2

/-! ### the cached FFTW convolution -/

/-- a pair of FFTW plans (`fft2`, `ifft2`) created for arrays of one shape and dtype -/
structure Plans where
  shape : Nat
  dtype : Nat
  deriving DecidableEq, Repr

structure CacheState where
  /-- `self._shape` -/
  shape : Option Nat
  /-- `self._fftw_objects` -/
  plans : Option Plans
  /-- number of `_new_fftw_object` calls so far (trace) -/
  created : Nat
  deriving Repr

def CacheState.init : CacheState := ⟨none, none, 0⟩

/-- One `__call__` on an array of the given shape / dtype tokens.  `assignShape` distinguishes the code as written
(`false`: `self._shape` is never assigned, so the plans are rebuilt on every call) from the presumably intended
variant (`true`).  `update_arrays` / plan execution with plans of another shape or dtype is a ValueError. -/
def cachedStep (assignShape : Bool) (st : CacheState) (shape dtype : Nat) : Except String CacheState :=
  let plans0 := if cacheShapeChanged shape st.shape then none else st.plans
  let (plans, created) := match plans0 with
    | none => (Plans.mk shape dtype, st.created + 2)
    | some p => (p, st.created)
  if plans.shape ≠ shape || plans.dtype ≠ dtype then .error "value_error"
  else .ok ⟨if assignShape then some shape else st.shape, some plans, created⟩

/-- a whole history of calls; returns the trace of cumulative plan creations -/
def cachedRun (assignShape : Bool) : CacheState → List (Nat × Nat) → Except String (List Nat)
  | _, [] => .ok []
  | st, (s, d) :: rest =>
    match cachedStep assignShape st s d with
    | .error e => .error e
    | .ok st' =>
      match cachedRun assignShape st' rest with
      | .error e => .error e
      | .ok tr => .ok (st'.created :: tr)

end AbtemVerif.Fft
