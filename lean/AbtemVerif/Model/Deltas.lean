/-
C08 — executable model of `superpose_deltas` (abtem/integrals.py), of `np.tile`/`np.roll` indexing and of the
index/offset logic of the numba kernel `interpolate_radial_functions`, around the generated definitions of
`Gen/Deltas.lean`.  Exact arithmetic over ℚ/ℤ; arrays are functions of two integer indices.
-/
import AbtemVerif.Gen.Deltas
namespace AbtemVerif.Deltas
open AbtemVerif.Gen.Deltas AbtemVerif.Py

/-- one `np.add.at` update: `array[i, j] += v` -/
structure Update where
  i : Int
  j : Int
  v : Rat
deriving Repr, DecidableEq

/-- the (up to) four updates of one atom at pixel position `p` with weight `w`
(`weights is None` is `w = 1`): bilinear sub-pixel weights, or one rounded pixel -/
def atomUpdates (n0 n1 : Nat) (round : Bool) (p : Rat × Rat) (w : Rat) : List Update :=
  if round then
    let idx := roundedIdx (pyRoundHalfEven p.1) (pyRoundHalfEven p.2) n0 n1
    [⟨idx.1, idx.2, 1 * w⟩]
  else
    let rows := p.1.floor
    let cols := p.2.floor
    let x := deltaX p.1 rows
    let y := deltaY p.2 cols
    let xy := deltaXY x y
    List.zipWith (fun (ij : Int × Int) v => ⟨ij.1, ij.2, v * w⟩)
      (List.zip (deltaRowIdx rows n0) (deltaColIdx cols n1)) (deltaWeights x y xy)

/-- value accumulated at pixel `(i, j)` by a list of updates (`np.add.at` adds duplicates) -/
def accumulate (us : List Update) (i j : Int) : Rat :=
  (us.map fun u => if u.i = i ∧ u.j = j then u.v else 0).sum

/-- `superpose_deltas(positions, zeros((n0, n1)), weights, round_positions)` -/
def superposeDeltas (n0 n1 : Nat) (round : Bool) (atoms : List ((Rat × Rat) × Rat)) (i j : Int) : Rat :=
  accumulate (atoms.flatMap fun a => atomUpdates n0 n1 round a.1 a.2) i j

/-- `np.roll(a, (s0, s1), axis=(-2, -1))[i, j]` for an `n0 × n1` array -/
def roll (n0 n1 : Nat) (s0 s1 : Int) (a : Int → Int → Rat) (i j : Int) : Rat :=
  a ((i - s0) % (n0 : Int)) ((j - s1) % (n1 : Int))

/-- `np.tile(a, (r0, r1))[i, j]` for an `n0 × n1` array -/
def tile (n0 n1 : Nat) (a : Int → Int → Rat) (i j : Int) : Rat :=
  a (i % (n0 : Int)) (j % (n1 : Int))

/-- `interpolate_radial_functions`: the pixels touched by one atom and the squared distance at which the radial
function is evaluated there (`disk` = the precomputed disk of index offsets) -/
def radialHits (n0 n1 : Nat) (s : Rat × Rat) (disk : List (Int × Int)) (pos : Rat × Rat) : List (Int × Int × Rat) :=
  let px := radialPx pos.1 s.1
  let py := radialPy pos.2 s.2
  disk.filterMap fun d =>
    let k := radialK px d.1
    let m := radialM py d.2
    if radialInside k m n0 n1 then some (k, m, radialDist2 k m pos.1 pos.2 s.1 s.2) else none

end AbtemVerif.Deltas
