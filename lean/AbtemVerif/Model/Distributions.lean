/-
C36 — executable model of abtem/distributions.py: `uniform`, `gaussian` (values exactly over `Rat`; weights over
`Float` for execution, over ℝ in Props/C36.lean), `from_values`, `DistributionFromValues.__neg__` / `divide`,
`MultidimensionalDistribution.values` / `weights`.

Generated (`Gen/Distributions*.lean`): the arguments `uniform` and `gaussian` hand to `numpy.linspace`, the Gaussian
weight profile.  `numpy.linspace` is `Np.linspaceI`; block slicing is `Partition.splitBy`.
Hand-modelled: the normalisation (`weights /= sqrt((weights**2).sum())` / `weights /= weights.sum()`), the
`assert sum(chunks) == len(self)` of `divide` for tuple chunks (non-negative entries; an `int` is first turned into a
tuple by `equal_sized_chunks`, which is C18's subject), `outer` / `meshgrid`.
-/
import AbtemVerif.Model.Linspace
import AbtemVerif.Model.Partition
import AbtemVerif.Gen.Distributions
import AbtemVerif.Gen.DistributionsF
namespace AbtemVerif.Distributions
open AbtemVerif.Np AbtemVerif.Partition AbtemVerif.Gen.Distributions

structure Dist (ω : Type) where
  values : List Rat
  weights : List ω
  ensembleMean : Bool
deriving Repr

/-- `uniform(low, high, num_samples, endpoint, ensemble_mean)` -/
def uniform (low high : Rat) (n : Int) (endpoint em : Bool) : Except String (Dist Rat) :=
  (linspaceI (uniformStart low high n endpoint) (uniformStop low high n endpoint) (uniformNum low high n endpoint)
    (uniformEndpoint low high n endpoint)).map fun vs => { values := vs, weights := List.replicate vs.length 1, ensembleMean := em }

/-- the values of one factor of `gaussian(…)` (`numpy.linspace` with its default `endpoint=True`) -/
def gaussianValues (sigma limit center : Rat) (n : Int) : Except String (List Rat) :=
  -- a single sample sits at the centre (`numpy.linspace` with one sample would return the lower limit)
  if gaussSingle sigma limit center n then .ok [center]
  else linspaceI (gaussLow sigma limit center n) (gaussHigh sigma limit center n) (gaussNum sigma limit center n) true

/-- `DistributionFromValues.__neg__` : values negated, weights and flag kept -/
def neg {ω} (d : Dist ω) : Dist ω := { d with values := d.values.map fun v => -v }

/-- `DistributionFromValues.divide(chunks: tuple[int, ...])` (entries ≥ 0): AssertionError unless the chunks sum to the length -/
def divide {ω} (d : Dist ω) (chunks : List Nat) : Except String (List (Dist ω)) :=
  if chunks.sum ≠ d.values.length then .error "assertion_error"
  else .ok ((List.zip (splitBy chunks d.values) (splitBy chunks d.weights)).map fun (v, w) =>
    { values := v, weights := w, ensembleMean := d.ensembleMean })

/-- `numpy.outer(a, b)` row-major -/
def outer {ω} [Mul ω] (a b : List ω) : List (List ω) := a.map fun x => b.map fun y => x * y

/-- `MultidimensionalDistribution.weights` for any number of factors, flattened row-major (first factor slowest):
entry `(i₀, i₁, …)` is `w₀[i₀] · w₁[i₁] · …`; the array's shape is the list of factor lengths
(`outer(w₀, w₁)`, then `weights[..., None] * wₖ` for every further factor) -/
def outerFlat {ω} [Mul ω] [OfNat ω 1] : List (List ω) → List ω
  | [] => [1]
  | w :: rest => w.flatMap fun x => (outerFlat rest).map fun y => x * y

def weightsShape {ω} (factors : List (List ω)) : List Nat := factors.map List.length

/-- `stack(meshgrid(a, b, indexing="ij"), -1)` row-major -/
def meshgrid (a b : List Rat) : List (List (Rat × Rat)) := a.map fun x => b.map fun y => (x, y)

/-! ### Float execution of the weights (compared numerically with the implementation) -/

def ratToFloat (q : Rat) : Float := Float.ofInt q.num / Float.ofNat q.den

def sumF (l : List Float) : Float := l.foldl (· + ·) 0

/-- the weights of one factor of `gaussian(…)` -/
def gaussianWeightsF (values : List Rat) (center sigma : Rat) (normalize : String) : Except String (List Float) :=
  let w := values.map fun v => AbtemVerif.Gen.DistributionsF.gaussWeight (ratToFloat v) (ratToFloat center) (ratToFloat sigma)
  if normalize = "intensity" then
    let s := Float.sqrt (sumF (w.map fun x => x * x))
    .ok (w.map fun x => x / s)
  else if normalize = "amplitude" then
    let s := sumF w
    .ok (w.map fun x => x / s)
  else .error "runtime_error"

end AbtemVerif.Distributions
