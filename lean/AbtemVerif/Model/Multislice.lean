/-
C07 / C02 / C01 — Pattern A model of `multislice_and_detect` (abtem/multislice.py).

The numeric kernels are parameters: `step : W → S → W` (one multislice step through one potential
slice: `conventional_multislice_step` / `realspace_multislice_step`), `detect : W → M`
(`detector.detect`).  The Python control flow is mirrored literally:

  waves = waves.ensure_real_space(); incident_waves = waves; waves = waves.copy()                      → `ensureReal`
  for i, (potential_index, configuration) in enumerate(_generate_potential_configurations(potential)):  → `configLoop`
      if i > 0: waves = incident_waves.copy()
      exit_plane_index = 0
      if potential.exit_planes[0] == -1: write(detect(waves)); exit_plane_index += 1       → `entranceWrites`
      for potential_slice in configuration.generate_slices():                              → `sliceLoop`
          waves = step(waves, potential_slice)
          if potential_slice.exit_planes: write(detect(waves)); exit_plane_index += 1
  if measurements is None: measurements = [detect(waves)[(None,) * len(ensemble_shape)]]  → `Out.final`

`measurements[i].array[index] = …` is modelled as an ordered write log; `Out.get` reads the
final table (last write wins, never-written entries are `none` = the zeros of the allocation).
The flags `potential_slice.exit_planes` are computed as the code computes them, from
`_exit_plane_after` of the configuration (`ExitPlanes.flagsFrom`).

Core Lean only.
-/
import AbtemVerif.Model.ExitPlanes
namespace AbtemVerif.Multislice
open AbtemVerif.ExitPlanes AbtemVerif.Gen.ExitPlanes

/-- what `multislice_and_detect` sees of a potential -/
structure Pot (S : Type) where
  /-- `len(potential.ensemble_shape) > 0` (frozen phonons / AtomsEnsemble / seeded CrystalPotential) -/
  ensAxis : Bool
  /-- `potential.exit_planes` -/
  planes : List Int
  /-- `potential.num_slices` -/
  nslices : Nat
  /-- the slices of every configuration, in generation order (`generate_blocks()` → `generate_slices()`) -/
  configs : List (List S)

abbrev Write (M : Type) := List Nat × M

/-- result of `multislice_and_detect` for one detector -/
inductive Out (M : Type) where
  /-- preallocated array of shape `shape ++ detector shape`, written through the log -/
  | table (shape : List Nat) (writes : List (Write M))
  /-- `measurements is None` branch: one detection after the loops, with `len(ensemble_shape)` new axes -/
  | final (shape : List Nat) (m : M)

variable {W S M : Type}

/-- `_potential_ensemble_shape_and_metadata` -/
def extraShape (p : Pot S) : List Nat :=
  (if p.ensAxis then [p.configs.length] else []) ++
    (if sPlaneAxis (p.planes.length : Int) then [p.planes.length] else [])

/-- `_validate_potential_ensemble_indices` -/
def measurementIndex (p : Pot S) (c e : Nat) : List Nat :=
  (if iNoEns p.ensAxis then [] else [c]) ++ (if iSinglePlane (p.planes.length : Int) then [] else [e])

/-- inner loop over the slices of one configuration; returns the wave after the last slice and the writes -/
def sliceLoop (step : W → S → W) (detect : W → M) (mk : Nat → List Nat) :
    W → Nat → List (S × Bool) → W × List (Write M)
  | w, _, [] => (w, [])
  | w, e, (s, flag) :: rest =>
    let w' := step w s
    if flag then
      let r := sliceLoop step detect mk w' (e + 1) rest
      (r.1, (mk e, detect w') :: r.2)
    else sliceLoop step detect mk w' e rest

/-- slices of one configuration paired with `potential_slice.exit_planes != ()` -/
def flagged (planes : List Int) (first : Int) (cfg : List S) : List (S × Bool) :=
  cfg.zip (flagsFrom planes (startIndex (aEntrance first)) 0 cfg.length)

/-- one configuration starting from wave `w`: entrance-plane write, then the slice loop -/
def runConfig (step : W → S → W) (detect : W → M) (p : Pot S) (first : Int) (c : Nat) (w : W) (cfg : List S) :
    W × List (Write M) :=
  let mk := measurementIndex p c
  let ent := mEntrance first
  let r := sliceLoop step detect mk w (startIndex ent) (flagged p.planes first cfg)
  (r.1, (if ent then [(mk 0, detect w)] else []) ++ r.2)

/-- outer loop over configurations.  Every configuration after the first starts from a fresh copy of the incident
wave `w0` (`waves = incident_waves.copy()`); the first one uses the copy made before the loop — the same value.  The
second wave argument is the wave left by the previous configuration (only the last one is read, by the
`measurements is None` branch). -/
def configLoop (step : W → S → W) (detect : W → M) (p : Pot S) (first : Int) (w0 : W) :
    W → Nat → List (List S) → W × List (Write M)
  | w, _, [] => (w, [])
  | w, c, cfg :: rest =>
    -- `if i > 0: waves = incident_waves.copy()` (generated test `mReset`); configuration 0 uses the copy made before the loop
    let r := runConfig step detect p first c (if mReset (c : Int) then w0 else w) cfg
    let r' := configLoop step detect p first w0 r.1 (c + 1) rest
    (r'.1, r.2 ++ r'.2)

/-- `multislice_and_detect` for one detector -/
def multisliceAndDetect (step : W → S → W) (detect : W → M) (w0 : W) (p : Pot S) : Except String (Out M) :=
  match p.planes with
  | [] => .error "index_error"                       -- `potential.exit_planes[0]`
  | first :: _ =>
    let shape := extraShape p
    let r := configLoop step detect p first w0 w0 0 p.configs
    if mNoTable ((shape.foldl (· + ·) 0 : Nat) : Int) (p.planes.getLastD 0) (p.nslices : Int) then
      .ok (.final (if p.ensAxis then [1] else []) (detect r.1))
    else .ok (.table shape r.2)

/-- `waves = waves.ensure_real_space()` at the entry of `multislice_and_detect`: waves handed over in reciprocal space
(`recip`) are transformed once (`toReal` = the inverse FFT, uninterpreted); real-space waves are used as they are. -/
def ensureReal (toReal : W → W) (recip : Bool) (w : W) : W := if recip then toReal w else w

/-- `multislice_and_detect` from its entry: the wave every configuration starts from (`incident_waves`) is the wave
*after* `ensure_real_space()`, whatever representation the caller handed over. -/
def multisliceAndDetectFrom (step : W → S → W) (detect : W → M) (toReal : W → W) (recip : Bool) (w : W) (p : Pot S) :
    Except String (Out M) :=
  multisliceAndDetect step detect (ensureReal toReal recip w) p

/-- final content of the measurement array at ensemble index `idx` (`none` = never written = zeros) -/
def Out.get : Out M → List Nat → Option M
  | .table _ writes, idx => (writes.reverse.find? (fun wr => wr.1 == idx)).map (·.2)
  | .final shape m, idx => if idx == shape.map (fun _ => 0) then some m else none

def Out.shape : Out M → List Nat
  | .table shape _ => shape
  | .final shape _ => shape

/-! ### the free instance used by the driver and the traced correspondence:
a wave is the list of slice identifiers applied to it, detection returns it unchanged -/
abbrev Hist := List Nat
def hstep (w : Hist) (s : Nat) : Hist := w ++ [s]
def hdetect (w : Hist) : Hist := w
/-- the free instance of the representation change: marker `0` (slice identifiers are positive) -/
def htoReal (w : Hist) : Hist := w ++ [0]

end AbtemVerif.Multislice
