/-
C02 — seeds of a frozen-phonon ensemble through partitioning (abtem/inelastic/phonons.py).

  `FrozenPhonons._partition_args(chunks)`   : block `b` receives `self.seed[start:stop]` for the `b`-th entry of
                                              `chunk_ranges(chunks)[0]`                                    → `partitionSeeds`
  `FrozenPhonons._from_partitioned_args_func`: the block becomes `FrozenPhonons(atoms, seed=block, num_configs=len(block))`
  `Ensemble.generate_blocks(1)`              : every ensemble is re-split into blocks of one configuration → `singles`
  `FrozenPhonons.randomize`                  : `np.random.default_rng(self.seed[0])`                       → `randomizeSeed`
  `_generate_potential_configurations`       : `potential.generate_blocks()` (chunks = 1)                  → `configSeeds`

`AtomsEnsemble._partition_args` slices the trajectory in exactly the same way (`trajectory[start:stop]`), so the same
functions model it with "seed" read as "trajectory entry".

Core Lean only.
-/
import AbtemVerif.Model.Partition
namespace AbtemVerif.Phonons
open AbtemVerif.Partition

/-- `_partition_args`: the seeds handed to each block, `seed[start:stop]` over the chunk ranges -/
def partitionSeeds {α} (chunks : List Nat) (seeds : List α) : List (List α) :=
  (ranges chunks).map (sliceRange seeds)

/-- `generate_blocks(1)`: chunks `(1,) * n` of an ensemble of `n` configurations -/
def ones (n : Nat) : List Nat := List.replicate n 1

/-- the seed a block's `randomize` uses: `self.seed[0]` (`none` = IndexError on an empty block) -/
def randomizeSeed {α} (block : List α) : Option α := block.head?

/-- seeds actually used for the configurations of one block, in processing order: the block is re-split by
`generate_blocks(1)` and each single-configuration ensemble is randomised with its `seed[0]` -/
def blockConfigSeeds {α} (block : List α) : List α :=
  (partitionSeeds (ones block.length) block).filterMap randomizeSeed

/-- seeds used for all configurations when the ensemble is first partitioned into `chunks` (lazy blocks, `build(chunks)`,
`ensemble_blocks`) and every block then loops over its configurations -/
def configSeeds {α} (chunks : List Nat) (seeds : List α) : List α :=
  (partitionSeeds chunks seeds).flatMap blockConfigSeeds

end AbtemVerif.Phonons
