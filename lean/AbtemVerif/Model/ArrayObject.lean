/-
C29 — hand model of the structural operations of `abtem.array.ArrayObject`
(`get_items` / `_validate_array_items` / `_get_ensemble_axes_metadata_items`, `expand_dims`,
`squeeze`, `_reduction`, `_stack`, `concatenate`, and the constructor check `_check_axes_metadata`).

An array object is: the ensemble axes metadata (ordinal axes carry one value per item, every other
axis kind is an opaque tag that is copied around), the number of base dimensions of the class, and the
array (shape + row-major data).  Indexing (ints, slices with step, None, index lists — every item selects along its own dimension,
`_select_items`) is modelled on the row-major data; everything the code rejects is an `Except` error of
the same kind.  Core Lean only.
-/
namespace AbtemVerif.ArrObj

inductive Err where
  | runtime_error | index_error | value_error | not_implemented | assertion_error | stop_iteration | unsupported
  deriving DecidableEq, Repr, Inhabited

def Err.name : Err → String
  | .runtime_error => "runtime_error"
  | .index_error => "index_error"
  | .value_error => "value_error"
  | .not_implemented => "not_implemented"
  | .assertion_error => "assertion_error"
  | .stop_iteration => "other_error"
  | .unsupported => "unsupported"

inductive Axis where
  | ordinal (label : Int) (vals : List Int)   -- OrdinalAxis and subclasses: one value per item
  | other (tag : Int)                         -- any other axis metadata (frozen phonons, plain AxisMetadata …)
  | unknown                                   -- `UnknownAxis()`
  | linear (tag : Int) (offset sampling : Rat) -- LinearAxis and subclasses (ScanAxis …): coordinate k = offset + k·sampling
  | ordinalQ (tag : Int) (vals : List Rat)    -- `LinearAxis.to_ordinal_axis(n)[item]`: an OrdinalAxis of selected coordinates
  deriving DecidableEq, Repr, Inhabited

structure Obj where
  ens : List Axis
  baseDims : Nat
  shape : List Nat
  data : List Int                 -- row-major
  md : List (Int × Int)           -- metadata entries written by integer indexing of ordinal axes
  deriving DecidableEq, Repr, Inhabited

/-- `len(axis) == n` for ordinal axes (`_check_axes_metadata`, second loop) -/
def axesFit : List Axis → List Nat → Bool
  | [], _ => true
  | _, [] => true
  | .ordinal _ vs :: as, n :: ns => (vs.length == n) && axesFit as ns
  | .ordinalQ _ vs :: as, n :: ns => (vs.length == n) && axesFit as ns
  | _ :: as, _ :: ns => axesFit as ns

/-- what the constructor accepts -/
def WF (o : Obj) : Bool := (o.shape.length == o.ens.length + o.baseDims) && axesFit o.ens o.shape

/-- `ArrayObject.__init__` → `_check_axes_metadata`: RuntimeError unless aligned -/
def check (o : Obj) : Except Err Obj := if WF o then .ok o else .error .runtime_error

/-! ### Python index semantics -/

/-- `range(start, stop, step)` as a list, by fuel -/
def pyRange (start stop step : Int) : Nat → List Int
  | 0 => []
  | fuel + 1 =>
      if (step > 0 && start < stop) || (step < 0 && start > stop) then start :: pyRange (start + step) stop step fuel else []

/-- first component of `slice(a, b, s).indices(n)` -/
def sliceStart (a s : Option Int) (n : Nat) : Int :=
  let N : Int := n
  let neg := s.getD 1 < 0
  match a with
  | none => if neg then N - 1 else 0
  | some x =>
      let x := if x < 0 then x + N else x
      if x < 0 then (if neg then -1 else 0) else if x ≥ N then (if neg then N - 1 else N) else x

/-- `slice(a, b, s).indices(n)` then `range(...)` -/
def sliceIndices (a b s : Option Int) (n : Nat) : Except Err (List Nat) :=
  let step := s.getD 1
  if step == 0 then .error .value_error
  else
    let N : Int := n
    let neg := step < 0
    let start : Int := sliceStart a s n
    let stop : Int := match b with
      | none => if neg then -1 else N
      | some x =>
          let x := if x < 0 then x + N else x
          if x < 0 then (if neg then -1 else 0) else if x ≥ N then (if neg then N - 1 else N) else x
    .ok ((pyRange start stop step (n + 1)).map Int.toNat)

/-- an integer index on a dimension of size `n` -/
def intIndex (i : Int) (n : Nat) : Except Err Nat :=
  let j := if i < 0 then i + n else i
  if j < 0 || j ≥ n then .error .index_error else .ok j.toNat

inductive Item where
  | int (i : Int)
  | slice (a b s : Option Int)
  | none
  | list (l : List Int)
  | ellipsis
  deriving DecidableEq, Repr, Inhabited

/-- how one item acts on one dimension -/
inductive Sel where
  | drop (i : Nat)            -- integer: the dimension disappears
  | keep (idx : List Nat) (fwd : Option (Int × Int))   -- slice / index list; `fwd = (start, step)` for a forward slice (`LinearAxis.__getitem__`)
  | newaxis                   -- None
  deriving DecidableEq, Repr, Inhabited

def listIndices (l : List Int) (n : Nat) : Except Err (List Nat) :=
  l.mapM fun i => intIndex i n

/-! ### row-major data -/

def prod : List Nat → Nat
  | [] => 1
  | n :: ns => n * prod ns

/-- all multi-indices of the given per-dimension index lists, row-major -/
def cartesian : List (List Nat) → List (List Nat)
  | [] => [[]]
  | idx :: rest => idx.flatMap fun i => (cartesian rest).map fun t => i :: t

def flatIndex : List Nat → List Nat → Nat
  | [], _ => 0
  | _, [] => 0
  | i :: is, n :: ns => i * prod ns + flatIndex is ns

/-- pick `data[multi-index]` for every multi-index of `sels` (one index list per source dimension) -/
def gather (shape : List Nat) (data : List Int) (sels : List (List Nat)) : List Int :=
  (cartesian sels).map fun mi => data.getD (flatIndex mi shape) 0

/-! ### `get_items` -/

/-- the `keepdims` loop of `_validate_array_items`: an integer becomes `slice(i, i + 1)` (`slice(-1, None)` for -1)
after a bounds check against the dimension it addresses (`None` items address none) -/
def keepdimsItems : List Item → List Nat → Except Err (List Item)
  | [], _ => .ok []
  | .int i :: its, dims =>
      let bad := match dims with
        | n :: _ => decide (i < -(n : Int) ∨ i ≥ (n : Int))
        | [] => false
      if bad then .error .index_error
      else match keepdimsItems its dims.tail with
        | .ok r => .ok (.slice (some i) (if i = -1 then none else some (i + 1)) none :: r)
        | .error e => .error e
  | .none :: its, dims => match keepdimsItems its dims with
      | .ok r => .ok (.none :: r)
      | .error e => .error e
  | it :: its, dims => match keepdimsItems its dims.tail with
      | .ok r => .ok (it :: r)
      | .error e => .error e

/-- `_validate_array_items` (after the items were wrapped into a tuple); `dims` = ensemble shape -/
def validateItems (items : List Item) (dims : List Nat) (keepdims : Bool) : Except Err (List Item) :=
  match (if keepdims then keepdimsItems items dims else .ok items) with
  | .error e => .error e
  | .ok items =>
    if items.any (· == .ellipsis) then .error .not_implemented
    else if (items.filter (· != .none)).length > dims.length then .error .runtime_error
    else .ok items

/-- `list.insert(i, UnknownAxis())` for every `None` at position `i` -/
def insertAt {α} (l : List α) (i : Nat) (x : α) : List α := l.take i ++ x :: l.drop i

/-- the ensemble axes with an `UnknownAxis()` inserted at the position of every `None` item
(`expanded_axes_metadatas.insert(i, UnknownAxis())` in a loop over `enumerate(items)`; `list.insert` past the end appends) -/
def expandNones : List Item → List Axis → List Axis
  | [], ens => ens
  | .none :: its, ens => .unknown :: expandNones its ens
  | _ :: its, a :: ens => a :: expandNones its ens
  | _ :: its, [] => expandNones its []

/-- `expanded_axes_metadata[item]` in `_get_ensemble_axes_metadata_items`: an OrdinalAxis slices its values; a LinearAxis under a
FORWARD slice as written (`item.start ≥ 0` or None, `item.step ≥ 1` or None: `fwd = (start, step)`) moves its offset by
`start·sampling` and scales its sampling (`LinearAxis.__getitem__`); for every other item (negative start, backward slice, index
list: `fwd = none`) `LinearAxis.__getitem__` raises TypeError and the axis is copied UNCHANGED (recorded defect); every other axis
kind raises TypeError ⇒ `.copy()` -/
def axisGet (a : Axis) (sel : List Nat) (fwd : Option (Int × Int)) : Axis :=
  match a, fwd with
  | .ordinal l vs, _ => .ordinal l (sel.map fun i => vs.getD i 0)
  | .ordinalQ l vs, _ => .ordinalQ l (sel.map fun i => vs.getD i 0)
  | .linear t off samp, some (start, step) => .linear t (off + start * samp) (samp * step)
  | a, _ => a

/-- all consecutive differences equal `step` (`np.all(np.diff(indices) == step)`) -/
def evenly : List Nat → Int → Bool
  | a :: b :: rest, step => ((b : Int) - (a : Int) == step) && evenly (b :: rest) step
  | _, _ => true

/-- `np.diff(indices)` constant and non-zero, or fewer than two items: `(first, step)` of an evenly spaced index list -/
def regularList (idx : List Nat) : Option (Int × Int) :=
  match idx with
  | [] => some (0, 1)
  | [i] => some (i, 1)
  | i :: j :: rest =>
      let step : Int := (j : Int) - (i : Int)
      if step != 0 && evenly (i :: j :: rest) step then some (i, step) else none

/-- resolve the items against the dimensions they consume; `dims` are the ensemble dimension sizes -/
def resolve : List Item → List Nat → Except Err (List Sel)
  | [], _ => .ok []
  | .none :: its, dims => match resolve its dims with
      | .ok r => .ok (.newaxis :: r)
      | .error e => .error e
  | _ :: _, [] => .error .index_error                 -- cannot happen after validateItems
  | .int i :: its, n :: dims => match intIndex i n, resolve its dims with
      | .ok j, .ok r => .ok (.drop j :: r)
      | .error e, _ => .error e
      | _, .error e => .error e
  | .slice a b s :: its, n :: dims => match sliceIndices a b s n, resolve its dims with
      | .ok idx, .ok r =>
          -- the slice AS WRITTEN reaches `LinearAxis.__getitem__`: forward slices only
          let start := a.getD 0
          let step := s.getD 1
          .ok (.keep idx (if start < 0 || step < 1 then none else some (start, step)) :: r)
      | .error e, _ => .error e
      | _, .error e => .error e
  | .list l :: its, n :: dims => match listIndices l n, resolve its dims with
      | .ok idx, .ok r => .ok (.keep idx none :: r)
      | .error e, _ => .error e
      | _, .error e => .error e
  | .ellipsis :: _, _ => .error .not_implemented

/-- `_get_ensemble_axes_metadata_items`: walk items and (None-expanded) axes together -/
def selectAxes : List Sel → List Axis → List (Int × Int) → List Axis × List (Int × Int)
  | [], rest, md => (rest, md)                                  -- `+= expanded[last_indexed:]`
  | _ :: _, [], md => ([], md)                                  -- zip stops
  | .drop i :: ss, a :: as, md =>
      let md' := match a with
        | .ordinal l vs => md ++ [(l, vs.getD i 0)]             -- `item_metadata`: {label: values[item]}
        | _ => md
      selectAxes ss as md'
  | .keep idx fwd :: ss, a :: as, md =>
      let (r, md') := selectAxes ss as md
      (axisGet a idx fwd :: r, md')
  | .newaxis :: ss, a :: as, md =>
      let (r, md') := selectAxes ss as md
      (a :: r, md')                                             -- the inserted UnknownAxis, copied

/-- per source dimension: the indices read; result shape -/
def selIndices : List Sel → List Nat → List (List Nat)
  | [], dims => dims.map fun n => List.range n
  | .newaxis :: ss, dims => selIndices ss dims
  | _ :: _, [] => []
  | .drop i :: ss, _ :: dims => [i] :: selIndices ss dims
  | .keep idx _ :: ss, _ :: dims => idx :: selIndices ss dims

def selShape : List Sel → List Nat → List Nat
  | [], dims => dims
  | .newaxis :: ss, dims => 1 :: selShape ss dims
  | _ :: _, [] => []
  | .drop _ :: ss, _ :: dims => selShape ss dims
  | .keep idx _ :: ss, _ :: dims => idx.length :: selShape ss dims

/-- `ArrayObject.get_items` + `__class__(**kwargs)` -/
def getItems (o : Obj) (items : List Item) (keepdims : Bool) : Except Err Obj :=
  let ensDims := o.shape.length - o.baseDims
  match validateItems items (o.shape.take ensDims) keepdims with
  | .error e => .error e
  | .ok items =>
      match resolve items (o.shape.take ensDims) with
      | .error e => .error e
      | .ok sels =>
          let (ens', md') := selectAxes sels (expandNones items o.ens) o.md
          check { o with ens := ens', shape := selShape sels o.shape,
                         data := gather o.shape o.data (selIndices sels o.shape), md := md' }

/-! ### `expand_dims`, `squeeze` -/

/-- `normalize_axes` -/
def normAxes (axes : List Int) (ndim : Nat) : List Int := axes.map fun a => if a ≥ 0 then a else a + ndim

/-- Python `list.insert(i, x)` (negative and too large positions are clamped) -/
def pyInsert {α} (l : List α) (i : Int) (x : α) : List α :=
  let n : Int := l.length
  let j : Int := if i < 0 then (if i + n < 0 then 0 else i + n) else (if i > n then n else i)
  insertAt l j.toNat x

/-- `_expand_dims`: `shape = [1 if ax in axis else next(shape_it) for ax in range(out_ndim)]`; `none` = StopIteration -/
def expandShape? (shape : List Nat) (axes : List Nat) : Option (List Nat) :=
  let outN := shape.length + axes.length
  ((List.range outN).foldl (fun (acc : Option (List Nat × List Nat)) ax =>
      match acc with
      | none => none
      | some (done, rest) =>
        if axes.contains ax then some (done ++ [1], rest)
        else match rest with
          | n :: rest' => some (done ++ [n], rest')
          | [] => none) (some ([], shape))).map (·.1)

/-- insertion into a list sorted by position, before the first element whose position is not smaller (stable) -/
def insertByPos (x : Int × Axis) : List (Int × Axis) → List (Int × Axis)
  | [] => [x]
  | y :: ys => if x.1 ≤ y.1 then x :: y :: ys else y :: insertByPos x ys

/-- `sorted(zip(axis, axis_metadata), key=position)` (stable) -/
def sortByPos (l : List (Int × Axis)) : List (Int × Axis) := l.foldr insertByPos []

/-- `expand_dims(axis, axis_metadata)`; `newAxes` are the metadata items (default: one UnknownAxis per axis).
As in `numpy.expand_dims` the positions refer to the expanded array (negative axes are normalised against the NEW
rank); positions outside the ensemble part are refused; the metadata is inserted in increasing position. -/
def expandDims (o : Obj) (axes : List Int) (newAxes : List Axis) : Except Err Obj :=
  let nd := o.shape.length
  let ax := normAxes axes (nd + axes.length)
  let ensDims := nd - o.baseDims
  if ax.any fun a => a < 0 || a ≥ ((ensDims + ax.length : Nat) : Int) then .error .runtime_error
  else
    let ens' := (sortByPos (ax.zip newAxes)).foldl (fun acc (a, am) => pyInsert acc a am) o.ens
    let axN := ax.map Int.toNat
    match expandShape? o.shape axN with
    | none => .error .stop_iteration                                          -- repeated axis: the shape iterator runs dry
    | some shape' => check { o with ens := ens', shape := shape' }

/-- `squeeze(axis)`; `none` = all axes -/
def squeeze (o : Obj) (axes : Option (List Int)) : Except Err Obj :=
  let ensDims := o.shape.length - o.baseDims
  let ax : List Int := match axes with
    | none => (List.range o.shape.length).map Int.ofNat
    | some a => normAxes a o.shape.length
  let ensShape := o.shape.take ensDims
  let squeezed := (ensShape.zipIdx.filter fun (n, i) => n == 1 && ax.contains (i : Int)).map (·.2)
  check { o with ens := (o.ens.zipIdx.filter fun (_, i) => !squeezed.contains i).map (·.1),
                 shape := (o.shape.zipIdx.filter fun (_, i) => !squeezed.contains i).map (·.1) }

/-! ### `_reduction` (sum) -/

def sumInts (l : List Int) : Int := l.foldl (· + ·) 0

/-- reduce the given (distinct, in-range) dimensions by summation; row-major result -/
def reduceData (shape : List Nat) (data : List Int) (axes : List Nat) : List Int :=
  let keptSel := shape.zipIdx.map fun (n, i) => if axes.contains i then [0] else List.range n
  (cartesian keptSel).map fun mi =>
    let sels := (mi.zip shape).zipIdx.map fun ((m, n), i) => if axes.contains i then List.range n else [m]
    sumInts (gather shape data sels)

/-- the entries of `l` whose index (counted from `i`) is not in `ax` -/
def dropAt {α} : List α → Nat → List Nat → List α
  | [], _, _ => []
  | x :: xs, i, ax => if ax.contains i then dropAt xs (i + 1) ax else x :: dropAt xs (i + 1) ax

/-- `keepdims=True`: an ordinal axis with more than one value that is reduced keeps its label only
(`AxisMetadata(label=…, units=…)`); every other axis stays -/
def keepAxes : List Axis → Nat → List Nat → List Axis
  | [], _, _ => []
  | a :: as, i, ax =>
      (if ax.contains i then
        (match a with
         | .ordinal l vs => if vs.length != 1 then .other l else a
         | .ordinalQ l vs => if vs.length != 1 then .other l else a
         | a => a)
       else a) :: keepAxes as (i + 1) ax

def keepShape : List Nat → Nat → List Nat → List Nat
  | [], _, _ => []
  | n :: ns, i, ax => (if ax.contains i then 1 else n) :: keepShape ns (i + 1) ax

/-- `_reduction("sum", axes, keepdims)` with `axes` given -/
def reduce (o : Obj) (axes : List Int) (keepdims : Bool) : Except Err Obj :=
  let nd : Int := o.shape.length
  let ax := axes.map fun a => if a ≥ 0 then a else a + nd
  let ensDims : Int := o.shape.length - o.baseDims
  let ensLen : Int := o.ens.length
  if ax.any fun a => a ≥ ensDims && a < nd then .error .runtime_error      -- "base axes cannot be reduced"
  else if keepdims && (ax.any fun a => a ≥ ensLen || a < -ensLen) then .error .index_error   -- `ensemble_axes_metadata[axis]`
  else if ax.any fun a => a < 0 || a ≥ nd then .error .value_error                  -- numpy AxisError
  else if ax.eraseDups.length != ax.length then .error .value_error                         -- duplicate value in 'axis'
  else
    let axN := ax.map Int.toNat
    let ens' := if keepdims then keepAxes o.ens 0 axN else dropAt o.ens 0 axN
    let shape' := if keepdims then keepShape o.shape 0 axN else dropAt o.shape 0 axN
    check { o with ens := ens', shape := shape', data := reduceData o.shape o.data axN }

/-! ### `stack`, `concatenate` -/

/-- `stack(arrays, axis_metadata, axis)` of objects with equal shapes; data = interleaving along the new axis -/
def stack (os : List Obj) (newAxis : Axis) (axis : Int) : Except Err Obj :=
  match os with
  | [] => .error .index_error
  | o :: _ =>
    let ensDims := o.shape.length - o.baseDims
    if axis > ensDims || axis < 0 then .error .assertion_error
    else if (match newAxis with | .other _ => true | .linear _ _ _ => true | .ordinalQ _ _ => false | _ => false) then .error .value_error   -- validate_axis_metadata: only OrdinalAxis / None
    else if os.any fun p => p.shape != o.shape then .error .value_error        -- numpy: all input arrays must have the same shape
    else
      let k := axis.toNat
      let outer := prod (o.shape.take k)
      let inner := prod (o.shape.drop k)
      let data := (List.range outer).flatMap fun b => os.flatMap fun p => (p.data.drop (b * inner)).take inner
      check { o with ens := insertAt o.ens k newAxis, shape := insertAt o.shape k os.length, data := data }

/-- `AxisMetadata.concatenate` / `OrdinalAxis.concatenate` -/
def axisConcat (a b : Axis) : Except Err Axis :=
  match a, b with
  | .ordinal l vs, .ordinal l2 ws => if l == l2 then .ok (.ordinal l (vs ++ ws)) else .error .runtime_error
  | .ordinalQ l vs, .ordinalQ l2 ws => if l == l2 then .ok (.ordinalQ l (vs ++ ws)) else .error .runtime_error
  | a, b => if a == b then .ok a else .error .runtime_error

/-- fold of `concatenate` over the axis metadata of the operands -/
def axisConcatAll : Axis → List Axis → Except Err Axis
  | a, [] => .ok a
  | a, b :: bs => match axisConcat a b with
      | .ok c => axisConcatAll c bs
      | .error e => .error e

def setAt {α} : List α → Nat → α → List α
  | [], _, _ => []
  | _ :: xs, 0, y => y :: xs
  | x :: xs, i + 1, y => x :: setAt xs i y

/-- `abtem.concatenate(arrays, axis)` for `0 ≤ axis <` number of ensemble axes: the arrays are joined along the axis, the
axis metadata of the operands is concatenated (ordinal values appended; any other axis must be equal), every other
axis and the metadata are those of the first operand; then `from_array_and_metadata` → constructor check -/
def concat (os : List Obj) (axis : Nat) : Except Err Obj :=
  match os with
  | [] => .error .index_error
  | o :: rest =>
    if os.any fun p => p.shape.length != o.shape.length || (dropAt p.shape 0 [axis]) != (dropAt o.shape 0 [axis]) then .error .value_error
    else
      match axisConcatAll (o.ens.getD axis .unknown) (rest.map fun p => p.ens.getD axis .unknown) with
      | .error e => .error e
      | .ok ax =>
        let outer := prod (o.shape.take axis)
        let data := (List.range outer).flatMap fun b => os.flatMap fun p =>
          let inner := prod (p.shape.drop axis)
          (p.data.drop (b * inner)).take inner
        let n := (os.map fun p => p.shape.getD axis 0).foldl (· + ·) 0
        check { o with ens := setAt o.ens axis ax, shape := setAt o.shape axis n, data := data }

end AbtemVerif.ArrObj
