/-
C14 — hand model of the diffraction-pattern geometry code around the generated expressions of
`Gen/FftMasks.lean` (regenerated from the Python source on every run).

  abtem/core/fft.py   `_fft_interpolation_masks_1d`  → `masks1d`   (branch tests and slice bounds generated)
                      `fft_interpolation_masks`       → `flatTrue` (outer product of the 1-D masks, row-major)
                      `fft_crop`                      → `crop1d`, `crop2d` (`new[mask_out] = array[mask_in]`)
  abtem/waves.py      `_ensure_parity`                → `ensureParity` (tests / returns generated)
                      `_ensure_parity_of_gpts`        → `ensureParityOfGpts` (the `even` arguments generated)
                      `BaseWaves._gpts_within_angle`  → `gptsWithin` (numeric branch generated)
                      `BaseWaves._diffraction_pattern`→ `diffractionPattern` (crop, then optional fftshift)
  abtem/measurements.py `DiffractionPatterns._crop`   → `cropMethod1`, `cropMethod`
  abtem/measurements.py `DiffractionPatterns.limits`  → `limits` (generated), `angular_coordinates` → `angularCoords`
                      `block_direct` / `_bandlimit`   → `effectiveRadius`, `keepQ`, `blockDirect`

Boolean masks on an axis of length `n` are predicates `Nat → Bool` read on positions `< n`.
Core Lean only (the driver imports this file).
-/
import AbtemVerif.Gen.FftMasks
import AbtemVerif.Model.Linspace
namespace AbtemVerif.FftGeom
open AbtemVerif.Py AbtemVerif.Np AbtemVerif.Gen.FftMasks

/-! ### Python slice assignment on boolean masks -/

/-- one bound of `slice(lo, hi).indices(n)` (step 1): negative bounds count from the end, all clamp to `[0, n]` -/
def sliceBound (n : Nat) (b : Int) : Nat := if b < 0 then (b + n).toNat else min b.toNat n

def maskZeros : Nat → Bool := fun _ => false
/-- `mask[:] = True` -/
def maskAll (n : Nat) : Nat → Bool := fun i => decide (i < n)
/-- `mask[0] = True` -/
def setFirst (m : Nat → Bool) : Nat → Bool := fun i => m i || i == 0
/-- `mask[:hi] = True` -/
def setHead (n : Nat) (m : Nat → Bool) (hi : Int) : Nat → Bool := fun i => m i || decide (i < sliceBound n hi)
/-- `mask[lo:] = True` -/
def setTail (n : Nat) (m : Nat → Bool) (lo : Int) : Nat → Bool :=
  fun i => m i || (decide (sliceBound n lo ≤ i) && decide (i < n))

/-- `_fft_interpolation_masks_1d(n1, n2)` : `(mask1, mask2)` on axes of length `n1`, `n2` -/
def masks1d (n1 n2 : Nat) : (Nat → Bool) × (Nat → Bool) :=
  let a : Int := n1
  let b : Int := n2
  if condPad a b then
    (maskAll n1,
      if condOne1 a b then setFirst maskZeros
      else if condEven1 a b then setTail n2 (setHead n2 maskZeros (m2EvenHead a b)) (m2EvenTail a b)
      else setTail n2 (setHead n2 maskZeros (m2OddHead a b)) (m2OddTail a b))
  else
    (if condOne2 a b then setFirst maskZeros
      else if condEven2 a b then setTail n1 (setHead n1 maskZeros (m1EvenHead a b)) (m1EvenTail a b)
      else setTail n1 (setHead n1 maskZeros (m1OddHead a b)) (m1OddTail a b),
     maskAll n2)

/-- positions selected by a boolean mask, in increasing order (numpy boolean indexing) -/
def trueIdx (n : Nat) (m : Nat → Bool) : List Nat := (List.range n).filter m

/-- `new[mask_out] = array[mask_in]`: the k-th selected output position receives the k-th selected input position -/
def pairs1d (n1 n2 : Nat) : List (Nat × Nat) :=
  (trueIdx n2 (masks1d n1 n2).2).zip (trueIdx n1 (masks1d n1 n2).1)

/-- array of length `n` that is zero except at the paired output positions -/
def assignPairs (n : Nat) (ps : List (Nat × Nat)) (x : List Int) : List Int :=
  (List.range n).map fun p => match ps.lookup p with
    | some q => x.getD q 0
    | none => 0

/-- `fft_crop` of a 1-D array (numpy raises ValueError when the two masks select different counts, unless a single selected value broadcasts) -/
def crop1d (x : List Int) (n2 : Nat) : Except String (List Int) :=
  let src := trueIdx x.length (masks1d x.length n2).1
  let dst := trueIdx n2 (masks1d x.length n2).2
  if src.length = dst.length then .ok (assignPairs n2 (pairs1d x.length n2) x)
  else if src.length = 1 then .ok (assignPairs n2 (dst.map fun p => (p, src.headD 0)) x)  -- a single value broadcasts
  else .error "value_error"

/-- row-major flat positions selected by the outer product of two 1-D masks (`fft_interpolation_masks`) -/
def flatTrue (nx ny : Nat) (mx my : Nat → Bool) : List Nat :=
  (List.range (nx * ny)).filter fun k => mx (k / ny) && my (k % ny)

def pairs2d (nx ny mx my : Nat) : List (Nat × Nat) :=
  (flatTrue mx my (masks1d nx mx).2 (masks1d ny my).2).zip (flatTrue nx ny (masks1d nx mx).1 (masks1d ny my).1)

/-- `fft_crop` of an `nx × ny` array (row-major flat list) to `mx × my` -/
def crop2d (nx ny : Nat) (x : List Int) (mx my : Nat) : Except String (List Int) :=
  let src := flatTrue nx ny (masks1d nx mx).1 (masks1d ny my).1
  let dst := flatTrue mx my (masks1d nx mx).2 (masks1d ny my).2
  if src.length = dst.length then .ok (assignPairs (mx * my) (pairs2d nx ny mx my) x)
  else if src.length = 1 then .ok (assignPairs (mx * my) (dst.map fun p => (p, src.headD 0)) x)  -- a single value broadcasts
  else .error "value_error"

/-- `numpy.fft.fftshift(a, axes=(-2,-1))` on a row-major flat `nx × ny` array -/
def fftshift2 (nx ny : Nat) (x : List Int) : List Int :=
  (List.range (nx * ny)).map fun k => x.getD (fftshiftSrc nx (k / ny) * ny + fftshiftSrc ny (k % ny)) 0

/-- source position read by `numpy.fft.ifftshift` at output position `j` (roll by `-(n/2)`) -/
def ifftshiftSrc (n j : Nat) : Nat := (j + n / 2) % n

def ifftshift2 (nx ny : Nat) (x : List Int) : List Int :=
  (List.range (nx * ny)).map fun k => x.getD (ifftshiftSrc nx (k / ny) * ny + ifftshiftSrc ny (k % ny)) 0

/-- `BaseWaves._diffraction_pattern` after the FFT (the transformed array is the input): crop when the shape
differs, then optionally centre -/
def diffractionPattern (nx ny : Nat) (x : List Int) (mx my : Nat) (shift : Bool) : Except String (List Int) :=
  let c := if (nx, ny) ≠ (mx, my) then crop2d nx ny x mx my else .ok x
  c.map fun y => if shift then fftshift2 mx my y else y

/-- `DiffractionPatterns._crop(array, gpts, fftshift)` on one axis: un-shifted patterns are cropped in storage order,
centred ones between `ifftshift` and `fftshift` (test and direct return generated) -/
def cropMethod1 (x : List Int) (n2 : Nat) (shifted : Bool) : Except String (List Int) :=
  if cropDirectTest shifted then (crop1d x n2).map cropDirectReturn
  else (crop1d (ifftshift x) n2).map fftshift

/-- the same on a row-major flat `nx × ny` pattern -/
def cropMethod (nx ny : Nat) (x : List Int) (mx my : Nat) (shifted : Bool) : Except String (List Int) :=
  if cropDirectTest shifted then (crop2d nx ny x mx my).map cropDirectReturn
  else (crop2d nx ny (ifftshift2 nx ny x) mx my).map (fftshift2 mx my)

/-! ### parity of the cropped shape -/

/-- `_ensure_parity(n, even, v)` -/
def ensureParity (n : Int) (even : Bool) (v : Int) : Except String Int :=
  if !(v == 1 || v == -1) then .error "assertion_error"
  else if parityTest0 n even v then .ok (parityRet0 n even v)
  else if parityTest1 n even v then .ok (parityRet1 n even v)
  else .ok (parityRet2 n even v)

/-- `_ensure_parity_of_gpts(new_gpts, old_gpts, parity)` -/
def ensureParityOfGpts (new old : Int × Int) (parity : String) : Except String (Int × Int) :=
  if parity = "same" then do
    let a ← ensureParity new.1 (sameEven0 old.1 old.2) 1
    let b ← ensureParity new.2 (sameEven1 old.1 old.2) 1
    pure (a, b)
  else if parity = "odd" then do
    let a ← ensureParity new.1 (oddEven0 old.1 old.2) 1
    let b ← ensureParity new.2 (oddEven1 old.1 old.2) 1
    pure (a, b)
  else if parity = "even" then do
    let a ← ensureParity new.1 (evenEven0 old.1 old.2) 1
    let b ← ensureParity new.2 (evenEven1 old.1 old.2) 1
    pure (a, b)
  else if parity = "none" then .ok new
  else .error "value_error"

/-- how `max_angle` selects the uncorrected shape: `"full"`/`None`, a number [mrad] with the two angular
samplings, or a keyword (`"cutoff"`, `"valid"`) whose grid count is computed elsewhere and passed in -/
inductive AngleSel
  | full
  | number (angle s0 s1 : Rat)
  | keyword (g : Int × Int)

/-- `BaseWaves._gpts_within_angle(angle, parity)` with `old = self._valid_gpts` -/
def gptsWithin (sel : AngleSel) (old : Int × Int) (parity : String) : Except String (Int × Int) :=
  match sel with
  | .full => .ok old
  | .number angle s0 s1 => ensureParityOfGpts (gptsNumber angle s0 s1) old parity
  | .keyword g => ensureParityOfGpts g old parity

/-! ### coordinates and the direct-beam block -/

/-- `DiffractionPatterns.limits` for one axis of `n` pixels with sampling `s` -/
def limits (n : Nat) (s : Rat) : Rat × Rat :=
  (if (n : Int) % 2 ≠ 0 then limitsOdd n s else limitsEven n s).headD (0, 0)

/-- `DiffractionPatterns.angular_coordinates` for one axis (`s` = angular sampling): centred `linspace` between
the limits; for un-shifted patterns the centring is undone with `ifftshift` -/
def angularCoords (n : Nat) (s : Rat) (shifted : Bool) : List Rat :=
  let c := linspace (limits n s).1 (limits n s).2 n true
  if shifted then c else (unshiftedCoords (ifftshift c) (ifftshift c)).1

/-- `alpha > inner` with `alpha = sqrt(ax² + ay²)`, without the square root
(`Props/C14.lean: keepInner_eq_keepQ` proves the equivalence with the generated real predicate) -/
def keepQ (ax ay r : Rat) : Bool := decide (r < 0) || decide (r ^ 2 < ax ^ 2 + ay ^ 2)

/-- radius actually passed to `bandlimit` by `block_direct(radius, margin)`; `semi` = `metadata["semiangle_cutoff"]`
if present, `maxs = max(angular_sampling)` -/
def effectiveRadius (radius semi : Option Rat) (margin : Option Bool) (maxs : Rat) : Rat :=
  let r := match radius with
    | some r => r
    | none => match semi with
      | some c => c
      | none => blockDefaultRadius maxs
  let mg := match margin with
    | some b => b
    | none => semi.isSome
  if mg then r + blockMargin maxs else r

/-- `bandlimit(r, inf)` on a row-major flat `nx × ny` pattern: `array * (alpha > r)` -/
def blockDirect (nx ny : Nat) (sx sy : Rat) (shifted : Bool) (r : Rat) (x : List Int) : List Int :=
  let cx := angularCoords nx sx shifted
  let cy := angularCoords ny sy shifted
  (List.range (nx * ny)).map fun k =>
    if keepQ (cx.getD (k / ny) 0) (cy.getD (k % ny) 0) r then x.getD k 0 else 0

end AbtemVerif.FftGeom
