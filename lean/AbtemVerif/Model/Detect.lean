/-
C12 — hand model of the annular / segmented / flexible detector bin computations around the generated
expressions of `Gen/Detect.lean` (regenerated from the Python source on every run).

  abtem/measurements.py `_annular_detector_mask` (offset 0)  → `annularMask`   (predicate `annularIn` generated)
                        `_polar_detector_bins` (offset 0, rotation 0) → `polarLabel` (label formula generated; the
                             radial bin `int(nb·(α−inner)/(outer−inner))` with `α = √k2` irrational is decided exactly
                             over ℚ by comparing squares: `radialBin`)
                        `DiffractionPatterns._integrate_fourier_space` → `annularSum`
                        `DiffractionPatterns._radial_binning` / `polar_binning` → `polarSums`
  abtem/detectors.py    `FlexibleAnnularDetector.nbins_radial` (generated), `.angular_limits` → `flexLimits`

A pattern is a row-major flat `nx × ny` table; storage position `i` of an axis of `n` pixels carries the FFT frequency
index `fftfreqIndex n i` (un-shifted) or that of `fftshiftSrc n i` (fftshift-ed).  Core Lean only.
-/
import AbtemVerif.Gen.Detect
import AbtemVerif.Model.Linspace
namespace AbtemVerif.Detect
open AbtemVerif.Py AbtemVerif.Np AbtemVerif.Gen.Detect

/-- `√k2 ≥ a` decided over ℚ (`k2 ≥ 0`) -/
def sqrtGe (k2 a : Rat) : Bool := decide (a ≤ 0) || decide (a ^ 2 ≤ k2)
/-- `√k2 < b` decided over ℚ (`k2 ≥ 0`) -/
def sqrtLt (k2 b : Rat) : Bool := decide (0 < b) && decide (k2 < b ^ 2)

/-- angle of storage position `i` on an axis of `n` pixels with angular sampling `s` -/
def angle (n : Nat) (s : Rat) (shift : Bool) (i : Nat) : Rat :=
  (fftfreqIndex n (if shift then fftshiftSrc n i else i) : Rat) * s

structure Geom where
  nx : Nat
  ny : Nat
  sx : Rat
  sy : Rat
  shift : Bool

def Geom.size (g : Geom) : Nat := g.nx * g.ny
def Geom.ax (g : Geom) (k : Nat) : Rat := angle g.nx g.sx g.shift (k / g.ny)
def Geom.ay (g : Geom) (k : Nat) : Rat := angle g.ny g.sy g.shift (k % g.ny)
def Geom.k2 (g : Geom) (k : Nat) : Rat := g.ax k ^ 2 + g.ay k ^ 2

/-- `_annular_detector_mask` at flat position `k` -/
def annularMask (g : Geom) (inner outer : Rat) (k : Nat) : Bool := annularIn (g.ax k) (g.ay k) inner outer

/-- sum of the pixels selected by a mask: `xp.sum(array * bins, axis=(-2,-1))` -/
def maskSum (n : Nat) (m : Nat → Bool) (x : Nat → Int) : Int :=
  ((List.range n).map fun k => if m k then x k else 0).sum

def annularSum (g : Geom) (inner outer : Rat) (x : Nat → Int) : Int := maskSum g.size (annularMask g inner outer) x

/-- `valid = (alpha >= inner) & (alpha < outer)` with `alpha = √k2` -/
def polarValid (k2 inner outer : Rat) : Bool := sqrtGe k2 inner && sqrtLt k2 outer

/-- is `r` the value of `int(nb * (√k2 - inner) / (outer - inner))` ?  (`inner + r·w ≤ √k2 < inner + (r+1)·w`) -/
def inRadialBin (k2 inner outer : Rat) (nb r : Nat) : Bool :=
  sqrtGe k2 (inner + r * ((outer - inner) / nb)) && sqrtLt k2 (inner + (r + 1) * ((outer - inner) / nb))

def radialBin (k2 inner outer : Rat) (nb : Nat) : Option Nat :=
  if polarValid k2 inner outer then (List.range nb).find? (inRadialBin k2 inner outer nb) else none

/-- `clip(floor(na · φ / 2π), 0, na − 1)` for `φ = arctan2(ky, kx) mod 2π`, decidable over ℚ for 1, 2 and 4 sectors -/
def azimuthalBin (kx ky : Rat) (na : Nat) : Option Nat :=
  if na = 1 then some 0
  else if na = 2 then some (if ky > 0 ∨ (ky = 0 ∧ kx ≥ 0) then 0 else 1)
  else if na = 4 then
    some (if (kx > 0 ∧ ky ≥ 0) ∨ (kx = 0 ∧ ky = 0) then 0 else if kx ≤ 0 ∧ ky > 0 then 1 else if kx < 0 ∧ ky ≤ 0 then 2 else 3)
  else none

/-- label of a pixel in `_polar_detector_bins` (`-1` outside the annulus) -/
def polarLabel (g : Geom) (inner outer : Rat) (nr na : Nat) (k : Nat) : Option Int :=
  match radialBin (g.k2 k) inner outer nr, azimuthalBin (g.ax k) (g.ay k) na with
  | some r, some a => some (binLabel a r na)
  | none, some _ => some (-1)
  | _, none => none

/-- `polar_binning`: per-(radial, azimuthal) sums, row-major `nr × na`; RuntimeError for non-positive bin counts -/
def polarSums (g : Geom) (inner outer : Rat) (nr na : Int) (x : Nat → Int) : Except String (List Int) :=
  if nr ≤ 0 || na ≤ 0 then .error "runtime_error"
  else .ok ((List.range (nr.toNat * na.toNat)).map fun (l : Nat) =>
    maskSum g.size (fun k => polarLabel g inner outer nr.toNat na.toNat k == some (l : Int)) x)


/-- `DiffractionPatterns._check_integration_limits`: RuntimeError when `inner > outer`, or when `outer` exceeds a
maximum angle `(n // 2)·s` without being `np.isclose` (rtol 1e-5, atol 1e-5) to the smaller one -/
def limitsOk (g : Geom) (inner outer : Rat) : Bool :=
  let mx : Rat := ((g.nx / 2 : Nat) : Rat) * g.sx
  let my : Rat := ((g.ny / 2 : Nat) : Rat) * g.sy
  let m := min mx my
  let close : Bool := decide ((if m - outer ≥ 0 then m - outer else outer - m)
      ≤ (1 : Rat) / 100000 + (1 : Rat) / 100000 * (if outer ≥ 0 then outer else -outer))
  !(decide (inner > outer)) && !((decide (outer > mx) || decide (outer > my)) && !close)

/-- `DiffractionPatterns.integrate_radial(inner, outer)` -/
def integrateRadial (g : Geom) (inner outer : Rat) (x : Nat → Int) : Except String Int :=
  if limitsOk g inner outer then .ok (annularSum g inner outer x) else .error "runtime_error"

/-- `DiffractionPatterns.polar_binning(nr, na, inner, outer)` -/
def polarBinning (g : Geom) (inner outer : Rat) (nr na : Int) (x : Nat → Int) : Except String (List Int) :=
  if nr ≤ 0 || na ≤ 0 then .error "runtime_error"
  else if limitsOk g inner outer then polarSums g inner outer nr na x else .error "runtime_error"

/-- `FlexibleAnnularDetector`: number of bins and the range they cover (`angular_limits`): whole bins of width `step` -/
def flexLimits (inner outer step : Rat) : Int × Rat × Rat :=
  (flexNbins inner outer step, (flexLimitsRange inner outer step).1, (flexLimitsRange inner outer step).2)

end AbtemVerif.Detect
