/-
C01 — Pattern A model of lazy vs. eager evaluation of a transform (abtem/array.py `ArrayObject.apply_transform`).

eager : `new_arrays = transform._calculate_new_array(self)`                                    → `applyEager`
lazy  : chunks = transform default chunks ++ array chunks → `validate_chunks` → the transform ensemble is partitioned by
        `transform._partition_args(chunks)`, the array by its dask chunks; `multi_output_blockwise` calls the block
        function `_apply_transform` (= `_calculate_new_array` of the block transform on the block array) once per pair of
        blocks and dask concatenates the block results along every axis                         → `applyLazy`

The result of a transform with one transform ensemble axis (e.g. frozen-phonon configurations) applied to an array with
one (flattened) ensemble axis (e.g. scan positions / wave batch) is a table `List (List R)`: row = transform member,
column = array member; `R` is the per-member result (for multislice: the list of exit-plane measurements).
The kernel `calc : List T → List A → List (List R)` is a parameter.

For the multislice transform the block function is the loop model of `Model/Multislice.lean`; `MultisliceTransform`
always partitions the configurations one per block (`_default_ensemble_chunks = (1, num_exit_planes)`, integer default
chunks are never enlarged by `validate_chunks`) and keeps the exit-plane axis in one chunk → `lazyMultislice`.

Dimension bookkeeping of `_apply_transform` / `multi_output_blockwise` (DESIGN §7 F19): the packed block result must
have as many dimensions as the blockwise output declares; both expressions are generated (`Gen/Blockwise.lean`).
Core Lean only.
-/
import AbtemVerif.Model.Partition
import AbtemVerif.Model.Multislice
import AbtemVerif.Gen.Blockwise
namespace AbtemVerif.Blockwise
open AbtemVerif.Partition AbtemVerif.Multislice AbtemVerif.Gen.Blockwise

variable {T A R : Type}

/-- eager evaluation: the kernel on the whole transform ensemble and the whole array -/
def applyEager (kern : List T → List A → List (List R)) (ts : List T) (as : List A) : List (List R) := kern ts as

/-- concatenation of block tables along the column axis (dask concatenates the blocks of one block-row) -/
def hcat (nrows : Nat) (blocks : List (List (List R))) : List (List R) :=
  (List.range nrows).map fun i => blocks.flatMap fun (b : List (List R)) => b.getD i []

/-- lazy evaluation: one kernel call per (transform block, array block); results concatenated along both axes -/
def applyLazy (kern : List T → List A → List (List R)) (cT cA : List Nat) (ts : List T) (as : List A) : List (List R) :=
  (splitBy cT ts).flatMap fun tb => hcat tb.length ((splitBy cA as).map fun ab => kern tb ab)

/-! ### the multislice transform on a batch of waves

A batch is a list of member waves; the batch kernels act member-wise (`stepB`, `detectB`): this is the explicit assumption
about the numeric kernels (FFT, transmission, detector integration act on every wave of a batch independently). -/

variable {W S M : Type}

def stepB (step : W → S → W) (ws : List W) (s : S) : List W := ws.map fun w => step w s
def detectB (detect : W → M) (ws : List W) : List M := ws.map detect

/-- entry of a result (`none` for an error result or a never-written entry) -/
def getE (r : Except String (Out M)) (idx : List Nat) : Option M :=
  match r with
  | .ok o => o.get idx
  | .error _ => none

/-- eager: one call of `multislice_and_detect` with the whole potential and the whole batch; entry
(configuration `c`, exit-plane index `e`) of the table = the batch of measurements -/
def eagerEntry (step : W → S → W) (detect : W → M) (ws : List W) (p : Pot S) (c e : Nat) : Option (List M) :=
  getE (multisliceAndDetect (stepB step) (detectB detect) ws p) (measurementIndex p c e)

/-- the potential of one lazy block: configuration `c` alone (an ensemble axis, if any, has length one) -/
def blockPot (p : Pot S) (cfg : List S) : Pot S := ⟨p.ensAxis, p.planes, p.nslices, [cfg]⟩

/-- lazy: configurations one per block, the batch split by `cA`; every block runs `multislice_and_detect` on its own
sub-batch and single-configuration potential; dask concatenates the blocks along the batch axis.  The entry is `none` if
a block fails or never wrote it. -/
def lazyEntry (step : W → S → W) (detect : W → M) (cA : List Nat) (ws : List W) (p : Pot S) (c e : Nat) :
    Option (List M) :=
  ((splitBy cA ws).mapM fun wb =>
      getE (multisliceAndDetect (stepB step) (detectB detect) wb (blockPot p (p.configs.getD c [])))
        (measurementIndex (blockPot p (p.configs.getD c [])) 0 e)).map List.flatten

/-! ### batches with two ensemble axes (e.g. a grid scan): a matrix of member waves, chunked along both axes -/

/-- the column blocks of a block of rows: block `j` holds, for every row, the `j`-th chunk of that row -/
def colBlocks {α : Type} (cY : List Nat) (rows : List (List α)) : List (List (List α)) :=
  (List.range cY.length).map fun j => rows.map fun row => (splitBy cY row).getD j []

/-- blockwise evaluation of a member-wise function over a matrix: split the rows by `cX`, every row block into column
blocks by `cY`, apply `f` inside every block, concatenate the blocks of a block-row along the columns and the block-rows
along the rows (dask's assembly of a 2-d chunked array) -/
def blockMap2 {α β : Type} (f : α → β) (cX cY : List Nat) (m : List (List α)) : List (List β) :=
  (splitBy cX m).flatMap fun rb => hcat rb.length ((colBlocks cY rb).map fun cb => cb.map (List.map f))

def stepBB (step : W → S → W) (wss : List (List W)) (s : S) : List (List W) := wss.map fun ws => stepB step ws s
def detectBB (detect : W → M) (wss : List (List W)) : List (List M) := wss.map (detectB detect)

/-- eager entry for a two-axis batch -/
def eagerEntry2 (step : W → S → W) (detect : W → M) (wss : List (List W)) (p : Pot S) (c e : Nat) :
    Option (List (List M)) :=
  getE (multisliceAndDetect (stepBB step) (detectBB detect) wss p) (measurementIndex p c e)

/-- lazy entry for a two-axis batch: one `multislice_and_detect` per (configuration, row block, column block); the block
results are assembled like the blocks of a 2-d chunked array (`none` if a block fails or never wrote the entry) -/
def lazyEntry2 (step : W → S → W) (detect : W → M) (cX cY : List Nat) (wss : List (List W)) (p : Pot S) (c e : Nat) :
    Option (List (List M)) :=
  let bp := blockPot p (p.configs.getD c [])
  ((splitBy cX wss).mapM fun rb =>
      ((colBlocks cY rb).mapM fun cb =>
          getE (multisliceAndDetect (stepBB step) (detectBB detect) cb bp) (measurementIndex bp 0 e)).map
        fun blocks => hcat rb.length blocks).map List.flatten

/-- `MultisliceTransform._default_ensemble_chunks`: one configuration per chunk, the exit-plane axis in one chunk
(`nens = len(potential.ensemble_shape)`, `nplanes = len(potential.exit_planes)`) -/
def defaultChunks (nens nplanes : Nat) : List Nat :=
  (if dHasEns (nens : Int) then [1] else []) ++ (if dHasPlanes (nplanes : Int) then [nplanes] else [])

end AbtemVerif.Blockwise
