/-
Hand model of the aberration-coefficient bookkeeping of abtem/transfer.py (`_HasAberrations`): the alias / symbol tables, the
insertion-ordered coefficient dict, `__getattr__` / `__setattr__` / `defocus`, the `zip(polar_symbols, values)` that builds
`parameters`, and the `_nonzero_coefficients` guards.  Core Lean only; the alias table and the guard symbol lists are generated
(`Gen/ChiTables.lean`).  Generic in the scalar type so that the same definitions serve the driver (Float) and the theorems (ℝ).
-/
import AbtemVerif.Gen.ChiTables
import AbtemVerif.Model.PolarCoeffs
namespace AbtemVerif.Aberr
open AbtemVerif.Gen.ChiTables

/-- `polar_symbols = {value: key for key, value in polar_aliases.items()}` (insertion ordered) -/
def polarSymbols : List (String × String) := polarAliases.map fun kv => (kv.2, kv.1)
/-- `polar_symbols.keys()` -/
def symbolKeys : List String := polarSymbols.map (·.1)
/-- `polar_aliases.get(name, name)` -/
def resolve (name : String) : String := (polarAliases.lookup name).getD name

/-- Python dict as an insertion-ordered association list with unique keys -/
abbrev Dict (α : Type) := List (String × α)

/-- overwrite the value of an existing key (position kept) -/
def dictReplace {α} (d : Dict α) (k : String) (v : α) : Dict α := d.map (fun kv => if kv.1 == k then (k, v) else kv)

/-- `d[k] = v` -/
def dictSet {α} (d : Dict α) (k : String) (v : α) : Dict α :=
  if d.any (fun kv => kv.1 == k) then dictReplace d k v else d ++ [(k, v)]

/-- `{symbol: 0.0 for symbol in polar_symbols.keys()}` -/
def initDict {α} (zero : α) : Dict α := symbolKeys.map fun s => (s, zero)

/-- `_HasAberrations.__setattr__` for aberration names (`neg` is the generated `c10OfDefocus`, i.e. the body of the `defocus`
setter `self.C10 = -value`); any other name becomes an ordinary object attribute, which is outside this model (`error`). -/
def setAttr {α} (neg : α → α) (d : Dict α) (name : String) (v : α) : Except String (Dict α) :=
  if name == "defocus" then .ok (dictSet d "C10" (neg v))
  else
    let n := resolve name
    if symbolKeys.contains n then .ok (dictSet d n v) else .error "not_an_aberration"

/-- a write as the coefficient dict sees it: a name that is neither alias nor symbol becomes an ordinary object attribute in Python
and leaves the coefficients untouched -/
def setAttrTotal {α} (neg : α → α) (d : Dict α) (name : String) (v : α) : Dict α :=
  match setAttr neg d name v with
  | .ok d' => d'
  | .error _ => d

/-- `set_aberrations(mapping)` for numeric values: `setattr(self, symbol, value)` item by item, in mapping order (the string
"scherzer" special case is outside this model); zero values are written like any other value -/
def setAberrations {α} (neg : α → α) (d : Dict α) (items : List (String × α)) : Dict α :=
  items.foldl (fun d kv => setAttrTotal neg d kv.1 kv.2) d

/-- attribute read: the `defocus` property (`neg` = generated `defocusOfC10`), else `__getattr__` -/
def getAttr {α} (neg : α → α) (zero : α) (d : Dict α) (name : String) : Except String α :=
  if name == "defocus" then .ok (neg ((d.lookup "C10").getD zero))
  else
    let n := resolve name
    if symbolKeys.contains n then .ok ((d.lookup n).getD zero) else .error "attribute_error"

/-- `parameters = dict(zip(polar_symbols, self.aberration_coefficients.values()))` -/
def parameters {α} (d : Dict α) : Dict α := symbolKeys.zip (d.map (·.2))

/-- the record read by the generated chi terms: `parameters["C12"]` ↦ `p.C12` -/
def toCoeffs {α} (zero : α) (d : Dict α) : PolarCoeffs α :=
  PolarCoeffs.ofList zero (PolarCoeffs.fieldNames.map fun s => ((parameters d).lookup s).getD zero)

/-- value of the coefficient called `s` in a record -/
def coeff {α} (zero : α) (p : PolarCoeffs α) (s : String) : α := ((PolarCoeffs.fieldNames.zip p.toList).lookup s).getD zero

/-- `_nonzero_coefficients(symbols)` for scalar coefficients -/
def nonzero {α} (isZero : α → Bool) (zero : α) (p : PolarCoeffs α) (symbols : List String) : Bool :=
  symbols.any fun s => !(isZero (coeff zero p s))

/-- the guarded accumulation of `Aberrations._evaluate_from_angular_grid`: `if guard k: array = array + term k` -/
def guardedFold {α} (terms : List (α → α)) (guards : List Bool) (init : α) : α :=
  (terms.zip guards).foldl (fun acc tg => if tg.2 then tg.1 acc else acc) init

/-- `_has_aberrations`: any coefficient (magnitude or angle) differs from 0 -/
def hasAberrations {α} (isZero : α → Bool) (p : PolarCoeffs α) : Bool := p.toList.any fun v => !(isZero v)

end AbtemVerif.Aberr
