/-
C09 — exact-rational model of atom slicing (abtem/slicing.py) and of the wrap / z-snap of
`_FieldBuilderFromAtoms._prepare_atoms` (abtem/potentials/iam.py), around the generated
expressions of `Gen/Slicing.lean` (number of slices, slice thickness, nudge ε, snap condition,
half-open membership tests).  Core Lean only.
-/
import AbtemVerif.Gen.Slicing
namespace AbtemVerif.Slicing
open AbtemVerif.Gen.Slicing

/-- `np.cumsum` started from `acc` -/
def cumsumFrom (acc : Rat) : List Rat → List Rat
  | [] => []
  | t :: ts => (acc + t) :: cumsumFrom (acc + t) ts

def listSum : List Rat → Rat
  | [] => 0
  | t :: ts => t + listSum ts

/-- `np.isclose(a, b)` with the default `rtol=1e-5, atol=1e-8` -/
def isClose (a b : Rat) : Bool :=
  decide ((if a - b < 0 then b - a else a - b) ≤ 1 / 100000000 + (1 / 100000) * (if b < 0 then -b else b))

/-- explicit sequences: `residual = H - sum(v)`; the last slice absorbs it when that keeps it positive -/
def absorbResidual (v : List Rat) (H : Rat) : List Rat :=
  match v.getLast? with
  | none => v
  | some l => if H - listSum v ≠ 0 ∧ l + (H - listSum v) > 0 then v.dropLast ++ [l + (H - listSum v)] else v

/-- `_validate_slice_thickness(slice_thickness, thickness=H)`: a positive number → `n = ⌈H/d⌉` slices of `H/n`;
a sequence → itself; the sum must be close to `H`. -/
def validateThickness (st : Rat ⊕ List Rat) (H : Rat) : Except String (List Rat) :=
  let v : Except String (List Rat) :=
    match st with
    | .inl d =>
      if d ≤ 0 then .error "value_error"
      else if nSlices H d = 0 then .error "zero_division"
      else .ok (List.replicate (sliceCount H d).toNat (sliceThk H d))
    | .inr l => .ok l
  match v with
  | .error e => .error e
  | .ok v =>
    if !(isClose (listSum v) H) then .error "runtime_error"
    else match st with
      | .inl _ => .ok v
      | .inr _ => .ok (absorbResidual v H)

/-- `slice_limits`: entrance and exit depth of every slice -/
def sliceLimits (ts : List Rat) : List (Rat × Rat) :=
  (List.zip (0 :: cumsumFrom 0 ts) (cumsumFrom 0 ts))

/-- `bin_edges[:-1] -= ε`: every edge but the last (the cell top) is nudged down -/
def nudgeInit (ε : Rat) : List Rat → List Rat
  | [] => []
  | [x] => [x]
  | x :: y :: rest => (x - ε) :: nudgeInit ε (y :: rest)

/-- bin edges of `SliceIndexedAtoms`: cumulative thickness, all but the last nudged down by ε -/
def binEdges (ts : List Rat) : List Rat := nudgeInit nudgeEps (cumsumFrom 0 ts)

def nondecreasing : List Rat → Bool
  | a :: b :: rest => decide (a ≤ b) && nondecreasing (b :: rest)
  | _ => true

def nonincreasing : List Rat → Bool
  | a :: b :: rest => decide (b ≤ a) && nonincreasing (b :: rest)
  | _ => true

/-- `np.digitize(z, edges)` for non-decreasing edges (`right=False`): the number of edges `≤ z` -/
def digitize (edges : List Rat) (z : Rat) : Nat := (edges.filter fun e => decide (e ≤ z)).length

/-- … and for decreasing edges (`bins[i-1] > x ≥ bins[i]`): the number of edges `> z` -/
def digitizeDec (edges : List Rat) (z : Rat) : Nat := (edges.filter fun e => decide (z < e)).length

/-- slice label of an atom at height `z` (positive thicknesses: increasing edges) -/
def label (ts : List Rat) (z : Rat) : Nat := digitize (binEdges ts) z

/-- `SliceIndexedAtoms._slice_index`: for every slice the (sorted) indices of its atoms;
`label_to_index(labels, max_label = n - 1)` silently drops label `n`. numpy rejects edges that are not monotonic and reads
decreasing edges (possible only with negative thicknesses) the other way round. -/
def sliceIndex (ts : List Rat) (zs : List Rat) : Except String (List (List Nat)) :=
  if nondecreasing (binEdges ts) then
    .ok ((List.range ts.length).map fun l => (List.range zs.length).filter fun i => label ts (zs.getD i 0) == l)
  else if nonincreasing (binEdges ts) then
    .ok ((List.range ts.length).map fun l => (List.range zs.length).filter fun i => digitizeDec (binEdges ts) (zs.getD i 0) == l)
  else .error "value_error"

/-- `bin_edges[-1] = np.inf`: nothing lies above the last slice, so the last edge never counts -/
def binEdgesTop (ts : List Rat) : List Rat := (binEdges ts).dropLast

/-- slice label as the code computes it: number of (nudged) interior edges `≤ z` -/
def labelTop (ts : List Rat) (z : Rat) : Nat := digitize (binEdgesTop ts) z

/-- `SliceIndexedAtoms._slice_index`: for every slice the (sorted) indices of its atoms.  With the last edge at +∞ numpy accepts
the edges iff the interior ones are non-decreasing (a decreasing sequence can no longer be monotonic). -/
def sliceIndexTop (ts : List Rat) (zs : List Rat) : Except String (List (List Nat)) :=
  if nondecreasing (binEdgesTop ts) then
    .ok ((List.range ts.length).map fun l => (List.range zs.length).filter fun i => labelTop ts (zs.getD i 0) == l)
  else .error "value_error"

/-- `SlicedAtoms.get_atoms_in_slices(i)` (finite projection): atoms with `a_i - pad ≤ z < b_i + pad` -/
def slicedMembers (ts : List Rat) (pad : Rat) (zs : List Rat) (i : Nat) : Except String (List Nat) :=
  match (sliceLimits ts)[i]? with
  | none => .error "index_error"
  | some (a, b) => .ok ((List.range zs.length).filter fun k =>
      inSliceLo (zs.getD k 0) a b pad && inSliceHi (zs.getD k 0) a b pad)

/-- `atoms.wrap(eps=0)` along z: `z mod H` -/
def wrapZ (H z : Rat) : Rat := z - H * ((z / H).floor : Int)

/-- `_prepare_atoms` (periodic): wrap, then snap heights within 1e-10 below the cell top to 0 -/
def prepareZ (H z : Rat) : Rat :=
  let w := wrapZ H z
  if snapCond w H then 0 else w

end AbtemVerif.Slicing
