/-
Exact (`Rat`) executable semantics of the numpy sequence constructors that abTEM's grid,
scan, axis and distribution code is built on.  Core Lean only (drivers import this file).
Lemmas live in `AbtemVerif/Lib/Linspace.lean`.

`numpy.linspace(start, stop, num, endpoint)` (numpy/_core/function_base.py):

    div   = num - 1 if endpoint else num
    delta = stop - start
    y     = arange(0, num)
    if div > 0:  step = delta / div;  y = y * step          (the `step == 0` branch computes
                                                             (y / div) * delta: same rational)
    else:        step = nan;          y = y * delta         (num = 0, or num = 1 with endpoint)
    y += start
    if endpoint and num > 1:  y[-1] = stop

`num < 0` raises ValueError.  The model follows this text literally (including the overwrite
of the last element); `Lib/Linspace.lean` proves the closed form `start + i * step`.
-/
namespace AbtemVerif.Np

/-- `div` of numpy.linspace -/
def linspaceDiv (num : Nat) (endpoint : Bool) : Nat := if endpoint then num - 1 else num

/-- the step numpy.linspace uses (`retstep`); `0` where numpy reports `nan` (`div = 0`) -/
def linspaceStep (start stop : Rat) (num : Nat) (endpoint : Bool) : Rat :=
  (stop - start) / (linspaceDiv num endpoint : Rat)

/-- numpy.linspace over exact rationals, `num ≥ 0` -/
def linspace (start stop : Rat) (num : Nat) (endpoint : Bool) : List Rat :=
  let div := linspaceDiv num endpoint
  let delta := stop - start
  let y := (List.range num).map fun (i : Nat) =>
    (if div > 0 then (i : Rat) * (delta / (div : Rat)) else (i : Rat) * delta) + start
  if endpoint && decide (num > 1) then y.set (num - 1) stop else y

/-- numpy.linspace with Python's integer `num` (negative → ValueError) -/
def linspaceI (start stop : Rat) (num : Int) (endpoint : Bool) : Except String (List Rat) :=
  if num < 0 then .error "value_error" else .ok (linspace start stop num.toNat endpoint)

/-- `numpy.arange(n)` as rationals -/
def arange (n : Nat) : List Rat := (List.range n).map fun (i : Nat) => (i : Rat)

/-- integer frequency index of position `i` in `numpy.fft.fftfreq(n)`:
`0 … N-1, -(n/2) … -1` with `N = (n-1)/2 + 1` -/
def fftfreqIndex (n i : Nat) : Int :=
  if i < (n - 1) / 2 + 1 then (i : Int) else (i : Int) - (n : Int)

/-- `numpy.fft.fftfreq(n, d)` = `results * (1 / (n * d))`; (`n = 0` raises ZeroDivisionError in
numpy, the model returns the empty list; `d = 0` gives `inf`/`nan` in numpy, `0` here) -/
def fftfreq (n : Nat) (d : Rat) : List Rat :=
  (List.range n).map fun (i : Nat) => (fftfreqIndex n i : Rat) * (1 / ((n : Rat) * d))

/-- `numpy.fft.fftshift` index map on a length-`n` axis: output position `j` reads input
position `(j + n - n/2) % n`, i.e. the output is the input rolled by `n/2` -/
def fftshiftSrc (n j : Nat) : Nat := (j + (n - n / 2)) % n

def fftshift {α} (l : List α) : List α :=
  l.drop (l.length - l.length / 2) ++ l.take (l.length - l.length / 2)

def ifftshift {α} (l : List α) : List α :=
  l.drop (l.length / 2) ++ l.take (l.length / 2)

end AbtemVerif.Np
