/-
C13 — hand model of `PolarMeasurements.integrate` (abtem/measurements.py) around the
generated index expressions (`Gen/PolarIntegrate.lean`).

The measurement is an `nr × na` table of bins; `integrate` selects a Python slice in each
direction and sums.  The model returns the *selected half-open index ranges* (which is
what the property is about) and, for the driver, the sum over an `Int`-valued table.
-/
import AbtemVerif.Gen.PolarIntegrate
namespace AbtemVerif.Polar
open AbtemVerif.Gen.PolarIntegrate

/-- Python `slice(a, b).indices(n)` for step 1: the half-open range actually selected. -/
def pySlice (a b : Int) (n : Nat) : Nat × Nat :=
  let clamp (i : Int) : Nat := if i < 0 then (i + n).toNat else min i.toNat n
  (clamp a, clamp b)

structure Params where
  radial_offset : Rat
  radial_sampling : Rat
  azimuthal_offset : Rat
  azimuthal_sampling : Rat

/-- selected ranges `(rStart, rStop, aStart, aStop)` or the RuntimeError of the code -/
def select (p : Params) (nr na : Nat) (rl al : Option (Rat × Rat)) : Except String (Nat × Nat × Nat × Nat) :=
  let lim0 := (rl.getD (0, 0)).1
  let lim1 := (rl.getD (0, 0)).2
  let az0 := (al.getD (0, 0)).1
  let az1 := (al.getD (0, 0)).2
  let inner := innerIndex lim0 lim1 az0 az1 p.radial_offset p.radial_sampling p.azimuthal_offset p.azimuthal_sampling
  let outer := outerIndex lim0 lim1 az0 az1 p.radial_offset p.radial_sampling p.azimuthal_offset p.azimuthal_sampling
  let left := leftIndex lim0 lim1 az0 az1 p.radial_offset p.radial_sampling p.azimuthal_offset p.azimuthal_sampling
  let right := rightIndex lim0 lim1 az0 az1 p.radial_offset p.radial_sampling p.azimuthal_offset p.azimuthal_sampling
  if rl.isSome && radialExceeded inner outer left right nr na then .error "runtime_error"
  else
    let r := if rl.isSome then pySlice (radialLo inner outer left right nr na) (radialHi inner outer left right nr na) nr else (0, nr)
    let a := if al.isSome then pySlice (azimuthalLo inner outer left right nr na) (azimuthalHi inner outer left right nr na) na else (0, na)
    .ok (r.1, r.2, a.1, a.2)

/-- sum of `f i` for `a ≤ i < b` -/
def sumRange (f : Nat → Int) (a b : Nat) : Int :=
  ((List.range (b - a)).map fun k => f (a + k)).foldl (· + ·) 0

def integrate (p : Params) (nr na : Nat) (bins : Nat → Nat → Int) (rl al : Option (Rat × Rat)) : Except String Int :=
  (select p nr na rl al).map fun (r0, r1, a0, a1) => sumRange (fun i => sumRange (fun j => bins i j) a0 a1) r0 r1

end AbtemVerif.Polar
