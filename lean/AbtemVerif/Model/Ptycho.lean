/-
C28 — hand model of the index and position bookkeeping of `abtem/reconstruct.py`:

* `_wrapped_indices_2D_window`  → `wrappedWindow` (numpy `round` = round-half-to-even, then the generated
  `windowOrigin`, `rowIndex`, `colIndex` expressions over `range n`);
* `AbstractPtychographicOperator._calculate_scan_positions_in_pixels` → `scanPositions` (list plumbing: raster /
  explicit branch, `ptp`, `meshgrid(indexing="ij")` + `ravel`, column minimum, padding) around the generated
  `rasterX/Y`, `centreX/Y`, `rotate` expressions.  `cos`/`sin` of the rotation angle enter as the pair `(c, s)`.

Outside the model: `sampling = 0` and zero array extents (numpy produces inf/nan or warnings, not exceptions).
-/
import AbtemVerif.Gen.Ptycho
namespace AbtemVerif.Ptycho
open AbtemVerif.Gen.Ptycho

/-- numpy `round` / `rint`: nearest integer, ties to the even one -/
def roundHalfEven (x : Rat) : Int :=
  let f := x.floor
  let r := x - f
  if r < 1 / 2 then f else if 1 / 2 < r then f + 1 else if f % 2 = 0 then f else f + 1

/-- `_wrapped_indices_2D_window(center, (nx, ny), (sx, sy))`: the two index vectors handed to `np.ix_` -/
def wrappedWindow (cx cy : Rat) (nx ny sx sy : Nat) : List Int × List Int :=
  let o := windowOrigin (roundHalfEven cx) (roundHalfEven cy) nx ny
  ((List.range nx).map fun (i : Nat) => rowIndex o.1 (i : Int) sx, (List.range ny).map fun (i : Nat) => colIndex o.2 (i : Int) sy)

/-- `fractional_position - old_fractional_position` of `_overlap_projection`: the sub-pixel shift applied to the probe when the
scan moves from `old` to `pos` (one coordinate); `x - np.round(x)` is the fractional part in `[-1/2, 1/2]` -/
def subpixelShift (pos old : Rat) : Rat := probeShift pos old (roundHalfEven pos) (roundHalfEven old)

/-- Net sub-pixel displacement of the stored probe over one sweep of `reconstruct()`: the sweep starts with
`old_position = round(object_px_padding)` (generated `sweepStart`), every visited position (skipped empty patterns are not
visited) shifts the probe by `subpixelShift pos old`, and the sweep ends with `fft_shift(probes, round(old) − old)`
(generated `shiftBack`) for the last position the probe was moved to. -/
def sweepNetShift (pad : Rat) (visited : List Rat) : Rat :=
  let start := sweepStart (roundHalfEven pad)
  let r := visited.foldl (fun (acc : Rat × Rat) p => (acc.1 + subpixelShift p acc.2, p)) ((0 : Rat), start)
  r.1 + shiftBack r.2 (roundHalfEven r.2)

/-! ### scan positions -/

structure ScanParams where
  gridShape : Option (Nat × Nat)
  stepSizes : Option (Rat × Rat)
  /-- `(cos θ, sin θ)` of `rotation_angle`, `none` when the angle is `None` -/
  rotation : Option (Rat × Rat)
  padding : Option (Rat × Rat)

def listMin : List Rat → Rat
  | [] => 0
  | x :: xs => xs.foldl min x

def listMax : List Rat → Rat
  | [] => 0
  | x :: xs => xs.foldl max x

/-- `np.ptp` (peak to peak) -/
def ptp (l : List Rat) : Rat := listMax l - listMin l

/-- `np.meshgrid(x, y, indexing="ij")` followed by `ravel` of both: row-major pairs -/
def meshPairs (xs ys : List Rat) : List (Rat × Rat) :=
  xs.flatMap fun x => ys.map fun y => (x, y)

/-- the coordinate pairs before rotation: raster scans are the full grid, explicit positions stay paired -/
def pairUp (explicit : Bool) (xs ys : List Rat) : List (Rat × Rat) :=
  if explicit then xs.zip ys else meshPairs xs ys

/-- positions in pixels and the padding written back to the parameters; errors are the Python exception kinds -/
def scanPositions (positions : Option (List (Rat × Rat))) (sampling : Rat × Rat) (roi : Nat × Nat) (ep : ScanParams) :
    Except String (List (Rat × Rat) × (Rat × Rat)) := do
  let (xs, ys) ←
    match positions with
    | none =>
      match ep.gridShape with
      | none => .error "value_error"
      | some (nx, ny) =>
        match ep.stepSizes with
        | none => .error "value_error"
        | some (sx, sy) =>
          pure ((List.range nx).map (fun (i : Nat) => rasterX (i : Rat) sx), (List.range ny).map (fun (i : Nat) => rasterY (i : Rat) sy))
    | some ps => pure (ps.map Prod.fst, ps.map Prod.snd)
  -- `np.ptp` of an empty array raises ValueError
  if xs.isEmpty || ys.isEmpty then .error "value_error" else
  let px := ptp xs
  let py := ptp ys
  let xs' := xs.map fun x => centreX x px sampling.1
  let ys' := ys.map fun y => centreY y py sampling.2
  let pairs : List (Rat × Rat) := pairUp positions.isSome xs' ys'
  let pairs : List (Rat × Rat) := match ep.rotation with
    | none => pairs
    | some (c, s) => pairs.map fun (p : Rat × Rat) => rotate p.1 p.2 c s
  let mx := listMin (pairs.map Prod.fst)
  let my := listMin (pairs.map Prod.snd)
  let pad : Rat × Rat := match ep.padding with
    | none => ((roi.1 : Rat) / 2, (roi.2 : Rat) / 2)
    | some p => p
  pure (pairs.map fun (p : Rat × Rat) => (p.1 - mx + pad.1, p.2 - my + pad.2), pad)

end AbtemVerif.Ptycho
