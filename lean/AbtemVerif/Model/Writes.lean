/-
C32 — reading of the generated write-set tables (`Gen/Writes.lean`, produced by tools/py2lean_writes.py from the
current source): for each function / method the list of statements that write through a caller-owned name.
Core Lean only.
-/
namespace AbtemVerif.Writes

/-- functions of the table whose write list is not empty -/
def offenders (tbl : List (String × List String)) : List String :=
  (tbl.filter fun r => !r.2.isEmpty).map (·.1)

def writesOf (tbl : List (String × List String)) (f : String) : Option (List String) :=
  (tbl.find? fun r => r.1 == f).map (·.2)

end AbtemVerif.Writes
