import AbtemVerif.Gen.Build
/-
C10 — orchestration model of potential building and slice windows
(abtem/potentials/iam.py: `BaseField._exit_plane_after`, `_validate_exit_planes`,
`_FieldBuilderFromAtoms.generate_slices`, `FieldArray.generate_slices`,
`CrystalPotential.generate_slices`, `_FieldBuilder.build` eager and lazy).

Pattern A: the numeric kernels are *parameters* of the model
  `kern  : Nat → V`        the integrator's result for slice `idx` of one configuration
  `unit  : Nat → Nat → V`  slice `j` of configuration `c` of a crystal's potential unit
  `tile  : V → V`          lateral tiling of a slice
  `draw  : Nat → Nat`      the r-th draw of the crystal's RNG stream
and the model mirrors the control flow / index bookkeeping around them.  `V` is the type
of slice arrays, `T` the type of thickness entries.  Core Lean only.
-/
namespace AbtemVerif.Build
open AbtemVerif.Gen.Build

instance {ε α} [DecidableEq ε] [DecidableEq α] : DecidableEq (Except ε α)
  | .ok a, .ok b => if h : a = b then isTrue (by rw [h]) else isFalse (by intro h'; cases h'; exact h rfl)
  | .error a, .error b => if h : a = b then isTrue (by rw [h]) else isFalse (by intro h'; cases h'; exact h rfl)
  | .ok _, .error _ => isFalse (by intro h; cases h)
  | .error _, .ok _ => isFalse (by intro h; cases h)

/-- Python `range(a, b)` for `a ≥ 0`. -/
def pyRange (a : Nat) (b : Int) : List Nat :=
  if b ≤ (a : Int) then [] else List.range' a (b.toNat - a)

/-- Python `xs[i:i+1]` for `i ≥ 0`: a one-element list, or `[]` past the end. -/
def at1 {α} (xs : List α) (i : Nat) : List α := xs.extract i (i + 1)

/-- Python `xs[a:b]` for `a ≥ 0` (stop clamped, negative stop counted from the end). -/
def pySlice {α} (xs : List α) (a : Nat) (b : Int) : List α :=
  let stop : Nat := if b < 0 then (b + xs.length).toNat else b.toNat
  xs.extract a stop

/-- `tuple(np.where(flags)[0])` -/
def whereTrue (flags : List Bool) : List Nat :=
  (List.range flags.length).filter fun i => flags.getD i false

def strictlyIncreasing : List Int → Bool
  | a :: b :: rest => decide (a < b) && strictlyIncreasing (b :: rest)
  | _ => true

/-- `_validate_exit_planes(exit_planes, num_slices)`; `spec` is `none`, an `int` or a tuple. -/
def validateExitPlanes (spec : Option (Int ⊕ List Int)) (n : Nat) : Except String (List Int) :=
  match spec with
  | none => .ok [(n : Int) - 1]
  | some (.inr t) =>
    -- explicit tuples must be strictly increasing slice indices between -1 (entrance plane) and n - 1
    if !(strictlyIncreasing t) || (match t with | [] => false | a :: _ => decide (a < -1))
        || (match t.getLast? with | none => false | some l => decide (l ≥ (n : Int))) then .error "value_error" else .ok t
  | some (.inl e) =>
    if e ≥ (n : Int) then .ok [(n : Int) - 1]
    else if e = 0 then .error "value_error"            -- range() arg 3 must not be zero
    else if e < 0 then .error "index_error"            -- range with a negative step is empty; `exit_planes[-1]`
    else
      -- list(range(e - 1, n, e))
      let cnt := ((n : Int) - (e - 1) + e - 1) / e
      let l := (List.range cnt.toNat).map fun (k : Nat) => e - 1 + (k : Int) * e
      match l.getLast? with
      | none => .error "index_error"
      | some lastv =>
        let l := if lastv ≠ (n : Int) - 1 then l ++ [(n : Int) - 1] else l
        .ok ((-1) :: l)

/-- `BaseField._exit_plane_after`: one flag per slice; a flag is set when the slice index equals
the next not yet consumed entry of `exit_planes` (a leading `-1` is skipped). -/
def exitPlaneAfter (eps : List Int) (n : Nat) : Except String (List Bool) :=
  match eps with
  | [] => .error "index_error"
  | e0 :: _ =>
    let k0 : Nat := if e0 = -1 then 1 else 0
    .ok ((List.range n).foldl (fun (acc : List Bool × Nat) (i : Nat) =>
        if acc.2 < eps.length && ((i : Int) == eps.getD acc.2 0)
        then (acc.1 ++ [true], acc.2 + 1) else (acc.1 ++ [false], acc.2)) ([], k0)).1

/-- one yielded one-slice potential array -/
structure Slice (V T : Type) where
  val : V
  /-- `self.slice_thickness[start:stop]` -/
  thickness : List T
  /-- `tuple(np.where(exit_plane_after[start:stop])[0])` : `[0]` when an exit plane follows, else `[]` -/
  exits : List Nat
deriving Repr, DecidableEq

/-- the one-slice array object built for global slice index `g` with array value `v` -/
def mkSlice {V T} (ts : List T) (flags : List Bool) (g : Nat) (v : V) : Slice V T :=
  ⟨v, at1 ts g, whereTrue (at1 flags g)⟩

/-- `_FieldBuilderFromAtoms.generate_slices(first_slice, last_slice)` of ONE configuration:
`generate_chunks(last - first, chunks=1, start=first)` yields `(idx, idx+1)` for `idx` in
`range(first, last)`; an index past the last slice fails in `get_atoms_in_slices` (IndexError). -/
def genAtoms {V T} (ts : List T) (flags : List Bool) (kern : Nat → V) (first : Nat) (last : Option Int) :
    Except String (List (Slice V T)) :=
  let last : Int := last.getD ts.length
  -- `equal_sized_chunks` of a negative count fails its `assert sum(chunks) == num_items`
  -- `generate_chunks(atomsCount, chunks=1, start=atomsStart)` (generated arguments): chunks `(idx, idx+1)`
  if atomsCount first last < 0 then .error "assertion_error" else
  (List.range' (atomsStart first last).toNat (atomsCount first last).toNat).mapM fun idx =>
    if idx < ts.length then .ok (mkSlice ts flags idx (kern idx)) else .error "index_error"

/-- `FieldArray.generate_slices(first_slice, last_slice)`; `arr` are the slices of ensemble member 0
(`s = (0,) * (ndim - 3) + (i,)`). -/
def genArray {V T} (ts : List T) (flags : List Bool) (arr : List V) (first : Nat) (last : Option Int) :
    Except String (List (Slice V T)) :=
  let last : Int := last.getD ts.length
  (pyRange first last).mapM fun i =>
    match arr[i]? with
    | some v => .ok (mkSlice ts flags i v)
    | none => .error "index_error"

/-- inner loop of `CrystalPotential.generate_slices` over the slices `j` of one repetition `r`, threading the
running global slice counter `g`; yields only inside the window. -/
def crystalInner {V T} (uts : List T) (flags : List Bool) (unit : Nat → Nat → V) (tile : V → V)
    (first : Nat) (last : Int) (c : Nat) : List Nat → Nat → List (Slice V T) × Nat
  | [], g => ([], g)
  | j :: js, g =>
    -- the thickness is the one carried by the unit's own slice `j` (`tile` keeps it), the flag that of the
    -- crystal's global slice `g`
    -- generated: window test `first_slice <= slice_idx < last_slice`, flag slice `[slice_idx : slice_idx + 1]`
    let here := if crystalInWindow first g last
      then [⟨tile (unit c j), at1 uts j, whereTrue (flags.extract (crystalFlagLo first g last).toNat (crystalFlagHi first g last).toNat)⟩]
      else []
    let (rest, g') := crystalInner uts flags unit tile first last c js (g + 1)
    (here ++ rest, g')

/-- outer loop over the repetitions along z: one RNG draw per repetition (also for repetitions in front of
the window), stop once the counter has reached `last`. -/
def crystalOuter {V T} (uts : List T) (flags : List Bool) (draw : Nat → Nat) (unit : Nat → Nat → V)
    (tile : V → V) (first : Nat) (last : Int) : List Nat → Nat → List (Slice V T)
  | [], _ => []
  | r :: rs, g =>
    let (ys, g') := crystalInner uts flags unit tile first last (draw r) (List.range uts.length) g
    if crystalStop first g' last then ys else ys ++ crystalOuter uts flags draw unit tile first last rs g'

/-- slice thicknesses of the crystal: `potential_unit.slice_thickness * repetitions[2]` -/
def crystalThickness {T} (uts : List T) (reps : Nat) : List T := (List.replicate reps uts).flatten

/-- `CrystalPotential.generate_slices(first_slice, last_slice)`; `uts` are the unit's slice thicknesses, `flags` the
exit-plane flags of the whole crystal (`uts.length * reps` slices). -/
def genCrystal {V T} (uts : List T) (flags : List Bool) (reps : Nat) (draw : Nat → Nat) (unit : Nat → Nat → V)
    (tile : V → V) (first : Nat) (last : Option Int) : List (Slice V T) :=
  let last : Int := last.getD ((uts.length * reps : Nat) : Int)
  crystalOuter uts flags draw unit tile first last (List.range reps) 0

/-- `_exit_planes_of_selection(self.exit_planes, range(n)[first:last], n)` followed by the array object's own
`_validate_exit_planes`: the planes inside the window shifted to it, the entrance plane kept when the window starts at slice 0,
the last slice of the window when nothing (or nothing increasing) is left.  `exit_planes[0]` of an empty tuple → IndexError. -/
def windowExit (eps : List Int) (n first : Nat) (last : Int) (width : Int) : Except String (List Int) :=
  match eps with
  | [] => .error "index_error"
  | e0 :: _ =>
    let stop : Nat := min (if last < 0 then (last + n).toNat else last.toNat) n
    let inside := (eps.filter fun p => decide ((first : Int) ≤ p) && decide (p < (stop : Int))).map (· - (first : Int))
    let planes := if e0 = -1 ∧ first < stop ∧ first = 0 then (-1) :: inside else inside
    .ok (if planes.isEmpty || !(strictlyIncreasing planes) then [width - 1] else planes)

/-- result of `build`: one row per ensemble member (a single row without ensemble axes); `none` marks an entry of
the zero-initialised array that was never written -/
structure Built (V T : Type) where
  rows : List (List (Option V))
  thickness : List T
  exitPlanes : List Int
deriving Repr, DecidableEq

/-- `array[i + (j,)] = slic.array[0]` for `j, slic in enumerate(slices)` into a zero row of length `width` -/
def writeRow {V} (width : Nat) (vals : List V) : Except String (List (Option V)) :=
  if vals.length ≤ width then .ok (vals.map some ++ List.replicate (width - vals.length) none)
  else .error "index_error"

/-- one row of the eager build: `for j, slic in enumerate(block.generate_slices(first, last)): array[i + (j,)] = slic.array[0]` -/
def eagerRow {V T} (width : Nat) (slicesOf : Nat → Except String (List (Slice V T))) (c : Nat) :
    Except String (List (Option V)) := do
  let sl ← slicesOf c
  writeRow width (sl.map fun s => s.val)

/-- eager branch of `_FieldBuilder.build(first_slice, last_slice)`.
`slicesOf c` is `generate_slices(first, last)` of ensemble block `c`; `blocks` are the block indices produced by
`generate_blocks(1)` (`[0]` for a potential without ensemble axes, `[0, …, k-1]` for `k` configurations);
block `c` is written to row `c`. -/
def buildEager {V T} (ts : List T) (eps : List Int) (blocks : List Nat)
    (slicesOf : Nat → Except String (List (Slice V T))) (first : Nat) (last : Option Int) : Except String (Built V T) := do
  let last : Int := last.getD ts.length
  -- `xp.zeros(ensemble_shape + (last_slice - first_slice,) + gpts)`: generated `eagerWidth`
  if eagerWidth first last < 0 then throw "value_error"       -- np.zeros with a negative dimension
  let width := (eagerWidth first last).toNat
  let rows ← blocks.mapM (eagerRow width slicesOf)
  let th := pySlice ts first last
  let planes ← windowExit eps ts.length first last (eagerWidth first last)
  if th.length ≠ width then throw "runtime_error"    -- _validate_slice_thickness(num_slices=array.shape[-3])
  return ⟨rows, th, planes⟩

/-- one task of the lazy build (`_wrap_build_potential`): the eager build of the one-member potential of block `c`;
its single row is what dask places at position `c`. -/
def lazyBlockRow {V T} (ts : List T) (eps : List Int) (slicesOf : Nat → Except String (List (Slice V T)))
    (first : Nat) (last : Option Int) (c : Nat) : Except String (List (Option V)) := do
  let b ← buildEager ts eps [0] (fun _ => slicesOf c) first last
  match b.rows with
  | [row] => pure row
  | _ => throw "runtime_error"

/-- lazy branch: `da.map_blocks(_wrap_build_potential, blocks, chunks = ensemble chunks + (last - first,) + gpts)`;
every block runs the eager build of its own one-member potential and dask places block `c` at position `c`. -/
def buildLazy {V T} (ts : List T) (eps : List Int) (blocks : List Nat)
    (slicesOf : Nat → Except String (List (Slice V T))) (first : Nat) (last : Option Int) : Except String (Built V T) := do
  let lastI : Int := last.getD ts.length
  let th := pySlice ts first lastI
  -- the output array object (declared chunk shape `… + (last_slice - first_slice,) + gpts`: generated `lazyWidth`) is
  -- validated before anything is computed
  let planes ← windowExit eps ts.length first lastI (lazyWidth first lastI)
  if (th.length : Int) ≠ lazyWidth first lastI then throw "runtime_error"
  let rows ← blocks.mapM (lazyBlockRow ts eps slicesOf first last)
  return ⟨rows, th, planes⟩

end AbtemVerif.Build
