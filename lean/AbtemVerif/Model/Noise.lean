/-
C31 — hand model (Pattern A, uninterpreted RNG) of Poisson noise in abTEM:
`NoiseTransform.__init__/_calculate_new_array` (abtem/noise.py), applied eagerly (one call on the whole
array) or lazily (`ArrayObject.apply_transform` → one call per block of dose chunk × sample chunk × array chunk,
the transform being rebuilt for every block from its partitioned distributions).

The measurement is a list of `n` ensemble items with `p` pixels each (base axes flattened, one ensemble axis);
results are indexed `[dose][sample][item][pixel]`, scalar dose / scalar seed giving an axis of length one
(the real arrays simply lack that axis).

RNG kernels (`Kernels`) are parameters: `deriveSeeded s key` stands for
`int(np.random.default_rng(np.random.SeedSequence(s, spawn_key=key)).integers(2**31-1))`, `deriveEntropy e` for the same
call with `seed=None` (fresh OS entropy, distinguished per call by `e`), and `sample k rates` for
`np.random.RandomState(k).poisson(rates)` on the C-order flattened block.
-/
import AbtemVerif.Model.Partition
namespace AbtemVerif.Noise
open AbtemVerif.Partition

structure Kernels where
  deriveSeeded : Int → List Nat → Int
  deriveEntropy : Nat → Int
  sample : Int → List Rat → List Int

/-- `self.seeds`: an int / None (no sample axis) or a distribution with one seed per sample -/
inductive Seeds where
  | scalar (s : Option Int)
  | dist (vals : List Int)
  deriving Repr

/-- `self.dose`: a number or a distribution of doses (Dose axis) -/
inductive Dose where
  | scalar (d : Rat)
  | dist (vals : List Rat)
  deriving Repr

abbrev Arr4 (α : Type) := List (List (List (List α)))

/-- `seed = sum(self.seeds.values)` for a distribution, the int / None otherwise -/
def Seeds.seed : Seeds → Option Int
  | .scalar s => s
  | .dist vs => some vs.sum

/-- length of the sample axis (`self.samples`) -/
def Seeds.count : Seeds → Nat
  | .scalar _ => 1
  | .dist vs => vs.length

def Dose.values : Dose → List Rat
  | .scalar d => [d]
  | .dist vs => vs

/-- `randomized_seed`: the seed handed to `RandomState` -/
def Kernels.derive (K : Kernels) (seed : Option Int) (key : List Nat) (entropy : Nat) : Int :=
  match seed with
  | some s => K.deriveSeeded s key
  | none => K.deriveEntropy entropy

/-- `spawn_key = tuple(block_id) if any(block_id) else ()`: the position of the block in the lazy array; the first block
(and an eager call, which has no block position) uses the seed as it is -/
def blockKey (ids : List Nat) : List Nat := if ids.all (· == 0) then [] else ids

/-- `np.clip(array * dose, 0, None)` after tiling over the samples: the Poisson rates, `[dose][sample][item][pixel]` -/
def rates (seeds : Seeds) (dose : Dose) (items : List (List Rat)) : Arr4 Rat :=
  dose.values.map fun d => (List.replicate seeds.count items).map fun its => its.map fun it => it.map fun x => max (x * d) 0

def flat4 {α} (a : Arr4 α) : List α := a.flatten.flatten.flatten

/-- C-order reshape of the sampler's flat output to `(nd, ns, n, p)` -/
def reshape4 (nd ns n p : Nat) (flat : List Int) : Arr4 Int :=
  (List.range nd).map fun d => (List.range ns).map fun s => (List.range n).map fun i => (List.range p).map fun j =>
    flat.getD (((d * ns + s) * n + i) * p + j) 0

def pixels (items : List (List Rat)) : Nat := (items.head?.map List.length).getD 0

/-- one call of `NoiseTransform._calculate_new_array` -/
def calcBlock (K : Kernels) (seeds : Seeds) (dose : Dose) (key : List Nat) (entropy : Nat) (items : List (List Rat)) : Arr4 Int :=
  reshape4 dose.values.length seeds.count items.length (pixels items)
    (K.sample (K.derive seeds.seed key entropy) (flat4 (rates seeds dose items)))

/-- eager evaluation: one call on the whole array -/
def eager (K : Kernels) (seeds : Seeds) (dose : Dose) (entropy : Nat) (items : List (List Rat)) : Arr4 Int :=
  calcBlock K seeds dose [] entropy items

/-! ### lazy evaluation -/

structure Chunking where
  dose : List Nat
  samples : List Nat
  items : List Nat
  /-- number of base axes of the measurement (each contributes a block index 0 to the block position) -/
  baseDims : Nat := 2

def Seeds.blocks : Seeds → List Nat → List Seeds
  | .scalar s, _ => [.scalar s]
  | .dist vs, cs => (splitBy cs vs).map .dist

def Dose.blocks : Dose → List Nat → List Dose
  | .scalar d, _ => [.scalar d]
  | .dist vs, cs => (splitBy cs vs).map .dist

/-- Rebuilding the transform for one block, `NoiseTransform(dose=block, samples=<self.samples of the whole transform>, seeds=block)`,
follows the branches of `NoiseTransform.__init__`:
* an int / None seed with `samples == 1` is kept;
* a block of the (already validated) seed distribution is accepted as it is — the branch added by fix 7971a31d;
* an int / None seed with `samples > 1` would draw `samples` new seeds (`validate_seeds`); blocks never get there because a
  scalar seed means `self.samples == 1`; it is an error of the model. -/
def rebuild (samples : Nat) : Seeds → Except String Seeds
  | .scalar s => if samples = 1 then .ok (.scalar s) else .error "draws_new_seeds"
  | .dist vs => .ok (.dist vs)

/-- the same constructor before fix 7971a31d: a distribution went through `validate_seeds(seeds, samples)`, which asserts
`samples == len(seeds)` — false for every proper block of the sample axis -/
def rebuildPreFix (samples : Nat) : Seeds → Except String Seeds
  | .scalar s => if samples = 1 then .ok (.scalar s) else .error "draws_new_seeds"
  | .dist vs => if vs.length = samples then .ok (.dist vs) else .error "assertion_error"

/-- concatenation of the block results along the dose, sample and item axes; `blk a b c D S I` is the result of the
block with chunk indices `(a, b, c)` -/
def assemble (dB : List Dose) (sB : List Seeds) (iB : List (List (List Rat)))
    (blk : Nat → Nat → Nat → Dose → Seeds → List (List Rat) → Arr4 Int) : Arr4 Int :=
  (dB.zipIdx.map fun Da => (List.range Da.1.values.length).map fun d' =>
    (sB.zipIdx.map fun Sb => (List.range Sb.1.count).map fun s' =>
      (iB.zipIdx.map fun Ic => ((blk Da.2 Sb.2 Ic.2 Da.1 Sb.1 Ic.1).getD d' []).getD s' []).flatten).flatten).flatten

/-- dask's `block_id` of the block with chunk indices `(a, b, c)`: one index per existing axis (Dose axis, Sample axis,
ensemble axis of the measurement, base axes) -/
def blockId (seeds : Seeds) (dose : Dose) (baseDims a b c : Nat) : List Nat :=
  (match dose with | .dist _ => [a] | .scalar _ => []) ++ (match seeds with | .dist _ => [b] | .scalar _ => []) ++ [c]
    ++ List.replicate baseDims 0

/-- lazy evaluation: blocks in row-major order (dose chunk, sample chunk, array chunk); block `t` sees entropy `ent t`.
The result is assembled along the three chunked axes. -/
def lazyEval (K : Kernels) (seeds : Seeds) (dose : Dose) (ch : Chunking) (ent : Nat → Nat) (items : List (List Rat)) :
    Except String (Arr4 Int) :=
  match (seeds.blocks ch.samples).mapM (rebuild seeds.count) with
  | .error e => .error e
  | .ok sB =>
    .ok <| assemble (dose.blocks ch.dose) sB (splitBy ch.items items) fun a b c D S I =>
      calcBlock K S D (blockKey (blockId seeds dose ch.baseDims a b c))
        (ent ((a * sB.length + b) * (splitBy ch.items items).length + c)) I

/-! ### measurement classes -/

/-- the measurement classes `poisson_noise` is defined on (`BaseMeasurements` subclasses) -/
inductive MeasClass where
  | images | diffractionPatterns | polarMeasurements | realSpaceLineProfiles | reciprocalSpaceLineProfiles
  | measurementsEnsemble | indexedDiffractionPatterns
  deriving DecidableEq, Repr

/-- number of base axes -/
def MeasClass.baseDims : MeasClass → Nat
  | .images | .diffractionPatterns | .polarMeasurements => 2
  | .realSpaceLineProfiles | .reciprocalSpaceLineProfiles | .indexedDiffractionPatterns => 1
  | .measurementsEnsemble => 0

/-- `ArrayObject.apply_transform` ends with `cls.from_array_and_metadata(array, axes_metadata, metadata)`.
`IndexedDiffractionPatterns` defines it as an *instance* method that raises NotImplementedError (its Miller indices are not
part of the axes metadata), so the class-level call fails with TypeError for every transform, eager or lazy. -/
def MeasClass.rebuildable : MeasClass → Bool
  | .indexedDiffractionPatterns => false
  | _ => true

/-- eager `poisson_noise` on a measurement of class `cls` -/
def noiseOn (K : Kernels) (cls : MeasClass) (seeds : Seeds) (dose : Dose) (entropy : Nat) (items : List (List Rat)) :
    Except String (Arr4 Int) :=
  if cls.rebuildable then .ok (eager K seeds dose entropy items) else .error "type_error"

/-- lazy `poisson_noise` on a measurement of class `cls` (its number of base axes enters the block positions) -/
def lazyNoiseOn (K : Kernels) (cls : MeasClass) (seeds : Seeds) (dose : Dose) (cd cs ci : List Nat) (ent : Nat → Nat)
    (items : List (List Rat)) : Except String (Arr4 Int) :=
  if cls.rebuildable then lazyEval K seeds dose ⟨cd, cs, ci, cls.baseDims⟩ ent items else .error "type_error"

/-! ### the tagging kernels used by the driver (mirrored by the harness' fake `np.random`) -/

def tagK : Kernels where
  deriveSeeded := fun s key => (s * 7919 + 104729 + ((key.foldl (fun acc k => acc * 31 + k + 1) 0 : Nat) : Int)) % 2147483647
  deriveEntropy := fun e => 1000003 + e
  sample := fun k rs => rs.zipIdx.map fun (r, idx) => r.floor + (k + 3 * (idx : Int)) % 7

end AbtemVerif.Noise
