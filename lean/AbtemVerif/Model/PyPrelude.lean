/-
Python/numpy scalar semantics used by generated definitions (exact `Rat`/`Int` and `Float`).
Core Lean only.
-/
namespace AbtemVerif.Py

/-- Python `int(x)` on a real number: truncation toward zero. -/
def pyInt (x : Rat) : Int := if 0 ≤ x then x.floor else x.ceil
def pyFloor (x : Rat) : Int := x.floor
def pyCeil (x : Rat) : Int := x.ceil
def pyAbs (x : Rat) : Rat := if 0 ≤ x then x else -x
/-- numpy `clip(x, lo, hi)` = `minimum(maximum(x, lo), hi)` -/
def pyClip (x lo hi : Rat) : Rat := min (max x lo) hi

/-- Python `//` and `%` on integers (floor semantics). -/
def pyFloorDiv (a b : Int) : Int := Int.fdiv a b
def pyMod (a b : Int) : Int := Int.fmod a b

/-- Python `range(n)` as a list of ints (empty for `n ≤ 0`). -/
def pyRange (n : Int) : List Int := (List.range n.toNat).map Int.ofNat
/-- Python sequence repetition `xs * n` (empty for `n ≤ 0`). -/
def pyRepeat {α : Type} (xs : List α) (n : Int) : List α := (List.replicate n.toNat xs).flatten

def pyIntF (x : Float) : Int :=
  let t := if x < 0 then x.ceil else x.floor
  if t < 0 then -((-t).toUInt64.toNat : Int) else (t.toUInt64.toNat : Int)
def pyMinF (a b : Float) : Float := if b < a then b else a
def pyMaxF (a b : Float) : Float := if a < b then b else a
def pyClipF (x lo hi : Float) : Float := pyMinF (pyMaxF x lo) hi

end AbtemVerif.Py
