/-
C25 — executable (core Lean, exact `Rat`) parts of the parametrization checks: coefficient-list polynomials, table-entry
accessors, the coefficient hypotheses that are discharged for whole tables by `decide +kernel`, and the numerator /
denominator polynomials of the Lobato rational forms.  Evaluation over ℝ and all lemmas are in `Lib/ListPoly.lean`.
-/
namespace AbtemVerif.ListPoly

def padd : List Rat → List Rat → List Rat
  | [], q => q
  | p, [] => p
  | a :: p, b :: q => (a + b) :: padd p q

def psmul (c : Rat) (p : List Rat) : List Rat := p.map (c * ·)

def pmul : List Rat → List Rat → List Rat
  | [], _ => []
  | a :: p, q => padd (psmul a q) (0 :: pmul p q)

/-- all coefficients non-negative -/
def nonnegCoeffs (p : List Rat) : Bool := p.all fun a => decide (0 ≤ a)

/-- all coefficients non-negative and the constant term positive -/
def posCoeffs : List Rat → Bool
  | [] => false
  | a :: p => decide (0 < a) && nonnegCoeffs p

end AbtemVerif.ListPoly

namespace AbtemVerif.Param
open AbtemVerif.ListPoly

/-- entry `[i][j]` of a table row (0 outside the shape, which then fails every positivity hypothesis) -/
def g (e : List (List Rat)) (i j : Nat) : Rat := (e.getD i []).getD j 0

/-- all ten coefficients of a `2 × 5` entry positive -/
def pos10 (e : List (List Rat)) : Bool :=
  decide (0 < g e 0 0) && decide (0 < g e 0 1) && decide (0 < g e 0 2) && decide (0 < g e 0 3) && decide (0 < g e 0 4) &&
  decide (0 < g e 1 0) && decide (0 < g e 1 1) && decide (0 < g e 1 2) && decide (0 < g e 1 3) && decide (0 < g e 1 4)

/-- all twelve coefficients of a `4 × 3` entry positive -/
def pos12 (e : List (List Rat)) : Bool :=
  decide (0 < g e 0 0) && decide (0 < g e 0 1) && decide (0 < g e 0 2) && decide (0 < g e 1 0) && decide (0 < g e 1 1) &&
  decide (0 < g e 1 2) && decide (0 < g e 2 0) && decide (0 < g e 2 1) && decide (0 < g e 2 2) && decide (0 < g e 3 0) &&
  decide (0 < g e 3 1) && decide (0 < g e 3 2)

/-- names of the table entries that violate a coefficient hypothesis -/
def exceptions (t : List (String × List (List Rat))) (ok : List (List Rat) → Bool) : List String :=
  (t.filter fun e => !ok e.2).map Prod.fst

/-- the five `(aᵢ, bᵢ)` terms of a Lobato entry -/
def lobatoTerms (e : List (List Rat)) : List (Rat × Rat) :=
  [(g e 0 0, g e 1 0), (g e 0 1, g e 1 1), (g e 0 2, g e 1 2), (g e 0 3, g e 1 3), (g e 0 4, g e 1 4)]

/-- numerator and denominator polynomials of `Σ aᵢ(2+bᵢx)/(1+bᵢx)²` over the common denominator `Π (1+bᵢx)²` -/
def numDen : List (Rat × Rat) → List Rat × List Rat
  | [] => ([], [1])
  | (a, b) :: ts =>
    let nd := numDen ts
    let sq := pmul [1, b] [1, b]
    (padd (pmul [2 * a, a * b] nd.2) (pmul sq nd.1), pmul sq nd.2)

/-- numerator and denominator of minus the derivative, `Σ aᵢbᵢ(3+bᵢx)/(1+bᵢx)³`, over `Π (1+bᵢx)³` -/
def numDenD : List (Rat × Rat) → List Rat × List Rat
  | [] => ([], [1])
  | (a, b) :: ts =>
    let nd := numDenD ts
    let cu := pmul [1, b] (pmul [1, b] [1, b])
    (padd (pmul [3 * a * b, a * b * b] nd.2) (pmul cu nd.1), pmul cu nd.2)

/-- coefficient hypothesis of a Lobato entry: positive widths; numerator/denominator polynomials of the scattering factor
and of minus its derivative have non-negative coefficients and positive constant terms -/
def lobatoOK (e : List (List Rat)) : Bool :=
  (lobatoTerms e).all (fun t => decide (0 < t.2)) && posCoeffs (numDen (lobatoTerms e)).1

def lobatoDecOK (e : List (List Rat)) : Bool :=
  (lobatoTerms e).all (fun t => decide (0 < t.2)) && posCoeffs (numDenD (lobatoTerms e)).1

/-- chunk `i` (of size `n`) of a table satisfies `ok` — whole tables are discharged chunk by chunk so that the kernel
evaluations run in parallel -/
def chunkOK (t : List (String × List (List Rat))) (ok : List (List Rat) → Bool) (n i : Nat) : Bool :=
  ((t.drop (n * i)).take n).all fun e => ok e.2

end AbtemVerif.Param
