/-
C35 — the values that occur as fields of abTEM axis metadata dataclasses (abtem/core/axes.py):
`None`, `bool`, `str`, numbers (exact rationals) and (nested) tuples.  Core Lean only.
-/
namespace AbtemVerif.Axes

inductive V where
  | none
  | bool (b : Bool)
  | str (s : String)
  | num (q : Rat)
  | tup (l : List V)
deriving Repr, Inhabited

mutual
def V.beq : V → V → Bool
  | .none, .none => true
  | .bool a, .bool b => a == b
  | .str a, .str b => a == b
  | .num a, .num b => a == b
  | .tup a, .tup b => V.beqList a b
  | _, _ => false
def V.beqList : List V → List V → Bool
  | [], [] => true
  | a :: as, b :: bs => V.beq a b && V.beqList as bs
  | _, _ => false
end

instance : BEq V := ⟨V.beq⟩

end AbtemVerif.Axes
