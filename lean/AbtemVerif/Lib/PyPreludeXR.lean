/-
Real-number counterparts of `Model/PyPreludeX.lean`.
-/
import Mathlib.Data.Real.Basic
import Mathlib.Tactic.Linarith
namespace AbtemVerif.Py

/-- numpy `sign` -/
noncomputable def pySignR (x : ℝ) : ℝ := if 0 < x then 1 else if x < 0 then -1 else 0

lemma pySignR_of_pos {x : ℝ} (h : 0 < x) : pySignR x = 1 := by simp [pySignR, h]
lemma pySignR_zero : pySignR 0 = 0 := by simp [pySignR]
lemma pySignR_of_neg {x : ℝ} (h : x < 0) : pySignR x = -1 := by
  have : ¬ (0 < x) := by linarith
  simp [pySignR, h, this]
lemma pySignR_mul_self_nonneg {x : ℝ} (h : 0 ≤ x) : 0 ≤ pySignR x := by
  rcases h.lt_or_eq with h | h
  · rw [pySignR_of_pos h]; exact zero_le_one
  · rw [← h, pySignR_zero]

end AbtemVerif.Py
