/-
Shared lemmas about the multislice loop model (`Model/Multislice.lean`), used by Props/C07, C02, C01.

Main result `sliceLoop_spec`: for exit planes in the documented form (optional entrance plane `-1`, then strictly
increasing slice indices inside the potential) the slice loop writes, for the `t`-th exit plane `q`, exactly
`detect (foldl step w (slices.take (q+1)))` at exit index `t` — for every `step`, `detect`, wave and slice list.
-/
import AbtemVerif.Model.Multislice
import Mathlib.Data.List.Basic
import Mathlib.Data.List.Nodup
import Mathlib.Tactic.Linarith

namespace AbtemVerif.Multislice
open AbtemVerif.ExitPlanes AbtemVerif.Gen.ExitPlanes
variable {W S M : Type}

def castList (ps : List Nat) : List Int := ps.map Int.ofNat

/-- exit planes in the documented form: an optional entrance plane `-1`, then slice indices -/
def natPlanes (ent : Bool) (ps : List Nat) : List Int :=
  (if ent then [-1] else []) ++ castList ps

theorem length_castList (ps : List Nat) : (castList ps).length = ps.length := List.length_map _

theorem getD_castList (ps : List Nat) (j : Nat) : (castList ps).getD j 0 = ((ps.getD j 0 : Nat) : Int) := by
  unfold castList
  induction ps generalizing j with
  | nil => rfl
  | cons p ps ih => cases j with
    | zero => rfl
    | succ j => simpa using ih j

theorem length_natPlanes (ent : Bool) (ps : List Nat) :
    (natPlanes ent ps).length = startIndex ent + ps.length := by
  cases ent <;> simp [natPlanes, startIndex, length_castList, Nat.add_comm]

theorem getD_natPlanes (ent : Bool) (ps : List Nat) (j : Nat) :
    (natPlanes ent ps).getD (startIndex ent + j) 0 = ((ps.getD j 0 : Nat) : Int) := by
  cases ent
  · simpa [natPlanes, startIndex] using getD_castList ps j
  · have : startIndex true + j = j + 1 := by simp [startIndex, Nat.add_comm]
    rw [this]
    simpa [natPlanes] using getD_castList ps j

theorem aFlag_natPlanes (ent : Bool) (ps : List Nat) (j i : Nat) :
    aFlag ((startIndex ent + j : Nat) : Int) ((natPlanes ent ps).length : Int) (i : Int)
      ((natPlanes ent ps).getD (startIndex ent + j) 0) = (decide (j < ps.length) && decide (i = ps.getD j 0)) := by
  rw [getD_natPlanes, length_natPlanes]
  unfold aFlag
  congr 1
  · simp only [decide_eq_decide]; omega
  · simp only [decide_eq_decide]; omega


/-- the wave after the first `k` slices -/
def waveAt (step : W → S → W) (w0 : W) (slices : List S) (k : Nat) : W := (slices.take k).foldl step w0

/-- writes produced for the exit planes `qs` (global exit index starting at `e`), relative to slice offset `i` -/
def planeWrites (step : W → S → W) (detect : W → M) (mk : Nat → List Nat) (w : W) (rest : List S) (i : Nat)
    (qs : List Nat) (e : Nat) : List (Write M) :=
  (qs.zipIdx e).map fun qt => (mk qt.2, detect ((rest.take (qt.1 + 1 - i)).foldl step w))

theorem planeWrites_shift (step : W → S → W) (detect : W → M) (mk : Nat → List Nat) (w : W) (s : S) (rest : List S)
    (i : Nat) (qs : List Nat) (e : Nat) (h : ∀ q ∈ qs, i + 1 ≤ q) :
    planeWrites step detect mk w (s :: rest) i qs e = planeWrites step detect mk (step w s) rest (i + 1) qs e := by
  unfold planeWrites
  apply List.map_congr_left
  intro qt hqt
  have hq : i + 1 ≤ qt.1 := h _ (List.fst_mem_of_mem_zipIdx hqt)
  have : qt.1 + 1 - i = (qt.1 + 1 - (i + 1)) + 1 := by omega
  rw [this, List.take_succ_cons, List.foldl_cons]

theorem sliceLoop_spec (step : W → S → W) (detect : W → M) (mk : Nat → List Nat) (ent : Bool) (ps : List Nat) :
    ∀ (rest : List S) (w : W) (j i : Nat),
      (ps.drop j).Pairwise (· < ·) → (∀ q ∈ ps.drop j, i ≤ q ∧ q < i + rest.length) →
      sliceLoop step detect mk w (startIndex ent + j)
          (rest.zip (flagsFrom (natPlanes ent ps) (startIndex ent + j) i rest.length))
        = (rest.foldl step w, planeWrites step detect mk w rest i (ps.drop j) (startIndex ent + j)) := by
  intro rest
  induction rest with
  | nil =>
    intro w j i _ hb
    have : ps.drop j = [] := by
      cases h : ps.drop j with
      | nil => rfl
      | cons q qs => have := hb q (by simp [h]); simp at this; omega
    simp [sliceLoop, flagsFrom, planeWrites, this]
  | cons s rest ih =>
    intro w j i hs hb
    simp only [List.length_cons, flagsFrom, aFlag_natPlanes]
    cases h : ps.drop j with
    | nil =>
      have hj : ¬ j < ps.length := by
        intro hlt; have := List.drop_eq_nil_iff.mp h; omega
      simp only [hj, decide_false, Bool.false_and, Bool.false_eq_true, if_false, List.zip_cons_cons, sliceLoop]
      have := ih (step w s) j (i + 1) (by simp [h]) (by simp [h])
      rw [this]; simp [planeWrites, h]
    | cons q qs =>
      have hj : j < ps.length := by
        by_contra hge; have : ps.drop j = [] := List.drop_eq_nil_iff.mpr (by omega); simp [this] at h
      have hq : ps.getD j 0 = q := by
        have := List.getElem_drop (xs := ps) (i := j) (j := 0) (h := by simpa using hj)
        simp only [h] at this
        simp [List.getD_eq_getElem?_getD, List.getElem?_eq_getElem hj] at this ⊢
        exact this.symm
      have hdrop : ps.drop (j + 1) = qs := by
        have : ps.drop (j + 1) = (ps.drop j).drop 1 := by simp [List.drop_drop]
        rw [this, h]; rfl
      rw [h] at hs hb
      have hqb := hb q (by simp)
      have hqs : ∀ r ∈ qs, q < r := (List.pairwise_cons.mp hs).1
      simp only [hj, decide_true, Bool.true_and, hq]
      by_cases hi : i = q
      · subst hi
        simp only [decide_true, if_true, List.zip_cons_cons, sliceLoop]
        have := ih (step w s) (j + 1) (i + 1) (by rw [hdrop]; exact (List.pairwise_cons.mp hs).2)
          (by rw [hdrop]; intro r hr; have := hb r (by simp [hr]); have := hqs r hr; simp at *; omega)
        rw [show startIndex ent + (j + 1) = startIndex ent + j + 1 by omega] at this
        rw [this, hdrop]
        simp only [Prod.mk.injEq, List.foldl_cons, true_and]
        conv_rhs => rw [planeWrites, List.zipIdx_cons, List.map_cons]
        congr 1
        · simp
        · exact (planeWrites_shift step detect mk w s rest i qs _ (fun r hr => by have := hqs r hr; omega)).symm
      · have hlt : i < q := by omega
        simp only [hi, decide_false, Bool.false_eq_true, if_false, List.zip_cons_cons, sliceLoop]
        have := ih (step w s) j (i + 1) (by rw [h]; exact hs)
          (by rw [h]; intro r hr; have := hb r hr; simp at *
              rcases hr with rfl | hr
              · omega
              · have := hqs r hr; omega)
        rw [this, h]
        simp only [Prod.mk.injEq, List.foldl_cons, true_and]
        exact (planeWrites_shift step detect mk w s rest i (q :: qs) _
          (fun r hr => by simp at hr; rcases hr with rfl | hr; omega; have := hqs r hr; omega)).symm


/-! ### one configuration -/

theorem head_natPlanes_entrance (ent : Bool) (ps : List Nat) (first : Int) (rest : List Int)
    (h : natPlanes ent ps = first :: rest) : mEntrance first = ent ∧ aEntrance first = ent := by
  cases ent
  · cases ps with
    | nil => simp [natPlanes, castList] at h
    | cons q qs =>
      simp only [natPlanes, castList, Bool.false_eq_true, if_false, List.nil_append, List.map_cons,
        List.cons.injEq] at h
      obtain ⟨rfl, _⟩ := h
      have : ¬ ((Int.ofNat q) = -1) := by simp
      simp [mEntrance, aEntrance]
  · simp only [natPlanes, if_true, List.cons_append, List.nil_append, List.cons.injEq] at h
    obtain ⟨rfl, _⟩ := h
    simp [mEntrance, aEntrance]

/-- everything one configuration writes, in order -/
def configWrites (step : W → S → W) (detect : W → M) (mk : Nat → List Nat) (ent : Bool) (ps : List Nat) (w : W)
    (cfg : List S) : List (Write M) :=
  (if ent then [(mk 0, detect w)] else []) ++ planeWrites step detect mk w cfg 0 ps (startIndex ent)

theorem runConfig_spec (step : W → S → W) (detect : W → M) (p : Pot S) (ent : Bool) (ps : List Nat) (first : Int)
    (tl : List Int) (c : Nat) (w : W) (cfg : List S)
    (hp : p.planes = natPlanes ent ps) (hf : natPlanes ent ps = first :: tl)
    (hs : ps.Pairwise (· < ·)) (hb : ∀ q ∈ ps, q < cfg.length) :
    runConfig step detect p first c w cfg
      = (cfg.foldl step w, configWrites step detect (measurementIndex p c) ent ps w cfg) := by
  obtain ⟨hm, ha⟩ := head_natPlanes_entrance ent ps first tl hf
  unfold runConfig flagged configWrites
  simp only [hm, ha, hp]
  have := sliceLoop_spec step detect (measurementIndex p c) ent ps cfg w 0 0 (by simpa using hs)
    (by intro q hq; simp at hq; exact ⟨Nat.zero_le _, by simpa using hb q hq⟩)
  simp only [Nat.add_zero, List.drop_zero] at this
  rw [this]

theorem keys_planeWrites (step : W → S → W) (detect : W → M) (mk : Nat → List Nat) (w : W) (rest : List S) (i : Nat)
    (qs : List Nat) (e : Nat) :
    (planeWrites step detect mk w rest i qs e).map Prod.fst = (List.range' e qs.length).map mk := by
  unfold planeWrites
  rw [List.map_map, ← List.zipIdx_map_snd e qs, List.map_map]
  rfl

theorem keys_configWrites (step : W → S → W) (detect : W → M) (mk : Nat → List Nat) (ent : Bool) (ps : List Nat) (w : W)
    (cfg : List S) :
    (configWrites step detect mk ent ps w cfg).map Prod.fst = (List.range' 0 (startIndex ent + ps.length)).map mk := by
  unfold configWrites
  rw [List.map_append, keys_planeWrites]
  cases ent
  · simp [startIndex]
  · simp [startIndex, Nat.add_comm 1, List.range'_succ]

theorem mem_planeWrites (step : W → S → W) (detect : W → M) (mk : Nat → List Nat) (w : W) (cfg : List S)
    (qs : List Nat) (e j : Nat) (hj : j < qs.length) :
    (mk (e + j), detect (waveAt step w cfg (qs[j] + 1))) ∈ planeWrites step detect mk w cfg 0 qs e := by
  unfold planeWrites
  refine List.mem_map.mpr ⟨(qs[j], e + j), ?_, by simp [waveAt]⟩
  exact List.mk_add_mem_zipIdx_iff_getElem?.mpr (List.getElem?_eq_getElem hj)

theorem find?_fst_of_nodup (l : List (Write M)) (k : List Nat) (v : M)
    (hn : (l.map Prod.fst).Nodup) (hm : (k, v) ∈ l) : l.find? (fun wr => wr.1 == k) = some (k, v) := by
  induction l with
  | nil => simp at hm
  | cons a tl ih =>
    simp only [List.map_cons, List.nodup_cons] at hn
    rcases List.mem_cons.mp hm with rfl | hmem
    · simp
    · have hne : a.1 ≠ k := by
        intro h; apply hn.1; rw [h]; exact List.mem_map.mpr ⟨(k, v), hmem, rfl⟩
      have hb : (a.1 == k) = false := by simpa using hne
      rw [List.find?_cons, hb]
      exact ih hn.2 hmem

/-- reading back an entry of the table: the unique write with that index -/
theorem get_table (shape : List Nat) (writes : List (Write M)) (k : List Nat) (v : M)
    (hn : (writes.map Prod.fst).Nodup) (hm : (k, v) ∈ writes) : (Out.table shape writes).get k = some v := by
  show Option.map (fun x => x.2) (List.find? (fun wr => wr.1 == k) writes.reverse) = some v
  rw [find?_fst_of_nodup writes.reverse k v (by rw [List.map_reverse]; exact List.nodup_reverse.mpr hn) (by simpa using hm)]
  rfl

/-! ### the whole function -/

theorem nodup_keys (p : Pot S) (c n : Nat) (hn : p.planes.length = n) :
    ((List.range' 0 n).map (measurementIndex p c)).Nodup := by
  by_cases h1 : n = 1
  · subst h1; simp
  · have hs : iSinglePlane (p.planes.length : Int) = false := by
      simp only [iSinglePlane, decide_eq_false_iff_not]; omega
    apply List.Nodup.map _ List.nodup_range'
    intro a b hab
    simp only [measurementIndex, hs, Bool.false_eq_true, if_false] at hab
    simpa using List.append_cancel_left hab

theorem total_extraShape (p : Pot S) :
    (extraShape p).foldl (· + ·) 0
      = (if p.ensAxis then p.configs.length else 0) + (if sPlaneAxis (p.planes.length : Int) then p.planes.length else 0) := by
  unfold extraShape
  cases p.ensAxis <;> cases sPlaneAxis (p.planes.length : Int) <;> simp


theorem mNoTable_iff (t : Nat) (l : Int) (n : Nat) :
    mNoTable (t : Int) l (n : Int) = true ↔ t = 1 ∧ l = (n : Int) - 1 := by
  simp [mNoTable]

theorem msd_eq (step : W → S → W) (detect : W → M) (w0 : W) (p : Pot S) (first : Int) (tl : List Int)
    (h : p.planes = first :: tl) :
    multisliceAndDetect step detect w0 p =
      if mNoTable (((extraShape p).foldl (· + ·) 0 : Nat) : Int) ((first :: tl).getLastD 0) (p.nslices : Int) then
        .ok (.final (if p.ensAxis then [1] else []) (detect (configLoop step detect p first w0 w0 0 p.configs).1))
      else .ok (.table (extraShape p) (configLoop step detect p first w0 w0 0 p.configs).2) := by
  simp only [multisliceAndDetect, h]

theorem getLastD_natPlanes_single (ent : Bool) (ps : List Nat) (h : startIndex ent + ps.length = 1) :
    (ent = true ∧ ps = [] ∧ (natPlanes ent ps).getLastD 0 = -1) ∨
    (ent = false ∧ ∃ q, ps = [q] ∧ (natPlanes ent ps).getLastD 0 = (q : Int)) := by
  cases ent
  · right
    simp only [startIndex, Bool.false_eq_true, if_false, Nat.zero_add] at h
    match ps, h with
    | [q], _ => exact ⟨rfl, q, rfl, rfl⟩
  · left
    simp only [startIndex, if_true] at h
    have : ps = [] := List.eq_nil_of_length_eq_zero (by omega)
    subst this
    exact ⟨rfl, rfl, rfl⟩

/-! ### several configurations (every configuration restarts from the incident wave) -/

/-- writes of all configurations, in order -/
def ensembleWrites (step : W → S → W) (detect : W → M) (p : Pot S) (ent : Bool) (ps : List Nat) (w0 : W)
    (cfgs : List (List S)) (c0 : Nat) : List (Write M) :=
  (cfgs.zipIdx c0).flatMap fun cc => configWrites step detect (measurementIndex p cc.2) ent ps w0 cc.1

theorem configLoop_spec (step : W → S → W) (detect : W → M) (p : Pot S) (ent : Bool) (ps : List Nat) (first : Int)
    (tl : List Int) (w0 : W) (hp : p.planes = natPlanes ent ps) (hf : natPlanes ent ps = first :: tl)
    (hs : ps.Pairwise (· < ·)) :
    ∀ (cfgs : List (List S)) (w : W) (c0 : Nat), (c0 = 0 → w = w0) → (∀ cfg ∈ cfgs, ∀ q ∈ ps, q < cfg.length) →
      (configLoop step detect p first w0 w c0 cfgs).2 = ensembleWrites step detect p ent ps w0 cfgs c0 := by
  intro cfgs
  induction cfgs with
  | nil => intro w c0 _ _; simp [configLoop, ensembleWrites]
  | cons cfg rest ih =>
    intro w c0 hw hb
    have hstart : (if mReset (c0 : Int) then w0 else w) = w0 := by
      by_cases h0 : c0 = 0
      · rw [hw h0]; simp
      · have : mReset (c0 : Int) = true := by simp [mReset]; omega
        simp [this]
    have hrun := runConfig_spec step detect p ent ps first tl c0 w0 cfg hp hf hs (hb cfg (by simp))
    simp only [configLoop, hstart, hrun]
    rw [ih (cfg.foldl step w0) (c0 + 1) (by omega) (fun c hc => hb c (by simp [hc]))]
    simp only [ensembleWrites, List.zipIdx_cons, List.flatMap_cons]

/-- index lists written by the whole ensemble -/
theorem keys_ensembleWrites (step : W → S → W) (detect : W → M) (p : Pot S) (ent : Bool) (ps : List Nat) (w0 : W)
    (cfgs : List (List S)) (c0 : Nat) :
    (ensembleWrites step detect p ent ps w0 cfgs c0).map Prod.fst
      = (List.range' c0 cfgs.length).flatMap fun c =>
          (List.range' 0 (startIndex ent + ps.length)).map (measurementIndex p c) := by
  unfold ensembleWrites
  rw [List.map_flatMap, ← List.zipIdx_map_snd c0 cfgs, List.flatMap_map]
  apply List.flatMap_congr
  intro cc _
  exact keys_configWrites step detect _ ent ps w0 cc.1

theorem mem_ensembleWrites (step : W → S → W) (detect : W → M) (p : Pot S) (ent : Bool) (ps : List Nat) (w0 : W)
    (cfgs : List (List S)) (c : Nat) (hc : c < cfgs.length) (wr : Write M)
    (h : wr ∈ configWrites step detect (measurementIndex p c) ent ps w0 cfgs[c]) :
    wr ∈ ensembleWrites step detect p ent ps w0 cfgs 0 := by
  unfold ensembleWrites
  refine List.mem_flatMap.mpr ⟨(cfgs[c], c), ?_, h⟩
  exact List.mk_mem_zipIdx_iff_getElem?.mpr (List.getElem?_eq_getElem hc)

/-- with an ensemble axis, different configurations never write the same entry -/
theorem nodup_keys_ensemble (p : Pot S) (hens : p.ensAxis = true) (n np : Nat) (hnp : p.planes.length = np) :
    ((List.range' 0 n).flatMap fun c => (List.range' 0 np).map (measurementIndex p c)).Nodup := by
  rw [List.nodup_flatMap]
  refine ⟨fun c _ => ?_, ?_⟩
  · exact nodup_keys p c np hnp
  · refine List.Pairwise.imp (fun {a b} hne => ?_) (List.nodup_range' (s := 0) (n := n))
    simp only [Function.onFun, List.disjoint_left, List.mem_map, not_exists, not_and]
    rintro x ⟨e, _, rfl⟩ e' _ h
    simp only [measurementIndex, iNoEns, hens, Bool.not_true, Bool.false_eq_true, if_false, List.cons_append, List.nil_append,
      List.cons.injEq] at h
    exact hne h.1.symm


end AbtemVerif.Multislice
