/-
Polynomials with rational coefficients as coefficient lists (low degree first), executable over `Rat`
(so that sign conditions on the coefficients of a whole table can be discharged by `decide +kernel`),
with their evaluation at a real point.

* `padd`, `psmul`, `pmul`, `peval` and `peval_padd`, `peval_psmul`, `peval_pmul`;
* `peval_pos` : non-negative coefficients with a positive constant term ⇒ positive on `[0, ∞)`;
* `peval_nonneg`.
-/
import AbtemVerif.Model.ParamPoly
import Mathlib.Data.Real.Basic
import Mathlib.Tactic.Ring
import Mathlib.Tactic.Linarith
import Mathlib.Tactic.Positivity

namespace AbtemVerif.ListPoly

/-- Horner evaluation at a real point -/
def peval (p : List ℚ) (x : ℝ) : ℝ := p.foldr (fun a acc => (a : ℝ) + x * acc) 0

@[simp] lemma peval_nil (x : ℝ) : peval [] x = 0 := rfl
@[simp] lemma peval_cons (a : ℚ) (p : List ℚ) (x : ℝ) : peval (a :: p) x = (a : ℝ) + x * peval p x := rfl

lemma peval_padd (p q : List ℚ) (x : ℝ) : peval (padd p q) x = peval p x + peval q x := by
  induction p generalizing q with
  | nil => simp [padd]
  | cons a p ih =>
    cases q with
    | nil => simp [padd]
    | cons b q => simp only [padd, peval_cons, ih q]; push_cast; ring

lemma peval_psmul (c : ℚ) (p : List ℚ) (x : ℝ) : peval (psmul c p) x = (c : ℝ) * peval p x := by
  induction p with
  | nil => simp [psmul]
  | cons a p ih =>
    have : psmul c (a :: p) = (c * a) :: psmul c p := rfl
    rw [this, peval_cons, peval_cons, ih]; push_cast; ring

lemma peval_pmul (p q : List ℚ) (x : ℝ) : peval (pmul p q) x = peval p x * peval q x := by
  induction p with
  | nil => simp [pmul]
  | cons a p ih =>
    simp only [pmul, peval_padd, peval_psmul, peval_cons, ih]; push_cast; ring

lemma peval_nonneg (p : List ℚ) (hp : nonnegCoeffs p = true) (x : ℝ) (hx : 0 ≤ x) : 0 ≤ peval p x := by
  induction p with
  | nil => simp
  | cons a p ih =>
    simp only [nonnegCoeffs, List.all_cons, Bool.and_eq_true, decide_eq_true_eq] at hp
    have ha : (0 : ℝ) ≤ (a : ℝ) := by exact_mod_cast hp.1
    have := ih (by simpa [nonnegCoeffs] using hp.2)
    rw [peval_cons]; positivity

lemma peval_pos (p : List ℚ) (hp : posCoeffs p = true) (x : ℝ) (hx : 0 ≤ x) : 0 < peval p x := by
  cases p with
  | nil => simp [posCoeffs] at hp
  | cons a p =>
    simp only [posCoeffs, Bool.and_eq_true, decide_eq_true_eq] at hp
    have ha : (0 : ℝ) < (a : ℝ) := by exact_mod_cast hp.1
    have := peval_nonneg p hp.2 x hx
    rw [peval_cons]; positivity

end AbtemVerif.ListPoly
