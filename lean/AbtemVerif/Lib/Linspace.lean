/-
Shared lemmas (Pattern B, DESIGN.md §3): exact semantics of `numpy.linspace` (incl. `endpoint`,
`num = 0/1`), `numpy.fft.fftfreq`, `fftshift`/`ifftshift`, for the executable definitions of
`AbtemVerif/Model/Linspace.lean`.  Everything is over `Rat` — the float evaluation of the same
text is the IEEE assumption of the properties that use these lemmas.

Main statements
* `linspace_length`, `linspace_getElem` / `linspace_eq_map` : element `i` is `start + i * step`
  with `step = (stop - start) / div`, `div = num - 1` (endpoint) or `num`;
* `linspace_zero`, `linspace_one`, `linspace_head`, `linspace_last_endpoint`, `linspace_last_open`;
* `linspace_step_open`, `linspace_step_endpoint`, `linspace_diff` (equal spacing);
* `linspace_open_of_step` : `linspace a (a + n*s) n false = [a + i*s]`;
* `linspace_append_open` : two adjacent half-open linspaces concatenate to the half-open
  linspace of the union (the scan / axis partition lemma);
* `linspace_reflect` : `x[i] + x[n-1-i] = start + stop` with endpoint (symmetry about the centre);
* `linspace_strictMono`;
* `fftfreq_length`, `fftfreq_getElem`, `fftfreqIndex_range`, `fftfreq_head`;
* `fftshift_length`, `ifftshift_fftshift`, `fftshift_ifftshift`, `fftshift_getElem`.
-/
import AbtemVerif.Model.Linspace
import Mathlib.Data.Rat.Floor
import Mathlib.Tactic.FieldSimp
import Mathlib.Tactic.Ring
import Mathlib.Tactic.Linarith

namespace AbtemVerif.Np

/-! ### linspace -/

@[simp] theorem linspace_length (a b : Rat) (n : Nat) (e : Bool) : (linspace a b n e).length = n := by
  unfold linspace
  simp only []
  split <;> simp

theorem linspaceDiv_endpoint (n : Nat) : linspaceDiv n true = n - 1 := by simp [linspaceDiv]
theorem linspaceDiv_open (n : Nat) : linspaceDiv n false = n := by simp [linspaceDiv]

theorem linspaceDiv_cast_endpoint {n : Nat} (h : 1 ≤ n) : ((linspaceDiv n true : Nat) : Rat) = (n : Rat) - 1 := by
  rw [linspaceDiv_endpoint, Nat.cast_sub h]; simp

/-- **Closed form**: element `i` of `numpy.linspace(a, b, n, endpoint=e)` is `a + i * step`. -/
theorem linspace_getElem (a b : Rat) (n : Nat) (e : Bool) (i : Nat) (hi : i < (linspace a b n e).length) :
    (linspace a b n e)[i] = a + (i : Rat) * linspaceStep a b n e := by
  have hin : i < n := by simpa using hi
  unfold linspace linspaceStep at *
  simp only []
  split
  next hcond =>
    -- endpoint ∧ n > 1 : last element overwritten by `stop`
    simp only [Bool.and_eq_true, decide_eq_true_eq] at hcond
    obtain ⟨he, hn⟩ := hcond
    subst he
    have hdiv : linspaceDiv n true = n - 1 := linspaceDiv_endpoint n
    have hpos : 0 < n - 1 := by omega
    rw [List.getElem_set]
    split
    next heq =>
      have hc : ((n - 1 : Nat) : Rat) ≠ 0 := by
        have : (0 : Rat) < ((n - 1 : Nat) : Rat) := by exact_mod_cast hpos
        exact ne_of_gt this
      rw [hdiv, ← heq]
      field_simp
      ring
    next hne =>
      simp only [List.getElem_map, List.getElem_range, hdiv, hpos, if_true]
      ring
  next hcond =>
    simp only [List.getElem_map, List.getElem_range]
    split
    next hpos => ring
    next hz =>
      -- div = 0 : either n = 0 (impossible, i < n) or endpoint with n = 1, so i = 0
      have hdz : linspaceDiv n e = 0 := by omega
      cases e with
      | false => simp [linspaceDiv] at hdz; omega
      | true =>
        simp [linspaceDiv] at hdz
        have : i = 0 := by omega
        subst this
        simp

theorem linspace_eq_map (a b : Rat) (n : Nat) (e : Bool) :
    linspace a b n e = (List.range n).map fun (i : Nat) => a + (i : Rat) * linspaceStep a b n e := by
  apply List.ext_getElem
  · simp
  · intro i h1 h2
    rw [linspace_getElem a b n e i h1]
    simp

theorem linspace_getElem? (a b : Rat) (n : Nat) (e : Bool) (i : Nat) (hi : i < n) :
    (linspace a b n e)[i]? = some (a + (i : Rat) * linspaceStep a b n e) := by
  rw [List.getElem?_eq_getElem (by simpa using hi), linspace_getElem]

@[simp] theorem linspace_zero (a b : Rat) (e : Bool) : linspace a b 0 e = [] := by
  rw [linspace_eq_map]; rfl

/-- `num = 1` gives `[start]` whatever `endpoint` says. -/
@[simp] theorem linspace_one (a b : Rat) (e : Bool) : linspace a b 1 e = [a] := by
  rw [linspace_eq_map]; simp

theorem linspace_head (a b : Rat) (n : Nat) (e : Bool) (hn : 0 < n) :
    (linspace a b n e)[0]'(by simpa using hn) = a := by
  rw [linspace_getElem]; simp

/-- step with `endpoint=False`: `(stop - start) / num` -/
theorem linspace_step_open (a b : Rat) (n : Nat) : linspaceStep a b n false = (b - a) / (n : Rat) := by
  simp [linspaceStep, linspaceDiv]

/-- step with `endpoint=True` and at least two points: `(stop - start) / (num - 1)` -/
theorem linspace_step_endpoint (a b : Rat) (n : Nat) (hn : 1 ≤ n) :
    linspaceStep a b n true = (b - a) / ((n : Rat) - 1) := by
  unfold linspaceStep; rw [linspaceDiv_cast_endpoint hn]

/-- With `endpoint=True` and `num ≥ 2` the last element is exactly `stop`. -/
theorem linspace_last_endpoint (a b : Rat) (n : Nat) (hn : 2 ≤ n) :
    (linspace a b n true)[n - 1]'(by simp; omega) = b := by
  rw [linspace_getElem, linspace_step_endpoint a b n (by omega), Nat.cast_sub (by omega)]
  have : ((n : Rat) - 1) ≠ 0 := by
    have : (2 : Rat) ≤ (n : Rat) := by exact_mod_cast hn
    intro h; linarith
  push_cast
  field_simp
  ring

/-- With `endpoint=False` the last element is one step short of `stop`. -/
theorem linspace_last_open (a b : Rat) (n : Nat) (hn : 1 ≤ n) :
    (linspace a b n false)[n - 1]'(by simp; omega) = b - linspaceStep a b n false := by
  rw [linspace_getElem, linspace_step_open, Nat.cast_sub hn]
  have : (n : Rat) ≠ 0 := by
    have : (1 : Rat) ≤ (n : Rat) := by exact_mod_cast hn
    intro h; linarith
  push_cast
  field_simp
  ring

/-- consecutive elements differ by exactly the step -/
theorem linspace_diff (a b : Rat) (n : Nat) (e : Bool) (i : Nat) (hi : i + 1 < n) :
    (linspace a b n e)[i + 1]'(by simpa using hi) - (linspace a b n e)[i]'(by simp; omega)
      = linspaceStep a b n e := by
  rw [linspace_getElem, linspace_getElem]; push_cast; ring

/-- a half-open linspace whose stop is `n` steps from the start is `a, a+s, …, a+(n-1)s` -/
theorem linspace_open_of_step (a s : Rat) (n : Nat) :
    linspace a (a + (n : Rat) * s) n false = (List.range n).map fun (i : Nat) => a + (i : Rat) * s := by
  rw [linspace_eq_map]
  rcases Nat.eq_zero_or_pos n with h | h
  · subst h; rfl
  · have hn : (n : Rat) ≠ 0 := by
      have : (0 : Rat) < (n : Rat) := by exact_mod_cast h
      exact ne_of_gt this
    have : linspaceStep a (a + (n : Rat) * s) n false = s := by
      rw [linspace_step_open]; field_simp; ring
    rw [this]

/-- an endpoint linspace whose stop is `n-1` steps from the start is `a, a+s, …, a+(n-1)s` -/
theorem linspace_endpoint_of_step (a s : Rat) (n : Nat) (hn : 2 ≤ n) :
    linspace a (a + ((n : Rat) - 1) * s) n true = (List.range n).map fun (i : Nat) => a + (i : Rat) * s := by
  rw [linspace_eq_map]
  have hne : ((n : Rat) - 1) ≠ 0 := by
    have : (2 : Rat) ≤ (n : Rat) := by exact_mod_cast hn
    intro h; linarith
  have : linspaceStep a (a + ((n : Rat) - 1) * s) n true = s := by
    rw [linspace_step_endpoint _ _ _ (by omega)]; field_simp; ring
  rw [this]

/-- **Partition lemma**: adjacent half-open linspaces with a common step concatenate to the
half-open linspace over the union (used for scan / axis / distribution chunking). -/
theorem linspace_append_open (a s : Rat) (n m : Nat) :
    linspace a (a + (n : Rat) * s) n false
      ++ linspace (a + (n : Rat) * s) (a + (n : Rat) * s + (m : Rat) * s) m false
      = linspace a (a + ((n + m : Nat) : Rat) * s) (n + m) false := by
  rw [linspace_open_of_step, linspace_open_of_step, linspace_open_of_step, List.range_add, List.map_append,
    List.map_map]
  congr 1
  apply List.map_congr_left
  intro i _
  simp only [Function.comp]
  push_cast
  ring

/-- **Symmetry**: with `endpoint=True`, elements `i` and `n-1-i` are mirror images about the
midpoint `(start + stop)/2`. -/
theorem linspace_reflect (a b : Rat) (n : Nat) (i : Nat) (hi : i < n) :
    (linspace a b n true)[i]'(by simpa using hi) + (linspace a b n true)[n - 1 - i]'(by simp; omega)
      = if n = 1 then 2 * a else a + b := by
  rw [linspace_getElem, linspace_getElem]
  split
  next h1 =>
    subst h1
    have : i = 0 := by omega
    subst this; simp; ring
  next h1 =>
    have hn : 2 ≤ n := by omega
    rw [linspace_step_endpoint a b n (by omega), Nat.cast_sub (by omega), Nat.cast_sub (by omega)]
    have hne : ((n : Rat) - 1) ≠ 0 := by
      have : (2 : Rat) ≤ (n : Rat) := by exact_mod_cast hn
      intro h; linarith
    push_cast
    field_simp
    ring

theorem linspaceStep_pos (a b : Rat) (n : Nat) (e : Bool) (hab : a < b) (hd : 0 < linspaceDiv n e) :
    0 < linspaceStep a b n e := by
  unfold linspaceStep
  apply div_pos (by linarith)
  exact_mod_cast hd

/-- for `start < stop` (and a defined step) the sequence is strictly increasing -/
theorem linspace_strictMono (a b : Rat) (n : Nat) (e : Bool) (hab : a < b) (hd : 0 < linspaceDiv n e)
    (i j : Nat) (hij : i < j) (hj : j < n) :
    (linspace a b n e)[i]'(by simp; omega) < (linspace a b n e)[j]'(by simpa using hj) := by
  rw [linspace_getElem, linspace_getElem]
  have hs := linspaceStep_pos a b n e hab hd
  have : (i : Rat) < (j : Rat) := by exact_mod_cast hij
  nlinarith

/-- every element of a half-open linspace with `start ≤ stop` lies in `[start, stop)` -/
theorem linspace_open_mem_Ico (a b : Rat) (n : Nat) (hab : a < b) (i : Nat) (hi : i < n) :
    a ≤ (linspace a b n false)[i]'(by simpa using hi) ∧ (linspace a b n false)[i]'(by simpa using hi) < b := by
  rw [linspace_getElem, linspace_step_open]
  have hn : (0 : Rat) < (n : Rat) := by exact_mod_cast (by omega : 0 < n)
  have hi' : (i : Rat) < (n : Rat) := by exact_mod_cast hi
  have hi0 : (0 : Rat) ≤ (i : Rat) := by exact_mod_cast Nat.zero_le i
  have hd : 0 < (b - a) / (n : Rat) := div_pos (by linarith) hn
  constructor
  · nlinarith
  · have : (i : Rat) * ((b - a) / (n : Rat)) < (n : Rat) * ((b - a) / (n : Rat)) := by nlinarith
    have h2 : (n : Rat) * ((b - a) / (n : Rat)) = b - a := by field_simp
    linarith

theorem linspaceI_neg (a b : Rat) (n : Int) (e : Bool) (h : n < 0) : linspaceI a b n e = .error "value_error" := by
  simp [linspaceI, h]

theorem linspaceI_nonneg (a b : Rat) (n : Nat) (e : Bool) : linspaceI a b (n : Int) e = .ok (linspace a b n e) := by
  simp [linspaceI]

@[simp] theorem arange_length (n : Nat) : (arange n).length = n := by simp [arange]

theorem arange_getElem (n i : Nat) (h : i < (arange n).length) : (arange n)[i] = (i : Rat) := by
  simp [arange]

/-- `linspace(0, n, n, endpoint=False) = arange(n)` -/
theorem linspace_arange (n : Nat) : linspace 0 (n : Rat) n false = arange n := by
  have := linspace_open_of_step 0 1 n
  simp only [mul_one, zero_add] at this
  rw [this]; rfl

/-! ### fftfreq -/

@[simp] theorem fftfreq_length (n : Nat) (d : Rat) : (fftfreq n d).length = n := by simp [fftfreq]

theorem fftfreq_getElem (n : Nat) (d : Rat) (i : Nat) (h : i < (fftfreq n d).length) :
    (fftfreq n d)[i] = (fftfreqIndex n i : Rat) / ((n : Rat) * d) := by
  simp [fftfreq, div_eq_mul_inv]

/-- the integer frequencies lie in `[-n/2, (n-1)/2]` … -/
theorem fftfreqIndex_range (n i : Nat) (h : i < n) :
    -((n / 2 : Nat) : Int) ≤ fftfreqIndex n i ∧ fftfreqIndex n i ≤ (((n - 1) / 2 : Nat) : Int) := by
  unfold fftfreqIndex; split <;> omega

/-- … and are congruent to the position modulo `n` (so `fftfreq` enumerates each residue once) -/
theorem fftfreqIndex_mod (n i : Nat) (h : i < n) : (fftfreqIndex n i) % (n : Int) = (i : Int) := by
  unfold fftfreqIndex
  split
  · exact Int.emod_eq_of_lt (by omega) (by omega)
  · rw [Int.sub_emod, Int.emod_self, sub_zero, Int.emod_emod_of_dvd _ (dvd_refl _)]
    exact Int.emod_eq_of_lt (by omega) (by omega)

theorem fftfreqIndex_injective (n i j : Nat) (hi : i < n) (hj : j < n) (h : fftfreqIndex n i = fftfreqIndex n j) :
    i = j := by
  have := fftfreqIndex_mod n i hi
  rw [h, fftfreqIndex_mod n j hj] at this
  omega

theorem fftfreq_head (n : Nat) (d : Rat) (hn : 0 < n) : (fftfreq n d)[0]'(by simpa using hn) = 0 := by
  rw [fftfreq_getElem]; simp [fftfreqIndex]

/-! ### fftshift -/

@[simp] theorem fftshift_length {α} (l : List α) : (fftshift l).length = l.length := by
  simp [fftshift]

@[simp] theorem ifftshift_length {α} (l : List α) : (ifftshift l).length = l.length := by
  simp [ifftshift]; omega

theorem drop_append_take_swap {α} (l : List α) (k m : Nat) (_hk : k ≤ l.length) (hm : m = l.length - k) :
    (l.drop k ++ l.take k).drop m ++ (l.drop k ++ l.take k).take m = l := by
  have hA : (l.drop k).length = m := by simp [hm]
  have h1 : (l.drop k ++ l.take k).drop m = l.take k := by
    rw [List.drop_append_of_le_length (by omega), List.drop_of_length_le (by omega)]; simp
  have h2 : (l.drop k ++ l.take k).take m = l.drop k := by
    rw [List.take_append_of_le_length (by omega), List.take_of_length_le (by omega)]
  rw [h1, h2, List.take_append_drop]

theorem ifftshift_fftshift {α} (l : List α) : ifftshift (fftshift l) = l := by
  unfold ifftshift
  rw [fftshift_length]
  unfold fftshift
  exact drop_append_take_swap l _ _ (by omega) (by omega)

theorem fftshift_ifftshift {α} (l : List α) : fftshift (ifftshift l) = l := by
  unfold fftshift
  rw [ifftshift_length]
  unfold ifftshift
  exact drop_append_take_swap l _ _ (by omega) (by omega)

/-- output position `j` of `fftshift` reads input position `fftshiftSrc n j` -/
theorem fftshift_getElem {α} (l : List α) (j : Nat) (hj : j < (fftshift l).length) :
    (fftshift l)[j] = l[fftshiftSrc l.length j]'(by
      have : j < l.length := by simpa using hj
      unfold fftshiftSrc; exact Nat.mod_lt _ (by omega)) := by
  have hjl : j < l.length := by simpa using hj
  have key : ∀ (k : Nat) (hk : k ≤ l.length) (h1 : j < (l.drop k ++ l.take k).length),
      (l.drop k ++ l.take k)[j] = l[(j + k) % l.length]'(Nat.mod_lt _ (by omega)) := by
    intro k hk h1
    rw [List.getElem_append]
    split
    next h =>
      simp only [List.getElem_drop]
      simp at h
      congr 1
      rw [Nat.mod_eq_of_lt (by omega)]; omega
    next h =>
      simp only [List.getElem_take]
      simp at h
      congr 1
      have : j + k = l.length + (j - (l.length - k)) := by omega
      rw [this, Nat.add_mod_left, Nat.mod_eq_of_lt (by omega)]
      simp
  exact key (l.length - l.length / 2) (by omega) hj

end AbtemVerif.Np
