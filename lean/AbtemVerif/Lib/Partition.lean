/-
Reusable partition lemmas (DESIGN §3, Pattern A): splitting a list by chunk sizes,
re-assembly, commutation with member-wise kernels, chunk ranges contiguous / covering /
disjoint, block-local ↔ global index bijection, n-dimensional lifting.

All statements are for every element type, every list and every chunk list.
-/
import AbtemVerif.Model.Partition
import Mathlib.Data.List.Basic
import Mathlib.Tactic.Ring
import Mathlib.Tactic.Linarith

namespace AbtemVerif.Partition
variable {α β : Type}

/-! ### splitBy -/

@[simp] theorem splitBy_nil (xs : List α) : splitBy [] xs = [] := rfl
@[simp] theorem splitBy_cons (c : Nat) (cs : List Nat) (xs : List α) :
    splitBy (c :: cs) xs = xs.take c :: splitBy cs (xs.drop c) := rfl

@[simp] theorem length_splitBy (cs : List Nat) (xs : List α) : (splitBy cs xs).length = cs.length := by
  induction cs generalizing xs with
  | nil => rfl
  | cons c cs ih => simp [ih]

/-- Re-assembling the blocks gives the original list whenever the chunks cover it. -/
theorem flatten_splitBy (cs : List Nat) (xs : List α) (h : xs.length ≤ cs.sum) :
    (splitBy cs xs).flatten = xs := by
  induction cs generalizing xs with
  | nil =>
    have : xs = [] := List.eq_nil_of_length_eq_zero (by simpa using h)
    simp [this]
  | cons c cs ih =>
    simp only [splitBy_cons, List.flatten_cons]
    rw [ih (xs.drop c) (by simp only [List.length_drop, List.sum_cons] at *; omega)]
    exact List.take_append_drop c xs

/-- Without the covering hypothesis the blocks reassemble to the covered prefix. -/
theorem flatten_splitBy_take (cs : List Nat) (xs : List α) :
    (splitBy cs xs).flatten = xs.take cs.sum := by
  induction cs generalizing xs with
  | nil => simp
  | cons c cs ih =>
    simp only [splitBy_cons, List.flatten_cons, List.sum_cons, ih]
    rw [List.take_add]

/-- Every block has exactly its chunk size when the chunks fit. -/
theorem map_length_splitBy (cs : List Nat) (xs : List α) (h : cs.sum ≤ xs.length) :
    (splitBy cs xs).map List.length = cs := by
  induction cs generalizing xs with
  | nil => rfl
  | cons c cs ih =>
    simp only [List.sum_cons] at h
    simp only [splitBy_cons, List.map_cons, List.length_take]
    rw [ih (xs.drop c) (by simp only [List.length_drop]; omega)]
    congr 1; omega

/-- A member-wise kernel commutes with splitting. -/
theorem map_splitBy (f : α → β) (cs : List Nat) (xs : List α) :
    (splitBy cs xs).map (List.map f) = splitBy cs (xs.map f) := by
  induction cs generalizing xs with
  | nil => rfl
  | cons c cs ih => simp [ih, List.map_take, List.map_drop]

/-- Blockwise evaluation followed by concatenation equals evaluation of the whole. -/
theorem flatten_map_splitBy (f : α → β) (cs : List Nat) (xs : List α) (h : xs.length ≤ cs.sum) :
    ((splitBy cs xs).map (List.map f)).flatten = xs.map f := by
  rw [map_splitBy, flatten_splitBy _ _ (by simpa using h)]

/-- The same for a kernel that may see its global member index. -/
theorem splitBy_append (cs ds : List Nat) (xs ys : List α) (h : xs.length = cs.sum) :
    splitBy (cs ++ ds) (xs ++ ys) = splitBy cs xs ++ splitBy ds ys := by
  induction cs generalizing xs with
  | nil =>
    have : xs = [] := List.eq_nil_of_length_eq_zero (by simpa using h)
    simp [this]
  | cons c cs ih =>
    simp only [List.sum_cons] at h
    have hc : c ≤ xs.length := by omega
    simp only [List.cons_append, splitBy_cons]
    rw [List.take_append_of_le_length hc, List.drop_append_of_le_length hc,
      ih (xs.drop c) (by simp only [List.length_drop]; omega)]

/-- Refining every chunk (splitting blocks again, e.g. `generate_blocks(1)` inside an outer block)
re-assembles to the same list. -/
theorem flatten_splitBy_splitBy (cs : List Nat) (inner : List (List Nat)) (xs : List α)
    (hx : xs.length ≤ cs.sum) (hi : List.Forall₂ (fun c ds => c ≤ ds.sum) cs inner) :
    ((List.zipWith (fun ds b => splitBy ds b) inner (splitBy cs xs)).map List.flatten).flatten = xs := by
  have : (List.zipWith (fun ds b => splitBy ds b) inner (splitBy cs xs)).map List.flatten = splitBy cs xs := by
    clear hx
    induction hi generalizing xs with
    | nil => simp
    | @cons c ds cs inner hcd _ ih =>
      simp only [splitBy_cons, List.zipWith_cons_cons, List.map_cons, ih]
      rw [flatten_splitBy ds (xs.take c) (by simp only [List.length_take]; omega)]
  rw [this, flatten_splitBy _ _ hx]

/-! ### ranges -/

theorem sum_take_succ (cs : List Nat) (i : Nat) (h : i < cs.length) :
    (cs.take (i + 1)).sum = (cs.take i).sum + cs[i] := by
  rw [List.take_succ_eq_append_getElem h, List.sum_append, List.sum_singleton]

@[simp] theorem rangesFrom_nil (s : Nat) : rangesFrom s [] = [] := rfl
@[simp] theorem rangesFrom_cons (s c : Nat) (cs : List Nat) :
    rangesFrom s (c :: cs) = (s, s + c) :: rangesFrom (s + c) cs := rfl

@[simp] theorem length_rangesFrom (s : Nat) (cs : List Nat) : (rangesFrom s cs).length = cs.length := by
  induction cs generalizing s with
  | nil => rfl
  | cons c cs ih => simp [ih]

@[simp] theorem length_ranges (cs : List Nat) : (ranges cs).length = cs.length := length_rangesFrom 0 cs

/-- widths of the ranges are the chunk sizes -/
theorem rangesFrom_widths (s : Nat) (cs : List Nat) :
    (rangesFrom s cs).map (fun r => r.2 - r.1) = cs := by
  induction cs generalizing s with
  | nil => rfl
  | cons c cs ih => simp [ih]

theorem rangesFrom_getElem (s : Nat) (cs : List Nat) (i : Nat) (h : i < cs.length) :
    (rangesFrom s cs)[i]'(by simpa using h) = (s + (cs.take i).sum, s + (cs.take (i + 1)).sum) := by
  induction cs generalizing s i with
  | nil => simp at h
  | cons c cs ih =>
    cases i with
    | zero => simp
    | succ i =>
      simp only [rangesFrom_cons, List.getElem_cons_succ, List.take_succ_cons, List.sum_cons]
      rw [ih (s + c) i (by simpa using h)]
      simp only [Prod.mk.injEq]; constructor <;> ring

/-- start of range `i` = sum of the earlier chunks, stop = start + chunk `i` -/
theorem ranges_getElem (cs : List Nat) (i : Nat) (h : i < cs.length) :
    (ranges cs)[i]'(by simpa using h) = (blockStart cs i, blockStart cs i + cs[i]) := by
  unfold ranges blockStart
  rw [rangesFrom_getElem 0 cs i h]
  simp only [Nat.zero_add, Prod.mk.injEq, true_and]
  exact sum_take_succ cs i h

/-- Ranges are contiguous: each one starts where the previous stopped. -/
theorem ranges_contiguous (cs : List Nat) (i : Nat) (h : i + 1 < cs.length) :
    ((ranges cs)[i]'(by simp; omega)).2 = ((ranges cs)[i + 1]'(by simpa using h)).1 := by
  rw [ranges_getElem cs i (by omega), ranges_getElem cs (i + 1) h]
  simp only [blockStart]
  exact (sum_take_succ cs i (by omega)).symm

/-- The first range starts at 0. -/
theorem ranges_first (cs : List Nat) (h : 0 < cs.length) : ((ranges cs)[0]'(by simpa using h)).1 = 0 := by
  rw [ranges_getElem cs 0 h]; simp [blockStart]

/-- The last range stops at the total. -/
theorem ranges_last (cs : List Nat) (h : 0 < cs.length) :
    ((ranges cs)[cs.length - 1]'(by simp; omega)).2 = cs.sum := by
  rw [ranges_getElem cs (cs.length - 1) (by omega)]
  simp only [blockStart]
  have := sum_take_succ cs (cs.length - 1) (by omega)
  have h2 : cs.length - 1 + 1 = cs.length := by omega
  rw [h2, List.take_length] at this
  exact this.symm

theorem blockStart_mono (cs : List Nat) {i j : Nat} (hij : i ≤ j) : blockStart cs i ≤ blockStart cs j := by
  unfold blockStart
  obtain ⟨d, rfl⟩ := Nat.exists_eq_add_of_le hij
  rw [← List.take_append_drop i (cs.take (i + d))]
  simp [List.take_take]

theorem blockStart_succ (cs : List Nat) (i : Nat) (h : i < cs.length) :
    blockStart cs (i + 1) = blockStart cs i + cs[i] := by
  unfold blockStart; exact sum_take_succ cs i h

theorem blockStart_length (cs : List Nat) : blockStart cs cs.length = cs.sum := by
  simp [blockStart]

/-- Ranges are pairwise disjoint and ordered. -/
theorem ranges_disjoint (cs : List Nat) (i j : Nat) (hij : i < j) (hj : j < cs.length) :
    ((ranges cs)[i]'(by simp; omega)).2 ≤ ((ranges cs)[j]'(by simpa using hj)).1 := by
  rw [ranges_getElem cs i (by omega), ranges_getElem cs j hj]
  simp only
  rw [← blockStart_succ cs i (by omega)]
  exact blockStart_mono cs hij

/-- The blocks are the Python slices at the chunk ranges. -/
theorem splitBy_eq_map_rangesFrom (s : Nat) (cs : List Nat) (xs : List α) :
    splitBy cs (xs.drop s) = (rangesFrom s cs).map (sliceRange xs) := by
  induction cs generalizing s with
  | nil => rfl
  | cons c cs ih =>
    simp only [splitBy_cons, rangesFrom_cons, List.map_cons, sliceRange, List.drop_drop]
    rw [← ih (s + c)]
    simp [Nat.add_comm]

theorem splitBy_eq_map_ranges (cs : List Nat) (xs : List α) :
    splitBy cs xs = (ranges cs).map (sliceRange xs) := by
  simpa [ranges] using splitBy_eq_map_rangesFrom 0 cs xs

/-! ### global index ↔ (block, local index) -/

/-- Every global index below the total lies in exactly the block `locate` names … -/
theorem locate_spec (cs : List Nat) (k : Nat) (h : k < cs.sum) :
    ∃ b l, locate cs k = some (b, l) ∧ b < cs.length ∧ l < cs.getD b 0 ∧ blockStart cs b + l = k := by
  induction cs generalizing k with
  | nil => simp at h
  | cons c cs ih =>
    unfold locate
    by_cases hk : k < c
    · exact ⟨0, k, by simp [hk], by simp, by simpa using hk, by simp [blockStart]⟩
    · simp only [hk, if_false]
      simp only [List.sum_cons] at h
      obtain ⟨b, l, h1, h2, h3, h4⟩ := ih (k - c) (by omega)
      refine ⟨b + 1, l, by simp [h1], by simpa using h2, by simpa using h3, ?_⟩
      simp only [blockStart, List.take_succ_cons, List.sum_cons] at h4 ⊢
      omega

/-- … and in no other: (block, local) ↦ global is injective. -/
theorem block_local_unique (cs : List Nat) (b b' l l' : Nat) (hb : b < cs.length) (hb' : b' < cs.length)
    (hl : l < cs[b]) (hl' : l' < cs[b']) (h : blockStart cs b + l = blockStart cs b' + l') :
    b = b' ∧ l = l' := by
  have key : ∀ i j, (hij : i < j) → (hj : j < cs.length) → ∀ (li : Nat) (hli : li < cs[i]'(by omega)) (lj : Nat),
      blockStart cs i + li < blockStart cs j + lj := by
    intro i j hij hj li hli lj
    have h1 := blockStart_succ cs i (by omega)
    have h2 := blockStart_mono cs (show i + 1 ≤ j by omega)
    simp only [h1] at h2
    omega
  rcases Nat.lt_trichotomy b b' with hlt | heq | hgt
  · exact absurd h (Nat.ne_of_lt (key b b' hlt hb' l hl l'))
  · subst heq; exact ⟨rfl, by omega⟩
  · exact absurd h.symm (Nat.ne_of_lt (key b' b hgt hb l' hl' l))

/-- Range cover: every index below the total lies in some range. -/
theorem ranges_cover (cs : List Nat) (k : Nat) (h : k < cs.sum) :
    ∃ i, ∃ hi : i < cs.length, ((ranges cs)[i]'(by simpa using hi)).1 ≤ k ∧ k < ((ranges cs)[i]'(by simpa using hi)).2 := by
  obtain ⟨b, l, _, hb, hl, hk⟩ := locate_spec cs k h
  refine ⟨b, hb, ?_⟩
  rw [ranges_getElem cs b hb]
  have : cs.getD b 0 = cs[b] := by simp [List.getD_eq_getElem?_getD, List.getElem?_eq_getElem hb]
  simp only
  omega

/-- The member at global index `k` is the member at local index `l` of block `b`. -/
theorem getElem?_splitBy (cs : List Nat) (xs : List α) (b l : Nat) (hb : b < cs.length) (hl : l < cs[b]) :
    ((splitBy cs xs)[b]'(by simpa using hb))[l]? = xs[blockStart cs b + l]? := by
  induction cs generalizing xs b with
  | nil => simp at hb
  | cons c cs ih =>
    cases b with
    | zero =>
      simp only [List.getElem_cons_zero] at hl
      simp [blockStart, hl]
    | succ b =>
      simp only [splitBy_cons, List.getElem_cons_succ, blockStart, List.take_succ_cons, List.sum_cons]
      rw [ih (xs.drop c) b (by simpa using hb) (by simpa using hl)]
      simp [blockStart, Nat.add_assoc]

/-! ### n-dimensional chunkings: per-axis facts lift to every axis at once -/

/-- `validate`d n-dimensional chunks match the shape iff they do per axis. -/
def chunksMatch (shape : List Nat) (chunks : List (List Nat)) : Prop :=
  List.Forall₂ (fun s cs => cs.sum = s) shape chunks

/-- number of blocks = product of the per-axis block counts -/
theorem length_product (xss : List (List α)) : (product xss).length = (xss.map List.length).prod := by
  induction xss with
  | nil => rfl
  | cons xs rest ih =>
    simp only [product, List.length_flatMap, List.length_map, ih, List.map_cons, List.prod_cons]
    simp

/-- every multi-index of the product picks one element per axis -/
theorem mem_product (xss : List (List α)) (t : List α) :
    t ∈ product xss ↔ List.Forall₂ (fun x xs => x ∈ xs) t xss := by
  induction xss generalizing t with
  | nil =>
    simp only [product, List.mem_singleton]
    constructor
    · rintro rfl; exact List.Forall₂.nil
    · intro h; cases h; rfl
  | cons xs rest ih =>
    simp only [product, List.mem_flatMap, List.mem_map]
    constructor
    · rintro ⟨x, hx, t', ht', rfl⟩
      exact List.Forall₂.cons hx ((ih t').1 ht')
    · intro h
      cases h with
      | cons hx hrest => exact ⟨_, hx, _, (ih _).2 hrest, rfl⟩

end AbtemVerif.Partition
