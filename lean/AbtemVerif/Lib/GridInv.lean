/-
C17 support library: bridge lemmas pinning the generated per-dimension expressions of `Gen/Grid.lean` to the
formulas of the property, per-dimension arithmetic facts, `zipWith3` lemmas, and the grid invariant `Inv`
(see Props/C17.lean for the property theorems).  Theorems of this file count as obligations of C17.
-/
import AbtemVerif.Model.Grid
import Mathlib.Data.Rat.Floor
import Mathlib.Tactic.FieldSimp
import Mathlib.Tactic.Ring
import Mathlib.Tactic.Linarith

namespace AbtemVerif.Props.C17
open AbtemVerif.Grid AbtemVerif.Py AbtemVerif.Gen.Grid

/-! ### bridge: the generated per-dimension expressions are the formulas of the property -/

/-- minimal admissible number of grid points in a dimension -/
def minG (e : Bool) : Int := if e then 2 else 1

theorem adjustExtentElt_spec (n : Int) (d : Rat) (e : Bool) :
    adjustExtentElt n d e = if e then ((n : Rat) - 1) * d else (n : Rat) * d := by
  unfold adjustExtentElt; cases e <;> simp

theorem adjustGptsElt_spec (r d : Rat) (e : Bool) :
    adjustGptsElt r d e = if e then (r / d).ceil + 1 else (r / d).ceil := by
  unfold adjustGptsElt pyInt pyCeil
  cases e <;> simp [Rat.ceil_intCast, Rat.floor_intCast]

theorem adjustSamplingElt_spec (r : Rat) (n : Int) (e : Bool) :
    adjustSamplingElt r n e
      = if e then (if (n : Rat) - 1 = 0 then 0 else r / ((n : Rat) - 1)) else (if (n : Rat) = 0 then 0 else r / (n : Rat)) := by
  unfold adjustSamplingElt safeDivide
  cases e <;> simp

theorem reciprocalElt_spec (n : Int) (d : Rat) : reciprocalElt n d = 1 / ((n : Rat) * d) := by
  unfold reciprocalElt; rfl

/-! ### per-dimension facts -/

lemma minG_pos (e : Bool) : 1 ≤ minG e := by unfold minG; cases e <;> simp

/-- `_adjust_gpts` yields an admissible number of points for positive extent and sampling -/
lemma adjustGpts_good (r d : Rat) (e : Bool) (hr : 0 < r) (hd : 0 < d) : minG e ≤ adjustGptsElt r d e := by
  rw [adjustGptsElt_spec]
  have hq : (0 : Rat) < r / d := div_pos hr hd
  have : (0 : Int) < (r / d).ceil := Rat.lt_ceil_iff.mpr (by simpa using hq)
  unfold minG; cases e <;> simp <;> omega

lemma cast_sub_one_pos {n : Int} (h : 2 ≤ n) : (0 : Rat) < (n : Rat) - 1 := by
  have : (2 : Rat) ≤ (n : Rat) := by exact_mod_cast h
  linarith

lemma cast_pos_of_one_le {n : Int} (h : 1 ≤ n) : (0 : Rat) < (n : Rat) := by
  have : (1 : Rat) ≤ (n : Rat) := by exact_mod_cast h
  linarith

/-- `_adjust_sampling` yields a positive sampling that reproduces the extent exactly -/
lemma adjustSampling_cons (r : Rat) (n : Int) (e : Bool) (hr : 0 < r) (hn : minG e ≤ n) :
    0 < adjustSamplingElt r n e ∧ r = adjustExtentElt n (adjustSamplingElt r n e) e := by
  rw [adjustExtentElt_spec, adjustSamplingElt_spec]
  cases e with
  | true =>
    have h := cast_sub_one_pos (by simpa [minG] using hn : (2 : Int) ≤ n)
    have hne : (n : Rat) - 1 ≠ 0 := ne_of_gt h
    simp only [if_true, hne, if_false]
    exact ⟨div_pos hr h, by field_simp⟩
  | false =>
    have h := cast_pos_of_one_le (by simpa [minG] using hn : (1 : Int) ≤ n)
    have hne : (n : Rat) ≠ 0 := ne_of_gt h
    simp only [hne, if_false, Bool.false_eq_true]
    exact ⟨div_pos hr h, by field_simp⟩

/-- `_adjust_extent` yields a positive extent -/
lemma adjustExtent_pos (n : Int) (d : Rat) (e : Bool) (hd : 0 < d) (hn : minG e ≤ n) : 0 < adjustExtentElt n d e := by
  rw [adjustExtentElt_spec]
  cases e with
  | true => simpa using mul_pos (cast_sub_one_pos (by simpa [minG] using hn : (2 : Int) ≤ n)) hd
  | false => simpa using mul_pos (cast_pos_of_one_le (by simpa [minG] using hn : (1 : Int) ≤ n)) hd

/-! ### `zipWith3` -/

lemma zipWith3_length {α β γ δ} (f : α → β → γ → δ) (k : Nat) :
    ∀ (as : List α) (bs : List β) (cs : List γ), as.length = k → bs.length = k → cs.length = k →
      (zipWith3 f as bs cs).length = k := by
  induction k with
  | zero =>
    intro as bs cs ha hb hc
    cases as <;> cases bs <;> cases cs <;> simp_all [zipWith3]
  | succ k ih =>
    intro as bs cs ha hb hc
    cases as with
    | nil => simp at ha
    | cons a as => cases bs with
      | nil => simp at hb
      | cons b bs => cases cs with
        | nil => simp at hc
        | cons c cs =>
          simp only [zipWith3, List.length_cons] at *
          rw [ih as bs cs (by omega) (by omega) (by omega)]

lemma zipWith3_getElem? {α β γ δ} (f : α → β → γ → δ) :
    ∀ (as : List α) (bs : List β) (cs : List γ) (i : Nat) (x : δ), (zipWith3 f as bs cs)[i]? = some x →
      ∃ a b c, as[i]? = some a ∧ bs[i]? = some b ∧ cs[i]? = some c ∧ x = f a b c := by
  intro as
  induction as with
  | nil => intro bs cs i x h; simp [zipWith3] at h
  | cons a as ih =>
    intro bs cs i x h
    cases bs with
    | nil => simp [zipWith3] at h
    | cons b bs => cases cs with
      | nil => simp [zipWith3] at h
      | cons c cs =>
        cases i with
        | zero => simp [zipWith3] at h; exact ⟨a, b, c, by simp, by simp, by simp, h.symm⟩
        | succ i =>
          simp only [zipWith3, List.getElem?_cons_succ] at h
          obtain ⟨a', b', c', h1, h2, h3, h4⟩ := ih bs cs i x h
          exact ⟨a', b', c', by simpa using h1, by simpa using h2, by simpa using h3, h4⟩

lemma zipWith3_mem {α β γ δ} (f : α → β → γ → δ) (as : List α) (bs : List β) (cs : List γ) (x : δ)
    (h : x ∈ zipWith3 f as bs cs) :
    ∃ (i : Nat) (a : α) (b : β) (c : γ), as[i]? = some a ∧ bs[i]? = some b ∧ cs[i]? = some c ∧ x = f a b c := by
  obtain ⟨i, hi⟩ := List.mem_iff_getElem?.mp h
  obtain ⟨a, b, c, h1, h2, h3, h4⟩ := zipWith3_getElem? f as bs cs i x hi
  exact ⟨i, a, b, c, h1, h2, h3, h4⟩

/-! ### the invariant -/

def PosL (l : List Rat) : Prop := ∀ x ∈ l, 0 < x

/-- every entry is admissible for the endpoint flag of its dimension -/
def GoodL (ns : List Int) (ep : List Bool) : Prop := ∀ (i : Nat) n e, ns[i]? = some n → ep[i]? = some e → minG e ≤ n

/-- `extent = gpts × sampling` (`(gpts − 1) × sampling` with endpoint) in every dimension -/
def ConsL (rs : List Rat) (ns : List Int) (ds : List Rat) (ep : List Bool) : Prop :=
  ∀ (i : Nat) r n d e, rs[i]? = some r → ns[i]? = some n → ds[i]? = some d → ep[i]? = some e → r = adjustExtentElt n d e

structure Inv (g : Grid) : Prop where
  ep : g.endpoint.length = g.dims
  extLen : ∀ rs, g.extent = some rs → rs.length = g.dims
  gpLen : ∀ ns, g.gpts = some ns → ns.length = g.dims
  saLen : ∀ ds, g.sampling = some ds → ds.length = g.dims
  extPos : ∀ rs, g.extent = some rs → PosL rs
  saPos : ∀ ds, g.sampling = some ds → PosL ds
  gpGood : ∀ ns, g.gpts = some ns → GoodL ns g.endpoint
  /-- a grid with extent and gpts has a sampling, and the three agree -/
  cons : ∀ rs ns, g.extent = some rs → g.gpts = some ns → ∃ ds, g.sampling = some ds ∧ ConsL rs ns ds g.endpoint

/-- admissible assigned values (the guards of the property) -/
def PosVal : Val → Prop
  | .none => True
  | .scalar x => 0 < x
  | .seq xs => PosL xs

def GoodVal (ep : List Bool) : Val → Prop
  | .none => True
  | .scalar x => ∀ e ∈ ep, minG e ≤ pyInt x
  | .seq xs => ∀ (i : Nat) x e, xs[i]? = some x → ep[i]? = some e → minG e ≤ pyInt x

def ValidOp (ep : List Bool) : Op → Prop
  | .setExtent v => PosVal v
  | .setGpts v => GoodVal ep v
  | .setSampling v => PosVal v

/-! ### building the invariant for the three shapes of state a setter can produce -/

lemma mem_of_getElem? {α} {l : List α} {i : Nat} {a : α} (h : l[i]? = some a) : a ∈ l :=
  List.mem_of_getElem? h

/-- shape β: extent `rs`, gpts `ns`, sampling recomputed from them by `_adjust_sampling` -/
lemma inv_sampling_recomputed (g' : Grid) (rs : List Rat) (ns : List Int)
    (hep : g'.endpoint.length = g'.dims) (hrl : rs.length = g'.dims) (hnl : ns.length = g'.dims)
    (hr : PosL rs) (hn : GoodL ns g'.endpoint)
    (he : g'.extent = some rs) (hg : g'.gpts = some ns)
    (hs : g'.sampling = some (zipWith3 adjustSamplingElt rs ns g'.endpoint)) : Inv g' where
  ep := hep
  extLen := by intro rs' h; rw [he] at h; cases h; exact hrl
  gpLen := by intro ns' h; rw [hg] at h; cases h; exact hnl
  saLen := by intro ds h; rw [hs] at h; cases h; exact zipWith3_length _ _ _ _ _ hrl hnl hep
  extPos := by intro rs' h; rw [he] at h; cases h; exact hr
  saPos := by
    intro ds h; rw [hs] at h; cases h
    intro x hx
    obtain ⟨i, r, n, e, h1, h2, h3, h4⟩ := zipWith3_mem _ _ _ _ _ hx
    rw [h4]; exact (adjustSampling_cons r n e (hr r (mem_of_getElem? h1)) (hn i n e h2 h3)).1
  gpGood := by intro ns' h; rw [hg] at h; cases h; exact hn
  cons := by
    intro rs' ns' h1 h2; rw [he] at h1; rw [hg] at h2; cases h1; cases h2
    refine ⟨_, hs, ?_⟩
    intro i r n d e hr' hn' hd' he'
    obtain ⟨r2, n2, e2, k1, k2, k3, k4⟩ := zipWith3_getElem? _ _ _ _ i d hd'
    rw [hr'] at k1; rw [hn'] at k2; rw [he'] at k3; cases k1; cases k2; cases k3
    rw [k4]; exact (adjustSampling_cons r n e (hr r (mem_of_getElem? hr')) (hn i n e hn' he')).2

/-- shape γ: gpts `ns`, sampling `ds`, extent computed from them by `_adjust_extent` -/
lemma inv_extent_computed (g' : Grid) (ns : List Int) (ds : List Rat)
    (hep : g'.endpoint.length = g'.dims) (hnl : ns.length = g'.dims) (hdl : ds.length = g'.dims)
    (hd : PosL ds) (hn : GoodL ns g'.endpoint)
    (he : g'.extent = some (zipWith3 adjustExtentElt ns ds g'.endpoint)) (hg : g'.gpts = some ns)
    (hs : g'.sampling = some ds) : Inv g' where
  ep := hep
  extLen := by intro rs' h; rw [he] at h; cases h; exact zipWith3_length _ _ _ _ _ hnl hdl hep
  gpLen := by intro ns' h; rw [hg] at h; cases h; exact hnl
  saLen := by intro ds' h; rw [hs] at h; cases h; exact hdl
  extPos := by
    intro rs' h; rw [he] at h; cases h
    intro x hx
    obtain ⟨i, n, d, e, h1, h2, h3, h4⟩ := zipWith3_mem _ _ _ _ _ hx
    rw [h4]; exact adjustExtent_pos n d e (hd d (mem_of_getElem? h2)) (hn i n e h1 h3)
  saPos := by intro ds' h; rw [hs] at h; cases h; exact hd
  gpGood := by intro ns' h; rw [hg] at h; cases h; exact hn
  cons := by
    intro rs' ns' h1 h2; rw [he] at h1; rw [hg] at h2; cases h1; cases h2
    refine ⟨_, hs, ?_⟩
    intro i r n d e hr' hn' hd' he'
    obtain ⟨n2, d2, e2, k1, k2, k3, k4⟩ := zipWith3_getElem? _ _ _ _ i r hr'
    rw [hn'] at k1; rw [hd'] at k2; rw [he'] at k3; cases k1; cases k2; cases k3
    exact k4

/-- shape ε: extent or gpts undefined — nothing to agree on -/
lemma inv_partial (g' : Grid) (hep : g'.endpoint.length = g'.dims)
    (hu : g'.extent = none ∨ g'.gpts = none)
    (h1 : ∀ rs, g'.extent = some rs → rs.length = g'.dims ∧ PosL rs)
    (h2 : ∀ ns, g'.gpts = some ns → ns.length = g'.dims ∧ GoodL ns g'.endpoint)
    (h3 : ∀ ds, g'.sampling = some ds → ds.length = g'.dims ∧ PosL ds) : Inv g' where
  ep := hep
  extLen := fun rs h => (h1 rs h).1
  gpLen := fun ns h => (h2 ns h).1
  saLen := fun ds h => (h3 ds h).1
  extPos := fun rs h => (h1 rs h).2
  saPos := fun ds h => (h3 ds h).2
  gpGood := fun ns h => (h2 ns h).2
  cons := by
    intro rs ns hr hn
    rcases hu with hu | hu
    · rw [hu] at hr; cases hr
    · rw [hu] at hn; cases hn

/-- `_adjust_gpts` on positive lists gives admissible gpts -/
lemma goodL_adjustGpts (rs ds : List Rat) (ep : List Bool) (hr : PosL rs) (hd : PosL ds) :
    GoodL (zipWith3 adjustGptsElt rs ds ep) ep := by
  intro i n e hn he
  obtain ⟨r, d, e2, k1, k2, k3, k4⟩ := zipWith3_getElem? _ _ _ _ i n hn
  rw [he] at k3; cases k3
  rw [k4]; exact adjustGpts_good r d e (hr r (mem_of_getElem? k1)) (hd d (mem_of_getElem? k2))

lemma posL_adjustExtent (ns : List Int) (ds : List Rat) (ep : List Bool) (hn : GoodL ns ep) (hd : PosL ds) :
    PosL (zipWith3 adjustExtentElt ns ds ep) := by
  intro x hx
  obtain ⟨i, n, d, e, h1, h2, h3, h4⟩ := zipWith3_mem _ _ _ _ _ hx
  rw [h4]; exact adjustExtent_pos n d e (hd d (mem_of_getElem? h2)) (hn i n e h1 h3)

/-- positive samplings never trigger the ZeroDivisionError of `_adjust_gpts` -/
lemma no_zero_of_pos (rs ds : List Rat) (ep : List Bool) (hd : PosL ds) :
    ((rs.zip ds).zip ep).any (fun x => decide (x.1.2 = 0)) = false := by
  rw [List.any_eq_false]
  intro x hx
  have h1 : x.1 ∈ rs.zip ds := (List.of_mem_zip hx).1
  have h2 : x.1.2 ∈ ds := (List.of_mem_zip h1).2
  have := hd _ h2
  simp only [decide_eq_true_eq]
  exact ne_of_gt this

/-! ### the adjust helpers, computed -/

lemma adjustExtent_eq (g : Grid) (ns : List Int) (ds : List Rat)
    (hep : g.endpoint.length = g.dims) (hnl : ns.length = g.dims) (hdl : ds.length = g.dims) :
    adjustExtent g (some ns) (some ds) = ({ g with extent := some (zipWith3 adjustExtentElt ns ds g.endpoint) }, none) := by
  have := zipWith3_length adjustExtentElt g.dims ns ds g.endpoint hnl hdl hep
  simp [adjustExtent, this]

lemma adjustSampling_eq (g : Grid) (rs : List Rat) (ns : List Int)
    (hep : g.endpoint.length = g.dims) (hrl : rs.length = g.dims) (hnl : ns.length = g.dims) :
    adjustSampling g (some rs) (some ns) = ({ g with sampling := some (zipWith3 adjustSamplingElt rs ns g.endpoint) }, none) := by
  have := zipWith3_length adjustSamplingElt g.dims rs ns g.endpoint hrl hnl hep
  simp [adjustSampling, this]

lemma adjustGpts_eq (g : Grid) (rs ds : List Rat) (hd : PosL ds) :
    adjustGpts g (some rs) (some ds) = ({ g with gpts := some (zipWith3 adjustGptsElt rs ds g.endpoint) }, none) := by
  simp [adjustGpts, no_zero_of_pos rs ds g.endpoint hd]

/-! ### validation -/

lemma validate_pos {k : Nat} {v : Val} {l : List Rat} (h : validate k v = .ok (some l)) (hv : PosVal v) :
    l.length = k ∧ PosL l := by
  cases v with
  | none => simp [validate] at h
  | scalar x =>
    simp only [validate, Except.ok.injEq, Option.some.injEq] at h; subst h
    exact ⟨by simp, fun y hy => by rw [List.eq_of_mem_replicate hy]; exact hv⟩
  | seq xs =>
    simp only [validate] at h
    split at h
    · cases h
    · simp only [Except.ok.injEq, Option.some.injEq] at h; subst h
      exact ⟨by omega, hv⟩

lemma validate_good {k : Nat} {v : Val} {l : List Rat} {ep : List Bool} (h : validate k v = .ok (some l))
    (hv : GoodVal ep v) : l.length = k ∧ GoodL (l.map pyInt) ep := by
  cases v with
  | none => simp [validate] at h
  | scalar x =>
    simp only [validate, Except.ok.injEq, Option.some.injEq] at h; subst h
    refine ⟨by simp, ?_⟩
    intro i n e hn he
    simp only [List.map_replicate, List.getElem?_replicate] at hn
    split at hn
    · cases hn; exact hv e (mem_of_getElem? he)
    · cases hn
  | seq xs =>
    simp only [validate] at h
    split at h
    · cases h
    · simp only [Except.ok.injEq, Option.some.injEq] at h; subst h
      refine ⟨by omega, ?_⟩
      intro i n e hn he
      simp only [List.getElem?_map, Option.map_eq_some_iff] at hn
      obtain ⟨x, hx, rfl⟩ := hn
      exact hv i x e hx he

lemma validate_none {k : Nat} {v : Val} (h : validate k v = .ok none) : v = Val.none := by
  cases v with
  | none => rfl
  | scalar x => simp [validate] at h
  | seq xs => simp only [validate] at h; split at h <;> cases h

/-! ### the three setter bodies preserve the invariant (they may raise: two locks determine the third quantity) -/

lemma setExtentCore_inv (g : Grid) (rs : List Rat) (hI : Inv g) (hl : rs.length = g.dims) (hp : PosL rs) :
    Inv (setExtentCore g (some rs)).1 := by
  have shapeGS : ∀ ds, g.sampling = some ds →
      Inv ({ g with gpts := some (zipWith3 adjustGptsElt rs ds g.endpoint), sampling := some (zipWith3 adjustSamplingElt rs (zipWith3 adjustGptsElt rs ds g.endpoint) g.endpoint), extent := some rs } : Grid) := by
    intro ds hs
    have hdl := hI.saLen ds hs
    have hGl := zipWith3_length adjustGptsElt g.dims rs ds g.endpoint hl hdl hI.ep
    exact inv_sampling_recomputed _ rs (zipWith3 adjustGptsElt rs ds g.endpoint) hI.ep hl hGl hp
      (goodL_adjustGpts rs ds g.endpoint hp (hI.saPos ds hs)) rfl rfl rfl
  have shapeS : ∀ ns, g.gpts = some ns →
      Inv ({ g with sampling := some (zipWith3 adjustSamplingElt rs ns g.endpoint), extent := some rs } : Grid) := by
    intro ns hg
    exact inv_sampling_recomputed _ rs ns hI.ep hl (hI.gpLen ns hg) hp (hI.gpGood ns hg) rfl hg rfl
  rcases hg : g.gpts with _ | ns
  · rcases hs : g.sampling with _ | ds
    · have key : setExtentCore g (some rs) = ({ g with extent := some rs }, none) := by
        simp [setExtentCore, hs, hg, adjustGpts, adjustSampling, Res.bind]
      rw [key]
      refine inv_partial _ hI.ep (Or.inr hg) ?_ ?_ ?_
      · intro rs' h; cases h; exact ⟨hl, hp⟩
      · intro ns h; simp [hg] at h
      · intro ds h; simp [hs] at h
    · have hdl := hI.saLen ds hs
      have hGl := zipWith3_length adjustGptsElt g.dims rs ds g.endpoint hl hdl hI.ep
      have hSl := zipWith3_length adjustSamplingElt g.dims rs (zipWith3 adjustGptsElt rs ds g.endpoint) g.endpoint hl hGl hI.ep
      have key : setExtentCore g (some rs) = ({ g with gpts := some (zipWith3 adjustGptsElt rs ds g.endpoint), sampling := some (zipWith3 adjustSamplingElt rs (zipWith3 adjustGptsElt rs ds g.endpoint) g.endpoint), extent := some rs }, none) := by
        simp [setExtentCore, hs, hg, adjustGpts, adjustSampling, no_zero_of_pos rs ds g.endpoint (hI.saPos ds hs), hSl, Res.bind]
      rw [key]; exact shapeGS ds hs
  · have hnl := hI.gpLen ns hg
    have hSl := zipWith3_length adjustSamplingElt g.dims rs ns g.endpoint hl hnl hI.ep
    rcases hls : g.lockSampling with _ | _
    · have key : setExtentCore g (some rs)
          = ({ g with sampling := some (zipWith3 adjustSamplingElt rs ns g.endpoint), extent := some rs }, none) := by
        simp [setExtentCore, hg, hls, adjustSampling, hSl, Res.bind]
      rw [key]; exact shapeS ns hg
    · rcases hs : g.sampling with _ | ds
      · have key : setExtentCore g (some rs)
            = ({ g with sampling := some (zipWith3 adjustSamplingElt rs ns g.endpoint), extent := some rs }, none) := by
          simp [setExtentCore, hg, hls, hs, adjustGpts, adjustSampling, hSl, Res.bind]
        rw [key]; exact shapeS ns hg
      · rcases hlg : g.lockGpts with _ | _
        · have hdl := hI.saLen ds hs
          have hGl := zipWith3_length adjustGptsElt g.dims rs ds g.endpoint hl hdl hI.ep
          have hSl' := zipWith3_length adjustSamplingElt g.dims rs (zipWith3 adjustGptsElt rs ds g.endpoint) g.endpoint hl hGl hI.ep
          have key : setExtentCore g (some rs) = ({ g with gpts := some (zipWith3 adjustGptsElt rs ds g.endpoint), sampling := some (zipWith3 adjustSamplingElt rs (zipWith3 adjustGptsElt rs ds g.endpoint) g.endpoint), extent := some rs }, none) := by
            simp [setExtentCore, hs, hg, hls, hlg, adjustGpts, adjustSampling, no_zero_of_pos rs ds g.endpoint (hI.saPos ds hs), hSl', Res.bind]
          rw [key]; exact shapeGS ds hs
        · have key : setExtentCore g (some rs) = (g, some "runtime_error") := by
            simp [setExtentCore, hg, hls, hs, hlg, Res.bind]
          rw [key]; exact hI

lemma setGptsCore_inv (g : Grid) (ns : List Int) (hI : Inv g) (hl : ns.length = g.dims) (hn : GoodL ns g.endpoint) :
    Inv (setGptsCore g (some ns)).1 := by
  have shapeE : ∀ ds, g.sampling = some ds →
      Inv ({ g with extent := some (zipWith3 adjustExtentElt ns ds g.endpoint), gpts := some ns } : Grid) := by
    intro ds hs
    exact inv_extent_computed _ ns ds hI.ep hl (hI.saLen ds hs) (hI.saPos ds hs) hn rfl rfl hs
  have shapeS : ∀ rs, g.extent = some rs →
      Inv ({ g with sampling := some (zipWith3 adjustSamplingElt rs ns g.endpoint), gpts := some ns } : Grid) := by
    intro rs he
    exact inv_sampling_recomputed _ rs ns hI.ep (hI.extLen rs he) hl (hI.extPos rs he) hn he rfl rfl
  rcases hs : g.sampling with _ | ds
  · rcases he : g.extent with _ | rs
    · have key : setGptsCore g (some ns) = ({ g with gpts := some ns }, none) := by
        simp [setGptsCore, he, hs, adjustExtent, Res.bind]
      rw [key]
      refine inv_partial _ hI.ep (Or.inl he) ?_ ?_ ?_
      · intro rs h; simp [he] at h
      · intro ns' h; cases h; exact ⟨hl, hn⟩
      · intro ds h; simp [hs] at h
    · have hSl := zipWith3_length adjustSamplingElt g.dims rs ns g.endpoint (hI.extLen rs he) hl hI.ep
      have key : setGptsCore g (some ns)
          = ({ g with sampling := some (zipWith3 adjustSamplingElt rs ns g.endpoint), gpts := some ns }, none) := by
        simp [setGptsCore, he, hs, adjustSampling, hSl, Res.bind]
      rw [key]; exact shapeS rs he
  · have hEl := zipWith3_length adjustExtentElt g.dims ns ds g.endpoint hl (hI.saLen ds hs) hI.ep
    rcases hls : g.lockSampling with _ | _
    · rcases he : g.extent with _ | rs
      · have key : setGptsCore g (some ns)
            = ({ g with extent := some (zipWith3 adjustExtentElt ns ds g.endpoint), gpts := some ns }, none) := by
          simp [setGptsCore, hls, he, hs, adjustExtent, hEl, Res.bind]
        rw [key]; exact shapeE ds hs
      · have hSl := zipWith3_length adjustSamplingElt g.dims rs ns g.endpoint (hI.extLen rs he) hl hI.ep
        have key : setGptsCore g (some ns)
            = ({ g with sampling := some (zipWith3 adjustSamplingElt rs ns g.endpoint), gpts := some ns }, none) := by
          simp [setGptsCore, hls, he, hs, adjustSampling, hSl, Res.bind]
        rw [key]; exact shapeS rs he
    · rcases he : g.extent with _ | rs
      · have key : setGptsCore g (some ns)
            = ({ g with extent := some (zipWith3 adjustExtentElt ns ds g.endpoint), gpts := some ns }, none) := by
          simp [setGptsCore, hls, he, hs, adjustExtent, hEl, Res.bind]
        rw [key]; exact shapeE ds hs
      · rcases hle : g.lockExtent with _ | _
        · have key : setGptsCore g (some ns)
              = ({ g with extent := some (zipWith3 adjustExtentElt ns ds g.endpoint), gpts := some ns }, none) := by
            simp [setGptsCore, hls, he, hs, hle, adjustExtent, hEl, Res.bind]
          rw [key]; exact shapeE ds hs
        · have key : setGptsCore g (some ns) = (g, some "runtime_error") := by
            simp [setGptsCore, hls, he, hs, hle, Res.bind]
          rw [key]; exact hI

lemma setGptsCore_none_inv (g : Grid) (hI : Inv g) : Inv (setGptsCore g none).1 := by
  have hpart : Inv ({ g with gpts := none } : Grid) := by
    refine inv_partial _ hI.ep (Or.inr rfl) ?_ ?_ ?_
    · intro rs h; exact ⟨hI.extLen rs h, hI.extPos rs h⟩
    · intro ns h; cases h
    · intro ds h; exact ⟨hI.saLen ds h, hI.saPos ds h⟩
  rcases he : g.extent with _ | rs <;> rcases hls : g.lockSampling with _ | _ <;> rcases hs : g.sampling with _ | ds <;>
    rcases hle : g.lockExtent with _ | _
  all_goals first
    | (have key : setGptsCore g none = ({ g with gpts := none }, none) := by
          simp [setGptsCore, he, hls, hs, hle, adjustExtent, adjustSampling, Res.bind]
       rw [key]; exact hpart)
    | (have key : setGptsCore g none = (g, some "runtime_error") := by
          simp [setGptsCore, he, hls, hs, hle, Res.bind]
       rw [key]; exact hI)

lemma setSamplingCore_inv (g : Grid) (ds : List Rat) (hI : Inv g) (hl : ds.length = g.dims) (hp : PosL ds) :
    Inv (setSamplingCore g (some ds)).1 := by
  -- the gpts are kept (locked, or there is no extent to recompute them from): extent := gpts × sampling
  have caseA : (g.lockGpts = true ∨ g.extent = none) → (g.lockGpts = true → g.lockExtent = true → g.extent.isSome = true → g.gpts = none) →
      Inv (setSamplingCore g (some ds)).1 := by
    intro hc hnr
    rcases hg : g.gpts with _ | ns
    · have key : setSamplingCore g (some ds) = ({ g with sampling := some ds }, none) := by
        rcases hc with hc | hc
        · simp [setSamplingCore, hc, hg, adjustExtent, Res.bind]
        · rcases hlg : g.lockGpts with _ | _ <;> simp [setSamplingCore, hc, hlg, hg, adjustExtent, Res.bind]
      rw [key]
      refine inv_partial _ hI.ep (Or.inr hg) ?_ ?_ ?_
      · intro rs h; exact ⟨hI.extLen rs h, hI.extPos rs h⟩
      · intro ns h; simp [hg] at h
      · intro ds' h; cases h; exact ⟨hl, hp⟩
    · have hnl := hI.gpLen ns hg
      have hng := hI.gpGood ns hg
      have hEl := zipWith3_length adjustExtentElt g.dims ns ds g.endpoint hnl hl hI.ep
      have hSl := zipWith3_length adjustSamplingElt g.dims (zipWith3 adjustExtentElt ns ds g.endpoint) ns g.endpoint hEl hnl hI.ep
      have hnoraise : (g.lockGpts && (g.lockExtent && g.extent.isSome && g.gpts.isSome)) = false := by
        rcases hlg : g.lockGpts with _ | _
        · simp
        · rcases hle : g.lockExtent with _ | _
          · simp
          · rcases hes : g.extent.isSome with _ | _
            · simp
            · have := hnr hlg hle hes; rw [hg] at this; cases this
      have key : setSamplingCore g (some ds)
          = ({ g with extent := some (zipWith3 adjustExtentElt ns ds g.endpoint), sampling := some (zipWith3 adjustSamplingElt (zipWith3 adjustExtentElt ns ds g.endpoint) ns g.endpoint) }, none) := by
        rcases hlg : g.lockGpts with _ | _
        · rcases hc with hc | hc
          · rw [hlg] at hc; cases hc
          · simp [setSamplingCore, hc, hlg, hg, adjustExtent, adjustSampling, hEl, hSl, Res.bind]
        · rw [hlg] at hnoraise
          simp only [Bool.true_and] at hnoraise
          have hnr2 : ¬ (g.lockExtent = true ∧ g.extent.isSome = true) := by
            intro ⟨a, b⟩; simp [a, b, hg] at hnoraise
          simp [setSamplingCore, hlg, hnr2, hg, adjustExtent, adjustSampling, hEl, hSl, Res.bind]
      rw [key]
      exact inv_sampling_recomputed _ _ ns hI.ep hEl hnl (posL_adjustExtent ns ds g.endpoint hng hp) hng rfl hg rfl
  rcases hlg : g.lockGpts with _ | _
  · rcases he : g.extent with _ | rs
    · exact caseA (Or.inr he) (by intro h; simp [hlg] at h)
    · have hrl := hI.extLen rs he
      have hrp := hI.extPos rs he
      have hGl := zipWith3_length adjustGptsElt g.dims rs ds g.endpoint hrl hl hI.ep
      have hSl := zipWith3_length adjustSamplingElt g.dims rs (zipWith3 adjustGptsElt rs ds g.endpoint) g.endpoint hrl hGl hI.ep
      have key : setSamplingCore g (some ds)
          = ({ g with gpts := some (zipWith3 adjustGptsElt rs ds g.endpoint), sampling := some (zipWith3 adjustSamplingElt rs (zipWith3 adjustGptsElt rs ds g.endpoint) g.endpoint) }, none) := by
        simp [setSamplingCore, hlg, he, adjustGpts, adjustSampling, no_zero_of_pos rs ds g.endpoint hp, hSl, Res.bind]
      rw [key]
      exact inv_sampling_recomputed _ rs _ hI.ep hrl hGl hrp (goodL_adjustGpts rs ds g.endpoint hrp hp) he rfl rfl
  · by_cases hr : (g.lockExtent && g.extent.isSome && g.gpts.isSome) = true
    · have key : setSamplingCore g (some ds) = (g, some "runtime_error") := by
        simp [setSamplingCore, hlg, hr, Res.bind]
      rw [key]; exact hI
    · refine caseA (Or.inl hlg) ?_
      intro _ hle hes
      rcases hg : g.gpts with _ | ns
      · rfl
      · exfalso; apply hr; simp [hle, hes, hg]

lemma setSamplingCore_none_inv (g : Grid) (hI : Inv g) : Inv (setSamplingCore g none).1 := by
  by_cases hr : (g.lockGpts && (g.lockExtent && g.extent.isSome && g.gpts.isSome)) = true
  · have key : setSamplingCore g none = (g, some "runtime_error") := by
      have h1 : g.lockGpts = true := by
        rcases h : g.lockGpts with _ | _
        · simp [h] at hr
        · rfl
      have h2 : (g.lockExtent && g.extent.isSome && g.gpts.isSome) = true := by simpa [h1] using hr
      simp [setSamplingCore, h1, h2, Res.bind]
    rw [key]; exact hI
  · have r0 : (if g.lockGpts then (if g.lockExtent && g.extent.isSome && g.gpts.isSome then (g, some "runtime_error") else adjustExtent g g.gpts none)
        else if g.extent.isSome then adjustGpts g g.extent none else adjustExtent g g.gpts none) = (g, none) := by
      rcases hg : g.gpts with _ | ns <;> rcases he : g.extent with _ | rs <;> rcases hlg : g.lockGpts with _ | _ <;>
        rcases hle : g.lockExtent with _ | _ <;> simp_all [adjustExtent, adjustGpts]
    rcases he : g.extent with _ | rs
    · have key : setSamplingCore g none = ({ g with sampling := none }, none) := by
        simp only [setSamplingCore, r0, Res.bind]; simp [he]
      rw [key]
      refine inv_partial _ hI.ep (Or.inl he) ?_ ?_ ?_
      · intro rs h; simp [he] at h
      · intro ns h; exact ⟨hI.gpLen ns h, hI.gpGood ns h⟩
      · intro ds h; cases h
    · rcases hg : g.gpts with _ | ns
      · have key : setSamplingCore g none = ({ g with sampling := none }, none) := by
          simp only [setSamplingCore, r0, Res.bind]; simp [hg]
        rw [key]
        refine inv_partial _ hI.ep (Or.inr hg) ?_ ?_ ?_
        · intro rs h; exact ⟨hI.extLen rs h, hI.extPos rs h⟩
        · intro ns h; simp [hg] at h
        · intro ds h; cases h
      · have hrl := hI.extLen rs he
        have hnl := hI.gpLen ns hg
        have hSl := zipWith3_length adjustSamplingElt g.dims rs ns g.endpoint hrl hnl hI.ep
        have key : setSamplingCore g none
            = ({ g with sampling := some (zipWith3 adjustSamplingElt rs ns g.endpoint) }, none) := by
          simp only [setSamplingCore, r0, Res.bind]; simp [he, hg, adjustSampling, hSl]
        rw [key]
        exact inv_sampling_recomputed _ rs ns hI.ep hrl hnl (hI.extPos rs he) (hI.gpGood ns hg) he hg rfl

lemma validateGpts_some {k : Nat} {v : Val} {ext : Option (List Rat)} {ns : List Int}
    (h : validateGpts k v ext = .ok (some ns)) : ∃ l, validate k v = .ok (some l) ∧ ns = l.map pyInt := by
  unfold validateGpts at h
  rcases hv : validate k v with e | o
  · simp [hv] at h
  · rcases o with _ | l
    · simp [hv] at h
    · simp only [hv] at h
      split at h
      · cases h
      · rcases ext with _ | rs
        · simp only at h
          split at h
          · simp only [Except.ok.injEq, Option.some.injEq] at h; exact ⟨l, rfl, h.symm⟩
          · cases h
        · simp only at h
          split at h
          · cases h
          · simp only [Except.ok.injEq, Option.some.injEq] at h; exact ⟨l, rfl, h.symm⟩

lemma validateGpts_none {k : Nat} {v : Val} {ext : Option (List Rat)} (h : validateGpts k v ext = .ok none) : v = Val.none := by
  unfold validateGpts at h
  rcases hv : validate k v with e | o
  · simp [hv] at h
  · rcases o with _ | l
    · exact validate_none hv
    · simp only [hv] at h
      split at h
      · cases h
      · rcases ext with _ | rs <;> simp only at h <;> split at h <;> cases h

lemma validateGpts_len {k : Nat} {v : Val} {ext : Option (List Rat)} {ns : List Int}
    (h : validateGpts k v ext = .ok (some ns)) : ns.length = k := by
  obtain ⟨l, hl, rfl⟩ := validateGpts_some h
  cases v with
  | none => simp [validate] at hl
  | scalar x => simp only [validate, Except.ok.injEq, Option.some.injEq] at hl; subst hl; simp
  | seq xs =>
    simp only [validate] at hl
    split at hl
    · cases hl
    · simp only [Except.ok.injEq, Option.some.injEq] at hl; subst hl; simp; omega

lemma validateGpts_good {k : Nat} {v : Val} {ext : Option (List Rat)} {ns : List Int} {ep : List Bool}
    (h : validateGpts k v ext = .ok (some ns)) (hv : GoodVal ep v) : ns.length = k ∧ GoodL ns ep := by
  obtain ⟨l, hl, rfl⟩ := validateGpts_some h
  obtain ⟨h1, h2⟩ := validate_good hl hv
  exact ⟨by simpa using h1, h2⟩

end AbtemVerif.Props.C17
