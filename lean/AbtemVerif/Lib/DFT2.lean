/-
Product of two `FourierPair`s: the separable 2-D transform `fft2` (transform along the second axis, then along the
first).  Shows that the abstract structure used by the wave-optics theorems is inhabited by the 2-D DFT
(`zmodPair2 n m` on `ZMod n × ZMod m`), including Parseval with `N = n·m` and the zero-frequency coefficient.
-/
import AbtemVerif.Lib.DFT
import Mathlib.Algebra.BigOperators.Ring.Finset

open Finset BigOperators

namespace AbtemVerif.DFT

variable {ι κ : Type*} [Fintype ι] [Fintype κ]

/-- apply a linear map on functions of the first index, for every value of the second index -/
def alongFst (T : (ι → ℂ) →ₗ[ℂ] (ι → ℂ)) : (ι × κ → ℂ) →ₗ[ℂ] (ι × κ → ℂ) where
  toFun x := fun p => T (fun i => x (i, p.2)) p.1
  map_add' x y := by
    funext p
    show T ((fun i => x (i, p.2)) + (fun i => y (i, p.2))) p.1 = _
    rw [map_add]; rfl
  map_smul' c x := by
    funext p
    show T (c • (fun i => x (i, p.2))) p.1 = _
    rw [map_smul]; rfl

/-- apply a linear map on functions of the second index, for every value of the first index -/
def alongSnd (T : (κ → ℂ) →ₗ[ℂ] (κ → ℂ)) : (ι × κ → ℂ) →ₗ[ℂ] (ι × κ → ℂ) where
  toFun x := fun p => T (fun j => x (p.1, j)) p.2
  map_add' x y := by
    funext p
    show T ((fun j => x (p.1, j)) + (fun j => y (p.1, j))) p.2 = _
    rw [map_add]; rfl
  map_smul' c x := by
    funext p
    show T (c • (fun j => x (p.1, j))) p.2 = _
    rw [map_smul]; rfl

lemma alongFst_cancel (S T : (ι → ℂ) →ₗ[ℂ] (ι → ℂ)) (h : ∀ x, S (T x) = x) (x : ι × κ → ℂ) :
    alongFst (κ := κ) S (alongFst T x) = x := by
  funext p
  show S (fun i => T (fun i' => x (i', p.2)) i) p.1 = x p
  have : (fun i => T (fun i' => x (i', p.2)) i) = T (fun i' => x (i', p.2)) := rfl
  rw [this, h]

lemma alongSnd_cancel (S T : (κ → ℂ) →ₗ[ℂ] (κ → ℂ)) (h : ∀ x, S (T x) = x) (x : ι × κ → ℂ) :
    alongSnd (ι := ι) S (alongSnd T x) = x := by
  funext p
  show S (fun j => T (fun j' => x (p.1, j')) j) p.2 = x p
  have : (fun j => T (fun j' => x (p.1, j')) j) = T (fun j' => x (p.1, j')) := rfl
  rw [this, h]

lemma energy_alongFst (P : FourierPair ι) (x : ι × κ → ℂ) :
    energy (alongFst (κ := κ) P.F x) = (Fintype.card ι : ℝ) * energy x := by
  unfold energy
  rw [Fintype.sum_prod_type_right, Fintype.sum_prod_type_right, Finset.mul_sum]
  apply Finset.sum_congr rfl
  intro l _
  exact P.parseval (fun i => x (i, l))

lemma energy_alongSnd (Q : FourierPair κ) (x : ι × κ → ℂ) :
    energy (alongSnd (ι := ι) Q.F x) = (Fintype.card κ : ℝ) * energy x := by
  unfold energy
  rw [Fintype.sum_prod_type, Fintype.sum_prod_type, Finset.mul_sum]
  apply Finset.sum_congr rfl
  intro i _
  exact Q.parseval (fun j => x (i, j))

/-- separable 2-D transform pair -/
def prodPair (P : FourierPair ι) (Q : FourierPair κ) : FourierPair (ι × κ) where
  F := (alongFst P.F).comp (alongSnd Q.F)
  Finv := (alongSnd Q.Finv).comp (alongFst P.Finv)
  inv_left x := by
    simp only [LinearMap.comp_apply]
    rw [alongFst_cancel P.Finv P.F P.inv_left, alongSnd_cancel Q.Finv Q.F Q.inv_left]
  inv_right y := by
    simp only [LinearMap.comp_apply]
    rw [alongSnd_cancel Q.F Q.Finv Q.inv_right, alongFst_cancel P.F P.Finv P.inv_right]
  parseval x := by
    simp only [LinearMap.comp_apply]
    rw [energy_alongFst, energy_alongSnd, Fintype.card_prod]
    push_cast; ring

/-- the zero-frequency index of the product is the pair of zero-frequency indices -/
theorem prodPair_hasDC (P : FourierPair ι) (Q : FourierPair κ) (z₁ : ι) (z₂ : κ) (h₁ : P.HasDC z₁) (h₂ : Q.HasDC z₂) :
    (prodPair P Q).HasDC (z₁, z₂) where
  dc x := by
    show P.F (fun i => Q.F (fun j => x (i, j)) z₂) z₁ = _
    rw [h₁.dc, Fintype.sum_prod_type]
    apply Finset.sum_congr rfl
    intro i _
    exact h₂.dc _
  const c p hp := by
    show P.F (fun i => Q.F (fun _ => c) p.2) p.1 = 0
    by_cases h2 : p.2 = z₂
    · have h1 : p.1 ≠ z₁ := by
        intro h1; apply hp; exact Prod.ext h1 h2
      exact h₁.const _ _ h1
    · rw [h₂.const c p.2 h2]
      have : (fun _ : ι => (0 : ℂ)) = 0 := rfl
      rw [this, map_zero]; rfl

/-- the 2-D DFT on an `n × m` grid -/
noncomputable def zmodPair2 (n m : ℕ) [NeZero n] [NeZero m] : FourierPair (ZMod n × ZMod m) :=
  prodPair (zmodPair n) (zmodPair m)

theorem zmodPair2_hasDC (n m : ℕ) [NeZero n] [NeZero m] : (zmodPair2 n m).HasDC (0, 0) :=
  prodPair_hasDC _ _ 0 0 (zmodPair_hasDC n) (zmodPair_hasDC m)

/-- Parseval for the 2-D DFT with `N = n·m` pixels -/
theorem zmodPair2_parseval (n m : ℕ) [NeZero n] [NeZero m] (x : ZMod n × ZMod m → ℂ) :
    energy ((zmodPair2 n m).F x) = ((n * m : ℕ) : ℝ) * energy x := by
  have h := (zmodPair2 n m).parseval x
  rwa [Fintype.card_prod, ZMod.card, ZMod.card] at h

end AbtemVerif.DFT
