/-
C25 — calculus of the parametrization kernels (no tables here, so this file checks quickly):

* `F`, `F_eq_ratio`, `Fd`, `F_hasDerivAt`, `Fd_eq_ratio`, `F_strictAntiOn` : the Lobato rational form
  `Σ aᵢ(2+bᵢx)/(1+bᵢx)²`, its derivative, both as ratios of coefficient-list polynomials;
* `lobato_potential_hasDerivAt`, `kirkland_potential_hasDerivAt` : the generated `potential_derivative` IS the
  derivative of the generated `potential`.
-/
import AbtemVerif.Gen.ParamLobatoR
import AbtemVerif.Gen.ParamKirklandR
import AbtemVerif.Lib.ListPoly
import Mathlib.Analysis.SpecialFunctions.ExpDeriv
import Mathlib.Analysis.Calculus.Deriv.Inv
import Mathlib.Analysis.Calculus.Deriv.Pow
import Mathlib.Analysis.Calculus.Deriv.MeanValue
import Mathlib.Tactic.Ring
import Mathlib.Tactic.Linarith
import Mathlib.Tactic.Positivity
import Mathlib.Tactic.FieldSimp

namespace AbtemVerif.ParamCalc
open AbtemVerif.Gen AbtemVerif.ListPoly AbtemVerif.Param

/-! ## the Lobato rational form -/

/-- `Σ a (2 + b x)/(1 + b x)²` over a list of `(a, b)` terms -/
noncomputable def F (ts : List (ℚ × ℚ)) (x : ℝ) : ℝ :=
  (ts.map fun t => (t.1 : ℝ) * (2 + (t.2 : ℝ) * x) / (1 + (t.2 : ℝ) * x) ^ 2).sum

/-- its derivative `-Σ a b (3 + b x)/(1 + b x)³` -/
noncomputable def Fd (ts : List (ℚ × ℚ)) (x : ℝ) : ℝ :=
  (ts.map fun t => -((t.1 : ℝ) * (t.2 : ℝ) * (3 + (t.2 : ℝ) * x) / (1 + (t.2 : ℝ) * x) ^ 3)).sum

lemma F_cons (t : ℚ × ℚ) (ts : List (ℚ × ℚ)) (x : ℝ) :
    F (t :: ts) x = (t.1 : ℝ) * (2 + (t.2 : ℝ) * x) / (1 + (t.2 : ℝ) * x) ^ 2 + F ts x := by simp [F]

lemma Fd_cons (t : ℚ × ℚ) (ts : List (ℚ × ℚ)) (x : ℝ) :
    Fd (t :: ts) x = -((t.1 : ℝ) * (t.2 : ℝ) * (3 + (t.2 : ℝ) * x) / (1 + (t.2 : ℝ) * x) ^ 3) + Fd ts x := by simp [Fd]

lemma F_eq_ratio (ts : List (ℚ × ℚ)) (x : ℝ) (h : ∀ t ∈ ts, 1 + (t.2 : ℝ) * x ≠ 0) :
    peval (numDen ts).2 x ≠ 0 ∧ F ts x = peval (numDen ts).1 x / peval (numDen ts).2 x := by
  induction ts with
  | nil => simp [F, numDen]
  | cons t ts ih =>
    obtain ⟨a, b⟩ := t
    have hb : 1 + (b : ℝ) * x ≠ 0 := h (a, b) (List.mem_cons_self ..)
    obtain ⟨hD, hF⟩ := ih fun t ht => h t (List.mem_cons_of_mem _ ht)
    have hsq : peval (pmul [1, b] [1, b]) x = (1 + (b : ℝ) * x) ^ 2 := by
      rw [peval_pmul]; simp only [peval_cons, peval_nil]; push_cast; ring
    have hlin : peval [2 * a, a * b] x = (a : ℝ) * (2 + (b : ℝ) * x) := by
      simp only [peval_cons, peval_nil]; push_cast; ring
    constructor
    · simp only [numDen, peval_pmul, hsq]
      exact mul_ne_zero (pow_ne_zero 2 hb) hD
    · rw [F_cons, hF]
      simp only [numDen, peval_padd, peval_pmul, hsq, hlin]
      field_simp

lemma Fd_eq_ratio (ts : List (ℚ × ℚ)) (x : ℝ) (h : ∀ t ∈ ts, 1 + (t.2 : ℝ) * x ≠ 0) :
    peval (numDenD ts).2 x ≠ 0 ∧ Fd ts x = -(peval (numDenD ts).1 x / peval (numDenD ts).2 x) := by
  induction ts with
  | nil => simp [Fd, numDenD]
  | cons t ts ih =>
    obtain ⟨a, b⟩ := t
    have hb : 1 + (b : ℝ) * x ≠ 0 := h (a, b) (List.mem_cons_self ..)
    obtain ⟨hD, hF⟩ := ih fun t ht => h t (List.mem_cons_of_mem _ ht)
    have hcu : peval (pmul [1, b] (pmul [1, b] [1, b])) x = (1 + (b : ℝ) * x) ^ 3 := by
      rw [peval_pmul, peval_pmul]; simp only [peval_cons, peval_nil]; push_cast; ring
    have hlin : peval [3 * a * b, a * b * b] x = (a : ℝ) * (b : ℝ) * (3 + (b : ℝ) * x) := by
      simp only [peval_cons, peval_nil]; push_cast; ring
    constructor
    · simp only [numDenD, peval_pmul, hcu]
      exact mul_ne_zero (pow_ne_zero 3 hb) hD
    · rw [Fd_cons, hF]
      simp only [numDenD, peval_padd, peval_pmul, hcu, hlin]
      field_simp
      ring

lemma den_pos (ts : List (ℚ × ℚ)) (hb : ∀ t ∈ ts, (0 : ℚ) < t.2) (x : ℝ) (hx : 0 ≤ x) : 0 < peval (numDen ts).2 x := by
  induction ts with
  | nil => simp [numDen]
  | cons t ts ih =>
    obtain ⟨a, b⟩ := t
    have hb0 : (0 : ℝ) < (b : ℝ) := by exact_mod_cast hb (a, b) (List.mem_cons_self ..)
    have := ih fun t ht => hb t (List.mem_cons_of_mem _ ht)
    simp only [numDen, peval_pmul, peval_cons, peval_nil]
    positivity

lemma denD_pos (ts : List (ℚ × ℚ)) (hb : ∀ t ∈ ts, (0 : ℚ) < t.2) (x : ℝ) (hx : 0 ≤ x) : 0 < peval (numDenD ts).2 x := by
  induction ts with
  | nil => simp [numDenD]
  | cons t ts ih =>
    obtain ⟨a, b⟩ := t
    have hb0 : (0 : ℝ) < (b : ℝ) := by exact_mod_cast hb (a, b) (List.mem_cons_self ..)
    have := ih fun t ht => hb t (List.mem_cons_of_mem _ ht)
    simp only [numDenD, peval_pmul, peval_cons, peval_nil]
    positivity

/-- a table all of whose chunks satisfy `ok` satisfies it everywhere -/
lemma all_of_chunks (t : List (String × List (List ℚ))) (ok : List (List ℚ) → Bool) (n k : ℕ) (hn : 0 < n)
    (hlen : t.length ≤ n * k) (h : ∀ i < k, chunkOK t ok n i = true) : ∀ e ∈ t, ok e.2 = true := by
  intro e he
  obtain ⟨j, hj, rfl⟩ := List.mem_iff_getElem.mp he
  have hi : j / n < k := Nat.div_lt_of_lt_mul (by omega)
  have hc := h (j / n) hi
  simp only [chunkOK, List.all_eq_true] at hc
  apply hc
  have hmod : n * (j / n) + j % n = j := Nat.div_add_mod j n
  have hlt : j % n < n := Nat.mod_lt _ hn
  rw [List.mem_iff_getElem]
  refine ⟨j % n, ?_, ?_⟩
  · simp only [List.length_take, List.length_drop]; omega
  · simp only [List.getElem_take, List.getElem_drop, hmod]

lemma term_hasDerivAt (a b x : ℝ) (hx : 1 + b * x ≠ 0) :
    HasDerivAt (fun x => a * (2 + b * x) / (1 + b * x) ^ 2) (-(a * b * (3 + b * x) / (1 + b * x) ^ 3)) x := by
  have hlin : HasDerivAt (fun x : ℝ => b * x) b x := by simpa using (hasDerivAt_id x).const_mul b
  have hN : HasDerivAt (fun x : ℝ => a * (2 + b * x)) (a * b) x := by
    simpa using ((hlin.const_add 2).const_mul a)
  have hD := (hlin.const_add 1).pow 2
  have h := hN.div hD (by simpa using pow_ne_zero 2 hx)
  refine h.congr_deriv ?_
  simp only [Pi.pow_apply, Nat.cast_ofNat, Nat.add_one_sub_one, pow_one]
  field_simp
  ring

lemma F_hasDerivAt (ts : List (ℚ × ℚ)) (x : ℝ) (h : ∀ t ∈ ts, 1 + (t.2 : ℝ) * x ≠ 0) :
    HasDerivAt (F ts) (Fd ts x) x := by
  induction ts with
  | nil =>
    have : F [] = fun _ => (0 : ℝ) := by funext y; simp [F]
    rw [this]; simpa [Fd] using hasDerivAt_const x (0 : ℝ)
  | cons t ts ih =>
    have h1 := term_hasDerivAt (t.1 : ℝ) (t.2 : ℝ) x (h t (List.mem_cons_self ..))
    have h2 := ih fun t ht => h t (List.mem_cons_of_mem _ ht)
    have hfun : F (t :: ts) = fun y => (t.1 : ℝ) * (2 + (t.2 : ℝ) * y) / (1 + (t.2 : ℝ) * y) ^ 2 + F ts y := by
      funext y; exact F_cons t ts y
    rw [hfun, Fd_cons]
    exact h1.add h2

/-- **strict decrease on `[0, ∞)`** of the rational form under the coefficient hypothesis on `-F'` -/
theorem F_strictAntiOn (ts : List (ℚ × ℚ)) (hb : ∀ t ∈ ts, (0 : ℚ) < t.2)
    (hN : posCoeffs (numDenD ts).1 = true) :
    StrictAntiOn (F ts) (Set.Ici 0) := by
  have hne : ∀ x : ℝ, 0 ≤ x → ∀ t ∈ ts, 1 + (t.2 : ℝ) * x ≠ 0 := by
    intro x hx t ht
    have : (0 : ℝ) < (t.2 : ℝ) := by exact_mod_cast hb t ht
    have : 0 < 1 + (t.2 : ℝ) * x := by positivity
    exact ne_of_gt this
  apply strictAntiOn_of_deriv_neg (convex_Ici 0)
  · intro x hx
    exact (F_hasDerivAt ts x (hne x hx)).continuousAt.continuousWithinAt
  · intro x hx
    rw [interior_Ici] at hx
    have hx0 : (0 : ℝ) ≤ x := le_of_lt hx
    rw [(F_hasDerivAt ts x (hne x hx0)).deriv, (Fd_eq_ratio ts x (hne x hx0)).2]
    exact neg_neg_of_pos (div_pos (peval_pos _ hN x hx0) (denD_pos ts hb x hx0))

/-! ## `potential_derivative` is the derivative of `potential` -/

lemma exp_lin_hasDerivAt (b r : ℝ) : HasDerivAt (fun r : ℝ => Real.exp (-b * r)) (Real.exp (-b * r) * (-b)) r := by
  have : HasDerivAt (fun r : ℝ => -b * r) (-b) r := by simpa using (hasDerivAt_id r).const_mul (-b)
  exact this.exp

lemma lobato_term_hasDerivAt (a b r : ℝ) (hb : b ≠ 0) (hr : r ≠ 0) :
    HasDerivAt (fun r : ℝ => a * (2 / (b * r) + 1) * Real.exp (-b * r))
      (-(a * (2 / (b * r ^ 2) + 2 / r + b) * Real.exp (-b * r))) r := by
  have h1 : HasDerivAt (fun r : ℝ => b * r) b r := by simpa using (hasDerivAt_id r).const_mul b
  have h2 := (hasDerivAt_const r (2 : ℝ)).div h1 (mul_ne_zero hb hr)
  have h3 := exp_lin_hasDerivAt b r
  have h := ((h2.add_const 1).const_mul a).mul h3
  refine h.congr_deriv ?_
  simp only [Pi.div_apply]
  field_simp
  ring

/-- **Lobato**: the generated `potential_derivative` is the derivative of the generated `potential` (r ≠ 0, widths ≠ 0) -/
theorem lobato_potential_hasDerivAt (r a0 a1 a2 a3 a4 b0 b1 b2 b3 b4 : ℝ) (hr : r ≠ 0)
    (h0 : b0 ≠ 0) (h1 : b1 ≠ 0) (h2 : b2 ≠ 0) (h3 : b3 ≠ 0) (h4 : b4 ≠ 0) :
    HasDerivAt (fun r => ParamLobatoR.potential r a0 a1 a2 a3 a4 b0 b1 b2 b3 b4)
      (ParamLobatoR.potentialDerivative r a0 a1 a2 a3 a4 b0 b1 b2 b3 b4) r := by
  unfold ParamLobatoR.potential ParamLobatoR.potentialDerivative
  have h := ((((lobato_term_hasDerivAt a0 b0 r h0 hr).add (lobato_term_hasDerivAt a1 b1 r h1 hr)).add
    (lobato_term_hasDerivAt a2 b2 r h2 hr)).add (lobato_term_hasDerivAt a3 b3 r h3 hr)).add (lobato_term_hasDerivAt a4 b4 r h4 hr)
  refine h.congr_deriv ?_
  ring

lemma yukawa_hasDerivAt (a b r : ℝ) (hr : r ≠ 0) :
    HasDerivAt (fun r : ℝ => a * Real.exp (-b * r) / r) (-a * (1 / r + b) * Real.exp (-b * r) / r) r := by
  have h := ((exp_lin_hasDerivAt b r).const_mul a).div (hasDerivAt_id r) hr
  refine h.congr_deriv ?_
  simp only [id]
  field_simp
  ring

lemma gauss_hasDerivAt (c d r : ℝ) :
    HasDerivAt (fun r : ℝ => c * Real.exp (-d * r ^ 2)) (-(2 * c * d * r * Real.exp (-d * r ^ 2))) r := by
  have h1 : HasDerivAt (fun r : ℝ => -d * r ^ 2) (-d * (2 * r)) r := by
    simpa using ((hasDerivAt_id r).pow 2).const_mul (-d)
  have h := (h1.exp).const_mul c
  refine h.congr_deriv ?_
  ring

/-- **Kirkland**: the generated `potential_derivative` is the derivative of the generated `potential` (r ≠ 0) -/
theorem kirkland_potential_hasDerivAt (r a0 a1 a2 b0 b1 b2 c0 c1 c2 d0 d1 d2 : ℝ) (hr : r ≠ 0) :
    HasDerivAt (fun r => ParamKirklandR.potential r a0 a1 a2 b0 b1 b2 c0 c1 c2 d0 d1 d2)
      (ParamKirklandR.potentialDerivative r a0 a1 a2 b0 b1 b2 c0 c1 c2 d0 d1 d2) r := by
  unfold ParamKirklandR.potential ParamKirklandR.potentialDerivative
  have h := (((((yukawa_hasDerivAt a0 b0 r hr).add (gauss_hasDerivAt c0 d0 r)).add (yukawa_hasDerivAt a1 b1 r hr)).add
    (gauss_hasDerivAt c1 d1 r)).add (yukawa_hasDerivAt a2 b2 r hr)).add (gauss_hasDerivAt c2 d2 r)
  refine h.congr_deriv ?_
  ring

end AbtemVerif.ParamCalc
