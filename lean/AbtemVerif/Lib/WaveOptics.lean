/-
Real/complex composition of the *generated* wave-optics formulas (Gen/PropagatorR, Gen/PropagatorC — regenerated
from abtem/multislice.py, abtem/antialias.py, abtem/potentials/iam.py, abtem/core/complex.py on every run) into the
symbols the code multiplies waves with, plus their basic analytic facts (unit modulus, [0,1] bounds, oddness in the
propagation distance).  The control flow mirrored here:

* `antialias_aperture`              -> `apertureOf` / `aperture`
* `_fresnel_propagator_array`       -> `fresnel`
* `_apply_tilt_to_fresnel_propagator_array` -> `tiltFactor`
* `FresnelPropagator._calculate_array` -> `propagator` (fresnel · aperture, then base tilt and every tilt axis)
* `PotentialArray._transmission_function` -> `transmission`

The executable Float twin of the same composition is `Model/Propagator.lean`; both are tied to the real array builders
by correspondence (harness/c04.py, harness/c39.py).  Used by Props/C04, Props/C39 (and C05 for `cexp`).
-/
import AbtemVerif.Gen.PropagatorR
import AbtemVerif.Gen.PropagatorC
import Mathlib.Analysis.SpecialFunctions.Trigonometric.Basic
import Mathlib.Analysis.SpecialFunctions.Complex.Circle
import Mathlib.Tactic.Ring
import Mathlib.Tactic.Linarith

namespace AbtemVerif.WaveOptics
open AbtemVerif.Gen.PropagatorR AbtemVerif.Gen.PropagatorC

/-! ### the complex exponential `cos x + i sin x` of abtem/core/complex.py -/

/-- `complex_exponential(x)` for a real phase `x` (generated body). -/
noncomputable def cexp (x : ℝ) : ℂ := complexExponential x

/-- the generated `cos x + 1j * sin x` is `exp(i x)` -/
lemma cexp_eq (x : ℝ) : cexp x = Complex.exp (x * Complex.I) := by
  unfold cexp complexExponential
  rw [Complex.exp_mul_I]; ring

lemma normSq_cexp (x : ℝ) : Complex.normSq (cexp x) = 1 := by
  rw [cexp_eq, Complex.normSq_eq_norm_sq, Complex.norm_exp_ofReal_mul_I]; norm_num

lemma norm_cexp (x : ℝ) : ‖cexp x‖ = 1 := by
  rw [cexp_eq, Complex.norm_exp_ofReal_mul_I]

lemma cexp_zero : cexp 0 = 1 := by simp [cexp_eq]

lemma cexp_add (x y : ℝ) : cexp (x + y) = cexp x * cexp y := by
  simp only [cexp_eq, ← Complex.exp_add]; congr 1; push_cast; ring

lemma cexp_neg (x : ℝ) : cexp (-x) = (starRingEnd ℂ) (cexp x) := by
  simp only [cexp_eq, ← Complex.exp_conj]
  congr 1; simp

lemma cexp_mul_cexp_neg (x : ℝ) : cexp x * cexp (-x) = 1 := by
  rw [← cexp_add]; simp [cexp_zero]

lemma cexp_ne_zero (x : ℝ) : cexp x ≠ 0 := by
  rw [cexp_eq]; exact Complex.exp_ne_zero _

/-! ### antialias aperture -/

/-- `antialias_aperture` at one pixel of radial frequency `r`, for arbitrary `cutoff`, `taper`
(control flow of abtem/antialias.py around the generated pieces). -/
noncomputable def apertureOf (r cutoff taper : ℝ) : ℝ :=
  if apertureTaperTest taper then
    let a := apertureCos r cutoff taper
    let a := if apertureZeroMask r cutoff then apertureZeroValue else a
    apertureWhere r cutoff taper a
  else (if apertureHard r cutoff then 1 else 0)

/-- the aperture as built by the code: cutoff/taper from the configuration defaults and `max(sampling)` -/
noncomputable def aperture (kx ky maxSampling : ℝ) : ℝ :=
  apertureOf (apertureRadius kx ky) (apertureCutoff antialiasCutoff maxSampling) (apertureTaper antialiasTaper maxSampling)

lemma apertureCos_mem (r cutoff taper : ℝ) : 0 ≤ apertureCos r cutoff taper ∧ apertureCos r cutoff taper ≤ 1 := by
  unfold apertureCos
  have h1 := Real.neg_one_le_cos ((Real.pi * ((r - cutoff) + taper)) / taper)
  have h2 := Real.cos_le_one ((Real.pi * ((r - cutoff) + taper)) / taper)
  constructor <;> linarith

/-- values of the antialias aperture lie in `[0, 1]` — for every radius, cutoff and taper (any sign) -/
lemma apertureOf_mem (r cutoff taper : ℝ) : 0 ≤ apertureOf r cutoff taper ∧ apertureOf r cutoff taper ≤ 1 := by
  have hc := apertureCos_mem r cutoff taper
  unfold apertureOf apertureWhere apertureZeroValue
  split_ifs <;> simp_all

/-- inside `cutoff − taper` the tapered aperture is exactly one -/
lemma apertureOf_eq_one (r cutoff taper : ℝ) (ht : 0 < taper) (hr : r ≤ cutoff - taper) :
    apertureOf r cutoff taper = 1 := by
  unfold apertureOf apertureWhere apertureTaperTest
  have : ¬ (r > cutoff - taper) := not_lt.mpr hr
  simp [ht, this]

/-- the hard aperture (`taper ≤ 0`) is one strictly inside the cutoff -/
lemma apertureOf_eq_one_hard (r cutoff taper : ℝ) (ht : taper ≤ 0) (hr : r < cutoff) :
    apertureOf r cutoff taper = 1 := by
  unfold apertureOf apertureTaperTest apertureHard
  have : ¬ (taper > 0) := not_lt.mpr ht
  simp [this, hr]

/-- beyond the cutoff the aperture vanishes -/
lemma apertureOf_eq_zero (r cutoff taper : ℝ) (hr : cutoff < r) : apertureOf r cutoff taper = 0 := by
  unfold apertureOf apertureWhere apertureZeroMask apertureZeroValue apertureHard apertureTaperTest
  have h1 : ¬ (r < cutoff) := not_lt.mpr hr.le
  by_cases ht : taper > 0
  · have h2 : cutoff - taper < r := by linarith
    simp [ht, hr, h2]
  · simp [ht, h1]

lemma aperture_mem (kx ky ms : ℝ) : 0 ≤ aperture kx ky ms ∧ aperture kx ky ms ≤ 1 := apertureOf_mem _ _ _

lemma normSq_ofReal_le_one {a : ℝ} (h0 : 0 ≤ a) (h1 : a ≤ 1) : Complex.normSq (a : ℂ) ≤ 1 := by
  rw [Complex.normSq_ofReal]; nlinarith

/-! ### Fresnel propagator, tilt, transmission -/

/-- `_fresnel_propagator_array` at one pixel (`order == 2` adds the correction factor; the code rejects `order > 2`) -/
noncomputable def fresnel (order : ℕ) (kx ky dz wl : ℝ) : ℂ :=
  let f := cexp (fresnelPhaseX kx dz wl) * cexp (fresnelPhaseY ky dz wl)
  if order = 2 then f * cexp (fresnelPhase2 kx ky dz wl) else f

/-- `_apply_tilt_to_fresnel_propagator_array`: the factor multiplied onto the propagator for one tilt `(tx, ty)` [mrad] -/
noncomputable def tiltFactor (kx ky tx ty dz : ℝ) : ℂ :=
  cexp (tiltPhaseX kx tx dz) * cexp (tiltPhaseY ky ty dz)

/-- `FresnelPropagator._calculate_array`: fresnel · aperture, then the base tilt and every tilt axis in turn -/
noncomputable def propagator (order : ℕ) (kx ky dz wl ms : ℝ) (tilts : List (ℝ × ℝ)) : ℂ :=
  tilts.foldl (fun acc t => tiltFactor kx ky t.1 t.2 dz * acc) (fresnel order kx ky dz wl * (aperture kx ky ms : ℂ))

/-- `PotentialArray._transmission_function` at one pixel -/
noncomputable def transmission (sigma v : ℝ) : ℂ := cexp (transmissionPhase sigma v)

lemma normSq_fresnel (order : ℕ) (kx ky dz wl : ℝ) : Complex.normSq (fresnel order kx ky dz wl) = 1 := by
  unfold fresnel
  split_ifs <;> simp [Complex.normSq_mul, normSq_cexp]

lemma normSq_tiltFactor (kx ky tx ty dz : ℝ) : Complex.normSq (tiltFactor kx ky tx ty dz) = 1 := by
  simp [tiltFactor, Complex.normSq_mul, normSq_cexp]

lemma normSq_transmission (sigma v : ℝ) : Complex.normSq (transmission sigma v) = 1 := normSq_cexp _

/-- a zero tilt contributes the factor 1 (the code skips `base_tilt == (0, 0)`) -/
lemma tiltFactor_zero (kx ky dz : ℝ) : tiltFactor kx ky 0 0 dz = 1 := by
  simp [tiltFactor, tiltPhaseX, tiltPhaseY, cexp_zero]

/-- all tilt factors of a list, as one unit-modulus number -/
noncomputable def tiltProduct (kx ky dz : ℝ) (tilts : List (ℝ × ℝ)) : ℂ :=
  (tilts.map fun t => tiltFactor kx ky t.1 t.2 dz).prod

lemma foldl_tilt (kx ky dz : ℝ) (tilts : List (ℝ × ℝ)) (z : ℂ) :
    tilts.foldl (fun acc t => tiltFactor kx ky t.1 t.2 dz * acc) z = tiltProduct kx ky dz tilts * z := by
  induction tilts generalizing z with
  | nil => simp [tiltProduct]
  | cons t ts ih =>
    simp only [List.foldl_cons, ih, tiltProduct, List.map_cons, List.prod_cons]; ring

lemma normSq_tiltProduct (kx ky dz : ℝ) (tilts : List (ℝ × ℝ)) : Complex.normSq (tiltProduct kx ky dz tilts) = 1 := by
  induction tilts with
  | nil => simp [tiltProduct]
  | cons t ts ih =>
    simp only [tiltProduct, List.map_cons, List.prod_cons, Complex.normSq_mul, normSq_tiltFactor, one_mul]
    exact ih

/-- the propagator symbol factors as (tilts) · (fresnel) · (aperture) -/
lemma propagator_eq (order : ℕ) (kx ky dz wl ms : ℝ) (tilts : List (ℝ × ℝ)) :
    propagator order kx ky dz wl ms tilts
      = tiltProduct kx ky dz tilts * (fresnel order kx ky dz wl * (aperture kx ky ms : ℂ)) := by
  unfold propagator; rw [foldl_tilt]

lemma normSq_propagator (order : ℕ) (kx ky dz wl ms : ℝ) (tilts : List (ℝ × ℝ)) :
    Complex.normSq (propagator order kx ky dz wl ms tilts) = (aperture kx ky ms) ^ 2 := by
  rw [propagator_eq]
  simp [Complex.normSq_mul, normSq_tiltProduct, normSq_fresnel, Complex.normSq_ofReal, sq]

/-! ### oddness in the propagation distance -/

lemma fresnel_neg (order : ℕ) (kx ky dz wl : ℝ) :
    fresnel order kx ky (-dz) wl * fresnel order kx ky dz wl = 1 := by
  have hx : fresnelPhaseX kx (-dz) wl = -fresnelPhaseX kx dz wl := by unfold fresnelPhaseX; ring
  have hy : fresnelPhaseY ky (-dz) wl = -fresnelPhaseY ky dz wl := by unfold fresnelPhaseY; ring
  have h2 : fresnelPhase2 kx ky (-dz) wl = -fresnelPhase2 kx ky dz wl := by unfold fresnelPhase2; ring
  unfold fresnel
  simp only [hx, hy, h2]
  have e := fun x => cexp_mul_cexp_neg x
  split_ifs
  · calc _ = (cexp (fresnelPhaseX kx dz wl) * cexp (-fresnelPhaseX kx dz wl))
            * (cexp (fresnelPhaseY ky dz wl) * cexp (-fresnelPhaseY ky dz wl))
            * (cexp (fresnelPhase2 kx ky dz wl) * cexp (-fresnelPhase2 kx ky dz wl)) := by ring
      _ = 1 := by simp [e]
  · calc _ = (cexp (fresnelPhaseX kx dz wl) * cexp (-fresnelPhaseX kx dz wl))
            * (cexp (fresnelPhaseY ky dz wl) * cexp (-fresnelPhaseY ky dz wl)) := by ring
      _ = 1 := by simp [e]

lemma tiltFactor_neg (kx ky tx ty dz : ℝ) :
    tiltFactor kx ky tx ty (-dz) * tiltFactor kx ky tx ty dz = 1 := by
  have hx : tiltPhaseX kx tx (-dz) = -tiltPhaseX kx tx dz := by unfold tiltPhaseX; ring
  have hy : tiltPhaseY ky ty (-dz) = -tiltPhaseY ky ty dz := by unfold tiltPhaseY; ring
  unfold tiltFactor
  rw [hx, hy]
  calc _ = (cexp (tiltPhaseX kx tx dz) * cexp (-tiltPhaseX kx tx dz))
            * (cexp (tiltPhaseY ky ty dz) * cexp (-tiltPhaseY ky ty dz)) := by ring
    _ = 1 := by simp [cexp_mul_cexp_neg]

lemma tiltProduct_neg (kx ky dz : ℝ) (tilts : List (ℝ × ℝ)) :
    tiltProduct kx ky (-dz) tilts * tiltProduct kx ky dz tilts = 1 := by
  induction tilts with
  | nil => simp [tiltProduct]
  | cons t ts ih =>
    simp only [tiltProduct, List.map_cons, List.prod_cons] at ih ⊢
    calc _ = (tiltFactor kx ky t.1 t.2 (-dz) * tiltFactor kx ky t.1 t.2 dz)
              * ((ts.map fun t => tiltFactor kx ky t.1 t.2 (-dz)).prod * (ts.map fun t => tiltFactor kx ky t.1 t.2 dz).prod) := by ring
      _ = 1 := by rw [tiltFactor_neg, ih]; ring

/-- back-propagation symbol times propagation symbol = aperture² (all phases cancel) -/
lemma propagator_neg_mul (order : ℕ) (kx ky dz wl ms : ℝ) (tilts : List (ℝ × ℝ)) :
    propagator order kx ky (-dz) wl ms tilts * propagator order kx ky dz wl ms tilts
      = ((aperture kx ky ms) ^ 2 : ℝ) := by
  rw [propagator_eq, propagator_eq]
  calc _ = (tiltProduct kx ky (-dz) tilts * tiltProduct kx ky dz tilts)
            * (fresnel order kx ky (-dz) wl * fresnel order kx ky dz wl) * ((aperture kx ky ms : ℂ) * (aperture kx ky ms : ℂ)) := by ring
    _ = _ := by rw [tiltProduct_neg, fresnel_neg]; push_cast; ring

end AbtemVerif.WaveOptics
