/-
Abstract Fourier-space multislice over any `FourierPair` (Lib/DFT.lean): one step is a real-space multiplication by a
transmission function followed (or, transposed, preceded) by a Fourier multiplier.  Mirrors
`abtem/multislice.py: conventional_multislice_step` (transmit -> propagate, or propagate -> transmit when
`transpose=True`) and the slice loop of the multislice drivers (a left fold over the slices).

All statements hold for every index type, every transform pair, every wave and every slice list.
-/
import AbtemVerif.Lib.DFT

open Finset BigOperators

namespace AbtemVerif.FourierMultislice
open AbtemVerif.DFT

variable {ι : Type*} [Fintype ι]

/-- one slice: transmission function `t` (real space) and propagator symbol `p` (reciprocal space) -/
structure Slice (ι : Type*) where
  t : ι → ℂ
  p : ι → ℂ

/-- `TransmissionFunction.transmit`: pointwise product in real space -/
def transmit (t ψ : ι → ℂ) : ι → ℂ := fun j => t j * ψ j

/-- `conventional_multislice_step` -/
def step (P : FourierPair ι) (transpose : Bool) (s : Slice ι) (ψ : ι → ℂ) : ι → ℂ :=
  if transpose then transmit s.t (P.mult s.p ψ) else P.mult s.p (transmit s.t ψ)

/-- the slice loop -/
def multislice (P : FourierPair ι) (transpose : Bool) (slices : List (Slice ι)) (ψ : ι → ℂ) : ι → ℂ :=
  slices.foldl (fun ψ s => step P transpose s ψ) ψ

lemma energy_transmit_le (t ψ : ι → ℂ) (c : ℝ) (hc : 0 ≤ c) (h : ∀ j, Complex.normSq (t j) ≤ c) :
    energy (transmit t ψ) ≤ c * energy ψ :=
  FourierPair.energy_pointwise_le t ψ c hc h

lemma energy_transmit_eq (t ψ : ι → ℂ) (h : ∀ j, Complex.normSq (t j) = 1) :
    energy (transmit t ψ) = energy ψ := by
  unfold energy transmit
  apply Finset.sum_congr rfl; intro j _
  rw [Complex.normSq_mul, h j, one_mul]

/-- One step scales the intensity by at most the bound `c` on `|t|²`, when the propagator symbol is a contraction. -/
theorem step_energy_le [Nonempty ι] (P : FourierPair ι) (tr : Bool) (s : Slice ι) (ψ : ι → ℂ) (c : ℝ) (hc : 0 ≤ c)
    (ht : ∀ j, Complex.normSq (s.t j) ≤ c) (hp : ∀ k, Complex.normSq (s.p k) ≤ 1) :
    energy (step P tr s ψ) ≤ c * energy ψ := by
  unfold step
  cases tr
  · simp only [Bool.false_eq_true, if_false]
    calc energy (P.mult s.p (transmit s.t ψ)) ≤ energy (transmit s.t ψ) := P.energy_mult_le_one _ _ hp
      _ ≤ c * energy ψ := energy_transmit_le _ _ c hc ht
  · simp only [if_true]
    calc energy (transmit s.t (P.mult s.p ψ)) ≤ c * energy (P.mult s.p ψ) := energy_transmit_le _ _ c hc ht
      _ ≤ c * energy ψ := mul_le_mul_of_nonneg_left (P.energy_mult_le_one _ _ hp) hc

/-- Any slice list: the intensity is multiplied by at most the product of the per-slice bounds on `|t|²`. -/
theorem multislice_energy_le [Nonempty ι] (P : FourierPair ι) (tr : Bool) (slices : List (Slice ι)) (cs : List ℝ)
    (h : List.Forall₂ (fun s c => 0 ≤ c ∧ (∀ j, Complex.normSq (s.t j) ≤ c) ∧ ∀ k, Complex.normSq (s.p k) ≤ 1) slices cs)
    (ψ : ι → ℂ) : energy (multislice P tr slices ψ) ≤ cs.prod * energy ψ := by
  unfold multislice
  induction h generalizing ψ with
  | nil => simp
  | @cons s c ss cs' hsc _ ih =>
    simp only [List.foldl_cons, List.prod_cons]
    have hprod : 0 ≤ cs'.prod := by
      rename_i hrest
      clear ih
      induction hrest with
      | nil => simp
      | cons h1 _ ih2 => simp only [List.prod_cons]; exact mul_nonneg h1.1 ih2
    calc _ ≤ cs'.prod * energy (step P tr s ψ) := ih _
      _ ≤ cs'.prod * (c * energy ψ) :=
        mul_le_mul_of_nonneg_left (step_energy_le P tr s ψ c hsc.1 hsc.2.1 hsc.2.2) hprod
      _ = c * cs'.prod * energy ψ := by ring

/-- Contractive slices (`|t| ≤ 1`, `|p| ≤ 1`) never create intensity, whatever the slicing. -/
theorem multislice_energy_le_one [Nonempty ι] (P : FourierPair ι) (tr : Bool) (slices : List (Slice ι))
    (h : ∀ s ∈ slices, (∀ j, Complex.normSq (s.t j) ≤ 1) ∧ ∀ k, Complex.normSq (s.p k) ≤ 1)
    (ψ : ι → ℂ) : energy (multislice P tr slices ψ) ≤ energy ψ := by
  unfold multislice
  induction slices generalizing ψ with
  | nil => simp
  | cons s ss ih =>
    simp only [List.foldl_cons]
    have hs := h s (by simp)
    calc _ ≤ energy (step P tr s ψ) := ih (fun s' hs' => h s' (by simp [hs'])) _
      _ ≤ 1 * energy ψ := step_energy_le P tr s ψ 1 zero_le_one hs.1 hs.2
      _ = energy ψ := one_mul _

/-- Pure phase slices (`|t| = 1`, `|p| = 1`) conserve intensity exactly. -/
theorem multislice_energy_eq [Nonempty ι] (P : FourierPair ι) (tr : Bool) (slices : List (Slice ι))
    (h : ∀ s ∈ slices, (∀ j, Complex.normSq (s.t j) = 1) ∧ ∀ k, Complex.normSq (s.p k) = 1)
    (ψ : ι → ℂ) : energy (multislice P tr slices ψ) = energy ψ := by
  unfold multislice
  induction slices generalizing ψ with
  | nil => simp
  | cons s ss ih =>
    simp only [List.foldl_cons]
    have hs := h s (by simp)
    rw [ih (fun s' hs' => h s' (by simp [hs']))]
    unfold step
    cases tr
    · simp only [Bool.false_eq_true, if_false]
      rw [P.energy_mult_eq _ _ hs.2, energy_transmit_eq _ _ hs.1]
    · simp only [if_true]
      rw [energy_transmit_eq _ _ hs.1, P.energy_mult_eq _ _ hs.2]

/-- band-limiting (`AntialiasAperture.bandlimit`): a Fourier multiplier with a real symbol -/
def bandlimit (P : FourierPair ι) (A : ι → ℝ) (x : ι → ℂ) : ι → ℂ := P.mult (fun k => (A k : ℂ)) x

/-- The band-limited version of a unit-modulus function has *mean* squared modulus at most one … -/
theorem energy_bandlimit_le [Nonempty ι] (P : FourierPair ι) (A : ι → ℝ) (hA : ∀ k, 0 ≤ A k ∧ A k ≤ 1)
    (x : ι → ℂ) : energy (bandlimit P A x) ≤ energy x := by
  apply P.energy_mult_le_one
  intro k
  rw [Complex.normSq_ofReal]
  have := hA k
  nlinarith

/-- … hence every pixel of it is bounded by the total: `|T_bl j|² ≤ Σ|T|²` (= number of pixels for a pure phase object). -/
theorem normSq_bandlimit_le [Nonempty ι] (P : FourierPair ι) (A : ι → ℝ) (hA : ∀ k, 0 ≤ A k ∧ A k ≤ 1)
    (x : ι → ℂ) (j : ι) : Complex.normSq (bandlimit P A x j) ≤ energy x := by
  calc Complex.normSq (bandlimit P A x j) ≤ energy (bandlimit P A x) := by
        unfold energy
        exact Finset.single_le_sum (f := fun j => Complex.normSq (bandlimit P A x j))
          (fun i _ => Complex.normSq_nonneg _) (Finset.mem_univ j)
    _ ≤ energy x := energy_bandlimit_le P A hA x

end AbtemVerif.FourierMultislice
