/-
Real-number counterparts of `Model/PyPrelude.lean` for generated ℝ definitions.
-/
import Mathlib.Analysis.SpecialFunctions.Trigonometric.Arctan
import Mathlib.Analysis.SpecialFunctions.Complex.Arg
import Mathlib.Analysis.SpecialFunctions.Exp
import Mathlib.Analysis.SpecialFunctions.Log.Basic
import Mathlib.Analysis.SpecialFunctions.Sqrt
namespace AbtemVerif.Py

noncomputable def pyIntR (x : ℝ) : ℤ := if 0 ≤ x then ⌊x⌋ else ⌈x⌉
noncomputable def pyFloorR (x : ℝ) : ℤ := ⌊x⌋
noncomputable def pyCeilR (x : ℝ) : ℤ := ⌈x⌉
/-- numpy `clip` -/
noncomputable def pyClipR (x lo hi : ℝ) : ℝ := min (max x lo) hi
/-- numpy `arctan2 y x` = principal argument of `x + i y` -/
noncomputable def pyArctan2 (y x : ℝ) : ℝ := Complex.arg ⟨x, y⟩

end AbtemVerif.Py
