/-
Explicit 2-point and 4-point discrete Fourier transform pairs as `FourierPair` instances with closed-form entries
(`ω = -i` for N = 4), used for concrete counter-example witnesses (C04 band-limit overshoot, C15 real/even Nyquist).
-/
import AbtemVerif.Lib.DFT
import Mathlib.Data.Complex.Basic
import Mathlib.Data.Fin.VecNotation
import Mathlib.Algebra.BigOperators.Fin

open Finset BigOperators

namespace AbtemVerif.DFT
open Complex

/-- 4-point DFT, `X k = Σ_j x j · (-i)^(jk)` -/
def F4fun (x : Fin 4 → ℂ) : Fin 4 → ℂ :=
  ![x 0 + x 1 + x 2 + x 3, x 0 - I * x 1 - x 2 + I * x 3, x 0 - x 1 + x 2 - x 3, x 0 + I * x 1 - x 2 - I * x 3]

/-- inverse 4-point DFT (carries the 1/4) -/
noncomputable def F4inv (y : Fin 4 → ℂ) : Fin 4 → ℂ :=
  ![(y 0 + y 1 + y 2 + y 3) / 4, (y 0 + I * y 1 - y 2 - I * y 3) / 4, (y 0 - y 1 + y 2 - y 3) / 4,
    (y 0 - I * y 1 - y 2 + I * y 3) / 4]

def F4lin : (Fin 4 → ℂ) →ₗ[ℂ] (Fin 4 → ℂ) where
  toFun := F4fun
  map_add' x y := by
    funext i; fin_cases i <;> simp [F4fun] <;> ring
  map_smul' c x := by
    funext i; fin_cases i <;> simp [F4fun] <;> ring

noncomputable def F4invlin : (Fin 4 → ℂ) →ₗ[ℂ] (Fin 4 → ℂ) where
  toFun := F4inv
  map_add' x y := by
    funext i; fin_cases i <;> simp [F4inv] <;> ring
  map_smul' c x := by
    funext i; fin_cases i <;> simp [F4inv] <;> ring

lemma I_mul_I_mul (z : ℂ) : I * (I * z) = -z := by
  rw [← mul_assoc, I_mul_I]; ring

/-- the 4-point DFT pair -/
noncomputable def dft4 : FourierPair (Fin 4) where
  F := F4lin
  Finv := F4invlin
  inv_left x := by
    funext i
    fin_cases i <;> simp [F4lin, F4invlin, F4fun, F4inv] <;> ring_nf <;> simp [I_sq] <;> ring
  inv_right y := by
    funext i
    fin_cases i <;> simp [F4lin, F4invlin, F4fun, F4inv] <;> ring_nf <;> simp [I_sq] <;> ring
  parseval x := by
    simp [energy, Fin.sum_univ_four, F4lin, F4fun, Complex.normSq_apply]
    ring

/-- 2-point DFT pair -/
def F2fun (x : Fin 2 → ℂ) : Fin 2 → ℂ := ![x 0 + x 1, x 0 - x 1]
noncomputable def F2inv (y : Fin 2 → ℂ) : Fin 2 → ℂ := ![(y 0 + y 1) / 2, (y 0 - y 1) / 2]

def F2lin : (Fin 2 → ℂ) →ₗ[ℂ] (Fin 2 → ℂ) where
  toFun := F2fun
  map_add' x y := by
    funext i; fin_cases i <;> simp [F2fun] <;> ring
  map_smul' c x := by
    funext i; fin_cases i <;> simp [F2fun] <;> ring

noncomputable def F2invlin : (Fin 2 → ℂ) →ₗ[ℂ] (Fin 2 → ℂ) where
  toFun := F2inv
  map_add' x y := by
    funext i; fin_cases i <;> simp [F2inv] <;> ring
  map_smul' c x := by
    funext i; fin_cases i <;> simp [F2inv] <;> ring

noncomputable def dft2 : FourierPair (Fin 2) where
  F := F2lin
  Finv := F2invlin
  inv_left x := by
    funext i
    fin_cases i <;> simp [F2lin, F2invlin, F2fun, F2inv]
  inv_right y := by
    funext i
    fin_cases i <;> simp [F2lin, F2invlin, F2fun, F2inv] <;> ring
  parseval x := by
    simp [energy, Fin.sum_univ_two, F2lin, F2fun, Complex.normSq_apply]
    ring

end AbtemVerif.DFT
