/-
C25 — reciprocal-space consistency of the scaled parameters: for the Lobato and Kirkland forms the generated
`projected_scattering_factor` evaluated at the generated `scaled_parameters` equals the generated `scattering_factor`
at the tabulated parameters divided by κ (Fourier-slice relation between the 2-D transform of the projected potential
and the 3-D scattering factor at k_z = 0) — an algebraic identity, for all positive widths, all k² ≥ 0, κ ≠ 0.
-/
import AbtemVerif.Gen.ParamLobatoR
import AbtemVerif.Gen.ParamKirklandR
import Mathlib.Analysis.SpecialFunctions.Pow.Real
import Mathlib.Analysis.SpecialFunctions.Sqrt
import Mathlib.Analysis.SpecialFunctions.Exp
import Mathlib.Tactic.Ring
import Mathlib.Tactic.Linarith
import Mathlib.Tactic.Positivity
import Mathlib.Tactic.FieldSimp
import Mathlib.Tactic.LinearCombination

namespace AbtemVerif.ParamProj
open AbtemVerif.Gen

lemma rpow_three_half (b : ℝ) (hb : 0 < b) : Real.rpow b ((3 : ℝ) / 2) = b * Real.sqrt b := by
  show b ^ ((3 : ℝ) / 2) = b * Real.sqrt b
  rw [show (3 : ℝ) / 2 = 1 + 1 / 2 by norm_num, Real.rpow_add hb, Real.rpow_one, ← Real.sqrt_eq_rpow]

/-- one Lobato term, with `s = √b` -/
lemma lob_term_alg (a s kappa x : ℝ) (hs : 0 < s) (hk : kappa ≠ 0) (hx : 0 ≤ x) :
    8 * Real.pi * ((Real.pi ^ 2 * a / (s ^ 2 * s) / kappa) / (2 * Real.pi / s) / (4 * Real.pi ^ 2 * x + (2 * Real.pi / s) ^ 2)
      + (Real.pi ^ 2 * a / (s ^ 2 * s) / kappa) * (2 * Real.pi / s) / (4 * Real.pi ^ 2 * x + (2 * Real.pi / s) ^ 2) ^ 2)
      = a * (2 + s ^ 2 * x) / (1 + s ^ 2 * x) ^ 2 / kappa := by
  have hpi := Real.pi_pos
  have h1 : 4 * Real.pi ^ 2 * x + (2 * Real.pi / s) ^ 2 = 4 * Real.pi ^ 2 * (1 + s ^ 2 * x) / s ^ 2 := by
    field_simp
    ring
  have h2 : (0 : ℝ) < 1 + s ^ 2 * x := by positivity
  rw [h1]
  field_simp
  ring

lemma lob_term (a b kappa x : ℝ) (hb : 0 < b) (hk : kappa ≠ 0) (hx : 0 ≤ x) :
    8 * Real.pi * ((Real.pi ^ 2 * a / (b * Real.sqrt b) / kappa) / (2 * Real.pi / Real.sqrt b)
        / (4 * Real.pi ^ 2 * x + (2 * Real.pi / Real.sqrt b) ^ 2)
      + (Real.pi ^ 2 * a / (b * Real.sqrt b) / kappa) * (2 * Real.pi / Real.sqrt b)
        / (4 * Real.pi ^ 2 * x + (2 * Real.pi / Real.sqrt b) ^ 2) ^ 2)
      = a * (2 + b * x) / (1 + b * x) ^ 2 / kappa := by
  have := lob_term_alg a (Real.sqrt b) kappa x (Real.sqrt_pos.mpr hb) hk hx
  rw [Real.sq_sqrt hb.le] at this
  exact this

/-- **Lobato**: projected scattering factor at the scaled parameters = scattering factor / κ -/
theorem lobato_projected_sf_eq (x a0 a1 a2 a3 a4 b0 b1 b2 b3 b4 kappa : ℝ) (hx : 0 ≤ x) (hk : kappa ≠ 0)
    (h0 : 0 < b0) (h1 : 0 < b1) (h2 : 0 < b2) (h3 : 0 < b3) (h4 : 0 < b4) :
    ParamLobatoR.projectedScatteringFactor x
      (ParamLobatoR.scaledA a0 b0 kappa) (ParamLobatoR.scaledA a1 b1 kappa) (ParamLobatoR.scaledA a2 b2 kappa)
      (ParamLobatoR.scaledA a3 b3 kappa) (ParamLobatoR.scaledA a4 b4 kappa)
      (ParamLobatoR.scaledB b0) (ParamLobatoR.scaledB b1) (ParamLobatoR.scaledB b2) (ParamLobatoR.scaledB b3) (ParamLobatoR.scaledB b4)
      = ParamLobatoR.scatteringFactor x a0 a1 a2 a3 a4 b0 b1 b2 b3 b4 / kappa := by
  unfold ParamLobatoR.projectedScatteringFactor ParamLobatoR.scatteringFactor ParamLobatoR.scaledA ParamLobatoR.scaledB
  rw [rpow_three_half b0 h0, rpow_three_half b1 h1, rpow_three_half b2 h2, rpow_three_half b3 h3, rpow_three_half b4 h4]
  linear_combination lob_term a0 b0 kappa x h0 hk hx + lob_term a1 b1 kappa x h1 hk hx + lob_term a2 b2 kappa x h2 hk hx
    + lob_term a3 b3 kappa x h3 hk hx + lob_term a4 b4 kappa x h4 hk hx

/-- one Kirkland (Yukawa + Gaussian) term with `p = √π`, `q = √d`, `s = √b`, `E = exp(-d x)` -/
lemma kirk_term_alg (a c p q s kappa x E : ℝ) (hp : 0 < p) (hq : 0 < q) (hs : 0 < s) (hk : kappa ≠ 0) (hx : 0 ≤ x) :
    4 * p ^ 2 * (p ^ 2 * a / kappa) / (4 * (p ^ 2) ^ 2 * x + (2 * p ^ 2 * s) ^ 2)
      + (q / p) * ((p ^ 2 * p) * c / (q ^ 2 * q) / kappa) * p ^ 2 / ((p ^ 2) ^ 2 / q ^ 2) * E
      = (a / (s ^ 2 + x) + c * E) / kappa := by
  have h2 : (0 : ℝ) < s ^ 2 + x := by positivity
  field_simp
  ring

lemma kirk_term (a b c d kappa x : ℝ) (hb : 0 < b) (hd : 0 < d) (hk : kappa ≠ 0) (hx : 0 ≤ x) :
    4 * Real.pi * (Real.pi * a / kappa) / (4 * Real.pi ^ 2 * x + (2 * Real.pi * Real.sqrt b) ^ 2)
      + Real.sqrt (Real.pi / (Real.pi ^ 2 / d)) * (Real.rpow Real.pi ((3 : ℝ) / 2) * c / Real.rpow d ((3 : ℝ) / 2) / kappa)
          * Real.pi / (Real.pi ^ 2 / d) * Real.exp (-(Real.pi ^ 2) * x / (Real.pi ^ 2 / d))
      = (a / (b + x) + c * Real.exp (-d * x)) / kappa := by
  have hpi := Real.pi_pos
  have e1 : Real.sqrt (Real.pi / (Real.pi ^ 2 / d)) = Real.sqrt d / Real.sqrt Real.pi := by
    rw [show Real.pi / (Real.pi ^ 2 / d) = d / Real.pi by field_simp, Real.sqrt_div hd.le]
  have e2 : -(Real.pi ^ 2) * x / (Real.pi ^ 2 / d) = -d * x := by field_simp
  have := kirk_term_alg a c (Real.sqrt Real.pi) (Real.sqrt d) (Real.sqrt b) kappa x (Real.exp (-d * x))
    (Real.sqrt_pos.mpr hpi) (Real.sqrt_pos.mpr hd) (Real.sqrt_pos.mpr hb) hk hx
  rw [Real.sq_sqrt hpi.le, Real.sq_sqrt hd.le, Real.sq_sqrt hb.le] at this
  rw [e1, e2, rpow_three_half Real.pi hpi, rpow_three_half d hd]
  rw [← this]

/-- **Kirkland**: projected scattering factor at the scaled parameters = scattering factor / κ -/
theorem kirkland_projected_sf_eq (x a0 a1 a2 b0 b1 b2 c0 c1 c2 d0 d1 d2 kappa : ℝ) (hx : 0 ≤ x) (hk : kappa ≠ 0)
    (hb0 : 0 < b0) (hb1 : 0 < b1) (hb2 : 0 < b2) (hd0 : 0 < d0) (hd1 : 0 < d1) (hd2 : 0 < d2) :
    ParamKirklandR.projectedScatteringFactor x
      (ParamKirklandR.scaledA a0 kappa) (ParamKirklandR.scaledA a1 kappa) (ParamKirklandR.scaledA a2 kappa)
      (ParamKirklandR.scaledB b0) (ParamKirklandR.scaledB b1) (ParamKirklandR.scaledB b2)
      (ParamKirklandR.scaledC c0 d0 kappa) (ParamKirklandR.scaledC c1 d1 kappa) (ParamKirklandR.scaledC c2 d2 kappa)
      (ParamKirklandR.scaledD d0) (ParamKirklandR.scaledD d1) (ParamKirklandR.scaledD d2)
      = ParamKirklandR.scatteringFactor x a0 a1 a2 b0 b1 b2 c0 c1 c2 d0 d1 d2 / kappa := by
  unfold ParamKirklandR.projectedScatteringFactor ParamKirklandR.scatteringFactor ParamKirklandR.scaledA ParamKirklandR.scaledB
    ParamKirklandR.scaledC ParamKirklandR.scaledD
  linear_combination kirk_term a0 b0 c0 d0 kappa x hb0 hd0 hk hx + kirk_term a1 b1 c1 d1 kappa x hb1 hd1 hk hx
    + kirk_term a2 b2 c2 d2 kappa x hb2 hd2 hk hx

end AbtemVerif.ParamProj
