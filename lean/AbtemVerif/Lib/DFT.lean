/-
Shared Fourier library (Pattern C, DESIGN.md §3).

`FourierPair ι` is an *abstract* unnormalised discrete Fourier transform pair on functions
`ι → ℂ` (numpy convention: `F` unnormalised, `Finv` carries the `1/N`).  All wave-optics
theorems are proved for every `FourierPair`; the fields are hypotheses (structure fields),
not axioms.  `zmodPair N` shows the structure is inhabited by *the* DFT (Mathlib's
`ZMod.dft`), with Parseval proved from character orthogonality.

That numpy / pyFFTW `fft2`/`ifft2` implement such a pair is the named assumption **FFT** of
the trusted base (validated numerically by the harnesses).
-/
import Mathlib.Analysis.Fourier.ZMod
import Mathlib.Tactic.Ring
import Mathlib.Tactic.Linarith
import Mathlib.Tactic.FieldSimp

open Finset BigOperators

namespace AbtemVerif.DFT

/-- total intensity `Σ |x j|²` -/
def energy {ι : Type*} [Fintype ι] (x : ι → ℂ) : ℝ := ∑ j, Complex.normSq (x j)

lemma energy_nonneg {ι : Type*} [Fintype ι] (x : ι → ℂ) : 0 ≤ energy x :=
  Finset.sum_nonneg fun _ _ => Complex.normSq_nonneg _

structure FourierPair (ι : Type*) [Fintype ι] where
  F : (ι → ℂ) →ₗ[ℂ] (ι → ℂ)
  Finv : (ι → ℂ) →ₗ[ℂ] (ι → ℂ)
  inv_left : ∀ x, Finv (F x) = x
  inv_right : ∀ y, F (Finv y) = y
  /-- Parseval for the unnormalised transform: `Σ|F x|² = N Σ|x|²` -/
  parseval : ∀ x, energy (F x) = (Fintype.card ι : ℝ) * energy x

variable {ι : Type*} [Fintype ι]

namespace FourierPair
variable (P : FourierPair ι)

lemma parseval_inv [Nonempty ι] (y : ι → ℂ) : energy (P.Finv y) = energy y / (Fintype.card ι : ℝ) := by
  have h := P.parseval (P.Finv y)
  rw [P.inv_right] at h
  have hN : (Fintype.card ι : ℝ) ≠ 0 := by
    have : 0 < Fintype.card ι := Fintype.card_pos
    positivity
  field_simp
  linarith

/-- Fourier multiplier `x ↦ F⁻¹ (m · F x)` (Fresnel propagator, aperture, CTF, shift kernel …). -/
def mult (m : ι → ℂ) (x : ι → ℂ) : ι → ℂ := P.Finv (fun k => m k * P.F x k)

lemma mult_add (m : ι → ℂ) (x y : ι → ℂ) : P.mult m (x + y) = P.mult m x + P.mult m y := by
  unfold mult
  have : (fun k => m k * P.F (x + y) k) = (fun k => m k * P.F x k) + (fun k => m k * P.F y k) := by
    funext k; simp [map_add, mul_add]
  rw [this, map_add]

lemma mult_smul (m : ι → ℂ) (c : ℂ) (x : ι → ℂ) : P.mult m (c • x) = c • P.mult m x := by
  unfold mult
  have : (fun k => m k * P.F (c • x) k) = c • (fun k => m k * P.F x k) := by
    funext k; simp [map_smul, mul_left_comm]
  rw [this, map_smul]

/-- composition of multipliers multiplies the symbols -/
lemma mult_mult (m n : ι → ℂ) (x : ι → ℂ) : P.mult m (P.mult n x) = P.mult (fun k => m k * n k) x := by
  unfold mult
  rw [P.inv_right]
  congr 1; funext k; ring

lemma mult_one (x : ι → ℂ) : P.mult (fun _ => 1) x = x := by
  unfold mult; simp [P.inv_left]

lemma energy_pointwise_le (m y : ι → ℂ) (c : ℝ) (_hc : 0 ≤ c) (h : ∀ k, Complex.normSq (m k) ≤ c) :
    energy (fun k => m k * y k) ≤ c * energy y := by
  unfold energy
  rw [Finset.mul_sum]
  apply Finset.sum_le_sum
  intro k _
  rw [Complex.normSq_mul]
  exact mul_le_mul_of_nonneg_right (h k) (Complex.normSq_nonneg _)

/-- A multiplier whose symbol is bounded by `c` in squared modulus scales the intensity by at most `c`. -/
theorem energy_mult_le [Nonempty ι] (m : ι → ℂ) (x : ι → ℂ) (c : ℝ) (hc : 0 ≤ c)
    (h : ∀ k, Complex.normSq (m k) ≤ c) : energy (P.mult m x) ≤ c * energy x := by
  unfold mult
  rw [P.parseval_inv]
  have hN : (0 : ℝ) < Fintype.card ι := by
    have : 0 < Fintype.card ι := Fintype.card_pos
    positivity
  have h1 := energy_pointwise_le m (P.F x) c hc h
  rw [P.parseval] at h1
  rw [div_le_iff₀ hN]
  calc energy (fun k => m k * P.F x k) ≤ c * ((Fintype.card ι : ℝ) * energy x) := h1
    _ = c * energy x * (Fintype.card ι : ℝ) := by ring

/-- A contraction symbol (`|m k| ≤ 1`) never creates intensity. -/
theorem energy_mult_le_one [Nonempty ι] (m : ι → ℂ) (x : ι → ℂ) (h : ∀ k, Complex.normSq (m k) ≤ 1) :
    energy (P.mult m x) ≤ energy x := by
  simpa using P.energy_mult_le m x 1 zero_le_one h

/-- A unit-modulus symbol preserves intensity exactly. -/
theorem energy_mult_eq [Nonempty ι] (m : ι → ℂ) (x : ι → ℂ) (h : ∀ k, Complex.normSq (m k) = 1) :
    energy (P.mult m x) = energy x := by
  unfold mult
  rw [P.parseval_inv]
  have hN : (Fintype.card ι : ℝ) ≠ 0 := by
    have : 0 < Fintype.card ι := Fintype.card_pos
    positivity
  have : energy (fun k => m k * P.F x k) = energy (P.F x) := by
    unfold energy
    apply Finset.sum_congr rfl; intro k _
    rw [Complex.normSq_mul, h k, one_mul]
  rw [this, P.parseval]
  field_simp

/-- Real-space multiplication by a function bounded by `c` (transmission function). -/
theorem energy_pointwise_mul_le (t x : ι → ℂ) (c : ℝ) (hc : 0 ≤ c) (h : ∀ j, Complex.normSq (t j) ≤ c) :
    energy (fun j => t j * x j) ≤ c * energy x :=
  energy_pointwise_le t x c hc h

/-! #### spectral support (additions for C04/C05/C15/C39) -/

lemma F_mult (m x : ι → ℂ) : P.F (P.mult m x) = fun k => m k * P.F x k := by
  unfold mult; rw [P.inv_right]

lemma F_injective {x y : ι → ℂ} (h : P.F x = P.F y) : x = y := by
  rw [← P.inv_left x, ← P.inv_left y, h]

/-- Two symbols that agree on the spectral support of `x` act identically on `x`. -/
lemma mult_congr_support (m n x : ι → ℂ) (h : ∀ k, P.F x k ≠ 0 → m k = n k) :
    P.mult m x = P.mult n x := by
  unfold mult
  congr 1; funext k
  by_cases hk : P.F x k = 0
  · simp [hk]
  · rw [h k hk]

/-- A symbol equal to `1` on the spectral support of `x` leaves `x` unchanged. -/
lemma mult_eq_self_of_support (m x : ι → ℂ) (h : ∀ k, P.F x k ≠ 0 → m k = 1) : P.mult m x = x := by
  rw [P.mult_congr_support m (fun _ => 1) x h, P.mult_one]

/-- The spectral support never grows under a multiplier. -/
lemma support_mult (m x : ι → ℂ) (k : ι) (h : P.F (P.mult m x) k ≠ 0) : P.F x k ≠ 0 := by
  rw [P.F_mult] at h
  intro h0; apply h; simp [h0]

/-- A symbol of unit modulus on the spectral support of `x` preserves the intensity of `x` exactly. -/
theorem energy_mult_eq_of_support [Nonempty ι] (m x : ι → ℂ)
    (h : ∀ k, P.F x k ≠ 0 → Complex.normSq (m k) = 1) : energy (P.mult m x) = energy x := by
  classical
  rw [P.mult_congr_support m (fun k => if P.F x k = 0 then 1 else m k) x
    (fun k hk => by simp [hk])]
  apply P.energy_mult_eq
  intro k
  by_cases hk : P.F x k = 0
  · simp [hk]
  · simp [hk, h k hk]

lemma energy_smul (c : ℂ) (x : ι → ℂ) : energy (c • x) = Complex.normSq c * energy x := by
  unfold energy
  rw [Finset.mul_sum]
  apply Finset.sum_congr rfl; intro j _
  simp [Complex.normSq_mul]

/-- Parseval read backwards: the reciprocal-space intensity of `Finv y` is that of `y`. -/
lemma energy_F_Finv (y : ι → ℂ) : energy (P.F (P.Finv y)) = energy y := by rw [P.inv_right]

end FourierPair

/-! ### The concrete 1-D instance: Mathlib's `ZMod.dft` -/
section ZModInstance
open ZMod
variable {N : ℕ} [NeZero N]

lemma char_sum (t : ZMod N) :
    ∑ i : ZMod N, (stdAddChar (t * i) : ℂ) = if t = 0 then (N : ℂ) else 0 := by
  split_ifs with h
  · simp [h, card_univ, ZMod.card]
  · exact AddChar.sum_eq_zero_of_ne_one (isPrimitive_stdAddChar N h)

lemma conj_stdAddChar (x : ZMod N) :
    (starRingEnd ℂ) (stdAddChar x : ℂ) = stdAddChar (-x) := by
  rw [AddChar.map_neg_eq_conj]

theorem dft_parseval (Φ : ZMod N → ℂ) :
    ∑ k, Complex.normSq (𝓕 Φ k) = (N : ℝ) * ∑ j, Complex.normSq (Φ j) := by
  have key : ∑ k, (𝓕 Φ k) * (starRingEnd ℂ) (𝓕 Φ k)
      = (N : ℂ) * ∑ j, Φ j * (starRingEnd ℂ) (Φ j) := by
    simp only [dft_apply, smul_eq_mul, map_sum, map_mul, conj_stdAddChar, sum_mul, mul_sum]
    rw [sum_comm]
    apply sum_congr rfl; intro j _
    rw [sum_comm]
    have : ∀ y x : ZMod N,
        stdAddChar (-(y * x)) * Φ y * (stdAddChar (- -(j * x)) * (starRingEnd ℂ) (Φ j))
          = (Φ y * (starRingEnd ℂ) (Φ j)) * (stdAddChar ((j - y) * x) : ℂ) := by
      intro y x
      have : (j - y) * x = -(y * x) + -(-(j * x)) := by ring
      rw [this, AddChar.map_add_eq_mul]; ring
    simp only [this, ← mul_sum, char_sum, sub_eq_zero]
    simp [mul_comm]
  have h2 : ∀ z : ℂ, z * (starRingEnd ℂ) z = (Complex.normSq z : ℂ) :=
    fun z => Complex.mul_conj z
  simp only [h2] at key
  exact_mod_cast key

/-- The abstract structure is inhabited by the discrete Fourier transform on `ZMod N`. -/
noncomputable def zmodPair (N : ℕ) [NeZero N] : FourierPair (ZMod N) where
  F := (ZMod.dft (N := N) (E := ℂ)).toLinearMap
  Finv := (ZMod.dft (N := N) (E := ℂ)).symm.toLinearMap
  inv_left := fun x => by simp
  inv_right := fun y => by simp
  parseval := fun x => by
    unfold energy
    rw [ZMod.card]
    exact dft_parseval x

/-! #### DC coefficient and shift rule (additions for C05/C15/C39/C40) -/

/-- `zero` is the zero-frequency index of the pair: `F x zero = Σ x` and constants have no other component. -/
structure FourierPair.HasDC {ι : Type*} [Fintype ι] (P : FourierPair ι) (zero : ι) : Prop where
  dc : ∀ x : ι → ℂ, P.F x zero = ∑ j, x j
  const : ∀ (c : ℂ) (k : ι), k ≠ zero → P.F (fun _ => c) k = 0

theorem zmodPair_hasDC (N : ℕ) [NeZero N] : (zmodPair N).HasDC 0 where
  dc x := by
    show 𝓕 x 0 = _
    exact dft_apply_zero x
  const c k hk := by
    show 𝓕 (fun _ => c) k = 0
    simp only [dft_apply, smul_eq_mul, ← Finset.sum_mul]
    have h := char_sum (N := N) (-k)
    simp only [neg_eq_zero, hk, if_false] at h
    have : ∀ j : ZMod N, (stdAddChar (-(j * k)) : ℂ) = stdAddChar (-k * j) := by
      intro j; congr 1; ring
    simp only [this, h, zero_mul]

/-- shift rule of the concrete DFT: translating by `a` multiplies the spectrum by the character `e^{-2πi a k / N}` -/
theorem zmod_dft_shift (N : ℕ) [NeZero N] (x : ZMod N → ℂ) (a k : ZMod N) :
    𝓕 (fun j => x (j - a)) k = (stdAddChar (-(a * k)) : ℂ) * 𝓕 x k := by
  simp only [dft_apply, smul_eq_mul, Finset.mul_sum]
  apply Fintype.sum_equiv (Equiv.subRight a)
  intro j
  simp only [Equiv.subRight_apply]
  rw [← mul_assoc, ← AddChar.map_add_eq_mul]
  congr 2; ring

end ZModInstance

end AbtemVerif.DFT
