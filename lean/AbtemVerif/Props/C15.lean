/-
C15 — Fourier interpolation and shifting obey their algebra.

Part 1 (index level, exact `Nat`/`Int`): the masks of `_fft_interpolation_masks_1d` (abtem/core/fft.py), modelled in
Model/FftCrop.lean around the *generated* tests and slice bounds (Gen/FftCrop.lean), select — for every pair of sizes —
exactly the positions `embed s n i` of the `s` low-frequency coefficients inside the length-`n` axis, in order; hence the
masked copy of `fft_crop` is "coefficient i of the small axis <-> coefficient embed s n i of the large axis" both when
padding and when cropping.
Part 2 (operators, any `FourierPair`s on the small and the large grid, any injective index embedding — in particular the
per-axis `embed` and products of it for N-D arrays): up∘down round trip, mean / reciprocal-norm preservation, kept band.
Part 3: shift kernels compose additively; whole-pixel shifts are periodic rolls (concrete DFT on `ZMod N`).
Part 4: the `.real` branch of `fft_interpolate` for real input loses half of the Nyquist coefficient of an even axis:
round trip counter-example (finding F16), and the partial round-trip theorem.
-/
import AbtemVerif.Model.FftCrop
import AbtemVerif.Lib.WaveOptics
import AbtemVerif.Lib.SmallDFT
import AbtemVerif.Lib.DFT2
import AbtemVerif.Gen.FftCropR
import AbtemVerif.Gen.FftShiftR
import Mathlib.Data.List.Range
import Mathlib.Logic.Function.Basic
import Mathlib.Algebra.BigOperators.Fin
import Mathlib.Tactic.Ring
import Mathlib.Tactic.Linarith
import Mathlib.Tactic.FieldSimp

open Finset BigOperators

namespace AbtemVerif.Props.C15
open AbtemVerif.FftCrop AbtemVerif.Gen.FftCrop AbtemVerif.Py AbtemVerif.DFT

/-! ## Part 1 — index level -/

lemma filter_range_two_blocks (n a b : Nat) (hab : a ≤ b) (hbn : b ≤ n) :
    (List.range n).filter (fun j => decide (j < a) || decide (b ≤ j)) = List.range a ++ List.range' b (n - b) := by
  have h1 : List.range n = List.range' 0 a ++ (List.range' a (b - a) ++ List.range' b (n - b)) := by
    rw [List.range_eq_range']
    have e1 : List.range' a (b - a) ++ List.range' b (n - b) = List.range' a (n - a) := by
      have := List.range'_append_1 (s := a) (m := b - a) (n := n - b)
      rw [show a + (b - a) = b by omega, show b - a + (n - b) = n - a by omega] at this
      exact this
    rw [e1]
    have := List.range'_append_1 (s := 0) (m := a) (n := n - a)
    rw [show 0 + a = a by omega, show a + (n - a) = n by omega] at this
    exact this.symm
  rw [h1, List.filter_append, List.filter_append]
  have f1 : (List.range' 0 a).filter (fun j => decide (j < a) || decide (b ≤ j)) = List.range' 0 a := by
    apply List.filter_eq_self.mpr
    intro x hx
    rw [List.mem_range'_1] at hx
    simp; omega
  have f2 : (List.range' a (b - a)).filter (fun j => decide (j < a) || decide (b ≤ j)) = [] := by
    apply List.filter_eq_nil_iff.mpr
    intro x hx
    rw [List.mem_range'_1] at hx
    simp; omega
  have f3 : (List.range' b (n - b)).filter (fun j => decide (j < a) || decide (b ≤ j)) = List.range' b (n - b) := by
    apply List.filter_eq_self.mpr
    intro x hx
    rw [List.mem_range'_1] at hx
    simp; omega
  rw [f1, f2, f3, List.range_eq_range']; simp

lemma pyFloorDiv_two (a : Int) : pyFloorDiv a 2 = a / 2 := Int.fdiv_eq_ediv_of_nonneg a (by norm_num)
lemma pyMod_two (a : Int) : pyMod a 2 = a % 2 := Int.fmod_eq_emod_of_nonneg a (by norm_num)

/-- number of non-negative frequencies kept for the small size `s` -/
def lowCount (s : Nat) : Nat := (s + 1) / 2
/-- position of coefficient `i` of the small grid (size `s`) inside the large grid (size `n`) -/
def embed (s n i : Nat) : Nat := if i < lowCount s then i else i + (n - s)

lemma pyBound_nonneg (n : Nat) (b : Int) (k : Nat) (hb : b = (k : Int)) (hk : k ≤ n) : pyBound n b = k := by
  unfold pyBound
  have : ¬ (b < 0) := by omega
  simp only [this, if_false]
  subst hb
  simp [hk]

lemma pyBound_neg (n : Nat) (b : Int) (k : Nat) (hb : b = -(k : Int)) (hk0 : 0 < k) (hk : k ≤ n) :
    pyBound n b = n - k := by
  unfold pyBound
  have : b < 0 := by omega
  simp only [this, if_true]
  subst hb
  omega

/-- the predicate "selected by the small size `s` inside length `n`", written with the code's slice bounds -/
lemma sel_even (h n j : Nat) (hh : 1 ≤ h) (hn : 2 * h ≤ n) :
    (decide (j < pyBound n (pyFloorDiv ((2 * h : Nat) : Int) 2)) || decide (pyBound n (pyFloorDiv (-((2 * h : Nat) : Int)) 2) ≤ j))
      = (decide (j < lowCount (2 * h)) || decide (n - (2 * h - lowCount (2 * h)) ≤ j)) := by
  rw [pyFloorDiv_two, pyFloorDiv_two]
  rw [pyBound_nonneg n _ h (by omega) (by omega), pyBound_neg n _ h (by omega) (by omega) (by omega)]
  have : lowCount (2 * h) = h := by unfold lowCount; omega
  rw [this]
  have : 2 * h - h = h := by omega
  rw [this]

lemma sel_odd (h n j : Nat) (hh : 1 ≤ h) (hn : 2 * h + 1 ≤ n) :
    (decide (j < pyBound n (pyFloorDiv ((2 * h + 1 : Nat) : Int) 2 + 1)) || decide (pyBound n (pyFloorDiv (-((2 * h + 1 : Nat) : Int)) 2 + 1) ≤ j))
      = (decide (j < lowCount (2 * h + 1)) || decide (n - (2 * h + 1 - lowCount (2 * h + 1)) ≤ j)) := by
  rw [pyFloorDiv_two, pyFloorDiv_two]
  rw [pyBound_nonneg n _ (h + 1) (by omega) (by omega), pyBound_neg n _ h (by omega) (by omega) (by omega)]
  have : lowCount (2 * h + 1) = h + 1 := by unfold lowCount; omega
  rw [this]
  have : 2 * h + 1 - (h + 1) = h := by omega
  rw [this]

lemma mask2_up (n1 n2 j : Nat) (h1 : 1 ≤ n1) (h : n1 < n2) (hj : j < n2) :
    mask2 n1 n2 j = (decide (j < lowCount n1) || decide (n2 - (n1 - lowCount n1) ≤ j)) := by
  unfold mask2 upTest upOne upEven upEvenLo upEvenHi upOddLo upOddHi
  have hup : ((n2 : Int) > (n1 : Int)) := by omega
  simp only [hup, decide_true, if_true]
  by_cases hone : (n1 : Int) = 1
  · have : n1 = 1 := by omega
    subst this
    have hnj : ¬ (n2 ≤ j) := by omega
    simp [lowCount, hnj]
    rcases j with _ | j <;> simp
  · simp only [hone, decide_false, Bool.false_eq_true, if_false]
    rcases Nat.even_or_odd' n1 with ⟨k, hk | hk⟩
    · subst hk
      have hev : pyMod ((2 * k : Nat) : Int) 2 = 0 := by rw [pyMod_two]; omega
      simp only [hev, decide_true, if_true]
      exact sel_even k n2 j (by omega) (by omega)
    · subst hk
      have hev : ¬ pyMod ((2 * k + 1 : Nat) : Int) 2 = 0 := by rw [pyMod_two]; omega
      simp only [hev, decide_false, Bool.false_eq_true, if_false]
      exact sel_odd k n2 j (by omega) (by omega)

lemma mask1_down (n1 n2 j : Nat) (h1 : 1 ≤ n2) (h : n2 ≤ n1) (hj : j < n1) :
    mask1 n1 n2 j = (decide (j < lowCount n2) || decide (n1 - (n2 - lowCount n2) ≤ j)) := by
  unfold mask1 upTest downOne downEven downEvenLo downEvenHi downOddLo downOddHi
  have hup : ¬ ((n2 : Int) > (n1 : Int)) := by omega
  simp only [hup, decide_false, Bool.false_eq_true, if_false]
  by_cases hone : (n2 : Int) = 1
  · have : n2 = 1 := by omega
    subst this
    have hnj : ¬ (n1 ≤ j) := by omega
    simp [lowCount, hnj]
    rcases j with _ | j <;> simp
  · simp only [hone, decide_false, Bool.false_eq_true, if_false]
    rcases Nat.even_or_odd' n2 with ⟨k, hk | hk⟩
    · subst hk
      have hev : pyMod ((2 * k : Nat) : Int) 2 = 0 := by rw [pyMod_two]; omega
      simp only [hev, decide_true, if_true]
      exact sel_even k n1 j (by omega) (by omega)
    · subst hk
      have hev : ¬ pyMod ((2 * k + 1 : Nat) : Int) 2 = 0 := by rw [pyMod_two]; omega
      simp only [hev, decide_false, Bool.false_eq_true, if_false]
      exact sel_odd k n1 j (by omega) (by omega)


lemma map_embed_range (s n : Nat) (hs : s ≤ n) :
    (List.range s).map (embed s n) = List.range (lowCount s) ++ List.range' (n - (s - lowCount s)) (s - lowCount s) := by
  have hl : lowCount s ≤ s := by unfold lowCount; omega
  have h1 : List.range s = List.range' 0 (lowCount s) ++ List.range' (lowCount s) (s - lowCount s) := by
    rw [List.range_eq_range']
    have := List.range'_append_1 (s := 0) (m := lowCount s) (n := s - lowCount s)
    rw [show 0 + lowCount s = lowCount s by omega, show lowCount s + (s - lowCount s) = s by omega] at this
    exact this.symm
  rw [h1, List.map_append]
  congr 1
  · rw [List.range_eq_range']
    conv_rhs => rw [← List.map_id (List.range' 0 (lowCount s))]
    apply List.map_congr_left
    intro x hx
    rw [List.mem_range'_1] at hx
    unfold embed; simp; omega
  · have e : ∀ x ∈ List.range' (lowCount s) (s - lowCount s), embed s n x = (n - s) + x := by
      intro x hx
      rw [List.mem_range'_1] at hx
      unfold embed
      have : ¬ (x < lowCount s) := by omega
      simp only [this, if_false]; omega
    rw [List.map_congr_left e, List.map_add_range']
    congr 1; omega

theorem selected2_up (n1 n2 : Nat) (h1 : 1 ≤ n1) (h : n1 < n2) :
    selected2 n1 n2 = (List.range n1).map (embed n1 n2) := by
  unfold selected2
  rw [List.filter_congr (fun j hj => mask2_up n1 n2 j h1 h (List.mem_range.mp hj))]
  have hl : lowCount n1 ≤ n1 := by unfold lowCount; omega
  rw [filter_range_two_blocks n2 _ _ (by omega) (by omega), map_embed_range n1 n2 h.le]
  congr 2; omega

theorem selected1_down (n1 n2 : Nat) (h1 : 1 ≤ n2) (h : n2 ≤ n1) :
    selected1 n1 n2 = (List.range n2).map (embed n2 n1) := by
  unfold selected1
  rw [List.filter_congr (fun j hj => mask1_down n1 n2 j h1 h (List.mem_range.mp hj))]
  have hl : lowCount n2 ≤ n2 := by unfold lowCount; omega
  rw [filter_range_two_blocks n1 _ _ (by omega) (by omega), map_embed_range n2 n1 h]
  congr 2; omega

theorem selected1_up (n1 n2 : Nat) (h : n1 < n2) : selected1 n1 n2 = List.range n1 := by
  unfold selected1
  apply List.filter_eq_self.mpr
  intro j _
  unfold mask1 upTest
  have : ((n2 : Int) > (n1 : Int)) := by omega
  simp [this]

theorem selected2_down (n1 n2 : Nat) (h : n2 ≤ n1) : selected2 n1 n2 = List.range n2 := by
  unfold selected2
  apply List.filter_eq_self.mpr
  intro j _
  unfold mask2 upTest
  have : ¬ ((n2 : Int) > (n1 : Int)) := by omega
  simp [this]

lemma zip_map_self_right {α β} (l : List α) (f : α → β) : l.zip (l.map f) = l.map (fun i => (i, f i)) := by
  induction l with
  | nil => rfl
  | cons a t ih => simp [ih]

lemma zip_map_self_left {α β} (l : List α) (f : α → β) : (l.map f).zip l = l.map (fun i => (f i, i)) := by
  induction l with
  | nil => rfl
  | cons a t ih => simp [ih]

/-- Padding (`n1 < n2`): coefficient `i` of the input goes to position `embed n1 n2 i`; nothing else is written. -/
theorem cropPairs_up (n1 n2 : Nat) (h1 : 1 ≤ n1) (h : n1 < n2) :
    cropPairs n1 n2 = .ok ((List.range n1).map fun i => (i, embed n1 n2 i)) := by
  unfold cropPairs
  rw [selected1_up n1 n2 h, selected2_up n1 n2 h1 h]
  simp [zip_map_self_right]

/-- Cropping (`n2 ≤ n1`): output coefficient `i` is input coefficient `embed n2 n1 i`. -/
theorem cropPairs_down (n1 n2 : Nat) (h1 : 1 ≤ n2) (h : n2 ≤ n1) :
    cropPairs n1 n2 = .ok ((List.range n2).map fun i => (embed n2 n1 i, i)) := by
  unfold cropPairs
  rw [selected1_down n1 n2 h1 h, selected2_down n1 n2 h]
  simp [zip_map_self_left]

/-- Index-level round trip: padding `n → m` then cropping `m → n` pairs every coefficient with itself. -/
theorem crop_pad_id (n m : Nat) (h1 : 1 ≤ n) (h : n < m) :
    ∃ up down, cropPairs n m = .ok up ∧ cropPairs m n = .ok down ∧
      up.map Prod.snd = down.map Prod.fst ∧ up.map Prod.fst = List.range n ∧ down.map Prod.snd = List.range n := by
  refine ⟨_, _, cropPairs_up n m h1 h, cropPairs_down m n h1 h.le, ?_, ?_, ?_⟩ <;> simp [List.map_map, Function.comp_def]

lemma embed_lt (s n i : Nat) (hs : s ≤ n) (hi : i < s) : embed s n i < n := by
  unfold embed; split <;> omega

lemma embed_injective (s n : Nat) (i j : Nat) (h : embed s n i = embed s n j) : i = j := by
  unfold embed lowCount at h
  split at h <;> split at h <;> omega

/-- the zero-frequency coefficient stays the zero-frequency coefficient -/
lemma embed_zero (s n : Nat) (hs : 1 ≤ s) : embed s n 0 = 0 := by
  unfold embed lowCount
  have : 0 < (s + 1) / 2 := by omega
  simp [this]

/-- The fold of `_fft_crop_fold` (generated test and index): cropping a length-`n` axis to an even length `s < n` triggers the
fold; the folded source index `s/2` (+Nyquist of the short axis) is exactly the in-range coefficient the plain crop does NOT keep,
and it is added at output position `s/2`, whose plain-crop source is `n − s/2` (−Nyquist): the pair ±Nyquist is summed. -/
theorem fold_slot (s n : Nat) (h1 : 1 ≤ s) (h : s < n) (hev : s % 2 = 0) :
    foldTest (n : Int) (s : Int) = true ∧ (foldIndex (s : Int)).toNat = s / 2 ∧
      embed s n (s / 2) = n - s / 2 ∧ ∀ i, i < s → embed s n i ≠ s / 2 := by
  refine ⟨?_, ?_, ?_, ?_⟩
  · unfold foldTest
    rw [pyMod_two]
    have h2 : ((s : Int) < (n : Int)) := by omega
    have h3 : ((s : Int) % 2 = 0) := by omega
    simp [h2, h3]
  · unfold foldIndex
    rw [pyFloorDiv_two]; omega
  · unfold embed lowCount
    have : ¬ (s / 2 < (s + 1) / 2) := by omega
    simp only [this, if_false]; omega
  · intro i hi
    unfold embed lowCount
    split <;> omega

/-- for an odd target length, or when the axis is not shortened, nothing is folded -/
theorem fold_not (s n : Nat) (h : s % 2 = 1 ∨ n ≤ s) : foldTest (n : Int) (s : Int) = false := by
  unfold foldTest
  rw [pyMod_two]
  rcases h with h | h
  · have : ¬ ((s : Int) % 2 = 0) := by omega
    simp [this]
  · have : ¬ ((s : Int) < (n : Int)) := by omega
    simp [this]

/-- the per-axis embedding as a function between index types -/
def embedFin (s n : Nat) (hs : s ≤ n) : Fin s → Fin n := fun i => ⟨embed s n i, embed_lt s n i hs i.2⟩

lemma embedFin_injective (s n : Nat) (hs : s ≤ n) : Function.Injective (embedFin s n hs) := by
  intro i j h
  apply Fin.ext
  exact embed_injective s n i j (Fin.mk.inj_iff.mp h)

/-! ## Part 2 — operators over any pair of Fourier pairs and any injective index embedding -/

section Operators
open AbtemVerif.Gen.FftCropR
variable {ι₁ ι₂ : Type*} [Fintype ι₁] [Fintype ι₂]

/-- `fft_crop` to a larger shape: coefficient `i` goes to `e i`, zeros elsewhere -/
noncomputable def pad (e : ι₁ → ι₂) (X : ι₁ → ℂ) : ι₂ → ℂ := Function.extend e X 0
/-- `fft_crop` to a smaller shape: output coefficient `i` is input coefficient `e i` -/
def crop (e : ι₁ → ι₂) (Y : ι₂ → ℂ) : ι₁ → ℂ := fun i => Y (e i)

lemma pad_apply (e : ι₁ → ι₂) (he : Function.Injective e) (X : ι₁ → ℂ) (i : ι₁) : pad e X (e i) = X i :=
  he.extend_apply X 0 i

lemma pad_apply_off (e : ι₁ → ι₂) (X : ι₁ → ℂ) (k : ι₂) (hk : ¬ ∃ i, e i = k) : pad e X k = 0 := by
  unfold pad; rw [Function.extend_apply' _ _ _ hk]; rfl

lemma crop_pad (e : ι₁ → ι₂) (he : Function.Injective e) (X : ι₁ → ℂ) : crop e (pad e X) = X := by
  funext i; exact pad_apply e he X i

lemma pad_smul (e : ι₁ → ι₂) (he : Function.Injective e) (c : ℂ) (X : ι₁ → ℂ) : pad e (c • X) = c • pad e X := by
  funext k
  by_cases hk : ∃ i, e i = k
  · obtain ⟨i, rfl⟩ := hk
    simp [pad_apply e he]
  · simp [pad_apply_off e _ k hk]

lemma crop_smul (e : ι₁ → ι₂) (c : ℂ) (Y : ι₂ → ℂ) : crop e (c • Y) = c • crop e Y := rfl

/-- zero padding keeps the total of `|·|²` -/
lemma energy_pad (e : ι₁ → ι₂) (he : Function.Injective e) (X : ι₁ → ℂ) : energy (pad e X) = energy X := by
  unfold energy
  symm
  apply Fintype.sum_of_injective e he
  · intro k hk
    rw [pad_apply_off e X k (by simpa using hk)]; simp
  · intro i; rw [pad_apply e he]

/-- cropping keeps the total of `|·|²` of a spectrum supported on the kept coefficients -/
lemma energy_crop_of_support (e : ι₁ → ι₂) (he : Function.Injective e) (Y : ι₂ → ℂ)
    (hY : ∀ k, (¬ ∃ i, e i = k) → Y k = 0) : energy (crop e Y) = energy Y := by
  unfold energy crop
  apply Fintype.sum_of_injective e he
  · intro k hk
    rw [hY k (by simpa using hk)]; simp
  · intro i; rfl

variable (P₁ : FourierPair ι₁) (P₂ : FourierPair ι₂)

/-- `fft_interpolate` to a larger grid, complex input: `c · ifft(pad(fft x))` (`c` = normalisation factor) -/
noncomputable def up (e : ι₁ → ι₂) (c : ℂ) (x : ι₁ → ℂ) : ι₂ → ℂ := c • P₂.Finv (pad e (P₁.F x))
/-- `fft_interpolate` to a smaller grid -/
noncomputable def down (e : ι₁ → ι₂) (c : ℂ) (y : ι₂ → ℂ) : ι₁ → ℂ := c • P₁.Finv (crop e (P₂.F y))

/-- Upsampling followed by downsampling back returns the original array (complex arrays; any sizes / embedding;
`c' · c = 1` holds for both normalisations, `valuesFactor_roundtrip`). -/
theorem up_then_down_id (e : ι₁ → ι₂) (he : Function.Injective e) (c c' : ℂ) (hc : c' * c = 1) (x : ι₁ → ℂ) :
    down P₁ P₂ e c' (up P₁ P₂ e c x) = x := by
  unfold down up
  rw [map_smul, P₂.inv_right, crop_smul, crop_pad e he, map_smul, P₁.inv_left, smul_smul, hc, one_smul]

/-- the two 'values' factors of a round trip (generated expression `new_size / old_size`) cancel -/
theorem valuesFactor_roundtrip (n m : ℝ) (hn : n ≠ 0) (hm : m ≠ 0) : valuesFactor n m * valuesFactor m n = 1 := by
  unfold valuesFactor; field_simp

/-- 'values' normalisation preserves the mean when upsampling (`c = N₂/N₁`; zero-frequency index kept by the embedding). -/
theorem values_preserves_mean_up (e : ι₁ → ι₂) (he : Function.Injective e) (z₁ : ι₁) (z₂ : ι₂)
    (h₁ : P₁.HasDC z₁) (h₂ : P₂.HasDC z₂) (hz : e z₁ = z₂) (x : ι₁ → ℂ) [Nonempty ι₁] [Nonempty ι₂] :
    (∑ j, up P₁ P₂ e ((valuesFactor (Fintype.card ι₂) (Fintype.card ι₁) : ℝ) : ℂ) x j) / (Fintype.card ι₂ : ℂ)
      = (∑ j, x j) / (Fintype.card ι₁ : ℂ) := by
  rw [← h₂.dc, ← h₁.dc]
  unfold up
  rw [map_smul, P₂.inv_right]
  simp only [Pi.smul_apply, smul_eq_mul]
  rw [← hz, pad_apply e he]
  unfold valuesFactor
  have hN1 : (Fintype.card ι₁ : ℂ) ≠ 0 := by
    have : 0 < Fintype.card ι₁ := Fintype.card_pos
    exact_mod_cast this.ne'
  have hN2 : (Fintype.card ι₂ : ℂ) ≠ 0 := by
    have : 0 < Fintype.card ι₂ := Fintype.card_pos
    exact_mod_cast this.ne'
  push_cast
  field_simp

/-- … and when downsampling (`c = N₁/N₂`). -/
theorem values_preserves_mean_down (e : ι₁ → ι₂) (z₁ : ι₁) (z₂ : ι₂)
    (h₁ : P₁.HasDC z₁) (h₂ : P₂.HasDC z₂) (hz : e z₁ = z₂) (y : ι₂ → ℂ) [Nonempty ι₁] [Nonempty ι₂] :
    (∑ j, down P₁ P₂ e ((valuesFactor (Fintype.card ι₁) (Fintype.card ι₂) : ℝ) : ℂ) y j) / (Fintype.card ι₁ : ℂ)
      = (∑ j, y j) / (Fintype.card ι₂ : ℂ) := by
  rw [← h₂.dc, ← h₁.dc]
  unfold down
  rw [map_smul, P₁.inv_right]
  simp only [Pi.smul_apply, smul_eq_mul, crop]
  rw [hz]
  unfold valuesFactor
  have hN1 : (Fintype.card ι₁ : ℂ) ≠ 0 := by
    have : 0 < Fintype.card ι₁ := Fintype.card_pos
    exact_mod_cast this.ne'
  have hN2 : (Fintype.card ι₂ : ℂ) ≠ 0 := by
    have : 0 < Fintype.card ι₂ := Fintype.card_pos
    exact_mod_cast this.ne'
  push_cast
  field_simp

/-- 'intensity' ('amplitude') normalisation (`c = 1`) preserves the total reciprocal-space intensity when upsampling … -/
theorem intensity_preserves_reciprocal_norm_up (e : ι₁ → ι₂) (he : Function.Injective e) (x : ι₁ → ℂ) :
    energy (P₂.F (up P₁ P₂ e 1 x)) = energy (P₁.F x) := by
  unfold up
  rw [one_smul, P₂.inv_right, energy_pad e he]

/-- … and when downsampling an array that is band-limited to the kept coefficients. -/
theorem intensity_preserves_reciprocal_norm_down (e : ι₁ → ι₂) (he : Function.Injective e) (y : ι₂ → ℂ)
    (hy : ∀ k, (¬ ∃ i, e i = k) → P₂.F y k = 0) :
    energy (P₁.F (down P₁ P₂ e 1 y)) = energy (P₂.F y) := by
  unfold down
  rw [one_smul, P₁.inv_right, energy_crop_of_support e he _ hy]

/-- (Unfolding of the model: `F∘F⁻¹ = id` and the definition of `crop`.)  In the MODEL of `fft_interpolate`, every retained Fourier
coefficient of the downsampled array is the original coefficient at `e i` times the normalisation factor.  Which grid
`Waves.downsample` chooses (`gpts`, `max_angle`) is not part of this statement — see the `downsample` oracle and the known finding on
`max_angle='cutoff'`. -/
theorem downsample_keeps_band (e : ι₁ → ι₂) (c : ℂ) (y : ι₂ → ℂ) (i : ι₁) :
    P₁.F (down P₁ P₂ e c y) i = c * P₂.F y (e i) := by
  unfold down
  rw [map_smul, P₁.inv_right]; rfl

/-- and upsampling creates no new frequencies -/
theorem upsample_adds_no_band (e : ι₁ → ι₂) (c : ℂ) (x : ι₁ → ℂ) (k : ι₂) (hk : ¬ ∃ i, e i = k) :
    P₂.F (up P₁ P₂ e c x) k = 0 := by
  unfold up
  rw [map_smul, P₂.inv_right]
  simp [pad_apply_off e _ k hk]

/-- N-D arrays: the masks are outer products of the per-axis masks, i.e. the index embedding is the product of the per-axis
embeddings — still injective, so all operator theorems apply (here: 2-D round trip for any pairs on the two grids, e.g.
`prodPair`s / the concrete `zmodPair2`). -/
theorem up_then_down_id_2d {s₁ s₂ n₁ n₂ : ℕ} (h₁ : s₁ ≤ n₁) (h₂ : s₂ ≤ n₂)
    (Q₁ : FourierPair (Fin s₁ × Fin s₂)) (Q₂ : FourierPair (Fin n₁ × Fin n₂)) (c c' : ℂ) (hc : c' * c = 1)
    (x : Fin s₁ × Fin s₂ → ℂ) :
    down Q₁ Q₂ (Prod.map (embedFin s₁ n₁ h₁) (embedFin s₂ n₂ h₂)) c'
      (up Q₁ Q₂ (Prod.map (embedFin s₁ n₁ h₁) (embedFin s₂ n₂ h₂)) c x) = x :=
  up_then_down_id Q₁ Q₂ _ ((embedFin_injective s₁ n₁ h₁).prodMap (embedFin_injective s₂ n₂ h₂)) c c' hc x

/-- non-vacuity of the 2-D statement: 2×2 → 4×4 → 2×2 with the separable products of the explicit 2- and 4-point DFTs -/
example (x : Fin 2 × Fin 2 → ℂ) :
    down (prodPair dft2 dft2) (prodPair dft4 dft4) (Prod.map (embedFin 2 4 (by norm_num)) (embedFin 2 4 (by norm_num))) 1
      (up (prodPair dft2 dft2) (prodPair dft4 dft4) (Prod.map (embedFin 2 4 (by norm_num)) (embedFin 2 4 (by norm_num))) 1 x) = x :=
  up_then_down_id_2d _ _ _ _ 1 1 (by norm_num) x

end Operators

/-! ### bridge: the list-level masked copy of `fft_crop` IS `pad` / `crop` along the per-axis embedding -/

section Bridge

lemma getD_ofFn' {n : Nat} (Y : Fin n → ℂ) (k : Nat) (hk : k < n) : (List.ofFn Y).getD k 0 = Y ⟨k, hk⟩ := by
  simp [List.getD_eq_getElem?_getD, hk]

lemma find_pairs_up (s n j : Nat) :
    ((List.range s).map fun i => (i, embed s n i)).find? (fun p => p.2 == j)
      = ((List.range s).find? (fun i => embed s n i == j)).map fun i => (i, embed s n i) := by
  rw [List.find?_map]; rfl

/-- Padding branch of the model of `fft_crop` (`Model/FftCrop.lean crop1d`, built on the generated mask bounds): output
position `j` holds input coefficient `i` iff `embed s n i = j`, zeros elsewhere. -/
theorem crop1d_up_spec (s n : Nat) (h1 : 1 ≤ s) (h : s < n) (x : List ℂ) (hx : x.length = s) :
    crop1d (0 : ℂ) x n = .ok ((List.range n).map fun j =>
      match (List.range s).find? (fun i => embed s n i == j) with
      | some i => x.getD i 0
      | none => 0) := by
  unfold crop1d
  rw [hx, cropPairs_up s n h1 h]
  simp only [bind, Except.bind, pure, Except.pure]
  congr 1
  apply List.map_congr_left
  intro j _
  rw [find_pairs_up]
  cases (List.range s).find? (fun i => embed s n i == j) <;> rfl

/-- Cropping branch: output coefficient `i` is input coefficient `embed s n i`. -/
theorem crop1d_down_spec (s n : Nat) (h1 : 1 ≤ s) (h : s ≤ n) (y : List ℂ) (hy : y.length = n) :
    crop1d (0 : ℂ) y s = .ok ((List.range s).map fun i => y.getD (embed s n i) 0) := by
  unfold crop1d
  rw [hy, cropPairs_down n s h1 h]
  simp only [bind, Except.bind, pure, Except.pure]
  congr 1
  apply List.map_congr_left
  intro i hi
  have hi' : i < s := List.mem_range.mp hi
  have : ((List.range s).map fun i => (embed s n i, i)).find? (fun p => p.2 == i) = some (embed s n i, i) := by
    rw [List.find?_map]
    have : (List.range s).find? ((fun p : Nat × Nat => p.2 == i) ∘ fun i => (embed s n i, i)) = some i := by
      have hf : ((fun p : Nat × Nat => p.2 == i) ∘ fun i => (embed s n i, i)) = fun k => k == i := rfl
      rw [hf]
      rw [List.find?_eq_some_iff_append]
      refine ⟨by simp, List.range i, List.range' (i + 1) (s - (i + 1)), ?_, ?_⟩
      · rw [List.range_eq_range', List.range_eq_range']
        have := List.range'_append_1 (s := 0) (m := i) (n := s - i)
        rw [show 0 + i = i by omega, show i + (s - i) = s by omega] at this
        rw [← this]
        congr 1
        have h2 := List.range'_append_1 (s := i) (m := 1) (n := s - (i + 1))
        rw [show 1 + (s - (i + 1)) = s - i by omega] at h2
        rw [← h2]; rfl
      · intro a ha
        have := List.mem_range.mp ha
        simp; omega
    rw [this]; rfl
  rw [this]

/-- Function-level bridge for cropping: the model's list output is `crop (embedFin …)` of the input coefficients. -/
theorem crop1d_down_eq_crop (s n : Nat) (h1 : 1 ≤ s) (h : s ≤ n) (Y : Fin n → ℂ) :
    crop1d (0 : ℂ) (List.ofFn Y) s = .ok (List.ofFn (crop (embedFin s n h) Y)) := by
  rw [crop1d_down_spec s n h1 h _ (by simp)]
  congr 1
  apply List.ext_getElem (by simp)
  intro i hi1 hi2
  simp only [List.length_map, List.length_range] at hi1
  simp only [List.getElem_map, List.getElem_range, List.getElem_ofFn, crop, embedFin]
  have hlt : embed s n i < n := embed_lt s n i h hi1
  rw [getD_ofFn' Y _ hlt]

/-- Function-level bridge for padding: the model's list output is `pad (embedFin …)` of the input coefficients. -/
theorem crop1d_up_eq_pad (s n : Nat) (h1 : 1 ≤ s) (h : s < n) (X : Fin s → ℂ) :
    crop1d (0 : ℂ) (List.ofFn X) n = .ok (List.ofFn (pad (embedFin s n h.le) X)) := by
  rw [crop1d_up_spec s n h1 h _ (by simp)]
  congr 1
  apply List.ext_getElem (by simp)
  intro j hj1 hj2
  simp only [List.length_map, List.length_range] at hj1
  simp only [List.getElem_map, List.getElem_range, List.getElem_ofFn]
  have he := embedFin_injective s n h.le
  by_cases hex : ∃ i : Fin s, embedFin s n h.le i = ⟨j, hj1⟩
  · obtain ⟨i, hi⟩ := hex
    rw [← hi, pad_apply _ he]
    have hij : embed s n i = j := by simpa [embedFin] using congrArg Fin.val hi
    have hfind : (List.range s).find? (fun i' => embed s n i' == j) = some (i : Nat) := by
      rw [List.find?_eq_some_iff_append]
      refine ⟨by simp [hij], List.range i, List.range' (i + 1) (s - (i + 1)), ?_, ?_⟩
      · have hi2 := i.2
        rw [List.range_eq_range', List.range_eq_range']
        have := List.range'_append_1 (s := 0) (m := (i : Nat)) (n := s - i)
        rw [show 0 + (i : Nat) = i by omega, show (i : Nat) + (s - i) = s by omega] at this
        rw [← this]
        congr 1
        have h2 := List.range'_append_1 (s := (i : Nat)) (m := 1) (n := s - (i + 1))
        rw [show 1 + (s - ((i : Nat) + 1)) = s - i by omega] at h2
        rw [← h2]; rfl
      · intro a ha
        have ha' := List.mem_range.mp ha
        simp only [Bool.not_eq_true', beq_eq_false_iff_ne, ne_eq]
        intro hcontra
        have := embed_injective s n a i (by rw [hcontra, hij])
        omega
    rw [hfind]
    exact getD_ofFn' X i i.2
  · rw [pad_apply_off _ _ _ hex]
    have hnone : (List.range s).find? (fun i' => embed s n i' == j) = none := by
      rw [List.find?_eq_none]
      intro a ha
      have ha' := List.mem_range.mp ha
      simp only [beq_iff_eq]
      intro hc
      exact hex ⟨⟨a, ha'⟩, by simp [embedFin, hc]⟩
    rw [hnone]

end Bridge

section Operators2
open AbtemVerif.Gen.FftCropR
variable {ι₁ ι₂ : Type*} [Fintype ι₁] [Fintype ι₂]
variable (P₁ : FourierPair ι₁) (P₂ : FourierPair ι₂)

/-! ### the `.real` branch (real input) -/

/-- `array.real` -/
def realPart {ι : Type*} (x : ι → ℂ) : ι → ℂ := fun j => ((x j).re : ℂ)

/-- `fft_interpolate` for real input: the real part is taken after the inverse transform, before the normalisation factor -/
noncomputable def upReal (e : ι₁ → ι₂) (c : ℂ) (x : ι₁ → ℂ) : ι₂ → ℂ := c • realPart (P₂.Finv (pad e (P₁.F x)))
noncomputable def downReal (e : ι₁ → ι₂) (c : ℂ) (y : ι₂ → ℂ) : ι₁ → ℂ := c • realPart (P₁.Finv (crop e (P₂.F y)))

lemma realPart_of_real {ι : Type*} (x : ι → ℂ) (h : ∀ j, (x j).im = 0) : realPart x = x := by
  funext j; unfold realPart; apply Complex.ext <;> simp [h j]

/-- PARTIAL round trip for real input: holds whenever the complex interpolant of the real array is itself real-valued
(true for odd source sizes, where the padded spectrum keeps its Hermitian symmetry; not provable for an abstract pair,
checked numerically).  For even source sizes the hypothesis fails — see `real_even_roundtrip_counterexample`. -/
theorem up_then_down_id_real_partial (e : ι₁ → ι₂) (he : Function.Injective e) (c c' : ℝ) (hc : c' * c = 1)
    (x : ι₁ → ℂ) (hx : ∀ j, (x j).im = 0) (hup : ∀ j, (P₂.Finv (pad e (P₁.F x)) j).im = 0) :
    downReal P₁ P₂ e (c' : ℂ) (upReal P₁ P₂ e (c : ℂ) x) = x := by
  unfold downReal upReal
  rw [realPart_of_real _ hup, map_smul, P₂.inv_right, crop_smul, crop_pad e he, map_smul, P₁.inv_left]
  have hcx : ∀ j, (((c : ℂ) • x) j).im = 0 := by
    intro j; simp [hx j]
  rw [realPart_of_real _ hcx, smul_smul]
  have : (c' : ℂ) * (c : ℂ) = 1 := by exact_mod_cast hc
  rw [this, one_smul]

end Operators2

/-! ### `Waves.downsample()` with the default `max_angle='cutoff'` (known finding) -/

section DownsampleCutoff
open AbtemVerif.WaveOptics AbtemVerif.Gen.FftCropR

/-- `_antialias_cutoff_gpts` along one axis of `n` points with sampling `d` (`ms = max(sampling)`), before the parity adjustment
(`_ensure_parity_of_gpts(..., parity="same")` keeps an even value for an even axis): `⌊kcut · n·d⌋` with the generated `kcut` -/
noncomputable def cutoffGpts (n : ℕ) (d ms : ℝ) : ℤ := ⌊cutoffK ms * ((n : ℝ) * d)⌋

/-- a 16-point axis (square sampling 0.1 Å) is cropped to 10 points … -/
theorem cutoff_gpts_16 : cutoffGpts 16 (1 / 10) (1 / 10) = 10 := by
  unfold cutoffGpts cutoffK
  rw [Int.floor_eq_iff]
  constructor <;> norm_num

/-- signed frequency index of position `k` on a 16-point axis -/
def signed16 (k : Fin 16) : ℤ := if (k : ℕ) < 8 then (k : ℕ) else (k : ℕ) - 16

/-- … and the crop to 10 points (kept signed frequencies −5 … +4) drops frequency +5, although the antialias aperture of the code is
exactly 1 there (5/1.6 Å⁻¹ = 3.125 ≤ cutoff − taper = 3.2333): an in-band coefficient is lost. -/
theorem downsample_cutoff_drops_inband_counterexample :
    ¬ (∀ k : Fin 16, aperture ((signed16 k : ℝ) / (16 * (1 / 10))) 0 (1 / 10) = 1 →
        ∃ i : Fin 10, embedFin 10 16 (by norm_num) i = k) := by
  intro h
  have hap : aperture ((signed16 5 : ℝ) / (16 * (1 / 10))) 0 (1 / 10) = 1 := by
    unfold aperture
    apply apertureOf_eq_one
    · unfold AbtemVerif.Gen.PropagatorR.apertureTaper AbtemVerif.Gen.PropagatorR.antialiasTaper; norm_num
    · unfold AbtemVerif.Gen.PropagatorR.apertureRadius AbtemVerif.Gen.PropagatorR.apertureCutoff
        AbtemVerif.Gen.PropagatorR.apertureTaper AbtemVerif.Gen.PropagatorR.antialiasCutoff AbtemVerif.Gen.PropagatorR.antialiasTaper
      have hs : (signed16 5 : ℝ) = 5 := by simp [signed16]
      rw [hs]
      have : Real.sqrt ((5 / (16 * (1 / 10)) : ℝ) ^ 2 + 0 ^ 2) = 5 / (16 * (1 / 10)) := by
        rw [show (0 : ℝ) ^ 2 = 0 by norm_num, add_zero, Real.sqrt_sq (by norm_num)]
      rw [this]; norm_num
  obtain ⟨i, hi⟩ := h 5 hap
  revert hi
  revert i
  decide

end DownsampleCutoff

/-! ## Part 3 — shifting -/

section Shift
open AbtemVerif.WaveOptics AbtemVerif.Gen.FftShiftR

/-- `fft_shift_kernel` at one pixel (2-D): product of the per-axis phase ramps (generated phase) -/
noncomputable def shiftKernel (kx ky x y : ℝ) : ℂ := cexp (shiftPhase kx x) * cexp (shiftPhase ky y)

/-- shifts compose additively: `kernel(p + q) = kernel(p) · kernel(q)` -/
theorem shift_kernel_add (kx ky x y x' y' : ℝ) :
    shiftKernel kx ky (x + x') (y + y') = shiftKernel kx ky x y * shiftKernel kx ky x' y' := by
  unfold shiftKernel
  have h1 : shiftPhase kx (x + x') = shiftPhase kx x + shiftPhase kx x' := by unfold shiftPhase; ring
  have h2 : shiftPhase ky (y + y') = shiftPhase ky y + shiftPhase ky y' := by unfold shiftPhase; ring
  rw [h1, h2, cexp_add, cexp_add]; ring

theorem shift_kernel_zero (kx ky : ℝ) : shiftKernel kx ky 0 0 = 1 := by
  simp [shiftKernel, shiftPhase, cexp_zero]

theorem shift_kernel_unit_modulus (kx ky x y : ℝ) : Complex.normSq (shiftKernel kx ky x y) = 1 := by
  simp [shiftKernel, Complex.normSq_mul, normSq_cexp]

variable {ι : Type*} [Fintype ι]

/-- `fft_shift` as an operator -/
noncomputable def fftShift (P : FourierPair ι) (kx ky : ι → ℝ) (x y : ℝ) (ψ : ι → ℂ) : ι → ℂ :=
  P.mult (fun k => shiftKernel (kx k) (ky k) x y) ψ

/-- shifting by `p` then by `q` is shifting by `p + q` -/
theorem fft_shift_add (P : FourierPair ι) (kx ky : ι → ℝ) (x y x' y' : ℝ) (ψ : ι → ℂ) :
    fftShift P kx ky x' y' (fftShift P kx ky x y ψ) = fftShift P kx ky (x + x') (y + y') ψ := by
  unfold fftShift
  rw [P.mult_mult]
  congr 1; funext k
  rw [shift_kernel_add]; ring

theorem fft_shift_zero (P : FourierPair ι) (kx ky : ι → ℝ) (ψ : ι → ℂ) : fftShift P kx ky 0 0 ψ = ψ := by
  unfold fftShift
  simp only [shift_kernel_zero]
  exact P.mult_one ψ

/-- shifting back undoes a shift, and shifting preserves the intensity -/
theorem fft_shift_neg (P : FourierPair ι) (kx ky : ι → ℝ) (x y : ℝ) (ψ : ι → ℂ) :
    fftShift P kx ky (-x) (-y) (fftShift P kx ky x y ψ) = ψ := by
  rw [fft_shift_add]; simp [fft_shift_zero]

theorem fft_shift_energy [Nonempty ι] (P : FourierPair ι) (kx ky : ι → ℝ) (x y : ℝ) (ψ : ι → ℂ) :
    energy (fftShift P kx ky x y ψ) = energy ψ :=
  P.energy_mult_eq _ _ (fun _ => shift_kernel_unit_modulus _ _ _ _)

/-- Whole-pixel shifts are periodic rolls: for the DFT on `ZMod N`, the multiplier with the character
`k ↦ e^{-2πi a k / N}` is the translation by `a`. -/
theorem integer_shift_is_roll (N : ℕ) [NeZero N] (a : ZMod N) (x : ZMod N → ℂ) :
    (zmodPair N).mult (fun k => (ZMod.stdAddChar (-(a * k)) : ℂ)) x = fun j => x (j - a) := by
  apply (zmodPair N).F_injective
  rw [(zmodPair N).F_mult]
  funext k
  exact (zmod_dft_shift N x a k).symm

/-- `np.fft.fftfreq(N, 1.0)` at index `k`: `k/N` for the first `⌈N/2⌉` indices, `(k − N)/N` after -/
noncomputable def unitFreq (N : ℕ) (k : ZMod N) : ℝ :=
  if k.val < (N + 1) / 2 then (k.val : ℝ) / N else ((k.val : ℝ) - N) / N

/-- the generated shift phase at an fftfreq frequency and a whole-pixel displacement is the DFT character -/
theorem cexp_shiftPhase_eq_stdAddChar (N : ℕ) [NeZero N] (a : ℤ) (k : ZMod N) :
    cexp (shiftPhase (unitFreq N k) (a : ℝ)) = (ZMod.stdAddChar (-((a : ZMod N) * k)) : ℂ) := by
  have hN : (N : ℂ) ≠ 0 := by exact_mod_cast NeZero.ne N
  have hk : -((a : ZMod N) * k) = ((-(a * (k.val : ℤ)) : ℤ) : ZMod N) := by
    push_cast
    rw [ZMod.natCast_zmod_val]
  rw [hk, ZMod.stdAddChar_coe, cexp_eq]
  unfold shiftPhase unitFreq
  split_ifs with h
  · congr 1
    push_cast
    field_simp
  · -- the extra `+2π·a` is a full period
    have : ((((-2 : ℝ) * Real.pi * (((k.val : ℝ) - N) / N) * (a : ℝ) : ℝ) : ℂ) * Complex.I)
        = 2 * Real.pi * Complex.I * ((-(a * (k.val : ℤ)) : ℤ) : ℂ) / N + (a : ℤ) * (2 * Real.pi * Complex.I) := by
      push_cast
      field_simp
      ring
    rw [this, Complex.exp_add, Complex.exp_int_mul_two_pi_mul_I, mul_one]

/-- Whole-pixel `fft_shift` with the kernel the code builds (generated phase at the `fftfreq` frequencies) is the periodic
roll by `a` pixels (1-D DFT on `ZMod N`; the 2-D kernel is the product of two such factors). -/
theorem integer_shift_is_roll_code (N : ℕ) [NeZero N] (a : ℤ) (x : ZMod N → ℂ) :
    (zmodPair N).mult (fun k => cexp (shiftPhase (unitFreq N k) (a : ℝ))) x = fun j => x (j - (a : ZMod N)) := by
  simp only [cexp_shiftPhase_eq_stdAddChar]
  exact integer_shift_is_roll N (a : ZMod N) x

end Shift

/-! ## Part 4 — real input and even axes

`fft_interpolate` takes `.real` after the inverse transform when the input is real.  Upsampling an even axis copies its Nyquist
coefficient to the −Nyquist slot only; `.real` splits it into two halves at ±Nyquist.  Since fix cc7e34fc the crop back to an even
axis (`_fft_crop_fold`, real input only) adds the +Nyquist coefficient to the kept −Nyquist slot, so the round trip is exact again
(`real_even_roundtrip_2_4`; before the fix it returned (3/4, 1/4) for (1, 0)).  What remains, inherently: the real interpolant of an
even axis carries the Nyquist power as 2·|X/2|² = |X|²/2, so 'intensity' normalisation cannot keep Σ|F|² for real input with an even
upsampled axis (`real_even_intensity_counterexample`, recorded as known). -/

section RealEven
open Complex AbtemVerif.Gen.FftCropR

variable {ι₁ ι₂ : Type*} [Fintype ι₁] [Fintype ι₂]

/-- `_fft_crop_fold`: crop along the embedding `e`, and where `f i = some k` add coefficient `k` of the source (the +Nyquist
coefficient that the plain crop drops) onto output coefficient `i` -/
def cropFold (e : ι₁ → ι₂) (f : ι₁ → Option ι₂) (Y : ι₂ → ℂ) : ι₁ → ℂ :=
  fun i => Y (e i) + (match f i with | some k => Y k | none => 0)

/-- `fft_interpolate` to a smaller grid for REAL input (fold, `.real`, factor) -/
noncomputable def downRealFold (P₁ : FourierPair ι₁) (P₂ : FourierPair ι₂) (e : ι₁ → ι₂) (f : ι₁ → Option ι₂) (c : ℂ)
    (y : ι₂ → ℂ) : ι₁ → ℂ := c • realPart (P₁.Finv (cropFold e f (P₂.F y)))

lemma cropFold_none (e : ι₁ → ι₂) (Y : ι₂ → ℂ) : cropFold e (fun _ => none) Y = crop e Y := by
  funext i; simp [cropFold, crop]

/-- without a fold slot (all cropped axes odd) the real path is the plain one -/
theorem downRealFold_none (P₁ : FourierPair ι₁) (P₂ : FourierPair ι₂) (e : ι₁ → ι₂) (c : ℂ) (y : ι₂ → ℂ) :
    downRealFold P₁ P₂ e (fun _ => none) c y = downReal P₁ P₂ e c y := by
  unfold downRealFold downReal; rw [cropFold_none]

/-- per-axis embedding 2 → 4 used by the code: coefficient 0 ↦ 0, Nyquist coefficient 1 ↦ 3 (frequency −1 only) -/
def e24 : Fin 2 → Fin 4 := embedFin 2 4 (by norm_num)
/-- fold slot for 4 → 2: output coefficient 1 (Nyquist of the short axis) also receives source coefficient 1 (= index `n2 // 2`) -/
def f24 : Fin 2 → Option (Fin 4) := fun i => if i = 1 then some 1 else none

lemma e24_zero : e24 0 = 0 := by decide
lemma e24_one : e24 1 = 3 := by decide

lemma pad_e24 (X : Fin 2 → ℂ) : pad e24 X = ![X 0, 0, 0, X 1] := by
  have he : Function.Injective e24 := embedFin_injective 2 4 (by norm_num)
  funext k
  fin_cases k
  · show pad e24 X 0 = _
    rw [← e24_zero, pad_apply e24 he]; rfl
  · show pad e24 X 1 = _
    rw [pad_apply_off]; · rfl
    rintro ⟨i, hi⟩; fin_cases i <;> simp [e24_zero, e24_one] at hi
  · show pad e24 X 2 = _
    rw [pad_apply_off]; · rfl
    rintro ⟨i, hi⟩; fin_cases i <;> simp [e24_zero, e24_one] at hi
  · show pad e24 X 3 = _
    rw [← e24_one, pad_apply e24 he]; rfl

/-- Smallest even instance, all real inputs: 2 → 4 → 2 with the fold returns the original array ('values' factors 2 and 1/2). -/
theorem real_even_roundtrip_2_4 (x : Fin 2 → ℂ) (hx : ∀ j, (x j).im = 0) :
    downRealFold dft2 dft4 e24 f24 ((valuesFactor 2 4 : ℝ) : ℂ) (upReal dft2 dft4 e24 ((valuesFactor 4 2 : ℝ) : ℂ) x) = x := by
  have h0 := hx 0
  have h1 := hx 1
  unfold downRealFold upReal
  rw [pad_e24]
  funext j
  fin_cases j <;>
    simp [dft2, dft4, F2lin, F2invlin, F2fun, F2inv, F4lin, F4invlin, F4fun, F4inv, realPart, cropFold, e24_zero, e24_one, f24,
      valuesFactor, Complex.ext_iff, h0, h1] <;> ring_nf <;> simp [h0, h1] <;> ring

/-- the plain crop (what the code did before the fix, and still does for complex input) loses half of the Nyquist coefficient on
that path: (1, 0) came back as (3/4, 1/4) -/
theorem real_even_roundtrip_without_fold_counterexample :
    ¬ (∀ x : Fin 2 → ℂ, (∀ j, (x j).im = 0) →
        downReal dft2 dft4 e24 ((valuesFactor 2 4 : ℝ) : ℂ) (upReal dft2 dft4 e24 ((valuesFactor 4 2 : ℝ) : ℂ) x) = x) := by
  intro h
  have h0 := congrFun (h ![1, 0] (by intro j; fin_cases j <;> simp)) 0
  revert h0
  unfold downReal upReal
  rw [pad_e24]
  simp [dft2, dft4, F2lin, F2invlin, F2fun, F2inv, F4lin, F4invlin, F4fun, F4inv, realPart, crop, e24_zero, e24_one,
    valuesFactor]
  norm_num [Complex.ext_iff]

/-- Inherent (known finding `real-array-even-axis-intensity-upsampling-halves-nyquist-power`): 'intensity' upsampling (factor 1)
of the real array (1, 0) from 2 to 4 points has Σ|F|² = 3/2, not 2 — half of the Nyquist power |X₁|² = 1 is gone. -/
theorem real_even_intensity_counterexample :
    ¬ (∀ x : Fin 2 → ℂ, (∀ j, (x j).im = 0) → energy (dft4.F (upReal dft2 dft4 e24 1 x)) = energy (dft2.F x)) := by
  intro h
  have := h ![1, 0] (by intro j; fin_cases j <;> simp)
  revert this
  unfold upReal
  rw [pad_e24]
  simp [energy, Fin.sum_univ_four, Fin.sum_univ_two, dft2, dft4, F2lin, F2fun, F4lin, F4invlin, F4fun, F4inv, realPart,
    Complex.normSq_apply]
  norm_num

end RealEven

end AbtemVerif.Props.C15
