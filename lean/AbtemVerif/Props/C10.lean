/-
C10 — Potential building and slice windows are consistent.

Statements are about the orchestration model `AbtemVerif.Build` (Model/Build.lean) of
`_FieldBuilder.build` (eager / lazy), `_FieldBuilderFromAtoms.generate_slices`,
`FieldArray.generate_slices` and `CrystalPotential.generate_slices`.  Every theorem is universally
quantified over the numeric kernels (`kern`, `unit`, `tile`, the RNG stream `draw`, the per-block slice
generator `slicesOf`), over the slice thicknesses, the exit-plane flags, the number of ensemble blocks and
the window: they hold for every integrator, every parametrization, every grid.
-/
import AbtemVerif.Model.Build
import Mathlib.Data.List.Range
import Mathlib.Tactic.Ring

namespace AbtemVerif.Props.C10
open AbtemVerif.Build AbtemVerif.Gen.Build

/-! ### helper lemmas -/

lemma mapM_ok {α β} (l : List α) (g : α → Except String β) (f : α → β)
    (h : ∀ a ∈ l, g a = .ok (f a)) : l.mapM g = .ok (l.map f) := by
  induction l with
  | nil => rfl
  | cons a l ih =>
    rw [List.mapM_cons, h a (by simp), ih (fun b hb => h b (by simp [hb]))]
    rfl

lemma mapM_congr' {α β} (l : List α) (g g' : α → Except String β)
    (h : ∀ a ∈ l, g a = g' a) : l.mapM g = l.mapM g' := by
  induction l with
  | nil => rfl
  | cons a l ih =>
    rw [List.mapM_cons, List.mapM_cons, h a (by simp), ih (fun b hb => h b (by simp [hb]))]

lemma pyRange_eq (a b : Nat) (h : a ≤ b) : pyRange a (b : Int) = List.range' a (b - a) := by
  unfold pyRange
  split
  · have : a = b := by omega
    subst this; simp
  · simp

lemma atomsRange_eq (a b : Nat) (h : a ≤ b) :
    List.range' (atomsStart (a : Int) (b : Int)).toNat (atomsCount (a : Int) (b : Int)).toNat = List.range' a (b - a) := by
  unfold atomsStart atomsCount
  congr 1 <;> omega

lemma crystalInWindow_iff (first g : Nat) (last : Int) :
    crystalInWindow (first : Int) (g : Int) last = true ↔ first ≤ g ∧ (g : Int) < last := by
  unfold crystalInWindow
  simp

lemma crystalFlag_eq (flags : List Bool) (first g : Nat) (last : Int) :
    flags.extract (crystalFlagLo (first : Int) (g : Int) last).toNat (crystalFlagHi (first : Int) (g : Int) last).toNat = at1 flags g := by
  unfold crystalFlagLo crystalFlagHi at1
  congr 1 <;> omega

lemma crystalStop_iff (first g : Nat) (last : Int) : crystalStop (first : Int) (g : Int) last = true ↔ (g : Int) ≥ last := by
  unfold crystalStop
  simp

lemma extract_range_map {β} (F : Nat → β) (n a b : Nat) (hb : b ≤ n) :
    ((List.range n).map F).extract a b = (List.range' a (b - a)).map F := by
  rw [List.extract_eq_take_drop, ← List.map_drop, ← List.map_take, List.range_eq_range', List.drop_range',
    List.take_range'_of_length_ge (by omega)]
  simp

lemma range'_split (s k n : Nat) (h : k ≤ n) : List.range' s n = List.range' s k ++ List.range' (s + k) (n - k) := by
  rw [List.range'_append_1]; congr 1; omega

/-- filtering a range by a half-open window and mapping = mapping over the window -/
lemma filterMap_window {β} (S : Nat → β) (N a b : Nat) (hab : a ≤ b) (hb : b ≤ N) :
    (List.range' 0 N).filterMap (fun g => if a ≤ g ∧ (g : Int) < (b : Int) then some (S g) else none)
      = (List.range' a (b - a)).map S := by
  have h1 : List.range' 0 N = List.range' 0 a ++ (List.range' a (b - a) ++ List.range' b (N - b)) := by
    rw [range'_split 0 a N (by omega), Nat.zero_add, range'_split a (b - a) (N - a) (by omega)]
    have e1 : a + (b - a) = b := by omega
    have e2 : N - a - (b - a) = N - b := by omega
    rw [e1, e2]
  rw [h1, List.filterMap_append, List.filterMap_append]
  have e1 : (List.range' 0 a).filterMap (fun g => if a ≤ g ∧ (g : Int) < (b : Int) then some (S g) else none) = [] := by
    rw [List.filterMap_eq_nil_iff]
    intro g hg
    have := List.mem_range'_1.mp hg
    rw [if_neg (by omega)]
  have e3 : (List.range' b (N - b)).filterMap (fun g => if a ≤ g ∧ (g : Int) < (b : Int) then some (S g) else none) = [] := by
    rw [List.filterMap_eq_nil_iff]
    intro g hg
    have := List.mem_range'_1.mp hg
    rw [if_neg (by omega)]
  have e2 : (List.range' a (b - a)).filterMap (fun g => if a ≤ g ∧ (g : Int) < (b : Int) then some (S g) else none)
      = (List.range' a (b - a)).map S := by
    rw [← List.filterMap_eq_map']
    apply List.filterMap_congr
    intro g hg
    have := List.mem_range'_1.mp hg
    rw [if_pos (by omega)]
  rw [e1, e2, e3]; simp

/-! ### slice windows: atoms-based potentials -/

/-- `generate_slices(a, b)` of an atoms-based potential yields, for `a ≤ b ≤ n`, exactly the slices `a … b-1`: the
integrator's result for that slice index, that slice's thickness entry and that slice's exit-plane flag. -/
theorem genAtoms_window {V T} (ts : List T) (flags : List Bool) (kern : Nat → V) (a b : Nat)
    (hab : a ≤ b) (hb : b ≤ ts.length) :
    genAtoms ts flags kern a (some (b : Int))
      = .ok ((List.range' a (b - a)).map fun i => mkSlice ts flags i (kern i)) := by
  unfold genAtoms
  simp only [Option.getD_some]
  rw [if_neg (by unfold atomsCount; omega), atomsRange_eq a b hab]
  apply mapM_ok
  intro i hi
  have := List.mem_range'_1.mp hi
  rw [if_pos (by omega)]

/-- the full sequence (`first_slice = 0`, `last_slice = None`) -/
theorem genAtoms_full {V T} (ts : List T) (flags : List Bool) (kern : Nat → V) :
    genAtoms ts flags kern 0 none = .ok ((List.range ts.length).map fun i => mkSlice ts flags i (kern i)) := by
  have := genAtoms_window ts flags kern 0 ts.length (Nat.zero_le _) (Nat.le_refl _)
  rw [List.range_eq_range']
  simpa [genAtoms] using this

/-- **window = sublist** for atoms-based potentials: for every window `0 ≤ a ≤ b ≤ n`,
`generate_slices(a, b)` is the part `[a, b)` of the full slice sequence (values, thicknesses and exit flags). -/
theorem atoms_window_eq_sublist {V T} (ts : List T) (flags : List Bool) (kern : Nat → V) (a b : Nat)
    (hab : a ≤ b) (hb : b ≤ ts.length) (full : List (Slice V T)) (hfull : genAtoms ts flags kern 0 none = .ok full) :
    genAtoms ts flags kern a (some (b : Int)) = .ok (full.extract a b) := by
  rw [genAtoms_full] at hfull
  cases hfull
  rw [genAtoms_window ts flags kern a b hab hb, extract_range_map _ _ _ _ hb]

/-- adjacent windows concatenate to the enclosing window -/
theorem atoms_windows_concat {V T} (ts : List T) (flags : List Bool) (kern : Nat → V) (a b c : Nat)
    (hab : a ≤ b) (hbc : b ≤ c) (hc : c ≤ ts.length) (x y : List (Slice V T))
    (hx : genAtoms ts flags kern a (some (b : Int)) = .ok x) (hy : genAtoms ts flags kern b (some (c : Int)) = .ok y) :
    genAtoms ts flags kern a (some (c : Int)) = .ok (x ++ y) := by
  rw [genAtoms_window ts flags kern a b hab (le_trans hbc hc)] at hx
  rw [genAtoms_window ts flags kern b c hbc hc] at hy
  cases hx; cases hy
  rw [genAtoms_window ts flags kern a c (le_trans hab hbc) hc, ← List.map_append,
    range'_split a (b - a) (c - a) (by omega)]
  have e1 : a + (b - a) = b := by omega
  have e2 : c - a - (b - a) = c - b := by omega
  rw [e1, e2]

/-- a window reaching past the last slice is rejected (IndexError in `get_atoms_in_slices`) -/
theorem genAtoms_past_end_rejected {V T} (ts : List T) (flags : List Bool) (kern : Nat → V) (a b : Nat)
    (hab : a < b) (hb : ts.length < b) :
    genAtoms ts flags kern a (some (b : Int)) = .error "index_error" := by
  unfold genAtoms
  simp only [Option.getD_some]
  rw [if_neg (by unfold atomsCount; omega), atomsRange_eq a b (Nat.le_of_lt hab)]
  -- split the range at n: the first failing index is max a n
  generalize hm : b - a = m
  induction m generalizing a with
  | zero => omega
  | succ m ih =>
    rw [List.range'_succ, List.mapM_cons]
    by_cases ha : a < ts.length
    · rw [if_pos ha]
      have := ih (a + 1) (by omega) (by omega)
      simp only [this]
      rfl
    · rw [if_neg ha]; rfl

/-! ### slice windows: potential arrays -/

theorem genArray_window {V T} (ts : List T) (flags : List Bool) (arr : List V) (a b : Nat)
    (hab : a ≤ b) (hb : b ≤ arr.length) (d : V) :
    genArray ts flags arr a (some (b : Int))
      = .ok ((List.range' a (b - a)).map fun i => mkSlice ts flags i (arr.getD i d)) := by
  unfold genArray
  simp only [Option.getD_some]
  rw [pyRange_eq a b hab]
  apply mapM_ok
  intro i hi
  have := List.mem_range'_1.mp hi
  have hi' : i < arr.length := by omega
  simp [List.getD_eq_getElem?_getD, List.getElem?_eq_getElem hi']

/-- **window = sublist** for `PotentialArray` / `FieldArray` (array of `n = len(slice_thickness)` slices). -/
theorem array_window_eq_sublist {V T} (ts : List T) (flags : List Bool) (arr : List V) (a b : Nat)
    (hab : a ≤ b) (hb : b ≤ arr.length) (hn : arr.length = ts.length) (full : List (Slice V T))
    (hfull : genArray ts flags arr 0 none = .ok full) :
    genArray ts flags arr a (some (b : Int)) = .ok (full.extract a b) := by
  cases arr with
  | nil =>
    have hb0 : b = 0 := by simpa using hb
    have ha0 : a = 0 := by omega
    subst hb0; subst ha0
    simp [genArray, pyRange]
    rfl
  | cons d rest =>
    have hf := genArray_window ts flags (d :: rest) 0 (d :: rest).length (Nat.zero_le _) (Nat.le_refl _) d
    have : genArray ts flags (d :: rest) 0 none = genArray ts flags (d :: rest) 0 (some (((d :: rest).length : Nat) : Int)) := by
      simp [genArray, hn]
    rw [this, hf] at hfull
    cases hfull
    rw [genArray_window ts flags (d :: rest) a b hab hb d, Nat.sub_zero, ← List.range_eq_range',
      extract_range_map _ _ _ _ hb]

/-! ### slice windows: crystal potentials -/

/-- what the crystal yields for global slice `g` of the full sequence: the tiled slice `g % U` of the unit drawn for
repetition `g / U`, the unit's thickness entry, the crystal's exit flag of slice `g`. -/
def crystalSlice {V T} (uts : List T) (flags : List Bool) (draw : Nat → Nat) (unit : Nat → Nat → V) (tile : V → V)
    (g : Nat) : Slice V T :=
  ⟨tile (unit (draw (g / uts.length)) (g % uts.length)), at1 uts (g % uts.length), whereTrue (at1 flags g)⟩

lemma crystalInner_cons {V T} (uts : List T) (flags : List Bool) (unit : Nat → Nat → V) (tile : V → V)
    (first : Nat) (last : Int) (c j : Nat) (js : List Nat) (g : Nat) :
    crystalInner uts flags unit tile first last c (j :: js) g
      = ((if first ≤ g ∧ (g : Int) < last
            then [(⟨tile (unit c j), at1 uts j, whereTrue (at1 flags g)⟩ : Slice V T)] else [])
          ++ (crystalInner uts flags unit tile first last c js (g + 1)).1,
         (crystalInner uts flags unit tile first last c js (g + 1)).2) := by
  rw [crystalInner]
  simp only [crystalFlag_eq]
  by_cases h : first ≤ g ∧ (g : Int) < last
  · rw [if_pos ((crystalInWindow_iff first g last).mpr h), if_pos h]
  · rw [if_neg (fun hc => h ((crystalInWindow_iff first g last).mp hc)), if_neg h]

lemma crystalInner_range' {V T} (uts : List T) (flags : List Bool) (unit : Nat → Nat → V) (tile : V → V)
    (first : Nat) (last : Int) (c : Nat) (m j0 g : Nat) :
    crystalInner uts flags unit tile first last c (List.range' j0 m) g
      = ((List.range m).filterMap (fun k => if first ≤ g + k ∧ ((g + k : Nat) : Int) < last
            then some (⟨tile (unit c (j0 + k)), at1 uts (j0 + k), whereTrue (at1 flags (g + k))⟩ : Slice V T) else none),
         g + m) := by
  induction m generalizing j0 g with
  | zero => simp [crystalInner]
  | succ m ih =>
    rw [List.range'_succ, crystalInner_cons, ih (j0 + 1) (g + 1), List.range_succ_eq_map, List.filterMap_cons,
      List.filterMap_map]
    simp only [Nat.add_zero, Function.comp_def]
    have hk : ∀ k, g + 1 + k = g + (k + 1) := fun k => by omega
    have hj : ∀ k, j0 + 1 + k = j0 + (k + 1) := fun k => by omega
    simp only [hk, hj]
    refine Prod.ext ?_ (by simp)
    by_cases hc : first ≤ g ∧ (g : Int) < last
    · simp [hc]
    · simp [hc]

lemma crystalInner_rep {V T} (uts : List T) (flags : List Bool) (draw : Nat → Nat) (unit : Nat → Nat → V) (tile : V → V)
    (first : Nat) (last : Int) (r : Nat) :
    crystalInner uts flags unit tile first last (draw r) (List.range uts.length) (r * uts.length)
      = ((List.range' (r * uts.length) uts.length).filterMap
          (fun g => if first ≤ g ∧ (g : Int) < last then some (crystalSlice uts flags draw unit tile g) else none),
         (r + 1) * uts.length) := by
  rw [List.range_eq_range', crystalInner_range', List.range'_eq_map_range, List.filterMap_map]
  refine Prod.ext ?_ (by simp; ring)
  simp only [Function.comp_def]
  apply List.filterMap_congr
  intro k hk
  have hk' : k < uts.length := List.mem_range.mp hk
  have hpos : 0 < uts.length := by omega
  have h1 : (r * uts.length + k) / uts.length = r := by
    rw [Nat.mul_comm, Nat.mul_add_div hpos, Nat.div_eq_of_lt hk']; simp
  have h2 : (r * uts.length + k) % uts.length = k := by
    rw [Nat.mul_comm, Nat.mul_add_mod, Nat.mod_eq_of_lt hk']
  simp only [crystalSlice, h1, h2, Nat.zero_add]

lemma crystalOuter_eq {V T} (uts : List T) (flags : List Bool) (draw : Nat → Nat) (unit : Nat → Nat → V) (tile : V → V)
    (first : Nat) (last : Int) (m r0 : Nat) :
    crystalOuter uts flags draw unit tile first last (List.range' r0 m) (r0 * uts.length)
      = (List.range' (r0 * uts.length) (m * uts.length)).filterMap
          (fun g => if first ≤ g ∧ (g : Int) < last then some (crystalSlice uts flags draw unit tile g) else none) := by
  induction m generalizing r0 with
  | zero => simp [crystalOuter]
  | succ m ih =>
    have hsplit : List.range' (r0 * uts.length) ((m + 1) * uts.length)
        = List.range' (r0 * uts.length) uts.length ++ List.range' ((r0 + 1) * uts.length) (m * uts.length) := by
      rw [show (r0 + 1) * uts.length = r0 * uts.length + uts.length by ring, List.range'_append_1]
      congr 1; ring
    rw [List.range'_succ, crystalOuter, crystalInner_rep, hsplit, List.filterMap_append]
    simp only
    split
    · rename_i hge
      have hge := (crystalStop_iff first ((r0 + 1) * uts.length) last).mp (by simpa using hge)
      have : (List.range' ((r0 + 1) * uts.length) (m * uts.length)).filterMap
          (fun g => if first ≤ g ∧ (g : Int) < last then some (crystalSlice uts flags draw unit tile g) else none) = [] := by
        rw [List.filterMap_eq_nil_iff]
        intro g hg
        have hg' := (List.mem_range'_1.mp hg).1
        have h3 : (((r0 + 1) * uts.length : Nat) : Int) ≤ (g : Int) := by exact_mod_cast hg'
        rw [if_neg]
        intro h4
        have := h4.2
        omega
      rw [this]; simp
    · rw [ih (r0 + 1)]

/-- `generate_slices(a, b)` of a crystal yields, for `a ≤ b ≤ U·reps`, exactly the slices `a … b-1` of the full
sequence — same potential units (same RNG draws per repetition), thicknesses and exit flags. -/
theorem genCrystal_window {V T} (uts : List T) (flags : List Bool) (reps : Nat) (draw : Nat → Nat) (unit : Nat → Nat → V)
    (tile : V → V) (a b : Nat) (hab : a ≤ b) (hb : b ≤ uts.length * reps) :
    genCrystal uts flags reps draw unit tile a (some (b : Int))
      = (List.range' a (b - a)).map (crystalSlice uts flags draw unit tile) := by
  unfold genCrystal
  simp only [Option.getD_some]
  have := crystalOuter_eq uts flags draw unit tile a (b : Int) reps 0
  rw [Nat.zero_mul, ← List.range_eq_range'] at this
  rw [this, filterMap_window _ _ a b hab (by rw [Nat.mul_comm]; exact hb)]

theorem genCrystal_full {V T} (uts : List T) (flags : List Bool) (reps : Nat) (draw : Nat → Nat) (unit : Nat → Nat → V)
    (tile : V → V) :
    genCrystal uts flags reps draw unit tile 0 none
      = (List.range (uts.length * reps)).map (crystalSlice uts flags draw unit tile) := by
  have := genCrystal_window uts flags reps draw unit tile 0 (uts.length * reps) (Nat.zero_le _) (Nat.le_refl _)
  rw [List.range_eq_range']
  simpa [genCrystal] using this

/-- **window = sublist** for `CrystalPotential` (repaired `generate_slices`, fix 0713c137). -/
theorem crystal_window_eq_sublist {V T} (uts : List T) (flags : List Bool) (reps : Nat) (draw : Nat → Nat)
    (unit : Nat → Nat → V) (tile : V → V) (a b : Nat) (hab : a ≤ b) (hb : b ≤ uts.length * reps) :
    genCrystal uts flags reps draw unit tile a (some (b : Int))
      = (genCrystal uts flags reps draw unit tile 0 none).extract a b := by
  rw [genCrystal_window uts flags reps draw unit tile a b hab hb, genCrystal_full, extract_range_map _ _ _ _ hb]

/-! ### build: eager, lazy, ensembles, windows -/

lemma windowExit_ok (eps : List Int) (n first : Nat) (last width : Int) (h : eps ≠ []) :
    ∃ planes, windowExit eps n first last width = .ok planes := by
  cases eps with
  | nil => exact absurd rfl h
  | cons e0 rest => exact ⟨_, rfl⟩

lemma writeRow_exact {V} (w : Nat) (vals : List V) (h : vals.length = w) :
    writeRow w vals = .ok (vals.map some) := by
  unfold writeRow
  rw [if_pos (by omega)]
  simp [h]

lemma pySlice_window {T} (ts : List T) (a b : Nat) (hab : a ≤ b) (hb : b ≤ ts.length) :
    pySlice ts a (b : Int) = ts.extract a b ∧ (pySlice ts a (b : Int)).length = b - a := by
  unfold pySlice
  have : ¬ ((b : Int) < 0) := by omega
  simp only [this, if_false, Int.toNat_natCast, true_and]
  rw [List.extract_eq_take_drop, List.length_take, List.length_drop]
  omega

/-- **rows are configurations** (eager build, fix 53ec6279): if block `c` generates the slices `sl c` (one per slice of
the window), row `c` of the built array holds exactly the values of `sl c`, in order; the thickness metadata is the
window of the thickness tuple.  Holds for every number of ensemble blocks. -/
theorem buildEager_rows {V T} (ts : List T) (eps : List Int) (blocks : List Nat)
    (slicesOf : Nat → Except String (List (Slice V T))) (sl : Nat → List (Slice V T)) (a b : Nat)
    (hab : a ≤ b) (hb : b ≤ ts.length) (hsl : ∀ c ∈ blocks, slicesOf c = .ok (sl c) ∧ (sl c).length = b - a)
    (planes : List Int) (hp : windowExit eps ts.length a (b : Int) ((b : Int) - (a : Int)) = .ok planes) :
    buildEager ts eps blocks slicesOf a (some (b : Int))
      = .ok ⟨blocks.map fun c => (sl c).map fun s => some s.val, ts.extract a b, planes⟩ := by
  have hw : ((b : Int) - (a : Int)).toNat = b - a := by omega
  have hneg : ¬ ((b : Int) - (a : Int) < 0) := by omega
  have hrows : blocks.mapM (eagerRow (b - a) slicesOf)
      = .ok (blocks.map fun c => (sl c).map fun s => some s.val) := by
    apply mapM_ok
    intro c hc
    unfold eagerRow
    rw [(hsl c hc).1]
    show writeRow (b - a) ((sl c).map fun s => s.val) = _
    rw [writeRow_exact _ _ (by simp [(hsl c hc).2])]
    simp
  obtain ⟨h1, h2⟩ := pySlice_window ts a b hab hb
  unfold buildEager
  have h3 : (ts.extract a b).length = b - a := h1 ▸ h2
  simp only [Option.getD_some, eagerWidth, hneg, if_false, hw, hrows, h1, h3, hp, ne_eq, not_true_eq_false]
  rfl

lemma lazyBlockRow_eq {V T} (ts : List T) (eps : List Int) (slicesOf : Nat → Except String (List (Slice V T)))
    (a b : Nat) (hab : a ≤ b) (hb : b ≤ ts.length) (c : Nat)
    (planes : List Int) (hp : windowExit eps ts.length a (b : Int) ((b : Int) - (a : Int)) = .ok planes) :
    lazyBlockRow ts eps slicesOf a (some (b : Int)) c = eagerRow (b - a) slicesOf c := by
  obtain ⟨h1, h2⟩ := pySlice_window ts a b hab hb
  have hw : ((b : Int) - (a : Int)).toNat = b - a := by omega
  have hneg : ¬ ((b : Int) - (a : Int) < 0) := by omega
  have he : eagerRow (b - a) (fun _ => slicesOf c) 0 = eagerRow (b - a) slicesOf c := rfl
  unfold lazyBlockRow buildEager
  simp only [Option.getD_some, eagerWidth, hneg, if_false, List.mapM_cons, List.mapM_nil, hw, h2, he, hp, ne_eq, not_true_eq_false]
  cases hs : eagerRow (b - a) slicesOf c with
  | error e => rfl
  | ok row => rfl

/-- the eager build allocates, and the lazy build declares, the same number of slices (generated expressions) -/
theorem eager_lazy_width_agree (first last : Int) : eagerWidth first last = lazyWidth first last := rfl

/-- **eager = lazy** (fixes 53ec6279, 41d29c48): for every window `a ≤ b ≤ n`, every number of ensemble blocks and every
per-block slice generator — including generators that fail — the lazy build (one task per block, assembled by block
position) returns exactly what the eager build returns. -/
theorem build_eager_eq_lazy {V T} (ts : List T) (eps : List Int) (blocks : List Nat)
    (slicesOf : Nat → Except String (List (Slice V T))) (a b : Nat) (hab : a ≤ b) (hb : b ≤ ts.length) (heps : eps ≠ []) :
    buildLazy ts eps blocks slicesOf a (some (b : Int)) = buildEager ts eps blocks slicesOf a (some (b : Int)) := by
  obtain ⟨planes, hp⟩ := windowExit_ok eps ts.length a (b : Int) ((b : Int) - (a : Int)) heps
  obtain ⟨h1, h2⟩ := pySlice_window ts a b hab hb
  have hw : ((b : Int) - (a : Int)).toNat = b - a := by omega
  have hneg : ¬ ((b : Int) - (a : Int) < 0) := by omega
  have hlen : ((pySlice ts a (b : Int)).length : Int) = (b : Int) - (a : Int) := by rw [h2]; omega
  have hc : ((b - a : Nat) : Int) = (b : Int) - (a : Int) := by omega
  unfold buildLazy buildEager
  simp only [Option.getD_some, eagerWidth, lazyWidth, ne_eq, not_true_eq_false, if_false, hneg, hw, h2, hc, hp]
  rw [mapM_congr' blocks _ _ (fun c _ => lazyBlockRow_eq ts eps slicesOf a b hab hb c planes hp)]
  cases blocks.mapM (eagerRow (b - a) slicesOf) <;> rfl

/-- **build of a window = window of the full build** for atoms-based potential ensembles: row `c` of
`build(a, b)` is the part `[a, b)` of row `c` of the full build, and both hold the integrator results of configuration
`c`. (`kern c i` = result for slice `i` of configuration `c`.) -/
theorem build_window_atoms {V T} (ts : List T) (eps : List Int) (flags : List Bool) (blocks : List Nat)
    (kern : Nat → Nat → V) (a b : Nat) (hab : a ≤ b) (hb : b ≤ ts.length)
    (planes : List Int) (hp : windowExit eps ts.length a (b : Int) ((b : Int) - (a : Int)) = .ok planes) :
    buildEager ts eps blocks (fun c => genAtoms ts flags (kern c) a (some (b : Int))) a (some (b : Int))
      = .ok ⟨blocks.map fun c => (List.range' a (b - a)).map fun i => some (kern c i), ts.extract a b, planes⟩ := by
  rw [buildEager_rows ts eps blocks _ (fun c => (List.range' a (b - a)).map fun i => mkSlice ts flags i (kern c i)) a b hab hb
    (fun c _ => ⟨genAtoms_window ts flags (kern c) a b hab hb, by simp⟩) planes hp]
  simp [mkSlice, Function.comp_def]

/-- the same for crystal potentials with an ensemble of seeds: row `c` holds the window of the crystal assembled with the
RNG stream of seed `c`. -/
theorem build_window_crystal {V T} (uts : List T) (eps : List Int) (flags : List Bool) (reps : Nat) (blocks : List Nat)
    (draw : Nat → Nat → Nat) (unit : Nat → Nat → V) (tile : V → V) (a b : Nat) (hab : a ≤ b)
    (hb : b ≤ uts.length * reps) (ts : List T) (hts : ts.length = uts.length * reps)
    (planes : List Int) (hp : windowExit eps ts.length a (b : Int) ((b : Int) - (a : Int)) = .ok planes) :
    buildEager ts eps blocks (fun c => .ok (genCrystal uts flags reps (draw c) unit tile a (some (b : Int)))) a (some (b : Int))
      = .ok ⟨blocks.map fun c => (List.range' a (b - a)).map fun g => some (crystalSlice uts flags (draw c) unit tile g).val,
            ts.extract a b, planes⟩ := by
  rw [buildEager_rows ts eps blocks _ (fun c => (List.range' a (b - a)).map (crystalSlice uts flags (draw c) unit tile)) a b hab
    (by omega) (fun c _ => ⟨by rw [genCrystal_window uts flags reps (draw c) unit tile a b hab hb], by simp⟩) planes hp]
  simp [Function.comp_def]

/-- **the exit planes of a windowed build lie in the window** (fix: `_exit_planes_of_selection`): every plane of
`build(a, b)` (and of `potential_array[a:b]`) is the entrance plane -1 or a slice index of the window. -/
theorem window_exit_planes_in_window (eps : List Int) (n a b : Nat) (hab : a < b) (hb : b ≤ n) (planes : List Int)
    (hp : windowExit eps n a (b : Int) ((b : Int) - (a : Int)) = .ok planes) :
    ∀ p ∈ planes, -1 ≤ p ∧ p < (b : Int) - (a : Int) := by
  cases eps with
  | nil => cases hp
  | cons e0 rest =>
    simp only [windowExit] at hp
    have hstop : min (if (b : Int) < 0 then ((b : Int) + (n : Int)).toNat else (b : Int).toNat) n = b := by
      have : ¬ ((b : Int) < 0) := by omega
      simp only [this, if_false, Int.toNat_natCast]; omega
    rw [hstop] at hp
    cases hp
    have hin : ∀ q ∈ ((e0 :: rest).filter fun p => decide ((a : Int) ≤ p) && decide (p < (b : Int))).map (· - (a : Int)),
        -1 ≤ q ∧ q < (b : Int) - (a : Int) := by
      intro q hq
      obtain ⟨r, hr, rfl⟩ := List.mem_map.mp hq
      have := (List.mem_filter.mp hr).2
      simp only [Bool.and_eq_true, decide_eq_true_eq] at this
      omega
    intro p hpm
    split at hpm <;> split at hpm
    · simp only [List.mem_singleton] at hpm; subst hpm; omega
    · rcases List.mem_cons.mp hpm with rfl | h
      · omega
      · exact hin p h
    · simp only [List.mem_singleton] at hpm; subst hpm; omega
    · exact hin p hpm

/-! ### exit-plane flags and crystal thicknesses -/

/-- `_exit_plane_after` has one flag per slice -/
theorem exitPlaneAfter_length (eps : List Int) (n : Nat) (fl : List Bool) (h : exitPlaneAfter eps n = .ok fl) :
    fl.length = n := by
  unfold exitPlaneAfter at h
  cases eps with
  | nil => cases h
  | cons e0 rest =>
    simp only at h
    cases h
    -- invariant of the fold: the accumulated list has as many entries as indices consumed
    have key : ∀ (l : List Nat) (acc : List Bool × Nat),
        ((l.foldl (fun (acc : List Bool × Nat) (i : Nat) =>
          if acc.2 < (e0 :: rest).length && ((i : Int) == (e0 :: rest).getD acc.2 0)
          then (acc.1 ++ [true], acc.2 + 1) else (acc.1 ++ [false], acc.2)) acc).1).length = acc.1.length + l.length := by
      intro l
      induction l with
      | nil => intro acc; simp
      | cons x xs ih =>
        intro acc
        rw [List.foldl_cons, ih]
        split <;> simp <;> omega
    rw [key]; simp

/-- the thickness carried by the `g`-th crystal slice (taken from the unit) is the `g`-th entry of the crystal's
thickness tuple `unit_thickness * repetitions` -/
theorem crystal_thickness_entry {T} (uts : List T) (reps g : Nat) (hg : g < uts.length * reps) :
    at1 uts (g % uts.length) = at1 (crystalThickness uts reps) g := by
  have hpos : 0 < uts.length := by
    rcases Nat.eq_zero_or_pos uts.length with h | h
    · rw [h] at hg; simp at hg
    · exact h
  have hmod : g % uts.length < uts.length := Nat.mod_lt _ hpos
  have key : ∀ (reps g : Nat), g < uts.length * reps → (crystalThickness uts reps)[g]? = uts[g % uts.length]? := by
    intro reps
    induction reps with
    | zero => intro g hg; simp at hg
    | succ r ih =>
      intro g hg
      unfold crystalThickness at *
      rw [List.replicate_succ, List.flatten_cons]
      by_cases hlt : g < uts.length
      · rw [List.getElem?_append_left hlt, Nat.mod_eq_of_lt hlt]
      · have hs : uts.length * (r + 1) = uts.length * r + uts.length := Nat.mul_succ _ _
        rw [List.getElem?_append_right (by omega), ih (g - uts.length) (by omega)]
        congr 1
        exact (Nat.mod_eq_sub_mod (by omega)).symm
  unfold at1
  apply List.ext_getElem?
  intro i
  simp only [List.extract_eq_take_drop, Nat.add_sub_cancel_left, List.getElem?_take, List.getElem?_drop]
  split
  · rename_i hi
    have : i = 0 := by omega
    subst this
    simp [key reps g hg]
  · rfl

/-! ### non-vacuity: concrete instances -/
example : genAtoms (V := Nat) [1, 2, 3, 4] [false, true, false, true] (fun i => 10 * i) 1 (some 3)
    = .ok [⟨10, [2], [0]⟩, ⟨20, [3], []⟩] := by decide
example : genCrystal (V := Nat × Nat) [5, 6] [false, true, false, true, false, true] 3 (fun r => r % 2) (fun c j => (c, j)) id 1 (some 4)
    = [⟨(0, 1), [6], [0]⟩, ⟨(1, 0), [5], []⟩, ⟨(1, 1), [6], [0]⟩] := by decide
example : buildEager (V := Nat × Nat) (T := Nat) [1, 1, 1] [2] [0, 1]
    (fun c => genAtoms [1, 1, 1] [false, false, true] (fun i => (c, i)) 1 (some 3)) 1 (some 3)
    = .ok ⟨[[some (0, 1), some (0, 2)], [some (1, 1), some (1, 2)]], [1, 1], [1]⟩ := by decide
example : buildLazy (V := Nat × Nat) (T := Nat) [1, 1, 1] [2] [0, 1]
    (fun c => genAtoms [1, 1, 1] [false, false, true] (fun i => (c, i)) 1 (some 3)) 1 (some 3)
    = .ok ⟨[[some (0, 1), some (0, 2)], [some (1, 1), some (1, 2)]], [1, 1], [1]⟩ := by decide
example : exitPlaneAfter [-1, 1, 3] 4 = .ok [false, true, false, true] := by decide

end AbtemVerif.Props.C10
