/-
C37 — real-space multislice is a faithful discretization (partial by nature; see the end of the file).

Proved for all grids, samplings, frequencies, stencil half-widths and coefficient lists:
* the stencil kernel of `_laplace_operator_stencil` (summand regenerated from the source) maps a discrete plane wave
  `exp(i(θx·i + θy·j))` to itself times `Σ_k cx_k e^{iθx k} + Σ_k cy_k e^{iθy k}` (`stencil_eigen`), the periodic
  wrap does not matter for lattice frequencies `θ = 2πk/N` (`planewave_wrap`), and for symmetric coefficients the
  symbol is the real number `c₀ + 2 Σ_j c_j cos(jθ)` (`symmetric_symbol`);
* every row of the coefficient table `fd_coefficients` (accuracies 2 … 18, regenerated, read as the exact decimals
  written) has `p + 1` symmetric entries and satisfies the order conditions — moments `0, 0, 2, 0, …, 0` up to order
  `p + 1` — within `10⁻¹⁵` of its absolute moment (`fd_table_order_conditions`, by kernel evaluation of the whole table);
  any stencil with these moments differentiates polynomials of degree `≤ p + 1` exactly, and moment defects enter
  linearly (`polynomial_exactness`, `polynomial_exactness_with_defect`);
* the x and y second differences are scaled by `1/dx²` and `1/dy²` (`axis_prefactor`; the pinned tree used `1/(dx·dy)`
  for both, repaired by /repo 705a09f6); the accuracy-2 symbol is `−(2 sin(θ/2)/d)²` (`second_order_symbol`);
* Taylor-remainder step for accuracies 2 and 4: `|symbol/d² + q²| ≤ q⁴d²/12` (all θ) and `≤ (3/128) q⁶d⁴` (`|θ| ≤ 2`), `q = θ/d`
  (`second_order_symbol_error`, `fourth_order_symbol_error`; row 4 of the table is the exact stencil to `10⁻¹⁶`:
  `fd_fourth_order_row_close`); Parseval step `vacuum_intensity_bounds` (per-mode gains in `[lo, hi]` ⇒ total intensity factor in `[lo, hi]`);
* the loop of `_multislice_exponential_series` computes the truncated exponential series (`exp_series_partial_sum`), the
  vacuum step acts on a plane wave as multiplication by a purely imaginary number `μ` (`vacuum_step_symbol`), and the
  truncated series of a purely imaginary `μ`, `|μ| ≤ 1`, has modulus within an explicit remainder of one
  (`vacuum_planewave_intensity_partial`).
-/
import AbtemVerif.Model.FiniteDiff
import AbtemVerif.Gen.FiniteDiffC
import AbtemVerif.Gen.FiniteDiffR
import AbtemVerif.Lib.DFT
import Mathlib.Analysis.SpecialFunctions.Trigonometric.Bounds
import Mathlib.Analysis.SpecialFunctions.Complex.Circle
import Mathlib.Analysis.SpecialFunctions.Exponential
import Mathlib.Analysis.SpecialFunctions.Trigonometric.Basic
import Mathlib.Data.Nat.Choose.Sum
import Mathlib.Data.Nat.Choose.Cast
import Mathlib.Tactic.Ring
import Mathlib.Tactic.Linarith
import Mathlib.Tactic.FieldSimp

open Finset BigOperators

namespace AbtemVerif.Props.C37
open AbtemVerif.FiniteDiff AbtemVerif.Gen.FiniteDiff AbtemVerif.Py

/-- `exp(i x)` -/
noncomputable def cexp (x : ℝ) : ℂ := Complex.exp (x * Complex.I)

lemma cexp_add (x y : ℝ) : cexp (x + y) = cexp x * cexp y := by
  unfold cexp; rw [← Complex.exp_add]; congr 1; push_cast; ring

lemma cexp_add_cexp_neg (x : ℝ) : cexp x + cexp (-x) = 2 * Real.cos x := by
  unfold cexp
  rw [Complex.ofReal_cos, Complex.cos]
  push_cast; ring_nf

/-! ### the coefficient table -/

/-- Every row of `fd_coefficients`: `p + 1` entries, symmetric, moments `(0, 0, 2, 0, …, 0)` for orders `0 … p+1`, each
within `10⁻¹⁵ · Σ|c_j||j|^q` (the table holds 16–17 significant decimals). -/
theorem fd_table_order_conditions :
    (fdCoefficients.all fun row => orderConditions (1 / 10 ^ 15) row.1 row.2) = true := by
  decide +kernel

/-- The table serves exactly the even accuracies 2 … 18. -/
theorem fd_table_keys : fdCoefficients.map (·.1) = [2, 4, 6, 8, 10, 12, 14, 16, 18] := by
  decide +kernel

/-- Accuracy 2 is the classical `[1, −2, 1]`, exactly. -/
theorem fd_second_order_row : fdCoefficients.lookup 2 = some [1, -2, 1] := by
  decide +kernel

/-! ### what the order conditions give -/

/-- `polynomial_exactness_with_defect`: what the order conditions mean.  For *any* stencil (offset set `s`, coefficients `c`)
whose moments are `0, 0, 2, 0, …, 0` up to order `p + 1` with defects `e q` (the table's rounding, bounded in
`fd_table_order_conditions`), the stencil applied to the monomial `(x + j)^q`, `q ≤ p + 1`, gives the exact second derivative
`q (q − 1) x^{q−2}` plus the defects weighted by `C(q, m) x^m`. -/
theorem polynomial_exactness_with_defect (s : Finset ℤ) (c : ℤ → ℝ) (p : ℕ) (e : ℕ → ℝ)
    (hm : ∀ q ≤ p + 1, ∑ j ∈ s, c j * (j : ℝ) ^ q = (if q = 2 then 2 else 0) + e q) (q : ℕ) (hq : q ≤ p + 1) (x : ℝ) :
    ∑ j ∈ s, c j * (x + j) ^ q
      = q * (q - 1) * x ^ (q - 2) + ∑ m ∈ range (q + 1), x ^ m * (q.choose m : ℝ) * e (q - m) := by
  have h1 : ∀ j ∈ s, c j * (x + j) ^ q = ∑ m ∈ range (q + 1), x ^ m * (q.choose m : ℝ) * (c j * (j : ℝ) ^ (q - m)) := by
    intro j _
    rw [add_pow, Finset.mul_sum]
    apply Finset.sum_congr rfl; intro m _; ring
  rw [Finset.sum_congr rfl h1, Finset.sum_comm]
  have h2 : ∀ m ∈ range (q + 1), ∑ j ∈ s, x ^ m * (q.choose m : ℝ) * (c j * (j : ℝ) ^ (q - m))
      = x ^ m * (q.choose m : ℝ) * (if q - m = 2 then 2 else 0) + x ^ m * (q.choose m : ℝ) * e (q - m) := by
    intro m _
    rw [← Finset.mul_sum, hm (q - m) (by omega)]; ring
  rw [Finset.sum_congr rfl h2, Finset.sum_add_distrib]
  congr 1
  by_cases h : 2 ≤ q
  · rw [Finset.sum_eq_single_of_mem (q - 2) (by rw [mem_range]; omega)]
    · have e' : q - (q - 2) = 2 := by omega
      rw [if_pos e', Nat.choose_symm h, Nat.cast_choose_two]
      ring
    · intro m hm' hne
      rw [mem_range] at hm'
      rw [if_neg (by omega)]; ring
  · have : ∀ m ∈ range (q + 1), x ^ m * (q.choose m : ℝ) * (if q - m = 2 then (2 : ℝ) else 0) = 0 := by
      intro m _; rw [if_neg (by omega)]; ring
    rw [Finset.sum_eq_zero this]
    have hq' : q = 0 ∨ q = 1 := by omega
    rcases hq' with rfl | rfl <;> simp

/-- `coefficients_solve_order`: with exact moments the stencil differentiates every polynomial of degree `≤ p + 1` exactly —
this is the sense in which a row of the table has accuracy `p`. -/
theorem polynomial_exactness (s : Finset ℤ) (c : ℤ → ℝ) (p : ℕ)
    (hm : ∀ q ≤ p + 1, ∑ j ∈ s, c j * (j : ℝ) ^ q = if q = 2 then 2 else 0) (q : ℕ) (hq : q ≤ p + 1) (x : ℝ) :
    ∑ j ∈ s, c j * (x + j) ^ q = q * (q - 1) * x ^ (q - 2) := by
  have := polynomial_exactness_with_defect s c p (fun _ => 0) (by intro q hq; rw [hm q hq]; ring) q hq x
  simpa using this

/-! ### the stencil on plane waves -/

/-- the sum `Σ_{k=-n}^{n} g k` as the kernel loop `for k in range(-n, n + 1)` runs it -/
def loopSum (n : ℕ) (g : ℤ → ℂ) : ℂ := ∑ t ∈ range (2 * n + 1), g ((t : ℤ) - n)

lemma loopSum_succ (n : ℕ) (g : ℤ → ℂ) :
    loopSum (n + 1) g = g (-(n + 1 : ℤ)) + loopSum n g + g (n + 1) := by
  unfold loopSum
  have h : 2 * (n + 1) + 1 = (2 * n + 1) + 1 + 1 := by ring
  rw [h, Finset.sum_range_succ, Finset.sum_range_succ']
  have e1 : ∀ t : ℕ, g (((t + 1 : ℕ) : ℤ) - ((n + 1 : ℕ) : ℤ)) = g ((t : ℤ) - n) := fun t => by
    congr 1; push_cast; ring
  have e2 : g (((0 : ℕ) : ℤ) - ((n + 1 : ℕ) : ℤ)) = g (-(n + 1 : ℤ)) := by
    rw [show (((0 : ℕ) : ℤ) - ((n + 1 : ℕ) : ℤ)) = -(n + 1 : ℤ) by push_cast; ring]
  have e3 : g (((2 * n + 1 + 1 : ℕ) : ℤ) - ((n + 1 : ℕ) : ℤ)) = g (n + 1 : ℤ) := by congr 1; push_cast; ring
  rw [e2, e3]
  simp only [e1]
  ring

/-- `symmetric_symbol`: for symmetric coefficients the symbol `Σ_k c_k e^{iθk}` is `c₀ + 2 Σ_{j=1}^{n} c_j cos(jθ)`. -/
theorem symmetric_symbol (n : ℕ) (c : ℤ → ℂ) (hc : ∀ k, c (-k) = c k) (θ : ℝ) :
    loopSum n (fun k => c k * cexp (θ * k)) = c 0 + 2 * ∑ j ∈ range n, c (j + 1 : ℤ) * Real.cos (θ * (j + 1)) := by
  induction n with
  | zero => simp [loopSum, cexp]
  | succ n ih =>
    rw [loopSum_succ, ih, Finset.sum_range_succ]
    have h1 : c (-(n + 1 : ℤ)) = c (n + 1 : ℤ) := hc _
    have h2 : cexp (θ * ((-(n + 1 : ℤ) : ℤ) : ℝ)) = cexp (-(θ * (n + 1))) := by congr 1; push_cast; ring
    have h3 : cexp (θ * (((n + 1 : ℤ) : ℤ) : ℝ)) = cexp (θ * (n + 1)) := by congr 1; push_cast; ring
    rw [h1, h2, h3]
    have := cexp_add_cexp_neg (θ * (n + 1))
    linear_combination (c (n + 1 : ℤ)) * this

/-- `stencil_eigen` (2-D): with the summand of the kernel as generated from the source, a plane wave
`w(i, j) = e^{iθx i} e^{iθy j}` is mapped to itself times the sum of the two 1-D symbols — for every half-width,
every coefficient pair (any prefactors, any accuracy, complex or real), every frequency pair, every pixel. -/
theorem stencil_eigen (n : ℕ) (cx cy : ℤ → ℂ) (θx θy : ℝ) (i j : ℤ) :
    loopSum n (fun k => AbtemVerif.Gen.FiniteDiffC.kernelSummand (cx k) (cy k)
        (cexp (θx * (i + k : ℤ)) * cexp (θy * j)) (cexp (θx * i) * cexp (θy * (j + k : ℤ))))
      = (loopSum n (fun k => cx k * cexp (θx * k)) + loopSum n (fun k => cy k * cexp (θy * k)))
          * (cexp (θx * i) * cexp (θy * j)) := by
  unfold loopSum AbtemVerif.Gen.FiniteDiffC.kernelSummand
  rw [← Finset.sum_add_distrib, Finset.sum_mul]
  apply Finset.sum_congr rfl
  intro t _
  have hx : cexp (θx * ((i + ((t : ℤ) - n) : ℤ) : ℝ)) = cexp (θx * i) * cexp (θx * (((t : ℤ) - n : ℤ) : ℝ)) := by
    rw [← cexp_add]; congr 1; push_cast; ring
  have hy : cexp (θy * ((j + ((t : ℤ) - n) : ℤ) : ℝ)) = cexp (θy * j) * cexp (θy * (((t : ℤ) - n : ℤ) : ℝ)) := by
    rw [← cexp_add]; congr 1; push_cast; ring
  dsimp only
  rw [hx, hy]; ring

/-- `planewave_wrap`: for a lattice frequency `θ = 2πk/N` the periodic wrap of the index does not change the wave, so the
wrap padding of the stencil (`mode="wrap"`, `padding = n + 1`) reads exactly `w(i + k)`. -/
theorem planewave_wrap (N : ℕ) (hN : 0 < N) (k x : ℤ) :
    cexp (2 * Real.pi * k / N * ((x % (N : ℤ) : ℤ) : ℝ)) = cexp (2 * Real.pi * k / N * (x : ℝ)) := by
  have hx : (x : ℝ) = ((x % (N : ℤ) : ℤ) : ℝ) + (N : ℝ) * ((x / (N : ℤ) : ℤ) : ℝ) := by
    have := Int.emod_add_mul_ediv x (N : ℤ)
    exact_mod_cast this.symm
  have hN' : (N : ℝ) ≠ 0 := by positivity
  have hNc : (N : ℂ) ≠ 0 := by exact_mod_cast hN'
  conv_rhs => rw [hx, mul_add, cexp_add]
  have : cexp (2 * Real.pi * k / N * ((N : ℝ) * ((x / (N : ℤ) : ℤ) : ℝ))) = 1 := by
    unfold cexp
    have e : ((2 * Real.pi * k / N * ((N : ℝ) * ((x / (N : ℤ) : ℤ) : ℝ)) : ℝ) : ℂ) * Complex.I
        = ((k * (x / (N : ℤ)) : ℤ) : ℂ) * (2 * Real.pi * Complex.I) := by
      push_cast; field_simp
    rw [e, Complex.exp_int_mul_two_pi_mul_I]
  rw [this, mul_one]

/-- The per-axis prefactor is `1/d²` (x uses `dx`, y uses `dy`). -/
theorem axis_prefactor (d : ℝ) : AbtemVerif.Gen.FiniteDiffR.axisPrefactor d = 1 / d ^ 2 := rfl

/-- `second_order_symbol`: for accuracy 2 the scaled symbol is `−(2 sin(θ/2)/d)²`, the classical discrete counterpart of
`−q²` with `q = θ/d` (it tends to `−q²` as `θ → 0`). -/
theorem second_order_symbol (θ d : ℝ) (hd : d ≠ 0) :
    AbtemVerif.Gen.FiniteDiffR.axisPrefactor d * ((-2 : ℝ) + 2 * Real.cos θ)
      = -(2 * Real.sin (θ / 2) / d) ^ 2 := by
  unfold AbtemVerif.Gen.FiniteDiffR.axisPrefactor
  have h : Real.cos θ = 1 - 2 * Real.sin (θ / 2) ^ 2 := by
    have := Real.cos_two_mul (θ / 2)
    rw [show 2 * (θ / 2) = θ by ring] at this
    rw [this, Real.cos_sq']; ring
  rw [h]; field_simp; ring

/-! ### bridge: the correspondence-tested model `Model/FiniteDiff.laplace` is the `loopSum` the theorems speak about -/

lemma halfWidth_odd (n : ℕ) : stencilHalfWidth ((2 * n + 1 : ℕ) : ℤ) = n := by
  unfold stencilHalfWidth pyFloorDiv
  rw [Int.fdiv_eq_ediv_of_nonneg _ (by norm_num)]
  omega

/-- `np.roll(c, -(len // 2))` followed by Python indexing `c[k]`, `-n ≤ k ≤ n`, reads the centred coefficient `c[n + k]` -/
theorem rolledAt_eq (c : List Rat) (n : ℕ) (hc : c.length = 2 * n + 1) (k : ℤ) (h1 : -(n : ℤ) ≤ k) (h2 : k ≤ n) :
    rolledAt c k = c.getD (n + k).toNat 0 := by
  unfold rolledAt stencilRollShift pyFloorDiv
  simp only [hc]
  have hd : Int.fdiv ((2 * n + 1 : ℕ) : ℤ) 2 = n := by
    rw [Int.fdiv_eq_ediv_of_nonneg _ (by norm_num)]; omega
  rw [hd]
  congr 1
  split_ifs with hk
  · have : ((2 * n + 1 : ℕ) : ℤ) + k - -(n : ℤ) = (n + k) + ((2 * n + 1 : ℕ) : ℤ) := by ring
    rw [this, Int.add_emod_right, Int.emod_eq_of_lt (by omega) (by push_cast; omega)]
  · have : k - -(n : ℤ) = n + k := by ring
    rw [this, Int.emod_eq_of_lt (by omega) (by push_cast; omega)]

/-- every row of the table, read through the roll/negative-index plumbing of the kernel, is symmetric: `c[-k] = c[k]` -/
theorem table_rows_symmetric :
    (fdCoefficients.all fun row => (List.range (row.2.length / 2 + 1)).all fun k =>
      decide (rolledAt row.2 (-(k : ℤ)) = rolledAt row.2 (k : ℤ))) = true := by
  decide +kernel

/-- the padding covers the stencil: the padded interior computation reads, for output pixel `i` and offset `k`, a padded index
inside the padded array that holds pixel `(i + k) mod h` — the stencil with `mode="wrap"` is the periodic stencil of the model. -/
theorem padding_covers (len : ℤ) (h : ℕ) (i k : ℤ) (hi : 0 ≤ i ∧ i < h)
    (hk : -(stencilHalfWidth len) ≤ k ∧ k ≤ stencilHalfWidth len) :
    stencilHalfWidth len ≤ stencilPadding (stencilHalfWidth len) ∧
    0 ≤ paddedIndex len i k ∧ paddedIndex len i k < h + 2 * stencilPadding (stencilHalfWidth len) ∧
    (paddedIndex len i k - stencilPadding (stencilHalfWidth len)) % (h : ℤ) = (i + k) % (h : ℤ) := by
  unfold paddedIndex stencilPadding
  refine ⟨by omega, by omega, by omega, ?_⟩
  congr 1; ring

lemma cast_list_range_sum (M : ℕ) (f : ℕ → ℚ) : (((List.range M).map f).sum : ℚ) = ∑ t ∈ range M, f t := by
  induction M with
  | zero => simp
  | succ M ih => rw [List.range_succ, List.map_append, List.sum_append, ih, Finset.sum_range_succ]; simp

lemma halfWidth_nonneg (c : List Rat) : 0 ≤ stencilHalfWidth (c.length : ℤ) := by
  unfold stencilHalfWidth pyFloorDiv
  rw [Int.fdiv_eq_ediv_of_nonneg _ (by positivity)]
  positivity

/-- the complex-linear extension of the model's periodic stencil (`Model/FiniteDiff.laplace`): same coefficient plumbing
(`rolledAt`), same wrap of the indices, the generated kernel summand over ℂ -/
noncomputable def laplaceC (c : List Rat) (px py : ℚ) (h w : ℕ) (A : ℤ → ℤ → ℂ) (i j : ℤ) : ℂ :=
  loopSum (stencilHalfWidth (c.length : ℤ)).toNat fun k =>
    AbtemVerif.Gen.FiniteDiffC.kernelSummand ((rolledAt c k * px : ℚ) : ℂ) ((rolledAt c k * py : ℚ) : ℂ)
      (A ((i + k) % (h : ℤ)) j) (A i ((j + k) % (w : ℤ)))

/-- `laplace_cast`: on rational arrays the executable model that is compared with `LaplaceOperator.apply` IS this `loopSum`
(so `stencil_eigen` and `symmetric_symbol` speak about the correspondence-tested model, extended linearly to complex arrays the
way the harness feeds real and imaginary parts). -/
theorem laplace_cast (c : List Rat) (px py : ℚ) (h w : ℕ) (a : ℤ → ℤ → ℚ) (i j : ℤ) :
    ((laplace c px py h w a i j : ℚ) : ℂ) = laplaceC c px py h w (fun i j => ((a i j : ℚ) : ℂ)) i j := by
  unfold laplace laplaceC loopSum
  simp only
  rw [cast_list_range_sum]
  push_cast
  have hn := halfWidth_nonneg c
  apply Finset.sum_congr rfl
  intro t _
  have : ((stencilHalfWidth (c.length : ℤ)).toNat : ℤ) = stencilHalfWidth (c.length : ℤ) := Int.toNat_of_nonneg hn
  rw [this]
  unfold AbtemVerif.Gen.FiniteDiff.kernelSummand AbtemVerif.Gen.FiniteDiffC.kernelSummand
  push_cast
  rfl

/-- `laplace_planewave_eigen`: the model's periodic stencil maps every lattice plane wave `e^{2πi(kx·i/h + ky·j/w)}` to itself
times `Σ_k c_k px e^{iθx k} + Σ_k c_k py e^{iθy k}` with the model's own coefficient indexing (`rolledAt`) and index wrap. -/
theorem laplace_planewave_eigen (c : List Rat) (px py : ℚ) (h w : ℕ) (hh : 0 < h) (hw : 0 < w) (kx ky i j : ℤ) :
    laplaceC c px py h w (fun i j => cexp (2 * Real.pi * kx / h * (i : ℝ)) * cexp (2 * Real.pi * ky / w * (j : ℝ))) i j
      = (loopSum (stencilHalfWidth (c.length : ℤ)).toNat (fun k => ((rolledAt c k * px : ℚ) : ℂ) * cexp (2 * Real.pi * kx / h * k))
          + loopSum (stencilHalfWidth (c.length : ℤ)).toNat (fun k => ((rolledAt c k * py : ℚ) : ℂ) * cexp (2 * Real.pi * ky / w * k)))
        * (cexp (2 * Real.pi * kx / h * (i : ℝ)) * cexp (2 * Real.pi * ky / w * (j : ℝ))) := by
  unfold laplaceC
  simp only [planewave_wrap h hh kx, planewave_wrap w hw ky]
  exact stencil_eigen _ _ _ (2 * Real.pi * kx / h) (2 * Real.pi * ky / w) i j

/-- concrete run of the convergence logic: a unit mode at rest plus a mode of amplitude 1/5 whose series operator has modulus 4
(purely imaginary `μ = 4i` in vacuum: the exact evolution `e^{μ}` has modulus one) — the second term has amplitude
`(1/5)·4²/2! = 1.6 > 1.2` (term `i = 2`), so the loop raises `DivergedError` although the exact propagation preserves the intensity -/
lemma series_diverges_example : seriesOutcome [(1, 0), (1 / 5, 4)] (1 / 10 ^ 16) 80 = .diverged 2 := by
  decide +kernel

/-- Negation witness (known finding `vacuum-diverges:mu-max-gt-sqrt2`): it is NOT true that the exponential-series loop
terminates without `DivergedError` for every superposition of modes with purely imaginary `μ` (i.e. for every vacuum
propagation, where the exact result preserves the intensity).  A repair (sub-stepping the slice, or testing the partial sum
instead of single terms) changes the loop, and this statement about the model of the loop with it. -/
theorem vacuum_series_never_diverges_counterexample :
    ¬ (∀ (modes : List (Rat × Rat)) (tol : Rat) (maxTerms : Nat), (∀ m ∈ modes, 0 ≤ m.1 ∧ 0 ≤ m.2) →
        ∀ i, seriesOutcome modes tol maxTerms ≠ .diverged i) := by
  intro h
  exact h [(1, 0), (1 / 5, 4)] (1 / 10 ^ 16) 80 (by decide +kernel) 2 series_diverges_example

/-! ### Taylor-remainder step: symbol versus the continuum Laplacian (accuracies 2 and 4), Parseval step -/

lemma abs_sin_le_abs' (u : ℝ) : |Real.sin u| ≤ |u| := Real.abs_sin_le_abs

/-- accuracy 2, Taylor-remainder step: the scaled stencil symbol differs from the continuum `−q²`, `q = θ/d`, by at most
`θ⁴/(12 d²) = q⁴ d²/12` — second order in the pixel size, for every frequency and pixel size. -/
theorem second_order_symbol_error (θ d : ℝ) (hd : d ≠ 0) :
    |AbtemVerif.Gen.FiniteDiffR.axisPrefactor d * ((-2 : ℝ) + 2 * Real.cos θ) + (θ / d) ^ 2| ≤ θ ^ 4 / (12 * d ^ 2) := by
  rw [second_order_symbol θ d hd]
  set u := θ / 2 with hu
  have hθ : θ = 2 * u := by rw [hu]; ring
  have h1 : |u - Real.sin u| ≤ |u| ^ 3 / 6 := Real.abs_sub_sin_le u
  have h2 : |u + Real.sin u| ≤ 2 * |u| := by
    calc |u + Real.sin u| ≤ |u| + |Real.sin u| := abs_add_le _ _
      _ ≤ |u| + |u| := by linarith [abs_sin_le_abs' u]
      _ = 2 * |u| := by ring
  have e : -(2 * Real.sin u / d) ^ 2 + (θ / d) ^ 2 = 4 * ((u - Real.sin u) * (u + Real.sin u)) / d ^ 2 := by
    rw [hθ]; field_simp; ring
  rw [e, abs_div, abs_mul, abs_mul, abs_of_pos (by positivity : (0 : ℝ) < d ^ 2)]
  have h3 : |u - Real.sin u| * |u + Real.sin u| ≤ |u| ^ 3 / 6 * (2 * |u|) :=
    mul_le_mul h1 h2 (abs_nonneg _) (by positivity)
  have h4 : θ ^ 4 = 16 * |u| ^ 4 := by
    rw [hθ]; rw [show (2 * u) ^ 4 = 16 * u ^ 4 by ring, ← abs_pow, abs_of_nonneg (by positivity : (0 : ℝ) ≤ u ^ 4)]
  rw [h4, abs_of_pos (by norm_num : (0 : ℝ) < 4), div_le_div_iff₀ (by positivity) (by positivity)]
  nlinarith [h3, abs_nonneg u, sq_nonneg d, mul_nonneg (abs_nonneg (u - Real.sin u)) (abs_nonneg (u + Real.sin u)), sq_pos_of_ne_zero hd]

/-- the accuracy-4 symbol with the exact rational coefficients `(−1/12, 4/3, −5/2, 4/3, −1/12)` in terms of `s = sin²(θ/2)` -/
lemma fourth_order_symbol_eq (θ : ℝ) :
    (-5 / 2 : ℝ) + 2 * (4 / 3 * Real.cos θ + (-1 / 12) * Real.cos (2 * θ))
      = -4 * Real.sin (θ / 2) ^ 2 - 4 / 3 * (Real.sin (θ / 2) ^ 2) ^ 2 := by
  have h1 : Real.cos θ = 1 - 2 * Real.sin (θ / 2) ^ 2 := by
    have := Real.cos_two_mul (θ / 2)
    rw [show 2 * (θ / 2) = θ by ring] at this
    rw [this, Real.cos_sq']; ring
  have h2 : Real.cos (2 * θ) = 2 * Real.cos θ ^ 2 - 1 := Real.cos_two_mul θ
  rw [h2, h1]; ring

/-- `sin² u` is `u² − u⁴/3` up to `u⁶/20`, for `|u| ≤ 1` -/
lemma sin_sq_bound (u : ℝ) (hu : |u| ≤ 1) :
    |Real.sin u ^ 2 - (u ^ 2 - (u ^ 2) ^ 2 / 3)| ≤ (u ^ 2) ^ 3 / 20 := by
  have hb := Real.sin_bound hu
  set e := Real.sin u - (u - u ^ 3 / 6) with he
  have hs : Real.sin u = (u - u ^ 3 / 6) + e := by rw [he]; ring
  set a := |u| with ha
  have ha0 : 0 ≤ a := abs_nonneg u
  have hu2 : u ^ 2 = a ^ 2 := by rw [ha, sq_abs]
  have he' : |e| ≤ a ^ 5 / 100 := hb
  have hp : |u - u ^ 3 / 6| ≤ a := by
    have : u - u ^ 3 / 6 = u * (1 - u ^ 2 / 6) := by ring
    rw [this, abs_mul, hu2]
    have h01 : |1 - a ^ 2 / 6| ≤ 1 := by
      rw [abs_le]; constructor <;> nlinarith [sq_nonneg a, mul_le_one₀ hu ha0 hu]
    calc |u| * |1 - a ^ 2 / 6| ≤ |u| * 1 := mul_le_mul_of_nonneg_left h01 (abs_nonneg u)
      _ = a := by rw [mul_one]
  have key : Real.sin u ^ 2 - (u ^ 2 - (u ^ 2) ^ 2 / 3) = (u ^ 2) ^ 3 / 36 + 2 * (u - u ^ 3 / 6) * e + e ^ 2 := by
    rw [hs]; ring
  rw [key]
  have h1 : |2 * (u - u ^ 3 / 6) * e| ≤ 2 * a * (a ^ 5 / 100) := by
    rw [abs_mul, abs_mul, abs_of_pos (by norm_num : (0 : ℝ) < 2)]
    have := mul_le_mul hp he' (abs_nonneg e) ha0
    nlinarith
  have h2 : e ^ 2 ≤ (a ^ 5 / 100) ^ 2 := by
    rw [← sq_abs e]; exact pow_le_pow_left₀ (abs_nonneg e) he' 2
  have ha1 : a ≤ 1 := hu
  have h3 : a ^ 10 ≤ a ^ 6 := by
    have : a ^ 4 ≤ 1 := pow_le_one₀ ha0 ha1
    nlinarith [pow_nonneg ha0 6]
  have hpos : 0 ≤ (u ^ 2) ^ 3 / 36 := by positivity
  have he2 : 0 ≤ e ^ 2 := sq_nonneg e
  have hu6 : (u ^ 2) ^ 3 = a ^ 6 := by rw [hu2]; ring
  rw [abs_le]
  have := abs_le.mp h1
  constructor <;> nlinarith [pow_nonneg ha0 6, pow_nonneg ha0 10]

/-- accuracy 4, Taylor-remainder step: for `|θ| ≤ 2` the scaled symbol of the exact fourth-order stencil differs from the
continuum `−q²`, `q = θ/d`, by at most `3 θ⁶/(128 d²) = (3/128) q⁶ d⁴` — fourth order in the pixel size. -/
theorem fourth_order_symbol_error (θ d : ℝ) (hd : d ≠ 0) (hθ : |θ| ≤ 2) :
    |AbtemVerif.Gen.FiniteDiffR.axisPrefactor d * ((-5 / 2 : ℝ) + 2 * (4 / 3 * Real.cos θ + (-1 / 12) * Real.cos (2 * θ)))
        + (θ / d) ^ 2| ≤ 3 * θ ^ 6 / (128 * d ^ 2) := by
  rw [fourth_order_symbol_eq]
  unfold AbtemVerif.Gen.FiniteDiffR.axisPrefactor
  set u := θ / 2 with hu
  have hθ' : θ = 2 * u := by rw [hu]; ring
  have hu1 : |u| ≤ 1 := by rw [hu, abs_div]; norm_num; linarith
  set t := u ^ 2 with ht
  have ht0 : 0 ≤ t := sq_nonneg u
  have ht1 : t ≤ 1 := by rw [ht, ← sq_abs]; nlinarith [abs_nonneg u]
  set r := Real.sin u ^ 2 - (t - t ^ 2 / 3) with hr
  have hrb : |r| ≤ t ^ 3 / 20 := sin_sq_bound u hu1
  have hs : Real.sin u ^ 2 = t - t ^ 2 / 3 + r := by rw [hr]; ring
  have e : 1 / d ^ 2 * (-4 * Real.sin u ^ 2 - 4 / 3 * (Real.sin u ^ 2) ^ 2) + (θ / d) ^ 2
      = (4 * t - 4 * (t - t ^ 2 / 3 + r) - 4 / 3 * (t - t ^ 2 / 3 + r) ^ 2) / d ^ 2 := by
    rw [hs, hθ', ht]; field_simp; ring
  rw [e, abs_div, abs_of_pos (by positivity : (0 : ℝ) < d ^ 2)]
  have h6 : θ ^ 6 = 64 * t ^ 3 := by rw [hθ', ht]; ring
  rw [h6, div_le_div_iff₀ (by positivity) (by positivity)]
  obtain ⟨r1, r2⟩ := abs_le.mp hrb
  have hE : |4 * t - 4 * (t - t ^ 2 / 3 + r) - 4 / 3 * (t - t ^ 2 / 3 + r) ^ 2| ≤ 3 / 2 * t ^ 3 := by
    have ht3 : 0 ≤ t ^ 3 := pow_nonneg ht0 3
    have ht2 : 0 ≤ t ^ 2 := pow_nonneg ht0 2
    have ht32 : t ^ 3 ≤ t ^ 2 := by nlinarith
    rw [abs_le]; constructor
    · nlinarith [mul_nonneg ht0 ht3, sq_nonneg (r - t ^ 2 / 3), mul_nonneg ht0 (sub_nonneg.mpr r2), mul_nonneg ht0 (sub_nonneg.mpr r1),
        mul_nonneg ht2 ht2, mul_nonneg ht2 ht3, mul_nonneg ht3 ht3, mul_self_nonneg (t ^ 3 / 20 + t ^ 2 / 3 - (r - t ^ 2 / 3)),
        mul_nonneg (sub_nonneg.mpr r2) (sub_nonneg.mpr r1)]
    · nlinarith [mul_nonneg ht0 ht3, sq_nonneg (r - t ^ 2 / 3), mul_nonneg ht0 (sub_nonneg.mpr r2), mul_nonneg ht0 (sub_nonneg.mpr r1)]
  have hd2 : 0 < d ^ 2 := by positivity
  nlinarith [hE, abs_nonneg (4 * t - 4 * (t - t ^ 2 / 3 + r) - 4 / 3 * (t - t ^ 2 / 3 + r) ^ 2)]

/-- row 4 of the table is the exact fourth-order stencil `(−1/12, 4/3, −5/2, 4/3, −1/12)` to within `10⁻¹⁶` per entry -/
theorem fd_fourth_order_row_close :
    (AbtemVerif.Gen.FiniteDiff.fdCoefficients.lookup 4).map (fun c =>
      decide (c.length = 5) && (List.zipWith (fun a b => decide (AbtemVerif.Py.pyAbs (a - b) ≤ 1 / 10 ^ 16)) c [-1 / 12, 4 / 3, -5 / 2, 4 / 3, -1 / 12]).all id)
      = some true := by
  decide +kernel

section Parseval
open AbtemVerif.DFT
variable {ι : Type*} [Fintype ι]

/-- Parseval step of the vacuum clause: an operator that is diagonal in Fourier space with per-mode gains `g k` whose squared
moduli lie in `[lo, hi]` changes the total intensity by a factor in `[lo, hi]` — for every transform pair and every wave. With the
per-mode remainder bound (`vacuum_planewave_intensity_partial`: `| |g k| − 1 | ≤ ε`) this bounds the intensity drift of one
vacuum step by `(1 ± ε)²`. -/
theorem vacuum_intensity_bounds [Nonempty ι] (P : FourierPair ι) (g x : ι → ℂ) (lo hi : ℝ) (hlo : 0 ≤ lo) (hhi : 0 ≤ hi)
    (h : ∀ k, lo ≤ Complex.normSq (g k) ∧ Complex.normSq (g k) ≤ hi) :
    lo * energy x ≤ energy (P.mult g x) ∧ energy (P.mult g x) ≤ hi * energy x := by
  refine ⟨?_, P.energy_mult_le g x hi hhi (fun k => (h k).2)⟩
  unfold FourierPair.mult
  rw [P.parseval_inv]
  have hN : (0 : ℝ) < Fintype.card ι := by
    have : 0 < Fintype.card ι := Fintype.card_pos
    positivity
  have h1 : lo * energy (P.F x) ≤ energy (fun k => g k * P.F x k) := by
    unfold energy
    rw [Finset.mul_sum]
    apply Finset.sum_le_sum
    intro k _
    rw [Complex.normSq_mul]
    exact mul_le_mul_of_nonneg_right (h k).1 (Complex.normSq_nonneg _)
  rw [P.parseval] at h1
  rw [le_div_iff₀ hN]
  nlinarith
end Parseval

/-! ### the exponential series of one slice -/

/-- the loop of `_multislice_exponential_series` on an eigen-direction of the (linear) series operator, where it acts
as multiplication by `μ`: after `M ≥ 1` terms the amplitude is the partial sum `Σ_{i=0}^{M} μ^i / i!`. -/
theorem exp_series_partial_sum (μ : ℂ) (M : ℕ) (hM : 1 ≤ M) :
    expSeries (fun x : ℂ => μ * x) (fun x i => x / i) M 1 = ∑ i ∈ range (M + 1), μ ^ i / (i.factorial : ℂ) := by
  have key : ∀ (fuel i : ℕ) (acc : ℂ), 1 ≤ i →
      expSeries.go (fun x : ℂ => μ * x) (fun x i => x / i) fuel (i + 1) (μ ^ i / (i.factorial : ℂ)) acc
        = acc + ∑ t ∈ range fuel, μ ^ (i + 1 + t) / ((i + 1 + t).factorial : ℂ) := by
    intro fuel
    induction fuel with
    | zero => intro i acc _; simp [expSeries.go]
    | succ f ih =>
      intro i acc hi
      have hstep : μ * (μ ^ i / (i.factorial : ℂ)) / ((i + 1 : ℕ) : ℂ) = μ ^ (i + 1) / ((i + 1).factorial : ℂ) := by
        rw [Nat.factorial_succ]; push_cast
        have h1 : ((i : ℂ) + 1) ≠ 0 := by exact_mod_cast Nat.succ_ne_zero i
        have h2 : (i.factorial : ℂ) ≠ 0 := by exact_mod_cast Nat.factorial_ne_zero i
        field_simp; ring
      simp only [expSeries.go]
      rw [hstep, ih (i + 1) _ (by omega), Finset.sum_range_succ']
      have e : ∀ k : ℕ, μ ^ (i + 1 + 1 + k) / ((i + 1 + 1 + k).factorial : ℂ)
          = μ ^ (i + 1 + (k + 1)) / ((i + 1 + (k + 1)).factorial : ℂ) := by
        intro k; rw [show i + 1 + 1 + k = i + 1 + (k + 1) by ring]
      simp only [e, Nat.add_zero]
      ring
  unfold expSeries
  obtain ⟨m, rfl⟩ : ∃ m, M = m + 1 := ⟨M - 1, by omega⟩
  have h1 : μ * 1 = μ ^ 1 / ((1 : ℕ).factorial : ℂ) := by simp
  simp only [Nat.add_sub_cancel]
  rw [h1, key m 1 _ (le_refl 1)]
  rw [Finset.sum_range_succ' _ (m + 1), Finset.sum_range_succ' _ m]
  simp only [pow_zero, Nat.factorial_zero, Nat.cast_one, div_one, pow_one, Nat.factorial_one, zero_add]
  have : ∀ t, μ ^ (1 + 1 + t) / ((1 + 1 + t).factorial : ℂ) = μ ^ (t + 1 + 1) / ((t + 1 + 1).factorial : ℂ) := by
    intro t; congr 2 <;> ring_nf
  simp only [this]
  ring

/-- `vacuum_step_symbol`: in vacuum (`t = 0`) the first-order term of the series operator (generated: split-step operator
times `i·Δz`) sends a wave `w` on which the Laplacian acts as the real number `lam` to `μ · w` with the purely imaginary
`μ = i · Δz · λ · lam / (4π)`. -/
theorem vacuum_step_symbol (lam dz wl : ℝ) (w : ℂ) (hwl : wl ≠ 0) :
    AbtemVerif.Gen.FiniteDiffC.firstOrderTerm
        (AbtemVerif.Gen.FiniteDiffC.splitStepOperator ((lam : ℂ) * w) 0 w (wl : ℂ)) (dz : ℂ)
      = ((dz * wl * lam / (4 * Real.pi) : ℝ) : ℂ) * Complex.I * w := by
  unfold AbtemVerif.Gen.FiniteDiffC.firstOrderTerm AbtemVerif.Gen.FiniteDiffC.splitStepOperator
  have hπ : (Real.pi : ℂ) ≠ 0 := by exact_mod_cast Real.pi_ne_zero
  have hwl' : (wl : ℂ) ≠ 0 := by exact_mod_cast hwl
  push_cast
  field_simp
  ring

/- Full statement (not provable as stated for a truncated series): real-space propagation through vacuum preserves the
   intensity of band-limited waves.
   Proved: on each plane wave the step multiplies the amplitude by the truncated exponential series of a purely
   imaginary `μ` (above), whose modulus differs from `|e^{μ}| = 1` by at most the Taylor remainder below (for `|μ| ≤ 1`,
   i.e. `Δz·λ·|lam| ≤ 4π`).
   Missing: the convergence test of the loop (`tolerance`, `max_terms`, DivergedError), the antialias band limit applied
   after every step, the sum over plane waves (Parseval) and float32 rounding; vacuum intensity, agreement with the Fourier
   propagator and lazy = eager are checked by the conformance oracle. -/
theorem vacuum_planewave_intensity_partial (y : ℝ) (hy : |y| ≤ 1) (n : ℕ) (hn : 0 < n) :
    |‖∑ i ∈ range n, ((y : ℂ) * Complex.I) ^ i / (i.factorial : ℂ)‖ - 1|
      ≤ |y| ^ n * ((n.succ : ℝ) * ((n.factorial : ℝ) * n)⁻¹) := by
  set μ : ℂ := (y : ℂ) * Complex.I with hμ
  have hnorm : ‖μ‖ = |y| := by
    rw [hμ, norm_mul, Complex.norm_I, mul_one, Complex.norm_real, Real.norm_eq_abs]
  have hb := Complex.exp_bound (x := μ) (by rw [hnorm]; exact hy) hn
  have hexp : ‖Complex.exp μ‖ = 1 := by rw [hμ]; exact Complex.norm_exp_ofReal_mul_I y
  rw [hnorm] at hb
  have h1 : |‖∑ i ∈ range n, μ ^ i / (i.factorial : ℂ)‖ - ‖Complex.exp μ‖|
      ≤ ‖∑ i ∈ range n, μ ^ i / (i.factorial : ℂ) - Complex.exp μ‖ := abs_norm_sub_norm_le _ _
  rw [hexp] at h1
  rw [norm_sub_rev] at h1
  exact le_trans h1 hb

/-! ### non-vacuity -/
example : (∀ k : ℤ, (fun k : ℤ => if k = 0 then (-2 : ℂ) else if k = 1 ∨ k = -1 then 1 else 0) (-k)
    = (fun k : ℤ => if k = 0 then (-2 : ℂ) else if k = 1 ∨ k = -1 then 1 else 0) k) := by
  intro k; by_cases h0 : k = 0 <;> by_cases h1 : k = 1 <;> by_cases h2 : k = -1 <;> simp_all <;> omega
example : |(1 / 2 : ℝ)| ≤ 1 := by norm_num [abs_le]

end AbtemVerif.Props.C37
