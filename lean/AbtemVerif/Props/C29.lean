/-
C29 — Array-object structural operations keep data and metadata aligned.

Statements are about the executable model `AbtemVerif.ArrObj` of `abtem.array.ArrayObject`'s structural
operations (hand model; every operation of the model is compared with the real method, eager and lazy, on
every run).  The model describes the tree after the fixes 79236f6f (reductions with keepdims), 45743dfc
(`get_items(keepdims=True)`) and a113d2f7 (`expand_dims`), whose counter-example theorems were replaced by
`reduce_keepdims_aligned`, `keepdims_slice_selects_the_item` / `keepdims_out_of_range_refused` and
`expandDims_single_position`.  Quantifiers: every object (any ensemble axes, any base dims, any shape and data), every item
tuple / axis tuple.
-/
import AbtemVerif.Model.ArrayObject
import Mathlib.Tactic.Ring
import Mathlib.Tactic.Linarith
import Mathlib.Data.Rat.Defs

namespace AbtemVerif.Props.C29
open AbtemVerif.ArrObj

/-- every object the constructor lets through is aligned (one axis-metadata entry per dimension, ordinal
axes have one value per item), and nothing else gets through -/
theorem check_ok_iff (o o' : Obj) : check o = .ok o' ↔ (WF o = true ∧ o' = o) := by
  unfold check
  by_cases h : WF o = true
  · simp [h, eq_comm]
  · simp [h]

/-! ### indexing -/

/-- slicing an ordinal axis and slicing the dimension use the same index list: the lengths agree -/
theorem ordinal_len_eq_dim (l : Int) (vs : List Int) (idx : List Nat) (fwd : Option (Int × Int)) :
    axisGet (.ordinal l vs) idx fwd = .ordinal l (idx.map fun i => vs.getD i 0) ∧
    (idx.map fun i => vs.getD i 0).length = idx.length := by
  simp [axisGet]

/-- coordinate `k` of a linear axis -/
def coord (off samp : Rat) (k : Nat) : Rat := off + k * samp

theorem axesFit_nil (as : List Axis) : axesFit as [] = true := by
  cases as <;> simp [axesFit]

/-- positions selected by `None` hold the inserted `UnknownAxis()` -/
def nonesUnknown : List Sel → List Axis → Bool
  | .newaxis :: ss, a :: as => (a == .unknown) && nonesUnknown ss as
  | _ :: ss, _ :: as => nonesUnknown ss as
  | _, _ => true

/-- the axes selected by the items fit the shape selected by the items (the heart of `get_items`): whatever the
resolved items are, if the axes and dimensions left over after the items are aligned, then the selected
metadata is aligned with the selected shape — ordinal axes are cut by the same index list as their dimension,
an integer removes both, `None` adds a length-1 dimension and an `UnknownAxis`. -/
theorem selectAxes_fit : (sels : List Sel) → (axes : List Axis) → (dims : List Nat) → (md : List (Int × Int)) →
    nonesUnknown sels axes = true →
    axesFit (axes.drop sels.length) (dims.drop (sels.filter (· != .newaxis)).length) = true →
    axesFit (selectAxes sels axes md).1 (selShape sels dims) = true
  | [], axes, dims, md, _, h => by simpa [selectAxes, selShape] using h
  | _ :: _, [], dims, md, _, _ => by simp [selectAxes, axesFit]
  | .drop i :: ss, a :: as, [], md, _, _ => by
      simp only [selectAxes, selShape]
      exact axesFit_nil _
  | .drop i :: ss, a :: as, n :: dims, md, hu, h => by
      simp only [selectAxes, selShape]
      apply selectAxes_fit ss as dims
      · simpa [nonesUnknown] using hu
      · simpa using h
  | .keep idx fwd :: ss, a :: as, [], md, _, _ => by
      simp only [selectAxes, selShape]
      exact axesFit_nil _
  | .keep idx fwd :: ss, a :: as, n :: dims, md, hu, h => by
      have ih := selectAxes_fit ss as dims md (by simpa [nonesUnknown] using hu) (by simpa using h)
      simp only [selectAxes, selShape]
      cases a with
      | ordinal l vs => simp [axisGet, axesFit, ih]
      | other t => simp [axisGet, axesFit, ih]
      | unknown => simp [axisGet, axesFit, ih]
      | linear t off samp => cases fwd <;> simp [axisGet, axesFit, ih]
      | ordinalQ l vs => simp [axisGet, axesFit, ih]
  | .newaxis :: ss, a :: as, dims, md, hu, h => by
      simp only [nonesUnknown, Bool.and_eq_true, beq_iff_eq] at hu
      have ih := selectAxes_fit ss as dims md hu.2 (by simpa using h)
      simp only [selectAxes, selShape]
      rw [hu.1]
      simp [axesFit, ih]

/-- `resolve` and `expandNones` agree on where the `None`s are -/
theorem resolve_nonesUnknown : (items : List Item) → (dims : List Nat) → (ens : List Axis) → (sels : List Sel) →
    (items.filter (· != .none)).length ≤ ens.length →
    resolve items dims = .ok sels → nonesUnknown sels (expandNones items ens) = true
  | [], _, ens, sels, _, h => by
      simp [resolve] at h; subst h; cases ens <;> simp [nonesUnknown]
  | .none :: its, dims, ens, sels, hl, h => by
      simp only [resolve] at h
      cases hr : resolve its dims with
      | error e => simp [hr] at h
      | ok r =>
        simp [hr] at h; subst h
        simp [expandNones, nonesUnknown, resolve_nonesUnknown its dims ens r (by simpa using hl) hr]
  | .int i :: its, [], ens, sels, _, h => by simp [resolve] at h
  | .slice a b c :: its, [], ens, sels, _, h => by simp [resolve] at h
  | .list l :: its, [], ens, sels, _, h => by simp [resolve] at h
  | .ellipsis :: its, dims, ens, sels, _, h => by cases dims <;> simp [resolve] at h
  | .int i :: its, n :: dims, ens, sels, hl, h => by
      simp only [resolve] at h
      cases hi : intIndex i n with
      | error e => simp [hi] at h
      | ok j =>
        cases hr : resolve its dims with
        | error e => simp [hi, hr] at h
        | ok r =>
          simp [hi, hr] at h; subst h
          cases ens with
          | nil => simp at hl
          | cons a as => simp [expandNones, nonesUnknown, resolve_nonesUnknown its dims as r (by simpa using hl) hr]
  | .slice a b c :: its, n :: dims, ens, sels, hl, h => by
      simp only [resolve] at h
      cases hi : sliceIndices a b c n with
      | error e => simp [hi] at h
      | ok j =>
        cases hr : resolve its dims with
        | error e => simp [hi, hr] at h
        | ok r =>
          simp [hi, hr] at h; subst h
          cases ens with
          | nil => simp at hl
          | cons a as => simp [expandNones, nonesUnknown, resolve_nonesUnknown its dims as r (by simpa using hl) hr]
  | .list l :: its, n :: dims, ens, sels, hl, h => by
      simp only [resolve] at h
      cases hi : listIndices l n with
      | error e => simp [hi] at h
      | ok j =>
        cases hr : resolve its dims with
        | error e => simp [hi, hr] at h
        | ok r =>
          simp [hi, hr] at h; subst h
          cases ens with
          | nil => simp at hl
          | cons a as => simp [expandNones, nonesUnknown, resolve_nonesUnknown its dims as r (by simpa using hl) hr]

/-! ### refusals -/

/-- reducing over a base axis is refused (RuntimeError), whatever else is asked -/
theorem reduce_base_refused (o : Obj) (axes : List Int) (keepdims : Bool)
    (h : (axes.map fun a => if a ≥ 0 then a else a + (o.shape.length : Int)).any
      (fun a => a ≥ ((o.shape.length : Int) - o.baseDims) && a < (o.shape.length : Int)) = true) :
    reduce o axes keepdims = .error .runtime_error := by
  unfold reduce
  simp only [h, if_true]

/-- indexing with more (non-`None`) items than there are ensemble axes — i.e. into the base axes — is refused -/
theorem too_many_indices_refused (o : Obj) (items : List Item) (h1 : items.any (· == .ellipsis) = false)
    (h2 : (items.filter (· != .none)).length > o.shape.length - o.baseDims) :
    getItems o items false = .error .runtime_error := by
  unfold getItems validateItems
  have h3 : o.shape.length - o.baseDims < (items.filter (· != .none)).length := h2
  simp [h1, h3]

/-- `Ellipsis` is rejected -/
theorem ellipsis_refused (o : Obj) (items : List Item) (h1 : items.any (· == .ellipsis) = true) :
    getItems o items false = .error .not_implemented := by
  unfold getItems validateItems
  simp [h1]

/-- every successful result of the four operations is aligned (the constructor check is the last step of each) -/
theorem getItems_aligned (o o' : Obj) (items : List Item) (k : Bool) (h : getItems o items k = .ok o') : WF o' = true := by
  simp only [getItems] at h
  split at h
  · simp at h
  · split at h
    · simp at h
    · exact ((check_ok_iff _ _).mp h).2 ▸ ((check_ok_iff _ _).mp h).1

/-! ### reductions (after fix 79236f6f) -/

theorem keepAxes_length : (as : List Axis) → (i : Nat) → (ax : List Nat) → (keepAxes as i ax).length = as.length
  | [], _, _ => rfl
  | _ :: as, i, ax => by simp [keepAxes, keepAxes_length as (i + 1) ax]

theorem keepShape_length : (ns : List Nat) → (i : Nat) → (ax : List Nat) → (keepShape ns i ax).length = ns.length
  | [], _, _ => rfl
  | _ :: ns, i, ax => by simp [keepShape, keepShape_length ns (i + 1) ax]

/-- with `keepdims=True` the kept metadata fits the kept shape: a reduced ordinal axis either has one value
or is replaced by a label-only axis, every dimension that is reduced has length one -/
theorem keepAxes_fit : (as : List Axis) → (ns : List Nat) → (i : Nat) → (ax : List Nat) →
    axesFit as ns = true → axesFit (keepAxes as i ax) (keepShape ns i ax) = true
  | [], _, _, _, _ => by simp [keepAxes, axesFit]
  | a :: as, [], _, _, _ => by simp [keepShape]; exact axesFit_nil _
  | a :: as, n :: ns, i, ax, h => by
      cases a with
      | ordinal l vs =>
        simp only [axesFit, Bool.and_eq_true, beq_iff_eq] at h
        have ih := keepAxes_fit as ns (i + 1) ax h.2
        by_cases hc : i ∈ ax
        · by_cases hv : vs.length = 1
          · simp [keepAxes, keepShape, hc, hv, axesFit, ih]
          · simp [keepAxes, keepShape, hc, hv, axesFit, ih]
        · simp [keepAxes, keepShape, hc, axesFit, ih, h.1]
      | other t =>
        simp only [axesFit] at h
        have ih := keepAxes_fit as ns (i + 1) ax h
        by_cases hc : i ∈ ax <;> simp [keepAxes, keepShape, hc, axesFit, ih]
      | unknown =>
        simp only [axesFit] at h
        have ih := keepAxes_fit as ns (i + 1) ax h
        by_cases hc : i ∈ ax <;> simp [keepAxes, keepShape, hc, axesFit, ih]
      | linear t off samp =>
        simp only [axesFit] at h
        have ih := keepAxes_fit as ns (i + 1) ax h
        by_cases hc : i ∈ ax <;> simp [keepAxes, keepShape, hc, axesFit, ih]
      | ordinalQ l vs =>
        simp only [axesFit, Bool.and_eq_true, beq_iff_eq] at h
        have ih := keepAxes_fit as ns (i + 1) ax h.2
        by_cases hc : i ∈ ax
        · by_cases hv : vs.length = 1
          · simp [keepAxes, keepShape, hc, hv, axesFit, ih]
          · simp [keepAxes, keepShape, hc, hv, axesFit, ih]
        · simp [keepAxes, keepShape, hc, axesFit, ih, h.1]

/-- without `keepdims` the metadata of the removed dimensions is removed with them -/
theorem dropAt_fit : (as : List Axis) → (ns : List Nat) → (i : Nat) → (ax : List Nat) →
    axesFit as ns = true → axesFit (dropAt as i ax) (dropAt ns i ax) = true
  | [], _, _, _, _ => by simp [dropAt, axesFit]
  | a :: as, [], _, _, _ => by simp [dropAt]; exact axesFit_nil _
  | a :: as, n :: ns, i, ax, h => by
      have ht : axesFit as ns = true := by
        cases a <;> simp_all [axesFit]
      have ih := dropAt_fit as ns (i + 1) ax ht
      by_cases hc : i ∈ ax
      · simp [dropAt, hc, ih]
      · cases a <;> simp_all [dropAt, axesFit]

def failsRuntime (r : Except Err Obj) : Bool :=
  match r with
  | .error .runtime_error => true
  | _ => false

theorem check_wf_not_runtime (x : Obj) (h : WF x = true) : failsRuntime (check x) = false := by
  simp [check, h, failsRuntime]

theorem keep_wf (o : Obj) (axN : List Nat) (d : List Int) (hwf : WF o = true) :
    WF { o with ens := keepAxes o.ens 0 axN, shape := keepShape o.shape 0 axN, data := d } = true := by
  simp only [WF, Bool.and_eq_true, beq_iff_eq] at hwf ⊢
  exact ⟨by simp [keepAxes_length, keepShape_length, hwf.1], keepAxes_fit _ _ _ _ hwf.2⟩

/-- F15 REPAIRED.  `sum(axis, keepdims=True)` on an aligned object never ends in the constructor's RuntimeError: the
only RuntimeError left is the deliberate refusal of base axes. -/
theorem reduce_keepdims_aligned (o : Obj) (axes : List Int) (hwf : WF o = true)
    (hbase : (axes.map fun a => if a ≥ 0 then a else a + (o.shape.length : Int)).any
      (fun a => a ≥ ((o.shape.length : Int) - o.baseDims) && a < (o.shape.length : Int)) = false) :
    failsRuntime (reduce o axes true) = false := by
  unfold reduce
  simp only [hbase, Bool.false_eq_true, if_false, Bool.true_and]
  split
  · rfl
  · split
    · rfl
    · split
      · rfl
      · simp only [↓reduceIte]
        exact check_wf_not_runtime _ (keep_wf o _ _ hwf)

/-! ### `get_items(…, keepdims=True)` (after fix 45743dfc) -/

/- an integer index that is accepted is in range; the slice it is rewritten to selects exactly its item -/
theorem intIndex_ok (i : Int) (n j : Nat) (h : intIndex i n = .ok j) :
    (0 ≤ i ∧ i < n ∧ (j : Int) = i) ∨ (i < 0 ∧ 0 ≤ i + n ∧ (j : Int) = i + n) := by
  unfold intIndex at h
  by_cases hneg : i < 0
  · simp only [hneg, if_true] at h
    split at h
    · simp at h
    · rename_i hb
      simp only [Bool.or_eq_true, decide_eq_true_eq, not_or, not_lt, not_le] at hb
      simp only [Except.ok.injEq] at h
      right; omega
  · simp only [hneg, if_false] at h
    split at h
    · simp at h
    · rename_i hb
      simp only [Bool.or_eq_true, decide_eq_true_eq, not_or, not_lt, not_le] at hb
      simp only [Except.ok.injEq] at h
      left; omega

theorem pyRange_one (s : Int) (f : Nat) : pyRange s (s + 1) 1 (f + 1 + 1) = [s] := by
  simp [pyRange]

theorem keepdims_slice_selects_the_item (i : Int) (n j : Nat) (h : intIndex i n = .ok j) :
    sliceIndices (some i) (if i = -1 then none else some (i + 1)) none n = .ok [j] := by
  have hcases := intIndex_ok i n j h
  obtain ⟨m, rfl⟩ : ∃ m, n = m + 1 := by
    cases n with
    | zero => exfalso; omega
    | succ m => exact ⟨m, rfl⟩
  unfold sliceIndices sliceStart
  have h10 : ((1 : Int) == 0) = false := rfl
  simp only [Option.getD_none, h10, Bool.false_eq_true, if_false]
  rcases hcases with ⟨h0, hlt, hj⟩ | ⟨hneg, hge, hj⟩
  · have hm1 : i ≠ -1 := by omega
    have e1 : ¬ (i < 0) := by omega
    have e2 : ¬ (i ≥ ((m + 1 : Nat) : Int)) := by omega
    have e3 : ¬ (i + 1 < 0) := by omega
    simp only [hm1, if_false, e1, e2, e3, show ¬ ((1:Int) < 0) by decide, decide_false, Bool.false_eq_true]
    by_cases e4 : i + 1 ≥ ((m + 1 : Nat) : Int)
    · have hr : pyRange i ((m + 1 : Nat) : Int) 1 (m + 1 + 1) = [i] := by
        have := pyRange_one i m
        rwa [show i + 1 = ((m + 1 : Nat) : Int) by omega] at this
      simp only [e4, if_true, hr]
      simp; omega
    · have hr := pyRange_one i m
      simp only [e4, if_false, hr]
      simp; omega
  · have e1 : ¬ (i + ((m + 1 : Nat) : Int) < 0) := by omega
    have e2 : ¬ (i + ((m + 1 : Nat) : Int) ≥ ((m + 1 : Nat) : Int)) := by omega
    by_cases hm1 : i = -1
    · subst hm1
      have : ((m + 1 : Nat) : Int) - 1 + 1 = ((m + 1 : Nat) : Int) := by omega
      simp only [if_true, hneg, e1, e2, if_false, show ¬ ((1:Int) < 0) by decide, decide_false, Bool.false_eq_true]
      have hr : pyRange (-1 + ((m + 1 : Nat) : Int)) ((m + 1 : Nat) : Int) 1 (m + 1 + 1) = [-1 + ((m + 1 : Nat) : Int)] := by
        have := pyRange_one (-1 + ((m + 1 : Nat) : Int)) m
        rwa [show -1 + ((m + 1 : Nat) : Int) + 1 = ((m + 1 : Nat) : Int) by omega] at this
      rw [hr]; simp; omega
    · have e3 : i + 1 < 0 := by omega
      have e4 : ¬ (i + 1 + ((m + 1 : Nat) : Int) < 0) := by omega
      have e5 : ¬ (i + 1 + ((m + 1 : Nat) : Int) ≥ ((m + 1 : Nat) : Int)) := by omega
      simp only [hm1, if_false, hneg, if_true, e1, e2, e3, e4, e5, show ¬ ((1:Int) < 0) by decide, decide_false, Bool.false_eq_true]
      have hr : pyRange (i + ((m + 1 : Nat) : Int)) (i + 1 + ((m + 1 : Nat) : Int)) 1 (m + 1 + 1) = [i + ((m + 1 : Nat) : Int)] := by
        have := pyRange_one (i + ((m + 1 : Nat) : Int)) m
        rwa [show i + ((m + 1 : Nat) : Int) + 1 = i + 1 + ((m + 1 : Nat) : Int) by omega] at this
      rw [hr]; simp; omega

/-- an out-of-range integer is refused (IndexError) instead of silently selecting nothing -/
theorem keepdims_out_of_range_refused (i : Int) (n : Nat) (its : List Item) (dims : List Nat)
    (h : i < -(n : Int) ∨ i ≥ (n : Int)) : keepdimsItems (.int i :: its) (n :: dims) = .error .index_error := by
  simp [keepdimsItems, h]

/-! ### `expand_dims` (after fix a113d2f7) -/

/-- a single new axis sits exactly at the requested position of the ensemble axes (positions count in the expanded
array, negative positions from its end) -/
theorem expandDims_single_position (o o' : Obj) (a : Int) (am : Axis)
    (h : expandDims o [a] [am] = .ok o') :
    o'.ens = pyInsert o.ens (if a ≥ 0 then a else a + ((o.shape.length + 1 : Nat) : Int)) am := by
  simp only [expandDims, normAxes, List.map_cons, List.map_nil, List.length_cons, List.length_nil] at h
  by_cases hc : ([if a ≥ 0 then a else a + ((o.shape.length + (0 + 1) : Nat) : Int)].any fun a =>
      decide (a < 0) || decide (a ≥ ((o.shape.length - o.baseDims + (0 + 1) : Nat) : Int))) = true
  · rw [if_pos hc] at h; simp at h
  · rw [if_neg hc] at h
    cases hs : expandShape? o.shape [(if a ≥ 0 then a else a + ((o.shape.length + (0 + 1) : Nat) : Int)).toNat] with
    | none => rw [hs] at h; simp at h
    | some shape' =>
      rw [hs] at h
      have := (check_ok_iff _ _).mp h
      rw [this.2]
      simp [sortByPos, insertByPos, List.zip]

/-- unsorted and negative axis tuples: both new entries land at their positions (this was the recorded defect) -/
example : (expandDims ⟨[.other 1, .other 2], 0, [2, 3], [0, 1, 2, 3, 4, 5], []⟩ [2, 0] [.other 8, .other 9]).toOption.map (·.ens)
    = some [.other 9, .other 1, .other 8, .other 2] := by decide
example : (expandDims ⟨[.other 1, .other 2], 0, [2, 3], [0, 1, 2, 3, 4, 5], []⟩ [-1, 0] [.other 8, .other 9]).toOption.map (fun o => (o.ens, o.shape))
    = some ([.other 9, .other 1, .other 2, .other 8], [1, 2, 3, 1]) := by decide

/-! ### the whole `get_items` call: alignment is preserved (composition of the lemmas above) -/

def nn (items : List Item) : Nat := (items.filter (· != .none)).length
def nonNew (sels : List Sel) : Nat := (sels.filter (· != .newaxis)).length
def kept (sels : List Sel) : Nat := (sels.filter fun s => match s with | .drop _ => false | _ => true).length

theorem resolve_counts : (items : List Item) → (dims : List Nat) → (sels : List Sel) →
    resolve items dims = .ok sels → sels.length = items.length ∧ nonNew sels = nn items
  | [], _, sels, h => by simp [resolve] at h; subst h; simp [nonNew, nn]
  | .none :: its, dims, sels, h => by
      simp only [resolve] at h
      cases hr : resolve its dims with
      | error e => simp [hr] at h
      | ok r =>
        simp [hr] at h; subst h
        have := resolve_counts its dims r hr
        simp [nonNew, nn] at this ⊢
        exact this
  | .int i :: its, [], sels, h => by simp [resolve] at h
  | .slice a b c :: its, [], sels, h => by simp [resolve] at h
  | .list l :: its, [], sels, h => by simp [resolve] at h
  | .ellipsis :: its, dims, sels, h => by cases dims <;> simp [resolve] at h
  | .int i :: its, n :: dims, sels, h => by
      simp only [resolve] at h
      cases hi : intIndex i n with
      | error e => simp [hi] at h
      | ok j =>
        cases hr : resolve its dims with
        | error e => simp [hi, hr] at h
        | ok r =>
          simp [hi, hr] at h; subst h
          have := resolve_counts its dims r hr
          simp [nonNew, nn] at this ⊢
          exact this
  | .slice a b c :: its, n :: dims, sels, h => by
      simp only [resolve] at h
      cases hi : sliceIndices a b c n with
      | error e => simp [hi] at h
      | ok j =>
        cases hr : resolve its dims with
        | error e => simp [hi, hr] at h
        | ok r =>
          simp [hi, hr] at h; subst h
          have := resolve_counts its dims r hr
          simp [nonNew, nn] at this ⊢
          exact this
  | .list l :: its, n :: dims, sels, h => by
      simp only [resolve] at h
      cases hi : listIndices l n with
      | error e => simp [hi] at h
      | ok j =>
        cases hr : resolve its dims with
        | error e => simp [hi, hr] at h
        | ok r =>
          simp [hi, hr] at h; subst h
          have := resolve_counts its dims r hr
          simp [nonNew, nn] at this ⊢
          exact this

theorem nn_cons_none (its : List Item) : nn (.none :: its) = nn its := by simp [nn]
theorem nn_cons_ne (it : Item) (its : List Item) (h : it ≠ .none) : nn (it :: its) = nn its + 1 := by
  simp [nn, h]

/-- past the items, the `None`-expanded axes are the axes past the dimensions the items consumed -/
theorem expandNones_drop : (items : List Item) → (ens : List Axis) → nn items ≤ ens.length →
    (expandNones items ens).drop items.length = ens.drop (nn items) ∧
    (expandNones items ens).length = ens.length + (items.length - nn items) ∧ nn items ≤ items.length
  | [], ens, _ => by simp [expandNones, nn]
  | .none :: its, ens, h => by
      rw [nn_cons_none] at h ⊢
      have ih := expandNones_drop its ens h
      simp only [expandNones, List.length_cons, List.drop_succ_cons]
      refine ⟨ih.1, ?_, ?_⟩ <;> omega
  | .int i :: its, [], h => by rw [nn_cons_ne _ _ (by simp)] at h; simp at h
  | .slice a b c :: its, [], h => by rw [nn_cons_ne _ _ (by simp)] at h; simp at h
  | .list l :: its, [], h => by rw [nn_cons_ne _ _ (by simp)] at h; simp at h
  | .ellipsis :: its, [], h => by rw [nn_cons_ne _ _ (by simp)] at h; simp at h
  | .int i :: its, a :: ens, h => by
      rw [nn_cons_ne _ _ (by simp)] at h ⊢
      have ih := expandNones_drop its ens (by simpa using h)
      simp only [expandNones, List.length_cons, List.drop_succ_cons]
      refine ⟨ih.1, ?_, ?_⟩ <;> omega
  | .slice x y z :: its, a :: ens, h => by
      rw [nn_cons_ne _ _ (by simp)] at h ⊢
      have ih := expandNones_drop its ens (by simpa using h)
      simp only [expandNones, List.length_cons, List.drop_succ_cons]
      refine ⟨ih.1, ?_, ?_⟩ <;> omega
  | .list l :: its, a :: ens, h => by
      rw [nn_cons_ne _ _ (by simp)] at h ⊢
      have ih := expandNones_drop its ens (by simpa using h)
      simp only [expandNones, List.length_cons, List.drop_succ_cons]
      refine ⟨ih.1, ?_, ?_⟩ <;> omega
  | .ellipsis :: its, a :: ens, h => by
      rw [nn_cons_ne _ _ (by simp)] at h ⊢
      have ih := expandNones_drop its ens (by simpa using h)
      simp only [expandNones, List.length_cons, List.drop_succ_cons]
      refine ⟨ih.1, ?_, ?_⟩ <;> omega

theorem axesFit_drop : (as : List Axis) → (ns : List Nat) → (k : Nat) → axesFit as ns = true →
    axesFit (as.drop k) (ns.drop k) = true
  | as, ns, 0, h => by simpa using h
  | [], ns, k + 1, _ => by simp [axesFit]
  | a :: as, [], k + 1, _ => by simp; exact axesFit_nil _
  | a :: as, n :: ns, k + 1, h => by
      have ht : axesFit as ns = true := by cases a <;> simp_all [axesFit]
      simpa using axesFit_drop as ns k ht

theorem selShape_length : (sels : List Sel) → (dims : List Nat) → nonNew sels ≤ dims.length →
    (selShape sels dims).length = kept sels + (dims.length - nonNew sels)
  | [], dims, _ => by simp [selShape, kept, nonNew]
  | .newaxis :: ss, dims, h => by
      have h' : nonNew ss ≤ dims.length := by simpa [nonNew] using h
      have ih := selShape_length ss dims h'
      simp [selShape, kept, nonNew] at ih ⊢
      omega
  | .drop i :: ss, [], h => by simp [nonNew] at h
  | .keep idx f :: ss, [], h => by simp [nonNew] at h
  | .drop i :: ss, n :: dims, h => by
      have h' : nonNew ss ≤ dims.length := by simp [nonNew] at h ⊢; omega
      have ih := selShape_length ss dims h'
      simp [selShape, kept, nonNew] at ih ⊢
      omega
  | .keep idx f :: ss, n :: dims, h => by
      have h' : nonNew ss ≤ dims.length := by simp [nonNew] at h ⊢; omega
      have ih := selShape_length ss dims h'
      simp [selShape, kept, nonNew] at ih ⊢
      omega

theorem selectAxes_length : (sels : List Sel) → (axes : List Axis) → (md : List (Int × Int)) → sels.length ≤ axes.length →
    (selectAxes sels axes md).1.length = kept sels + (axes.length - sels.length)
  | [], axes, md, _ => by simp [selectAxes, kept]
  | _ :: _, [], md, h => by simp at h
  | .drop i :: ss, a :: as, md, h => by
      have ih := fun md' => selectAxes_length ss as md' (by simpa using h)
      simp [selectAxes, kept, ih]
  | .keep idx f :: ss, a :: as, md, h => by
      have ih := selectAxes_length ss as md (by simpa using h)
      simp [selectAxes, kept] at ih ⊢
      omega
  | .newaxis :: ss, a :: as, md, h => by
      have ih := selectAxes_length ss as md (by simpa using h)
      simp [selectAxes, kept] at ih ⊢
      omega

/-- THE ALIGNMENT OF `get_items`.  For an aligned object and any item tuple that passes the validator and resolves
against the ensemble shape (ints in range, any slices, `None`s, index lists), the selected metadata and the selected
array are aligned again: one axis-metadata entry per dimension, ordinal axes with one value per item. -/
theorem getItems_result_wf (o : Obj) (its : List Item) (sels : List Sel) (d : List Int) (m : List (Int × Int))
    (hwf : WF o = true) (hn : nn its ≤ o.ens.length)
    (hr : resolve its (o.shape.take (o.shape.length - o.baseDims)) = .ok sels) :
    WF { o with ens := (selectAxes sels (expandNones its o.ens) o.md).1, shape := selShape sels o.shape,
                data := d, md := m } = true := by
  simp only [WF, Bool.and_eq_true, beq_iff_eq] at hwf ⊢
  obtain ⟨hlen, hfit⟩ := hwf
  obtain ⟨hsl, hnn⟩ := resolve_counts _ _ _ hr
  obtain ⟨hdrop, hexl, hle⟩ := expandNones_drop its o.ens hn
  constructor
  · rw [selShape_length sels o.shape (by rw [hnn]; omega),
        selectAxes_length sels (expandNones its o.ens) o.md (by rw [hsl, hexl]; omega)]
    rw [hnn, hsl, hexl]
    omega
  · apply selectAxes_fit
    · exact resolve_nonesUnknown its _ o.ens sels hn hr
    · rw [hsl, hdrop]
      show axesFit (List.drop (nn its) o.ens) (List.drop (nonNew sels) o.shape) = true
      rw [hnn]
      exact axesFit_drop _ _ _ hfit

theorem intIndex_err (i : Int) (n : Nat) (e : Err) (h : intIndex i n = .error e) : e = .index_error := by
  unfold intIndex at h
  by_cases hc : (decide ((if i < 0 then i + (n : Int) else i) < 0) || decide ((if i < 0 then i + (n : Int) else i) ≥ (n : Int))) = true
  · simp only [hc, if_true] at h; simpa using h.symm
  · simp only [hc] at h; simp at h

theorem sliceIndices_err (a b c : Option Int) (n : Nat) (e : Err) (h : sliceIndices a b c n = .error e) : e = .value_error := by
  unfold sliceIndices at h
  by_cases hc : (c.getD 1 == 0) = true
  · simp only [hc, if_true] at h; simpa using h.symm
  · simp only [hc] at h; simp at h

theorem listIndices_err : (l : List Int) → (n : Nat) → (e : Err) → listIndices l n = .error e → e = .index_error
  | [], n, e, h => by simp [listIndices, pure, Except.pure] at h
  | i :: l, n, e, h => by
      simp only [listIndices, List.mapM_cons] at h
      cases hi : intIndex i n with
      | error e1 =>
        have := intIndex_err i n e1 hi
        simp [hi, bind, Except.bind] at h
        rw [← h, this]
      | ok j =>
        simp only [hi, bind, Except.bind] at h
        cases hl : List.mapM (fun i => intIndex i n) l with
        | error e2 =>
          simp only [hl] at h
          have := listIndices_err l n e2 (by simpa [listIndices] using hl)
          simp at h
          rw [← h, this]
        | ok r => simp [hl, pure, Except.pure] at h

/-- resolving items never produces a RuntimeError (only IndexError / ValueError / NotImplementedError) -/
theorem resolve_no_runtime : (items : List Item) → (dims : List Nat) → resolve items dims ≠ .error .runtime_error
  | [], _ => by simp [resolve]
  | .none :: its, dims => by
      simp only [resolve]
      cases hr : resolve its dims with
      | error e => simp only; intro hc; simp at hc; exact resolve_no_runtime its dims (hc ▸ hr)
      | ok r => simp
  | .int i :: its, [] => by simp [resolve]
  | .slice a b c :: its, [] => by simp [resolve]
  | .list l :: its, [] => by simp [resolve]
  | .ellipsis :: its, dims => by cases dims <;> simp [resolve]
  | .int i :: its, n :: dims => by
      simp only [resolve]
      cases hi : intIndex i n with
      | error e => have := intIndex_err i n e hi; subst this; cases resolve its dims <;> simp
      | ok j =>
        cases hr : resolve its dims with
        | error e => simp only; intro hc; simp at hc; exact resolve_no_runtime its dims (hc ▸ hr)
        | ok r => simp
  | .slice a b c :: its, n :: dims => by
      simp only [resolve]
      cases hi : sliceIndices a b c n with
      | error e => have := sliceIndices_err a b c n e hi; subst this; cases resolve its dims <;> simp
      | ok j =>
        cases hr : resolve its dims with
        | error e => simp only; intro hc; simp at hc; exact resolve_no_runtime its dims (hc ▸ hr)
        | ok r => simp
  | .list l :: its, n :: dims => by
      simp only [resolve]
      cases hi : listIndices l n with
      | error e => have := listIndices_err l n e hi; subst this; cases resolve its dims <;> simp
      | ok j =>
        cases hr : resolve its dims with
        | error e => simp only; intro hc; simp at hc; exact resolve_no_runtime its dims (hc ▸ hr)
        | ok r => simp

theorem validateItems_plain (items : List Item) (dims : List Nat) :
    validateItems items dims false =
      if items.any (· == .ellipsis) then .error .not_implemented
      else if nn items > dims.length then .error .runtime_error else .ok items := by
  simp [validateItems, nn]

/-- … hence indexing an aligned object never ends in the constructor's RuntimeError; the only RuntimeError of
`__getitem__` is the deliberate "too many indices" refusal. -/
theorem getItems_never_misaligned (o : Obj) (items : List Item) (hwf : WF o = true)
    (hn : nn items ≤ o.shape.length - o.baseDims) : failsRuntime (getItems o items false) = false := by
  have hens : o.shape.length - o.baseDims = o.ens.length := by
    simp only [WF, Bool.and_eq_true, beq_iff_eq] at hwf; omega
  have hlen : (o.shape.take (o.shape.length - o.baseDims)).length = o.shape.length - o.baseDims := by
    simp
  simp only [getItems]
  rw [validateItems_plain, hlen]
  by_cases hell : (items.any (· == .ellipsis)) = true
  · simp [hell, failsRuntime]
  · rw [if_neg hell, if_neg (by omega)]
    simp only
    · cases hr : resolve items (o.shape.take (o.shape.length - o.baseDims)) with
      | error e =>
        have := resolve_no_runtime items (o.shape.take (o.shape.length - o.baseDims))
        rw [hr] at this
        cases e <;> simp_all [failsRuntime]
      | ok sels =>
        simp only
        exact check_wf_not_runtime _ (getItems_result_wf o items sels _ _ hwf (by rw [← hens]; exact hn) hr)


/-! ### linear ensemble axes: forward slices carry the coordinates of the selected items (4dde25c3) -/

theorem pyRange_getD (e st : Int) (hst : st > 0) : (fuel : Nat) → (s : Int) → (k : Nat) →
    k < (pyRange s e st fuel).length → (pyRange s e st fuel).getD k 0 = s + k * st
  | 0, s, k, h => by simp [pyRange] at h
  | fuel + 1, s, k, h => by
      unfold pyRange at h ⊢
      by_cases hc : (decide (st > 0) && decide (s < e) || decide (st < 0) && decide (s > e)) = true
      · simp only [hc, if_true] at h ⊢
        cases k with
        | zero => simp
        | succ k =>
          simp only [List.length_cons, Nat.add_lt_add_iff_right] at h
          simp only [List.getD_cons_succ]
          rw [pyRange_getD e st hst fuel (s + st) k h]
          push_cast; ring
      · simp only [hc] at h; simp at h

theorem sliceStart_nonneg (a c : Option Int) (n : Nat) (hstep : c.getD 1 ≥ 1) : 0 ≤ sliceStart a c n := by
  unfold sliceStart
  have : ¬ (c.getD 1 < 0) := by omega
  cases a with
  | none => simp [this]
  | some x =>
    simp only [this, decide_false, Bool.false_eq_true, if_false]
    split <;> split <;> omega

/-- the k-th item selected by a slice with positive step is `start + k·step`, `start` being the normalised start -/
theorem sliceIndices_getD (a b c : Option Int) (n : Nat) (idx : List Nat) (hstep : c.getD 1 ≥ 1)
    (h : sliceIndices a b c n = .ok idx) (k : Nat) (hk : k < idx.length) :
    ((idx.getD k 0 : Nat) : Int) = sliceStart a c n + k * c.getD 1 := by
  unfold sliceIndices at h
  have h0 : (c.getD 1 == 0) = false := by
    simp only [beq_eq_false_iff_ne, ne_eq]; omega
  simp only [h0, Bool.false_eq_true, if_false, Except.ok.injEq] at h
  subst h
  simp only [List.length_map] at hk
  have hp := pyRange_getD _ (c.getD 1) (by omega) (n + 1) (sliceStart a c n) k hk
  have hs := sliceStart_nonneg a c n hstep
  rw [List.getD_eq_getElem?_getD, List.getElem?_map]
  rw [List.getD_eq_getElem?_getD] at hp
  cases hg : (pyRange (sliceStart a c n) _ (c.getD 1) (n + 1))[k]? with
  | none =>
    have := List.getElem?_eq_none_iff.mp hg
    omega
  | some v =>
    rw [hg] at hp
    simp only [Option.getD_some] at hp
    simp only [Option.map_some, Option.getD_some]
    have hv : 0 ≤ v := by
      rw [hp]
      have : (0 : Int) ≤ (k : Int) * c.getD 1 := Int.mul_nonneg (Int.natCast_nonneg k) (by omega)
      omega
    rw [Int.toNat_of_nonneg hv, hp]

/-! ### auxiliary facts about ranges and evenly spaced lists -/

/-- every element of a backward range lies above its stop -/
theorem pyRange_neg_gt (e st : Int) (hst : st < 0) : (fuel : Nat) → (s : Int) → ∀ v ∈ pyRange s e st fuel, v > e
  | 0, s, v, h => by simp [pyRange] at h
  | fuel + 1, s, v, h => by
      unfold pyRange at h
      by_cases hc : (decide (st > 0) && decide (s < e) || decide (st < 0) && decide (s > e)) = true
      · simp only [hc, if_true, List.mem_cons] at h
        rcases h with h | h
        · subst h
          simp only [Bool.or_eq_true, Bool.and_eq_true, decide_eq_true_eq] at hc
          omega
        · exact pyRange_neg_gt e st hst fuel (s + st) v h
      · simp only [hc] at h; simp at h

theorem pyRange_getD' (e st : Int) : (fuel : Nat) → (s : Int) → (k : Nat) →
    k < (pyRange s e st fuel).length → (pyRange s e st fuel).getD k 0 = s + k * st
  | 0, s, k, h => by simp [pyRange] at h
  | fuel + 1, s, k, h => by
      unfold pyRange at h ⊢
      by_cases hc : (decide (st > 0) && decide (s < e) || decide (st < 0) && decide (s > e)) = true
      · simp only [hc, if_true] at h ⊢
        cases k with
        | zero => simp
        | succ k =>
          simp only [List.length_cons, Nat.add_lt_add_iff_right] at h
          simp only [List.getD_cons_succ]
          rw [pyRange_getD' e st fuel (s + st) k h]
          push_cast; ring
      · simp only [hc] at h; simp at h

/-- the k-th item selected by a BACKWARD slice is `start + k·step` (`start` = `item.indices(n)[0]`, `step < 0`) -/
theorem sliceIndices_getD_backward (a b c : Option Int) (n : Nat) (idx : List Nat) (hstep : c.getD 1 < 0)
    (h : sliceIndices a b c n = .ok idx) (k : Nat) (hk : k < idx.length) :
    ((idx.getD k 0 : Nat) : Int) = sliceStart a c n + k * c.getD 1 := by
  unfold sliceIndices at h
  have h0 : (c.getD 1 == 0) = false := by
    simp only [beq_eq_false_iff_ne, ne_eq]; omega
  simp only [h0, Bool.false_eq_true, if_false, Except.ok.injEq] at h
  subst h
  simp only [List.length_map] at hk
  have hp := pyRange_getD' _ (c.getD 1) (n + 1) (sliceStart a c n) k hk
  rw [List.getD_eq_getElem?_getD, List.getElem?_map]
  rw [List.getD_eq_getElem?_getD] at hp
  cases hg : (pyRange (sliceStart a c n) _ (c.getD 1) (n + 1))[k]? with
  | none =>
    have := List.getElem?_eq_none_iff.mp hg
    omega
  | some v =>
    rw [hg] at hp
    simp only [Option.getD_some] at hp
    simp only [Option.map_some, Option.getD_some]
    have hmem : v ∈ pyRange (sliceStart a c n) _ (c.getD 1) (n + 1) := List.mem_of_getElem? hg
    have hgt := pyRange_neg_gt _ (c.getD 1) hstep (n + 1) (sliceStart a c n) v hmem
    have hv : 0 ≤ v := by
      have : ¬ ((c.getD 1) < 0) = False := by simp [hstep]
      revert hgt
      cases b with
      | none => simp [hstep]; omega
      | some x =>
        simp only [hstep, decide_true, if_true]
        intro hgt
        split at hgt <;> (try split at hgt) <;> omega
    rw [Int.toNat_of_nonneg hv, hp]

theorem evenly_spec : (l : List Nat) → (step : Int) → evenly l step = true →
    ∀ k, k < l.length → ((l.getD k 0 : Nat) : Int) = ((l.headD 0 : Nat) : Int) + k * step
  | [], _, _, k, hk => by simp at hk
  | [a], _, _, k, hk => by
      simp only [List.length_singleton, Nat.lt_one_iff] at hk; subst hk; simp
  | a :: b :: rest, step, h, k, hk => by
      simp only [evenly, Bool.and_eq_true, beq_iff_eq] at h
      cases k with
      | zero => simp
      | succ m =>
        have ih := evenly_spec (b :: rest) step h.2 m (by simpa using hk)
        simp only [List.getD_cons_succ, List.headD_cons] at ih ⊢
        rw [ih]; push_cast; have := h.1; linarith [this]

/-- what `regularList` returns really describes the list: `idx[k] = first + k·step` -/
theorem regularList_spec (idx : List Nat) (first step : Int) (h : regularList idx = some (first, step)) :
    ∀ k, k < idx.length → ((idx.getD k 0 : Nat) : Int) = first + k * step := by
  intro k hk
  match idx, h with
  | [], _ => simp at hk
  | [i], h =>
    simp only [regularList, Option.some.injEq, Prod.mk.injEq] at h
    simp only [List.length_singleton, Nat.lt_one_iff] at hk
    subst hk; simp [← h.1]
  | i :: j :: rest, h =>
    simp only [regularList] at h
    split at h
    · rename_i hc
      simp only [Option.some.injEq, Prod.mk.injEq] at h
      obtain ⟨rfl, rfl⟩ := h
      simp only [Bool.and_eq_true] at hc
      simpa using evenly_spec (i :: j :: rest) _ hc.2 k hk
    · simp at h


/-! ### linear ensemble axes: what holds and what is recorded -/

theorem sliceStart_of_inrange (a c : Option Int) (n : Nat) (hstep : c.getD 1 ≥ 1) (h0 : 0 ≤ a.getD 0) (hn : a.getD 0 ≤ n) :
    sliceStart a c n = a.getD 0 := by
  unfold sliceStart
  have : ¬ (c.getD 1 < 0) := by omega
  cases a with
  | none => simp [this]
  | some x =>
    have h0' : 0 ≤ x := by simpa using h0
    have hn' : x ≤ (n : Int) := by simpa using hn
    have e1 : ¬ (x < 0) := by omega
    simp only [this, decide_false, Bool.false_eq_true, if_false, e1, Option.getD_some]
    split
    · omega
    · rfl

/-- FORWARD SLICES of a linear axis (start written non-negative and inside the axis, step ≥ 1): the result is the linear axis
whose k-th coordinate is the coordinate of the k-th selected item. -/
theorem linear_forward_slice_coordinates (t : Int) (off samp : Rat) (a b c : Option Int) (n : Nat) (idx : List Nat)
    (hstep : c.getD 1 ≥ 1) (h0 : 0 ≤ a.getD 0) (hn : a.getD 0 ≤ n)
    (h : sliceIndices a b c n = .ok idx) (k : Nat) (hk : k < idx.length) :
    ∃ off' samp', axisGet (.linear t off samp) idx (some (a.getD 0, c.getD 1)) = .linear t off' samp' ∧
      coord off' samp' k = coord off samp (idx.getD k 0) := by
  refine ⟨off + (a.getD 0) * samp, samp * (c.getD 1), by simp [axisGet], ?_⟩
  have hi := sliceIndices_getD a b c n idx hstep h k hk
  rw [sliceStart_of_inrange a c n hstep h0 hn] at hi
  simp only [coord]
  have : ((idx.getD k 0 : Nat) : Rat) = ((a.getD 0 + k * c.getD 1 : Int) : Rat) := by
    rw [← hi]; simp
  rw [this]
  push_cast
  ring

/-! ### recorded defects of the current tree (negation witnesses; each states the recorded defect on the model and becomes
unprovable when the model is flipped to a repaired behaviour) -/

/-- RECORDED: a slice with a negative start (or a negative step) of a linear ensemble axis is a plain copy of the axis metadata:
`obj[-2:]` on a 3-item axis with coordinates 0, 1, 2 selects the items 1, 2 but the result axis still starts at 0. -/
theorem negative_start_slice_linear_axis_copied_counterexample :
    ¬ (∀ (o o' : Obj) (a b c : Option Int) (t : Int) (off samp off' samp' : Rat) (idx : List Nat),
        o.ens = [.linear t off samp] → getItems o [.slice a b c] false = .ok o' → o'.ens = [.linear t off' samp'] →
        sliceIndices a b c (o.shape.headD 0) = .ok idx →
        ∀ k, k < idx.length → coord off' samp' k = coord off samp (idx.getD k 0)) := by
  intro h
  have := h ⟨[.linear 7 0 1], 0, [3], [0, 1, 2], []⟩ ⟨[.linear 7 0 1], 0, [2], [1, 2], []⟩ (some (-2)) none none 7 0 1 0 1 [1, 2]
    rfl (by decide) rfl (by decide) 0 (by decide)
  revert this
  simp [coord]

/-- RECORDED: an index list on a linear ensemble axis is a plain copy of the axis metadata as well: `obj[[2, 0]]` selects the
items with coordinates 2, 0 but the result axis says 0, 1. -/
theorem index_list_linear_axis_copied_counterexample :
    ¬ (∀ (o o' : Obj) (l : List Int) (t : Int) (off samp off' samp' : Rat) (idx : List Nat),
        o.ens = [.linear t off samp] → getItems o [.list l] false = .ok o' → o'.ens = [.linear t off' samp'] →
        listIndices l (o.shape.headD 0) = .ok idx →
        ∀ k, k < idx.length → coord off' samp' k = coord off samp (idx.getD k 0)) := by
  intro h
  have := h ⟨[.linear 7 0 1], 0, [3], [0, 1, 2], []⟩ ⟨[.linear 7 0 1], 0, [2], [2, 0], []⟩ [2, 0] 7 0 1 0 1 [2, 0]
    rfl (by decide) rfl (by decide) 0 (by decide)
  revert this
  simp [coord]

/-! ### non-vacuity -/
example : getItems ⟨[.ordinal 1 [10, 20, 30], .other 5], 1, [3, 2, 2], (List.range 12).map Int.ofNat, []⟩
      [.int (-1), .slice none none (some 2)] false
    = .ok ⟨[.other 5], 1, [1, 2], [8, 9], [(1, 30)]⟩ := by rfl
example : (reduce ⟨[.ordinal 1 [10, 20]], 0, [2], [1, 2], []⟩ [0] true).toOption.map (fun o => (o.ens, o.shape, o.data))
    = some ([.other 1], [1], [3]) := by decide
example : (getItems ⟨[.other 1], 0, [3], [0, 1, 2], []⟩ [.int (-1)] true).toOption.map (fun o => (o.shape, o.data))
    = some ([1], [2]) := by decide

end AbtemVerif.Props.C29
