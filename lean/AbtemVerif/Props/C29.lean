/-
C29 — Array-object structural operations keep data and metadata aligned.

Statements are about the executable model `AbtemVerif.ArrObj` of `abtem.array.ArrayObject`'s structural
operations (hand model; every operation of the model is compared with the real method, eager and lazy, on
every run).  Quantifiers: every object (any ensemble axes, any base dims, any shape and data), every item
tuple / axis tuple.
-/
import AbtemVerif.Model.ArrayObject

namespace AbtemVerif.Props.C29
open AbtemVerif.ArrObj

/-- every object the constructor lets through is aligned (one axis-metadata entry per dimension, ordinal
axes have one value per item), and nothing else gets through -/
theorem check_ok_iff (o o' : Obj) : check o = .ok o' ↔ (WF o = true ∧ o' = o) := by
  unfold check
  by_cases h : WF o = true
  · simp [h, eq_comm]
  · simp [h]

/-! ### indexing -/

/-- slicing an ordinal axis and slicing the dimension use the same index list: the lengths agree -/
theorem ordinal_len_eq_dim (l : Int) (vs : List Int) (idx : List Nat) :
    axisGet (.ordinal l vs) idx = .ordinal l (idx.map fun i => vs.getD i 0) ∧
    (idx.map fun i => vs.getD i 0).length = idx.length := by
  simp [axisGet]

theorem axesFit_nil (as : List Axis) : axesFit as [] = true := by
  cases as <;> simp [axesFit]

/-- positions selected by `None` hold the inserted `UnknownAxis()` -/
def nonesUnknown : List Sel → List Axis → Bool
  | .newaxis :: ss, a :: as => (a == .unknown) && nonesUnknown ss as
  | _ :: ss, _ :: as => nonesUnknown ss as
  | _, _ => true

/-- the axes selected by the items fit the shape selected by the items (the heart of `get_items`): whatever the
resolved items are, if the axes and dimensions left over after the items are aligned, then the selected
metadata is aligned with the selected shape — ordinal axes are cut by the same index list as their dimension,
an integer removes both, `None` adds a length-1 dimension and an `UnknownAxis`. -/
theorem selectAxes_fit : (sels : List Sel) → (axes : List Axis) → (dims : List Nat) → (md : List (Int × Int)) →
    nonesUnknown sels axes = true →
    axesFit (axes.drop sels.length) (dims.drop (sels.filter (· != .newaxis)).length) = true →
    axesFit (selectAxes sels axes md).1 (selShape sels dims) = true
  | [], axes, dims, md, _, h => by simpa [selectAxes, selShape] using h
  | _ :: _, [], dims, md, _, _ => by simp [selectAxes, axesFit]
  | .drop i :: ss, a :: as, [], md, _, _ => by
      simp only [selectAxes, selShape]
      exact axesFit_nil _
  | .drop i :: ss, a :: as, n :: dims, md, hu, h => by
      simp only [selectAxes, selShape]
      apply selectAxes_fit ss as dims
      · simpa [nonesUnknown] using hu
      · simpa using h
  | .keep idx :: ss, a :: as, [], md, _, _ => by
      simp only [selectAxes, selShape]
      exact axesFit_nil _
  | .keep idx :: ss, a :: as, n :: dims, md, hu, h => by
      have ih := selectAxes_fit ss as dims md (by simpa [nonesUnknown] using hu) (by simpa using h)
      simp only [selectAxes, selShape]
      cases a with
      | ordinal l vs => simp [axisGet, axesFit, ih]
      | other t => simp [axisGet, axesFit, ih]
      | unknown => simp [axisGet, axesFit, ih]
  | .newaxis :: ss, a :: as, dims, md, hu, h => by
      simp only [nonesUnknown, Bool.and_eq_true, beq_iff_eq] at hu
      have ih := selectAxes_fit ss as dims md hu.2 (by simpa using h)
      simp only [selectAxes, selShape]
      rw [hu.1]
      simp [axesFit, ih]

/-- `resolve` and `expandNones` agree on where the `None`s are -/
theorem resolve_nonesUnknown : (items : List Item) → (dims : List Nat) → (ens : List Axis) → (sels : List Sel) →
    (items.filter (· != .none)).length ≤ ens.length →
    resolve items dims = .ok sels → nonesUnknown sels (expandNones items ens) = true
  | [], _, ens, sels, _, h => by
      simp [resolve] at h; subst h; cases ens <;> simp [nonesUnknown]
  | .none :: its, dims, ens, sels, hl, h => by
      simp only [resolve] at h
      cases hr : resolve its dims with
      | error e => simp [hr] at h
      | ok r =>
        simp [hr] at h; subst h
        simp [expandNones, nonesUnknown, resolve_nonesUnknown its dims ens r (by simpa using hl) hr]
  | .int i :: its, [], ens, sels, _, h => by simp [resolve] at h
  | .slice a b c :: its, [], ens, sels, _, h => by simp [resolve] at h
  | .list l :: its, [], ens, sels, _, h => by simp [resolve] at h
  | .ellipsis :: its, dims, ens, sels, _, h => by cases dims <;> simp [resolve] at h
  | .int i :: its, n :: dims, ens, sels, hl, h => by
      simp only [resolve] at h
      cases hi : intIndex i n with
      | error e => simp [hi] at h
      | ok j =>
        cases hr : resolve its dims with
        | error e => simp [hi, hr] at h
        | ok r =>
          simp [hi, hr] at h; subst h
          cases ens with
          | nil => simp at hl
          | cons a as => simp [expandNones, nonesUnknown, resolve_nonesUnknown its dims as r (by simpa using hl) hr]
  | .slice a b c :: its, n :: dims, ens, sels, hl, h => by
      simp only [resolve] at h
      cases hi : sliceIndices a b c n with
      | error e => simp [hi] at h
      | ok j =>
        cases hr : resolve its dims with
        | error e => simp [hi, hr] at h
        | ok r =>
          simp [hi, hr] at h; subst h
          cases ens with
          | nil => simp at hl
          | cons a as => simp [expandNones, nonesUnknown, resolve_nonesUnknown its dims as r (by simpa using hl) hr]
  | .list l :: its, n :: dims, ens, sels, hl, h => by
      simp only [resolve] at h
      cases hi : listIndices l n with
      | error e => simp [hi] at h
      | ok j =>
        cases hr : resolve its dims with
        | error e => simp [hi, hr] at h
        | ok r =>
          simp [hi, hr] at h; subst h
          cases ens with
          | nil => simp at hl
          | cons a as => simp [expandNones, nonesUnknown, resolve_nonesUnknown its dims as r (by simpa using hl) hr]

/-! ### refusals -/

/-- reducing over a base axis is refused (RuntimeError), whatever else is asked -/
theorem reduce_base_refused (o : Obj) (axes : List Int) (keepdims : Bool)
    (h : (axes.map fun a => if a ≥ 0 then a else a + (o.shape.length : Int)).any
      (fun a => a ≥ ((o.shape.length : Int) - o.baseDims) && a < (o.shape.length : Int)) = true) :
    reduce o axes keepdims = .error .runtime_error := by
  unfold reduce
  simp only [h, if_true]

/-- indexing with more (non-`None`) items than there are ensemble axes — i.e. into the base axes — is refused -/
theorem too_many_indices_refused (o : Obj) (items : List Item) (h1 : items.any (· == .ellipsis) = false)
    (h2 : (items.filter (· != .none)).length > o.shape.length - o.baseDims) :
    getItems o items false = .error .runtime_error := by
  unfold getItems validateItems
  simp [h1, h2]

/-- `Ellipsis` is rejected -/
theorem ellipsis_refused (o : Obj) (items : List Item) (h1 : items.any (· == .ellipsis) = true) :
    getItems o items false = .error .not_implemented := by
  unfold getItems validateItems
  simp [h1]

/-- every successful result of the four operations is aligned (the constructor check is the last step of each) -/
theorem getItems_aligned (o o' : Obj) (items : List Item) (k : Bool) (h : getItems o items k = .ok o') : WF o' = true := by
  simp only [getItems] at h
  split at h
  · simp at h
  · split at h
    · simp at h
    · split at h
      · simp at h
      · exact ((check_ok_iff _ _).mp h).2 ▸ ((check_ok_iff _ _).mp h).1

/-! ### recorded defects of the current tree (negation witnesses, replayed by the harness) -/

/-- F15: `sum(axis, keepdims=True)` over an ordinal axis with more than one item raises instead of returning the
NumPy-shaped result with one axis-metadata entry per dimension -/
def failsRuntime (r : Except Err Obj) : Bool :=
  match r with
  | .error .runtime_error => true
  | _ => false

theorem reduce_keepdims_ordinal_counterexample :
    ¬ (∀ (o : Obj) (axes : List Int), WF o = true → failsRuntime (reduce o axes false) = false →
        failsRuntime (reduce o axes true) = false) := by
  intro h
  have := h ⟨[.ordinal 1 [10, 20]], 0, [2], [1, 2], []⟩ [0] (by decide) (by decide)
  revert this
  decide

/-- `get_items(-1, keepdims=True)` turns `-1` into `slice(-1, 0)`: nothing is selected -/
theorem keepdims_minus_one_counterexample :
    ¬ (∀ (o o' : Obj) (i : Int), getItems o [.int i] true = .ok o' → o'.shape.head? = some 1) := by
  intro h
  have := h ⟨[.other 1], 0, [3], [0, 1, 2], []⟩ _ (-1) rfl
  revert this
  decide

/-- `expand_dims((2, 0))`: the metadata entries are inserted one after the other, so the first one moves -/
theorem expand_dims_unsorted_counterexample :
    ¬ (∀ (o o' : Obj) (axes : List Int) (new : List Axis), expandDims o axes new = .ok o' →
        ∀ p ∈ axes, 0 ≤ p → o'.ens.getD p.toNat .unknown ∈ new) := by
  intro h
  have := h ⟨[.other 1, .other 2], 0, [2, 3], [0, 1, 2, 3, 4, 5], []⟩ _ [2, 0] [.other 8, .other 9] rfl 2 (by decide) (by decide)
  revert this
  decide

/-! ### non-vacuity -/
example : getItems ⟨[.ordinal 1 [10, 20, 30], .other 5], 1, [3, 2, 2], (List.range 12).map Int.ofNat, []⟩
      [.int (-1), .slice none none (some 2)] false
    = .ok ⟨[.other 5], 1, [1, 2], [8, 9], [(1, 30)]⟩ := by rfl

end AbtemVerif.Props.C29
