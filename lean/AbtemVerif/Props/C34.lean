/-
C34 — Temporary configuration changes are always undone.

Statements are about the executable model `AbtemVerif.Config` of
`abtem/core/config.py :: set` (hand model, tied to the source by differential
correspondence on every run).  Quantifiers: every configuration tree, every list of
assignments (any keys, any nesting depth, hyphen/underscore aliases, dict values), every
script nesting `with set(...)` contexts with sequencing, user exceptions and try/except.
"Exactly what it was" is equality of insertion-ordered association lists, i.e. key order too.
-/
import AbtemVerif.Model.Config

namespace AbtemVerif.Props.C34
open AbtemVerif.Config

/-! ### insertion-ordered dict lemmas -/

theorem put_put {β} (d : List (Key × β)) (k : Key) (v w : β) : put (put d k v) k w = put d k w := by
  induction d with
  | nil => simp [put]
  | cons h t ih =>
    obtain ⟨k', v'⟩ := h
    by_cases hk : k' = k
    · simp [put, hk]
    · simp [put, hk, ih]

theorem lookup_put_self {β} (d : List (Key × β)) (k : Key) (v : β) : lookup (put d k v) k = some v := by
  induction d with
  | nil => simp [put, lookup]
  | cons h t ih =>
    obtain ⟨k', v'⟩ := h
    by_cases hk : k' = k
    · simp [put, lookup, hk]
    · simp [put, lookup, hk, ih]

theorem put_lookup_self {β} (d : List (Key × β)) (k : Key) (v : β) (h : lookup d k = some v) : put d k v = d := by
  induction d with
  | nil => simp [lookup] at h
  | cons hd t ih =>
    obtain ⟨k', v'⟩ := hd
    by_cases hk : k' = k
    · simp [lookup, hk] at h; simp [put, hk, h]
    · simp [lookup, hk] at h; simp [put, hk, ih h]

theorem erase_put_new {β} (d : List (Key × β)) (k : Key) (v : β) (h : lookup d k = none) : erase (put d k v) k = d := by
  induction d with
  | nil => simp [put, erase]
  | cons hd t ih =>
    obtain ⟨k', v'⟩ := hd
    by_cases hk : k' = k
    · simp [lookup, hk] at h
    · simp [lookup, hk] at h; simp [put, erase, hk, ih h]

/-! ### one assignment and its rollback record -/

/-- The record appended by one `_assign` undoes exactly that assignment: `__exit__`'s body for the
record, applied to the dictionary after the assignment, gives back the dictionary before it
(all key paths, all depths, existing or new keys, aliases resolved by `canonical_name`). -/
theorem assign_undo (ks : List Key) (v : Val) (d d' : Dict) (r : Record)
    (h : assign ks v d = .ok (d', r)) : undo r d' = .ok d := by
  induction ks generalizing d d' r with
  | nil => simp [assign] at h
  | cons k rest ih =>
    cases rest with
    | nil =>
      simp only [assign] at h
      split at h
      · rename_i old hl
        simp only [Except.ok.injEq, Prod.mk.injEq] at h
        obtain ⟨rfl, rfl⟩ := h
        simp [undo, undoReplace, put_put, put_lookup_self _ _ _ hl]
      · rename_i hl
        simp only [Except.ok.injEq, Prod.mk.injEq] at h
        obtain ⟨rfl, rfl⟩ := h
        simp [undo, undoInsert, erase_put_new _ _ _ hl]
    | cons k2 ks =>
      simp only [assign] at h
      split at h
      · rename_i hl
        simp only [Except.ok.injEq, Prod.mk.injEq] at h
        obtain ⟨rfl, rfl⟩ := h
        simp [undo, undoInsert, erase_put_new _ _ _ hl]
      · rename_i sub hl
        split at h
        · rename_i sub' r' hrec
          simp only [Except.ok.injEq, Prod.mk.injEq] at h
          obtain ⟨rfl, rfl⟩ := h
          have := ih sub sub' r' hrec
          -- the recorded path of the inner call is never empty
          cases hop : r'.op with
          | replace =>
            simp only [undo, hop] at this ⊢
            cases hp : r'.path with
            | nil => simp [hp, undoReplace] at this
            | cons p ps =>
              simp only [hp] at this
              simp [undoReplace, lookup_put_self, this, put_put, put_lookup_self _ _ _ hl]
          | insert =>
            simp only [undo, hop] at this ⊢
            cases hp : r'.path with
            | nil => simp [hp, undoInsert] at this
            | cons p ps =>
              simp only [hp] at this
              simp [undoInsert, lookup_put_self, this, put_put, put_lookup_self _ _ _ hl]
        · simp at h
      · simp at h

/-! ### a whole `set(...)`: all assignments, then `__exit__` -/

theorem exitAll_append (a b : List Record) (d : Dict) :
    exitAll (a ++ b) d = match exitAll a d with
      | (d', none) => exitAll b d'
      | (d', some e) => (d', some e) := by
  induction a generalizing d with
  | nil => simp [exitAll]
  | cons r rs ih =>
    simp only [List.cons_append, exitAll]
    cases undo r d with
    | ok d1 => simp [ih]
    | error e => simp

/-- Whatever happens in the assignment loop of `set.__init__` (all succeed, or one raises after some
succeeded), replaying the records made so far in reverse on the configuration reached restores the
configuration the loop started from, and the replay does not raise. -/
theorem assignAll_exit_restores (as : List (List Key × Val)) (d d' : Dict) (rs : List Record) (e : Option Err)
    (h : assignAll as d = (d', rs, e)) : exitAll rs.reverse d' = (d, none) := by
  induction as generalizing d d' rs e with
  | nil => simp [assignAll] at h; obtain ⟨rfl, rfl, _⟩ := h; simp [exitAll]
  | cons a rest ih =>
    obtain ⟨ks, v⟩ := a
    simp only [assignAll] at h
    cases ha : assign ks v d with
    | error e1 =>
      simp only [ha, Prod.mk.injEq] at h
      obtain ⟨rfl, rfl, _⟩ := h
      simp [exitAll]
    | ok p =>
      obtain ⟨d1, r⟩ := p
      simp only [ha] at h
      cases hr : assignAll rest d1 with
      | mk d2 q =>
        obtain ⟨rs2, e2⟩ := q
        simp only [hr, Prod.mk.injEq] at h
        obtain ⟨rfl, rfl, _⟩ := h
        have h1 := ih d1 d2 rs2 e2 hr
        have h2 := assign_undo ks v d d1 r ha
        simp [List.reverse_cons, exitAll_append, h1, exitAll, h2]

/-- A `set(...)` that is constructed successfully and then exited (nothing else touching the configuration
in between) leaves the configuration exactly as it was; `__exit__` does not raise. -/
theorem exit_restores (as : List (List Key × Val)) (d d' : Dict) (rs : List Record)
    (h : init as d = (d', rs, none)) : exitAll rs.reverse d' = (d, none) := by
  unfold init at h
  cases ha : assignAll as d with
  | mk d1 q =>
    obtain ⟨rs1, e1⟩ := q
    rw [ha] at h
    cases e1 with
    | none =>
      simp only [Prod.mk.injEq] at h
      obtain ⟨rfl, rfl, _⟩ := h
      exact assignAll_exit_restores as d d1 rs1 none ha
    | some e =>
      have := assignAll_exit_restores as d d1 rs1 (some e) ha
      simp [this] at h

/-- A `set(...)` whose constructor raises leaves the configuration exactly as it was (the fixed
`__init__` rolls back the assignments already made), and the exception is the one of the failing assignment. -/
theorem failed_init_restores (as : List (List Key × Val)) (d d' : Dict) (rs : List Record) (e : Err)
    (h : init as d = (d', rs, some e)) : d' = d ∧ (assignAll as d).2.2 = some e := by
  unfold init at h
  cases ha : assignAll as d with
  | mk d1 q =>
    obtain ⟨rs1, e1⟩ := q
    rw [ha] at h
    cases e1 with
    | none => simp at h
    | some e0 =>
      have := assignAll_exit_restores as d d1 rs1 (some e0) ha
      simp only [this, Prod.mk.injEq] at h
      obtain ⟨rfl, _, h3⟩ := h
      exact ⟨rfl, by simpa using h3⟩

/-! ### any nesting of contexts, with sequencing, exceptions and try/except -/

/-- THE PROPERTY.  For every script that touches the configuration only through `set` contexts — any
nesting depth, any assignments (new or existing, flat or nested keys, aliases, dict values, assignments
that raise inside the constructor), bodies that raise, bodies that catch — and every starting
configuration: after the script (left normally or through an exception) the configuration is exactly the
starting one, keys that did not exist before included (they are gone) and key order included. -/
theorem run_restores (s : Script) (hs : s.setOnly = true) (st : St) : (run s st).1.cfg = st.cfg := by
  induction s generalizing st with
  | snap => simp [run]
  | raise => simp [run]
  | poke k v => simp [Script.setOnly] at hs
  | del k => simp [Script.setOnly] at hs
  | seq a b iha ihb =>
    simp only [Script.setOnly, Bool.and_eq_true] at hs
    simp only [run]
    cases hra : run a st with
    | mk st1 o =>
      have h1 := iha hs.1 st
      rw [hra] at h1
      cases o with
      | none => simp only; rw [ihb hs.2 st1]; exact h1
      | some e => simpa using h1
  | withSet as body ih =>
    simp only [Script.setOnly] at hs
    simp only [run]
    cases hi : init as st.cfg with
    | mk c1 q =>
      obtain ⟨recs, e⟩ := q
      cases e with
      | some e => simp only; exact (failed_init_restores as st.cfg c1 recs e hi).1
      | none =>
        simp only
        cases hb : run body { st with cfg := c1 } with
        | mk st2 out =>
          have h2 := ih hs { st with cfg := c1 }
          rw [hb] at h2
          simp only at h2
          have h3 := exit_restores as st.cfg c1 recs hi
          simp only [h2, h3]
  | tryCatch body ih =>
    simp only [Script.setOnly] at hs
    simp only [run]
    cases hb : run body st with
    | mk st1 o =>
      have := ih hs st
      rw [hb] at this
      simpa using this
  | reenter as body after ihb iha =>
    simp only [Script.setOnly, Bool.and_eq_true] at hs
    simp only [run]
    cases hi : init as st.cfg with
    | mk c1 q =>
      obtain ⟨recs, e⟩ := q
      cases e with
      | some e => simp only; exact (failed_init_restores as st.cfg c1 recs e hi).1
      | none =>
        simp only
        have h3 := exit_restores as st.cfg c1 recs hi
        cases hb : run body { st with cfg := c1 } with
        | mk sti outi =>
          have h2 := ihb hs.1 { st with cfg := c1 }
          rw [hb] at h2
          simp only at h2
          cases outi with
          | some e => simp only [h2, h3]
          | none =>
            simp only
            cases ha : run after sti with
            | mk sta outa =>
              have h4 := iha hs.2 sti
              rw [ha] at h4
              simp only at h4
              rw [h4, h2, h3]

/-- A `set` object entered again inside its own block (after fix bb7ca322): when the INNER block is left the configuration is
what it was when the inner block was entered — the inner `__exit__` does not roll anything back. -/
theorem reenter_inner_exit_restores (body : Script) (hb : body.setOnly = true) (st : St) (c1 : Dict) :
    (run body { st with cfg := c1 }).1.cfg = c1 :=
  run_restores body hb { st with cfg := c1 }

/-- Nested contexts in particular: inside any stack of outer contexts and after any prefix, leaving an
inner context restores what the inner context found (instance of `run_restores` at the inner script). -/
theorem nested_restores (outer inner : List (List Key × Val)) (body : Script) (hb : body.setOnly = true) (st : St) :
    (run (.withSet outer (.withSet inner body)) st).1.cfg = st.cfg :=
  run_restores _ (by simpa [Script.setOnly] using hb) st

/-- `__exit__` never raises in such scripts: the AttributeError branches of `__exit__` (model: `other_error`)
are unreachable, so the only exceptions that leave a script are the user's and the TypeError/IndexError of a
`set(...)` constructor. -/
theorem assign_no_other_error (ks : List Key) (v : Val) (d : Dict) : assign ks v d ≠ .error .other_error := by
  induction ks generalizing d with
  | nil => simp [assign]
  | cons k rest ih =>
    cases rest with
    | nil => simp only [assign]; split <;> simp
    | cons k2 ks =>
      simp only [assign]
      split
      · simp
      · rename_i sub _
        have := ih sub
        split
        · simp
        · rename_i e he
          intro h
          simp only [Except.error.injEq] at h
          subst h
          exact this he
      · simp

theorem assignAll_no_other_error (as : List (List Key × Val)) (d : Dict) : (assignAll as d).2.2 ≠ some .other_error := by
  induction as generalizing d with
  | nil => simp [assignAll]
  | cons a rest ih =>
    obtain ⟨ks, v⟩ := a
    simp only [assignAll]
    cases ha : assign ks v d with
    | error e =>
      simp only
      intro h
      simp only [Option.some.injEq] at h
      subst h
      exact assign_no_other_error ks v d ha
    | ok p =>
      obtain ⟨d1, r⟩ := p
      simp only
      exact ih d1

/-- `__exit__` NEVER raises in such scripts — not the AttributeError branches and not the TypeError ones either: every
`exitAll` call made while the script runs returns without an exception (so the only exceptions that leave a script are the
user's and those of a `set(...)` constructor). -/
theorem exit_never_raises (s : Script) (hs : s.setOnly = true) (st : St) : exitRaises s st = false := by
  induction s generalizing st with
  | snap => rfl
  | raise => rfl
  | poke k v => simp [Script.setOnly] at hs
  | del k => simp [Script.setOnly] at hs
  | seq a b iha ihb =>
    simp only [Script.setOnly, Bool.and_eq_true] at hs
    simp only [exitRaises, iha hs.1 st, Bool.false_or]
    cases hra : run a st with
    | mk st1 o =>
      cases o with
      | none => exact ihb hs.2 st1
      | some e => rfl
  | withSet as body ih =>
    simp only [Script.setOnly] at hs
    simp only [exitRaises]
    cases hi : init as st.cfg with
    | mk c1 q =>
      obtain ⟨recs, e⟩ := q
      cases e with
      | some e => rfl
      | none =>
        simp only [ih hs, Bool.false_or]
        have h2 := run_restores body hs { st with cfg := c1 }
        simp only at h2
        rw [h2, exit_restores as st.cfg c1 recs hi]
        rfl
  | tryCatch body ih =>
    simp only [Script.setOnly] at hs
    simp only [exitRaises]
    exact ih hs st
  | reenter as body after ihb iha =>
    simp only [Script.setOnly, Bool.and_eq_true] at hs
    simp only [exitRaises]
    cases hi : init as st.cfg with
    | mk c1 q =>
      obtain ⟨recs, e⟩ := q
      cases e with
      | some e => rfl
      | none =>
        simp only [ihb hs.1, Bool.false_or]
        have h3 := exit_restores as st.cfg c1 recs hi
        cases hb : run body { st with cfg := c1 } with
        | mk sti outi =>
          have h2 := run_restores body hs.1 { st with cfg := c1 }
          rw [hb] at h2
          simp only at h2
          cases outi with
          | some e => simp only [h2, h3]; rfl
          | none =>
            simp only [iha hs.2 sti, Bool.false_or]
            have h4 := run_restores after hs.2 sti
            rw [h4, h2, h3]
            rfl

/-! ### the contexts are not vacuous: inside the context the value is set -/

/-- After a successful `_assign`, reading the recorded (canonical) path gives the assigned value — nested
under the remaining keys when the record is the insertion of a missing intermediate dictionary. -/
theorem assign_takes_effect (ks : List Key) (v : Val) (d d' : Dict) (r : Record)
    (h : assign ks v d = .ok (d', r)) :
    getPath r.path d' = some (nest (ks.drop r.path.length) v) := by
  induction ks generalizing d d' r with
  | nil => simp [assign] at h
  | cons k rest ih =>
    cases rest with
    | nil =>
      simp only [assign] at h
      split at h <;>
      · simp only [Except.ok.injEq, Prod.mk.injEq] at h
        obtain ⟨rfl, rfl⟩ := h
        simp [getPath, lookup_put_self, nest]
    | cons k2 ks =>
      simp only [assign] at h
      split at h
      · simp only [Except.ok.injEq, Prod.mk.injEq] at h
        obtain ⟨rfl, rfl⟩ := h
        simp [getPath, lookup_put_self]
      · rename_i sub hl
        split at h
        · rename_i sub' r' hrec
          simp only [Except.ok.injEq, Prod.mk.injEq] at h
          obtain ⟨rfl, rfl⟩ := h
          have h1 := ih sub sub' r' hrec
          cases hp : r'.path with
          | nil => simp [hp, getPath] at h1
          | cons p ps =>
            rw [hp] at h1
            simp [getPath, lookup_put_self, h1]
        · simp at h
      · simp at h

/-! ### non-vacuity: concrete runs of the model -/

/-- new flat key, new nested key and replaced key; the body raises; everything is restored -/
example : (run (.withSet [(["b"], .num 7), (["n", "m"], .num 1), (["a"], .str "x")] (.seq .snap .raise))
    ⟨[("a", .num 1), ("b", .dict [])], []⟩).1.cfg = [("a", .num 1), ("b", .dict [])] :=
  run_restores _ rfl _

/-- the hypothesis of `exit_restores` is satisfiable, and the context really changes the configuration -/
example : ∃ d' rs, init [(["a"], .num 7), (["b", "z"], .num 1)] [("a", .num 1), ("b", .dict [("z", .num 0)])] = (d', rs, none)
    ∧ getPath ["a"] d' = some (.num 7) ∧ getPath ["b", "z"] d' = some (.num 1) :=
  ⟨_, _, rfl, rfl, rfl⟩

/-- the hypothesis of `failed_init_restores` is satisfiable (second assignment goes through the number `b`) -/
example : (init [(["a"], .num 7), (["b", "z"], .num 1)] [("a", .num 1), ("b", .num 2)]).2.2 = some .type_error := by
  decide

/-- direct writes in a body are outside the theorem for a reason: `__exit__` then may not restore -/
example : ∃ st, (run (.withSet [(["a", "x"], .num 1)] (.poke "a" (.num 5))) st).1.cfg ≠ st.cfg := by
  refine ⟨⟨[("a", .dict [("x", .num 0)])], []⟩, ?_⟩
  intro h
  have := congrArg (fun d => match lookup d "a" with | some (.num n) => n | _ => 0) h
  revert this
  decide

end AbtemVerif.Props.C34
