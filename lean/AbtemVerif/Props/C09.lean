/-
C09 — The independent-atom potential is additive and slicing conserves it.

Exact-rational theorems about `AbtemVerif.Slicing` (Model/Slicing.lean), whose arithmetic expressions — number of
slices `nSlices`, slice thickness `sliceThk`, repetition count `sliceCount`, bin-edge nudge `nudgeEps`, snap condition
`snapCond` — are the *generated* definitions of `Gen/Slicing.lean` (regenerated from abtem/slicing.py and
abtem/potentials/iam.py on every run).  Quantifiers: all cell heights, all positive thickness sequences, all atom heights
(incl. boundary positions), all atom sets; the per-species Fourier multiplier and the delta superposition enter the
additivity theorems as arbitrary additive maps.
-/
import AbtemVerif.Model.Slicing
import Mathlib.Data.Rat.Floor
import Mathlib.Tactic.Linarith
import Mathlib.Tactic.FieldSimp
import Mathlib.Tactic.Ring
import Mathlib.Tactic.NormNum
import Mathlib.Algebra.BigOperators.Group.List.Basic
import Mathlib.Algebra.Group.Hom.Defs
import Mathlib.Data.List.Dedup

namespace AbtemVerif.Props.C09
open AbtemVerif.Slicing AbtemVerif.Py AbtemVerif.Gen.Slicing

/-! ### scalar slice thickness -/


lemma pyInt_intCast (i : Int) : pyInt (i : Rat) = i := by
  unfold pyInt; split <;> simp [Rat.floor_intCast, Rat.ceil_intCast]

lemma listSum_replicate (k : Nat) (x : Rat) : listSum (List.replicate k x) = k * x := by
  induction k with
  | zero => simp [listSum]
  | succ k ih => rw [List.replicate_succ, listSum, ih]; push_cast; ring

lemma nSlices_pos (H d : Rat) (hH : 0 < H) (hd : 0 < d) : 0 < nSlices H d := by
  unfold nSlices pyCeil
  rw [Rat.lt_ceil_iff]
  simpa using div_pos hH hd

theorem scalar_thickness_sum (H d : Rat) (hH : 0 < H) (hd : 0 < d) :
    listSum (List.replicate (sliceCount H d).toNat (sliceThk H d)) = H := by
  have hn := nSlices_pos H d hH hd
  unfold nSlices at hn
  unfold sliceCount sliceThk
  rw [pyInt_intCast, listSum_replicate]
  have h1 : (((pyCeil (H / d)).toNat : Nat) : Rat) = ((pyCeil (H / d) : Int) : Rat) := by
    have : ((pyCeil (H / d)).toNat : Int) = pyCeil (H / d) := Int.toNat_of_nonneg (le_of_lt hn)
    exact_mod_cast this
  rw [h1]
  have h2 : ((pyCeil (H / d) : Int) : Rat) ≠ 0 := by
    have : (0 : Rat) < ((pyCeil (H / d) : Int) : Rat) := by exact_mod_cast hn
    exact ne_of_gt this
  field_simp

/-! ### slice labels -/

/-- number of nudged edges `≤ z` of the cumulative sums started at `acc` -/
def L (ε acc : Rat) (ts : List Rat) (z : Rat) : Nat := digitize ((cumsumFrom acc ts).map (· - ε)) z

lemma L_nil (ε acc z : Rat) : L ε acc [] z = 0 := rfl

lemma L_cons (ε acc t : Rat) (ts : List Rat) (z : Rat) :
    L ε acc (t :: ts) z = (if acc + t - ε ≤ z then 1 else 0) + L ε (acc + t) ts z := by
  unfold L digitize
  simp only [cumsumFrom, List.map_cons, List.filter_cons]
  split <;> simp_all <;> omega

lemma listSum_nonneg (ts : List Rat) (h : ∀ t ∈ ts, 0 < t) : 0 ≤ listSum ts := by
  induction ts with
  | nil => simp [listSum]
  | cons t ts ih =>
    have := ih (fun x hx => h x (by simp [hx]))
    have := h t (by simp)
    simp only [listSum]; linarith

lemma L_zero_of_lt (ε acc : Rat) (ts : List Rat) (z : Rat) (h : ∀ t ∈ ts, 0 < t) (hz : z < acc - ε) :
    L ε acc ts z = 0 := by
  induction ts generalizing acc with
  | nil => rfl
  | cons t ts ih =>
    have ht := h t (by simp)
    rw [L_cons, if_neg (by linarith), ih (acc + t) (fun x hx => h x (by simp [hx])) (by linarith)]

lemma L_all_of_ge (ε acc : Rat) (ts : List Rat) (z : Rat) (h : ∀ t ∈ ts, 0 < t) (hz : acc + listSum ts - ε ≤ z) :
    L ε acc ts z = ts.length := by
  induction ts generalizing acc with
  | nil => rfl
  | cons t ts ih =>
    have hs := listSum_nonneg ts (fun x hx => h x (by simp [hx]))
    simp only [listSum] at hz
    rw [L_cons, if_pos (by linarith), ih (acc + t) (fun x hx => h x (by simp [hx])) (by linarith)]
    simp; omega

lemma L_lt_length (ε acc : Rat) (ts : List Rat) (z : Rat) (h : ∀ t ∈ ts, 0 < t) (hne : ts ≠ [])
    (hz : z < acc + listSum ts - ε) : L ε acc ts z < ts.length := by
  induction ts generalizing acc with
  | nil => exact absurd rfl hne
  | cons t ts ih =>
    simp only [listSum] at hz
    rw [L_cons]
    by_cases hts : ts = []
    · subst hts
      simp only [listSum] at hz
      rw [if_neg (by linarith), L_nil]; simp
    · by_cases h1 : acc + t - ε ≤ z
      · rw [if_pos h1]
        have := ih (acc + t) (fun x hx => h x (by simp [hx])) hts (by linarith)
        simp; omega
      · rw [if_neg h1, L_zero_of_lt ε (acc + t) ts z (fun x hx => h x (by simp [hx])) (by linarith)]
        simp

lemma cumsumFrom_append (acc : Rat) (a b : List Rat) :
    cumsumFrom acc (a ++ b) = cumsumFrom acc a ++ cumsumFrom (acc + listSum a) b := by
  induction a generalizing acc with
  | nil => simp [cumsumFrom, listSum]
  | cons t a ih => simp only [List.cons_append, cumsumFrom, listSum, ih (acc + t)]; rw [add_assoc]

lemma L_append (ε acc : Rat) (a b : List Rat) (z : Rat) :
    L ε acc (a ++ b) z = L ε acc a z + L ε (acc + listSum a) b z := by
  unfold L digitize
  rw [cumsumFrom_append, List.map_append, List.filter_append, List.length_append]

/-- number of edges `≤ z`, the last edge not nudged -/
def L' (ε acc : Rat) (ts : List Rat) (z : Rat) : Nat := digitize (nudgeInit ε (cumsumFrom acc ts)) z

lemma L'_single (ε acc t z : Rat) : L' ε acc [t] z = if acc + t ≤ z then 1 else 0 := by
  unfold L' digitize
  simp only [cumsumFrom, nudgeInit, List.filter_cons, List.filter_nil]
  split <;> simp_all

lemma L'_cons2 (ε acc t t' : Rat) (rest : List Rat) (z : Rat) :
    L' ε acc (t :: t' :: rest) z = (if acc + t - ε ≤ z then 1 else 0) + L' ε (acc + t) (t' :: rest) z := by
  unfold L' digitize
  simp only [cumsumFrom, nudgeInit, List.filter_cons]
  split <;> simp_all <;> omega

lemma L'_zero_of_lt (ε acc : Rat) (ts : List Rat) (z : Rat) (hε : 0 ≤ ε) (h : ∀ t ∈ ts, 0 < t) (hz : z < acc - ε) :
    L' ε acc ts z = 0 := by
  induction ts generalizing acc with
  | nil => rfl
  | cons t ts ih =>
    have ht := h t (by simp)
    cases ts with
    | nil => rw [L'_single, if_neg (by linarith)]
    | cons t' rest =>
      rw [L'_cons2, if_neg (by linarith), ih (acc + t) (fun x hx => h x (by simp [hx])) (by linarith)]

lemma L'_all_of_ge (ε acc : Rat) (ts : List Rat) (z : Rat) (hε : 0 ≤ ε) (h : ∀ t ∈ ts, 0 < t) (hz : acc + listSum ts ≤ z) :
    L' ε acc ts z = ts.length := by
  induction ts generalizing acc with
  | nil => rfl
  | cons t ts ih =>
    have hs := listSum_nonneg ts (fun x hx => h x (by simp [hx]))
    simp only [listSum] at hz
    cases ts with
    | nil => simp only [listSum] at hz; rw [L'_single, if_pos (by linarith)]; rfl
    | cons t' rest =>
      rw [L'_cons2, if_pos (by linarith), ih (acc + t) (fun x hx => h x (by simp [hx])) (by linarith)]
      simp; omega

lemma L'_lt_length (ε acc : Rat) (ts : List Rat) (z : Rat) (hε : 0 ≤ ε) (h : ∀ t ∈ ts, 0 < t) (hne : ts ≠ [])
    (hz : z < acc + listSum ts) : L' ε acc ts z < ts.length := by
  induction ts generalizing acc with
  | nil => exact absurd rfl hne
  | cons t ts ih =>
    simp only [listSum] at hz
    cases ts with
    | nil => simp only [listSum] at hz; rw [L'_single, if_neg (by linarith)]; simp
    | cons t' rest =>
      rw [L'_cons2]
      by_cases h1 : acc + t - ε ≤ z
      · rw [if_pos h1]
        have := ih (acc + t) (fun x hx => h x (by simp [hx])) (by simp) (by linarith)
        simp at this ⊢; omega
      · rw [if_neg h1, L'_zero_of_lt ε (acc + t) _ z hε (fun x hx => h x (by simp [hx])) (by linarith)]
        simp

lemma nudgeInit_append (ε : Rat) (a b : List Rat) (hb : b ≠ []) :
    nudgeInit ε (a ++ b) = a.map (· - ε) ++ nudgeInit ε b := by
  induction a with
  | nil => rfl
  | cons x a ih =>
    cases hab : a ++ b with
    | nil => simp at hab; exact absurd hab.2 hb
    | cons y rest =>
      rw [List.cons_append, hab, nudgeInit, ← hab, ih]
      rfl

lemma cumsumFrom_ne_nil (acc : Rat) (ts : List Rat) (h : ts ≠ []) : cumsumFrom acc ts ≠ [] := by
  cases ts with
  | nil => exact absurd rfl h
  | cons t ts => simp [cumsumFrom]

lemma L'_append (ε acc : Rat) (a b : List Rat) (z : Rat) (hb : b ≠ []) :
    L' ε acc (a ++ b) z = L ε acc a z + L' ε (acc + listSum a) b z := by
  unfold L' L digitize
  rw [cumsumFrom_append, nudgeInit_append ε _ _ (cumsumFrom_ne_nil _ b hb), List.filter_append, List.length_append]

/-- complete description of the label with the last edge at the cell top -/
lemma L'_eq_of_mem_window (ε : Rat) (hε : 0 ≤ ε) (pre post : List Rat) (t z : Rat) (h : ∀ x ∈ pre ++ t :: post, 0 < x)
    (hlo : listSum pre - ε ≤ z) (hhi : z < listSum pre + t - (if post = [] then 0 else ε)) :
    L' ε 0 (pre ++ t :: post) z = pre.length := by
  have hpre : ∀ x ∈ pre, 0 < x := fun x hx => h x (by simp [hx])
  have hpost : ∀ x ∈ post, 0 < x := fun x hx => h x (by simp [hx])
  rw [L'_append ε 0 pre (t :: post) z (by simp), L_all_of_ge _ _ _ _ hpre (by linarith)]
  cases post with
  | nil =>
    simp only [if_true, sub_zero] at hhi
    rw [L'_single, if_neg (by linarith)]; simp
  | cons p post' =>
    simp only [List.cons_ne_nil, if_false] at hhi
    rw [L'_cons2, if_neg (by linarith), L'_zero_of_lt ε _ _ z hε hpost (by linarith)]; simp

lemma nondecreasing_nudgeInit (ε acc : Rat) (hε : 0 ≤ ε) (ts : List Rat) (h : ∀ t ∈ ts, 0 < t) :
    nondecreasing (nudgeInit ε (cumsumFrom acc ts)) = true := by
  induction ts generalizing acc with
  | nil => rfl
  | cons t ts ih =>
    cases ts with
    | nil => rfl
    | cons t' rest =>
      have ht' := h t' (by simp)
      have := ih (acc + t) (fun x hx => h x (by simp [hx]))
      cases rest with
      | nil =>
        simp only [cumsumFrom, nudgeInit, nondecreasing, Bool.and_eq_true, decide_eq_true_eq, and_true]
        linarith
      | cons t'' rest' =>
        simp only [cumsumFrom, nudgeInit, nondecreasing, Bool.and_eq_true, decide_eq_true_eq] at this ⊢
        exact ⟨by linarith, this⟩

lemma nudgeEps_nonneg : (0 : Rat) ≤ nudgeEps := by unfold nudgeEps; norm_num

lemma label_eq_L (ts : List Rat) (z : Rat) : label ts z = L' nudgeEps 0 ts z := rfl

/-- complete description of the slice label: the atom belongs to the slice whose window contains it — `[c_(k-1) − ε, c_k − ε)` for
every slice but the last, `[c_(n-2) − ε, H)` for the last one (the last edge, the cell top, is not nudged: fix 55e68782) -/
theorem label_eq_of_mem_window (pre post : List Rat) (t z : Rat) (h : ∀ x ∈ pre ++ t :: post, 0 < x)
    (hlo : listSum pre - nudgeEps ≤ z) (hhi : z < listSum pre + t - (if post = [] then 0 else nudgeEps)) :
    label (pre ++ t :: post) z = pre.length := by
  rw [label_eq_L]
  exact L'_eq_of_mem_window nudgeEps nudgeEps_nonneg pre post t z h hlo hhi

/-- an atom has a slice iff it lies below the cell top -/
theorem label_lt_iff (ts : List Rat) (z : Rat) (h : ∀ t ∈ ts, 0 < t) (hne : ts ≠ []) :
    label ts z < ts.length ↔ z < listSum ts := by
  constructor
  · intro hl
    by_contra hz
    have := L'_all_of_ge nudgeEps 0 ts z nudgeEps_nonneg h (by linarith)
    rw [label_eq_L, this] at hl
    exact lt_irrefl _ hl
  · intro hz
    exact L'_lt_length nudgeEps 0 ts z nudgeEps_nonneg h hne (by linarith)

/-! snap / wrap -/
theorem snap_covers_dropped (H z : Rat) (h : H - nudgeEps ≤ z) : snapCond z H = true := by
  unfold snapCond nudgeEps at *
  simp only [decide_eq_true_eq]
  linarith

theorem wrapZ_range (H z : Rat) (hH : 0 < H) : 0 ≤ wrapZ H z ∧ wrapZ H z < H := by
  unfold wrapZ
  have h1 : (((z / H).floor : Int) : Rat) ≤ z / H := Int.floor_le (z / H)
  have h2 : z / H < (((z / H).floor : Int) : Rat) + 1 := Int.lt_floor_add_one (z / H)
  have e : z = H * (z / H) := by field_simp
  constructor
  · have := mul_le_mul_of_nonneg_left h1 (le_of_lt hH)
    linarith
  · have := mul_lt_mul_of_pos_left h2 hH
    linarith

theorem prepareZ_range (H z : Rat) (hH : 0 < H) : 0 ≤ prepareZ H z ∧ prepareZ H z < H := by
  unfold prepareZ
  simp only
  split
  · exact ⟨le_refl _, hH⟩
  · exact wrapZ_range H z hH

/-- after `_prepare_atoms` no height lies in the dropped window `[H - ε, ∞)` -/
theorem prepareZ_lt_drop (H z : Rat) (hH : nudgeEps < H) : prepareZ H z < H - nudgeEps := by
  unfold prepareZ
  simp only
  split
  · linarith
  · rename_i hc
    by_contra hge
    exact hc (snap_covers_dropped H _ (by linarith))

/-! additivity -/
section additive
variable {V : Type} [AddCommMonoid V] {A K : Type} [DecidableEq K]

/-- regrouping a sum by a key: summing, over a duplicate-free list of keys, the members with that key = summing the members whose key is listed -/
lemma sum_by_key (ks : List K) (hks : ks.Nodup) (κ : A → K) (g : A → V) (atoms : List A) :
    (ks.map fun k => ((atoms.filter fun a => κ a = k).map g).sum).sum
      = ((atoms.filter fun a => κ a ∈ ks).map g).sum := by
  induction atoms with
  | nil => simp
  | cons a rest ih =>
    have hsplit : ∀ k, (((a :: rest).filter fun a => κ a = k).map g).sum
        = (if κ a = k then g a else 0) + ((rest.filter fun a => κ a = k).map g).sum := by
      intro k
      by_cases hk : κ a = k <;> simp [hk]
    simp only [hsplit, List.sum_map_add, ih]
    have hite : (ks.map fun k => if κ a = k then g a else 0).sum = if κ a ∈ ks then g a else 0 := by
      clear ih hsplit
      induction ks with
      | nil => simp
      | cons k ks ihk =>
        have hnd := List.nodup_cons.mp hks
        simp only [List.map_cons, List.sum_cons, ihk hnd.2, List.mem_cons]
        by_cases h1 : κ a = k
        · subst h1
          simp [hnd.1]
        · simp [h1]
    rw [hite]
    by_cases hm : κ a ∈ ks <;> simp [hm]
end additive

section additive2
variable {V : Type} [AddCommMonoid V] {P : Type}

/-- potential of one slice as `integrate_on_grid` computes it: for every species in `species` (`np.unique(numbers)`), the
species' additive map applied to the superposed deltas of the atoms of that species -/
def slicePotential (Lmap : Nat → V →+ V) (delta : P → V) (species : List Nat) (atoms : List (Nat × P)) : V :=
  (species.map fun Z => Lmap Z (((atoms.filter fun a => a.1 = Z).map fun a => delta a.2).sum)).sum

theorem slicePotential_eq_sum_atoms (Lmap : Nat → V →+ V) (delta : P → V) (species : List Nat) (atoms : List (Nat × P))
    (hnd : species.Nodup) (hall : ∀ a ∈ atoms, a.1 ∈ species) :
    slicePotential Lmap delta species atoms = (atoms.map fun a => Lmap a.1 (delta a.2)).sum := by
  unfold slicePotential
  have h1 : ∀ Z, Lmap Z (((atoms.filter fun a => a.1 = Z).map fun a => delta a.2).sum)
      = ((atoms.filter fun a => a.1 = Z).map fun a => Lmap a.1 (delta a.2)).sum := by
    intro Z
    rw [map_list_sum, List.map_map]
    congr 1
    apply List.map_congr_left
    intro a ha
    have : a.1 = Z := by simpa using (List.mem_filter.mp ha).2
    simp [this]
  simp only [h1]
  rw [sum_by_key species hnd (fun a : Nat × P => a.1) (fun a => Lmap a.1 (delta a.2)) atoms]
  congr 2
  apply List.filter_eq_self.mpr
  intro a ha
  simpa using hall a ha

/-- **additivity**: the slice potential of the union of two atom sets is the sum of their slice potentials -/
theorem slicePotential_union (Lmap : Nat → V →+ V) (delta : P → V) (sA sB sAB : List Nat) (A B : List (Nat × P))
    (hA : sA.Nodup) (hB : sB.Nodup) (hAB : sAB.Nodup) (hallA : ∀ a ∈ A, a.1 ∈ sA) (hallB : ∀ a ∈ B, a.1 ∈ sB)
    (hallAB : ∀ a ∈ A ++ B, a.1 ∈ sAB) :
    slicePotential Lmap delta sAB (A ++ B) = slicePotential Lmap delta sA A + slicePotential Lmap delta sB B := by
  rw [slicePotential_eq_sum_atoms _ _ _ _ hAB hallAB, slicePotential_eq_sum_atoms _ _ _ _ hA hallA,
    slicePotential_eq_sum_atoms _ _ _ _ hB hallB, List.map_append, List.sum_append]
end additive2

/-! ### slice index lists: every atom in exactly one slice -/

lemma nondecreasing_edges (ε acc : Rat) (ts : List Rat) (h : ∀ t ∈ ts, 0 < t) :
    nondecreasing ((cumsumFrom acc ts).map (· - ε)) = true := by
  induction ts generalizing acc with
  | nil => rfl
  | cons t ts ih =>
    cases ts with
    | nil => rfl
    | cons t' rest =>
      have ht' := h t' (by simp)
      have := ih (acc + t) (fun x hx => h x (by simp [hx]))
      simp only [cumsumFrom, List.map_cons, nondecreasing, Bool.and_eq_true, decide_eq_true_eq] at this ⊢
      exact ⟨by linarith, this⟩

lemma sliceIndex_ok (ts zs : List Rat) (h : ∀ t ∈ ts, 0 < t) :
    sliceIndex ts zs = .ok ((List.range ts.length).map fun l =>
      (List.range zs.length).filter fun i => label ts (zs.getD i 0) == l) := by
  unfold sliceIndex
  have : nondecreasing (binEdges ts) = true := nondecreasing_nudgeInit nudgeEps 0 nudgeEps_nonneg ts h
  rw [if_pos this]

/-- membership in the `l`-th index list = having slice label `l` -/
theorem mem_slice_iff (ts zs : List Rat) (h : ∀ t ∈ ts, 0 < t) (lists : List (List Nat))
    (hl : sliceIndex ts zs = .ok lists) (l i : Nat) (hlt : l < ts.length) :
    i ∈ lists.getD l [] ↔ i < zs.length ∧ label ts (zs.getD i 0) = l := by
  rw [sliceIndex_ok ts zs h] at hl
  cases hl
  simp [List.getD_eq_getElem?_getD, List.getElem?_map, List.getElem?_range hlt]

/-- **every atom is assigned to exactly one slice**: an atom below the cell top occurs in exactly one
index list (the one of its label) -/
theorem unique_slice (ts zs : List Rat) (h : ∀ t ∈ ts, 0 < t) (hne : ts ≠ []) (lists : List (List Nat))
    (hl : sliceIndex ts zs = .ok lists) (i : Nat) (hi : i < zs.length) (hz : zs.getD i 0 < listSum ts) :
    ∃! l, l < ts.length ∧ i ∈ lists.getD l [] := by
  have hlab := (label_lt_iff ts (zs.getD i 0) h hne).mpr hz
  refine ⟨label ts (zs.getD i 0), ⟨hlab, (mem_slice_iff ts zs h lists hl _ i hlab).mpr ⟨hi, rfl⟩⟩, ?_⟩
  rintro l ⟨hlt, hmem⟩
  exact ((mem_slice_iff ts zs h lists hl l i hlt).mp hmem).2.symm

/-- … and an atom is in no slice (silently dropped by `label_to_index`) iff it lies at or above the cell top -/
theorem dropped_iff (ts zs : List Rat) (h : ∀ t ∈ ts, 0 < t) (hne : ts ≠ []) (lists : List (List Nat))
    (hl : sliceIndex ts zs = .ok lists) (i : Nat) (hi : i < zs.length) :
    (∀ l < ts.length, i ∉ lists.getD l []) ↔ listSum ts ≤ zs.getD i 0 := by
  constructor
  · intro hno
    by_contra hz
    obtain ⟨l, ⟨hlt, hmem⟩, _⟩ := unique_slice ts zs h hne lists hl i hi (lt_of_not_ge hz)
    exact hno l hlt hmem
  · intro hz l hlt hmem
    have := ((mem_slice_iff ts zs h lists hl l i hlt).mp hmem).2
    have hlab := (label_lt_iff ts (zs.getD i 0) h hne).mp (this ▸ hlt)
    linarith

/-- an atom exactly on the boundary above the slices `pre` belongs to the upper slice (index `pre.length`) -/
theorem boundary_goes_up (pre post : List Rat) (t : Rat) (h : ∀ x ∈ pre ++ t :: post, 0 < x) (ht : nudgeEps < t) :
    label (pre ++ t :: post) (listSum pre) = pre.length := by
  apply label_eq_of_mem_window pre post t _ h
  · linarith [nudgeEps_nonneg]
  · have := h t (by simp)
    split <;> linarith

/-- the nudge window: heights up to ε *below* a boundary are assigned to the upper slice as well -/
theorem nudge_window (pre post : List Rat) (t z : Rat) (h : ∀ x ∈ pre ++ t :: post, 0 < x) (ht : nudgeEps < t)
    (hlo : listSum pre - nudgeEps ≤ z) (hhi : z < listSum pre) :
    label (pre ++ t :: post) z = pre.length := by
  apply label_eq_of_mem_window pre post t _ h hlo
  have := h t (by simp)
  split <;> linarith

/-- after `_prepare_atoms` (wrap + snap) every atom has a slice: none is dropped -/
theorem prepared_atom_has_slice (ts : List Rat) (h : ∀ t ∈ ts, 0 < t) (hne : ts ≠ []) (z : Rat)
    (hH : 0 < listSum ts) : label ts (prepareZ (listSum ts) z) < ts.length :=
  (label_lt_iff ts _ h hne).mpr (prepareZ_range (listSum ts) z hH).2

/-! ### finite projection: membership test of `SlicedAtoms` (generated `inSliceLo`, `inSliceHi`) -/

/-- the membership test of `SlicedAtoms` is the half-open interval `[a − pad, b + pad)` -/
theorem inSlice_iff (z a b pad : Rat) :
    (inSliceLo z a b pad && inSliceHi z a b pad) = true ↔ a - pad ≤ z ∧ z < b + pad := by
  unfold inSliceLo inSliceHi
  simp only [Bool.and_eq_true, decide_eq_true_eq, ge_iff_le]

/-- number of slices (entrance/exit pairs started at `acc`) whose un-padded interval contains `z` -/
def cnt (acc : Rat) (ts : List Rat) (z : Rat) : Nat :=
  ((List.zip (acc :: cumsumFrom acc ts) (cumsumFrom acc ts)).filter fun p =>
    inSliceLo z p.1 p.2 0 && inSliceHi z p.1 p.2 0).length

lemma cnt_cons (acc t : Rat) (ts : List Rat) (z : Rat) :
    cnt acc (t :: ts) z = (if acc ≤ z ∧ z < acc + t then 1 else 0) + cnt (acc + t) ts z := by
  unfold cnt
  simp only [cumsumFrom, List.zip_cons_cons, List.filter_cons]
  by_cases h : acc ≤ z ∧ z < acc + t
  · have : (inSliceLo z acc (acc + t) 0 && inSliceHi z acc (acc + t) 0) = true := (inSlice_iff _ _ _ _).mpr (by simpa using h)
    simp [this, h]; omega
  · have : ¬ (inSliceLo z acc (acc + t) 0 && inSliceHi z acc (acc + t) 0) = true := fun hc => h (by simpa using (inSlice_iff _ _ _ _).mp hc)
    simp [this, h]

lemma cnt_zero_of_lt (acc : Rat) (ts : List Rat) (z : Rat) (h : ∀ t ∈ ts, 0 < t) (hz : z < acc) : cnt acc ts z = 0 := by
  induction ts generalizing acc with
  | nil => rfl
  | cons t ts ih =>
    have ht := h t (by simp)
    rw [cnt_cons, if_neg (by intro hc; linarith [hc.1]), ih (acc + t) (fun x hx => h x (by simp [hx])) (by linarith)]

/-- **finite projection, zero padding**: an atom centre inside the cell lies in exactly one slice interval -/
theorem sliced_unique_pad0 (acc : Rat) (ts : List Rat) (z : Rat) (h : ∀ t ∈ ts, 0 < t) (hlo : acc ≤ z)
    (hhi : z < acc + listSum ts) : cnt acc ts z = 1 := by
  induction ts generalizing acc with
  | nil => simp [listSum] at hhi; linarith
  | cons t ts ih =>
    have ht := h t (by simp)
    simp only [listSum] at hhi
    rw [cnt_cons]
    by_cases h1 : z < acc + t
    · rw [if_pos ⟨hlo, h1⟩, cnt_zero_of_lt (acc + t) ts z (fun x hx => h x (by simp [hx])) h1]
    · rw [if_neg (by intro hc; exact h1 hc.2), ih (acc + t) (fun x hx => h x (by simp [hx])) (by linarith) (by linarith)]

/-- the count is taken over exactly the limits `slice_limits` produces -/
theorem cnt_eq_sliceLimits (ts : List Rat) (z : Rat) :
    cnt 0 ts z = ((sliceLimits ts).filter fun p => inSliceLo z p.1 p.2 0 && inSliceHi z p.1 p.2 0).length := rfl

/-- an atom exactly on the boundary `b` between two slices belongs to the upper one only -/
theorem sliced_boundary_goes_up (a b c : Rat) (_hab : a < b) (hbc : b < c) :
    (inSliceLo b a b 0 && inSliceHi b a b 0) = false ∧ (inSliceLo b b c 0 && inSliceHi b b c 0) = true := by
  constructor
  · rw [Bool.eq_false_iff]; intro h; have := (inSlice_iff _ _ _ _).mp h; linarith [this.2]
  · exact (inSlice_iff _ _ _ _).mpr ⟨by linarith, by linarith⟩

section projection
variable {V : Type} [AddCommMonoid V] {P : Type}

/-- `project()` of an infinite-projection potential: sum over the slices of the slice potentials of the atoms labelled with
that slice (`species` = `np.unique` of the numbers present in the slice) -/
def projected (Lmap : Nat → V →+ V) (delta : P → V) (ts : List Rat) (atoms : List (Nat × P × Rat)) : V :=
  ((List.range ts.length).map fun l =>
    slicePotential Lmap delta (((atoms.filter fun a => label ts a.2.2 = l).map fun a => a.1).dedup)
      ((atoms.filter fun a => label ts a.2.2 = l).map fun a => (a.1, a.2.1))).sum

theorem projected_eq_sum_atoms (Lmap : Nat → V →+ V) (delta : P → V) (ts : List Rat) (atoms : List (Nat × P × Rat))
    (h : ∀ t ∈ ts, 0 < t) (hne : ts ≠ []) (hall : ∀ a ∈ atoms, a.2.2 < listSum ts) :
    projected Lmap delta ts atoms = (atoms.map fun a => Lmap a.1 (delta a.2.1)).sum := by
  unfold projected
  have h1 : ∀ l, slicePotential Lmap delta (((atoms.filter fun a => label ts a.2.2 = l).map fun a => a.1).dedup)
      ((atoms.filter fun a => label ts a.2.2 = l).map fun a => (a.1, a.2.1))
      = ((atoms.filter fun a => label ts a.2.2 = l).map fun a => Lmap a.1 (delta a.2.1)).sum := by
    intro l
    rw [slicePotential_eq_sum_atoms _ _ _ _ (List.nodup_dedup _)
      (by intro a ha; obtain ⟨b, hb, rfl⟩ := List.mem_map.mp ha; exact List.mem_dedup.mpr (List.mem_map.mpr ⟨b, hb, rfl⟩)),
      List.map_map]
    rfl
  simp only [h1]
  rw [sum_by_key (List.range ts.length) List.nodup_range (fun a : Nat × P × Rat => label ts a.2.2)
    (fun a => Lmap a.1 (delta a.2.1)) atoms]
  congr 2
  apply List.filter_eq_self.mpr
  intro a ha
  simpa using (label_lt_iff ts a.2.2 h hne).mpr (hall a ha)

/-- **the projected potential does not depend on the slice thicknesses** (infinite projection): for any two positive
thickness sequences under which no atom is dropped, the projections coincide (both are the sum over all atoms). -/
theorem projection_indep_of_slicing (Lmap : Nat → V →+ V) (delta : P → V) (ts ts' : List Rat) (atoms : List (Nat × P × Rat))
    (h : ∀ t ∈ ts, 0 < t) (hne : ts ≠ []) (h' : ∀ t ∈ ts', 0 < t) (hne' : ts' ≠ [])
    (hall : ∀ a ∈ atoms, a.2.2 < listSum ts) (hall' : ∀ a ∈ atoms, a.2.2 < listSum ts') :
    projected Lmap delta ts atoms = projected Lmap delta ts' atoms := by
  rw [projected_eq_sum_atoms Lmap delta ts atoms h hne hall, projected_eq_sum_atoms Lmap delta ts' atoms h' hne' hall']
end projection

/-! ### what `_validate_slice_thickness` accepts -/

/-- a positive scalar thickness is always accepted and yields `⌈H/d⌉` equal slices summing exactly to `H` -/
theorem validate_scalar_ok (H d : Rat) (hH : 0 < H) (hd : 0 < d) :
    validateThickness (.inl d) H = .ok (List.replicate (sliceCount H d).toNat (sliceThk H d)) := by
  have hn := nSlices_pos H d hH hd
  have hsum := scalar_thickness_sum H d hH hd
  unfold validateThickness
  simp only [not_le.mpr hd, if_false, ne_of_gt hn, hsum]
  have : isClose H H = true := by
    unfold isClose
    simp only [sub_self, lt_irrefl, if_false, decide_eq_true_eq]
    have : (0 : Rat) ≤ (if H < 0 then -H else H) := by split <;> linarith
    have h2 : (0 : Rat) ≤ 1 / 100000 * (if H < 0 then -H else H) := mul_nonneg (by norm_num) this
    linarith
  simp [this]

/-! ### nothing lies above the last slice (`bin_edges[-1] = np.inf`) -/

lemma digitize_dropLast_le (l : List Rat) (z : Rat) : digitize l.dropLast z ≤ l.length - 1 := by
  unfold digitize
  calc (l.dropLast.filter fun e => decide (e ≤ z)).length ≤ l.dropLast.length := List.length_filter_le _ _
    _ = l.length - 1 := List.length_dropLast

lemma digitize_dropLast_eq (l : List Rat) (z : Rat) (h : ∀ e, l.getLast? = some e → z < e) :
    digitize l.dropLast z = digitize l z := by
  rcases List.eq_nil_or_concat l with rfl | ⟨init, e, rfl⟩
  · rfl
  · have he : z < e := h e (by simp)
    unfold digitize
    simp [List.filter_append, not_le.mpr he]

lemma binEdges_length (ts : List Rat) : (binEdges ts).length = ts.length := by
  have h1 : ∀ (ε : Rat) (l : List Rat), (nudgeInit ε l).length = l.length := by
    intro ε l
    induction l with
    | nil => rfl
    | cons x l ih => cases l with
      | nil => rfl
      | cons y rest => simp only [nudgeInit, List.length_cons] at ih ⊢; omega
  have h2 : ∀ (acc : Rat) (l : List Rat), (cumsumFrom acc l).length = l.length := by
    intro acc l
    induction l generalizing acc with
    | nil => rfl
    | cons x l ih => simp [cumsumFrom, ih]
  unfold binEdges; rw [h1, h2]

/-- **every atom has a slice**: whatever its height (also at or above the cell top, e.g. displaced there by frozen phonons in a
non-periodic potential) the label the code computes is a slice index -/
theorem labelTop_lt_length (ts : List Rat) (z : Rat) (hne : ts ≠ []) : labelTop ts z < ts.length := by
  have := digitize_dropLast_le (binEdges ts) z
  rw [binEdges_length] at this
  have hpos : 0 < ts.length := List.length_pos_of_ne_nil hne
  unfold labelTop binEdgesTop
  omega

lemma getLast?_nudgeInit (ε : Rat) (l : List Rat) : (nudgeInit ε l).getLast? = l.getLast? := by
  induction l with
  | nil => rfl
  | cons x l ih => cases l with
    | nil => rfl
    | cons y rest =>
      cases rest with
      | nil => simp [nudgeInit]
      | cons r rest' =>
        have ih' := ih
        simp only [nudgeInit] at ih' ⊢
        have e1 := List.getLast?_cons_cons (a := x - ε) (b := y - ε) (l := nudgeInit ε (r :: rest'))
        have e2 := List.getLast?_cons_cons (a := x) (b := y) (l := r :: rest')
        rw [e1, e2]; exact ih'

lemma getLast?_cumsumFrom (acc : Rat) (ts : List Rat) (hne : ts ≠ []) : (cumsumFrom acc ts).getLast? = some (acc + listSum ts) := by
  induction ts generalizing acc with
  | nil => exact absurd rfl hne
  | cons t ts ih => cases ts with
    | nil => simp [cumsumFrom, listSum]
    | cons t' rest =>
      have := ih (acc + t) (by simp)
      simp only [cumsumFrom, listSum] at this ⊢
      rw [List.getLast?_cons_cons, this]; congr 1; ring

/-- below the cell top the code's label is the label of the plain edges (so `label_eq_of_mem_window`, `boundary_goes_up`,
`nudge_window` describe it) -/
theorem labelTop_eq_label (ts : List Rat) (z : Rat) (hz : z < listSum ts) : labelTop ts z = label ts z := by
  unfold labelTop binEdgesTop label
  apply digitize_dropLast_eq
  intro e he
  by_cases hne : ts = []
  · subst hne; simp [binEdges, cumsumFrom, nudgeInit] at he
  · unfold binEdges at he
    rw [getLast?_nudgeInit, getLast?_cumsumFrom 0 ts hne] at he
    cases he; linarith

/-- what the last slice collects: everything from its (nudged) lower edge upwards -/
theorem labelTop_top (ts : List Rat) (z : Rat) (h : ∀ t ∈ ts, 0 < t) (hne : ts ≠ []) (hz : listSum ts ≤ z) :
    labelTop ts z = ts.length - 1 := by
  have hall := L'_all_of_ge nudgeEps 0 ts z nudgeEps_nonneg h (by linarith)
  have hle := digitize_dropLast_le (binEdges ts) z
  rw [binEdges_length] at hle
  -- all edges are ≤ z, so dropping the last one loses exactly one
  have hcount : digitize (binEdges ts) z = (binEdges ts).length := by
    have : digitize (binEdges ts) z = ts.length := hall
    rw [this, binEdges_length]
  unfold labelTop binEdgesTop
  unfold digitize at hcount ⊢
  have hall' : ∀ e ∈ binEdges ts, decide (e ≤ z) = true := by
    have := List.length_filter_eq_length_iff.mp hcount
    exact this
  have : (binEdges ts).dropLast.filter (fun e => decide (e ≤ z)) = (binEdges ts).dropLast := by
    apply List.filter_eq_self.mpr
    intro e he
    exact hall' e (List.dropLast_subset _ he)
  rw [this, List.length_dropLast, binEdges_length]

/-! ### what `_validate_slice_thickness` does with an explicit sequence (fix: residual absorbed by the last slice) -/

lemma listSum_append_singleton (l : List Rat) (x : Rat) : listSum (l ++ [x]) = listSum l + x := by
  induction l with
  | nil => simp [listSum]
  | cons a l ih => simp only [List.cons_append, listSum, ih]; ring

lemma listSum_dropLast (v : List Rat) (l : Rat) (h : v.getLast? = some l) : listSum v.dropLast + l = listSum v := by
  rcases List.eq_nil_or_concat v with rfl | ⟨init, e, rfl⟩
  · simp at h
  · simp at h; subst h; simp [listSum_append_singleton]

/-- **the accepted thicknesses sum to the cell height**: when the last entry stays positive after absorbing the residual — always
the case for positive entries larger than the `np.isclose` tolerance — the tuple the code uses sums exactly to `H`. -/
theorem absorbResidual_sum (v : List Rat) (H l : Rat) (hl : v.getLast? = some l) (hpos : l + (H - listSum v) > 0) :
    listSum (absorbResidual v H) = H := by
  unfold absorbResidual
  rw [hl]
  simp only
  by_cases h0 : H - listSum v = 0
  · rw [if_neg (by intro hc; exact hc.1 h0)]; linarith
  · rw [if_pos ⟨h0, hpos⟩, listSum_append_singleton]
    have := listSum_dropLast v l hl
    linarith

theorem validate_sequence_ok (l : List Rat) (H : Rat) (hc : isClose (listSum l) H = true) :
    validateThickness (.inr l) H = .ok (absorbResidual l H) := by
  unfold validateThickness
  simp [hc]

/-! ### non-vacuity -/
example : sliceIndex [1, 2, 1] [0, 1, 999999999999/1000000000000, 5/2, 3, 4, 7/2]
    = .ok [[0], [1, 2, 3], [4, 6]] := by decide +kernel
example : validateThickness (.inl (3/2)) 4 = .ok [4/3, 4/3, 4/3] := by decide +kernel
example : (validateThickness (.inr [5, 49999/10000]) 10).toOption = some [5, 5] := by decide +kernel
example : sliceIndexTop [1, 2, 1] [0, 4, 7/2, 5] = .ok [[0], [], [1, 2, 3]] := by decide +kernel
example : prepareZ 4 (-1/2) = 7/2 ∧ prepareZ 4 (39999999999999/10000000000000) = 0 := by decide +kernel

end AbtemVerif.Props.C09
