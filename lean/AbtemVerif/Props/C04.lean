/-
C04 — Wave propagation never creates intensity and vacuum propagation is reversible.

The symbols are the *generated* formulas of abtem/multislice.py, abtem/antialias.py, abtem/potentials/iam.py and
abtem/core/complex.py (Gen/PropagatorR, Gen/PropagatorC, regenerated on every run), composed in Lib/WaveOptics.lean
exactly as `FresnelPropagator._calculate_array` / `antialias_aperture` / `_transmission_function` compose them.
The transform pair is abstract (`FourierPair`, Lib/DFT.lean: inverse pair + Parseval are structure fields; that
numpy/pyFFTW implement such a pair is the named assumption FFT).  Quantifiers: every index type `ι` (any grid shape),
every assignment of spatial frequencies `kx ky : ι → ℝ` to pixels, every wave `ψ`, wavelength (energy), sampling,
slice thickness (any sign), propagator order, list of tilts, slice list.

Literal property vs. what is provable: `conventional_multislice_step` band-limits the transmission function
`T = exp(iσV)` with the antialias aperture before multiplying.  The band-limited `T_bl` is no longer of unit modulus
(Gibbs overshoot), so "never creates intensity" is FALSE for the code as it is (finding F9,
`bandlimited_step_gain_counterexample` below, replayed on the real code by harness/c04.py).  Proved instead:
  * full strength: one step multiplies Σ|ψ|² by at most `c` whenever `|T_bl|² ≤ c` (`code_step_energy_le`), any slice
    list by the product of the bounds (`code_multislice_energy_le`), and `|T_bl j|² ≤ N` a priori;
  * `…_le_one_partial`: never creates intensity whenever `|T_bl| ≤ 1` — in particular for the un-band-limited
    transmission function of every real potential (`pure_phase_multislice_energy_le`).
-/
import AbtemVerif.Lib.WaveOptics
import AbtemVerif.Lib.FourierMultislice
import AbtemVerif.Lib.SmallDFT

open Finset BigOperators

namespace AbtemVerif.Props.C04
open AbtemVerif.DFT AbtemVerif.FourierMultislice AbtemVerif.WaveOptics

variable {ι : Type*} [Fintype ι]

/-- what the propagator needs to know about the grid: spatial frequencies of every pixel and `max(sampling)` -/
structure Freqs (ι : Type*) where
  kx : ι → ℝ
  ky : ι → ℝ
  maxSampling : ℝ

/-- propagator array of the code (`FresnelPropagator._calculate_array`) on the grid `g` -/
noncomputable def propSym (g : Freqs ι) (order : ℕ) (dz wl : ℝ) (tilts : List (ℝ × ℝ)) : ι → ℂ :=
  fun k => propagator order (g.kx k) (g.ky k) dz wl g.maxSampling tilts

/-- antialias aperture array of the code on the grid `g` -/
noncomputable def apertureSym (g : Freqs ι) : ι → ℝ := fun k => aperture (g.kx k) (g.ky k) g.maxSampling

/-- un-band-limited transmission function `exp(iσV)` of a real potential slice `v` -/
noncomputable def transmissionOf (sigma : ℝ) (v : ι → ℝ) : ι → ℂ := fun j => transmission sigma (v j)

/-- the slice the code really applies: band-limited transmission function + propagator -/
noncomputable def codeSlice (P : FourierPair ι) (g : Freqs ι) (order : ℕ) (dz wl : ℝ) (tilts : List (ℝ × ℝ))
    (sigma : ℝ) (v : ι → ℝ) : Slice ι :=
  ⟨bandlimit P (apertureSym g) (transmissionOf sigma v), propSym g order dz wl tilts⟩

/-! ### the three factors -/

/-- Fresnel propagator × tilt factors: unit modulus for all orders, any tilt list, any thickness, wavelength. -/
theorem propagator_phase_unit_modulus (order : ℕ) (kx ky dz wl : ℝ) (tilts : List (ℝ × ℝ)) :
    Complex.normSq (tiltProduct kx ky dz tilts * fresnel order kx ky dz wl) = 1 := by
  rw [Complex.normSq_mul, normSq_tiltProduct, normSq_fresnel, one_mul]

/-- The antialias aperture takes values in `[0, 1]` for every pixel and every sampling (both `taper` branches). -/
theorem aperture_in_unit_interval (kx ky ms : ℝ) : 0 ≤ aperture kx ky ms ∧ aperture kx ky ms ≤ 1 :=
  aperture_mem kx ky ms

/-- … and for arbitrary configured cutoff / taper values, of any sign. -/
theorem apertureOf_in_unit_interval (r cutoff taper : ℝ) :
    0 ≤ apertureOf r cutoff taper ∧ apertureOf r cutoff taper ≤ 1 := apertureOf_mem r cutoff taper

/-- The transmission function of a real potential has unit modulus. -/
theorem transmission_unit_modulus (sigma v : ℝ) : Complex.normSq (transmission sigma v) = 1 :=
  normSq_transmission sigma v

/-- The complete propagator array of the code is a contraction symbol: `|p|² = aperture² ≤ 1`. -/
theorem propagator_normSq_le_one (order : ℕ) (kx ky dz wl ms : ℝ) (tilts : List (ℝ × ℝ)) :
    Complex.normSq (propagator order kx ky dz wl ms tilts) ≤ 1 := by
  rw [normSq_propagator]
  have h := aperture_mem kx ky ms
  nlinarith

/-! ### intensity through slices -/

/-- Full-strength bound for the code's step: if the band-limited transmission function satisfies `|T_bl|² ≤ c`,
one multislice step (either order of transmit/propagate) multiplies the intensity by at most `c`. -/
theorem code_step_energy_le [Nonempty ι] (P : FourierPair ι) (g : Freqs ι) (tr : Bool) (order : ℕ) (dz wl : ℝ)
    (tilts : List (ℝ × ℝ)) (sigma : ℝ) (v : ι → ℝ) (ψ : ι → ℂ) (c : ℝ) (hc : 0 ≤ c)
    (hT : ∀ j, Complex.normSq ((codeSlice P g order dz wl tilts sigma v).t j) ≤ c) :
    energy (step P tr (codeSlice P g order dz wl tilts sigma v) ψ) ≤ c * energy ψ :=
  step_energy_le P tr _ ψ c hc hT (fun _ => propagator_normSq_le_one _ _ _ _ _ _ _)

/-- A priori: every pixel of the band-limited transmission function satisfies `|T_bl j|² ≤ N` (number of pixels). -/
theorem bandlimited_transmission_normSq_le_card [Nonempty ι] (P : FourierPair ι) (g : Freqs ι) (sigma : ℝ)
    (v : ι → ℝ) (j : ι) :
    Complex.normSq (bandlimit P (apertureSym g) (transmissionOf sigma v) j) ≤ Fintype.card ι := by
  have h := normSq_bandlimit_le P (apertureSym g) (fun _ => aperture_mem _ _ _) (transmissionOf sigma v) j
  have : energy (transmissionOf sigma v) = Fintype.card ι := by
    unfold energy transmissionOf
    simp [normSq_transmission]
  rwa [this] at h

/-- … and its *mean* squared modulus is at most one (no gain on average over the pixels). -/
theorem bandlimited_transmission_energy_le [Nonempty ι] (P : FourierPair ι) (g : Freqs ι) (sigma : ℝ) (v : ι → ℝ) :
    energy (bandlimit P (apertureSym g) (transmissionOf sigma v)) ≤ Fintype.card ι := by
  have h := energy_bandlimit_le P (apertureSym g) (fun _ => aperture_mem _ _ _) (transmissionOf sigma v)
  have : energy (transmissionOf sigma v) = Fintype.card ι := by
    unfold energy transmissionOf
    simp [normSq_transmission]
  rwa [this] at h

/-- one slice description: order, thickness, tilts and potential values (wavelength and σ belong to the wave) -/
structure SliceSpec (ι : Type*) where
  order : ℕ
  dz : ℝ
  tilts : List (ℝ × ℝ)
  v : ι → ℝ

/-- Any slice list (any thicknesses, orders, tilts, potentials): the intensity after the code's multislice is at most
the product of the per-slice bounds on `|T_bl|²` times the incoming intensity. -/
theorem code_multislice_energy_le [Nonempty ι] (P : FourierPair ι) (g : Freqs ι) (tr : Bool) (wl sigma : ℝ)
    (specs : List (SliceSpec ι)) (cs : List ℝ)
    (h : List.Forall₂ (fun s c => 0 ≤ c ∧
      ∀ j, Complex.normSq ((codeSlice P g s.order s.dz wl s.tilts sigma s.v).t j) ≤ c) specs cs)
    (ψ : ι → ℂ) :
    energy (multislice P tr (specs.map fun s => codeSlice P g s.order s.dz wl s.tilts sigma s.v) ψ)
      ≤ cs.prod * energy ψ := by
  apply multislice_energy_le
  rw [List.forall₂_map_left_iff]
  exact h.imp fun _ _ hsc => ⟨hsc.1, hsc.2, fun _ => propagator_normSq_le_one _ _ _ _ _ _ _⟩

/-- PARTIAL form of "never creates intensity": holds for every slice list whose band-limited transmission functions
stay within the unit disc.  (Missing for the literal statement: `|T_bl| ≤ 1` itself, which is false in general —
see `bandlimited_step_gain_counterexample`.) -/
theorem code_multislice_energy_le_one_partial [Nonempty ι] (P : FourierPair ι) (g : Freqs ι) (tr : Bool)
    (wl sigma : ℝ) (specs : List (SliceSpec ι))
    (h : ∀ s ∈ specs, ∀ j, Complex.normSq ((codeSlice P g s.order s.dz wl s.tilts sigma s.v).t j) ≤ 1)
    (ψ : ι → ℂ) :
    energy (multislice P tr (specs.map fun s => codeSlice P g s.order s.dz wl s.tilts sigma s.v) ψ) ≤ energy ψ := by
  apply multislice_energy_le_one
  intro s hs
  obtain ⟨sp, hsp, rfl⟩ := List.mem_map.mp hs
  exact ⟨h sp hsp, fun _ => propagator_normSq_le_one _ _ _ _ _ _ _⟩

/-- Multislice with the *un-band-limited* transmission function `exp(iσV)` of any real potential (what
`conventional_multislice_step` does when it is handed a `TransmissionFunction`) never creates intensity: any slice
list, thicknesses of any sign, orders, tilts, both step orders. -/
theorem pure_phase_multislice_energy_le [Nonempty ι] (P : FourierPair ι) (g : Freqs ι) (tr : Bool) (wl sigma : ℝ)
    (specs : List (SliceSpec ι)) (ψ : ι → ℂ) :
    energy (multislice P tr
      (specs.map fun s => (⟨transmissionOf sigma s.v, propSym g s.order s.dz wl s.tilts⟩ : Slice ι)) ψ) ≤ energy ψ := by
  apply multislice_energy_le_one
  intro s hs
  obtain ⟨sp, _, rfl⟩ := List.mem_map.mp hs
  exact ⟨fun j => (normSq_transmission _ _).le, fun _ => propagator_normSq_le_one _ _ _ _ _ _ _⟩

/-! ### vacuum propagation -/

/-- `FresnelPropagator.propagate` -/
noncomputable def propagate (P : FourierPair ι) (g : Freqs ι) (order : ℕ) (dz wl : ℝ) (tilts : List (ℝ × ℝ))
    (ψ : ι → ℂ) : ι → ℂ := P.mult (propSym g order dz wl tilts) ψ

/-- `ψ` is band-limited inside the antialias aperture: its spectrum vanishes wherever the aperture is not 1 -/
def InsideAperture (P : FourierPair ι) (g : Freqs ι) (ψ : ι → ℂ) : Prop :=
  ∀ k, P.F ψ k ≠ 0 → apertureSym g k = 1

/-- Vacuum propagation never creates intensity (any wave). -/
theorem vacuum_energy_le [Nonempty ι] (P : FourierPair ι) (g : Freqs ι) (order : ℕ) (dz wl : ℝ)
    (tilts : List (ℝ × ℝ)) (ψ : ι → ℂ) : energy (propagate P g order dz wl tilts ψ) ≤ energy ψ :=
  P.energy_mult_le_one _ _ (fun _ => propagator_normSq_le_one _ _ _ _ _ _ _)

/-- Vacuum propagation preserves the intensity of a wave band-limited inside the aperture. -/
theorem vacuum_isometry [Nonempty ι] (P : FourierPair ι) (g : Freqs ι) (order : ℕ) (dz wl : ℝ)
    (tilts : List (ℝ × ℝ)) (ψ : ι → ℂ) (hψ : InsideAperture P g ψ) :
    energy (propagate P g order dz wl tilts ψ) = energy ψ := by
  apply P.energy_mult_eq_of_support
  intro k hk
  have h1 : aperture (g.kx k) (g.ky k) g.maxSampling = 1 := hψ k hk
  simp [propSym, normSq_propagator, h1]

/-- Propagating by `-dz` undoes propagating by `dz` for such a wave (all orders, all tilts). -/
theorem vacuum_reversible (P : FourierPair ι) (g : Freqs ι) (order : ℕ) (dz wl : ℝ)
    (tilts : List (ℝ × ℝ)) (ψ : ι → ℂ) (hψ : InsideAperture P g ψ) :
    propagate P g order (-dz) wl tilts (propagate P g order dz wl tilts ψ) = ψ := by
  unfold propagate
  rw [P.mult_mult]
  apply P.mult_eq_self_of_support
  intro k hk
  have h1 : aperture (g.kx k) (g.ky k) g.maxSampling = 1 := hψ k hk
  simp only [propSym]
  rw [propagator_neg_mul, h1]; norm_num

/-- The hypothesis in terms of radii: with the default configuration (`taper > 0`) and positive sampling, a spectrum
supported in `r ≤ cutoff − taper` is inside the aperture. -/
theorem insideAperture_of_radius (P : FourierPair ι) (g : Freqs ι) (ψ : ι → ℂ) (hms : 0 < g.maxSampling)
    (h : ∀ k, P.F ψ k ≠ 0 → Gen.PropagatorR.apertureRadius (g.kx k) (g.ky k)
      ≤ Gen.PropagatorR.apertureCutoff Gen.PropagatorR.antialiasCutoff g.maxSampling
        - Gen.PropagatorR.apertureTaper Gen.PropagatorR.antialiasTaper g.maxSampling) :
    InsideAperture P g ψ := by
  intro k hk
  apply apertureOf_eq_one _ _ _ _ (h k hk)
  unfold Gen.PropagatorR.apertureTaper Gen.PropagatorR.antialiasTaper
  positivity

/-! ### non-vacuity -/

example : ∃ g : Freqs (Fin 4), InsideAperture dft4 g (fun _ => 1) ∧ 0 < g.maxSampling := by
  refine ⟨⟨fun _ => 0, fun _ => 0, 1⟩, ?_, one_pos⟩
  apply insideAperture_of_radius _ _ _ one_pos
  intro k _
  simp only [Gen.PropagatorR.apertureRadius, Gen.PropagatorR.apertureCutoff, Gen.PropagatorR.apertureTaper,
    Gen.PropagatorR.antialiasCutoff, Gen.PropagatorR.antialiasTaper]
  norm_num

example : ∃ (s : Slice (Fin 4)), (∀ j, Complex.normSq (s.t j) ≤ 1) ∧ ∀ k, Complex.normSq (s.p k) ≤ 1 :=
  ⟨⟨fun _ => 1, fun _ => 1⟩, by simp, by simp⟩

/-! ### the literal property is false for the code as it is (finding F9) -/

/-- 4-pixel witness: aperture `(1,1,0,1)` (Nyquist removed), phase object `σV = (0,0,π,0)`, i.e. `T = (1,1,-1,1)`.
The band-limited transmission function is `(3/2, 1/2, -1/2, 1/2)`: modulus 3/2 at pixel 0. -/
theorem bandlimited_transmission_exceeds_one :
    bandlimit dft4 ![1, 1, 0, 1] (transmissionOf 1 ![0, 0, Real.pi, 0]) 0 = 3 / 2 := by
  have hT : transmissionOf 1 ![0, 0, Real.pi, 0] = ![1, 1, -1, 1] := by
    funext j
    fin_cases j <;>
      simp [transmissionOf, transmission, Gen.PropagatorR.transmissionPhase, cexp_eq, Complex.exp_pi_mul_I]
  rw [hT]
  simp [bandlimit, FourierPair.mult, dft4, F4lin, F4invlin, F4fun, F4inv]
  ring

/-- Negation witness for the literal statement "a multislice step through a real potential never increases the total
intensity" with the band-limited transmission function the code uses: a wave concentrated on pixel 0 gains a factor 9/4. -/
theorem bandlimited_step_gain_counterexample :
    ¬ (∀ (A : Fin 4 → ℝ), (∀ k, 0 ≤ A k ∧ A k ≤ 1) → ∀ (sigma : ℝ) (v : Fin 4 → ℝ) (p : Fin 4 → ℂ),
        (∀ k, Complex.normSq (p k) ≤ 1) → ∀ ψ : Fin 4 → ℂ,
        energy (step dft4 false ⟨bandlimit dft4 A (transmissionOf sigma v), p⟩ ψ) ≤ energy ψ) := by
  intro h
  have hA : ∀ k : Fin 4, 0 ≤ (![1, 1, 0, 1] : Fin 4 → ℝ) k ∧ (![1, 1, 0, 1] : Fin 4 → ℝ) k ≤ 1 := by
    intro k; fin_cases k <;> simp
  have := h ![1, 1, 0, 1] hA 1 ![0, 0, Real.pi, 0] (fun _ => 1) (by simp) ![1, 0, 0, 0]
  simp only [step, Bool.false_eq_true, if_false, FourierPair.mult_one] at this
  have e : energy (transmit (bandlimit dft4 ![1, 1, 0, 1] (transmissionOf 1 ![0, 0, Real.pi, 0])) ![1, 0, 0, 0])
      = 9 / 4 := by
    simp [energy, transmit, Fin.sum_univ_four, bandlimited_transmission_exceeds_one]
    norm_num
  have e2 : energy (![1, 0, 0, 0] : Fin 4 → ℂ) = 1 := by
    simp [energy, Fin.sum_univ_four]
  rw [e, e2] at this
  norm_num at this

end AbtemVerif.Props.C04
