namespace AbtemVerif.Props.C16
theorem placeholder : True := trivial
end AbtemVerif.Props.C16
