/-
C16 — Measurement resampling and source-size filtering conserve what they promise.

* `DiffractionPatterns.interpolate`: statements about `AbtemVerif.Resample` (Model/Resample.lean) whose rescale
  term and zero-sum guard are the generated `Gen/Resample.lean` (`array / new_sums * old_sums`,
  `where(new_sums == 0, 1, new_sums)`).
* `Images.interpolate(method="fft")`: same grid = identity (C14's crop masks on equal sizes + any Fourier pair) and
  mean preservation (any two Fourier pairs with the DC properties, any crop that keeps the zero frequency).
* `gaussian_source_size`: any linear map on the scan axes commutes with any masked sum over the detector axes.
-/
import AbtemVerif.Model.Resample
import AbtemVerif.Props.C14
import AbtemVerif.Lib.DFT
import AbtemVerif.Lib.DFT2
import Mathlib.Tactic.Ring
import Mathlib.Tactic.Linarith
import Mathlib.Tactic.FieldSimp

namespace AbtemVerif.Props.C16
open AbtemVerif.Resample AbtemVerif.Gen.Resample AbtemVerif.FftGeom AbtemVerif.DFT
open Finset BigOperators

/-! ### helper lemmas -/

lemma foldl_add_shift (l : List Rat) (a : Rat) : l.foldl (· + ·) a = a + l.foldl (· + ·) 0 := by
  induction l generalizing a with
  | nil => simp
  | cons x xs ih => simp only [List.foldl_cons]; rw [ih (a + x), ih (0 + x)]; ring

lemma sumList_eq_sum (l : List Rat) : sumList l = l.sum := by
  unfold sumList
  induction l with
  | nil => simp
  | cons x xs ih => simp only [List.foldl_cons, List.sum_cons]; rw [foldl_add_shift, ih]; ring

/-! ### DiffractionPatterns.interpolate -/

/-- **The rescale preserves the total intensity**: whatever the interpolated values `new` are, if they do not sum
to zero the returned pattern sums to the total `s` of the original pattern. -/
theorem rescale_preserves_sum (new : List Rat) (s : Rat) (h : sumList new ≠ 0) : sumList (rescale new s) = s := by
  rw [sumList_eq_sum] at h ⊢
  unfold rescale rescaleTerm newSumGuard
  rw [sumList_eq_sum]
  simp only [h, decide_false, Bool.false_eq_true, if_false]
  have : (new.map fun a => a / new.sum * s) = new.map fun a => a * ((new.sum)⁻¹ * s) := by
    apply List.map_congr_left; intro a _; rw [div_eq_mul_inv]; ring
  rw [this, List.sum_map_mul_right]
  simp only [List.map_id']
  field_simp

/-- A pattern without any intensity stays without intensity (no `0/0`): the guard divides by 1. -/
theorem rescale_zero_pattern (new : List Rat) (s : Rat) (h : ∀ a ∈ new, a = 0) : rescale new s = new := by
  have hs : sumList new = 0 := by
    rw [sumList_eq_sum]; exact List.sum_eq_zero h
  unfold rescale rescaleTerm newSumGuard
  simp only [hs, decide_true, if_true]
  conv_rhs => rw [← List.map_id new]
  apply List.map_congr_left
  intro a ha
  rw [h a ha]; simp

/-- The four bilinear weights add up to one, so a locally constant pattern is reproduced … -/
theorem blend_constant (c uw vw : Rat) : blend c c c c uw vw = c := by
  unfold blend; ring

/-- … a new pixel that falls exactly on an old one (weights 0) takes that pixel's value … -/
theorem blend_on_node (a b c d : Rat) : blend a b c d 0 0 = a := by
  unfold blend; ring

/-- … and for weights in `[0, 1]` the result stays between the smallest and largest neighbour. -/
theorem blend_between (a b c d uw vw lo hi : Rat) (hu : 0 ≤ uw ∧ uw ≤ 1) (hv : 0 ≤ vw ∧ vw ≤ 1)
    (ha : lo ≤ a ∧ a ≤ hi) (hb : lo ≤ b ∧ b ≤ hi) (hc : lo ≤ c ∧ c ≤ hi) (hd : lo ≤ d ∧ d ≤ hi) :
    lo ≤ blend a b c d uw vw ∧ blend a b c d uw vw ≤ hi := by
  have w1 : 0 ≤ (1 - uw) * (1 - vw) := mul_nonneg (by linarith [hu.2]) (by linarith [hv.2])
  have w2 : 0 ≤ uw * (1 - vw) := mul_nonneg hu.1 (by linarith [hv.2])
  have w3 : 0 ≤ (1 - uw) * vw := mul_nonneg (by linarith [hu.2]) hv.1
  have w4 : 0 ≤ uw * vw := mul_nonneg hu.1 hv.1
  have e : blend a b c d uw vw = a * ((1 - uw) * (1 - vw)) + b * (uw * (1 - vw)) + c * ((1 - uw) * vw) + d * (uw * vw) := by
    unfold blend; ring
  have one : (1 - uw) * (1 - vw) + uw * (1 - vw) + (1 - uw) * vw + uw * vw = 1 := by ring
  rw [e]
  constructor
  · nlinarith [mul_le_mul_of_nonneg_right ha.1 w1, mul_le_mul_of_nonneg_right hb.1 w2,
      mul_le_mul_of_nonneg_right hc.1 w3, mul_le_mul_of_nonneg_right hd.1 w4]
  · nlinarith [mul_le_mul_of_nonneg_right ha.2 w1, mul_le_mul_of_nonneg_right hb.2 w2,
      mul_le_mul_of_nonneg_right hc.2 w3, mul_le_mul_of_nonneg_right hd.2 w4]

/-- `DiffractionPatterns.interpolate` preserves the total of every pattern whose resampled values do not sum to
zero (`_partial`: the full statement "for every pattern" is false, see the counter-example below). -/
theorem interpolate_preserves_total_partial (H W : Nat) (sx sy : Rat) (x : List Rat) (H' W' : Nat) (sx' sy' : Rat) (y : List Rat)
    (hy : interpolate H W sx sy x H' W' sx' sy' = .ok y)
    (hne : sumList (bilinear H W x ((kgrid H' sx').map (nodeWeight (kgrid H sx))) ((kgrid W' sy').map (nodeWeight (kgrid W sy)))) ≠ 0) :
    sumList y = sumList x := by
  unfold interpolate at hy
  split at hy
  · cases hy
  · cases hy
    exact rescale_preserves_sum _ _ hne

/-- Negation witness (known finding): bilinear *point sampling* onto a coarser grid can miss an isolated bright pixel
completely; then nothing can be rescaled and the total intensity 1 becomes 0 (NaN before the zero-sum guard). -/
theorem interpolate_loses_isolated_pixel_counterexample :
    ¬ ∀ (H W : Nat) (sx sy : Rat) (x : List Rat) (H' W' : Nat) (sx' sy' : Rat) (y : List Rat),
        interpolate H W sx sy x H' W' sx' sy' = .ok y → sumList y = sumList x := by
  intro h
  have h1 := h 4 4 (1/8) (1/8) [0,0,0,0, 0,1,0,0, 0,0,0,0, 0,0,0,0] 2 2 (1/4) (1/4) [0,0,0,0] (by decide +kernel)
  revert h1
  decide +kernel

/-! ### gaussian_source_size commutes with integration -/

/-- **Filtering across the scan axes commutes with integrating over the detector axes** — for every linear map `g`
on scan positions (the Gaussian source-size kernel with wrap-around, or any other), every detector mask / weight `m`
(annular, polar-bin or any other integration region) and every 4-D data set `A`. -/
theorem filter_commutes_with_integration {S K R : Type*} [Fintype S] [Fintype K] [CommSemiring R]
    (g : S → S → R) (m : K → R) (A : S → K → R) :
    (fun s => ∑ k, m k * (∑ s', g s s' * A s' k)) = (fun s => ∑ s', g s s' * (∑ k, m k * A s' k)) := by
  funext s
  simp_rw [Finset.mul_sum]
  rw [Finset.sum_comm]
  apply Finset.sum_congr rfl; intro s' _
  apply Finset.sum_congr rfl; intro k _
  ring

/-- Both call sites convert the source size to pixels the same way (generated `sigma[i] / scan_sampling` of
`_gaussian_source_size` and `s / d` of `gaussian_filter`): with the image sampling equal to the scan sampling the two
Gaussian kernels of "filter then integrate" and "integrate then filter" have the same width. (That both calls use
`mode="wrap"` and that scipy builds the same kernel from the same sigma is observed by the oracle, not proved.) -/
theorem source_size_sigma_eq_filter_sigma (σ d : Rat) : sourceSigmaPixels σ d = filterSigmaPixels σ d := by
  unfold sourceSigmaPixels filterSigmaPixels; rfl

/-- `interpolate(gpts=…)`: the new sampling keeps the reciprocal-space extent `sampling × gpts` of each axis. -/
theorem gpts_route_keeps_extent (d oldN newN : Rat) (h : newN ≠ 0) : gptsRouteSampling d oldN newN * newN = d * oldN := by
  unfold gptsRouteSampling; field_simp

/-! ### Images.interpolate (Fourier method) -/

lemma bigPos_same (n p : Nat) (hp : p < n) : AbtemVerif.Props.C14.bigPos n n p = p := by
  unfold AbtemVerif.Props.C14.bigPos; split_ifs <;> omega

/-- On the same grid the Fourier crop copies every coefficient to its own position … -/
theorem crop1d_same_grid (x : List Int) (hn : 1 ≤ x.length) : crop1d x x.length = .ok x := by
  rw [AbtemVerif.Props.C14.crop1d_value x x.length hn (le_refl _)]
  congr 1
  apply List.ext_getElem
  · simp
  · intro i h1 h2
    have hi : i < x.length := h2
    simp only [List.getElem_map, List.getElem_range]
    rw [bigPos_same _ _ hi, List.getD_eq_getElem?_getD, List.getElem?_eq_getElem hi, Option.getD_some]

/-- … so **Fourier interpolation onto the same grid returns the input unchanged**, for every Fourier pair (the
`values` normalisation factor is `N/N = 1`). -/
theorem fourier_same_grid_identity {ι : Type*} [Fintype ι] [Nonempty ι] (P : FourierPair ι) (x : ι → ℂ) :
    (fun j => ((Fintype.card ι : ℂ) / (Fintype.card ι : ℂ)) * P.Finv (P.F x) j) = x := by
  have hN : (Fintype.card ι : ℂ) ≠ 0 := by
    have : 0 < Fintype.card ι := Fintype.card_pos
    exact_mod_cast (ne_of_gt this)
  funext j
  rw [P.inv_left, div_self hN, one_mul]

/-- the crop / pad keeps the zero-frequency coefficient at position 0 (C14's pairing) -/
theorem crop_keeps_dc (N n : Nat) (hn : 1 ≤ n) : AbtemVerif.Props.C14.bigPos N n 0 = 0 := by
  unfold AbtemVerif.Props.C14.bigPos
  rw [if_pos (by omega)]

/-- **Fourier interpolation preserves the image mean** (normalisation `values`): for every two Fourier pairs whose
zero-frequency coefficient is the sum (`F x 0 = Σ x`, `Σ F⁻¹ y = y 0` — the DFT), and every crop / pad that keeps the
zero-frequency coefficient, the mean of the `N₂/N₁`-scaled result equals the mean of the input. -/
theorem fourier_interpolate_preserves_mean {ι κ : Type*} [Fintype ι] [Fintype κ] [Nonempty ι] [Nonempty κ]
    (P : FourierPair ι) (Q : FourierPair κ) (i0 : ι) (k0 : κ)
    (hdc : ∀ x, P.F x i0 = ∑ j, x j) (hsum : ∀ y, ∑ j, Q.Finv y j = y k0)
    (crop : (ι → ℂ) → (κ → ℂ)) (hcrop : ∀ y, crop y k0 = y i0) (x : ι → ℂ) :
    (∑ j, ((Fintype.card κ : ℂ) / (Fintype.card ι : ℂ)) * Q.Finv (crop (P.F x)) j) / (Fintype.card κ : ℂ)
      = (∑ j, x j) / (Fintype.card ι : ℂ) := by
  have hN : (Fintype.card ι : ℂ) ≠ 0 := by
    have : 0 < Fintype.card ι := Fintype.card_pos
    exact_mod_cast (ne_of_gt this)
  have hM : (Fintype.card κ : ℂ) ≠ 0 := by
    have : 0 < Fintype.card κ := Fintype.card_pos
    exact_mod_cast (ne_of_gt this)
  rw [← Finset.mul_sum, hsum, hcrop, hdc]
  field_simp

/-- The same statement with the DFT's zero-frequency properties packaged as `HasDC` (proved for the 1-D and 2-D DFT in
`Lib/DFT.lean`, `Lib/DFT2.lean`) instead of two bare hypotheses. -/
theorem fourier_interpolate_preserves_mean_hasDC {ι κ : Type*} [Fintype ι] [Fintype κ] [Nonempty ι] [Nonempty κ]
    (P : FourierPair ι) (Q : FourierPair κ) (i0 : ι) (k0 : κ) (hP : P.HasDC i0) (hQ : Q.HasDC k0)
    (crop : (ι → ℂ) → (κ → ℂ)) (hcrop : ∀ y, crop y k0 = y i0) (x : ι → ℂ) :
    (∑ j, ((Fintype.card κ : ℂ) / (Fintype.card ι : ℂ)) * Q.Finv (crop (P.F x)) j) / (Fintype.card κ : ℂ)
      = (∑ j, x j) / (Fintype.card ι : ℂ) := by
  apply fourier_interpolate_preserves_mean P Q i0 k0 hP.dc _ crop hcrop x
  intro y
  rw [← hQ.dc (Q.Finv y), Q.inv_right]

/-- instance: resampling an `n × m` image to `n' × m'` with the 2-D DFT and any crop / pad that keeps the `(0,0)` coefficient -/
example (n m n' m' : ℕ) [NeZero n] [NeZero m] [NeZero n'] [NeZero m']
    (crop : (ZMod n × ZMod m → ℂ) → (ZMod n' × ZMod m' → ℂ)) (hcrop : ∀ y, crop y (0, 0) = y (0, 0)) (x : ZMod n × ZMod m → ℂ) :
    (∑ j, ((Fintype.card (ZMod n' × ZMod m') : ℂ) / (Fintype.card (ZMod n × ZMod m) : ℂ))
        * (zmodPair2 n' m').Finv (crop ((zmodPair2 n m).F x)) j) / (Fintype.card (ZMod n' × ZMod m') : ℂ)
      = (∑ j, x j) / (Fintype.card (ZMod n × ZMod m) : ℂ) :=
  fourier_interpolate_preserves_mean_hasDC (zmodPair2 n m) (zmodPair2 n' m') (0, 0) (0, 0) (zmodPair2_hasDC n m) (zmodPair2_hasDC n' m')
    crop hcrop x

/-- Negation witness (known finding `images-interpolate-own-sampling-changes-grid`): `Images.interpolate(sampling=d)`
counts `ceil(extent / d)` grid points (generated).  For an image of 3 pixels of size `d = 0.1` the extent evaluates in
binary64 to `0.30000000000000004 = 1351079888211149 / 2^52` while `0.1 = 3602879701896397 / 2^55`; their quotient exceeds
3, so the image's OWN sampling asks for 4 grid points: "the same grid" is not returned (exact values of the IEEE
doubles; the quotient is > 3 already in exact arithmetic). -/
theorem images_interpolate_own_sampling_counterexample :
    ¬ ∀ (n : Nat) (d extent : Rat), 0 < d → (n : Rat) * d ≤ extent → extent < ((n : Rat) + 1 / 1000000) * d →
        imagesGptsFromSampling extent d = (n : Int) := by
  intro h
  have h1 := h 3 (3602879701896397 / 36028797018963968) (1351079888211149 / 4503599627370496)
    (by norm_num) (by norm_num) (by norm_num)
  revert h1
  decide +kernel

/-! ### non-vacuity -/
example : rescale [1, 1, 2] 3 = [3/4, 3/4, 3/2] := by decide +kernel
example : interpolate 2 2 (1/2) (1/2) [1, 2, 3, 4] 3 3 (1/4) (1/4)
    = .ok [50/63, 20/21, 20/21, 10/9, 80/63, 80/63, 10/9, 80/63, 80/63] := by decide +kernel
example : crop1d [3, 1, 4, 1, 5] 5 = .ok [3, 1, 4, 1, 5] := by decide +kernel

end AbtemVerif.Props.C16
