/-
C38 — results do not depend on the FFT back end or the precision setting.  PARTIAL BY NATURE.

Full statement (not a theorem): every simulation gives the same arrays, to the tolerance of the configured precision,
under `fft ∈ {numpy, fftw, mkl}`, any `fftw.planning_effort`, and `precision ∈ {float32, float64}`.  Rounding of the
libraries cannot be exhibited by a model; it is validated numerically by the harness.

What is proved here, for all inputs:
* the dispatch logic (`_fft_dispatch`, generated `if` tests): the configured library is the one that runs, unknown names
  and missing libraries are rejected, the shipped defaults are valid;
* `get_dtype`: total on the two precisions, complex width matches real width, everything else is rejected;
* buffer discipline (`_fftw_dispatch`, `np.fft`, `_fft2_convolve`), for abstract array values and an arbitrary library
  transform `Ops.spec`: the *value* returned is the same expression for every back end, `overwrite_x` flag and broadcasting
  branch; the input buffer is preserved unless FFTW/MKL is asked to overwrite it; no other buffer is touched;
* the cached FFTW convolution as written: for every history of calls the plans used were created for exactly the array
  at hand (they are rebuilt on every call because `self._shape` is never assigned), so no shape or dtype switch can fail;
  the presumably intended caching variant would fail on a dtype switch (`assigning_shape_breaks_dtype_switch`);
* for Fourier pairs (Lib/DFT.lean): the inverse is determined by the forward transform, hence two libraries that compute
  the same forward DFT give identical convolutions / multipliers — with the buffer theorem: the convolution result does not
  depend on the library, the back end, `overwrite_x` or the broadcasting branch.
-/
import AbtemVerif.Model.FftDispatch
import AbtemVerif.Lib.DFT

namespace AbtemVerif.Props.C38
open AbtemVerif.Fft AbtemVerif.Gen.FftDispatch AbtemVerif.DFT

/-! ### dispatch -/

/-- The configured library is the one that runs (when it is installed). -/
theorem dispatch_supported (env : Env) :
    dispatch env "numpy" = .ok .numpy ∧
    (env.hasFftw = true → dispatch env "fftw" = .ok .fftw) ∧
    (env.hasMkl = true → dispatch env "mkl" = .ok .mkl) := by
  refine ⟨by simp [dispatch, isMkl, isFftw, isNumpy], ?_, ?_⟩
  · intro h; simp [dispatch, isMkl, isFftw, h]
  · intro h; simp [dispatch, isMkl, h]

/-- A configured library that is not installed is an error (RuntimeError), never a silent fallback. -/
theorem dispatch_missing_library (env : Env) :
    (env.hasFftw = false → dispatch env "fftw" = .error "runtime_error") ∧
    (env.hasMkl = false → dispatch env "mkl" = .error "runtime_error") := by
  constructor
  · intro h; simp [dispatch, isMkl, isFftw, h]
  · intro h; simp [dispatch, isMkl, h]

/-- Any other value of the `fft` key is rejected. -/
theorem dispatch_unknown (env : Env) (cfg : String) (h1 : cfg ≠ "mkl") (h2 : cfg ≠ "fftw") (h3 : cfg ≠ "numpy") :
    dispatch env cfg = .error "runtime_error" := by
  simp [dispatch, isMkl, isFftw, isNumpy, h1, h2, h3]

/-- Whatever runs is one of the three libraries, chosen by name only (never by the data). -/
theorem dispatch_by_name_only (env : Env) (cfg : String) (b : Backend) (h : dispatch env cfg = .ok b) :
    (b = .numpy ∧ cfg = "numpy") ∨ (b = .fftw ∧ cfg = "fftw") ∨ (b = .mkl ∧ cfg = "mkl") := by
  unfold dispatch at h
  simp only [isMkl, isFftw, isNumpy, decide_eq_true_eq] at h
  split_ifs at h with h1 h2 h3 h4 h5 <;> simp_all

/-- The defaults shipped in abtem.yaml select an existing library (FFTW when installed) and a valid precision. -/
theorem defaults_valid (hasMkl cplx : Bool) :
    (dispatch ⟨true, hasMkl⟩ defaultFft).isOk = true ∧ (getDtype defaultPrecision cplx).isOk = true := by
  cases hasMkl <;> cases cplx <;> decide

/-- **The propagator's own dispatch site** (`FresnelPropagator.propagate`, multislice.py) obeys the same rules: the configured
library is the one used on either route, and a configured library that is missing is a RuntimeError on both routes. -/
theorem propagate_route (env : Env) (cfg : String) (isNp : Bool) :
    (∀ r, propagateRoute env cfg isNp = .ok r →
        (r = .cachedFftw ∧ cfg = "fftw" ∧ isNp = true ∧ env.hasFftw = true) ∨ (∃ b, r = .dispatched b ∧ dispatch env cfg = .ok b)) ∧
    (cfg = "fftw" → env.hasFftw = false → propagateRoute env cfg isNp = .error "runtime_error") := by
  constructor
  · intro r h
    unfold propagateRoute at h
    by_cases ht : propagatorUsesCachedFftw cfg isNp = true
    · simp only [ht, if_true] at h
      by_cases hf : env.hasFftw = true
      · simp only [hf, if_true, Except.ok.injEq] at h
        simp only [propagatorUsesCachedFftw, Bool.and_eq_true, decide_eq_true_eq] at ht
        exact Or.inl ⟨h.symm, ht.1, ht.2, hf⟩
      · simp [hf] at h
    · simp only [ht] at h
      cases hd : dispatch env cfg with
      | error e => simp [hd, Except.map] at h
      | ok b => simp [hd, Except.map] at h; exact Or.inr ⟨b, h.symm, rfl⟩
  · intro hc hf
    subst hc
    cases isNp <;> simp [propagateRoute, propagatorUsesCachedFftw, hf, dispatch, isMkl, isFftw, Except.map]

/-! ### precision -/

/-- `get_dtype` on the two supported precisions. -/
theorem getDtype_table :
    getDtype "float32" false = .ok .float32 ∧ getDtype "float32" true = .ok .complex64 ∧
    getDtype "float64" false = .ok .float64 ∧ getDtype "float64" true = .ok .complex128 := by decide

/-- Any other precision string is rejected (RuntimeError), for real and complex requests alike. -/
theorem getDtype_unknown (p : String) (c : Bool) (h1 : p ≠ "float32") (h2 : p ≠ "float64") :
    getDtype p c = .error "runtime_error" := by
  simp [getDtype, dtypeTest0, dtypeTest1, dtypeTest2, dtypeTest3, h1, h2]

/-- Real and complex dtypes always have the same width: single with single, double with double. -/
theorem getDtype_widths_match (p : String) :
    (getDtype p false = .ok .float32 ↔ getDtype p true = .ok .complex64) ∧
    (getDtype p false = .ok .float64 ↔ getDtype p true = .ok .complex128) := by
  by_cases h1 : p = "float32"
  · subst h1; decide
  · by_cases h2 : p = "float64"
    · subst h2; decide
    · simp [getDtype_unknown p _ h1 h2]

/-! ### buffers: what a transform and a convolution return, and what they leave behind -/

variable {α : Type}

/-- The buffer returned by a transform holds `spec name (input)`, for every back end and `overwrite_x`. -/
theorem fftCall_value (ops : Ops α) (b : Backend) (name : String) (ow : Bool) (m : Mem α) (x : Nat) (v : α)
    (hx : m.get x = some v) :
    ∃ m' out, fftCall ops b name ow m x = some (m', out) ∧ m'.get out = some (ops.spec name v) := by
  have hlt : x < m.cells.length := by
    unfold Mem.get at hx
    exact (List.getElem?_eq_some_iff.mp hx).1
  unfold fftCall
  rw [hx]
  cases b <;> cases ow <;> simp [Mem.alloc, Mem.set, Mem.get, hlt]

/-- Frame: a transform touches no buffer other than its input, and the input only when FFTW/MKL may overwrite it. -/
theorem fftCall_frame (ops : Ops α) (b : Backend) (name : String) (ow : Bool) (m m' : Mem α) (x out : Nat)
    (h : fftCall ops b name ow m x = some (m', out)) (y : Nat) (hy : y < m.cells.length)
    (hyx : y ≠ x ∨ b = .numpy ∨ ow = false) : m'.get y = m.get y := by
  unfold fftCall at h
  cases hv : m.get x with
  | none => simp [hv] at h
  | some v =>
    simp only [hv] at h
    cases b <;> cases ow <;> simp [Mem.alloc, Mem.set] at h <;> obtain ⟨rfl, rfl⟩ := h
    all_goals first
      | (simp [Mem.get, List.getElem?_append_left hy]; done)
      | (rcases hyx with hyx | hyx | hyx
         · simp [Mem.get, List.getElem?_set_ne (Ne.symm hyx)]
         · simp at hyx
         · simp at hyx)

/-- **The value of a convolution is the same expression for every back end, `overwrite_x` flag and broadcasting branch**:
`ifft2(fft2(x) · kernel)`. -/
theorem convolve_value (ops : Ops α) (b : Backend) (ow ip : Bool) (k : α) (m : Mem α) (x : Nat) (v : α) (hx : m.get x = some v) :
    ∃ m' out, convolve ops b ow ip k m x = some (m', out) ∧
      m'.get out = some (ops.spec "ifft2" (ops.mulK (ops.spec "fft2" v) k)) := by
  obtain ⟨m1, a, h1, ha⟩ := fftCall_value ops b "fft2" ow m x v hx
  have hlt : a < m1.cells.length := by
    unfold Mem.get at ha
    exact (List.getElem?_eq_some_iff.mp ha).1
  unfold convolve
  rw [h1]
  simp only [ha]
  cases ip
  · -- out-of-place product
    have h2 : (m1.alloc (ops.mulK (ops.spec "fft2" v) k)).1.get (m1.alloc (ops.mulK (ops.spec "fft2" v) k)).2
        = some (ops.mulK (ops.spec "fft2" v) k) := by simp [Mem.alloc, Mem.get]
    obtain ⟨m3, out, h3, hout⟩ := fftCall_value ops b "ifft2" ow _ _ _ h2
    exact ⟨m3, out, by simpa using h3, hout⟩
  · have h2 : (m1.set a (ops.mulK (ops.spec "fft2" v) k)).get a = some (ops.mulK (ops.spec "fft2" v) k) := by
      simp [Mem.set, Mem.get, hlt]
    obtain ⟨m3, out, h3, hout⟩ := fftCall_value ops b "ifft2" ow _ _ _ h2
    exact ⟨m3, out, by simpa using h3, hout⟩

/-- Two runs of the same convolution under different back ends / flags return the same value. -/
theorem convolve_backend_independent (ops : Ops α) (b₁ b₂ : Backend) (ow₁ ow₂ ip₁ ip₂ : Bool) (k : α) (m : Mem α) (x : Nat) (v : α)
    (hx : m.get x = some v) :
    ∃ m₁ o₁ m₂ o₂, convolve ops b₁ ow₁ ip₁ k m x = some (m₁, o₁) ∧ convolve ops b₂ ow₂ ip₂ k m x = some (m₂, o₂) ∧
      m₁.get o₁ = m₂.get o₂ := by
  obtain ⟨m₁, o₁, h₁, e₁⟩ := convolve_value ops b₁ ow₁ ip₁ k m x v hx
  obtain ⟨m₂, o₂, h₂, e₂⟩ := convolve_value ops b₂ ow₂ ip₂ k m x v hx
  exact ⟨m₁, o₁, m₂, o₂, h₁, h₂, by rw [e₁, e₂]⟩

/-- With `overwrite_x = False`, or with NumPy, a transform leaves its input exactly as it was. -/
theorem fftCall_input_preserved (ops : Ops α) (b : Backend) (name : String) (ow : Bool) (m m' : Mem α) (x out : Nat)
    (h : fftCall ops b name ow m x = some (m', out)) (hsafe : b = .numpy ∨ ow = false) : m'.get x = m.get x := by
  have hlt : x < m.cells.length := by
    unfold fftCall at h
    cases hv : m.get x with
    | none => simp [hv] at h
    | some v => unfold Mem.get at hv; exact (List.getElem?_eq_some_iff.mp hv).1
  exact fftCall_frame ops b name ow m m' x out h x hlt (Or.inr hsafe)

/-! ### the cached FFTW convolution -/

/-- As written, every call builds its plans for exactly the array at hand (`self._shape` stays `None`). -/
theorem cached_step_fresh (st : CacheState) (hs : st.shape = none) (shape dtype : Nat) :
    cachedStep false st shape dtype = .ok ⟨none, some ⟨shape, dtype⟩, st.created + 2⟩ := by
  simp [cachedStep, cacheShapeChanged, hs]

/-- **No history of shape / dtype switches can make the cached convolution fail or use a stale plan**: every call
succeeds, and the trace shows one fresh pair of plans per call. -/
theorem cached_never_stale (hist : List (Nat × Nat)) (st : CacheState) (hs : st.shape = none) :
    cachedRun false st hist = .ok ((List.range hist.length).map fun i => st.created + 2 * (i + 1)) := by
  induction hist generalizing st with
  | nil => simp [cachedRun]
  | cons sd rest ih =>
    obtain ⟨s, d⟩ := sd
    have hstep := cached_step_fresh st hs s d
    simp only [cachedRun, hstep]
    rw [ih ⟨none, some ⟨s, d⟩, st.created + 2⟩ rfl]
    simp only [List.length_cons, List.range_succ_eq_map, List.map_cons, List.map_map]
    congr 1
    · congr 1
      apply List.map_congr_left; intro i _
      simp only [Function.comp]; omega

/-- The presumably intended variant (remember the shape, reuse the plans) fails when only the dtype changes:
the plans of the first call are applied to an array of another dtype.  (This is why "fixing" the cache by assigning
`self._shape` alone would make results depend on the precision history.) -/
theorem assigning_shape_breaks_dtype_switch :
    cachedRun true CacheState.init [(1, 1), (1, 2)] = .error "value_error" := by decide

/-! ### Fourier pairs: the library cannot matter -/

variable {ι : Type} [Fintype ι]

/-- The inverse transform is determined by the forward transform. -/
theorem inverse_unique (P Q : FourierPair ι) (h : ∀ x, P.F x = Q.F x) (y : ι → ℂ) : P.Finv y = Q.Finv y := by
  calc P.Finv y = P.Finv (Q.F (Q.Finv y)) := by rw [Q.inv_right]
    _ = P.Finv (P.F (Q.Finv y)) := by rw [h]
    _ = Q.Finv y := P.inv_left _

/-- Two libraries that compute the same forward DFT give identical Fourier multipliers (propagators, CTFs,
apertures, shifts, convolutions). -/
theorem libraries_agree_on_multipliers (P Q : FourierPair ι) (h : ∀ x, P.F x = Q.F x) (m x : ι → ℂ) :
    P.mult m x = Q.mult m x := by
  unfold FourierPair.mult
  rw [inverse_unique P Q h, h]

/-- array operations of a library implementing the Fourier pair `P` -/
noncomputable def pairOps (P : FourierPair ι) : Ops (ι → ℂ) where
  spec := fun name v => if name = "fft2" then P.F v else if name = "ifft2" then P.Finv v else v
  mulK := fun v k => fun i => k i * v i

/-- `_fft2_convolve` computes the Fourier multiplier `F⁻¹(kernel · F x)` of Lib/DFT.lean under every back end and flag … -/
theorem convolve_is_multiplier (P : FourierPair ι) (b : Backend) (ow ip : Bool) (k : ι → ℂ) (m : Mem (ι → ℂ)) (x : Nat)
    (v : ι → ℂ) (hx : m.get x = some v) :
    ∃ m' out, convolve (pairOps P) b ow ip k m x = some (m', out) ∧ m'.get out = some (P.mult k v) := by
  obtain ⟨m', out, h, e⟩ := convolve_value (pairOps P) b ow ip k m x v hx
  refine ⟨m', out, h, ?_⟩
  rw [e]
  simp [pairOps, FourierPair.mult]

/-- … hence the result depends neither on the library (`P`, `Q` with the same forward transform), nor on the back end
selected, nor on `overwrite_x`, nor on the broadcasting branch. -/
theorem convolution_independent_of_backend_and_library (P Q : FourierPair ι) (h : ∀ x, P.F x = Q.F x)
    (b₁ b₂ : Backend) (ow₁ ow₂ ip₁ ip₂ : Bool) (k : ι → ℂ) (m : Mem (ι → ℂ)) (x : Nat) (v : ι → ℂ) (hx : m.get x = some v) :
    ∃ m₁ o₁ m₂ o₂, convolve (pairOps P) b₁ ow₁ ip₁ k m x = some (m₁, o₁) ∧ convolve (pairOps Q) b₂ ow₂ ip₂ k m x = some (m₂, o₂) ∧
      m₁.get o₁ = m₂.get o₂ := by
  obtain ⟨m₁, o₁, h₁, e₁⟩ := convolve_is_multiplier P b₁ ow₁ ip₁ k m x v hx
  obtain ⟨m₂, o₂, h₂, e₂⟩ := convolve_is_multiplier Q b₂ ow₂ ip₂ k m x v hx
  exact ⟨m₁, o₁, m₂, o₂, h₁, h₂, by rw [e₁, e₂, libraries_agree_on_multipliers P Q h]⟩

/-! ### non-vacuity -/
example : dispatch ⟨true, false⟩ "fftw" = .ok .fftw ∧ dispatch ⟨false, false⟩ "fftw" = .error "runtime_error" := by decide
example : (⟨["x"]⟩ : Mem String).get 0 = some "x" := rfl
example : cachedRun false CacheState.init [(1, 1), (1, 1), (1, 2), (2, 1)] = .ok [2, 4, 6, 8] := by decide
example : ∃ P : FourierPair (ZMod 4), ∀ x, P.F x = (zmodPair 4).F x := ⟨zmodPair 4, fun _ => rfl⟩

end AbtemVerif.Props.C38
