/-
C24 — Electron energy relations match relativistic kinematics.

All statements are about the definitions of `Gen/EnergyR.lean`, which tools/py2lean.py regenerates from the
*whole bodies* of `relativistic_mass_correction`, `energy2mass`, `energy2wavelength`, `energy2sigma` and
`reciprocal_space_sampling_to_angular_sampling` (abtem/core/energy.py) on every run, including the
`if energy <= 0: raise ValueError` guard.  The eight `ase.units` constants are explicit parameters:
the theorems hold for every positive value of them, and `Gen/EnergyConstsR.lean` (the values of the
installed ase, read at generation time) instantiates them at the end of the file.

Quantifiers: every real energy (positive for the kinematics, non-positive for the rejection), every
tuple of reciprocal samplings, every positive value of h, c, mₑ, e (and of the derived unit factors).
-/
import AbtemVerif.Gen.EnergyR
import AbtemVerif.Gen.EnergyConstsR
import Mathlib.Analysis.SpecialFunctions.Sqrt
import Mathlib.Analysis.SpecialFunctions.Trigonometric.Basic
import Mathlib.Tactic.FieldSimp
import Mathlib.Tactic.Ring
import Mathlib.Tactic.Linarith
import Mathlib.Tactic.Positivity
import Mathlib.Tactic.NormNum

namespace AbtemVerif.Props.C24
open AbtemVerif.Gen.EnergyR

/-- The textbook relativistic de Broglie wavelength in Å: `h c / √(eE (eE + 2 m c²)) · 10¹⁰`
(`E` in eV, `e` the elementary charge, so `eE` is the kinetic energy in J). -/
noncomputable def lambdaSpec (E h c m e : ℝ) : ℝ :=
  h * c / Real.sqrt (e * E * (e * E + 2 * m * c ^ 2)) * 10 ^ 10

/-- The radicand `eE (eE + 2 m c²)` = `(pc)²`. -/
lemma radicand_pos {E c m e : ℝ} (hE : 0 < E) (hc : 0 < c) (hm : 0 < m) (he : 0 < e) :
    0 < e * E * (e * E + 2 * m * c ^ 2) := by positivity

/-! ### acceptance / rejection -/

/-- Non-positive energies are rejected by `energy2wavelength` (ValueError). -/
theorem nonpositive_rejected (E hplanck c me qe kg C s J : ℝ) (hE : E ≤ 0) :
    energy2wavelength E hplanck c me qe kg C s J = .error "value_error" := by
  simp [energy2wavelength, hE]

/-- … and therefore by the interaction parameter and by the angular-sampling conversion. -/
theorem nonpositive_rejected_sigma (E hplanck c me qe kg C s J : ℝ) (hE : E ≤ 0) :
    energy2sigma E hplanck c me qe kg C s J = .error "value_error" := by
  simp [energy2sigma, nonpositive_rejected E hplanck c me qe kg C s J hE]

theorem nonpositive_rejected_angular (ds : List ℝ) (E hplanck c me qe kg C s J : ℝ) (hE : E ≤ 0) :
    angularSampling ds E hplanck c me qe kg C s J = .error "value_error" := by
  simp [angularSampling, nonpositive_rejected E hplanck c me qe kg C s J hE]

/-- The guard rejects exactly the non-positive energies. -/
theorem rejected_iff_nonpositive (E hplanck c me qe kg C s J : ℝ) :
    (∃ k, energy2wavelength E hplanck c me qe kg C s J = .error k) ↔ E ≤ 0 := by
  constructor
  · rintro ⟨k, hk⟩
    by_contra h
    simp [energy2wavelength, h] at hk
  · intro h; exact ⟨_, nonpositive_rejected E hplanck c me qe kg C s J h⟩

/-! ### wavelength -/

/-- For positive energy the code's expression `h c / √(E (2 m c²/e + E)) / e · 10¹⁰` is the
relativistic de Broglie wavelength `h c / √(eE (eE + 2 m c²)) · 10¹⁰`. -/
theorem wavelength_formula (E hplanck c me qe kg C s J : ℝ) (hE : 0 < E) (he : 0 < qe) :
    energy2wavelength E hplanck c me qe kg C s J = .ok (lambdaSpec E hplanck c me qe) := by
  have hE' : ¬ E ≤ 0 := not_le.mpr hE
  have key : qe * E * (qe * E + 2 * me * c ^ 2) = qe ^ 2 * (E * (2 * me * c ^ 2 / qe + E)) := by
    field_simp
    ring
  simp only [energy2wavelength, hE', decide_false, Bool.false_eq_true, if_false, lambdaSpec]
  rw [key, Real.sqrt_mul (sq_nonneg qe), Real.sqrt_sq he.le, div_div, mul_comm (Real.sqrt _) qe]
  norm_num

/-- The wavelength is positive. -/
theorem wavelength_pos (E hplanck c me qe kg C s J lam : ℝ) (hE : 0 < E) (hh : 0 < hplanck) (hc : 0 < c)
    (hm : 0 < me) (he : 0 < qe) (h : energy2wavelength E hplanck c me qe kg C s J = .ok lam) : 0 < lam := by
  rw [wavelength_formula E hplanck c me qe kg C s J hE he] at h
  cases h
  have := Real.sqrt_pos.mpr (radicand_pos hE hc hm he)
  unfold lambdaSpec; positivity

/-- The closed form strictly decreases with energy on `E > 0`. -/
theorem lambdaSpec_strictAntiOn (h c m e : ℝ) (hh : 0 < h) (hc : 0 < c) (hm : 0 < m) (he : 0 < e) :
    StrictAntiOn (fun E => lambdaSpec E h c m e) (Set.Ioi 0) := by
  intro E₁ h₁ E₂ h₂ h12
  have h₁ : 0 < E₁ := h₁
  have h₂ : 0 < E₂ := h₂
  have r₁ := radicand_pos h₁ hc hm he
  have hlt : e * E₁ * (e * E₁ + 2 * m * c ^ 2) < e * E₂ * (e * E₂ + 2 * m * c ^ 2) := by
    have a : e * E₁ < e * E₂ := by nlinarith
    have b : 0 < e * E₁ := by positivity
    have d : 0 < 2 * m * c ^ 2 := by positivity
    nlinarith
  have hs : Real.sqrt (e * E₁ * (e * E₁ + 2 * m * c ^ 2)) < Real.sqrt (e * E₂ * (e * E₂ + 2 * m * c ^ 2)) :=
    Real.sqrt_lt_sqrt r₁.le hlt
  have hs₁ := Real.sqrt_pos.mpr r₁
  show lambdaSpec E₂ h c m e < lambdaSpec E₁ h c m e
  unfold lambdaSpec
  have hhc : 0 < h * c := by positivity
  have : h * c / Real.sqrt (e * E₂ * (e * E₂ + 2 * m * c ^ 2)) < h * c / Real.sqrt (e * E₁ * (e * E₁ + 2 * m * c ^ 2)) :=
    div_lt_div_of_pos_left hhc hs₁ hs
  have h10 : (0 : ℝ) < 10 ^ 10 := by positivity
  exact mul_lt_mul_of_pos_right this h10

/-- The value returned by the code strictly decreases with energy. -/
theorem wavelength_strictAnti (E₁ E₂ hplanck c me qe kg C s J l₁ l₂ : ℝ) (h₁ : 0 < E₁) (h12 : E₁ < E₂)
    (hh : 0 < hplanck) (hc : 0 < c) (hm : 0 < me) (he : 0 < qe)
    (e₁ : energy2wavelength E₁ hplanck c me qe kg C s J = .ok l₁)
    (e₂ : energy2wavelength E₂ hplanck c me qe kg C s J = .ok l₂) : l₂ < l₁ := by
  rw [wavelength_formula _ _ _ _ _ _ _ _ _ h₁ he] at e₁
  rw [wavelength_formula _ _ _ _ _ _ _ _ _ (h₁.trans h12) he] at e₂
  cases e₁; cases e₂
  exact lambdaSpec_strictAntiOn hplanck c me qe hh hc hm he (Set.mem_Ioi.mpr h₁) (Set.mem_Ioi.mpr (h₁.trans h12)) h12

/-- The relativistic wavelength is shorter than the non-relativistic one `h/√(2 m eE)`. -/
theorem wavelength_lt_nonrelativistic (E h c m e : ℝ) (hE : 0 < E) (hh : 0 < h) (hc : 0 < c) (hm : 0 < m) (he : 0 < e) :
    lambdaSpec E h c m e < h / Real.sqrt (2 * m * (e * E)) * 10 ^ 10 := by
  unfold lambdaSpec
  have h10 : (0 : ℝ) < 10 ^ 10 := by positivity
  apply mul_lt_mul_of_pos_right _ h10
  have hnr : 0 < 2 * m * (e * E) := by positivity
  have hsn := Real.sqrt_pos.mpr hnr
  have e1 : h / Real.sqrt (2 * m * (e * E)) = h * c / (c * Real.sqrt (2 * m * (e * E))) := by
    field_simp
  have e2 : c * Real.sqrt (2 * m * (e * E)) = Real.sqrt (c ^ 2 * (2 * m * (e * E))) := by
    rw [Real.sqrt_mul (sq_nonneg c), Real.sqrt_sq hc.le]
  rw [e1, e2]
  have hpos : 0 < c ^ 2 * (2 * m * (e * E)) := by positivity
  apply div_lt_div_of_pos_left (by positivity) (Real.sqrt_pos.mpr hpos)
  apply Real.sqrt_lt_sqrt hpos.le
  have : 0 < (e * E) ^ 2 := by positivity
  nlinarith

/-! ### relativistic mass and the energy–momentum relation -/

/-- `relativistic_mass_correction` is the Lorentz factor `γ = 1 + eE/(m c²)`; the relativistic mass
times `c²` is rest energy plus kinetic energy. -/
theorem mass_energy (E hplanck c me qe kg C s J : ℝ) (hc : c ≠ 0) (hm : me ≠ 0) :
    energy2mass E hplanck c me qe kg C s J * c ^ 2 = me * c ^ 2 + qe * E := by
  unfold energy2mass relativisticMassCorrection
  field_simp

/-- γ ≥ 1 for non-negative energies and is strictly increasing in the energy. -/
theorem mass_correction_ge_one (E hplanck c me qe kg C s J : ℝ) (hE : 0 ≤ E) (hc : 0 < c) (hm : 0 < me) (he : 0 < qe) :
    1 ≤ relativisticMassCorrection E hplanck c me qe kg C s J := by
  unfold relativisticMassCorrection
  have : 0 ≤ qe * E / (me * c ^ 2) := by positivity
  linarith

/-- Energy–momentum relation: with `p = h/λ` (λ converted from Å to m) and `M = γ m`:
`(p c)² + (m c²)² = (M c²)²`. -/
theorem energy_momentum (E hplanck c me qe kg C s J lam : ℝ) (hE : 0 < E) (hh : 0 < hplanck) (hc : 0 < c)
    (hm : 0 < me) (he : 0 < qe) (h : energy2wavelength E hplanck c me qe kg C s J = .ok lam) :
    (hplanck / (lam * 10⁻¹ ^ 10) * c) ^ 2 + (me * c ^ 2) ^ 2 = (energy2mass E hplanck c me qe kg C s J * c ^ 2) ^ 2 := by
  rw [wavelength_formula E hplanck c me qe kg C s J hE he] at h
  cases h
  rw [mass_energy E hplanck c me qe kg C s J hc.ne' hm.ne']
  have r := radicand_pos hE hc hm he
  have hs := Real.sqrt_pos.mpr r
  have hp : hplanck / (lambdaSpec E hplanck c me qe * 10⁻¹ ^ 10) * c = Real.sqrt (qe * E * (qe * E + 2 * me * c ^ 2)) := by
    unfold lambdaSpec
    field_simp
  rw [hp, Real.sq_sqrt r.le]
  ring

/-! ### interaction parameter -/

/-- With ase's unit system (`J = C = 1/e`, `kg = 1/amu`, `s² = 10²⁰ e/amu`) the code's expression is
`σ = 2π M e λ / h² · 10⁻²⁰` with the relativistic mass `M = γ m` and λ in Å. -/
theorem sigma_formula (E hplanck c me qe kg C s J amu : ℝ) (hE : 0 < E) (hh : 0 < hplanck) (he : 0 < qe) (ha : 0 < amu)
    (hJ : J = 1 / qe) (hC : C = 1 / qe) (hkg : kg = 1 / amu) (hs : s ^ 2 = 10 ^ 20 * qe / amu) :
    energy2sigma E hplanck c me qe kg C s J
      = .ok (2 * Real.pi * energy2mass E hplanck c me qe kg C s J * qe * lambdaSpec E hplanck c me qe / hplanck ^ 2 * 10⁻¹ ^ 20) := by
  simp only [energy2sigma, wavelength_formula E hplanck c me qe kg C s J hE he]
  congr 1
  rw [mul_pow, mul_pow, hs, hJ, hC, hkg]
  field_simp

/-- The interaction parameter is positive (for any positive unit factors). -/
theorem sigma_pos (E hplanck c me qe kg C s J sig : ℝ) (hE : 0 < E) (hh : 0 < hplanck) (hc : 0 < c) (hm : 0 < me)
    (he : 0 < qe) (hkg : 0 < kg) (hC : 0 < C) (hs : 0 < s) (hJ : 0 < J)
    (h : energy2sigma E hplanck c me qe kg C s J = .ok sig) : 0 < sig := by
  simp only [energy2sigma, wavelength_formula E hplanck c me qe kg C s J hE he] at h
  cases h
  have hl : 0 < lambdaSpec E hplanck c me qe := by
    have := Real.sqrt_pos.mpr (radicand_pos hE hc hm he)
    unfold lambdaSpec; positivity
  have hM : 0 < energy2mass E hplanck c me qe kg C s J := by
    have := mass_correction_ge_one E hplanck c me qe kg C s J hE.le hc hm he
    unfold energy2mass; positivity
  have := Real.pi_pos
  positivity

/-! ### angular sampling -/

/-- Angular sampling [mrad] = reciprocal sampling [1/Å] × wavelength [Å] × 10³, component by component. -/
theorem angular_sampling_formula (ds : List ℝ) (E hplanck c me qe kg C s J : ℝ) (hE : 0 < E) (he : 0 < qe) :
    angularSampling ds E hplanck c me qe kg C s J = .ok (ds.map fun d => d * 1000 * lambdaSpec E hplanck c me qe) := by
  simp only [angularSampling, wavelength_formula E hplanck c me qe kg C s J hE he]

/-! ### instantiation at the constants of the installed `ase.units` -/
section ase
open AbtemVerif.Gen.EnergyConstsR

lemma ase_pos : 0 < hplanck ∧ 0 < c ∧ 0 < me ∧ 0 < qe ∧ 0 < kg ∧ 0 < C ∧ 0 < s ∧ 0 < J := by
  unfold hplanck c me qe kg C s J
  norm_num

/-- With the actual constants: every positive energy is accepted with a positive wavelength equal to the
closed form, and a positive interaction parameter. -/
theorem ase_wavelength_sigma_pos (E : ℝ) (hE : 0 < E) :
    energy2wavelength E hplanck c me qe kg C s J = .ok (lambdaSpec E hplanck c me qe)
      ∧ 0 < lambdaSpec E hplanck c me qe
      ∧ ∃ sig, energy2sigma E hplanck c me qe kg C s J = .ok sig ∧ 0 < sig := by
  obtain ⟨hh, hc, hm, he, hkg, hC, hs, hJ⟩ := ase_pos
  have hw := wavelength_formula E hplanck c me qe kg C s J hE he
  refine ⟨hw, wavelength_pos E hplanck c me qe kg C s J _ hE hh hc hm he hw, ?_⟩
  have : ∃ sig, energy2sigma E hplanck c me qe kg C s J = .ok sig := by
    simp only [energy2sigma, hw]; exact ⟨_, rfl⟩
  obtain ⟨sig, hsig⟩ := this
  exact ⟨sig, hsig, sigma_pos E hplanck c me qe kg C s J sig hE hh hc hm he hkg hC hs hJ hsig⟩

/-- With the actual constants the wavelength strictly decreases with energy. -/
theorem ase_wavelength_strictAntiOn :
    StrictAntiOn (fun E => lambdaSpec E hplanck c me qe) (Set.Ioi 0) := by
  obtain ⟨hh, hc, hm, he, -⟩ := ase_pos
  exact lambdaSpec_strictAntiOn hplanck c me qe hh hc hm he

/-- the unit factor by which the code's sigma differs from `2π M e λ / h² · 10⁻²⁰` -/
noncomputable def unitRatio : ℝ := kg * C * 10 ^ 20 / (s ^ 2 * J ^ 2)

/-- at the constants of the installed ase the unit factor is 1 to within 10⁻¹⁵ (exact rational arithmetic on the float64 values) -/
theorem unitRatio_close : |unitRatio - 1| ≤ 1 / 10 ^ 15 := by
  unfold unitRatio kg C s J
  rw [abs_le]
  constructor <;> norm_num

/-- At the actual constants (where ase's unit relations `J = 1/e`, `kg = 1/amu`, `s² = 10²⁰e/amu` hold only up to float64 rounding, so
`sigma_formula` cannot be instantiated) the code's sigma is `2π M e λ / h² · 10⁻²⁰` times `unitRatio`, `|unitRatio − 1| ≤ 10⁻¹⁵`. -/
theorem ase_sigma_formula (E : ℝ) (hE : 0 < E) :
    energy2sigma E hplanck c me qe kg C s J
      = .ok (2 * Real.pi * energy2mass E hplanck c me qe kg C s J * qe * lambdaSpec E hplanck c me qe / hplanck ^ 2 * 10⁻¹ ^ 20
              * unitRatio) := by
  obtain ⟨hh, hc, hm, he, hkg, hC, hs, hJ⟩ := ase_pos
  simp only [energy2sigma, wavelength_formula E hplanck c me qe kg C s J hE he]
  congr 1
  unfold unitRatio
  field_simp

end ase

/-! ### non-vacuity -/
example : energy2wavelength 1 1 1 1 1 1 1 1 1 = .ok (lambdaSpec 1 1 1 1 1) :=
  wavelength_formula 1 1 1 1 1 1 1 1 1 one_pos one_pos
example : energy2wavelength (-1) 1 1 1 1 1 1 1 1 = .error "value_error" :=
  nonpositive_rejected (-1) 1 1 1 1 1 1 1 1 (by norm_num)
/-- the unit relations of `sigma_formula` are satisfiable -/
example : ∃ qe amu s J C kg : ℝ, 0 < qe ∧ 0 < amu ∧ J = 1 / qe ∧ C = 1 / qe ∧ kg = 1 / amu ∧ s ^ 2 = 10 ^ 20 * qe / amu :=
  ⟨1, 1, 10 ^ 10, 1, 1, 1, one_pos, one_pos, by norm_num, by norm_num, by norm_num, by norm_num⟩

end AbtemVerif.Props.C24
