/-
C26 — Bloch-wave dynamical diffraction conserves intensity.

Code (abtem/bloch/dynamical.py):
  calculate_structure_matrix      A[i,j] = U(h_j − h_i) · prefactor·M_i·M_j  (i ≠ j),   A[i,i] = 2/λ · s_i · M_i
  calculate_dynamical_scattering  v, C = eigh(A);  γ = v λ / 2;  C_inv = Cᴴ / M[None];  C ← M[:,None]·C;
                                  ψ(t) = C @ (exp(2πi t γ) * (C_inv @ ψ₀))
  calculate_scattering_matrix     S = M · expm(iπ z A λ) · M⁻¹
All scalar expressions above are the *generated* definitions of `Gen/BlochR.lean`, `Gen/BlochC.lean`
(regenerated from the source on every run).

Named numerical assumptions, explicit hypotheses (never axioms):
  EIGH  `Eigh A v C`: `numpy.linalg.eigh` returns real `v` and `C` with `Cᴴ C = 1` and `A = C diag(v) Cᴴ`
        (satisfiable for every Hermitian `A`: `eigh_exists`, from Mathlib's spectral theorem);
  EXPM  scipy `expm` computes the matrix exponential `NormedSpace.exp`.
Quantifiers: every finite beam set `n`, every complex matrix/real spectrum satisfying EIGH, all real
thicknesses, wavelengths, non-zero `M`, every incident vector.
-/
import AbtemVerif.Gen.Bloch
import AbtemVerif.Model.Bloch
import Mathlib.Data.List.Basic
import AbtemVerif.Gen.BlochR
import AbtemVerif.Gen.BlochC
import Mathlib.Analysis.Normed.Algebra.MatrixExponential
import Mathlib.Analysis.SpecialFunctions.Exponential
import Mathlib.Analysis.Matrix.Spectrum
import Mathlib.LinearAlgebra.Matrix.Hermitian
import Mathlib.LinearAlgebra.Matrix.NonsingularInverse
import Mathlib.Tactic.Ring
import Mathlib.Tactic.Linarith
import Mathlib.Tactic.FieldSimp

namespace AbtemVerif.Props.C26
open AbtemVerif.Gen.BlochR AbtemVerif.Gen.BlochC
open Matrix Complex

set_option linter.unusedSectionVars false
variable {n : Type*} [Fintype n] [DecidableEq n]

/-! ### EIGH -/

/-- **EIGH** — what `numpy.linalg.eigh(A)` is assumed to return -/
structure Eigh (A : Matrix n n ℂ) (v : n → ℝ) (C : Matrix n n ℂ) : Prop where
  unitary : Cᴴ * C = 1
  decomp : A = C * diagonal (fun k => ((v k : ℝ) : ℂ)) * Cᴴ

lemma Eigh.unitary' {A : Matrix n n ℂ} {v : n → ℝ} {C : Matrix n n ℂ} (h : Eigh A v C) : C * Cᴴ = 1 :=
  mul_eq_one_comm.mp h.unitary

/-! ### the code, over ℂ -/

/-- `C = Mii[:, None] * C` -/
noncomputable def Cm (M : n → ℝ) (C : Matrix n n ℂ) : Matrix n n ℂ := fun i j => cEntry ((M i : ℝ) : ℂ) (C i j)

/-- `C_inv = xp.conjugate(C.T) / Mii[None]` -/
noncomputable def Cinv (M : n → ℝ) (C : Matrix n n ℂ) : Matrix n n ℂ := fun i j => cinvEntry (Cᴴ i j) ((M j : ℝ) : ℂ)

/-- `exp(2.0j * π * thickness * gamma)` with `gamma = v * wavelength / 2` -/
noncomputable def phase (v : n → ℝ) (lam t : ℝ) (k : n) : ℂ :=
  Complex.exp (phaseArg ((t : ℝ) : ℂ) ((gammaOf (v k) lam : ℝ) : ℂ))

/-- `calculate_dynamical_scattering`: `C @ (exp(2πi t γ) * (C_inv @ initial))` -/
noncomputable def scatter (M : n → ℝ) (v : n → ℝ) (C : Matrix n n ℂ) (lam t : ℝ) (ψ0 : n → ℂ) : n → ℂ :=
  Cm M C *ᵥ (fun k => phase v lam t k * (Cinv M C *ᵥ ψ0) k)

/-- `calculate_scattering_matrix`: `M · expm(1j·π·z·A·λ) · M⁻¹` (EXPM: `expm = NormedSpace.exp`) -/
noncomputable def scatteringMatrix (M : n → ℝ) (A : Matrix n n ℂ) (lam z : ℝ) : Matrix n n ℂ :=
  diagonal (fun i => ((M i : ℝ) : ℂ)) * NormedSpace.exp (A.map fun a => expmArg ((z : ℝ) : ℂ) a ((lam : ℝ) : ℂ))
    * diagonal (fun i => ((1 / M i : ℝ) : ℂ))

/-- squared 2-norm -/
noncomputable def sqn (x : n → ℂ) : ℝ := ∑ g, ‖x g‖ ^ 2

/-- flux-weighted intensity sum `Σ_g |ψ_g|² / M_g²  =  Σ_g |ψ_g|² (1 + g_z/k₀)` -/
noncomputable def wsum (M : n → ℝ) (x : n → ℂ) : ℝ := ∑ g, ‖x g‖ ^ 2 / (M g) ^ 2

/-! ### helper lemmas -/

lemma sqn_eq_dot (x : n → ℂ) : ((sqn x : ℝ) : ℂ) = star x ⬝ᵥ x := by
  simp only [sqn, dotProduct, Pi.star_apply, Complex.ofReal_sum, Complex.ofReal_pow]
  refine Finset.sum_congr rfl fun g _ => ?_
  rw [← Complex.conj_mul']; rfl

lemma unitary_sqn (U : Matrix n n ℂ) (hU : Uᴴ * U = 1) (x : n → ℂ) : sqn (U *ᵥ x) = sqn x := by
  apply Complex.ofReal_injective
  rw [sqn_eq_dot, sqn_eq_dot, star_mulVec, ← dotProduct_mulVec, mulVec_mulVec, hU, one_mulVec]

lemma norm_phase (v : n → ℝ) (lam t : ℝ) (k : n) : ‖phase v lam t k‖ = 1 := by
  unfold phase phaseArg
  have : (((((2 : ℂ) / 1) * Complex.I) * (Real.pi : ℂ)) * ((t : ℝ) : ℂ)) * ((gammaOf (v k) lam : ℝ) : ℂ)
      = ((2 * Real.pi * t * gammaOf (v k) lam : ℝ) : ℂ) * Complex.I := by push_cast; ring
  rw [this, Complex.norm_exp_ofReal_mul_I]

lemma phase_sqn (e : n → ℂ) (he : ∀ k, ‖e k‖ = 1) (x : n → ℂ) : sqn (fun k => e k * x k) = sqn x := by
  unfold sqn
  refine Finset.sum_congr rfl fun g _ => ?_
  rw [norm_mul, he g, one_mul]

lemma Cinv_mulVec (M : n → ℝ) (C : Matrix n n ℂ) (x : n → ℂ) :
    Cinv M C *ᵥ x = Cᴴ *ᵥ (fun j => x j / ((M j : ℝ) : ℂ)) := by
  funext k
  simp only [mulVec, dotProduct, Cinv, cinvEntry]
  refine Finset.sum_congr rfl fun j _ => ?_
  rw [div_mul_eq_mul_div, mul_div_assoc]

lemma Cm_mulVec (M : n → ℝ) (C : Matrix n n ℂ) (y : n → ℂ) :
    Cm M C *ᵥ y = fun g => ((M g : ℝ) : ℂ) * (C *ᵥ y) g := by
  funext g
  simp only [mulVec, dotProduct, Cm, cEntry, Finset.mul_sum]
  refine Finset.sum_congr rfl fun k _ => ?_
  rw [mul_assoc]

/-- the code's evaluation order, step by step -/
lemma scatter_steps (M : n → ℝ) (v : n → ℝ) (C : Matrix n n ℂ) (lam t : ℝ) (ψ0 : n → ℂ) :
    scatter M v C lam t ψ0 = fun g => ((M g : ℝ) : ℂ) *
      (C *ᵥ (fun k => phase v lam t k * (Cᴴ *ᵥ (fun j => ψ0 j / ((M j : ℝ) : ℂ))) k)) g := by
  unfold scatter
  rw [Cm_mulVec, Cinv_mulVec]

/-! ### property theorems -/

/-- the `M` factors of `calculate_M_matrix` are positive whenever `1 + g_z/k₀ > 0` -/
theorem mii_pos (gz k0 : ℝ) (h : 0 < 1 + gz / k0) : 0 < mii gz k0 := by
  unfold mii
  exact div_pos one_pos (Real.sqrt_pos.mpr h)

/-- closed form of `calculate_M_matrix` with the generated `k0 = 1/λ`: `M = 1/√(1 + g_z λ)` -/
theorem mii_formula (gz lam : ℝ) : mii gz (k0Of lam) = 1 / Real.sqrt (1 + gz * lam) := by
  unfold mii k0Of
  congr 2
  field_simp

/-- reflections in the zero-order Laue zone (`g_z = 0`) have `M = 1` -/
theorem mii_zolz (k0 : ℝ) : mii 0 k0 = 1 := by
  simp [mii]

/-- **Zero thickness gives back the incident wave** (the direct beam for `ψ₀ = e₀`). -/
theorem zero_thickness_direct_beam (M : n → ℝ) (hM : ∀ i, M i ≠ 0) (A : Matrix n n ℂ) (v : n → ℝ) (C : Matrix n n ℂ)
    (h : Eigh A v C) (lam : ℝ) (ψ0 : n → ℂ) :
    scatter M v C lam 0 ψ0 = ψ0 := by
  rw [scatter_steps]
  have hph : ∀ k, phase v lam 0 k = 1 := by
    intro k; simp [phase, phaseArg]
  funext g
  simp only [hph, one_mul]
  rw [mulVec_mulVec, h.unitary', one_mulVec]
  have : ((M g : ℝ) : ℂ) ≠ 0 := by exact_mod_cast hM g
  field_simp

/-- **Flux conservation**: the weighted intensity sum `Σ |ψ_g|²/M_g²` is independent of thickness. -/
theorem weighted_intensity_conserved (M : n → ℝ) (hM : ∀ i, M i ≠ 0) (A : Matrix n n ℂ) (v : n → ℝ) (C : Matrix n n ℂ)
    (h : Eigh A v C) (lam t : ℝ) (ψ0 : n → ℂ) :
    wsum M (scatter M v C lam t ψ0) = wsum M ψ0 := by
  rw [scatter_steps]
  have h1 : wsum M (fun g => ((M g : ℝ) : ℂ) *
      (C *ᵥ (fun k => phase v lam t k * (Cᴴ *ᵥ (fun j => ψ0 j / ((M j : ℝ) : ℂ))) k)) g)
      = sqn (C *ᵥ (fun k => phase v lam t k * (Cᴴ *ᵥ (fun j => ψ0 j / ((M j : ℝ) : ℂ))) k)) := by
    unfold wsum sqn
    refine Finset.sum_congr rfl fun g _ => ?_
    have hg : M g ≠ 0 := hM g
    rw [norm_mul, Complex.norm_real, mul_pow, Real.norm_eq_abs, sq_abs]
    field_simp
  have hCH : (Cᴴ)ᴴ * Cᴴ = 1 := by rw [conjTranspose_conjTranspose]; exact h.unitary'
  rw [h1, unitary_sqn C h.unitary, phase_sqn _ (norm_phase v lam t), unitary_sqn Cᴴ hCH]
  unfold wsum sqn
  refine Finset.sum_congr rfl fun g _ => ?_
  rw [norm_div, Complex.norm_real, div_pow, Real.norm_eq_abs, sq_abs]

/-- **Intensity conservation** when every selected reflection has `M = 1` (zero-order Laue zone, untilted). -/
theorem intensity_conserved_unit_M (A : Matrix n n ℂ) (v : n → ℝ) (C : Matrix n n ℂ)
    (h : Eigh A v C) (lam t : ℝ) (ψ0 : n → ℂ) :
    sqn (scatter (fun _ => 1) v C lam t ψ0) = sqn ψ0 := by
  have := weighted_intensity_conserved (fun _ => (1 : ℝ)) (fun _ => one_ne_zero) A v C h lam t ψ0
  simpa [wsum, sqn] using this

/-- the diffracted intensities from the unit direct beam sum to one (`M ≡ 1`) -/
theorem direct_beam_intensities_sum_to_one (A : Matrix n n ℂ) (v : n → ℝ) (C : Matrix n n ℂ)
    (h : Eigh A v C) (lam t : ℝ) (i0 : n) :
    sqn (scatter (fun _ => 1) v C lam t (Pi.single i0 1)) = 1 := by
  rw [intensity_conserved_unit_M A v C h]
  simp [sqn, Pi.single_apply, apply_ite, Finset.sum_ite_eq']

/-- general `M`: starting from the direct beam (`M_{000} = 1`) the flux-weighted sum stays one -/
theorem direct_beam_weighted_sum_one (M : n → ℝ) (hM : ∀ i, M i ≠ 0) (A : Matrix n n ℂ) (v : n → ℝ) (C : Matrix n n ℂ)
    (h : Eigh A v C) (lam t : ℝ) (i0 : n) (h0 : M i0 = 1) :
    wsum M (scatter M v C lam t (Pi.single i0 1)) = 1 := by
  rw [weighted_intensity_conserved M hM A v C h]
  unfold wsum
  rw [Finset.sum_eq_single i0]
  · simp [h0]
  · intro b _ hb; simp [hb]
  · intro hi; exact absurd (Finset.mem_univ i0) hi

/-- **Deviation from the property statement ("intensities sum to one") for M ≠ 1**: flux conservation does not give a unit
plain sum — a state with flux-weighted sum one whose plain intensity sum is `m² ≠ 1`. This documents the recorded finding
`plain-intensity-sum-differs-from-one-with-holz-or-tilt`: with reflections of `g_z ≠ 0` the code (and the Bloch-wave
formalism it implements) conserves `Σ|ψ_g|²(1+g_z/k₀)`, not `Σ|ψ_g|²`. -/
theorem plain_sum_not_conserved_counterexample :
    ∃ (M : Fin 2 → ℝ) (x : Fin 2 → ℂ), (∀ i, M i ≠ 0) ∧ wsum M x = 1 ∧ sqn x ≠ 1 := by
  refine ⟨![1, 2], ![0, 2], ?_, ?_, ?_⟩
  · intro i; fin_cases i <;> simp
  · simp [wsum, Fin.sum_univ_two]
  · simp [sqn, Fin.sum_univ_two]; norm_num

/-- the plain intensity sum then lies between the extreme values of `M²` -/
theorem intensity_sum_bounds (M : n → ℝ) (x : n → ℂ) (lo hi : ℝ) (hw : wsum M x = 1)
    (hM : ∀ i, M i ≠ 0) (hlo : ∀ g, lo ≤ (M g) ^ 2) (hhi : ∀ g, (M g) ^ 2 ≤ hi) :
    lo ≤ sqn x ∧ sqn x ≤ hi := by
  have hterm : ∀ g, ‖x g‖ ^ 2 = (‖x g‖ ^ 2 / (M g) ^ 2) * (M g) ^ 2 := by
    intro g; have := hM g; field_simp
  have hnn : ∀ g, 0 ≤ ‖x g‖ ^ 2 / (M g) ^ 2 := fun g => div_nonneg (sq_nonneg _) (sq_nonneg _)
  constructor
  · calc lo = lo * wsum M x := by rw [hw, mul_one]
      _ = ∑ g, lo * (‖x g‖ ^ 2 / (M g) ^ 2) := by rw [wsum, Finset.mul_sum]
      _ ≤ ∑ g, ‖x g‖ ^ 2 := by
          refine Finset.sum_le_sum fun g _ => ?_
          rw [hterm g, mul_comm lo]
          have := hlo g
          have h2 := hnn g
          have h3 : ‖x g‖ ^ 2 / M g ^ 2 * M g ^ 2 / M g ^ 2 = ‖x g‖ ^ 2 / M g ^ 2 := by
            have := hM g; field_simp
          rw [h3]
          exact mul_le_mul_of_nonneg_left this h2
  · calc sqn x = ∑ g, (‖x g‖ ^ 2 / (M g) ^ 2) * (M g) ^ 2 := by
          unfold sqn; exact Finset.sum_congr rfl fun g _ => hterm g
      _ ≤ ∑ g, (‖x g‖ ^ 2 / (M g) ^ 2) * hi := by
          refine Finset.sum_le_sum fun g _ => mul_le_mul_of_nonneg_left (hhi g) (hnn g)
      _ = hi := by rw [← Finset.sum_mul]; change wsum M x * hi = hi; rw [hw, one_mul]

/-- **The matrix-exponential path equals the eigen-decomposition path**: `S ψ₀` with
`S = M·expm(iπ z λ A)·M⁻¹` is `calculate_dynamical_scattering` at thickness `z`. -/
theorem expm_path_eq_eig_path (M : n → ℝ) (A : Matrix n n ℂ) (v : n → ℝ) (C : Matrix n n ℂ)
    (h : Eigh A v C) (lam z : ℝ) (ψ0 : n → ℂ) :
    scatteringMatrix M A lam z *ᵥ ψ0 = scatter M v C lam z ψ0 := by
  have hCinv : C⁻¹ = Cᴴ := inv_eq_right_inv h.unitary'
  have hunit : IsUnit C := (Matrix.isUnit_iff_isUnit_det C).mpr (Matrix.isUnit_det_of_right_inverse h.unitary')
  -- the argument of expm is C · diag(iπ z λ v) · C⁻¹
  have harg : (A.map fun a => expmArg ((z : ℝ) : ℂ) a ((lam : ℝ) : ℂ))
      = C * diagonal (fun k => phaseArg ((z : ℝ) : ℂ) ((gammaOf (v k) lam : ℝ) : ℂ)) * C⁻¹ := by
    have hsm : (A.map fun a => expmArg ((z : ℝ) : ℂ) a ((lam : ℝ) : ℂ))
        = (Complex.I * Real.pi * z * lam : ℂ) • A := by
      ext i j; simp only [map_apply, expmArg, Matrix.smul_apply, smul_eq_mul]; ring
    rw [hsm, h.decomp, hCinv, ← smul_mul_assoc, ← mul_smul_comm]
    congr 2
    ext i j
    simp only [Matrix.smul_apply, diagonal_apply, smul_eq_mul, phaseArg, gammaOf]
    split
    · push_cast; ring
    · simp
  have hexp : NormedSpace.exp (A.map fun a => expmArg ((z : ℝ) : ℂ) a ((lam : ℝ) : ℂ))
      = C * diagonal (phase v lam z) * Cᴴ := by
    have hpi : (NormedSpace.exp fun k => phaseArg ((z : ℝ) : ℂ) ((gammaOf (v k) lam : ℝ) : ℂ)) = phase v lam z := by
      funext k
      rw [Pi.coe_exp, ← Complex.exp_eq_exp_ℂ]; rfl
    rw [harg, Matrix.exp_conj _ _ hunit, Matrix.exp_diagonal, hCinv, hpi]
  have hD : (diagonal (fun i => ((1 / M i : ℝ) : ℂ))) *ᵥ ψ0 = fun j => ψ0 j / ((M j : ℝ) : ℂ) := by
    funext j; rw [mulVec_diagonal]; push_cast; ring
  have hP : ∀ y : n → ℂ, diagonal (phase v lam z) *ᵥ y = fun k => phase v lam z k * y k := by
    intro y; funext k; rw [mulVec_diagonal]
  rw [scatter_steps]
  unfold scatteringMatrix
  rw [hexp]
  funext g
  rw [← mulVec_mulVec, ← mulVec_mulVec, mulVec_diagonal, hD, ← mulVec_mulVec, ← mulVec_mulVec, hP]

/-- the evolution operator of the `M = 1` case is unitary (Hermitian structure matrix ⇒ unitary evolution) -/
theorem evolution_unitary (A : Matrix n n ℂ) (v : n → ℝ) (C : Matrix n n ℂ) (h : Eigh A v C) (lam t : ℝ) :
    (C * diagonal (phase v lam t) * Cᴴ)ᴴ * (C * diagonal (phase v lam t) * Cᴴ) = 1 := by
  have hd : (diagonal (phase v lam t))ᴴ * diagonal (phase v lam t) = 1 := by
    rw [diagonal_conjTranspose, diagonal_mul_diagonal]
    ext i j
    simp only [diagonal_apply, one_apply, Pi.star_apply]
    split
    · have : (starRingEnd ℂ) (phase v lam t i) * phase v lam t i = ((‖phase v lam t i‖ ^ 2 : ℝ) : ℂ) := by
        rw [Complex.conj_mul']; push_cast; rfl
      rw [show star (phase v lam t i) = (starRingEnd ℂ) (phase v lam t i) from rfl, this, norm_phase]; simp
    · rfl
  simp only [conjTranspose_mul, conjTranspose_conjTranspose, Matrix.mul_assoc]
  rw [← Matrix.mul_assoc Cᴴ C, h.unitary, Matrix.one_mul, ← Matrix.mul_assoc (diagonal (phase v lam t))ᴴ, hd,
    Matrix.one_mul, h.unitary']

/-- **The structure matrix is Hermitian** whenever the structure factors obey Friedel symmetry (C27):
`A[i,j] = U(h_j − h_i)·prefactor·M_i·M_j`, real diagonal `2/λ·s_i·M_i`. -/
theorem structure_matrix_isHermitian (U : (Fin 3 → ℤ) → ℂ) (hU : ∀ h, U (-h) = (starRingEnd ℂ) (U h))
    (hkl : n → Fin 3 → ℤ) (pref lam : ℝ) (M sg : n → ℝ) :
    (Matrix.of fun i j => if i = j then ((diagValue lam (sg i) * diagScale (M i) : ℝ) : ℂ)
        else U (hkl j - hkl i) * ((structScale pref (M i) (M j) : ℝ) : ℂ)).IsHermitian := by
  ext i j
  simp only [conjTranspose_apply, of_apply]
  by_cases hij : i = j
  · subst hij; simp
  · have hji : ¬ j = i := fun h => hij h.symm
    rw [if_neg hij, if_neg hji, star_mul']
    have : hkl i - hkl j = -(hkl j - hkl i) := by ring
    rw [show star (U (hkl i - hkl j)) = (starRingEnd ℂ) (U (hkl i - hkl j)) from rfl, this, hU, Complex.conj_conj]
    congr 1
    rw [show star ((structScale pref (M j) (M i) : ℝ) : ℂ) = (starRingEnd ℂ) ((structScale pref (M j) (M i) : ℝ) : ℂ) from rfl,
      Complex.conj_ofReal]
    unfold structScale; push_cast; ring

/-- `calculate_structure_matrix` scales a fresh copy of the retrieved structure factors in place (the retrieved
array is a read-only view; without the copy every call raises "output array is read-only", F17). The flag is
generated from the source statement. -/
theorem structure_matrix_scaled_on_a_copy : AbtemVerif.Gen.Bloch.structureMatrixIsCopy = true := rfl

/-- **EIGH is satisfiable for every Hermitian matrix** (spectral theorem): the hypotheses of the theorems
above are non-vacuous for every structure matrix `structure_matrix_isHermitian` produces. -/
theorem eigh_exists (A : Matrix n n ℂ) (hA : A.IsHermitian) : ∃ (v : n → ℝ) (C : Matrix n n ℂ), Eigh A v C := by
  refine ⟨hA.eigenvalues, (hA.eigenvectorUnitary : Matrix n n ℂ), ?_, ?_⟩
  · have := (hA.eigenvectorUnitary).2
    exact (Matrix.mem_unitaryGroup_iff'.mp this)
  · have := hA.spectral_theorem
    rw [Unitary.conjStarAlgAut_apply] at this
    exact this

/-- **Unconditional form for the matrices the code builds**: for Friedel-symmetric structure factors (C27) the structure
matrix admits an EIGH decomposition, and for every such decomposition the flux-weighted intensity is conserved and zero
thickness returns the incident beam — the EIGH hypothesis of the theorems above is never vacuous on this path. -/
theorem structure_matrix_flux_conserved (U : (Fin 3 → ℤ) → ℂ) (hU : ∀ h, U (-h) = (starRingEnd ℂ) (U h))
    (hkl : n → Fin 3 → ℤ) (pref lam : ℝ) (M sg : n → ℝ) (hM : ∀ i, M i ≠ 0) :
    ∃ (v : n → ℝ) (C : Matrix n n ℂ),
      Eigh (Matrix.of fun i j => if i = j then ((diagValue lam (sg i) * diagScale (M i) : ℝ) : ℂ)
        else U (hkl j - hkl i) * ((structScale pref (M i) (M j) : ℝ) : ℂ)) v C ∧
      ∀ (t : ℝ) (ψ0 : n → ℂ), wsum M (scatter M v C lam t ψ0) = wsum M ψ0 ∧ scatter M v C lam 0 ψ0 = ψ0 := by
  obtain ⟨v, C, h⟩ := eigh_exists _ (structure_matrix_isHermitian U hU hkl pref lam M sg)
  exact ⟨v, C, h, fun t ψ0 => ⟨weighted_intensity_conserved M hM _ v C h lam t ψ0, zero_thickness_direct_beam M hM _ v C h lam ψ0⟩⟩

/-! ### witness of the recorded deviation on the modelled code path -/

/-- the rational orthogonal matrix (1/5)·[[3,4],[4,-3]] -/
noncomputable def Cw : Matrix (Fin 2) (Fin 2) ℂ := !![3/5, 4/5; 4/5, -3/5]

lemma Cw_conj : Cwᴴ = Cw := by
  ext i j; fin_cases i <;> fin_cases j <;> simp [Cw, conjTranspose_apply]

lemma Cw_sq : Cw * Cw = 1 := by
  ext i j; fin_cases i <;> fin_cases j <;> simp [Cw, Matrix.mul_apply, Fin.sum_univ_two] <;> norm_num

/-- **Witness of the recorded deviation, on the modelled code path**: a two-beam case satisfying EIGH in which the direct beam
(`M = 1`) scatters into a beam with `M = 2`: `calculate_dynamical_scattering` (`scatter`) returns intensities whose
flux-weighted sum is one but whose plain sum is `2353/625 ≠ 1`. -/
theorem scatter_plain_sum_not_one_counterexample :
    ∃ (M : Fin 2 → ℝ) (A : Matrix (Fin 2) (Fin 2) ℂ) (v : Fin 2 → ℝ) (C : Matrix (Fin 2) (Fin 2) ℂ) (lam t : ℝ) (i0 : Fin 2),
      Eigh A v C ∧ M i0 = 1 ∧ (∀ i, M i ≠ 0) ∧ wsum M (scatter M v C lam t (Pi.single i0 1)) = 1 ∧
        sqn (scatter M v C lam t (Pi.single i0 1)) ≠ 1 := by
  refine ⟨![1, 2], Cw * diagonal (fun k => ((![0, 1] k : ℝ) : ℂ)) * Cwᴴ, ![0, 1], Cw, 1, 1, 0, ?_, by simp, ?_, ?_, ?_⟩
  · exact ⟨by rw [Cw_conj, Cw_sq], rfl⟩
  · intro i; fin_cases i <;> simp
  · have hE : Eigh (Cw * diagonal (fun k => ((![0, 1] k : ℝ) : ℂ)) * Cwᴴ) ![0, 1] Cw := ⟨by rw [Cw_conj, Cw_sq], rfl⟩
    have hM : ∀ i, (![1, 2] : Fin 2 → ℝ) i ≠ 0 := by intro i; fin_cases i <;> simp
    rw [direct_beam_weighted_sum_one ![1, 2] hM _ ![0, 1] Cw hE 1 1 0 (by simp)]
  · -- explicit value of the scattered vector: (-7/25, 48/25)
    have h0 : phase ![0, 1] 1 1 0 = 1 := by simp [phase, phaseArg, gammaOf]
    have h1 : phase ![0, 1] 1 1 1 = -1 := by
      have : phaseArg ((1 : ℝ) : ℂ) ((gammaOf ((![0, 1] : Fin 2 → ℝ) 1) 1 : ℝ) : ℂ) = (Real.pi : ℂ) * I := by
        simp [phaseArg, gammaOf]; ring
      rw [phase, this, Complex.exp_pi_mul_I]
    have hv : scatter ![1, 2] ![0, 1] Cw 1 1 (Pi.single 0 1) = ![(-7 / 25 : ℂ), 48 / 25] := by
      rw [scatter_steps, Cw_conj]
      funext g
      fin_cases g <;>
        simp [mulVec, dotProduct, Fin.sum_univ_two, h0, h1, Cw, Pi.single_apply] <;> norm_num
    rw [hv]
    simp [sqn, Fin.sum_univ_two]
    norm_num

/-! ### orientation ensembles (eager assembly) -/
open AbtemVerif.Bloch in
/-- **Row `i` of the eager ensemble result is built from member `i` alone** (the defect fixed in 05019da6 wrote every
member to all rows). -/
theorem ensemble_row_is_member {α} (zero : α) (width : Nat) (members : List (List Nat × List α)) (i : Nat)
    (hi : i < members.length) :
    (assembleEnsemble zero width members)[i]'(by simpa [assembleEnsemble] using hi)
      = scatterRow zero width members[i].1 members[i].2 := by
  simp [assembleEnsemble]

lemma lookup_zip {α} (pos : List Nat) (vals : List α) (hl : pos.length = vals.length) (hn : pos.Nodup) (j : Nat)
    (hj : j < pos.length) : (pos.zip vals).lookup pos[j] = some (vals[j]'(hl ▸ hj)) := by
  induction pos generalizing vals j with
  | nil => simp at hj
  | cons p ps ih =>
    cases vals with
    | nil => simp at hl
    | cons v vs =>
      cases j with
      | zero => simp
      | succ j =>
        have hne : ps[j]'(by simpa using hj) ≠ p := by
          intro h
          have : p ∈ ps := h ▸ List.getElem_mem _
          exact (List.nodup_cons.mp hn).1 this
        simp only [List.zip_cons_cons, List.getElem_cons_succ, List.lookup_cons]
        have : (ps[j]'(by simpa using hj) == p) = false := by simpa using hne
        rw [this]
        exact ih vs (by simpa using hl) (List.nodup_cons.mp hn).2 j (by simpa using hj)

open AbtemVerif.Bloch in
/-- … and holds exactly the member's value at each of the member's reflection positions. -/
theorem ensemble_member_values {α} (zero : α) (width : Nat) (pos : List Nat) (vals : List α) (hl : pos.length = vals.length)
    (hn : pos.Nodup) (j : Nat) (hj : j < pos.length) (hw : pos[j] < width) :
    (scatterRow zero width pos vals)[pos[j]]'(by simpa [scatterRow] using hw) = vals[j]'(hl ▸ hj) := by
  simp [scatterRow, lookup_zip pos vals hl hn j hj]

/-! ### non-vacuity -/
/-- a concrete EIGH instance: the 1×1 matrix `(3)` -/
example : Eigh (n := Fin 1) (fun _ _ => (3 : ℂ)) (fun _ => 3) 1 := by
  refine ⟨by simp, ?_⟩
  ext i j; simp [Subsingleton.elim i j]
example : (0 : ℝ) < 1 + 0.25 / 39.87 := by norm_num

end AbtemVerif.Props.C26
