/-
C08 — potentials are covariant under translations and supercell repetition.

Infinite projection (`ScatteringFactorProjectionIntegrals.integrate_on_grid`): each species contributes
`Re F⁻¹( f_Z / sinc · F(δ-array) )`, a Fourier multiplier applied to the array written by `superpose_deltas`.
Proved here, for all grids, atoms, weights and integer shifts:
* the four bilinear weights of the source (generated) sum to one and are non-negative; every update lands inside
  the array; the mass written per atom is its weight (hence the slice mean — the DC coefficient — does not depend on
  sub-pixel positions);
* the sum of the whole delta array is the sum of the weights (`deltas_total_mass`);
* translating every atom by whole pixels rolls the delta array (`deltas_pixel_shift`, sub-pixel branch);
* every Fourier multiplier commutes with every translation for which the transform satisfies the shift rule
  (`multiplier_equivariant`), and Mathlib's `ZMod.dft` satisfies it (`zmod_shift_rule`); the sum of a multiplier
  output is the DC symbol times the sum of the input (`multiplier_sum`);
* finite projection (numba kernel): the pixels touched by an atom move with it and the distances at which the radial
  function is evaluated do not change (`radial_hits_shift`, unclipped part).
* the delta array of an `R₀ × R₁` supercell is the `np.tile` of the unit-cell delta array (`deltas_tile`).
* end to end on the concrete 2-D DFT (`Lib/DFT2.zmodPair2`): `infinite_projection_pixel_shift` (Σ_species Re F₂⁻¹(m_s·F₂ δ_s) of the
  translated atoms is the rolled slice) and `infinite_projection_slice_sum` (slice sum = DC symbol × total weight);
* `tiled_potential` (abstract pairs for the two grids, sub-lattice hypotheses) for the supercell potential.
Partial: supercell repetition of the *potential* (two FFT/sampling hypotheses; `…_partial` at the end).
-/
import AbtemVerif.Model.Deltas
import AbtemVerif.Lib.DFT
import AbtemVerif.Lib.DFT2
import Mathlib.Data.Rat.Floor
import Mathlib.Algebra.Order.Floor.Ring
import Mathlib.Tactic.Ring
import Mathlib.Tactic.Linarith
import Mathlib.Tactic.FieldSimp

open Finset BigOperators

namespace AbtemVerif.Props.C08
open AbtemVerif.Deltas AbtemVerif.Gen.Deltas AbtemVerif.Py AbtemVerif.DFT

/-! ### rounding and floor commute with integer translations -/

lemma floor_add_int (x : Rat) (a : Int) : (x + a).floor = x.floor + a :=
  Int.floor_add_intCast x a

lemma pyMod_pos (a : Int) (n : Nat) (hn : 0 < n) : pyMod a n = a % (n : Int) := by
  unfold pyMod
  exact Int.fmod_eq_emod_of_nonneg a (by omega)

lemma pyRepeat_two {α : Type} (xs : List α) : pyRepeat xs 2 = xs ++ xs := by
  simp [pyRepeat, List.replicate]

/-! ### the bilinear weights -/

/-- The four sub-pixel weights written by `superpose_deltas` sum to one. -/
theorem bilinear_weights_sum_one (x y : Rat) : (deltaWeights x y (deltaXY x y)).sum = 1 := by
  simp only [deltaWeights, deltaXY, List.sum_cons, List.sum_nil]; ring

/-- For a fractional offset in the unit square none of them is negative. -/
theorem bilinear_weights_nonneg (x y : Rat) (hx0 : 0 ≤ x) (hx1 : x ≤ 1) (hy0 : 0 ≤ y) (hy1 : y ≤ 1) :
    ∀ v ∈ deltaWeights x y (deltaXY x y), 0 ≤ v := by
  intro v hv
  simp only [deltaWeights, deltaXY, List.mem_cons, List.not_mem_nil, or_false] at hv
  rcases hv with h | h | h | h <;> subst h
  · nlinarith [mul_nonneg (sub_nonneg.mpr hx1) (sub_nonneg.mpr hy1)]
  · nlinarith [mul_nonneg hx0 (sub_nonneg.mpr hy1)]
  · nlinarith [mul_nonneg hy0 (sub_nonneg.mpr hx1)]
  · exact mul_nonneg hx0 hy0

/-- explicit form of the updates of one atom in the sub-pixel branch -/
lemma atomUpdates_subpixel (n0 n1 : Nat) (p : Rat × Rat) (w : Rat) :
    atomUpdates n0 n1 false p w =
      let r := p.1.floor; let c := p.2.floor
      let x := p.1 - r; let y := p.2 - c
      [⟨pyMod r n0, pyMod c n1, (1 + x * y - y - x) * w⟩, ⟨pyMod (r + 1) n0, pyMod c n1, (x - x * y) * w⟩,
       ⟨pyMod r n0, pyMod (c + 1) n1, (y - x * y) * w⟩, ⟨pyMod (r + 1) n0, pyMod (c + 1) n1, (x * y) * w⟩] := by
  simp [atomUpdates, deltaRowIdx, deltaColIdx, deltaWeights, deltaX, deltaY, deltaXY, pyRepeat_two]

/-- The mass written for one atom is its weight, wherever the atom sits inside its pixel (both branches). -/
theorem atom_mass (n0 n1 : Nat) (round : Bool) (p : Rat × Rat) (w : Rat) :
    ((atomUpdates n0 n1 round p w).map (·.v)).sum = w := by
  cases round
  · rw [atomUpdates_subpixel]; simp only [List.map_cons, List.map_nil, List.sum_cons, List.sum_nil]; ring
  · simp [atomUpdates]

/-- Every update lands inside the `n0 × n1` array (periodic indices). -/
theorem update_in_range (n0 n1 : Nat) (h0 : 0 < n0) (h1 : 0 < n1) (round : Bool) (p : Rat × Rat) (w : Rat) :
    ∀ u ∈ atomUpdates n0 n1 round p w, 0 ≤ u.i ∧ u.i < n0 ∧ 0 ≤ u.j ∧ u.j < n1 := by
  have m0 : ∀ a : Int, 0 ≤ pyMod a n0 ∧ pyMod a n0 < n0 := fun a => by
    rw [pyMod_pos _ _ h0]; exact ⟨Int.emod_nonneg _ (by omega), Int.emod_lt_of_pos _ (by omega)⟩
  have m1 : ∀ a : Int, 0 ≤ pyMod a n1 ∧ pyMod a n1 < n1 := fun a => by
    rw [pyMod_pos _ _ h1]; exact ⟨Int.emod_nonneg _ (by omega), Int.emod_lt_of_pos _ (by omega)⟩
  intro u hu
  cases round
  · rw [atomUpdates_subpixel] at hu
    simp only [List.mem_cons, List.not_mem_nil, or_false] at hu
    rcases hu with h | h | h | h <;> subst h <;> exact ⟨(m0 _).1, (m0 _).2, (m1 _).1, (m1 _).2⟩
  · simp only [atomUpdates, roundedIdx, if_true, List.mem_cons, List.not_mem_nil, or_false] at hu
    subst hu; exact ⟨(m0 _).1, (m0 _).2, (m1 _).1, (m1 _).2⟩

/-! ### total mass of the delta array -/

lemma accumulate_cons (u : Update) (us : List Update) (i j : Int) :
    accumulate (u :: us) i j = (if u.i = i ∧ u.j = j then u.v else 0) + accumulate us i j := by
  simp [accumulate]

lemma grid_indicator (n0 n1 : Nat) (u : Update) (h : 0 ≤ u.i ∧ u.i < n0 ∧ 0 ≤ u.j ∧ u.j < n1) :
    ∑ i ∈ range n0, ∑ j ∈ range n1, (if u.i = (i : Int) ∧ u.j = (j : Int) then u.v else 0) = u.v := by
  obtain ⟨h1, h2, h3, h4⟩ := h
  have hi : u.i.toNat ∈ range n0 := by rw [mem_range]; omega
  have hj : u.j.toNat ∈ range n1 := by rw [mem_range]; omega
  rw [Finset.sum_eq_single_of_mem u.i.toNat hi]
  · rw [Finset.sum_eq_single_of_mem u.j.toNat hj]
    · have e1 : u.i = ((u.i.toNat : Nat) : Int) := by omega
      have e2 : u.j = ((u.j.toNat : Nat) : Int) := by omega
      rw [if_pos ⟨e1, e2⟩]
    · intro j _ hne
      have : ¬ (u.i = ((u.i.toNat : Nat) : Int) ∧ u.j = (j : Int)) := by
        intro hh; apply hne; omega
      rw [if_neg this]
  · intro i _ hne
    apply Finset.sum_eq_zero
    intro j _
    have : ¬ (u.i = (i : Int) ∧ u.j = (j : Int)) := by
      intro hh; apply hne; omega
    rw [if_neg this]

/-- the total written into the array is the sum of all update values -/
lemma grid_sum_accumulate (n0 n1 : Nat) (us : List Update)
    (h : ∀ u ∈ us, 0 ≤ u.i ∧ u.i < n0 ∧ 0 ≤ u.j ∧ u.j < n1) :
    ∑ i ∈ range n0, ∑ j ∈ range n1, accumulate us (i : Int) (j : Int) = (us.map (·.v)).sum := by
  induction us with
  | nil => simp [accumulate]
  | cons u us ih =>
    simp only [accumulate_cons, Finset.sum_add_distrib, List.map_cons, List.sum_cons]
    rw [grid_indicator n0 n1 u (h u (by simp)), ih (fun v hv => h v (by simp [hv]))]

/-- `deltas_total_mass`: the sum of the whole delta array is the sum of the atom weights — for every grid, every atom list,
both branches, wherever the atoms sit inside their pixels.  With `multiplier_sum` this is `slice_mean_subpixel_invariant`:
the mean of an infinite-projection slice only depends on which atoms are in the slice, not on their lateral positions. -/
theorem deltas_total_mass (n0 n1 : Nat) (h0 : 0 < n0) (h1 : 0 < n1) (round : Bool) (atoms : List ((Rat × Rat) × Rat)) :
    ∑ i ∈ range n0, ∑ j ∈ range n1, superposeDeltas n0 n1 round atoms (i : Int) (j : Int) = (atoms.map (·.2)).sum := by
  unfold superposeDeltas
  rw [grid_sum_accumulate]
  · induction atoms with
    | nil => simp
    | cons a as ih =>
      simp only [List.flatMap_cons, List.map_append, List.sum_append, List.map_cons, List.sum_cons]
      rw [atom_mass, ih]
  · intro u hu
    rw [List.mem_flatMap] at hu
    obtain ⟨a, _, hu⟩ := hu
    exact update_in_range n0 n1 h0 h1 round a.1 a.2 u hu

/-! ### whole-pixel translations roll the delta array -/

lemma emod_shift (r a : Int) (n : Nat) : (r + a) % (n : Int) = (r % (n : Int) + a) % (n : Int) := by
  rw [Int.emod_add_emod]

/-- In the sub-pixel branch the updates of an atom translated by `(a, b)` pixels are the updates of the atom with
their indices translated periodically; the weights do not change. -/
lemma atomUpdates_shift (n0 n1 : Nat) (h0 : 0 < n0) (h1 : 0 < n1) (p : Rat × Rat) (w : Rat) (a b : Int) :
    atomUpdates n0 n1 false (p.1 + a, p.2 + b) w =
      (atomUpdates n0 n1 false p w).map fun u => ⟨(u.i + a) % (n0 : Int), (u.j + b) % (n1 : Int), u.v⟩ := by
  rw [atomUpdates_subpixel, atomUpdates_subpixel]
  simp only [floor_add_int, pyMod_pos _ _ h0, pyMod_pos _ _ h1, List.map_cons, List.map_nil]
  have e0 : ∀ r : Int, (r + a) % (n0 : Int) = (r % (n0 : Int) + a) % (n0 : Int) := fun r => emod_shift r a n0
  have e1 : ∀ r : Int, (r + b) % (n1 : Int) = (r % (n1 : Int) + b) % (n1 : Int) := fun r => emod_shift r b n1
  have f0 : p.1.floor + a + 1 = (p.1.floor + 1) + a := by ring
  have f1 : p.2.floor + b + 1 = (p.2.floor + 1) + b := by ring
  have hx : p.1 + (a : Rat) - ((p.1.floor + a : Int) : Rat) = p.1 - (p.1.floor : Rat) := by push_cast; ring
  have hy : p.2 + (b : Rat) - ((p.2.floor + b : Int) : Rat) = p.2 - (p.2.floor : Rat) := by push_cast; ring
  simp only [f0, f1, ← e0, ← e1, hx, hy]

lemma accumulate_map_shift (n0 n1 : Nat) (h0 : 0 < n0) (h1 : 0 < n1) (us : List Update) (a b i j : Int)
    (hus : ∀ u ∈ us, 0 ≤ u.i ∧ u.i < n0 ∧ 0 ≤ u.j ∧ u.j < n1)
    (hi : 0 ≤ i ∧ i < n0) (hj : 0 ≤ j ∧ j < n1) :
    accumulate (us.map fun u => ⟨(u.i + a) % (n0 : Int), (u.j + b) % (n1 : Int), u.v⟩) i j
      = accumulate us ((i - a) % (n0 : Int)) ((j - b) % (n1 : Int)) := by
  unfold accumulate
  rw [List.map_map]
  congr 1
  apply List.map_congr_left
  intro u hu
  obtain ⟨hu0, hu1, hu2, hu3⟩ := hus u hu
  have key : ∀ (n : Nat) (_ : 0 < n) (ui a i : Int), 0 ≤ ui → ui < n → 0 ≤ i → i < n →
      ((ui + a) % (n : Int) = i ↔ ui = (i - a) % (n : Int)) := by
    intro n hn ui a i h1 h2 h3 h4
    constructor
    · intro h
      have : (i - a) % (n : Int) = ((ui + a) % (n : Int) - a) % (n : Int) := by rw [h]
      rw [this, Int.emod_sub_emod, add_sub_cancel_right, Int.emod_eq_of_lt h1 h2]
    · intro h
      rw [h, Int.emod_add_emod, sub_add_cancel, Int.emod_eq_of_lt h3 h4]
  simp only [Function.comp]
  have k0 := key n0 h0 u.i a i hu0 hu1 hi.1 hi.2
  have k1 := key n1 h1 u.j b j hu2 hu3 hj.1 hj.2
  by_cases c : u.i = (i - a) % (n0 : Int) ∧ u.j = (j - b) % (n1 : Int)
  · have c' : (u.i + a) % (n0 : Int) = i ∧ (u.j + b) % (n1 : Int) = j := ⟨k0.mpr c.1, k1.mpr c.2⟩
    rw [if_pos c', if_pos c]
  · have c' : ¬ ((u.i + a) % (n0 : Int) = i ∧ (u.j + b) % (n1 : Int) = j) := fun h => c ⟨k0.mp h.1, k1.mp h.2⟩
    rw [if_neg c', if_neg c]

/-- `deltas_pixel_shift`: translating every atom by `(a, b)` whole pixels rolls the array written by
`superpose_deltas` (sub-pixel branch, the one used by the potential) by `(a, b)` with periodic wrap — for every grid,
every number of atoms, every weights, every integer shift (also far outside the cell). -/
theorem deltas_pixel_shift (n0 n1 : Nat) (h0 : 0 < n0) (h1 : 0 < n1) (atoms : List ((Rat × Rat) × Rat)) (a b : Int)
    (i j : Int) (hi : 0 ≤ i ∧ i < n0) (hj : 0 ≤ j ∧ j < n1) :
    superposeDeltas n0 n1 false (atoms.map fun at_ => ((at_.1.1 + a, at_.1.2 + b), at_.2)) i j
      = roll n0 n1 a b (superposeDeltas n0 n1 false atoms) i j := by
  unfold superposeDeltas roll
  dsimp only
  rw [← accumulate_map_shift n0 n1 h0 h1 _ a b i j _ hi hj]
  · congr 1
    rw [List.flatMap_map, List.map_flatMap]
    apply List.flatMap_congr
    intro at_ _
    exact atomUpdates_shift n0 n1 h0 h1 at_.1 at_.2 a b
  · intro u hu
    rw [List.mem_flatMap] at hu
    obtain ⟨at_, _, hu⟩ := hu
    exact update_in_range n0 n1 h0 h1 false at_.1 at_.2 u hu

/-! ### Fourier multipliers commute with translations -/
section Multiplier
variable {ι : Type*} [Fintype ι]

/-- `multiplier_equivariant`: let `T` be any operation on arrays (a periodic roll) under which the transform only
picks up a factor `χ` (the shift rule).  Then every Fourier multiplier — scattering factor divided by the pixel sinc —
commutes with `T`. -/
theorem multiplier_equivariant (P : FourierPair ι) (T : (ι → ℂ) → (ι → ℂ)) (χ : ι → ℂ)
    (hT : ∀ x k, P.F (T x) k = χ k * P.F x k) (m : ι → ℂ) (x : ι → ℂ) :
    P.mult m (T x) = T (P.mult m x) := by
  have hinj : ∀ u v : ι → ℂ, P.F u = P.F v → u = v := by
    intro u v h
    rw [← P.inv_left u, ← P.inv_left v, h]
  apply hinj
  funext k
  rw [hT]
  unfold FourierPair.mult
  rw [P.inv_right, P.inv_right, hT]
  ring

/-- `infinite_projection_covariant`: with the delta arrays related by a roll `T`, the species contribution
`F⁻¹(m · F δ)` of the rolled deltas is the rolled contribution; sums over species follow by linearity of `T`. -/
theorem infinite_projection_covariant (P : FourierPair ι) (T : (ι → ℂ) → (ι → ℂ)) (χ : ι → ℂ)
    (hT : ∀ x k, P.F (T x) k = χ k * P.F x k) (m δ δ' : ι → ℂ) (hδ : δ' = T δ) :
    P.mult m δ' = T (P.mult m δ) := by
  rw [hδ]; exact multiplier_equivariant P T χ hT m δ

/-- `multiplier_sum`: if coefficient `k₀` of the transform is the plain sum (the DC term), the sum of a multiplier
output is `m k₀` times the sum of the input: the slice mean only depends on the total delta mass. -/
theorem multiplier_sum (P : FourierPair ι) (k₀ : ι) (hdc : ∀ x, P.F x k₀ = ∑ j, x j) (m x : ι → ℂ) :
    ∑ j, P.mult m x j = m k₀ * ∑ j, x j := by
  rw [← hdc (P.mult m x)]
  unfold FourierPair.mult
  rw [P.inv_right, hdc]

end Multiplier

section Concrete
open ZMod
variable {N : ℕ} [NeZero N]

/-- The concrete DFT satisfies the shift rule: rolling by `a` multiplies coefficient `k` by `e(-a k / N)`. -/
theorem zmod_shift_rule (a : ZMod N) (x : ZMod N → ℂ) (k : ZMod N) :
    (zmodPair N).F (fun j => x (j - a)) k = stdAddChar (-(a * k)) * (zmodPair N).F x k := by
  show 𝓕 (fun j => x (j - a)) k = stdAddChar (-(a * k)) * 𝓕 x k
  rw [ZMod.dft_apply, ZMod.dft_apply, Finset.mul_sum]
  rw [← Equiv.sum_comp (Equiv.addRight a)]
  apply Finset.sum_congr rfl
  intro j _
  simp only [Equiv.coe_addRight, add_sub_cancel_right, smul_eq_mul]
  rw [← mul_assoc, ← AddChar.map_add_eq_mul]
  congr 2
  ring

/-- … and its zeroth coefficient is the plain sum. -/
theorem zmod_dc (x : ZMod N → ℂ) : (zmodPair N).F x 0 = ∑ j, x j := by
  show 𝓕 x 0 = _
  rw [ZMod.dft_apply_zero]

/-- Hence, for the concrete transform, every multiplier commutes with every periodic roll. -/
theorem zmod_multiplier_roll (a : ZMod N) (m x : ZMod N → ℂ) :
    (zmodPair N).mult m (fun j => x (j - a)) = fun j => (zmodPair N).mult m x (j - a) :=
  multiplier_equivariant (zmodPair N) (fun x j => x (j - a)) (fun k => stdAddChar (-(a * k)))
    (fun x k => zmod_shift_rule a x k) m x

end Concrete

/-! ### finite projection: index/offset logic of the numba kernel -/

/-- Python `round` (half to even) commutes with adding an integer except exactly at a tie (`round(0.5) = 0` but
`round(1.5) = 2`). -/
lemma roundHalfEven_add_int' (x : Rat) (a : Int) (hx : x - (x.floor : Rat) ≠ 1 / 2) :
    pyRoundHalfEven (x + a) = pyRoundHalfEven x + a := by
  unfold pyRoundHalfEven
  simp only [floor_add_int]
  have hr : x + (a : Rat) - ((x.floor + a : Int) : Rat) = x - (x.floor : Rat) := by push_cast; ring
  rw [hr]
  split_ifs with h1 h2 h3 h4 <;> first | omega | (exfalso; apply hx; linarith)

/-- `radial_hits_shift` (unclipped part of `finite_projection_covariant`): translating an atom by `(a, b)` whole
pixels moves its centre pixel by `(a, b)` and leaves every evaluation distance unchanged — unless the atom sits
exactly on a half-pixel tie, where Python's round-half-to-even picks centre pixels of different parity (the touched disk
then differs by one boundary ring). -/
theorem radial_hits_shift (s0 s1 x y : Rat) (hs0 : s0 ≠ 0) (hs1 : s1 ≠ 0) (a b d0 d1 : Int)
    (tx : x / s0 - ((x / s0).floor : Rat) ≠ 1 / 2) (ty : y / s1 - ((y / s1).floor : Rat) ≠ 1 / 2) :
    radialPx (x + a * s0) s0 = radialPx x s0 + a ∧ radialPy (y + b * s1) s1 = radialPy y s1 + b ∧
    radialDist2 (radialK (radialPx (x + a * s0) s0) d0) (radialM (radialPy (y + b * s1) s1) d1) (x + a * s0) (y + b * s1) s0 s1
      = radialDist2 (radialK (radialPx x s0) d0) (radialM (radialPy y s1) d1) x y s0 s1 := by
  have hx : (x + a * s0) / s0 = x / s0 + a := by field_simp
  have hy : (y + b * s1) / s1 = y / s1 + b := by field_simp
  have px : radialPx (x + a * s0) s0 = radialPx x s0 + a := by
    unfold radialPx; rw [hx, roundHalfEven_add_int' _ _ tx]
  have py : radialPy (y + b * s1) s1 = radialPy y s1 + b := by
    unfold radialPy; rw [hy, roundHalfEven_add_int' _ _ ty]
  refine ⟨px, py, ?_⟩
  rw [px, py]
  unfold radialDist2 radialK radialM
  push_cast; ring

/-! ### supercell repetition: the delta array of the repeated cell is the tiled delta array -/

/-- among the `R` copies `t + r·n` (`r < R`) exactly one falls on pixel `i` of the `R·n` grid when `t ≡ i (mod n)`,
and none otherwise -/
lemma copies_hit_once (n R : Nat) (hn : 0 < n) (hR : 0 < R) (t i : Int) (hi0 : 0 ≤ i) (hi1 : i < (R * n : Nat)) (v : Rat) :
    ∑ r ∈ range R, (if (t + (r : Int) * n) % ((R * n : Nat) : Int) = i then v else 0)
      = if t % (n : Int) = i % (n : Int) then v else 0 := by
  have hRn : ((R * n : Nat) : Int) = (R : Int) * n := by push_cast; ring
  by_cases h : t % (n : Int) = i % (n : Int)
  · rw [if_pos h]
    -- i - t = n * q
    obtain ⟨q, hq⟩ : ∃ q : Int, i - t = n * q := by
      have hd : (n : Int) ∣ i - t := Int.dvd_of_emod_eq_zero (by
        rw [Int.sub_emod, h]; simp)
      exact hd
    have key : ∀ r : Nat, r < R → ((t + (r : Int) * n) % ((R * n : Nat) : Int) = i ↔ (r : Int) = q % (R : Int)) := by
      intro r hr
      rw [hRn]
      constructor
      · intro hm
        have hd : ((R : Int) * n) ∣ (t + (r : Int) * n - i) := Int.dvd_self_sub_of_emod_eq hm
        have e : t + (r : Int) * n - i = n * ((r : Int) - q) := by linarith [hq]
        rw [e, mul_comm (R : Int) n] at hd
        have hd' : (R : Int) ∣ (r : Int) - q := (Int.mul_dvd_mul_iff_left (by omega)).mp hd
        have : ((r : Int) - q) % (R : Int) = 0 := Int.emod_eq_zero_of_dvd hd'
        have h2 : (r : Int) % (R : Int) = q % (R : Int) := Int.emod_eq_emod_iff_emod_sub_eq_zero.mpr this
        rw [← h2, Int.emod_eq_of_lt (by omega) (by omega)]
      · intro hr'
        have e : t + (r : Int) * n = i + n * ((r : Int) - q) := by linarith [hq]
        have hd : (R : Int) ∣ (r : Int) - q := by
          apply Int.dvd_of_emod_eq_zero
          rw [Int.sub_emod, hr', Int.emod_emod_of_dvd _ (dvd_refl _)]; simp
        obtain ⟨z, hz⟩ := hd
        rw [e, hz, show i + n * ((R : Int) * z) = i + (R : Int) * n * z by ring, Int.add_mul_emod_self_left]
        exact Int.emod_eq_of_lt hi0 (by rw [← hRn]; exact hi1)
    have hq0 : 0 ≤ q % (R : Int) := Int.emod_nonneg _ (by omega)
    have hq1 : q % (R : Int) < R := Int.emod_lt_of_pos _ (by omega)
    rw [Finset.sum_eq_single_of_mem (q % (R : Int)).toNat (by rw [mem_range]; omega)]
    · rw [if_pos ((key _ (by omega)).mpr (by omega))]
    · intro r hr hne
      rw [mem_range] at hr
      rw [if_neg]
      intro hm
      apply hne
      have := (key r hr).mp hm
      omega
  · rw [if_neg h]
    apply Finset.sum_eq_zero
    intro r _
    rw [if_neg]
    intro hm
    apply h
    have : (t + (r : Int) * n) % (n : Int) = i % (n : Int) := by
      rw [← hm, hRn, Int.emod_emod_of_dvd _ (Dvd.intro_left _ rfl)]
    rw [← this, Int.add_mul_emod_self_right]

/-- raw (unreduced) updates of one atom in the sub-pixel branch: target indices before `% shape`, and the weights -/
def rawUpdates (p : Rat × Rat) (w : Rat) : List (Int × Int × Rat) :=
  let r := p.1.floor; let c := p.2.floor
  let x := p.1 - r; let y := p.2 - c
  [(r, c, (1 + x * y - y - x) * w), (r + 1, c, (x - x * y) * w), (r, c + 1, (y - x * y) * w), (r + 1, c + 1, (x * y) * w)]

lemma atomUpdates_raw (n0 n1 : Nat) (h0 : 0 < n0) (h1 : 0 < n1) (p : Rat × Rat) (w : Rat) :
    atomUpdates n0 n1 false p w = (rawUpdates p w).map fun t => ⟨t.1 % (n0 : Int), t.2.1 % (n1 : Int), t.2.2⟩ := by
  rw [atomUpdates_subpixel]
  simp [rawUpdates, pyMod_pos _ _ h0, pyMod_pos _ _ h1]

lemma rawUpdates_shift (p : Rat × Rat) (w : Rat) (a b : Int) :
    rawUpdates (p.1 + a, p.2 + b) w = (rawUpdates p w).map fun t => (t.1 + a, t.2.1 + b, t.2.2) := by
  simp only [rawUpdates, floor_add_int, List.map_cons, List.map_nil]
  have hx : p.1 + (a : Rat) - ((p.1.floor + a : Int) : Rat) = p.1 - (p.1.floor : Rat) := by push_cast; ring
  have hy : p.2 + (b : Rat) - ((p.2.floor + b : Int) : Rat) = p.2 - (p.2.floor : Rat) := by push_cast; ring
  have f0 : p.1.floor + a + 1 = p.1.floor + 1 + a := by ring
  have f1 : p.2.floor + b + 1 = p.2.floor + 1 + b := by ring
  simp only [hx, hy, f0, f1]

lemma accumulate_append (l1 l2 : List Update) (i j : Int) :
    accumulate (l1 ++ l2) i j = accumulate l1 i j + accumulate l2 i j := by
  simp [accumulate]

lemma accumulate_flatMap {β : Type} (l : List β) (f : β → List Update) (i j : Int) :
    accumulate (l.flatMap f) i j = (l.map fun b => accumulate (f b) i j).sum := by
  induction l with
  | nil => simp [accumulate]
  | cons b l ih => simp [List.flatMap_cons, accumulate_append, ih]

lemma list_range_sum (R : Nat) (f : Nat → Rat) : ((List.range R).map f).sum = ∑ r ∈ range R, f r := by
  induction R with
  | zero => simp
  | succ R ih => rw [List.range_succ, List.map_append, List.sum_append, ih, Finset.sum_range_succ]; simp

/-- two-dimensional version of `copies_hit_once` -/
lemma copies_hit_once_2d (n0 n1 R0 R1 : Nat) (h0 : 0 < n0) (h1 : 0 < n1) (hR0 : 0 < R0) (hR1 : 0 < R1)
    (t0 t1 i j : Int) (hi : 0 ≤ i ∧ i < (R0 * n0 : Nat)) (hj : 0 ≤ j ∧ j < (R1 * n1 : Nat)) (v : Rat) :
    ∑ r0 ∈ range R0, ∑ r1 ∈ range R1,
        (if (t0 + (r0 : Int) * n0) % ((R0 * n0 : Nat) : Int) = i ∧ (t1 + (r1 : Int) * n1) % ((R1 * n1 : Nat) : Int) = j then v else 0)
      = if t0 % (n0 : Int) = i % (n0 : Int) ∧ t1 % (n1 : Int) = j % (n1 : Int) then v else 0 := by
  have inner : ∀ r0 : Nat, ∑ r1 ∈ range R1,
        (if (t0 + (r0 : Int) * n0) % ((R0 * n0 : Nat) : Int) = i ∧ (t1 + (r1 : Int) * n1) % ((R1 * n1 : Nat) : Int) = j then v else 0)
      = if (t0 + (r0 : Int) * n0) % ((R0 * n0 : Nat) : Int) = i then (if t1 % (n1 : Int) = j % (n1 : Int) then v else 0) else 0 := by
    intro r0
    by_cases hA : (t0 + (r0 : Int) * n0) % ((R0 * n0 : Nat) : Int) = i
    · simp only [hA, true_and, if_true]
      exact copies_hit_once n1 R1 h1 hR1 t1 j hj.1 hj.2 v
    · simp only [hA, false_and, if_false, Finset.sum_const_zero]
  simp only [inner]
  rw [copies_hit_once n0 R0 h0 hR0 t0 i hi.1 hi.2]
  by_cases hA : t0 % (n0 : Int) = i % (n0 : Int) <;> simp [hA]

/-- the atoms of the `R0 × R1` supercell of an `n0 × n1`-pixel cell (positions in pixels of the common sampling) -/
def supercell (n0 n1 R0 R1 : Nat) (atoms : List ((Rat × Rat) × Rat)) : List ((Rat × Rat) × Rat) :=
  atoms.flatMap fun a => (List.range R0).flatMap fun (r0 : Nat) => (List.range R1).map fun (r1 : Nat) =>
    ((a.1.1 + (((r0 : Int) * (n0 : Int) : Int) : Rat), a.1.2 + (((r1 : Int) * (n1 : Int) : Int) : Rat)), a.2)

lemma raw_copies_sum (n0 n1 R0 R1 : Nat) (h0 : 0 < n0) (h1 : 0 < n1) (hR0 : 0 < R0) (hR1 : 0 < R1)
    (i j : Int) (hi : 0 ≤ i ∧ i < (R0 * n0 : Nat)) (hj : 0 ≤ j ∧ j < (R1 * n1 : Nat)) (L : List (Int × Int × Rat)) :
    ∑ r0 ∈ range R0, ∑ r1 ∈ range R1, (L.map fun t =>
        if (t.1 + (r0 : Int) * n0) % ((R0 * n0 : Nat) : Int) = i ∧ (t.2.1 + (r1 : Int) * n1) % ((R1 * n1 : Nat) : Int) = j
        then t.2.2 else 0).sum
      = (L.map fun t => if t.1 % (n0 : Int) = i % (n0 : Int) ∧ t.2.1 % (n1 : Int) = j % (n1 : Int) then t.2.2 else 0).sum := by
  induction L with
  | nil => simp
  | cons t L ih =>
    simp only [List.map_cons, List.sum_cons, Finset.sum_add_distrib]
    rw [ih, copies_hit_once_2d n0 n1 R0 R1 h0 h1 hR0 hR1 t.1 t.2.1 i j hi hj t.2.2]

/-- `deltas_tile`: the delta array of the `R0 × R1` supercell on the `R0·n0 × R1·n1` grid is the tiled delta array of the
unit cell (`np.tile`), for every cell, repetition, atom list and weights. -/
theorem deltas_tile (n0 n1 R0 R1 : Nat) (h0 : 0 < n0) (h1 : 0 < n1) (hR0 : 0 < R0) (hR1 : 0 < R1)
    (atoms : List ((Rat × Rat) × Rat)) (i j : Int) (hi : 0 ≤ i ∧ i < (R0 * n0 : Nat)) (hj : 0 ≤ j ∧ j < (R1 * n1 : Nat)) :
    superposeDeltas (R0 * n0) (R1 * n1) false (supercell n0 n1 R0 R1 atoms) i j
      = tile n0 n1 (superposeDeltas n0 n1 false atoms) i j := by
  have hN0 : 0 < R0 * n0 := Nat.mul_pos hR0 h0
  have hN1 : 0 < R1 * n1 := Nat.mul_pos hR1 h1
  unfold superposeDeltas tile supercell
  dsimp only
  rw [List.flatMap_assoc, accumulate_flatMap, accumulate_flatMap]
  congr 1
  apply List.map_congr_left
  intro a _
  rw [List.flatMap_assoc, accumulate_flatMap, list_range_sum]
  have step : ∀ r0 : Nat, accumulate (((List.range R1).map fun (r1 : Nat) =>
        ((a.1.1 + (((r0 : Int) * (n0 : Int) : Int) : Rat), a.1.2 + (((r1 : Int) * (n1 : Int) : Int) : Rat)), a.2)).flatMap
          fun b => atomUpdates (R0 * n0) (R1 * n1) false b.1 b.2) i j
      = ∑ r1 ∈ range R1, ((rawUpdates a.1 a.2).map fun t =>
          if (t.1 + (r0 : Int) * n0) % ((R0 * n0 : Nat) : Int) = i ∧ (t.2.1 + (r1 : Int) * n1) % ((R1 * n1 : Nat) : Int) = j
          then t.2.2 else 0).sum := by
    intro r0
    rw [List.flatMap_map, accumulate_flatMap, list_range_sum]
    apply Finset.sum_congr rfl
    intro r1 _
    rw [atomUpdates_raw _ _ hN0 hN1]
    rw [rawUpdates_shift a.1 a.2 ((r0 : Int) * (n0 : Int)) ((r1 : Int) * (n1 : Int))]
    simp only [accumulate, List.map_map, Nat.cast_mul]
    rfl
  simp only [step]
  rw [raw_copies_sum n0 n1 R0 R1 h0 h1 hR0 hR1 i j hi hj, atomUpdates_raw _ _ h0 h1]
  simp only [accumulate, List.map_map]
  first | done | (congr 1)

/-! ### end to end on the concrete 2-D DFT, and the tiled potential -/
section EndToEnd
open ZMod
variable {n m : ℕ} [NeZero n] [NeZero m]

/-- shift rule of the separable 2-D DFT: a periodic roll by `a` multiplies coefficient `k` by `e(-a₁k₁/n) e(-a₂k₂/m)` -/
theorem zmod2_shift_rule (a : ZMod n × ZMod m) (x : ZMod n × ZMod m → ℂ) (k : ZMod n × ZMod m) :
    (zmodPair2 n m).F (fun j => x (j - a)) k
      = (stdAddChar (-(a.1 * k.1)) * stdAddChar (-(a.2 * k.2))) * (zmodPair2 n m).F x k := by
  show (alongFst (zmodPair n).F) ((alongSnd (zmodPair m).F) (fun j => x (j - a))) k
     = _ * (alongFst (zmodPair n).F) ((alongSnd (zmodPair m).F) x) k
  simp only [alongFst, alongSnd, LinearMap.coe_mk, AddHom.coe_mk]
  have h2 : ∀ i : ZMod n, (zmodPair m).F (fun j => x ((i, j) - a)) k.2
      = stdAddChar (-(a.2 * k.2)) * (zmodPair m).F (fun j => x (i - a.1, j)) k.2 := by
    intro i
    have := zmod_shift_rule a.2 (fun j => x (i - a.1, j)) k.2
    have e : (fun j => x ((i, j) - a)) = fun j => x (i - a.1, j - a.2) := by
      funext j; rfl
    rw [e]; exact this
  simp only [h2]
  have h1 := zmod_shift_rule a.1 (fun i => (zmodPair m).F (fun j => x (i, j)) k.2) k.1
  have e : (fun i => stdAddChar (-(a.2 * k.2)) * (zmodPair m).F (fun j => x (i - a.1, j)) k.2)
      = stdAddChar (-(a.2 * k.2)) • (fun i => (zmodPair m).F (fun j => x (i - a.1, j)) k.2) := by
    funext i; simp
  rw [e, _root_.map_smul, Pi.smul_apply, smul_eq_mul, h1]
  ring

/-- every Fourier multiplier of the 2-D DFT commutes with every periodic 2-D roll -/
theorem zmod2_multiplier_roll (a : ZMod n × ZMod m) (μ x : ZMod n × ZMod m → ℂ) :
    (zmodPair2 n m).mult μ (fun j => x (j - a)) = fun j => (zmodPair2 n m).mult μ x (j - a) :=
  multiplier_equivariant (zmodPair2 n m) (fun x j => x (j - a))
    (fun k => stdAddChar (-(a.1 * k.1)) * stdAddChar (-(a.2 * k.2))) (fun x k => zmod2_shift_rule a x k) μ x

/-- the array written by `superpose_deltas` as a function on the periodic `n × m` pixel grid -/
noncomputable def deltaArray (n m : ℕ) [NeZero n] [NeZero m] (atoms : List ((Rat × Rat) × Rat)) : ZMod n × ZMod m → ℂ :=
  fun p => ((superposeDeltas n m false atoms (p.1.val : ℤ) (p.2.val : ℤ) : ℚ) : ℂ)

/-- all atoms translated by `(a, b)` whole pixels -/
def translate (a b : ℤ) (atoms : List ((Rat × Rat) × Rat)) : List ((Rat × Rat) × Rat) :=
  atoms.map fun at_ => ((at_.1.1 + a, at_.1.2 + b), at_.2)

lemma val_sub_intCast (N : ℕ) [NeZero N] (p : ZMod N) (a : ℤ) :
    (((p - (a : ZMod N)).val : ℕ) : ℤ) = ((p.val : ℤ) - a) % (N : ℤ) := by
  have hp : p = (((p.val : ℤ)) : ZMod N) := by simp
  conv_lhs => rw [hp, ← Int.cast_sub, ZMod.val_intCast]

/-- `deltas_pixel_shift` on the periodic grid: translating the atoms rolls the delta array -/
theorem deltaArray_translate (a b : ℤ) (atoms : List ((Rat × Rat) × Rat)) :
    deltaArray n m (translate a b atoms) = fun p => deltaArray n m atoms (p - ((a : ZMod n), (b : ZMod m))) := by
  funext p
  unfold deltaArray translate
  have hn : 0 < n := Nat.pos_of_ne_zero (NeZero.ne n)
  have hm : 0 < m := Nat.pos_of_ne_zero (NeZero.ne m)
  have h := deltas_pixel_shift n m hn hm atoms a b (p.1.val : ℤ) (p.2.val : ℤ)
    ⟨by positivity, by exact_mod_cast ZMod.val_lt p.1⟩ ⟨by positivity, by exact_mod_cast ZMod.val_lt p.2⟩
  rw [h]
  unfold roll
  simp only [Prod.fst_sub, Prod.snd_sub, val_sub_intCast]

/-- `infinite_projection_pixel_shift`: end to end, for the concrete 2-D DFT.  The infinite-projection slice is
`Σ_species Re F₂⁻¹( m_s · F₂ δ_s )` with `δ_s` the array `superpose_deltas` writes for the atoms of species `s` and `m_s` any
symbol (scattering factor / sinc).  Translating every atom by `(a, b)` whole pixels — any distance — rolls the slice by
`(a, b)` with periodic wrap, for every grid, species list, atom list, weights and symbols. -/
theorem infinite_projection_pixel_shift (species : List ((ZMod n × ZMod m → ℂ) × List ((Rat × Rat) × Rat))) (a b : ℤ)
    (p : ZMod n × ZMod m) :
    (species.map fun s => ((zmodPair2 n m).mult s.1 (deltaArray n m (translate a b s.2)) p).re).sum
      = (species.map fun s => ((zmodPair2 n m).mult s.1 (deltaArray n m s.2) (p - ((a : ZMod n), (b : ZMod m)))).re).sum := by
  congr 1
  apply List.map_congr_left
  intro s _
  rw [deltaArray_translate, zmod2_multiplier_roll]

lemma sum_zmod_val (N : ℕ) [NeZero N] (f : ℕ → ℂ) : ∑ p : ZMod N, f p.val = ∑ i ∈ range N, f i := by
  obtain ⟨k, rfl⟩ : ∃ k, N = k + 1 := ⟨N - 1, by have := Nat.pos_of_ne_zero (NeZero.ne N); omega⟩
  exact Fin.sum_univ_eq_sum_range f (k + 1)

/-- the sum of the delta array over the periodic grid is the sum of the weights -/
theorem deltaArray_sum (atoms : List ((Rat × Rat) × Rat)) :
    ∑ p, deltaArray n m atoms p = (((atoms.map (·.2)).sum : ℚ) : ℂ) := by
  have hn : 0 < n := Nat.pos_of_ne_zero (NeZero.ne n)
  have hm : 0 < m := Nat.pos_of_ne_zero (NeZero.ne m)
  rw [← deltas_total_mass n m hn hm false atoms, Fintype.sum_prod_type]
  unfold deltaArray
  rw [sum_zmod_val n (fun i => ∑ q : ZMod m, ((superposeDeltas n m false atoms (i : ℤ) (q.val : ℤ) : ℚ) : ℂ))]
  push_cast
  apply Finset.sum_congr rfl; intro i _
  rw [sum_zmod_val m (fun j => ((superposeDeltas n m false atoms (i : ℤ) (j : ℤ) : ℚ) : ℂ))]

/-- `slice_mean_subpixel_invariant`, end to end: the sum (hence the mean) of a species' contribution `F₂⁻¹(μ · F₂ δ)` to an
infinite-projection slice is the DC symbol times the total weight — it does not depend on where the atoms sit. -/
theorem infinite_projection_slice_sum (μ : ZMod n × ZMod m → ℂ) (atoms : List ((Rat × Rat) × Rat)) :
    ∑ p, (zmodPair2 n m).mult μ (deltaArray n m atoms) p = μ (0, 0) * (((atoms.map (·.2)).sum : ℚ) : ℂ) := by
  rw [multiplier_sum (zmodPair2 n m) (0, 0) (zmodPair2_hasDC n m).dc, deltaArray_sum]

section Tiled
variable {ι κ : Type*} [Fintype ι] [Fintype κ]

/-- `tiled_potential`: two grids (unit cell `ι`, supercell `κ`) with their transform pairs; `tile` repeats an array of the unit
cell over the supercell and `sub K` is the unit-cell frequency index of supercell frequency `K` when `K` lies on the
sub-lattice.  Hypotheses: (hT) a tiled array only has Fourier coefficients on the sub-lattice, where they are `c` times the
unit-cell coefficients (true for the DFT with `c` = number of repetitions; validated numerically by the harness);
(hM) the symbol sampled on the finer reciprocal grid agrees with the unit-cell symbol on the sub-lattice (same physical
frequency; validated on the real scattering factors).  Then the multiplier applied to the tiled deltas is the tiled
unit-cell result: with `deltas_tile`, the infinite-projection potential of the supercell is the tiled potential. -/
theorem tiled_potential (P : FourierPair ι) (Q : FourierPair κ) (tile : (ι → ℂ) → (κ → ℂ)) (sub : κ → Option ι) (c : ℂ)
    (hT : ∀ x K, Q.F (tile x) K = match sub K with | some k => c * P.F x k | none => 0)
    (μ : ι → ℂ) (M : κ → ℂ) (hM : ∀ K k, sub K = some k → M K = μ k) (δ : ι → ℂ) :
    Q.mult M (tile δ) = tile (P.mult μ δ) := by
  have hinj : ∀ u v : κ → ℂ, Q.F u = Q.F v → u = v := by
    intro u v h; rw [← Q.inv_left u, ← Q.inv_left v, h]
  apply hinj
  funext K
  unfold FourierPair.mult
  rw [Q.inv_right, hT, hT]
  cases hs : sub K with
  | none => simp
  | some k =>
    simp only
    rw [P.inv_right, hM K k hs]; ring
end Tiled
end EndToEnd

/- Full statement for supercell repetition (not proved as a whole): the potential of the `R₀ × R₁` repeated cell on
   the `R₀ n₀ × R₁ n₁` grid equals `np.tile` of the unit-cell potential, for both projections, and `CrystalPotential`
   yields the same slices.
   Proved: the delta array of the supercell is the tiled delta array of the unit cell (`deltas_tile`: exactly one of the
   `R₀ R₁` copies of every update reaches each pixel of the big grid), and `tile` is periodic with the unit cell.
   Also proved (`tiled_potential`): for any two transform pairs, IF a tiled array only has Fourier coefficients on the
   sub-lattice (`hT`, the DFT fact) and the symbol sampled on the finer reciprocal grid agrees with the unit-cell symbol there
   (`hM`), the multiplier of the tiled deltas is the tiled unit-cell result.  `hT` and `hM` are hypotheses: validated on
   numpy's fft2 and on the real `get_scattering_factor / sinc` by the conformance oracle, not proved for `ZMod.dft`.
   Missing: those two hypotheses as theorems, `pad_atoms` images for finite projections, and the slice bookkeeping of
   `CrystalPotential.generate_slices` (C10).  These are checked by the conformance oracle only. -/
theorem supercell_tile_partial (n0 n1 : Nat) (v : Int → Int → Rat) (i j r0 r1 : Int) :
    tile n0 n1 v (i + r0 * n0) (j + r1 * n1) = tile n0 n1 v i j := by
  unfold tile
  rw [Int.add_mul_emod_self_right, Int.add_mul_emod_self_right]

/-! ### non-vacuity -/
example : superposeDeltas 4 4 false ([(((9/2 : Rat), (-1/4 : Rat)), (1 : Rat))].map
      fun at_ => ((at_.1.1 + ((2 : Int) : Rat), at_.1.2 + ((1 : Int) : Rat)), at_.2)) 0 3
    = roll 4 4 2 1 (superposeDeltas 4 4 false [((9/2, -1/4), 1)]) 0 3 :=
  deltas_pixel_shift 4 4 (by decide) (by decide) _ 2 1 0 3 (by decide) (by decide)
example : ((3 : Rat) / 4 - (((3 : Rat) / 4).floor : Rat) ≠ 1 / 2) := by
  have : ((3 : Rat) / 4).floor = 0 := by decide +kernel
  rw [this]; norm_num
example : (0 : Int) ≤ 0 ∧ (0 : Int) < (4 : Nat) := by decide

end AbtemVerif.Props.C08
