/-
C33 — unit conversions compose and invert.

Statements are about `AbtemVerif.Units.conversionFactor` / `convertAxis` (hand model of
`get_conversion_factor`, `validate_units`, `LinearAxis.convert_units`) whose tables and
formulas are the *generated* definitions of `Gen/Units.lean` (`unitCategories`,
`conversionFactors pi`, `directFactor`, `angularFactor`), regenerated from
`abtem/core/units.py` on every run, and about the ℝ twins of `Gen/UnitsR.lean` (true π).

Quantifiers: every unit string of the three convertible categories (real space,
reciprocal space, angles — including the `Angstrom` aliases), every non-zero rational
stand-in `pi` for `np.pi` (in particular the float64 constant), every sampling, offset and
wavelength.  The unit definitions the factors are compared with (`size`) are stated here,
independently of the source tables.
-/
import AbtemVerif.Model.Units
import AbtemVerif.Gen.UnitsR
import Mathlib.Tactic.NormNum
import Mathlib.Tactic.FieldSimp
import Mathlib.Tactic.Ring

namespace AbtemVerif.Props.C33
open AbtemVerif.Units AbtemVerif.Gen.Units

/-! ### specification: what the units mean -/

/-- size of one unit in the SI unit of its category (metres, 1/metres, radians); `pi` stands for π -/
def size (pi : Rat) (u : String) : Rat :=
  if u = "Å" ∨ u = "Angstrom" then 1 / 10 ^ 10
  else if u = "nm" then 1 / 10 ^ 9
  else if u = "um" then 1 / 10 ^ 6
  else if u = "mm" then 1 / 10 ^ 3
  else if u = "m" then 1
  else if u = "1/Å" ∨ u = "1/Angstrom" then 10 ^ 10
  else if u = "1/nm" then 10 ^ 9
  else if u = "1/um" then 10 ^ 6
  else if u = "1/mm" then 10 ^ 3
  else if u = "1/m" then 1
  else if u = "rad" then 1
  else if u = "mrad" then 1 / 1000
  else if u = "deg" then pi / 180
  else 0

/-- the categories within which abTEM converts -/
def Convertible (cat : String) : Prop :=
  cat = "real_space" ∨ cat = "reciprocal_space" ∨ cat = "angular"

/-- the unit every factor of the table refers to -/
def baseUnit (cat : String) : String :=
  if cat = "real_space" then "Å" else if cat = "reciprocal_space" then "1/Å" else "mrad"

/-! ### helper lemmas -/

/-- the units of the three convertible categories, read off the generated category table -/
lemma units_of_cat {u cat : String} (h : unitsType u = some cat) (hc : Convertible cat) :
    (cat = "real_space" ∧ (u = "Å" ∨ u = "Angstrom" ∨ u = "nm" ∨ u = "um" ∨ u = "mm" ∨ u = "m")) ∨
    (cat = "reciprocal_space" ∧ (u = "1/Å" ∨ u = "1/Angstrom" ∨ u = "1/nm" ∨ u = "1/um" ∨ u = "1/mm" ∨ u = "1/m")) ∨
    (cat = "angular" ∧ (u = "rad" ∨ u = "mrad" ∨ u = "deg")) := by
  unfold unitsType unitCategories at h
  simp only [List.foldl] at h
  simp only [List.contains_cons, List.contains_nil, Bool.or_false, Bool.or_eq_true, beq_iff_eq] at h
  rcases hc with rfl | rfl | rfl <;> split_ifs at h with h1 h2 h3 h4 <;> simp_all

/-- table entry of a unit after alias resolution (`_conversion_factors[validate_units(u)]`) -/
def baseFactor (pi : Rat) (u : String) : Except String Rat :=
  match validated (some u) none with
  | .ok v => factorOf pi v
  | .error e => .error e

/-- every unit of a convertible category resolves to a table entry, and that entry is the size of the
category's base unit over the size of the unit (1 Å = 0.1 nm, 1 mrad = 1e-3 rad = 0.18/π deg …) -/
lemma baseFactor_spec {pi : Rat} (hpi : pi ≠ 0) {u cat : String} (h : unitsType u = some cat) (hc : Convertible cat) :
    baseFactor pi u = .ok (size pi (baseUnit cat) / size pi u) ∧ size pi u ≠ 0 := by
  rcases units_of_cat h hc with ⟨rfl, hu⟩ | ⟨rfl, hu⟩ | ⟨rfl, hu⟩
  · rcases hu with rfl | rfl | rfl | rfl | rfl | rfl <;>
      exact ⟨by simp [baseFactor, validated, validateUnits, canonical, h, factorOf, conversionFactors, List.lookup, size, baseUnit] <;> norm_num,
        by simp [size]⟩
  · rcases hu with rfl | rfl | rfl | rfl | rfl | rfl <;>
      exact ⟨by simp [baseFactor, validated, validateUnits, canonical, h, factorOf, conversionFactors, List.lookup, size, baseUnit] <;> norm_num,
        by simp [size]⟩
  · rcases hu with rfl | rfl | rfl
    · exact ⟨by simp [baseFactor, validated, validateUnits, canonical, h, factorOf, conversionFactors, List.lookup, size, baseUnit],
        by simp [size]⟩
    · exact ⟨by simp [baseFactor, validated, validateUnits, canonical, h, factorOf, conversionFactors, List.lookup, size, baseUnit],
        by simp [size]⟩
    · refine ⟨?_, by simp [size, hpi]⟩
      simp [baseFactor, validated, validateUnits, canonical, h, factorOf, conversionFactors, List.lookup, size, baseUnit]
      field_simp

lemma size_base_angular (pi : Rat) : size pi (baseUnit "angular") = 1 / 1000 := by simp [size, baseUnit]
lemma size_base_reciprocal (pi : Rat) : size pi (baseUnit "reciprocal_space") = 10 ^ 10 := by simp [size, baseUnit]

lemma size_base_ne_zero (pi : Rat) {cat : String} (hc : Convertible cat) : size pi (baseUnit cat) ≠ 0 := by
  rcases hc with rfl | rfl | rfl <;> simp [size, baseUnit]

/-- inside one category `get_conversion_factor` is the generated quotient of the two table entries -/
lemma conversionFactor_same_cat (pi : Rat) {u o cat : String} (hu : unitsType u = some cat) (ho : unitsType o = some cat)
    (w : Option Rat) {fu fo : Rat} (hfu : baseFactor pi u = .ok fu) (hfo : baseFactor pi o = .ok fo) :
    conversionFactor pi (some u) (some o) w = .ok (directFactor fu fo) := by
  have hval : validated (some u) (some o) = validated (some u) none := by
    simp [validated, validateUnits, hu, ho]
  unfold baseFactor at hfu hfo
  unfold conversionFactor
  simp only [ho, hu, hval]
  cases hvu : validated (some u) none with
  | error e => simp [hvu] at hfu
  | ok vu =>
    cases hvo : validated (some o) none with
    | error e => simp [hvo] at hfo
    | ok vo =>
      simp only [hvu, hvo] at hfu hfo
      by_cases h1 : cat = "reciprocal_space"
      · subst h1
        simp [hfu, hfo, bind, Except.bind, pure, Except.pure]
      · simp [h1, hfu, hfo, bind, Except.bind, pure, Except.pure]

/-! ### property theorems -/

/-- **Every conversion factor is the ratio of the unit sizes**: converting a quantity from `o` to `u`
multiplies by `size o / size u`, for every pair of units in one convertible category (aliases included),
whatever energy is passed. -/
theorem factor_is_unit_ratio {pi : Rat} (hpi : pi ≠ 0) {u o cat : String} (hu : unitsType u = some cat)
    (ho : unitsType o = some cat) (hc : Convertible cat) (w : Option Rat) :
    conversionFactor pi (some u) (some o) w = .ok (size pi o / size pi u) := by
  obtain ⟨hfu, hsu⟩ := baseFactor_spec hpi hu hc
  obtain ⟨hfo, hso⟩ := baseFactor_spec hpi ho hc
  rw [conversionFactor_same_cat pi hu ho w hfu hfo]
  have hb := size_base_ne_zero pi hc
  congr 1
  unfold directFactor
  field_simp

/-- **Invert**: converting a → b and back is the identity. -/
theorem invert {pi : Rat} (hpi : pi ≠ 0) {a b cat : String} (ha : unitsType a = some cat) (hb : unitsType b = some cat)
    (hc : Convertible cat) (w w' : Option Rat) :
    ∃ x y, conversionFactor pi (some b) (some a) w = .ok x ∧ conversionFactor pi (some a) (some b) w' = .ok y ∧ x * y = 1 := by
  refine ⟨_, _, factor_is_unit_ratio hpi hb ha hc w, factor_is_unit_ratio hpi ha hb hc w', ?_⟩
  have h1 := (baseFactor_spec hpi ha hc).2
  have h2 := (baseFactor_spec hpi hb hc).2
  field_simp

/-- **Compose**: converting a → b → c equals converting a → c directly. -/
theorem compose {pi : Rat} (hpi : pi ≠ 0) {a b c cat : String} (ha : unitsType a = some cat) (hb : unitsType b = some cat)
    (hcc : unitsType c = some cat) (hc : Convertible cat) (w₁ w₂ w₃ : Option Rat) :
    ∃ x y z, conversionFactor pi (some b) (some a) w₁ = .ok x ∧ conversionFactor pi (some c) (some b) w₂ = .ok y ∧
      conversionFactor pi (some c) (some a) w₃ = .ok z ∧ y * x = z := by
  refine ⟨_, _, _, factor_is_unit_ratio hpi hb ha hc w₁, factor_is_unit_ratio hpi hcc hb hc w₂,
    factor_is_unit_ratio hpi hcc ha hc w₃, ?_⟩
  have h2 := (baseFactor_spec hpi hb hc).2
  have h3 := (baseFactor_spec hpi hcc hc).2
  field_simp

/-- Converting to the same unit is the identity (the defect F14 made `nm → nm` a factor 0.1). -/
theorem same_unit_is_identity {pi : Rat} (hpi : pi ≠ 0) {a cat : String} (ha : unitsType a = some cat) (hc : Convertible cat)
    (w : Option Rat) : conversionFactor pi (some a) (some a) w = .ok 1 := by
  rw [factor_is_unit_ratio hpi ha ha hc w, div_self (baseFactor_spec hpi ha hc).2]

/-- **Axes**: `LinearAxis.convert_units` a → b → c gives the same units, sampling and offset as a → c. -/
theorem axis_compose {pi : Rat} (hpi : pi ≠ 0) {a b c cat : String} (ha : unitsType a = some cat) (hb : unitsType b = some cat)
    (hcc : unitsType c = some cat) (hc : Convertible cat) (s off : Rat) (w₁ w₂ w₃ : Option Rat) :
    (do let (u₁, s₁, o₁) ← convertAxis pi a s off b w₁; convertAxis pi u₁ s₁ o₁ c w₂) = convertAxis pi a s off c w₃ := by
  have h2 := (baseFactor_spec hpi hb hc).2
  have h3 := (baseFactor_spec hpi hcc hc).2
  simp only [convertAxis, factor_is_unit_ratio hpi hb ha hc, factor_is_unit_ratio hpi hcc hb hc,
    factor_is_unit_ratio hpi hcc ha hc, bind, Except.bind, pure, Except.pure]
  congr 2
  · congr 1 <;> field_simp

/-- **Axes**: a → b → a restores units, sampling and offset. -/
theorem axis_roundtrip {pi : Rat} (hpi : pi ≠ 0) {a b cat : String} (ha : unitsType a = some cat) (hb : unitsType b = some cat)
    (hc : Convertible cat) (s off : Rat) (w₁ w₂ : Option Rat) :
    (do let (u₁, s₁, o₁) ← convertAxis pi a s off b w₁; convertAxis pi u₁ s₁ o₁ a w₂) = .ok (a, s, off) := by
  have h1 := (baseFactor_spec hpi ha hc).2
  have h2 := (baseFactor_spec hpi hb hc).2
  simp only [convertAxis, factor_is_unit_ratio hpi hb ha hc, factor_is_unit_ratio hpi ha hb hc,
    bind, Except.bind, pure, Except.pure]
  congr 2
  · congr 1 <;> field_simp

/-- **Reciprocal space → angle**: with wavelength λ (Å) the factor from reciprocal unit `k` to angular unit `a` is
`λ · (size k / size (1/Å)) / size a` — the small-angle relation angle[rad] = λ[Å]·k[1/Å] — for every reciprocal
and every angular unit. -/
theorem recip_to_angle {pi : Rat} (hpi : pi ≠ 0) {a k : String} (ha : unitsType a = some "angular")
    (hk : unitsType k = some "reciprocal_space") (lam : Rat) :
    conversionFactor pi (some a) (some k) (some lam) = .ok (lam * (size pi k / 10 ^ 10) / size pi a) := by
  obtain ⟨hfa, hsa⟩ := baseFactor_spec hpi ha (Or.inr (Or.inr rfl))
  obtain ⟨hfk, hsk⟩ := baseFactor_spec hpi hk (Or.inr (Or.inl rfl))
  have hm : unitsType "mrad" = some "angular" := by decide +kernel
  have hval : validated (some a) (some "mrad") = validated (some a) none := by
    simp [validated, validateUnits, ha, hm]
  unfold baseFactor at hfa hfk
  unfold conversionFactor
  simp only [hk, ha, hval]
  cases hva : validated (some a) none with
  | error e => simp [hva] at hfa
  | ok va =>
    cases hvk : validated (some k) none with
    | error e => simp [hvk] at hfk
    | ok vk =>
      simp only [hva, hvk] at hfa hfk
      simp only [if_true, hfa, hfk, bind, Except.bind, pure, Except.pure]
      congr 1
      rw [size_base_angular, size_base_reciprocal]
      unfold angularFactor
      field_simp

/-- Reciprocal → angle composes with angle → angle: k → a₁ → a₂ equals k → a₂. -/
theorem recip_to_angle_compose {pi : Rat} (hpi : pi ≠ 0) {a₁ a₂ k : String} (h1 : unitsType a₁ = some "angular")
    (h2 : unitsType a₂ = some "angular") (hk : unitsType k = some "reciprocal_space") (lam : Rat) (w : Option Rat) :
    ∃ x y z, conversionFactor pi (some a₁) (some k) (some lam) = .ok x ∧ conversionFactor pi (some a₂) (some a₁) w = .ok y ∧
      conversionFactor pi (some a₂) (some k) (some lam) = .ok z ∧ y * x = z := by
  refine ⟨_, _, _, recip_to_angle hpi h1 hk lam, factor_is_unit_ratio hpi h2 h1 (Or.inr (Or.inr rfl)) w,
    recip_to_angle hpi h2 hk lam, ?_⟩
  have s1 := (baseFactor_spec hpi h1 (Or.inr (Or.inr rfl))).2
  have s2 := (baseFactor_spec hpi h2 (Or.inr (Or.inr rfl))).2
  field_simp

/-- … and with reciprocal → reciprocal: k₁ → k₂ → a equals k₁ → a (the source unit is honoured). -/
theorem recip_to_angle_source_unit {pi : Rat} (hpi : pi ≠ 0) {a k₁ k₂ : String} (ha : unitsType a = some "angular")
    (hk1 : unitsType k₁ = some "reciprocal_space") (hk2 : unitsType k₂ = some "reciprocal_space") (lam : Rat) (w : Option Rat) :
    ∃ x y z, conversionFactor pi (some k₂) (some k₁) w = .ok x ∧ conversionFactor pi (some a) (some k₂) (some lam) = .ok y ∧
      conversionFactor pi (some a) (some k₁) (some lam) = .ok z ∧ y * x = z := by
  refine ⟨_, _, _, factor_is_unit_ratio hpi hk2 hk1 (Or.inr (Or.inl rfl)) w, recip_to_angle hpi ha hk2 lam,
    recip_to_angle hpi ha hk1 lam, ?_⟩
  have s1 := (baseFactor_spec hpi ha (Or.inr (Or.inr rfl))).2
  have s2 := (baseFactor_spec hpi hk2 (Or.inr (Or.inl rfl))).2
  field_simp

/-- Conversions between different categories are rejected (RuntimeError), except reciprocal → angle,
which needs an energy (RuntimeError without). -/
theorem cross_category_rejected (pi : Rat) {u o cu co : String} (hu : unitsType u = some cu) (ho : unitsType o = some co)
    (hne : cu ≠ co) (w : Option Rat) (hw : ¬ (co = "reciprocal_space" ∧ cu = "angular") ∨ w = none) :
    conversionFactor pi (some u) (some o) w = .error "runtime_error" := by
  have hval : validated (some u) (some o) = .error "runtime_error" := by
    simp [validated, validateUnits, hu, ho, hne]
  unfold conversionFactor
  simp only [hu, ho, hval]
  rcases hw with hw | rfl
  · by_cases h1 : co = "reciprocal_space"
    · have h2 : ¬ cu = "angular" := fun h2 => hw ⟨h1, h2⟩
      simp [h1, h2, bind, Except.bind]
    · simp [h1, bind, Except.bind]
  · by_cases h1 : co = "reciprocal_space" <;> by_cases h2 : cu = "angular" <;> simp [h1, h2, bind, Except.bind]

/-! ### the same statements over ℝ with the true π (generated `Gen/UnitsR.lean`) -/

open AbtemVerif.Gen in
/-- `get_conversion_factor` inside one category, over ℝ: quotient of the two real table entries after alias resolution -/
noncomputable def realFactor (u o : String) : Option ℝ :=
  match validated (some u) none, validated (some o) none with
  | .ok vu, .ok vo =>
    match UnitsR.conversionFactors.lookup vu, UnitsR.conversionFactors.lookup vo with
    | some fu, some fo => some (UnitsR.directFactor fu fo)
    | _, _ => none
  | _, _ => none

/-- unit sizes over ℝ -/
noncomputable def sizeR (u : String) : ℝ :=
  if u = "Å" ∨ u = "Angstrom" then 1 / 10 ^ 10
  else if u = "nm" then 1 / 10 ^ 9
  else if u = "um" then 1 / 10 ^ 6
  else if u = "mm" then 1 / 10 ^ 3
  else if u = "m" then 1
  else if u = "1/Å" ∨ u = "1/Angstrom" then 10 ^ 10
  else if u = "1/nm" then 10 ^ 9
  else if u = "1/um" then 10 ^ 6
  else if u = "1/mm" then 10 ^ 3
  else if u = "1/m" then 1
  else if u = "rad" then 1
  else if u = "mrad" then 1 / 1000
  else if u = "deg" then Real.pi / 180
  else 0

lemma realEntry_spec {u cat : String} (h : unitsType u = some cat) (hc : Convertible cat) :
    (∃ v, validated (some u) none = .ok v ∧
      AbtemVerif.Gen.UnitsR.conversionFactors.lookup v = some (sizeR (baseUnit cat) / sizeR u)) ∧ sizeR u ≠ 0 := by
  have hpi := Real.pi_ne_zero
  rcases units_of_cat h hc with ⟨rfl, hu⟩ | ⟨rfl, hu⟩ | ⟨rfl, hu⟩
  · rcases hu with rfl | rfl | rfl | rfl | rfl | rfl <;>
      exact ⟨⟨_, by simp [validated, validateUnits, canonical, h]; rfl,
        by simp [AbtemVerif.Gen.UnitsR.conversionFactors, List.lookup, sizeR, baseUnit] <;> norm_num⟩, by simp [sizeR]⟩
  · rcases hu with rfl | rfl | rfl | rfl | rfl | rfl <;>
      exact ⟨⟨_, by simp [validated, validateUnits, canonical, h]; rfl,
        by simp [AbtemVerif.Gen.UnitsR.conversionFactors, List.lookup, sizeR, baseUnit] <;> norm_num⟩, by simp [sizeR]⟩
  · rcases hu with rfl | rfl | rfl
    · exact ⟨⟨_, by simp [validated, validateUnits, canonical, h]; rfl,
        by simp [AbtemVerif.Gen.UnitsR.conversionFactors, List.lookup, sizeR, baseUnit]⟩, by simp [sizeR]⟩
    · exact ⟨⟨_, by simp [validated, validateUnits, canonical, h]; rfl,
        by simp [AbtemVerif.Gen.UnitsR.conversionFactors, List.lookup, sizeR, baseUnit]⟩, by simp [sizeR]⟩
    · refine ⟨⟨_, by simp [validated, validateUnits, canonical, h]; rfl, ?_⟩, by simp [sizeR, hpi]⟩
      simp [AbtemVerif.Gen.UnitsR.conversionFactors, List.lookup, sizeR, baseUnit]
      field_simp

/-- over ℝ with the true π: every factor is the ratio of the unit sizes (1 deg = π/180 rad) -/
theorem real_factor_is_unit_ratio {u o cat : String} (hu : unitsType u = some cat) (ho : unitsType o = some cat)
    (hc : Convertible cat) : realFactor u o = some (sizeR o / sizeR u) := by
  obtain ⟨⟨vu, hvu, hfu⟩, hsu⟩ := realEntry_spec hu hc
  obtain ⟨⟨vo, hvo, hfo⟩, hso⟩ := realEntry_spec ho hc
  have hb : sizeR (baseUnit cat) ≠ 0 := by rcases hc with rfl | rfl | rfl <;> simp [sizeR, baseUnit]
  simp only [realFactor, hvu, hvo, hfu, hfo, AbtemVerif.Gen.UnitsR.directFactor]
  congr 1
  field_simp

/-- over ℝ: compose (a → b → c = a → c) and invert (a → b → a = id) for every triple in a category -/
theorem real_compose_invert {a b c cat : String} (ha : unitsType a = some cat) (hb : unitsType b = some cat)
    (hcc : unitsType c = some cat) (hc : Convertible cat) :
    ∃ x y z x', realFactor b a = some x ∧ realFactor c b = some y ∧ realFactor c a = some z ∧ realFactor a b = some x' ∧
      y * x = z ∧ x' * x = 1 := by
  refine ⟨_, _, _, _, real_factor_is_unit_ratio hb ha hc, real_factor_is_unit_ratio hcc hb hc,
    real_factor_is_unit_ratio hcc ha hc, real_factor_is_unit_ratio ha hb hc, ?_, ?_⟩
  all_goals
    have h1 := (realEntry_spec ha hc).2
    have h2 := (realEntry_spec hb hc).2
    have h3 := (realEntry_spec hcc hc).2
    field_simp

/-- one radian is 180/π degrees, one milliradian 0.18/π degrees (true π) -/
theorem real_deg_per_rad : realFactor "deg" "rad" = some (180 / Real.pi) ∧ realFactor "deg" "mrad" = some (180 / (1000 * Real.pi)) := by
  have hd : unitsType "deg" = some "angular" := by decide +kernel
  have hr : unitsType "rad" = some "angular" := by decide +kernel
  have hm : unitsType "mrad" = some "angular" := by decide +kernel
  have hpi := Real.pi_ne_zero
  rw [real_factor_is_unit_ratio hd hr (Or.inr (Or.inr rfl)), real_factor_is_unit_ratio hd hm (Or.inr (Or.inr rfl))]
  constructor <;> (congr 1; simp [sizeR]; try field_simp)

/-! ### non-vacuity and concrete anchors -/
example : unitsType "nm" = some "real_space" ∧ unitsType "1/Angstrom" = some "reciprocal_space" ∧ unitsType "deg" = some "angular" := by
  decide +kernel
example : Convertible "angular" := Or.inr (Or.inr rfl)
example : conversionFactor 3 (some "nm") (some "um") none = .ok 1000 := by decide +kernel
example : conversionFactor 3 (some "1/Angstrom") (some "1/nm") none = .ok (1 / 10) := by decide +kernel
example : conversionFactor 3 (some "rad") (some "mrad") none = .ok (1 / 1000) := by decide +kernel
example : conversionFactor 3 (some "deg") (some "rad") none = .ok 60 := by decide +kernel
example : conversionFactor 3 (some "mrad") (some "1/nm") (some (1 / 32)) = .ok (25 / 8) := by decide +kernel
example : conversionFactor 3 (some "mrad") (some "1/nm") none = .error "runtime_error" := by decide +kernel
example : conversionFactor 3 (some "1/nm") (some "mrad") (some 1) = .error "runtime_error" := by decide +kernel
example : convertAxis 3 "Å" (1 / 2) (1 / 4) "nm" none = .ok ("nm", 1 / 20, 1 / 40) := by decide +kernel

end AbtemVerif.Props.C33
