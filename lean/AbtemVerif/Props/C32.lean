/-
C32 — API calls do not modify caller-owned inputs (static part).

The tables of `Gen/Writes.lean` are regenerated from the source on every run by a write-set extraction
(tools/py2lean_writes.py): for every function of abtem/atoms.py taking `atoms`, and every method of the classes of
abtem/measurements.py and abtem/array.py, the statements that write through the caller's `atoms` object or the
receiver's observable state (`metadata`, `array`, ensemble axes metadata) — directly, through an alias
(`cell = atoms.cell; cell[...] = …`) or through a mutating method (`atoms.wrap()`, `self.metadata.update(…)`) —
before the name has been rebound to a copy; one call level deep (an owned name passed to a same-file function whose own
body writes through that parameter), and through fields in which a constructor stored the caller's object.  All
statements below are `_partial`: they are facts about the bodies of
the listed functions (an over-approximation of *direct* writes); writes performed inside callees (ASE, NumPy
`out=` arguments, functions of other modules) are not seen by the extraction and are covered only by the
before/after snapshots of the conformance oracle.
-/
import AbtemVerif.Model.Writes
import AbtemVerif.Gen.Writes

namespace AbtemVerif.Props.C32
open AbtemVerif.Writes AbtemVerif.Gen.Writes

/-- no function of abtem/atoms.py that receives `atoms` writes through it (orthogonalize_cell, standardize_cell,
rotate_atoms_to_plane, cut, pad_atoms, … — the whole module, as it is today) -/
theorem atoms_functions_no_caller_writes_partial : offenders atomsWrites = [] := by decide +kernel

/-- the functions the property names are in the table (the statement above is not vacuous about them) -/
theorem orthogonalize_cell_listed_partial :
    writesOf atomsWrites "orthogonalize_cell" = some [] ∧ writesOf atomsWrites "standardize_cell" = some [] := by
  decide +kernel

/-- no method of a measurement class rewrites the receiver's metadata / array / ensemble axes (real, imag, phase, abs,
intensity, interpolate, crop, … — every method of abtem/measurements.py except constructors and property setters) -/
theorem measurement_methods_no_receiver_writes_partial : offenders measurementWrites = [] := by decide +kernel

theorem element_wise_methods_listed_partial :
    writesOf measurementWrites "BaseMeasurements.real" = some [] ∧ writesOf measurementWrites "BaseMeasurements.imag" = some [] ∧
    writesOf measurementWrites "BaseMeasurements.phase" = some [] ∧ writesOf measurementWrites "BaseMeasurements.abs" = some [] ∧
    writesOf measurementWrites "BaseMeasurements.intensity" = some [] := by decide +kernel

/-- among the methods of abtem/array.py exactly two write to the receiver's observable state: the explicit setter
`set_ensemble_axes_metadata`, and `_arithmetic`, which applies a dynamically named NumPy operator to `self.array`
(`getattr(self.array, func)(other)`): for `func = "__imul__"` etc. that IS a write of the receiver's array — in-place operators
are in-place by request — for `"__mul__"` etc. NumPy allocates the result.  Which name each operator passes is the next theorem. -/
theorem array_object_methods_receiver_writes_partial :
    offenders arrayObjectWrites = ["ArrayObject._arithmetic", "ArrayObject.set_ensemble_axes_metadata"] := by decide +kernel

/-- the names handed to `_arithmetic` / `_in_place_arithmetic` (literals in the source): every operator passes exactly its own
name, so the only operators that reach an in-place NumPy method are the in-place operators themselves (`__imul__`, `__iadd__`,
`__isub__`, `__itruediv__`); a slip such as `__mul__` passing `"__imul__"` breaks this theorem. -/
theorem operators_pass_their_own_name_partial :
    operatorNames.all (fun r => r.2.getD 1 "" == r.1) = true ∧
    (operatorNames.filter (fun r => ["__imul__", "__iadd__", "__isub__", "__itruediv__", "__ipow__"].contains (r.2.getD 1 ""))).map (·.1)
      = ["__imul__", "__itruediv__", "__isub__", "__iadd__"] := by
  decide +kernel

/-- Potential / frozen-phonon / Bloch-wave classes (abtem/potentials/iam.py, abtem/inelastic/phonons.py,
abtem/bloch/dynamical.py): no function or method receiving `atoms` writes through it, directly or through a
same-file callee; and where a constructor stores the caller's object in a field without copying
(`self._atoms = atoms`), no method of the class writes through that field. -/
theorem potential_classes_no_caller_writes_partial :
    offenders potentialWrites = [] ∧ offenders phononWrites = [] ∧ offenders blochWrites = [] := by decide +kernel

/-- the entry points named by the property are in these tables -/
theorem potential_entry_points_listed_partial :
    writesOf potentialWrites "Potential.__init__" = some [] ∧ writesOf potentialWrites "_validate_frozen_phonons" = some [] ∧
    writesOf phononWrites "FrozenPhonons.__init__" = some [] := by decide +kernel

/-- atoms slicing, charge-density / GPAW potentials, magnetic IAM fields and `show_atoms` (abtem/slicing.py,
abtem/potentials/charge_density.py, abtem/potentials/gpaw.py, abtem/magnetism/iam.py, abtem/visualize/visualizations.py): no function
or method receiving `atoms` writes through it, directly or through a same-file callee.  `BaseSlicedAtoms.__init__` stores the caller's
object without a copy (`self._atoms = atoms`; `Potential` hands it a copy, a direct user of `SlicedAtoms` does not), so the rows
`…[stored _atoms]` matter: no method of the slicing classes writes through that field. -/
theorem slicing_and_other_potentials_no_caller_writes_partial :
    offenders slicingWrites = [] ∧ offenders chargeDensityWrites = [] ∧ offenders gpawWrites = [] ∧
    offenders magnetismWrites = [] ∧ offenders visualizeWrites = [] := by decide +kernel

/-- the entry points are in these tables, including the stored-field rows of the slicing classes (non-vacuity) -/
theorem slicing_entry_points_listed_partial :
    writesOf slicingWrites "crystal_slice_thicknesses" = some [] ∧ writesOf slicingWrites "BaseSlicedAtoms.__init__" = some [] ∧
    writesOf slicingWrites "BaseSlicedAtoms.get_atoms_in_slices[stored _atoms]" = some [] ∧
    writesOf slicingWrites "BaseSlicedAtoms.__getitem__[stored _atoms]" = some [] ∧
    writesOf slicingWrites "SliceIndexedAtoms.__init__" = some [] ∧ writesOf slicingWrites "SlicedAtoms.__init__" = some [] ∧
    writesOf chargeDensityWrites "ChargeDensityPotential.__init__" = some [] ∧
    writesOf visualizeWrites "show_atoms" = some [] := by decide +kernel

end AbtemVerif.Props.C32
