/-
C28 — ptychographic operators honour their mathematical contracts (abtem/reconstruct.py).

Part 1 (analysis, for every `FourierPair` of Lib/DFT.lean, i.e. any FFT back end satisfying the inverse laws): the
Fourier projection `ifft2(D·exp(1j·angle(fft2 ψ)))`, the reported error and the r-PIE update, stated about the
*generated* pointwise formulas of `Gen/PtychoC.lean` / `Gen/PtychoR.lean` (`projectionSymbol`, `sseTerm`,
`sseIncrement`, `exitWave`, `objectTerm`, `probeTerm`), regenerated from `RegularizedPtychographicOperator` on every run.

Part 2 (exact index arithmetic): `_wrapped_indices_2D_window` (`Ptycho.wrappedWindow` over generated `windowOrigin`,
`rowIndex`, `colIndex`) and `_calculate_scan_positions_in_pixels` (`Ptycho.scanPositions` over generated `centreX/Y`,
`rotate`, `rasterX/Y`).  Quantifiers: all centres, window and array sizes; all position lists, samplings, paddings,
rotations (`cos`, `sin` as arbitrary rationals).
-/
import AbtemVerif.Lib.DFT
import AbtemVerif.Gen.PtychoC
import AbtemVerif.Gen.PtychoR
import AbtemVerif.Model.Ptycho
import Mathlib.Data.Rat.Floor
import Mathlib.Data.List.Nodup
import Mathlib.Tactic.Ring
import Mathlib.Tactic.Linarith
import Mathlib.Tactic.FieldSimp

namespace AbtemVerif.Props.C28
open AbtemVerif.DFT AbtemVerif.Gen.PtychoC AbtemVerif.Gen Finset
open AbtemVerif.Ptycho AbtemVerif.Py AbtemVerif.Gen.Ptycho

/-! ### the Fourier-projection symbol `D · exp(i · angle z)` (generated `projectionSymbol`) -/

lemma symbol_eq (d : ℝ) (z : ℂ) : projectionSymbol d z = (d : ℂ) * Complex.exp (Complex.arg z * Complex.I) := by
  unfold projectionSymbol
  congr 2
  ring

lemma norm_symbol (d : ℝ) (z : ℂ) : ‖projectionSymbol d z‖ = |d| := by
  rw [symbol_eq, norm_mul, Complex.norm_exp_ofReal_mul_I, mul_one, Complex.norm_real, Real.norm_eq_abs]

lemma symbol_of_norm (z : ℂ) : projectionSymbol ‖z‖ z = z := by
  rw [symbol_eq]; exact Complex.norm_mul_exp_arg_mul_I z

lemma symbol_idem (d : ℝ) (hd : 0 ≤ d) (z : ℂ) : projectionSymbol d (projectionSymbol d z) = projectionSymbol d z := by
  have h := symbol_of_norm (projectionSymbol d z)
  rwa [norm_symbol, abs_of_nonneg hd] at h

lemma arg_symbol (d : ℝ) (hd : 0 < d) (z : ℂ) : Complex.arg (projectionSymbol d z) = Complex.arg z := by
  rw [symbol_eq, Complex.arg_real_mul _ hd, Complex.exp_mul_I]
  exact Complex.arg_cos_add_sin_mul_I (Complex.arg_mem_Ioc z)

variable {ι : Type*} [Fintype ι] (P : FourierPair ι)

/-- `RegularizedPtychographicOperator._fourier_projection`: `ifft2(D · exp(1j · angle(fft2 ψ)))` -/
noncomputable def fourierProjection (D : ι → ℝ) (ψ : ι → ℂ) : ι → ℂ :=
  P.Finv (fun k => projectionSymbol (D k) (P.F ψ k))

/-- the error added to `sse`: `mean(| |fft2 ψ| − D |²) / sum(D²)` (generated `sseTerm`, `sseIncrement`) -/
noncomputable def sseAdded (D : ι → ℝ) (ψ : ι → ℂ) : ℝ :=
  PtychoR.sseIncrement ((∑ k, (sseTerm (D k) (P.F ψ k)).re) / (Fintype.card ι : ℝ)) (∑ k, D k ^ 2)

/-- **Amplitude**: the projected exit wave has exactly the measured Fourier amplitude. -/
theorem proj_modulus (D : ι → ℝ) (hD : ∀ k, 0 ≤ D k) (ψ : ι → ℂ) (k : ι) :
    ‖P.F (fourierProjection P D ψ) k‖ = D k := by
  unfold fourierProjection
  rw [P.inv_right, norm_symbol, abs_of_nonneg (hD k)]

/-- **Phase**: wherever the measured amplitude is positive the Fourier phase of the input is kept. -/
theorem proj_phase (D : ι → ℝ) (ψ : ι → ℂ) (k : ι) (hk : 0 < D k) :
    Complex.arg (P.F (fourierProjection P D ψ) k) = Complex.arg (P.F ψ k) := by
  unfold fourierProjection
  rw [P.inv_right, arg_symbol _ hk]

/-- **Idempotent**: projecting twice changes nothing. -/
theorem proj_idempotent (D : ι → ℝ) (hD : ∀ k, 0 ≤ D k) (ψ : ι → ℂ) :
    fourierProjection P D (fourierProjection P D ψ) = fourierProjection P D ψ := by
  unfold fourierProjection
  rw [P.inv_right]
  congr 1; funext k
  exact symbol_idem _ (hD k) _

/-- With the true amplitude (`D = |F ψ|`) the projection returns the exit wave itself … -/
theorem proj_true_amplitude (D : ι → ℝ) (ψ : ι → ℂ) (hD : ∀ k, D k = ‖P.F ψ k‖) :
    fourierProjection P D ψ = ψ := by
  unfold fourierProjection
  have : (fun k => projectionSymbol (D k) (P.F ψ k)) = P.F ψ := by
    funext k; rw [hD k]; exact symbol_of_norm _
  rw [this, P.inv_left]

/-- … and reports zero error.  (Guard `Σ D² ≠ 0`: for an all-zero pattern the code computes `0/0 = NaN`; Lean's `x/0 = 0` does
not need the hypothesis, it is listed because the statement is about the code.  `reconstruct` skips such patterns.) -/
theorem zero_error (D : ι → ℝ) (ψ : ι → ℂ) (hD : ∀ k, D k = ‖P.F ψ k‖) (_hS : ∑ k, D k ^ 2 ≠ 0) : sseAdded P D ψ = 0 := by
  unfold sseAdded PtychoR.sseIncrement
  have : ∀ k, (sseTerm (D k) (P.F ψ k)).re = 0 := by
    intro k; unfold sseTerm; simp [hD k]
  simp [this]

/-- The reported error is never negative. -/
theorem sse_nonneg (D : ι → ℝ) (ψ : ι → ℂ) : 0 ≤ sseAdded P D ψ := by
  unfold sseAdded PtychoR.sseIncrement
  apply div_nonneg
  · apply div_nonneg
    · apply Finset.sum_nonneg; intro k _
      unfold sseTerm
      simp only [← Complex.ofReal_sub, ← Complex.ofReal_pow, Complex.ofReal_re, Complex.norm_real]
      positivity
    · positivity
  · apply Finset.sum_nonneg; intro k _; positivity

/-! ### the other operator classes use the same projection -/

/-- The simultaneous (warm-up, forward, reverse), mixed-state warm-up and multislice operators apply literally the same
symbol `D·exp(1j·angle z)` before `ifft2`; all projection theorems above therefore hold for them as well. -/
theorem projection_symbol_shared (d : ℝ) (z : ℂ) :
    projSimWarmup d z = projectionSymbol d z ∧ projSimForward d z = projectionSymbol d z ∧
    projSimReverse d z = projectionSymbol d z ∧ projMixedWarmup d z = projectionSymbol d z ∧
    projMultislice d z = projectionSymbol d z := ⟨rfl, rfl, rfl, rfl, rfl⟩

/-- **Mixed-state projection** (`MixedStatePtychographicOperator._fourier_projection`): every probe mode `k` is rescaled by
`D / √(Σₖ |F ψₖ|²)`; the summed modal intensity then equals the measured intensity `D²` wherever the current intensity is
non-zero. -/
theorem mixed_projection_total_intensity {κ : Type*} [Fintype κ] (d : ℝ) (z : κ → ℂ)
    (hN : Real.sqrt (∑ k, ‖z k‖ ^ 2) ≠ 0) :
    ∑ k, ‖mixedSymbol (mixedAmplitude d (Real.sqrt (∑ k, ‖z k‖ ^ 2))) (z k)‖ ^ 2 = d ^ 2 := by
  have hS : 0 ≤ ∑ k, ‖z k‖ ^ 2 := Finset.sum_nonneg fun k _ => by positivity
  have hsq : Real.sqrt (∑ k, ‖z k‖ ^ 2) ^ 2 = ∑ k, ‖z k‖ ^ 2 := Real.sq_sqrt hS
  have hterm : ∀ k, ‖mixedSymbol (mixedAmplitude d (Real.sqrt (∑ k, ‖z k‖ ^ 2))) (z k)‖ ^ 2
      = d ^ 2 / (Real.sqrt (∑ k, ‖z k‖ ^ 2)) ^ 2 * ‖z k‖ ^ 2 := by
    intro k
    unfold mixedSymbol mixedAmplitude
    rw [norm_mul, norm_div, Complex.norm_real, Complex.norm_real, mul_pow, div_pow, Real.norm_eq_abs, Real.norm_eq_abs,
      sq_abs, sq_abs]
  simp only [hterm]
  rw [← Finset.mul_sum, hsq]
  have hne : (∑ k, ‖z k‖ ^ 2) ≠ 0 := by
    intro h0; apply hN; rw [h0, Real.sqrt_zero]
  field_simp

/-- … and the phase of every mode is kept (the rescaling factor is a positive real). -/
theorem mixed_projection_phase (d N : ℝ) (hd : 0 < d) (hN : 0 < N) (z : ℂ) :
    Complex.arg (mixedSymbol (mixedAmplitude d N) z) = Complex.arg z := by
  unfold mixedSymbol mixedAmplitude
  rw [← Complex.ofReal_div]
  exact Complex.arg_real_mul z (div_pos hd hN)

/-! ### the r-PIE update (generated `exitWave`, `objectTerm`, `probeTerm`) -/

structure RpieParams where
  alpha : ℝ
  beta : ℝ
  objectStep : ℝ
  probeStep : ℝ

variable {σ : Type*} [DecidableEq σ]

/-- `objects[window] += objectTerm` for a window `w : ι → σ` into the object pixels (every window pixel adds its term
to the object pixel it sits on; for a window without repeated indices that is numpy's in-place update) -/
noncomputable def updateObject (w : ι → σ) (par : RpieParams) (obj : σ → ℂ) (probe ψ ψ' : ι → ℂ) (pmax : ℝ) : σ → ℂ :=
  fun r => obj r + ∑ j ∈ univ.filter (fun j => w j = r), objectTerm par.objectStep par.alpha pmax (probe j) (ψ j) (ψ' j)

/-- `probes += probeTerm` -/
noncomputable def updateProbe (w : ι → σ) (par : RpieParams) (obj : σ → ℂ) (probe ψ ψ' : ι → ℂ) (omax : ℝ) : ι → ℂ :=
  fun j => probe j + probeTerm par.probeStep par.beta omax (obj (w j)) (ψ j) (ψ' j)

lemma objectTerm_self (st a m : ℝ) (p x : ℂ) : objectTerm st a m p x x = 0 := by
  unfold objectTerm; simp

lemma probeTerm_self (st a m : ℝ) (o x : ℂ) : probeTerm st a m o x x = 0 := by
  unfold probeTerm; simp

/-- If the Fourier projection did not change the exit wave, the update changes neither object nor probe.
(In floating point the regularised denominators `(1-α)|P|² + α max|P|²` must be non-zero, otherwise `0/0 = NaN`;
they are listed as hypotheses although the exact statement does not need them.) -/
theorem update_fixed_of_unchanged_exit_wave (w : ι → σ) (par : RpieParams) (obj : σ → ℂ) (probe ψ : ι → ℂ) (pmax omax : ℝ)
    (_hp : ∀ j, (1 - par.alpha) * ‖probe j‖ ^ 2 + par.alpha * pmax ≠ 0)
    (_ho : ∀ j, (1 - par.beta) * ‖obj (w j)‖ ^ 2 + par.beta * omax ≠ 0) :
    updateObject w par obj probe ψ ψ pmax = obj ∧ updateProbe w par obj probe ψ ψ omax = probe := by
  constructor
  · funext r; simp [updateObject, objectTerm_self]
  · funext j; simp [updateProbe, probeTerm_self]

/-- **True solution is a fixed point with zero error**: if the measured amplitudes are those of the exit wave
`O(w j)·P(j)` of the current object and probe, one r-PIE step (overlap projection, Fourier projection, update)
returns the same object and probe and adds no error. -/
theorem rpie_true_solution_fixed (w : ι → σ) (par : RpieParams) (obj : σ → ℂ) (probe : ι → ℂ) (D : ι → ℝ) (pmax omax : ℝ)
    (hD : ∀ k, D k = ‖P.F (fun j => exitWave (obj (w j)) (probe j)) k‖)
    (hp : ∀ j, (1 - par.alpha) * ‖probe j‖ ^ 2 + par.alpha * pmax ≠ 0)
    (ho : ∀ j, (1 - par.beta) * ‖obj (w j)‖ ^ 2 + par.beta * omax ≠ 0) (hS : ∑ k, D k ^ 2 ≠ 0) :
    let ψ := fun j => exitWave (obj (w j)) (probe j)
    let ψ' := fourierProjection P D ψ
    updateObject w par obj probe ψ ψ' pmax = obj ∧ updateProbe w par obj probe ψ ψ' omax = probe ∧ sseAdded P D ψ = 0 := by
  intro ψ ψ'
  have h : ψ' = ψ := proj_true_amplitude P D ψ hD
  rw [h]
  obtain ⟨h1, h2⟩ := update_fixed_of_unchanged_exit_wave w par obj probe ψ pmax omax hp ho
  exact ⟨h1, h2, zero_error P D ψ hD hS⟩

/-- Object pixels outside the window are never touched. -/
theorem update_outside_window (w : ι → σ) (par : RpieParams) (obj : σ → ℂ) (probe ψ ψ' : ι → ℂ) (pmax : ℝ) (r : σ)
    (hr : ∀ j, w j ≠ r) : updateObject w par obj probe ψ ψ' pmax r = obj r := by
  unfold updateObject
  have : univ.filter (fun j => w j = r) = ∅ := by
    ext j; simp [hr j]
  simp [this]

/-- For a window without repeated pixels each object pixel under the window receives exactly its own r-PIE term
`step · conj P · (ψ' − ψ) / ((1−α)|P|² + α max|P|²)`. -/
theorem update_inside_window (w : ι → σ) (hw : Function.Injective w) (par : RpieParams) (obj : σ → ℂ) (probe ψ ψ' : ι → ℂ)
    (pmax : ℝ) (j : ι) :
    updateObject w par obj probe ψ ψ' pmax (w j)
      = obj (w j) + par.objectStep * (starRingEnd ℂ) (probe j) * (ψ' j - ψ j)
          / ((1 - par.alpha) * (‖probe j‖ : ℂ) ^ 2 + par.alpha * pmax) := by
  unfold updateObject
  have : univ.filter (fun i => w i = w j) = {j} := by
    ext i; simp [hw.eq_iff]
  rw [this, Finset.sum_singleton]
  unfold objectTerm
  simp

/-- the exit wave of the overlap projection is object × probe, pixel by pixel -/
theorem exit_wave_is_product (o p : ℂ) : exitWave o p = o * p := rfl

/-- non-vacuity: the 1-point DFT pair, amplitude of the exit wave itself -/
example : ∃ (P : FourierPair (ZMod 1)) (D : ZMod 1 → ℝ) (ψ : ZMod 1 → ℂ), (∀ k, 0 ≤ D k) ∧ ∀ k, D k = ‖P.F ψ k‖ :=
  ⟨zmodPair 1, fun k => ‖(zmodPair 1).F (fun _ => 1) k‖, fun _ => 1, fun _ => norm_nonneg _, fun _ => rfl⟩



/-! ### wrapped window indices -/

lemma rowIndex_eq (o i : Int) (s : Nat) : rowIndex o i s = (o + i) % (s : Int) := by
  unfold rowIndex pyMod
  exact Int.fmod_eq_emod_of_nonneg _ (Int.natCast_nonneg s)

lemma colIndex_eq (o i : Int) (s : Nat) : colIndex o i s = (o + i) % (s : Int) := by
  unfold colIndex pyMod
  exact Int.fmod_eq_emod_of_nonneg _ (Int.natCast_nonneg s)

lemma windowOrigin_eq (cx cy : Int) (nx ny : Nat) :
    windowOrigin cx cy nx ny = (cx - (nx : Int) / 2, cy - (ny : Int) / 2) := by
  unfold windowOrigin pyFloorDiv
  rw [Int.fdiv_eq_ediv_of_nonneg _ (by decide : (0 : Int) ≤ 2), Int.fdiv_eq_ediv_of_nonneg _ (by decide : (0 : Int) ≤ 2)]

/-- consecutive residues of a window not longer than the period are pairwise distinct -/
lemma mod_window_inj (o : Int) (n s : Nat) (hns : n ≤ s) (i j : Nat) (hi : i < n) (hj : j < n)
    (h : (o + (i : Int)) % (s : Int) = (o + (j : Int)) % (s : Int)) : i = j := by
  have hd : (s : Int) ∣ (o + i) - (o + j) := Int.dvd_of_emod_eq_zero (Int.emod_eq_emod_iff_emod_sub_eq_zero.mp h)
  have hz : (o + (i : Int)) - (o + j) = 0 := by
    apply Int.eq_zero_of_dvd_of_natAbs_lt_natAbs hd
    omega
  omega

/-- The window has the requested numbers of rows and columns. -/
theorem window_length (cx cy : Rat) (nx ny sx sy : Nat) :
    (wrappedWindow cx cy nx ny sx sy).1.length = nx ∧ (wrappedWindow cx cy nx ny sx sy).2.length = ny := by
  simp [wrappedWindow]

/-- Row `i` of the window is pixel `round(cx) − ⌊nx/2⌋ + i` of the periodic array (and likewise for columns):
the window is contiguous modulo the array size and pixel `⌊n/2⌋` of the window sits on the rounded centre. -/
theorem window_entries (cx cy : Rat) (nx ny sx sy : Nat) :
    (∀ i, i < nx → (wrappedWindow cx cy nx ny sx sy).1[i]? = some ((roundHalfEven cx - (nx : Int) / 2 + i) % (sx : Int))) ∧
    (∀ j, j < ny → (wrappedWindow cx cy nx ny sx sy).2[j]? = some ((roundHalfEven cy - (ny : Int) / 2 + j) % (sy : Int))) := by
  constructor <;> intro i hi <;> simp [wrappedWindow, windowOrigin_eq, rowIndex_eq, colIndex_eq, hi]

/-- The centre pixel of the window is the rounded centre position (mod the array size). -/
theorem window_centre (cx cy : Rat) (nx ny sx sy : Nat) (hx : 0 < nx) (hy : 0 < ny) :
    (wrappedWindow cx cy nx ny sx sy).1[nx / 2]? = some (roundHalfEven cx % (sx : Int)) ∧
    (wrappedWindow cx cy nx ny sx sy).2[ny / 2]? = some (roundHalfEven cy % (sy : Int)) := by
  obtain ⟨h1, h2⟩ := window_entries cx cy nx ny sx sy
  constructor
  · rw [h1 (nx / 2) (by omega)]; congr 2; push_cast; omega
  · rw [h2 (ny / 2) (by omega)]; congr 2; push_cast; omega

/-- Every index lies inside the array. -/
theorem window_in_range (cx cy : Rat) (nx ny sx sy : Nat) (hsx : 0 < sx) (hsy : 0 < sy) :
    (∀ r ∈ (wrappedWindow cx cy nx ny sx sy).1, 0 ≤ r ∧ r < sx) ∧
    (∀ c ∈ (wrappedWindow cx cy nx ny sx sy).2, 0 ≤ c ∧ c < sy) := by
  have hx : (0 : Int) < sx := by exact_mod_cast hsx
  have hy : (0 : Int) < sy := by exact_mod_cast hsy
  constructor
  · intro r hr
    simp only [wrappedWindow, List.mem_map, List.mem_range] at hr
    obtain ⟨i, _, rfl⟩ := hr
    rw [rowIndex_eq]
    exact ⟨Int.emod_nonneg _ (ne_of_gt hx), Int.emod_lt_of_pos _ hx⟩
  · intro r hr
    simp only [wrappedWindow, List.mem_map, List.mem_range] at hr
    obtain ⟨i, _, rfl⟩ := hr
    rw [colIndex_eq]
    exact ⟨Int.emod_nonneg _ (ne_of_gt hy), Int.emod_lt_of_pos _ hy⟩

/-- A window that fits into the array never hits the same pixel twice, so the in-place update
`objects[window] += …` adds every term exactly once. -/
theorem window_nodup (cx cy : Rat) (nx ny sx sy : Nat) (hx : nx ≤ sx) (hy : ny ≤ sy) :
    (wrappedWindow cx cy nx ny sx sy).1.Nodup ∧ (wrappedWindow cx cy nx ny sx sy).2.Nodup := by
  constructor
  · apply List.Nodup.map_on _ List.nodup_range
    intro i hi j hj h
    rw [rowIndex_eq, rowIndex_eq] at h
    exact mod_window_inj _ nx sx hx i j (List.mem_range.mp hi) (List.mem_range.mp hj) h
  · apply List.Nodup.map_on _ List.nodup_range
    intro i hi j hj h
    rw [colIndex_eq, colIndex_eq] at h
    exact mod_window_inj _ ny sy hy i j (List.mem_range.mp hi) (List.mem_range.mp hj) h

/-- the window as a map from window pixels `(i, j)` to object pixels (what `np.ix_` builds from the two index vectors) -/
def windowMap (cx cy : Rat) (nx ny sx sy : Nat) (ij : Fin nx × Fin ny) : Int × Int :=
  ((wrappedWindow cx cy nx ny sx sy).1.getD ij.1 0, (wrappedWindow cx cy nx ny sx sy).2.getD ij.2 0)

/-- A window that fits into the array maps distinct window pixels to distinct object pixels. -/
theorem windowMap_injective (cx cy : Rat) (nx ny sx sy : Nat) (hx : nx ≤ sx) (hy : ny ≤ sy) :
    Function.Injective (windowMap cx cy nx ny sx sy) := by
  obtain ⟨h1, h2⟩ := window_entries cx cy nx ny sx sy
  rintro ⟨i, j⟩ ⟨i', j'⟩ h
  simp only [windowMap, Prod.mk.injEq, List.getD_eq_getElem?_getD, h1 i i.2, h1 i' i'.2, h2 j j.2, h2 j' j'.2,
    Option.getD_some] at h
  obtain ⟨hr, hc⟩ := h
  have e1 : (i : Nat) = i' := mod_window_inj _ nx sx hx i i' i.2 i'.2 (by simpa [add_assoc] using hr)
  have e2 : (j : Nat) = j' := mod_window_inj _ ny sy hy j j' j.2 j'.2 (by simpa [add_assoc] using hc)
  exact Prod.ext (Fin.ext e1) (Fin.ext e2)

/-- **Index part and update part together**: for a probe window that fits into the object, every object pixel under the
window `round(position) − ⌊n/2⌋ + (i, j)` (mod the object size) receives exactly its own r-PIE term. -/
theorem update_inside_wrapped_window (cx cy : Rat) (nx ny sx sy : Nat) (hx : nx ≤ sx) (hy : ny ≤ sy) (par : RpieParams)
    (obj : Int × Int → ℂ) (probe ψ ψ' : Fin nx × Fin ny → ℂ) (pmax : ℝ) (ij : Fin nx × Fin ny) :
    updateObject (windowMap cx cy nx ny sx sy) par obj probe ψ ψ' pmax (windowMap cx cy nx ny sx sy ij)
      = obj (windowMap cx cy nx ny sx sy ij) + par.objectStep * (starRingEnd ℂ) (probe ij) * (ψ' ij - ψ ij)
          / ((1 - par.alpha) * (‖probe ij‖ : ℂ) ^ 2 + par.alpha * pmax) :=
  update_inside_window _ (windowMap_injective cx cy nx ny sx sy hx hy) par obj probe ψ ψ' pmax ij

/-- A window larger than the array necessarily repeats a pixel (pigeonhole) — the case excluded above. -/
theorem window_repeats_counterexample : ¬ (wrappedWindow 0 0 3 1 2 1).1.Nodup := by decide +kernel

/-! ### numpy rounding -/

/-- integers are fixed points of `np.round` -/
theorem roundHalfEven_intCast (n : Int) : roundHalfEven (n : Rat) = n := by
  unfold roundHalfEven
  simp [Rat.floor_intCast]

/-- `np.round` moves a number by at most one half -/
theorem roundHalfEven_close (x : Rat) : |x - (roundHalfEven x : Rat)| ≤ 1 / 2 := by
  have h1 : ((x.floor : Int) : Rat) ≤ x := by
    have := Int.floor_le x; exact this
  have h2 : x < ((x.floor : Int) : Rat) + 1 := by
    have := Int.lt_floor_add_one x; exact this
  unfold roundHalfEven
  simp only
  split_ifs with ha hb hc <;> rw [abs_le] <;> constructor <;> push_cast <;> linarith

/-! ### sub-pixel probe shifts of the overlap projection -/

/-- fractional part `x − round(x)` as numpy computes it -/
def frac (x : Rat) : Rat := x - (roundHalfEven x : Rat)

/-- the shift applied by one overlap projection is the difference of the fractional parts (generated `probeShift`) -/
theorem subpixelShift_eq (pos old : Rat) : subpixelShift pos old = frac pos - frac old := by
  simp [subpixelShift, probeShift, frac]

/-- **Shifts compose**: moving old → mid → new shifts the probe by as much as moving old → new directly, so after any
sequence of scan positions the probe sits at the fractional part of the current position (relative to where it started).
A shift computed as `frac(pos − old)` would violate this as soon as two fractional parts differ by more than 1/2. -/
theorem subpixelShift_compose (p₀ p₁ p₂ : Rat) : subpixelShift p₂ p₁ + subpixelShift p₁ p₀ = subpixelShift p₂ p₀ := by
  simp only [subpixelShift_eq]; ring

/-- no move, no shift; and starting from a whole-pixel position the shift is the fractional part of the new position -/
theorem subpixelShift_self_and_from_pixel (p : Rat) (n : Int) :
    subpixelShift p p = 0 ∧ subpixelShift p (n : Rat) = frac p := by
  simp [subpixelShift_eq, frac, roundHalfEven_intCast]

/-- each single shift stays within one pixel -/
theorem subpixelShift_bounded (pos old : Rat) : |subpixelShift pos old| ≤ 1 := by
  have h1 := roundHalfEven_close pos
  have h2 := roundHalfEven_close old
  rw [subpixelShift_eq, frac, frac, abs_le] at *
  constructor <;> linarith [h1.1, h1.2, h2.1, h2.2]

/-- the variant `frac(pos − old)` is a different function: 2.75 ← 2.25 gives +1/2 instead of −1/2 (a whole pixel apart) -/
theorem frac_of_difference_counterexample : ¬ (∀ pos old : Rat, frac (pos - old) = subpixelShift pos old) := by
  intro h
  have := h (11 / 4) (9 / 4)
  revert this; decide +kernel

/-- invariant of the sweep loop: the accumulated shift is the fractional part of the current position minus that of the
position the accumulation started from -/
lemma sweep_fold (visited : List Rat) (t o : Rat) :
    visited.foldl (fun (acc : Rat × Rat) p => (acc.1 + subpixelShift p acc.2, p)) (t, o)
      = (t + frac (visited.getLastD o) - frac o, visited.getLastD o) := by
  induction visited generalizing t o with
  | nil => simp
  | cons p ps ih =>
    rw [List.foldl_cons, ih, List.getLastD_cons]
    simp only [subpixelShift_eq]
    congr 1; ring

/-- **A sweep of `reconstruct()` returns the stored probe to where it started**, for every object padding (whole or
fractional, e.g. roi/2 for an odd region of interest), every order of visit and every set of skipped patterns — so sweeps that
change nothing else (true object and probe: every update is zero) leave the probe unchanged.  Before fixes 87e6e1df / 2853aac1 the
sweep started from the unrounded padding (net shift −frac(padding) per sweep) and shifted back from the last *indexed* position
even when its pattern had been skipped. -/
theorem sweep_returns_probe_to_origin (pad : Rat) (visited : List Rat) : sweepNetShift pad visited = 0 := by
  unfold sweepNetShift
  simp only [sweep_fold, sweepStart, shiftBack]
  have h0 : frac ((roundHalfEven pad : Int) : Rat) = 0 := by simp [frac, roundHalfEven_intCast]
  rw [h0]
  simp only [frac]
  ring

/-! ### scan positions -/

/-- the single affine map applied to every explicit position -/
def pixelMap (px py : Rat) (sampling : Rat × Rat) (rot : Option (Rat × Rat)) (mx my : Rat) (pad : Rat × Rat) (p : Rat × Rat) :
    Rat × Rat :=
  let q : Rat × Rat := (centreX p.1 px sampling.1, centreY p.2 py sampling.2)
  let q : Rat × Rat := match rot with
    | none => q
    | some (c, s) => rotate q.1 q.2 c s
  (q.1 - mx + pad.1, q.2 - my + pad.2)

/-- the centred, scaled coordinates of explicit positions -/
def centred (ps : List (Rat × Rat)) (sampling : Rat × Rat) : List (Rat × Rat) :=
  ps.map fun p => (centreX p.1 (ptp (ps.map Prod.fst)) sampling.1, centreY p.2 (ptp (ps.map Prod.snd)) sampling.2)

/-- optional rotation of a list of coordinates -/
def rotated (rot : Option (Rat × Rat)) (l : List (Rat × Rat)) : List (Rat × Rat) :=
  match rot with
  | none => l
  | some (c, s) => l.map fun p => rotate p.1 p.2 c s

/-- **Explicit positions keep their number and order**: the result is the input list mapped, element by element, by one
affine map (scale by 1/sampling, optional rotation, common shift).  In particular `J` positions give `J` positions. -/
theorem explicit_positions_map (ps : List (Rat × Rat)) (sampling : Rat × Rat) (roi : Nat × Nat) (ep : ScanParams)
    (out : List (Rat × Rat)) (pad : Rat × Rat) (h : scanPositions (some ps) sampling roi ep = .ok (out, pad)) :
    ∃ px py mx my, out = ps.map (pixelMap px py sampling ep.rotation mx my pad) := by
  unfold scanPositions at h
  simp only [pure, Except.pure, bind, Except.bind, Option.isSome_some, pairUp, if_true] at h
  split_ifs at h with hemp
  simp only [Except.ok.injEq, Prod.mk.injEq] at h
  obtain ⟨hout, hpad⟩ := h
  refine ⟨ptp (ps.map Prod.fst), ptp (ps.map Prod.snd),
    listMin ((rotated ep.rotation (centred ps sampling)).map Prod.fst),
    listMin ((rotated ep.rotation (centred ps sampling)).map Prod.snd), ?_⟩
  rw [← hout, ← hpad]
  simp only [List.map_map, List.zip_map']
  cases hr : ep.rotation with
  | none => simp [pixelMap, rotated, centred, Function.comp_def]
  | some cs => obtain ⟨c, s⟩ := cs; simp [pixelMap, rotated, centred, Function.comp_def]

/-- `J` explicit positions give `J` pixel positions. -/
theorem explicit_positions_length (ps : List (Rat × Rat)) (sampling : Rat × Rat) (roi : Nat × Nat) (ep : ScanParams)
    (out : List (Rat × Rat)) (pad : Rat × Rat) (h : scanPositions (some ps) sampling roi ep = .ok (out, pad)) :
    out.length = ps.length := by
  obtain ⟨px, py, mx, my, rfl⟩ := explicit_positions_map ps sampling roi ep out pad h
  simp

/-- Displacements between explicit positions are the input displacements divided by the sampling (no rotation) -/
theorem explicit_positions_displacement (ps : List (Rat × Rat)) (sampling : Rat × Rat) (roi : Nat × Nat) (ep : ScanParams)
    (hrot : ep.rotation = none) (out : List (Rat × Rat)) (pad : Rat × Rat)
    (h : scanPositions (some ps) sampling roi ep = .ok (out, pad)) (k l : Nat) (p q p' q' : Rat × Rat)
    (hk : ps[k]? = some p) (hl : ps[l]? = some q) (hk' : out[k]? = some p') (hl' : out[l]? = some q') :
    p'.1 - q'.1 = (p.1 - q.1) / sampling.1 ∧ p'.2 - q'.2 = (p.2 - q.2) / sampling.2 := by
  obtain ⟨px, py, mx, my, rfl⟩ := explicit_positions_map ps sampling roi ep out pad h
  simp only [List.getElem?_map, hk, hl, Option.map_some, Option.some.injEq] at hk' hl'
  subst hk' hl'
  simp only [pixelMap, hrot, centreX, centreY]
  constructor <;> ring

/-- … and with a rotation by θ (`c = cos θ`, `s = sin θ`) they are the rotated scaled displacements. -/
theorem explicit_positions_displacement_rotated (ps : List (Rat × Rat)) (sampling : Rat × Rat) (roi : Nat × Nat) (ep : ScanParams)
    (c s : Rat) (hrot : ep.rotation = some (c, s)) (out : List (Rat × Rat)) (pad : Rat × Rat)
    (h : scanPositions (some ps) sampling roi ep = .ok (out, pad)) (k l : Nat) (p q p' q' : Rat × Rat)
    (hk : ps[k]? = some p) (hl : ps[l]? = some q) (hk' : out[k]? = some p') (hl' : out[l]? = some q') :
    p'.1 - q'.1 = c * ((p.1 - q.1) / sampling.1) + s * ((p.2 - q.2) / sampling.2) ∧
    p'.2 - q'.2 = -s * ((p.1 - q.1) / sampling.1) + c * ((p.2 - q.2) / sampling.2) := by
  obtain ⟨px, py, mx, my, rfl⟩ := explicit_positions_map ps sampling roi ep out pad h
  simp only [List.getElem?_map, hk, hl, Option.map_some, Option.some.injEq] at hk' hl'
  subst hk' hl'
  simp only [pixelMap, hrot, centreX, centreY, rotate]
  constructor <;> ring

lemma meshPairs_length (xs ys : List Rat) : (meshPairs xs ys).length = xs.length * ys.length := by
  induction xs with
  | nil => simp [meshPairs]
  | cons x xs ih =>
    have : meshPairs (x :: xs) ys = ys.map (fun y => (x, y)) ++ meshPairs xs ys := by simp [meshPairs]
    rw [this, List.length_append, ih, List.length_map, List.length_cons]; ring

/-- A raster scan of `nx × ny` points gives `nx·ny` positions. -/
theorem raster_positions_length (sampling : Rat × Rat) (roi : Nat × Nat) (ep : ScanParams) (nx ny : Nat) (st : Rat × Rat)
    (hg : ep.gridShape = some (nx, ny)) (hs : ep.stepSizes = some st)
    (out : List (Rat × Rat)) (pad : Rat × Rat) (h : scanPositions none sampling roi ep = .ok (out, pad)) :
    out.length = nx * ny := by
  unfold scanPositions at h
  simp only [hg, hs, pure, Except.pure, bind, Except.bind, Option.isSome_none, pairUp, Bool.false_eq_true, if_false] at h
  split_ifs at h with hemp
  simp only [Except.ok.injEq, Prod.mk.injEq] at h
  obtain ⟨hout, -⟩ := h
  rw [← hout]
  cases hr : ep.rotation <;> simp [meshPairs_length]

/-- Without a grid shape or step sizes a raster scan is rejected (ValueError). -/
theorem raster_needs_parameters (sampling : Rat × Rat) (roi : Nat × Nat) (ep : ScanParams)
    (h : ep.gridShape = none ∨ ep.stepSizes = none) : scanPositions none sampling roi ep = .error "value_error" := by
  unfold scanPositions
  rcases h with h | h
  · simp [h, bind, Except.bind]
  · cases hg : ep.gridShape with
    | none => simp [bind, Except.bind]
    | some g => simp [h, bind, Except.bind]

example : scanPositions (some [(0, 0), (1, 2), (3, 1)]) (1 / 2, 1 / 2) (8, 8) ⟨none, none, none, none⟩
    = .ok ([(4, 4), (6, 8), (10, 6)], (4, 4)) := by decide +kernel
example : (wrappedWindow (5 / 2) (7 / 2) 4 3 6 5) = ([0, 1, 2, 3], [3, 4, 0]) := by decide +kernel

end AbtemVerif.Props.C28
