/-
C31 — Poisson noise is valid, independent and reproducible.

Statements are about `AbtemVerif.Noise` (hand model of `NoiseTransform._calculate_new_array` and of its eager /
lazy blockwise application) and hold for **every** choice of the RNG kernels `K : Kernels` (seed derivation and
Poisson sampler are uninterpreted), every signal, dose (scalar or distribution), seed specification and chunking.

Full statement of the property that is *not* provable for this code (kept here as documentation):

  ∀ K seeds dose ch ent items, seeded seeds → ch matches the shapes →
      lazyEval K seeds dose ch ent items = .ok (eager K seeds dose 0 items)                      -- (lazy = eager whatever the chunking)

It is false: an eager call draws one stream over the whole array, a lazy call one stream per block
(`lazy_eq_eager_counterexample`).  Since fix 9150f392 (per-block `SeedSequence(seed, spawn_key=block_id)`) the blocks no longer
repeat each other's noise: `blocks_get_distinct_streams`.  What is proved:
reproducibility of eager and lazy runs for a fixed chunking, validity of the sampler's input (rates ≥ 0, = dose × signal)
and of its output (counts ≥ 0 under the sampler's contract), shapes, lazy = eager for a single block, and that no
chunking makes the lazy evaluation fail.  Expectation and independence *statistics* are RNG properties, validated
numerically by the harness (not theorems).
-/
import AbtemVerif.Model.Noise
import AbtemVerif.Lib.Partition
import Mathlib.Tactic.Ring
import Mathlib.Tactic.Linarith
import Mathlib.Data.Rat.Floor
import Mathlib.Logic.Equiv.List

namespace AbtemVerif.Props.C31
open AbtemVerif.Noise AbtemVerif.Partition

/-- a transform is *seeded* when a seed was given or a sample axis exists (then `seed = sum(seeds)`) -/
def Seeded (s : Seeds) : Prop := s.seed.isSome

/-! ### helper lemmas -/

lemma derive_seeded (K : Kernels) (s : Int) (key : List Nat) (e e' : Nat) :
    K.derive (some s) key e = K.derive (some s) key e' := rfl

lemma calcBlock_seeded (K : Kernels) (seeds : Seeds) (hs : Seeded seeds) (dose : Dose) (key : List Nat) (e e' : Nat)
    (items : List (List Rat)) : calcBlock K seeds dose key e items = calcBlock K seeds dose key e' items := by
  unfold Seeded at hs
  unfold calcBlock
  cases h : seeds.seed with
  | none => simp [h] at hs
  | some s => rfl

lemma blocks_seeded (seeds : Seeds) (hs : Seeded seeds) (cs : List Nat) : ∀ S ∈ seeds.blocks cs, Seeded S := by
  intro S hS
  cases seeds with
  | scalar s =>
    simp only [Seeds.blocks, List.mem_singleton] at hS
    subst hS; exact hs
  | dist vs =>
    simp only [Seeds.blocks, List.mem_map] at hS
    obtain ⟨b, _, rfl⟩ := hS
    simp [Seeded, Seeds.seed]

/-- every block of `Seeds.blocks` passes the constructor of the block transform unchanged: a scalar seed because the whole
transform then has `samples = 1`, a block of the seed distribution through the branch added by fix 7971a31d -/
lemma rebuild_blocks (seeds : Seeds) (cs : List Nat) :
    (seeds.blocks cs).mapM (rebuild seeds.count) = .ok (seeds.blocks cs) := by
  cases seeds with
  | scalar s => simp [Seeds.blocks, Seeds.count, rebuild, List.mapM_cons, bind, Except.bind, pure, Except.pure]
  | dist vs =>
    simp only [Seeds.blocks]
    generalize splitBy cs vs = l
    induction l with
    | nil => rfl
    | cons x xs ih =>
      simp only [List.map_cons, List.mapM_cons, rebuild, bind, Except.bind] at ih ⊢
      rw [ih]; rfl

lemma assemble_congr (dB : List Dose) (sB : List Seeds) (iB : List (List (List Rat)))
    (blk blk' : Nat → Nat → Nat → Dose → Seeds → List (List Rat) → Arr4 Int)
    (h : ∀ a b c D S I, S ∈ sB → blk a b c D S I = blk' a b c D S I) :
    assemble dB sB iB blk = assemble dB sB iB blk' := by
  unfold assemble
  congr 1
  apply List.map_congr_left; intro Da _
  apply List.map_congr_left; intro d' _
  congr 1
  apply List.map_congr_left; intro Sb hSb
  have hmem : Sb.1 ∈ sB := by
    obtain ⟨_, h2⟩ := List.mem_zipIdx' (x := Sb.1) (i := Sb.2) (xs := sB) hSb
    rw [h2]; exact List.getElem_mem _
  apply List.map_congr_left; intro s' _
  congr 1
  apply List.map_congr_left; intro Ic _
  rw [h _ _ _ _ _ _ hmem]

lemma mem_flat4 {α : Type} (a : Arr4 α) (r : α) : r ∈ flat4 a ↔ ∃ x ∈ a, ∃ y ∈ x, ∃ z ∈ y, r ∈ z := by
  simp only [flat4, List.mem_flatten]
  constructor
  · rintro ⟨z, ⟨y, ⟨x, hx, hy⟩, hz⟩, hr⟩; exact ⟨x, hx, y, hy, z, hz, hr⟩
  · rintro ⟨x, hx, y, hy, z, hz, hr⟩; exact ⟨z, ⟨y, ⟨x, hx, hy⟩, hz⟩, hr⟩

lemma reshape4_row (nd ns n p : Nat) (f : List Int) (d s : Nat) (hd : d < nd) (hs : s < ns) :
    ((reshape4 nd ns n p f).getD d []).getD s [] =
      (List.range n).map fun i => (List.range p).map fun j => f.getD (((d * ns + s) * n + i) * p + j) 0 := by
  unfold reshape4
  simp [List.getD_eq_getElem?_getD, List.getElem?_map, List.getElem?_range hd, List.getElem?_range hs]

lemma reshape4_eq_rows (nd ns n p : Nat) (f : List Int) :
    reshape4 nd ns n p f =
      (List.range nd).map fun d => (List.range ns).map fun s => ((reshape4 nd ns n p f).getD d []).getD s [] := by
  conv_lhs => unfold reshape4
  apply List.map_congr_left; intro d hd
  apply List.map_congr_left; intro s hs
  rw [reshape4_row nd ns n p f d s (List.mem_range.mp hd) (List.mem_range.mp hs)]

/-! ### property theorems -/

/-- **Reproducible (eager)**: with a seed the result does not depend on the entropy of the run. -/
theorem reproducible_eager (K : Kernels) (seeds : Seeds) (hs : Seeded seeds) (dose : Dose) (e e' : Nat) (items : List (List Rat)) :
    eager K seeds dose e items = eager K seeds dose e' items :=
  calcBlock_seeded K seeds hs dose [] e e' items

/-- **Reproducible (lazy)**: with a seed and a fixed chunking the lazy result does not depend on the entropy any block sees
(nor, therefore, on the order in which the scheduler runs the blocks). -/
theorem reproducible_lazy (K : Kernels) (seeds : Seeds) (hs : Seeded seeds) (dose : Dose) (ch : Chunking) (ent ent' : Nat → Nat)
    (items : List (List Rat)) : lazyEval K seeds dose ch ent items = lazyEval K seeds dose ch ent' items := by
  unfold lazyEval
  simp only [rebuild_blocks]
  congr 1
  apply assemble_congr
  intro a b c D S I hS
  exact calcBlock_seeded K S (blocks_seeded seeds hs _ S hS) D _ _ _ I

/-- **Seed 0 is a seed.**  `seed=None` (OS entropy) and the integer seed `0` are different inputs of the seed derivation:
`0` selects the seeded branch like every other integer (a Python truthiness test `if self.seeds:` would conflate the two),
and the seeded derivation never consults the entropy. -/
theorem seed_zero_is_a_seed (K : Kernels) (e e' : Nat) :
    Seeded (.scalar (some 0)) ∧ ¬ Seeded (.scalar none) ∧
    K.derive (Seeds.scalar (some 0)).seed [] e = K.deriveSeeded 0 [] ∧
    K.derive (Seeds.scalar (some 0)).seed [] e = K.derive (Seeds.scalar (some 0)).seed [] e' ∧
    K.derive (Seeds.scalar none).seed [] e = K.deriveEntropy e := by
  simp [Seeded, Seeds.seed, Kernels.derive]

/-- … hence runs with seed 0 are reproducible like runs with any other seed (eager, and lazy for a fixed chunking). -/
theorem seed_zero_reproducible (K : Kernels) (dose : Dose) (ch : Chunking) (e e' : Nat) (ent ent' : Nat → Nat) (items : List (List Rat)) :
    eager K (.scalar (some 0)) dose e items = eager K (.scalar (some 0)) dose e' items ∧
    lazyEval K (.scalar (some 0)) dose ch ent items = lazyEval K (.scalar (some 0)) dose ch ent' items :=
  ⟨reproducible_eager K _ (by simp [Seeded, Seeds.seed]) dose e e' items,
   reproducible_lazy K _ (by simp [Seeded, Seeds.seed]) dose ch ent ent' items⟩

/-- An unseeded run is *not* reproducible in general: with kernels whose entropy-derived seeds differ, two runs differ. -/
theorem unseeded_not_reproducible_counterexample :
    ¬ (∀ (K : Kernels) (e e' : Nat) (items : List (List Rat)), eager K (.scalar none) (.scalar 1) e items = eager K (.scalar none) (.scalar 1) e' items) := by
  intro h
  have := h tagK 0 1 [[1]]
  revert this; decide +kernel

/-- distinct block positions (of one array, i.e. of equal length) give distinct spawn keys -/
theorem blockKey_injective (ids₁ ids₂ : List Nat) (hlen : ids₁.length = ids₂.length) (h : blockKey ids₁ = blockKey ids₂) :
    ids₁ = ids₂ := by
  have hz : ∀ l : List Nat, l.all (· == 0) = true → l = List.replicate l.length 0 := by
    intro l hl
    apply List.ext_getElem (by simp)
    intro i h1 h2
    have := List.all_eq_true.mp hl l[i] (List.getElem_mem h1)
    simp at this
    simp [this]
  unfold blockKey at h
  by_cases h1 : ids₁.all (· == 0) = true <;> by_cases h2 : ids₂.all (· == 0) = true <;> simp only [h1, h2, if_true] at h
  · rw [hz ids₁ h1, hz ids₂ h2, hlen]
  · subst h; simp at h2
  · subst h; simp at h1
  · exact h

/-- **Blocks get distinct streams** (what fix 9150f392 establishes; before it every block re-derived the *same* `RandomState` seed and
all blocks with equal signal received identical noise).  RNG hypothesis: `SeedSequence` spawning is collision-free, i.e. the
derived seed is an injective function of the spawn key — statistical independence of the spawned streams is numpy's contract,
validated numerically, not proved. -/
theorem blocks_get_distinct_streams (K : Kernels) (hK : ∀ s, Function.Injective (K.deriveSeeded s)) (s : Int)
    (ids₁ ids₂ : List Nat) (hlen : ids₁.length = ids₂.length) (hne : ids₁ ≠ ids₂) (e e' : Nat) :
    K.derive (some s) (blockKey ids₁) e ≠ K.derive (some s) (blockKey ids₂) e' := by
  intro h
  exact hne (blockKey_injective ids₁ ids₂ hlen (hK s h))

/-- non-vacuity of the hypothesis of `blocks_get_distinct_streams`: a kernel whose seeded derivation is injective in the spawn
key exists (here: a Gödel numbering of the key).  numpy's `SeedSequence` maps keys into a finite range and the tagging kernel
`tagK` is a small hash — neither is injective; for them the hypothesis is the *contract* "spawned streams do not collide",
which is assumed (RNG), not proved. -/
example : ∃ K : Kernels, ∀ s, Function.Injective (K.deriveSeeded s) :=
  ⟨⟨fun _ key => (Encodable.encode key : Int), fun e => e, fun _ _ => []⟩,
   fun _ a b h => Encodable.encode_injective (Int.ofNat_inj.mp h)⟩

/-- The first block of a lazy array (all block indices 0) and an eager call use the seed as it is, so that a lazy array
with a single block reproduces the eager result and eager results are the same as before the fix. -/
theorem first_block_uses_eager_stream (n : Nat) : blockKey (List.replicate n 0) = [] := by
  simp [blockKey]

/-- negation witness of "lazy = eager whatever the chunking" (tagging kernels, two blocks of one item) -/
theorem lazy_eq_eager_counterexample :
    ¬ (∀ (K : Kernels) (s : Int) (d : Rat) (ch : Chunking) (ent : Nat → Nat) (items : List (List Rat)),
        ch.items.sum = items.length →
        lazyEval K (.scalar (some s)) (.scalar d) ch ent items = .ok (eager K (.scalar (some s)) (.scalar d) 0 items)) := by
  intro h
  have := h tagK 7 2 ⟨[1], [1], [1, 1], 2⟩ id [[1 / 2, 1], [3, -1]] (by decide)
  revert this; decide +kernel

/-- **Single block**: when nothing is chunked, lazy evaluation is eager evaluation (with the entropy of block 0). -/
theorem single_block_lazy_eq_eager (K : Kernels) (seeds : Seeds) (dose : Dose) (ent : Nat → Nat) (items : List (List Rat)) (bd : Nat) :
    lazyEval K seeds dose ⟨[dose.values.length], [seeds.count], [items.length], bd⟩ ent items
      = .ok (eager K seeds dose (ent 0) items) := by
  have hd : dose.blocks [dose.values.length] = [dose] := by
    cases dose <;> simp [Dose.blocks, Dose.values, splitBy]
  have hsd : seeds.blocks [seeds.count] = [seeds] := by
    cases seeds <;> simp [Seeds.blocks, Seeds.count, splitBy]
  have hi : splitBy [items.length] items = [items] := by simp [splitBy]
  unfold lazyEval
  have hrb := rebuild_blocks seeds [seeds.count]
  rw [hsd] at hrb
  simp only [hd, hsd, hi, hrb]
  congr 1
  unfold assemble eager
  simp only [List.zipIdx_singleton, List.map_cons, List.map_nil, List.flatten_cons, List.flatten_nil, List.append_nil,
    List.length_singleton, Nat.mul_one, Nat.add_zero]
  have hkey : blockKey (blockId seeds dose bd 0 0 0) = [] := by
    cases seeds <;> cases dose <;> simp [blockKey, blockId]
  rw [hkey]
  unfold calcBlock
  exact (reshape4_eq_rows _ _ _ _ _).symm

/-- **No chunking makes the lazy evaluation fail.**  The only way a lazy block can fail is the re-construction of the block
transform (`rebuild`, the branches of `NoiseTransform.__init__`); `rebuild_blocks` shows that every block of every chunking of the
sample axis is accepted. -/
theorem lazy_never_fails (K : Kernels) (seeds : Seeds) (dose : Dose) (ch : Chunking) (ent : Nat → Nat) (items : List (List Rat)) :
    ∃ a, lazyEval K seeds dose ch ent items = .ok a := by
  unfold lazyEval
  simp only [rebuild_blocks]
  exact ⟨_, rfl⟩

/-- Before fix 7971a31d the constructor rejected exactly the proper blocks of the sample axis: a block is accepted iff it is the
whole distribution.  (Hence lazy `poisson_noise(samples > 1)` raised AssertionError as soon as "auto" chunking split that axis.) -/
lemma prefix_rebuild_accepts_iff_whole (samples : Nat) (vs : List Int) :
    (∃ b, rebuildPreFix samples (.dist vs) = .ok b) ↔ vs.length = samples := by
  by_cases h : vs.length = samples <;> simp [rebuildPreFix, h]

/-- … whereas the repaired constructor accepts every block, and returns it unchanged -/
lemma rebuild_accepts_every_block (samples : Nat) (vs : List Int) : rebuild samples (.dist vs) = .ok (.dist vs) := rfl

/-- **Valid sampler input**: every Poisson rate handed to the sampler is non-negative (negative intensities are clipped),
so `RandomState.poisson` never sees an invalid rate. -/
theorem rates_nonneg (seeds : Seeds) (dose : Dose) (items : List (List Rat)) :
    ∀ r ∈ flat4 (rates seeds dose items), 0 ≤ r := by
  intro r hr
  obtain ⟨x, hx, y, hy, z, hz, hr⟩ := (mem_flat4 _ _).mp hr
  simp only [rates, List.mem_map] at hx
  obtain ⟨d, _, rfl⟩ := hx
  simp only [List.mem_map] at hy
  obtain ⟨its, _, rfl⟩ := hy
  simp only [List.mem_map] at hz
  obtain ⟨it, _, rfl⟩ := hz
  simp only [List.mem_map] at hr
  obtain ⟨v, _, rfl⟩ := hr
  exact le_max_right _ _

/-- **Expectation set-up**: for a non-negative signal and dose the rate of every pixel is exactly dose × signal. -/
theorem rates_eq_dose_times_signal (seeds : Seeds) (dose : Dose) (items : List (List Rat))
    (hx : ∀ it ∈ items, ∀ x ∈ it, 0 ≤ x) (hd : ∀ d ∈ dose.values, 0 ≤ d) :
    rates seeds dose items = dose.values.map fun d => List.replicate seeds.count (items.map fun it => it.map fun x => x * d) := by
  unfold rates
  apply List.map_congr_left; intro d hdm
  rw [List.map_replicate]
  congr 1
  apply List.map_congr_left; intro it hit
  apply List.map_congr_left; intro x hxm
  exact max_eq_left (mul_nonneg (hx it hit x hxm) (hd d hdm))

/-- **Valid counts**: if the sampler returns non-negative integers for non-negative rates (RNG contract), every entry of the
noisy block is a non-negative integer. -/
theorem counts_nonneg (K : Kernels) (hK : ∀ k rs, (∀ r ∈ rs, 0 ≤ r) → ∀ c ∈ K.sample k rs, 0 ≤ c)
    (seeds : Seeds) (dose : Dose) (key : List Nat) (e : Nat) (items : List (List Rat)) :
    ∀ c ∈ flat4 (calcBlock K seeds dose key e items), 0 ≤ c := by
  intro c hc
  obtain ⟨x, hx, y, hy, z, hz, hc⟩ := (mem_flat4 _ _).mp hc
  simp only [calcBlock, reshape4, List.mem_map, List.mem_range] at hx
  obtain ⟨d, _, rfl⟩ := hx
  simp only [List.mem_map, List.mem_range] at hy
  obtain ⟨s, _, rfl⟩ := hy
  simp only [List.mem_map, List.mem_range] at hz
  obtain ⟨i, _, rfl⟩ := hz
  simp only [List.mem_map, List.mem_range] at hc
  obtain ⟨j, _, rfl⟩ := hc
  rw [List.getD_eq_getElem?_getD]
  cases hget : (K.sample (K.derive seeds.seed key e) (flat4 (rates seeds dose items)))[((d * seeds.count + s) * items.length + i) * pixels items + j]? with
  | none => simp
  | some v =>
    simp only [Option.getD_some]
    exact hK _ _ (rates_nonneg seeds dose items) v (List.mem_of_getElem? hget)

/-- **Shape**: a block result has `len(dose) × samples × items × pixels` entries arranged along those axes. -/
theorem calcBlock_shape (K : Kernels) (seeds : Seeds) (dose : Dose) (key : List Nat) (e : Nat) (items : List (List Rat)) :
    (calcBlock K seeds dose key e items).length = dose.values.length ∧
    ∀ a ∈ calcBlock K seeds dose key e items, a.length = seeds.count ∧
      ∀ b ∈ a, b.length = items.length ∧ ∀ c ∈ b, c.length = pixels items := by
  unfold calcBlock reshape4
  refine ⟨by simp, ?_⟩
  intro a ha
  simp only [List.mem_map, List.mem_range] at ha
  obtain ⟨d, _, rfl⟩ := ha
  refine ⟨by simp, ?_⟩
  intro b hb
  simp only [List.mem_map, List.mem_range] at hb
  obtain ⟨s, _, rfl⟩ := hb
  refine ⟨by simp, ?_⟩
  intro c hc
  simp only [List.mem_map, List.mem_range] at hc
  obtain ⟨i, _, rfl⟩ := hc
  simp

/-! ### measurement classes -/

/-- Every measurement class except `IndexedDiffractionPatterns` supports noise, eagerly and lazily under every chunking,
whatever its number of base axes (0 for `MeasurementsEnsemble`, 1 for line profiles, 2 for images and patterns). -/
theorem noise_supported_on_rebuildable_classes (K : Kernels) (cls : MeasClass) (h : cls ≠ .indexedDiffractionPatterns)
    (seeds : Seeds) (dose : Dose) (cd cs ci : List Nat) (e : Nat) (ent : Nat → Nat) (items : List (List Rat)) :
    (∃ a, noiseOn K cls seeds dose e items = .ok a) ∧ (∃ a, lazyNoiseOn K cls seeds dose cd cs ci ent items = .ok a) := by
  have hr : cls.rebuildable = true := by cases cls <;> simp_all [MeasClass.rebuildable]
  refine ⟨⟨eager K seeds dose e items, by simp [noiseOn, hr]⟩, ?_⟩
  simp only [lazyNoiseOn, hr, if_true]
  exact lazy_never_fails K seeds dose _ ent items

/-- … and a single block reproduces the eager result for each of them (base dims 0, 1 or 2). -/
theorem single_block_lazy_eq_eager_all_classes (K : Kernels) (cls : MeasClass) (h : cls ≠ .indexedDiffractionPatterns)
    (seeds : Seeds) (dose : Dose) (ent : Nat → Nat) (items : List (List Rat)) :
    lazyNoiseOn K cls seeds dose [dose.values.length] [seeds.count] [items.length] ent items
      = noiseOn K cls seeds dose (ent 0) items := by
  have hr : cls.rebuildable = true := by cases cls <;> simp_all [MeasClass.rebuildable]
  simp only [lazyNoiseOn, noiseOn, hr, if_true]
  exact single_block_lazy_eq_eager K seeds dose ent items cls.baseDims

/-- KNOWN FINDING witness: noise (like every other transform) cannot be applied to `IndexedDiffractionPatterns` — the result
cannot be rebuilt from array and metadata, eager or lazy.  (Provable only while `MeasClass.rebuildable` says so; the class table is
compared with the real classes on every run.) -/
theorem indexed_diffraction_patterns_noise_unsupported (K : Kernels) (seeds : Seeds) (dose : Dose) (cd cs ci : List Nat) (e : Nat)
    (ent : Nat → Nat) (items : List (List Rat)) :
    noiseOn K .indexedDiffractionPatterns seeds dose e items = .error "type_error" ∧
    lazyNoiseOn K .indexedDiffractionPatterns seeds dose cd cs ci ent items = .error "type_error" := by
  simp [noiseOn, lazyNoiseOn, MeasClass.rebuildable]

/-! ### non-vacuity -/
example : Seeded (.scalar (some 7)) ∧ Seeded (.dist [5, 6, 7]) ∧ ¬ Seeded (.scalar none) := by
  simp [Seeded, Seeds.seed]
example : eager tagK (.scalar (some 7)) (.scalar 2) 0 [[1 / 2, 1], [3, -1]] = [[[[3, 7], [7, 4]]]] := by decide +kernel
example : lazyEval tagK (.scalar (some 7)) (.scalar 2) ⟨[1], [1], [1, 1], 2⟩ id [[1 / 2, 1], [3, -1]] = .ok [[[[3, 7], [9, 6]]]] := by
  decide +kernel
example : ∃ a, lazyEval tagK (.dist [5, 6, 7]) (.scalar 1) ⟨[1], [2, 1], [1], 2⟩ id [[1]] = .ok a := ⟨_, rfl⟩
/-- the tagging sampler satisfies the contract used by `counts_nonneg` -/
example : ∀ k rs, (∀ r ∈ rs, (0 : Rat) ≤ r) → ∀ c ∈ tagK.sample k rs, 0 ≤ c := by
  intro k rs hr c hc
  simp only [tagK, List.mem_map] at hc
  obtain ⟨⟨r, idx⟩, hmem, rfl⟩ := hc
  have hr0 : 0 ≤ r := hr r (by
    have := List.mem_zipIdx' (x := r) (i := idx) (xs := rs) hmem
    rw [this.2]; exact List.getElem_mem _)
  have h1 : 0 ≤ r.floor := by
    have := Int.floor_nonneg.mpr hr0; exact this
  have h2 : 0 ≤ (k + 3 * (idx : Int)) % 7 := Int.emod_nonneg _ (by decide)
  exact Int.add_nonneg h1 h2

end AbtemVerif.Props.C31
