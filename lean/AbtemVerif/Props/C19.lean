/-
C19 — Ensemble partitioning reassembles every member exactly once.

Statements are about `AbtemVerif.Ensemble.*` (Model/Ensemble.lean): the partitioners of scans, distributions,
frozen-phonon seeds, ordinal / linear ensemble axes and the wave-builder chunk splits, for **every** member type,
member list and chunk list.  The block start/end arithmetic of GridScan / LineScan / LinearAxis is the generated
`Gen/EnsembleSites.lean`; numpy.linspace is `Model/Linspace.lean` (lemmas in Lib/Linspace.lean).
-/
import AbtemVerif.Model.Ensemble
import AbtemVerif.Lib.Partition
import AbtemVerif.Lib.Linspace
import AbtemVerif.Props.C18
import Mathlib.Tactic.Ring
import Mathlib.Tactic.Linarith
import Mathlib.Tactic.FieldSimp

namespace AbtemVerif.Props.C19
open AbtemVerif.Ensemble AbtemVerif.Partition AbtemVerif.Gen.EnsembleSites AbtemVerif.Np AbtemVerif
variable {α β : Type}

/-! ### the three ways the code enumerates (start, stop) pairs all give `chunk_ranges` -/

lemma startChunks_aux (a : Nat) (cs : List Nat) :
    (a :: cumsum a cs).zip cs = (rangesFrom a cs).map fun r => (r.1, r.2 - r.1) := by
  induction cs generalizing a with
  | nil => rfl
  | cons c cs ih =>
    simp only [cumsum, List.zip_cons_cons, rangesFrom_cons, List.map_cons, List.cons.injEq, Prod.mk.injEq, true_and]
    exact ⟨by omega, ih (a + c)⟩

lemma distRanges_aux (a : Nat) (cs : List Nat) :
    (a :: cumsum a cs).zip (cumsum a cs) = rangesFrom a cs := by
  induction cs generalizing a with
  | nil => rfl
  | cons c cs ih => simp only [cumsum, List.zip_cons_cons, rangesFrom_cons, ih (a + c)]

/-- `zip((0,) + cumsum(chunks), chunks)` lists `(start, size)` of the chunk ranges. -/
theorem startChunks_eq (cs : List Nat) : startChunks cs = (ranges cs).map fun r => (r.1, r.2 - r.1) :=
  startChunks_aux 0 cs

lemma sliceRange_start_size (xs : List α) (r : Nat × Nat) (h : r.1 ≤ r.2) :
    sliceRange xs (r.1, r.1 + (r.2 - r.1)) = sliceRange xs r := by
  simp only [sliceRange]; congr 1; omega

lemma rangesFrom_le (a : Nat) (cs : List Nat) : ∀ r ∈ rangesFrom a cs, r.1 ≤ r.2 := by
  induction cs generalizing a with
  | nil => simp
  | cons c cs ih =>
    intro r hr
    simp only [rangesFrom_cons, List.mem_cons] at hr
    rcases hr with rfl | hr
    · simp
    · exact ih _ r hr

/-- **CustomScan**: the blocks `positions[start : start + chunk]` are the consecutive split of the positions … -/
theorem sliceBlocks_eq_splitBy (xs : List α) (cs : List Nat) : sliceBlocks xs cs = splitBy cs xs := by
  unfold sliceBlocks
  rw [startChunks_eq, List.map_map, splitBy_eq_map_ranges]
  apply List.map_congr_left
  intro r hr
  simp only [Function.comp]
  exact sliceRange_start_size xs r (rangesFrom_le 0 cs r hr)

/-- **DistributionFromValues.divide** (tuple chunks): same blocks … -/
theorem distBlocks_eq_splitBy (xs : List α) (cs : List Nat) : distBlocks xs cs = splitBy cs xs := by
  unfold distBlocks
  have : cumsum 0 (0 :: cs) = 0 :: cumsum 0 cs := by simp [cumsum]
  rw [this, distRanges_aux 0 cs, splitBy_eq_map_ranges]; rfl

/-- **FrozenPhonons seeds / AtomsEnsemble trajectories / OrdinalAxis values**: same blocks. -/
theorem rangeBlocks_eq_splitBy (xs : List α) (cs : List Nat) : rangeBlocks xs cs = splitBy cs xs := by
  unfold rangeBlocks; rw [splitBy_eq_map_ranges]

/-- … so for every valid chunking the blocks re-assemble to exactly the original members in the original order,
block `b` has `cs[b]` members, and member `blockStart b + l` is member `l` of block `b` (exactly once:
`Partition.locate_spec`, `Partition.block_local_unique`). -/
theorem members_reassemble (xs : List α) (cs : List Nat) (h : cs.sum = xs.length) :
    (sliceBlocks xs cs).flatten = xs ∧ (distBlocks xs cs).flatten = xs ∧ (rangeBlocks xs cs).flatten = xs ∧
    (sliceBlocks xs cs).map List.length = cs ∧
    ∀ b l (hb : b < cs.length), l < cs[b] →
      ((sliceBlocks xs cs)[b]'(by rw [sliceBlocks_eq_splitBy]; simpa using hb))[l]? = xs[blockStart cs b + l]? := by
  simp only [sliceBlocks_eq_splitBy, distBlocks_eq_splitBy, rangeBlocks_eq_splitBy]
  exact ⟨flatten_splitBy cs xs (by omega), flatten_splitBy cs xs (by omega), flatten_splitBy cs xs (by omega),
    map_length_splitBy cs xs (by omega), fun b l hb hl => getElem?_splitBy cs xs b l hb hl⟩

/-- A member-wise computation on the blocks followed by concatenation equals the computation on the whole ensemble
(what lazy block-wise evaluation relies on). -/
theorem blockwise_eq_whole (f : α → β) (xs : List α) (cs : List Nat) (h : cs.sum = xs.length) :
    ((sliceBlocks xs cs).map (List.map f)).flatten = xs.map f := by
  rw [sliceBlocks_eq_splitBy]; exact flatten_map_splitBy f cs xs (by omega)

/-! ### DistributionFromValues.divide -/

lemma map_toNat_ofNat (l : List Int) (h : ∀ c ∈ l, 0 ≤ c) : (l.map Int.toNat).map Int.ofNat = l := by
  induction l with
  | nil => rfl
  | cons x xs ih =>
    simp only [List.map_cons, List.cons.injEq]
    exact ⟨Int.toNat_of_nonneg (h x (by simp)), ih fun c hc => h c (by simp [hc])⟩

lemma sum_map_toNat (l : List Int) (h : ∀ c ∈ l, 0 ≤ c) : ((l.map Int.toNat).sum : Int) = l.sum := by
  induction l with
  | nil => rfl
  | cons x xs ih =>
    simp only [List.map_cons, List.sum_cons, Nat.cast_add]
    rw [ih fun c hc => h c (by simp [hc]), Int.toNat_of_nonneg (h x (by simp))]

/-- An integer number of chunks `1 ≤ m ≤ len` divides values (and weights, sliced with the same bounds) into exactly
`m` blocks that re-assemble to the original, with block sizes differing by at most one. -/
theorem divide_int_reassembles (xs : List α) (m : Int) (hm : 1 ≤ m) (hmn : m ≤ xs.length) :
    ∃ bl, divide xs (.inl m) = .ok bl ∧ bl.flatten = xs ∧ bl.length = m.toNat ∧
      ∀ b ∈ bl, (b.length : Int) = (xs.length : Int) / m ∨ (b.length : Int) = (xs.length : Int) / m + 1 := by
  obtain ⟨cs, hcs, hlen, hsum, hmem, _⟩ := C18.equal_sized_spec (xs.length : Int) m hm hmn
  have hq : 0 ≤ (xs.length : Int) / m := Int.ediv_nonneg (by omega) (by omega)
  have hnn : ∀ c ∈ cs, 0 ≤ c := fun c hc => by rcases hmem c hc with h | h <;> omega
  have hsumN : (cs.map Int.toNat).sum = xs.length := by
    have := sum_map_toNat cs hnn; omega
  refine ⟨splitBy (cs.map Int.toNat) xs, ?_, flatten_splitBy _ _ (by omega), by simp [hlen], ?_⟩
  · simp [divide, hcs, Except.map, distBlocks_eq_splitBy]
  · intro b hb
    have hl := map_length_splitBy (cs.map Int.toNat) xs (by omega)
    have : b.length ∈ cs.map Int.toNat := by rw [← hl]; exact List.mem_map_of_mem hb
    obtain ⟨c, hc, hcb⟩ := List.mem_map.1 this
    have h0 := hnn c hc
    rcases hmem c hc with h | h <;> [left; right] <;> omega

/-- Explicit tuple chunks summing to the length: the blocks re-assemble; any other tuple trips the `assert`. -/
theorem divide_tuple (xs : List α) (cs : List Nat) :
    (cs.sum = xs.length → divide xs (.inr cs) = .ok (splitBy cs xs) ∧ (splitBy cs xs).flatten = xs) ∧
    (cs.sum ≠ xs.length → divide xs (.inr cs) = .error "assertion_error") := by
  constructor
  · intro h; exact ⟨by simp [divide, h, distBlocks_eq_splitBy], flatten_splitBy _ _ (by omega)⟩
  · intro h; simp [divide, h]

/-! ### GridScan / LineScan / LinearAxis: block coordinates are the slice of the whole axis' coordinates -/

lemma grid_aux (a s : Rat) (t : Nat) (cs : List Nat) :
    ((rangesFrom t cs).map fun r => (⟨gsStart a s (r.1 : Rat), gsEnd (gsStart a s (r.1 : Rat)) s ((r.2 - r.1 : Nat) : Rat),
        r.2 - r.1⟩ : AxisBlock)).flatMap AxisBlock.positions
      = (List.range cs.sum).map fun (i : Nat) => a + ((t + i : Nat) : Rat) * s := by
  induction cs generalizing t with
  | nil => simp
  | cons c cs ih =>
    simp only [rangesFrom_cons, List.map_cons, List.flatMap_cons, List.sum_cons, ih (t + c)]
    rw [List.range_add, List.map_append, List.map_map]
    congr 1
    · have hc : t + c - t = c := by omega
      simp only [AxisBlock.positions, gsStart, gsEnd, hc]
      have := linspace_open_of_step (a + (t : Rat) * s) s c
      rw [show a + (t : Rat) * s + (c : Rat) * s = a + (t : Rat) * s + s * (c : Rat) by ring] at this
      rw [this]
      apply List.map_congr_left
      intro i _; push_cast; ring
    · apply List.map_congr_left
      intro i _; simp only [Function.comp]; push_cast; ring

/-- **GridScan** (one axis): concatenating the positions of the blocks `{start + S_b·sampling, … , gpts = chunk,
endpoint=False}` gives `start + i·sampling` for `i = 0 … n-1`, for every chunking `cs` of `n`. -/
theorem grid_blocks_positions (a s : Rat) (cs : List Nat) :
    (gridAxisBlocks a s cs).flatMap AxisBlock.positions = (List.range cs.sum).map fun (i : Nat) => a + (i : Rat) * s := by
  unfold gridAxisBlocks
  rw [startChunks_eq, List.map_map]
  have := grid_aux a s 0 cs
  simp only [Nat.zero_add] at this
  rw [← this]; rfl

/-- … which is exactly `np.linspace(start, end, gpts, endpoint)` of the whole scan axis, both for an open axis
(`end = start + n·sampling`) and for one with `endpoint=True` (`end = start + (n-1)·sampling`, `n ≥ 2`). -/
theorem grid_scan_axis_reassembles (a s : Rat) (cs : List Nat) :
    (gridAxisBlocks a s cs).flatMap AxisBlock.positions = linspace a (a + (cs.sum : Rat) * s) cs.sum false ∧
    (2 ≤ cs.sum → (gridAxisBlocks a s cs).flatMap AxisBlock.positions
        = linspace a (a + ((cs.sum : Rat) - 1) * s) cs.sum true) := by
  rw [grid_blocks_positions]
  exact ⟨(linspace_open_of_step a s cs.sum).symm, fun h => (linspace_endpoint_of_step a s cs.sum h).symm⟩

lemma line_aux (a s d : Rat) (t : Nat) (cs : List Nat) :
    ((rangesFrom t cs).map fun r => (⟨lsStart a s d (r.1 : Rat), lsEnd (lsStart a s d (r.1 : Rat)) s d ((r.2 - r.1 : Nat) : Rat),
        r.2 - r.1⟩ : AxisBlock)).flatMap AxisBlock.positions
      = (List.range cs.sum).map fun (i : Nat) => a + ((t + i : Nat) : Rat) * (s * d) := by
  induction cs generalizing t with
  | nil => simp
  | cons c cs ih =>
    simp only [rangesFrom_cons, List.map_cons, List.flatMap_cons, List.sum_cons, ih (t + c)]
    rw [List.range_add, List.map_append, List.map_map]
    congr 1
    · have hc : t + c - t = c := by omega
      simp only [AxisBlock.positions, lsStart, lsEnd, hc]
      have := linspace_open_of_step (a + (t : Rat) * s * d) (s * d) c
      rw [show a + (t : Rat) * s * d + (c : Rat) * (s * d) = a + (t : Rat) * s * d + s * (c : Rat) * d by ring] at this
      rw [this]
      apply List.map_congr_left
      intro i _; push_cast; ring
    · apply List.map_congr_left
      intro i _; simp only [Function.comp]; push_cast; ring

/-- **LineScan** (each coordinate, unit direction component `d`): the block positions concatenate to
`start + i·sampling·d`, the positions of the whole line. -/
theorem line_blocks_positions (a s d : Rat) (cs : List Nat) :
    (lineBlocks a s d cs).flatMap AxisBlock.positions
      = (List.range cs.sum).map fun (i : Nat) => a + (i : Rat) * (s * d) := by
  unfold lineBlocks
  rw [startChunks_eq, List.map_map]
  have := line_aux a s d 0 cs
  simp only [Nat.zero_add] at this
  rw [← this]; rfl

lemma linax_aux (a s : Rat) (t : Nat) (cs : List Nat) :
    ((rangesFrom t cs).map fun r => (linAxisBlockOffset a s (r.1 : Rat), linAxisBlockSampling s 1, r.2 - r.1)).flatMap
        (fun b => linearCoordinates b.1 b.2.1 b.2.2)
      = (List.range cs.sum).map fun (i : Nat) => a + ((t + i : Nat) : Rat) * s := by
  induction cs generalizing t with
  | nil => simp
  | cons c cs ih =>
    simp only [rangesFrom_cons, List.map_cons, List.flatMap_cons, List.sum_cons, ih (t + c)]
    rw [List.range_add, List.map_append, List.map_map]
    congr 1
    · have hc : t + c - t = c := by omega
      simp only [linearCoordinates, linAxisBlockOffset, linAxisBlockSampling, hc, mul_one]
      have := linspace_open_of_step (a + (t : Rat) * s) s c
      rw [show a + (t : Rat) * s + (c : Rat) * s = a + (t : Rat) * s + s * (c : Rat) by ring] at this
      rw [this]
      apply List.map_congr_left
      intro i _; push_cast; ring
    · apply List.map_congr_left
      intro i _; simp only [Function.comp]; push_cast; ring

/-- **LinearAxis / ScanAxis ensemble axes of array objects** (after fix 4dde25c3): the coordinates of the blocks
`axis[start:stop]` concatenate to the coordinates of the whole axis, for every chunking. -/
theorem linear_axis_blocks_coordinates (a s : Rat) (cs : List Nat) :
    (linearAxisBlocks a s cs).flatMap (fun b => linearCoordinates b.1 b.2.1 b.2.2) = linearCoordinates a s cs.sum := by
  unfold linearAxisBlocks
  have := linax_aux a s 0 cs
  simp only [Nat.zero_add] at this
  unfold ranges
  rw [this]
  unfold linearCoordinates
  rw [show a + s * (cs.sum : Rat) = a + (cs.sum : Rat) * s by ring, linspace_open_of_step]

/-! ### zero-size chunks: legal for `validate_chunks` (C18), re-assemble in the model, but two partitioners cannot
build the empty block (GridScan can since /repo e1c94437 + 75e9df16) -/

/-- in the model an empty block contributes nothing and the members still re-assemble -/
theorem zero_size_chunk_reassembles (xs : List α) (cs ds : List Nat) (h : (cs ++ 0 :: ds).sum = xs.length) :
    (sliceBlocks xs (cs ++ 0 :: ds)).flatten = xs := (members_reassemble xs _ h).1

/-- Known finding `custom-zero-size-chunk-block-is-unscanned-sentinel`: a block `CustomScan` built from an empty slice of
positions has ensemble shape `()` (the "no scan" sentinel, one implicit member) instead of `(0,)`. -/
theorem custom_zero_chunk_block_shape_counterexample :
    ¬ ∀ (xs : List Nat) (cs : List Nat), ∀ b ∈ sliceBlocks xs cs, customScanShape b = [b.length] := by
  intro h
  have := h [7, 8] [1, 0, 1] [] (by decide)
  revert this
  decide

/-- Known finding `atoms_ensemble-zero-size-chunk-index-error`: a block `AtomsEnsemble` over an empty slice of the
trajectory has no first configuration (`.atoms` raises IndexError). -/
theorem atoms_ensemble_zero_chunk_no_first_config_counterexample :
    ¬ ∀ (xs : List Nat) (cs : List Nat), ∀ b ∈ rangeBlocks xs cs, (firstConfig b).isSome = true := by
  intro h
  have := h [7, 8] [1, 0, 1] [] (by decide)
  revert this
  decide

/-! ### WavesBuilder chunk splits -/

lemma cumsum_length (a : Nat) (cs : List Nat) : (cumsum a cs).length = cs.length := by
  induction cs generalizing a with
  | nil => rfl
  | cons c cs ih => simp [cumsum, ih]

lemma cumsum_getD (a : Nat) (cs : List Nat) (i : Nat) (h : i < cs.length) :
    (cumsum a cs).getD i 0 = a + (cs.take (i + 1)).sum := by
  induction cs generalizing a i with
  | nil => simp at h
  | cons c cs ih =>
    cases i with
    | zero => simp [cumsum]
    | succ i =>
      simp only [cumsum, List.getD_cons_succ, List.take_succ_cons, List.sum_cons]
      rw [ih (a + c) i (by simpa using h)]; omega

/-- `_chunk_splits` / `_arg_splits` are the chunk ranges of the sub-ensemble dimension counts … -/
theorem chunkSplits_eq_ranges (dims : List Nat) : chunkSplits dims = ranges dims := by
  unfold chunkSplits
  apply List.ext_getElem
  · simp [cumsum, cumsum_length]
  · intro i h1 h2
    have hi : i < dims.length := by simpa using h2
    rw [ranges_getElem dims i hi]
    simp only [List.getElem_map, List.getElem_range, cumsum, Nat.zero_add]
    have e1 : (0 :: cumsum 0 dims).getD i 0 = blockStart dims i := by
      cases i with
      | zero => simp [blockStart]
      | succ j =>
        simp only [List.getD_cons_succ]
        rw [cumsum_getD 0 dims j (by omega)]; simp [blockStart]
    have e2 : (0 :: cumsum 0 dims).getD (i + 1) 0 = blockStart dims i + dims[i] := by
      simp only [List.getD_cons_succ]
      rw [cumsum_getD 0 dims i hi, ← blockStart_succ dims i hi]; simp [blockStart]
    rw [e1, e2]

/-- … so every chunk axis is handed to exactly one sub-ensemble, in order. -/
theorem arg_chunks_partition (dims : List Nat) (chunks : List α) (h : dims.sum = chunks.length) :
    argChunks dims chunks = splitBy dims chunks ∧ (argChunks dims chunks).flatten = chunks ∧
      (argChunks dims chunks).map List.length = dims := by
  have : argChunks dims chunks = splitBy dims chunks := by
    unfold argChunks; rw [chunkSplits_eq_ranges, splitBy_eq_map_ranges]
  rw [this]
  exact ⟨rfl, flatten_splitBy _ _ (by omega), map_length_splitBy _ _ (by omega)⟩

/-! ### n-dimensional ensembles (`generate_blocks`) -/

/-- One block per combination of per-axis chunks. -/
theorem blockGrid_length (chunks : List (List Nat)) : (blockGrid chunks).length = (chunks.map List.length).prod := by
  unfold blockGrid
  rw [List.length_zip, length_product, length_product, List.map_map, List.map_map]
  have h1 : (List.length ∘ fun c : List Nat => List.range c.length) = List.length := by funext c; simp
  have h2 : (List.length ∘ ranges) = List.length := by funext c; simp
  rw [h1, h2, Nat.min_self]

/-- Every member of an n-dimensional ensemble lies in exactly one block, at exactly one local position: per axis the
global index is `blockStart + local` for a unique (block, local) pair. -/
theorem nd_member_unique (css : List (List Nat)) (ks : List Nat) (h : List.Forall₂ (fun cs k => k < cs.sum) css ks) :
    List.Forall₂ (fun cs k => ∃ b l, b < cs.length ∧ l < cs.getD b 0 ∧ blockStart cs b + l = k ∧
      ∀ b' l', (hb' : b' < cs.length) → l' < cs[b'] → blockStart cs b' + l' = k → b' = b ∧ l' = l) css ks := by
  induction h with
  | nil => exact .nil
  | @cons cs k css ks hk _ ih =>
    refine .cons ?_ ih
    obtain ⟨b, l, _, hb, hl, hbl⟩ := locate_spec cs k hk
    refine ⟨b, l, hb, hl, hbl, ?_⟩
    intro b' l' hb' hl' h'
    have hl2 : l < cs[b] := by
      have : cs.getD b 0 = cs[b] := by simp [List.getD_eq_getElem?_getD, List.getElem?_eq_getElem hb]
      omega
    exact block_local_unique cs b' b l' l hb' hb hl' hl2 (by omega)

/-! ### non-vacuity -/
example : sliceBlocks [10, 11, 12, 13, 14, 15, 16] [2, 3, 2] = [[10, 11], [12, 13, 14], [15, 16]] := by decide
example : divide [10, 11, 12, 13, 14, 15, 16] (.inl 3) = .ok [[10, 11], [12, 13], [14, 15, 16]] := by decide +kernel
example : divide [1, 2, 3] (.inr [2, 2]) = .error "assertion_error" := by decide +kernel
example : (gridAxisBlocks (1/2) (1/4) [2, 1, 3]).map AxisBlock.positions = [[1/2, 3/4], [1], [5/4, 3/2, 7/4]] := by decide +kernel
example : argChunks [2, 0, 1] ["x", "y", "z"] = [["x", "y"], [], ["z"]] := by decide

end AbtemVerif.Props.C19
