/-
C39 — Beam tilt acts as a lateral shift per propagation distance.

The tilt phase ramps are the *generated* arguments of `_apply_tilt_to_fresnel_propagator_array` (abtem/multislice.py,
Gen/PropagatorR `tiltPhaseX/Y`), the shift kernel phase is the generated argument of `fft_shift_kernel`
(abtem/core/fft.py, Gen/FftShiftR `shiftPhase`); the propagator is composed as in
`FresnelPropagator._calculate_array` (Lib/WaveOptics.lean `propagator`).  Transform pair abstract (`FourierPair`).

Quantifiers: every grid, every assignment of spatial frequencies, every wave, tilt (value and sign), distance (any
sign), sampling ≠ 0, wavelength, order, list of further tilts.
-/
import AbtemVerif.Lib.WaveOptics
import AbtemVerif.Lib.SmallDFT
import AbtemVerif.Lib.DFT2
import AbtemVerif.Gen.FftShiftR
import Mathlib.Tactic.FieldSimp

open Finset BigOperators

namespace AbtemVerif.Props.C39
open AbtemVerif.DFT AbtemVerif.WaveOptics AbtemVerif.Gen.PropagatorR AbtemVerif.Gen.FftShiftR

variable {ι : Type*} [Fintype ι]

/-- `fft_shift_kernel` at one pixel: frequencies `(kx, ky)`, displacement `(x, y)` (same length unit) -/
noncomputable def shiftKernel (kx ky x y : ℝ) : ℂ := cexp (shiftPhase kx x) * cexp (shiftPhase ky y)

/-- lateral displacement produced by a tilt of `t` mrad over the distance `dz` -/
noncomputable def tiltShift (t dz : ℝ) : ℝ := dz * Real.tan (t / 1000)

/-- The tilt phase of the propagator is the shift-kernel phase at the displacement `dz·tan(t)` (x part). -/
theorem tilt_phase_is_shift_phase_x (kx tx dz : ℝ) : tiltPhaseX kx tx dz = shiftPhase kx (tiltShift tx dz) := by
  unfold tiltPhaseX shiftPhase tiltShift; ring

theorem tilt_phase_is_shift_phase_y (ky ty dz : ℝ) : tiltPhaseY ky ty dz = shiftPhase ky (tiltShift ty dz) := by
  unfold tiltPhaseY shiftPhase tiltShift; ring

/-- The factor `_apply_tilt_to_fresnel_propagator_array` multiplies onto the propagator *is* the `fft_shift_kernel`
for the displacement `(dz·tan tx, dz·tan ty)`. -/
theorem tilt_factor_is_shift_kernel (kx ky tx ty dz : ℝ) :
    tiltFactor kx ky tx ty dz = shiftKernel kx ky (tiltShift tx dz) (tiltShift ty dz) := by
  unfold tiltFactor shiftKernel
  rw [tilt_phase_is_shift_phase_x, tilt_phase_is_shift_phase_y]

/-- In the units `fft_shift_kernel` is called with (frequencies of the unit grid `k·d`, positions in pixels `x/d`):
the same kernel, for every non-zero sampling. -/
theorem tilt_factor_is_pixel_shift_kernel (kx ky tx ty dz dx dy : ℝ) (hx : dx ≠ 0) (hy : dy ≠ 0) :
    tiltFactor kx ky tx ty dz = shiftKernel (kx * dx) (ky * dy) (tiltShift tx dz / dx) (tiltShift ty dz / dy) := by
  rw [tilt_factor_is_shift_kernel]
  unfold shiftKernel shiftPhase
  congr 2 <;> field_simp

/-- shift kernels compose additively in the displacement -/
theorem shiftKernel_add (kx ky x y x' y' : ℝ) :
    shiftKernel kx ky (x + x') (y + y') = shiftKernel kx ky x y * shiftKernel kx ky x' y' := by
  unfold shiftKernel
  have h1 : shiftPhase kx (x + x') = shiftPhase kx x + shiftPhase kx x' := by unfold shiftPhase; ring
  have h2 : shiftPhase ky (y + y') = shiftPhase ky y + shiftPhase ky y' := by unfold shiftPhase; ring
  rw [h1, h2, cexp_add, cexp_add]; ring

theorem shiftKernel_unit_modulus (kx ky x y : ℝ) : Complex.normSq (shiftKernel kx ky x y) = 1 := by
  simp [shiftKernel, Complex.normSq_mul, normSq_cexp]

/-! ### operators -/

structure Freqs (ι : Type*) where
  kx : ι → ℝ
  ky : ι → ℝ
  maxSampling : ℝ

/-- `FresnelPropagator.propagate` with the tilts `tilts` -/
noncomputable def propagate (P : FourierPair ι) (g : Freqs ι) (order : ℕ) (dz wl : ℝ) (tilts : List (ℝ × ℝ))
    (ψ : ι → ℂ) : ι → ℂ :=
  P.mult (fun k => propagator order (g.kx k) (g.ky k) dz wl g.maxSampling tilts) ψ

/-- `fft_shift` by the displacement `(x, y)` -/
noncomputable def shift (P : FourierPair ι) (g : Freqs ι) (x y : ℝ) (ψ : ι → ℂ) : ι → ℂ :=
  P.mult (fun k => shiftKernel (g.kx k) (g.ky k) x y) ψ

/-- Propagating with beam tilt `(tx, ty)` = propagating without tilt, then shifting by `dz·tan t` in each direction. -/
theorem tilted_propagate_eq_shift_propagate (P : FourierPair ι) (g : Freqs ι) (order : ℕ) (dz wl tx ty : ℝ)
    (ψ : ι → ℂ) :
    propagate P g order dz wl [(tx, ty)] ψ
      = shift P g (tiltShift tx dz) (tiltShift ty dz) (propagate P g order dz wl [] ψ) := by
  unfold propagate shift
  rw [P.mult_mult]
  congr 1; funext k
  simp only [propagator, List.foldl_cons, List.foldl_nil]
  rw [tilt_factor_is_shift_kernel]

/-- … and the two operations commute (shift first, then propagate). -/
theorem tilted_propagate_eq_propagate_shift (P : FourierPair ι) (g : Freqs ι) (order : ℕ) (dz wl tx ty : ℝ)
    (ψ : ι → ℂ) :
    propagate P g order dz wl [(tx, ty)] ψ
      = propagate P g order dz wl [] (shift P g (tiltShift tx dz) (tiltShift ty dz) ψ) := by
  unfold propagate shift
  rw [P.mult_mult]
  congr 1; funext k
  simp only [propagator, List.foldl_cons, List.foldl_nil]
  rw [tilt_factor_is_shift_kernel]; ring

/-- General form: any further tilts (base tilt + tilt axes) — the extra tilt is one more shift. -/
theorem extra_tilt_is_shift (P : FourierPair ι) (g : Freqs ι) (order : ℕ) (dz wl tx ty : ℝ)
    (tilts : List (ℝ × ℝ)) (ψ : ι → ℂ) :
    propagate P g order dz wl (tilts ++ [(tx, ty)]) ψ
      = shift P g (tiltShift tx dz) (tiltShift ty dz) (propagate P g order dz wl tilts ψ) := by
  unfold propagate shift
  rw [P.mult_mult]
  congr 1; funext k
  simp only [propagator, List.foldl_append, List.foldl_cons, List.foldl_nil]
  rw [tilt_factor_is_shift_kernel]

/-- shifting twice = shifting by the sum -/
theorem shift_shift (P : FourierPair ι) (g : Freqs ι) (x y x' y' : ℝ) (ψ : ι → ℂ) :
    shift P g x' y' (shift P g x y ψ) = shift P g (x + x') (y + y') ψ := by
  unfold shift
  rw [P.mult_mult]
  congr 1; funext k
  rw [shiftKernel_add]; ring

theorem shift_zero (P : FourierPair ι) (g : Freqs ι) (ψ : ι → ℂ) : shift P g 0 0 ψ = ψ := by
  unfold shift
  have : (fun k => shiftKernel (g.kx k) (g.ky k) 0 0) = fun _ => (1 : ℂ) := by
    funext k; simp [shiftKernel, shiftPhase, cexp_zero]
  rw [this]; exact P.mult_one ψ

/-- total lateral displacement of a list of tilts over the distance `dz` (tangents add) -/
noncomputable def totalShiftX (tilts : List (ℝ × ℝ)) (dz : ℝ) : ℝ := (tilts.map fun t => tiltShift t.1 dz).sum
noncomputable def totalShiftY (tilts : List (ℝ × ℝ)) (dz : ℝ) : ℝ := (tilts.map fun t => tiltShift t.2 dz).sum

/-- Any list of tilts (base tilt and the member tilts of all tilt axes): tilted propagation = untilted propagation followed
by ONE shift by the sum of the individual displacements. -/
theorem all_tilts_total_shift (P : FourierPair ι) (g : Freqs ι) (order : ℕ) (dz wl : ℝ) (tilts : List (ℝ × ℝ))
    (ψ : ι → ℂ) :
    propagate P g order dz wl tilts ψ
      = shift P g (totalShiftX tilts dz) (totalShiftY tilts dz) (propagate P g order dz wl [] ψ) := by
  induction tilts using List.reverseRecOn with
  | nil => simp [totalShiftX, totalShiftY, shift_zero]
  | append_singleton ts t ih =>
    rw [show ts ++ [t] = ts ++ [(t.1, t.2)] from rfl, extra_tilt_is_shift, ih, shift_shift]
    simp [totalShiftX, totalShiftY]

/-- The tilt list `FresnelPropagator._calculate_array` applies: the scalar base tilt (`base_tilt_x/y` metadata) unless it is
`(0, 0)`, then — walking the ensemble axes from the last to the first — the member tilt of every tilt axis (`none` = an
ensemble axis without tilt, which only adds a broadcast dimension). -/
noncomputable def calcTilts (base : ℝ × ℝ) (axes : List (Option (ℝ × ℝ))) : List (ℝ × ℝ) :=
  (if base ≠ (0, 0) then [base] else []) ++ axes.reverse.filterMap id

/-- The base tilt always contributes its displacement — also when tilt ensemble axes are present: the propagator built by
`_calculate_array` shifts by `dz·tan(base) + Σ dz·tan(member tilts)` in each direction. -/
theorem calc_array_total_shift (P : FourierPair ι) (g : Freqs ι) (order : ℕ) (dz wl : ℝ) (base : ℝ × ℝ)
    (axes : List (Option (ℝ × ℝ))) (ψ : ι → ℂ) :
    propagate P g order dz wl (calcTilts base axes) ψ
      = shift P g (tiltShift base.1 dz + totalShiftX (axes.reverse.filterMap id) dz)
          (tiltShift base.2 dz + totalShiftY (axes.reverse.filterMap id) dz) (propagate P g order dz wl [] ψ) := by
  rw [all_tilts_total_shift]
  congr 1
  · unfold calcTilts totalShiftX
    split_ifs with h
    · simp
    · have : base = (0, 0) := not_not.mp h
      simp [this, tiltShift]
  · unfold calcTilts totalShiftY
    split_ifs with h
    · simp
    · have : base = (0, 0) := not_not.mp h
      simp [this, tiltShift]

/-- Tilts given per axis (an x-tilt axis and a y-tilt axis) act like the 2-D pair. -/
theorem axis_vs_pair_tilt (order : ℕ) (kx ky dz wl ms tx ty : ℝ) (tilts : List (ℝ × ℝ)) :
    propagator order kx ky dz wl ms (tilts ++ [(tx, 0), (0, ty)]) = propagator order kx ky dz wl ms (tilts ++ [(tx, ty)]) := by
  simp only [propagator, List.foldl_append, List.foldl_cons, List.foldl_nil]
  rw [← mul_assoc]
  congr 1
  simp [tiltFactor, tiltPhaseX, tiltPhaseY, cexp_zero]
  ring

/-- the order in which tilts are applied does not matter -/
theorem tilt_order_irrelevant (order : ℕ) (kx ky dz wl ms : ℝ) (t₁ t₂ : ℝ × ℝ) :
    propagator order kx ky dz wl ms [t₁, t₂] = propagator order kx ky dz wl ms [t₂, t₁] := by
  simp only [propagator, List.foldl_cons, List.foldl_nil]; ring

/-- general form: the propagator depends on the multiset of tilts only (the code walks the ensemble axes in reverse; any order gives
the same array) -/
theorem tilt_perm_irrelevant (order : ℕ) (kx ky dz wl ms : ℝ) (t₁ t₂ : List (ℝ × ℝ)) (h : t₁.Perm t₂) :
    propagator order kx ky dz wl ms t₁ = propagator order kx ky dz wl ms t₂ := by
  rw [propagator_eq, propagator_eq]
  congr 1
  unfold tiltProduct
  exact (h.map _).prod_eq

/-- The tilt never changes the intensity of the propagated wave. -/
theorem tilt_preserves_energy [Nonempty ι] (P : FourierPair ι) (g : Freqs ι) (order : ℕ) (dz wl tx ty : ℝ)
    (ψ : ι → ℂ) :
    energy (propagate P g order dz wl [(tx, ty)] ψ) = energy (propagate P g order dz wl [] ψ) := by
  rw [tilted_propagate_eq_shift_propagate]
  exact P.energy_mult_eq _ _ (fun k => shiftKernel_unit_modulus _ _ _ _)

/-! ### tilted plane wave through vacuum -/

/-- A plane wave (constant array — `PlaneWave.build`, the tilt lives in the metadata only) is left unchanged by tilted
vacuum propagation, hence keeps unit modulus: its spectrum sits at the zero-frequency pixel, where every phase factor and
the antialias aperture equal one.  `hzero`: the spectrum of a constant vanishes off the zero-frequency pixels (true for the
DFT: `zmodPair_hasDC`). -/
theorem planewave_modulus_preserved (P : FourierPair ι) (g : Freqs ι) (order : ℕ) (dz wl : ℝ)
    (tilts : List (ℝ × ℝ)) (c : ℂ) (hms : 0 < g.maxSampling)
    (hzero : ∀ k, P.F (fun _ => c) k ≠ 0 → g.kx k = 0 ∧ g.ky k = 0) :
    propagate P g order dz wl tilts (fun _ => c) = fun _ => c := by
  unfold propagate
  apply P.mult_eq_self_of_support
  intro k hk
  obtain ⟨hx, hy⟩ := hzero k hk
  rw [propagator_eq, hx, hy]
  have hT : tiltProduct 0 0 dz tilts = 1 := by
    unfold tiltProduct
    have : (tilts.map fun t => tiltFactor 0 0 t.1 t.2 dz) = tilts.map fun _ => (1 : ℂ) := by
      apply List.map_congr_left
      intro t _
      simp [tiltFactor, tiltPhaseX, tiltPhaseY, cexp_zero]
    rw [this]; simp
  have hF : fresnel order 0 0 dz wl = 1 := by
    unfold fresnel fresnelPhaseX fresnelPhaseY fresnelPhase2
    split_ifs <;> simp [cexp_zero]
  have hA : aperture 0 0 g.maxSampling = 1 := by
    unfold aperture
    apply apertureOf_eq_one
    · unfold apertureTaper antialiasTaper; positivity
    · unfold apertureRadius apertureCutoff apertureTaper antialiasCutoff antialiasTaper
      have : Real.sqrt ((0 : ℝ) ^ 2 + 0 ^ 2) = 0 := by simp
      rw [this]
      have h1 : (3333333 / 5000000 : ℝ) / g.maxSampling / 2 - 1 / 100 / g.maxSampling
          = (3233333 / 10000000) / g.maxSampling := by field_simp; ring
      rw [h1]; positivity
  rw [hT, hF, hA]; norm_num

theorem planewave_unit_modulus_preserved (P : FourierPair ι) (g : Freqs ι) (order : ℕ) (dz wl : ℝ)
    (tilts : List (ℝ × ℝ)) (hms : 0 < g.maxSampling)
    (hzero : ∀ k, P.F (fun _ => (1 : ℂ)) k ≠ 0 → g.kx k = 0 ∧ g.ky k = 0) (j : ι) :
    Complex.normSq (propagate P g order dz wl tilts (fun _ => (1 : ℂ)) j) = 1 := by
  rw [planewave_modulus_preserved P g order dz wl tilts 1 hms hzero]; simp

/-- Concrete 2-D DFT (`fft2` on an `n × m` grid): any frequency labelling that vanishes at index 0 of each axis (as
`fftfreq` does) satisfies `hzero`, so a tilted plane wave keeps unit modulus through vacuum — no hypothesis left. -/
theorem planewave_unit_modulus_preserved_fft2 (n m : ℕ) [NeZero n] [NeZero m] (fx : ZMod n → ℝ) (fy : ZMod m → ℝ)
    (hfx : fx 0 = 0) (hfy : fy 0 = 0) (ms : ℝ) (hms : 0 < ms) (order : ℕ) (dz wl : ℝ) (tilts : List (ℝ × ℝ))
    (j : ZMod n × ZMod m) :
    Complex.normSq (propagate (zmodPair2 n m) ⟨fun k => fx k.1, fun k => fy k.2, ms⟩ order dz wl tilts
      (fun _ => (1 : ℂ)) j) = 1 := by
  apply planewave_unit_modulus_preserved _ _ _ _ _ _ hms
  intro k hk
  have : k = (0, 0) := by
    by_contra hne
    exact hk ((zmodPair2_hasDC n m).const 1 k hne)
  subst this
  exact ⟨hfx, hfy⟩

/-! ### non-vacuity -/

/-- the hypothesis `hzero` is satisfiable: 4-point DFT with frequencies (0, 1/4, -1/2, -1/4) -/
example : ∃ g : Freqs (Fin 4), 0 < g.maxSampling ∧
    ∀ k, dft4.F (fun _ => (1 : ℂ)) k ≠ 0 → g.kx k = 0 ∧ g.ky k = 0 := by
  refine ⟨⟨![0, 1 / 4, -1 / 2, -1 / 4], fun _ => 0, 1⟩, one_pos, ?_⟩
  intro k hk
  fin_cases k
  · simp
  all_goals (exfalso; apply hk; simp [dft4, F4lin, F4fun])


end AbtemVerif.Props.C39
