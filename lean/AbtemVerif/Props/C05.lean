/-
C05 — Built probes and plane waves are normalized.

Model of `Probe._calculate_array` (abtem/waves.py): reciprocal-space array
  kernel (scan positions, `fft_shift_kernel`)  →  · aperture  →  · aberrations  →  tilt.apply (metadata + tiling only)
  →  `_WavesNormalization` (divide by √Σ|·|² over the last two axes)  →  ifft2
The ORDER of these operations is generated too (`Gen.Probe.probeOps`: the top-level calls of `Probe._calculate_array` in source
order) and interpreted by `runOps`; `probeSpectrumOps_eq` proves that this order normalises AFTER every factor — moving the
normalisation in front of a factor breaks that proof.  The factors themselves use the *generated* normalisation formulas (`Gen.ProbeR.normFactor`,
`Gen.ProbeC.normDivide`), and of `PlaneWave._calculate_array` (constant `Gen.ProbeR.planeWaveValue (∏ gpts)` or ones).
The aperture pieces (`soft_aperture` clip expression and forced zero-angle values, `hard_aperture` test), the aberration
phase `complex_exponential(-χ)` and the shift-kernel phase are generated from abtem/transfer.py and abtem/core/fft.py.

Quantifiers: every grid (index type `ι`), every transform pair, every scan position, aperture (soft/hard, any cutoff,
any angular sampling), aberration function χ : ι → ℝ (any coefficient set — χ is an arbitrary real function here), any
non-zero ensemble weight, any tilt (the tilt does not touch the array).
-/
import AbtemVerif.Lib.WaveOptics
import AbtemVerif.Lib.SmallDFT
import AbtemVerif.Lib.DFT2
import AbtemVerif.Gen.Probe
import AbtemVerif.Gen.ProbeR
import AbtemVerif.Gen.ProbeC
import AbtemVerif.Gen.FftShiftR
import Mathlib.Tactic.FieldSimp
import Mathlib.Tactic.Positivity

open Finset BigOperators

namespace AbtemVerif.Props.C05
open AbtemVerif.DFT AbtemVerif.WaveOptics AbtemVerif.Gen.ProbeR AbtemVerif.Gen.ProbeC AbtemVerif.Gen.FftShiftR AbtemVerif.Py

variable {ι : Type*} [Fintype ι]

/-! ### the factors -/

/-- `Aperture._evaluate_from_angular_grid` at one pixel.  `cutoff = none` is `semiangle_cutoff == inf` (all ones);
`zeroPixel` marks the zero-angle pixel `[0, 0]`, whose value `soft_aperture` overwrites. -/
noncomputable def probeAperture (soft zeroPixel : Bool) (cutoff : Option ℝ) (alpha phi s0 s1 : ℝ) : ℝ :=
  match cutoff with
  | none => 1
  | some c =>
    if soft then
      (if zeroPixel then softAtZero
       else softClip c alpha (softDenominator phi s0 s1))
    else (if hardTest alpha c then 1 else 0)

/-- probe-forming aperture values lie in `[0, 1]` -/
theorem probeAperture_mem (soft zeroPixel : Bool) (cutoff : Option ℝ) (alpha phi s0 s1 : ℝ) :
    0 ≤ probeAperture soft zeroPixel cutoff alpha phi s0 s1 ∧ probeAperture soft zeroPixel cutoff alpha phi s0 s1 ≤ 1 := by
  unfold probeAperture softAtZero softClip pyClipR
  cases cutoff with
  | none => simp
  | some c =>
    simp only
    split_ifs <;> simp

/-- the zero-angle pixel always passes: soft apertures force it to 1, hard apertures pass it when `cutoff ≥ 0` -/
theorem probeAperture_zero_pixel (soft : Bool) (cutoff : Option ℝ) (phi s0 s1 : ℝ)
    (hc : ∀ c, cutoff = some c → soft = false → 0 ≤ c) :
    probeAperture soft true cutoff 0 phi s0 s1 = 1 := by
  unfold probeAperture softAtZero hardTest
  cases cutoff with
  | none => rfl
  | some c =>
    cases soft with
    | true => simp
    | false =>
      have := hc c rfl rfl
      simp [this]

/-- scan-position kernel `fft_shift_kernel` at one pixel (positions in pixels, frequencies of the unit grid) -/
noncomputable def scanKernel (kx ky x y : ℝ) : ℂ := cexp (shiftPhase kx x) * cexp (shiftPhase ky y)

theorem scanKernel_unit_modulus (kx ky x y : ℝ) : Complex.normSq (scanKernel kx ky x y) = 1 := by
  simp [scanKernel, Complex.normSq_mul, normSq_cexp]

/-- aberration factor `complex_exponential(-χ)` (times an ensemble weight `w`) -/
noncomputable def aberration (w chi : ℝ) : ℂ := (w : ℂ) * cexp (aberrationPhase chi)

theorem aberration_normSq (w chi : ℝ) : Complex.normSq (aberration w chi) = w ^ 2 := by
  simp [aberration, Complex.normSq_mul, normSq_cexp, Complex.normSq_ofReal, sq]

theorem aberration_unit_modulus (chi : ℝ) : Complex.normSq (aberration 1 chi) = 1 := by
  simp [aberration_normSq]

/-! ### normalisation -/

/-- `_WavesNormalization(space="reciprocal")` on a reciprocal-space array (generated `sqrt` and division) -/
noncomputable def normalize (y : ι → ℂ) : ι → ℂ := fun k => normDivide (y k) (normFactor (energy y))

/-- Dividing by `√Σ|y|²` gives unit total intensity — whenever the array is not identically zero. -/
theorem normalize_unit_energy (y : ι → ℂ) (h : energy y ≠ 0) : energy (normalize y) = 1 := by
  have hpos : 0 < energy y := lt_of_le_of_ne (energy_nonneg y) (Ne.symm h)
  unfold normalize normDivide normFactor
  unfold energy at *
  simp only [Complex.normSq_div, Complex.normSq_ofReal]
  rw [← Finset.sum_div, Real.mul_self_sqrt hpos.le]
  exact div_self h

/-- the reciprocal-space array of the probe before normalisation: kernel · aperture · aberrations -/
noncomputable def probeSpectrum (kernel : ι → ℂ) (A : ι → ℝ) (aberr : ι → ℂ) : ι → ℂ :=
  fun k => (kernel k * (A k : ℂ)) * aberr k

/-- The un-normalised probe spectrum is not identically zero as soon as one pixel passes the aperture. -/
theorem probeSpectrum_energy_pos (kernel : ι → ℂ) (A : ι → ℝ) (aberr : ι → ℂ) (k0 : ι)
    (hk : kernel k0 ≠ 0) (hA : A k0 ≠ 0) (hab : aberr k0 ≠ 0) : 0 < energy (probeSpectrum kernel A aberr) := by
  unfold energy
  apply lt_of_lt_of_le _ (Finset.single_le_sum (f := fun k => Complex.normSq (probeSpectrum kernel A aberr k))
    (fun i _ => Complex.normSq_nonneg _) (Finset.mem_univ k0))
  apply Complex.normSq_pos.mpr
  unfold probeSpectrum
  exact mul_ne_zero (mul_ne_zero hk (by exact_mod_cast hA)) hab

/-- What one top-level call of `Probe._calculate_array` does to the reciprocal-space array.  The calls that leave the array alone
are listed explicitly (`_evaluate_kernel` produces the start value, `Waves(...)` wraps it, `tilt.apply` only tiles/sets metadata,
`ensure_real_space` is the final inverse transform applied by `probeArray`); any OTHER call is not understood: `none`. -/
noncomputable def applyOp (A : ι → ℝ) (aberr : ι → ℂ) (op : String) (y : ι → ℂ) : Option (ι → ℂ) :=
  if op = "waves_builder.aperture.apply" then some fun k => y k * (A k : ℂ)
  else if op = "waves_builder.aberrations.apply" then some fun k => y k * aberr k
  else if op = "waves.normalize" then some (normalize y)
  else if op = "waves_builder.scan_positions._evaluate_kernel" ∨ op = "Waves" ∨ op = "waves_builder.tilt.apply"
      ∨ op = "waves.ensure_real_space" then some y
  else none

/-- run the operations in the given order on the scan kernel; `none` if an operation is unknown -/
noncomputable def runOps (ops : List String) (kernel : ι → ℂ) (A : ι → ℝ) (aberr : ι → ℂ) : Option (ι → ℂ) :=
  ops.foldlM (fun y op => applyOp A aberr op y) kernel

/-- With the order of operations the code has NOW (`Gen.Probe.probeOps`), every operation is understood and the result is the
normalisation of the complete product kernel · aperture · aberrations: the normalisation comes after every factor, and nothing
unknown (e.g. an extra factor) follows it. -/
theorem probeSpectrumOps_eq (kernel : ι → ℂ) (A : ι → ℝ) (aberr : ι → ℂ) :
    runOps AbtemVerif.Gen.Probe.probeOps kernel A aberr = some (normalize (probeSpectrum kernel A aberr)) := by
  simp only [runOps, AbtemVerif.Gen.Probe.probeOps, List.foldlM_cons, List.foldlM_nil, applyOp]
  simp
  rfl

/-- the pipeline starts by evaluating the scan kernel and ends with the inverse transform -/
theorem probeOps_ends : AbtemVerif.Gen.Probe.probeOps.head? = some "waves_builder.scan_positions._evaluate_kernel" ∧
    AbtemVerif.Gen.Probe.probeOps.getLast? = some "waves.ensure_real_space" := by
  constructor <;> rfl

/-- the array `Probe.build` returns (real space): the generated sequence of operations, then the inverse transform -/
noncomputable def probeArray (P : FourierPair ι) (kernel : ι → ℂ) (A : ι → ℝ) (aberr : ι → ℂ) : ι → ℂ :=
  P.Finv ((runOps AbtemVerif.Gen.Probe.probeOps kernel A aberr).getD 0)

/-- Every built probe has unit total intensity in reciprocal space: any scan position (unit-modulus kernel), any
aperture in which at least one pixel `k0` passes (the zero-angle pixel does, `probeAperture_zero_pixel`), any aberration
phases χ and non-zero weight, any tilt. -/
theorem probe_normalized (P : FourierPair ι) (kernel : ι → ℂ) (A : ι → ℝ) (w : ℝ) (chi : ι → ℝ) (k0 : ι)
    (hk : ∀ k, Complex.normSq (kernel k) = 1) (hA : A k0 ≠ 0) (hw : w ≠ 0) :
    energy (P.F (probeArray P kernel A (fun k => aberration w (chi k)))) = 1 := by
  unfold probeArray
  rw [P.inv_right, probeSpectrumOps_eq, Option.getD_some]
  apply normalize_unit_energy
  apply ne_of_gt
  apply probeSpectrum_energy_pos kernel A _ k0
  · intro h0; have := hk k0; rw [h0] at this; simp at this
  · exact hA
  · unfold aberration
    exact mul_ne_zero (by exact_mod_cast hw) (cexp_ne_zero _)

/-- … and real-space intensity `1/N`. -/
theorem probe_real_space_energy [Nonempty ι] (P : FourierPair ι) (kernel : ι → ℂ) (A : ι → ℝ) (w : ℝ) (chi : ι → ℝ)
    (k0 : ι) (hk : ∀ k, Complex.normSq (kernel k) = 1) (hA : A k0 ≠ 0) (hw : w ≠ 0) :
    energy (probeArray P kernel A (fun k => aberration w (chi k))) = 1 / (Fintype.card ι : ℝ) := by
  have h := probe_normalized P kernel A w chi k0 hk hA hw
  rw [P.parseval] at h
  have hN : (Fintype.card ι : ℝ) ≠ 0 := by
    have : 0 < Fintype.card ι := Fintype.card_pos
    positivity
  field_simp
  linarith

/-- with the code's factors: scan kernel from `fft_shift_kernel`, aperture from `soft_aperture`/`hard_aperture` -/
theorem code_probe_normalized (P : FourierPair ι) (kx ky alpha phi : ι → ℝ) (zero : ι → Bool) (x y s0 s1 w : ℝ)
    (soft : Bool) (cutoff : Option ℝ) (chi : ι → ℝ) (k0 : ι) (hz : zero k0 = true) (ha : alpha k0 = 0)
    (hc : ∀ c, cutoff = some c → soft = false → 0 ≤ c) (hw : w ≠ 0) :
    energy (P.F (probeArray P (fun k => scanKernel (kx k) (ky k) x y)
      (fun k => probeAperture soft (zero k) cutoff (alpha k) (phi k) s0 s1) (fun k => aberration w (chi k)))) = 1 := by
  apply probe_normalized P _ _ w chi k0 (fun k => scanKernel_unit_modulus _ _ _ _) _ hw
  simp only [hz, ha]
  rw [probeAperture_zero_pixel soft cutoff _ _ _ hc]
  exact one_ne_zero

/-! ### plane waves -/

/-- `PlaneWave._calculate_array`: constant `1 / prod(gpts)` when `normalize`, ones otherwise (tilt leaves the array alone) -/
noncomputable def planeWave (normalized : Bool) : ι → ℂ :=
  fun _ => if normalized then ((planeWaveValue (Fintype.card ι : ℝ) : ℝ) : ℂ) else 1

/-- A plane wave built with `normalize=True` has unit reciprocal-space intensity. -/
theorem planewave_normalized [Nonempty ι] (P : FourierPair ι) : energy (P.F (planeWave (ι := ι) true)) = 1 := by
  rw [P.parseval]
  have hN : (Fintype.card ι : ℝ) ≠ 0 := by
    have : 0 < Fintype.card ι := Fintype.card_pos
    positivity
  unfold energy planeWave planeWaveValue
  simp only [if_true, Complex.normSq_ofReal, Finset.sum_const, Finset.card_univ, nsmul_eq_mul]
  field_simp

/-- A plane wave built without normalisation has unit modulus at every pixel. -/
theorem planewave_unit_modulus (j : ι) : Complex.normSq (planeWave (ι := ι) false j) = 1 := by
  simp [planeWave]

/-! ### instantiated at the 2-D DFT (`fft2` on an `n × m` grid) -/

/-- `PlaneWave(normalize=True)` on an `n × m` grid: `Σ|fft2|² = 1` for the concrete 2-D DFT. -/
theorem planewave_normalized_fft2 (n m : ℕ) [NeZero n] [NeZero m] :
    energy ((zmodPair2 n m).F (planeWave (ι := ZMod n × ZMod m) true)) = 1 :=
  planewave_normalized (zmodPair2 n m)

/-- built probes on an `n × m` grid, concrete 2-D DFT, zero-frequency pixel `(0, 0)` -/
theorem probe_normalized_fft2 (n m : ℕ) [NeZero n] [NeZero m] (kernel : ZMod n × ZMod m → ℂ) (A : ZMod n × ZMod m → ℝ)
    (w : ℝ) (chi : ZMod n × ZMod m → ℝ) (hk : ∀ k, Complex.normSq (kernel k) = 1) (hA : A (0, 0) ≠ 0) (hw : w ≠ 0) :
    energy ((zmodPair2 n m).F (probeArray (zmodPair2 n m) kernel A (fun k => aberration w (chi k)))) = 1 :=
  probe_normalized (zmodPair2 n m) kernel A w chi (0, 0) hk hA hw

/-! ### non-vacuity -/

example : ∃ (kernel : Fin 4 → ℂ) (A : Fin 4 → ℝ), (∀ k, Complex.normSq (kernel k) = 1) ∧ A 0 ≠ 0 :=
  ⟨fun _ => 1, fun _ => 1, by simp, by simp⟩

example : energy (dft4.F (probeArray dft4 (fun _ => 1) (fun _ => 1) (fun k => aberration 1 ((k : ℕ) : ℝ)))) = 1 :=
  probe_normalized dft4 _ _ 1 _ 0 (by simp) (by simp) one_ne_zero

end AbtemVerif.Props.C05
