/-
C13 — Polar measurements integrate exactly the bins inside the requested limits.

Statements are about `AbtemVerif.Polar.select/integrate`, whose index expressions are the
*generated* definitions of `Gen/PolarIntegrate.lean` (regenerated from
`PolarMeasurements.integrate` on every run).  Quantifiers: every bin table, every
`nr`, `na`, every offset, every non-zero sampling, every aligned limit pair.
-/
import AbtemVerif.Model.Polar
import Mathlib.Data.Rat.Floor
import Mathlib.Tactic.FieldSimp
import Mathlib.Tactic.Ring
import Mathlib.Tactic.Linarith

namespace AbtemVerif.Props.C13
open AbtemVerif.Polar AbtemVerif.Py AbtemVerif.Gen.PolarIntegrate

/-! ### helper lemmas -/

lemma pyInt_intCast (i : Int) : pyInt (i : Rat) = i := by
  unfold pyInt; split <;> simp [Rat.floor_intCast, Rat.ceil_intCast]

lemma pyFloor_int_add_half (i : Int) : pyFloor ((i : Rat) + 1 / 2) = i := by
  unfold pyFloor
  show ⌊(i : ℚ) + 1 / 2⌋ = i
  rw [Int.floor_eq_iff]
  constructor <;> norm_num

/-- `_limit_to_bin_index` maps a limit lying exactly on bin edge `i` to `i` (simp-normal form of the argument). -/
lemma aligned_index (S : Rat) (hS : S ≠ 0) (i : Nat) (off : Rat) :
    limitToBinIndex (off + (i : Rat) * S) off S = (i : Int) := by
  have hq : (off + (i : Rat) * S - off) / S = ((i : Int) : Rat) := by
    field_simp; push_cast; ring
  unfold limitToBinIndex
  simp only [hq]
  have hfl : pyFloor (((i : Int) : Rat) + (1 : Rat) / 2) = (i : Int) := pyFloor_int_add_half i
  simp only [hfl]
  have habs : pyAbs (((i : Int) : Rat) - (((i : Int) : Int) : Rat)) = 0 := by simp [pyAbs]
  have hnn : (0 : Rat) ≤ (1 : Rat) / 1000000000 * max (1 : Rat) (pyAbs ((i : Int) : Rat)) := by
    apply mul_nonneg (by norm_num)
    exact le_trans (by norm_num) (le_max_left _ _)
  simp only [habs, hnn, decide_true, if_true]
  exact pyInt_intCast _

lemma pySlice_nat (i j n : Nat) (hi : i ≤ n) (hj : j ≤ n) :
    pySlice (i : Int) (j : Int) n = (i, j) := by
  unfold pySlice
  simp only [Prod.mk.injEq]
  constructor
  · have : ¬ ((i : Int) < 0) := by omega
    simp [this]; omega
  · have : ¬ ((j : Int) < 0) := by omega
    simp [this]; omega

lemma max_neg_nat (k : Nat) : max (-(k : Int)) 0 = 0 := by omega
lemma max_nat (i : Nat) : max (i : Int) 0 = (i : Int) := by omega
lemma pySlice_zero_nat (j n : Nat) (hj : j ≤ n) : pySlice 0 (j : Int) n = (0, j) := by
  have := pySlice_nat 0 j n (Nat.zero_le _) hj
  simpa using this

lemma foldl_add_shift (l : List Int) (a : Int) : l.foldl (· + ·) a = a + l.foldl (· + ·) 0 := by
  induction l generalizing a with
  | nil => simp
  | cons x xs ih => simp only [List.foldl_cons]; rw [ih (a + x), ih (0 + x)]; ring

lemma sumRange_succ (f : Nat → Int) (a b : Nat) (h : a ≤ b) :
    sumRange f a (b + 1) = sumRange f a b + f b := by
  unfold sumRange
  have : b + 1 - a = (b - a) + 1 := by omega
  rw [this, List.range_succ, List.map_append, List.foldl_append]
  simp only [List.map_cons, List.map_nil, List.foldl_cons, List.foldl_nil]
  congr 2; omega

/-- additivity of the half-open range sum -/
lemma sumRange_split (f : Nat → Int) (a b c : Nat) (hab : a ≤ b) (hbc : b ≤ c) :
    sumRange f a c = sumRange f a b + sumRange f b c := by
  induction c, hbc using Nat.le_induction with
  | base => simp [sumRange]
  | succ c hbc ih =>
    rw [sumRange_succ f a c (le_trans hab hbc), sumRange_succ f b c hbc, ih]; ring

/-! ### property theorems -/

/-- Integrating without limits selects every bin. -/
theorem no_limits_is_total (p : Params) (nr na : Nat) :
    select p nr na none none = .ok (0, nr, 0, na) := by
  simp [select]

/-- Radial limits on bin edges `off + i₀·S`, `off + i₁·S` select exactly the bins `i₀ ≤ i < i₁`
(and all azimuthal bins). -/
theorem radial_aligned (p : Params) (nr na i₀ i₁ : Nat) (hS : p.radial_sampling ≠ 0) (h01 : i₀ ≤ i₁) (h1 : i₁ ≤ nr) :
    select p nr na (some (p.radial_offset + i₀ * p.radial_sampling, p.radial_offset + i₁ * p.radial_sampling)) none
      = .ok (i₀, i₁, 0, na) := by
  have hgt : ¬ ((i₁ : Int) > (nr : Int)) := by omega
  simp [select, innerIndex, outerIndex, radialExceeded, radialLo, radialHi, aligned_index _ hS _ _, pySlice_nat i₀ i₁ nr (le_trans h01 h1) h1, hgt]

/-- Azimuthal limits on bin edges `aoff + j₀·A`, `aoff + j₁·A` select exactly the bins `j₀ ≤ j < j₁`
(and all radial bins). -/
theorem azimuthal_aligned (p : Params) (nr na j₀ j₁ : Nat) (hA : p.azimuthal_sampling ≠ 0) (h01 : j₀ ≤ j₁) (h1 : j₁ ≤ na) :
    select p nr na none (some (p.azimuthal_offset + j₀ * p.azimuthal_sampling, p.azimuthal_offset + j₁ * p.azimuthal_sampling))
      = .ok (0, nr, j₀, j₁) := by
  simp [select, leftIndex, rightIndex, azimuthalLo, azimuthalHi, aligned_index _ hA _ _, pySlice_nat j₀ j₁ na (le_trans h01 h1) h1]

/-- Both limits at once: exactly the bins in the product of the two index ranges. -/
theorem both_aligned (p : Params) (nr na i₀ i₁ j₀ j₁ : Nat) (hS : p.radial_sampling ≠ 0) (hA : p.azimuthal_sampling ≠ 0)
    (hi : i₀ ≤ i₁) (hi1 : i₁ ≤ nr) (hj : j₀ ≤ j₁) (hj1 : j₁ ≤ na) :
    select p nr na (some (p.radial_offset + i₀ * p.radial_sampling, p.radial_offset + i₁ * p.radial_sampling))
        (some (p.azimuthal_offset + j₀ * p.azimuthal_sampling, p.azimuthal_offset + j₁ * p.azimuthal_sampling))
      = .ok (i₀, i₁, j₀, j₁) := by
  have hgt : ¬ ((i₁ : Int) > (nr : Int)) := by omega
  simp [select, innerIndex, outerIndex, leftIndex, rightIndex, radialExceeded, radialLo, radialHi, azimuthalLo, azimuthalHi,
    aligned_index _ hS _ _, aligned_index _ hA _ _, pySlice_nat i₀ i₁ nr (le_trans hi hi1) hi1,
    pySlice_nat j₀ j₁ na (le_trans hj hj1) hj1, hgt]

/-- An outer radial limit beyond the last bin edge is rejected (the code raises RuntimeError). -/
theorem radial_exceeded_rejected (p : Params) (nr na i₀ i₁ : Nat) (hS : p.radial_sampling ≠ 0) (h1 : nr < i₁)
    (al : Option (Rat × Rat)) :
    select p nr na (some (p.radial_offset + i₀ * p.radial_sampling, p.radial_offset + i₁ * p.radial_sampling)) al
      = .error "runtime_error" := by
  have hgt : ((i₁ : Int) > (nr : Int)) := by omega
  simp [select, outerIndex, radialExceeded, aligned_index _ hS _ _, hgt]

/-- `_limit_to_bin_index` on an edge below the first one: the index is the negative edge number … -/
lemma aligned_index_neg (S : Rat) (hS : S ≠ 0) (i : Nat) (off : Rat) :
    limitToBinIndex (off - (i : Rat) * S) off S = -(i : Int) := by
  have hq : (off - (i : Rat) * S - off) / S = (((-(i : Int)) : Int) : Rat) := by
    field_simp; push_cast; ring
  unfold limitToBinIndex
  simp only [hq]
  have hfl : pyFloor ((((-(i : Int)) : Int) : Rat) + (1 : Rat) / 2) = -(i : Int) := pyFloor_int_add_half _
  simp only [hfl]
  have habs : pyAbs ((((-(i : Int)) : Int) : Rat) - (((-(i : Int)) : Int) : Rat)) = 0 := by simp [pyAbs]
  have hnn : (0 : Rat) ≤ (1 : Rat) / 1000000000 * max (1 : Rat) (pyAbs (((-(i : Int)) : Int) : Rat)) := by
    apply mul_nonneg (by norm_num)
    exact le_trans (by norm_num) (le_max_left _ _)
  simp only [habs, hnn, decide_true, if_true]
  exact pyInt_intCast _

/-- … so limits on lattice edges BELOW the first bin edge select exactly the bins inside the limits, i.e. from the first
bin on (before fix the negative index was read from the end of the axis and the sum was silently empty or wrong). -/
theorem radial_below_range_selects_from_first_bin (p : Params) (nr na k i₁ : Nat) (hS : p.radial_sampling ≠ 0) (h1 : i₁ ≤ nr) :
    select p nr na (some (p.radial_offset - k * p.radial_sampling, p.radial_offset + i₁ * p.radial_sampling)) none
      = .ok (0, i₁, 0, na) := by
  have hgt : ¬ ((i₁ : Int) > (nr : Int)) := by omega
  simp [select, innerIndex, outerIndex, radialExceeded, radialLo, radialHi, aligned_index _ hS _ _, aligned_index_neg _ hS _ _,
    max_neg_nat, max_nat, pySlice_zero_nat i₁ nr h1, hgt]

/-- the same for the azimuthal direction -/
theorem azimuthal_below_range_selects_from_first_bin (p : Params) (nr na k j₁ : Nat) (hA : p.azimuthal_sampling ≠ 0) (h1 : j₁ ≤ na) :
    select p nr na none (some (p.azimuthal_offset - k * p.azimuthal_sampling, p.azimuthal_offset + j₁ * p.azimuthal_sampling))
      = .ok (0, nr, 0, j₁) := by
  simp [select, leftIndex, rightIndex, azimuthalLo, azimuthalHi, aligned_index _ hA _ _, aligned_index_neg _ hA _ _,
    max_neg_nat, max_nat, pySlice_zero_nat j₁ na h1]

/-- Robustness of the edge index (what distinguishes the repaired code from plain truncation): a quotient within
`1e-9·max(1,|x|)` of an integer `i` (and closer than 1/2) maps to `i`, from either side. -/
theorem limitToBinIndex_near (lim off S : Rat) (i : Int)
    (hnear : pyAbs ((lim - off) / S - i) ≤ (1 : Rat) / 1000000000 * max (1 : Rat) (pyAbs ((lim - off) / S)))
    (hhalf : pyAbs ((lim - off) / S - i) < 1 / 2) :
    limitToBinIndex lim off S = i := by
  unfold limitToBinIndex
  set x : Rat := (lim - off) / S with hx
  have hfl : pyFloor (x + (1 : Rat) / 2) = i := by
    unfold pyFloor
    show ⌊x + 1 / 2⌋ = i
    rw [Int.floor_eq_iff]
    unfold pyAbs at hhalf
    split_ifs at hhalf with h <;> constructor <;> push_cast <;> linarith
  simp only [hfl, hnear, decide_true, if_true]
  exact pyInt_intCast _

/-- plain truncation (the code before fix 7d5491e6) does NOT have this property: 3 − 10⁻¹² truncates to 2 -/
example : pyInt ((3 : Rat) - 1 / 1000000000000) = 2 ∧ limitToBinIndex ((3 : Rat) - 1 / 1000000000000) 0 1 = 3 := by
  decide +kernel

/-- The value returned for aligned limits is the sum of exactly the selected bins. -/
theorem integrate_aligned_value (p : Params) (nr na i₀ i₁ j₀ j₁ : Nat) (bins : Nat → Nat → Int)
    (hS : p.radial_sampling ≠ 0) (hA : p.azimuthal_sampling ≠ 0)
    (hi : i₀ ≤ i₁) (hi1 : i₁ ≤ nr) (hj : j₀ ≤ j₁) (hj1 : j₁ ≤ na) :
    integrate p nr na bins (some (p.radial_offset + i₀ * p.radial_sampling, p.radial_offset + i₁ * p.radial_sampling))
        (some (p.azimuthal_offset + j₀ * p.azimuthal_sampling, p.azimuthal_offset + j₁ * p.azimuthal_sampling))
      = .ok (sumRange (fun i => sumRange (fun j => bins i j) j₀ j₁) i₀ i₁) := by
  unfold integrate
  rw [both_aligned p nr na i₀ i₁ j₀ j₁ hS hA hi hi1 hj hj1]; rfl

/-- Integrating over a partition of the azimuthal range sums to the integral over the union. -/
theorem azimuthal_partition_additive (bins : Nat → Nat → Int) (r₀ r₁ j₀ j₁ j₂ : Nat) (h01 : j₀ ≤ j₁) (h12 : j₁ ≤ j₂) :
    sumRange (fun i => sumRange (fun j => bins i j) j₀ j₂) r₀ r₁
      = sumRange (fun i => sumRange (fun j => bins i j) j₀ j₁) r₀ r₁
        + sumRange (fun i => sumRange (fun j => bins i j) j₁ j₂) r₀ r₁ := by
  have h : ∀ i, sumRange (fun j => bins i j) j₀ j₂
      = sumRange (fun j => bins i j) j₀ j₁ + sumRange (fun j => bins i j) j₁ j₂ :=
    fun i => sumRange_split _ _ _ _ h01 h12
  simp only [h]
  by_cases hr : r₀ ≤ r₁
  · induction r₁, hr using Nat.le_induction with
    | base => simp [sumRange]
    | succ c hc ih => rw [sumRange_succ _ _ _ hc, sumRange_succ _ _ _ hc, sumRange_succ _ _ _ hc, ih]; ring
  · have : r₁ - r₀ = 0 := by omega
    simp [sumRange, this]

/-- Integrating over a partition of the radial range sums to the integral over the union. -/
theorem radial_partition_additive (g : Nat → Int) (i₀ i₁ i₂ : Nat) (h01 : i₀ ≤ i₁) (h12 : i₁ ≤ i₂) :
    sumRange g i₀ i₂ = sumRange g i₀ i₁ + sumRange g i₁ i₂ :=
  sumRange_split g _ _ _ h01 h12

/-! ### non-vacuity: concrete instances of the hypotheses and conclusions -/
example : select ⟨5, 2, 1/4, 1/2⟩ 3 4 (some (5 + 1 * 2, 5 + 3 * 2)) (some (1/4 + 1 * (1/2), 1/4 + 3 * (1/2)))
    = .ok (1, 3, 1, 3) := by decide +kernel
example : integrate ⟨0, 1, 0, 1/2⟩ 3 4 (fun i j => (4 * i + j + 1 : Nat)) (some (1, 3)) (some (1/2, 3/2))
    = .ok 34 := by decide +kernel

end AbtemVerif.Props.C13
