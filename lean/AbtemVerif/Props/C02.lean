/-
C02 — a frozen-phonon ensemble equals independent per-configuration simulations.

Loop model: `Multislice.multisliceAndDetect` (kernels `step`/`detect` uninterpreted, branch tests generated from the source);
after the repair of DESIGN §7 F1 (/repo fix: every configuration restarts from the incident wave) `configLoop` passes the
incident wave `w0` to every configuration.  Seed model: `Phonons.partitionSeeds/configSeeds`.
Quantifiers: every `step`, `detect`, incident wave, number of configurations, slice sequences, exit-plane tuple of the
documented form; every seed tuple and every chunking that covers it.
-/
import AbtemVerif.Lib.Multislice
import AbtemVerif.Lib.Partition
import AbtemVerif.Model.Phonons
import AbtemVerif.Props.C07

namespace AbtemVerif.Props.C02
open AbtemVerif.Multislice AbtemVerif.ExitPlanes AbtemVerif.Gen.ExitPlanes AbtemVerif.Phonons AbtemVerif.Partition
variable {W S M α : Type}

/-! ### the loops -/

/-- **C02 main theorem.**  For every step and detect kernel, every incident wave, every ensemble of two or more
configurations (arbitrary slice sequences) and every exit-plane tuple of the documented form: the entry recorded for
configuration `c` at an exit plane is `detect` of the wave obtained by propagating **the incident wave** through the
first slices of configuration `c` only — exactly what an independent run through that configuration records
(`Props.C07.exit_plane_result`); the entrance-plane entry of every configuration is the detected incident wave. -/
theorem ensemble_result (step : W → S → W) (detect : W → M) (w0 : W) (p : Pot S) (ent : Bool) (ps : List Nat)
    (hp : p.planes = natPlanes ent ps) (hens : p.ensAxis = true) (hmulti : 2 ≤ p.configs.length)
    (hs : ps.Pairwise (· < ·)) (hb : ∀ cfg ∈ p.configs, ∀ q ∈ ps, q < cfg.length) (hne : ent = true ∨ ps ≠ []) :
    ∃ out, multisliceAndDetect step detect w0 p = .ok out ∧
      ∀ (c : Nat) (hc : c < p.configs.length),
        (ent = true → out.get (measurementIndex p c 0) = some (detect w0)) ∧
        ∀ (j : Nat) (hj : j < ps.length),
          out.get (measurementIndex p c (startIndex ent + j))
            = some (detect (waveAt step w0 p.configs[c] (ps[j] + 1))) := by
  obtain ⟨first, tl, hf⟩ : ∃ first tl, natPlanes ent ps = first :: tl := by
    cases ent
    · cases ps with
      | nil => simp at hne
      | cons q qs => exact ⟨_, _, rfl⟩
    · exact ⟨_, _, rfl⟩
  have hlen : p.planes.length = startIndex ent + ps.length := by rw [hp]; exact length_natPlanes ent ps
  have hnot : mNoTable (((extraShape p).foldl (· + ·) 0 : Nat) : Int) ((first :: tl).getLastD 0) (p.nslices : Int) = false := by
    rw [Bool.eq_false_iff]
    intro h
    obtain ⟨htot, _⟩ := (mNoTable_iff _ _ _).mp h
    rw [total_extraShape, hens] at htot
    simp only [if_true] at htot
    omega
  rw [msd_eq step detect w0 p first tl (hp.trans hf), hnot]
  simp only [Bool.false_eq_true, if_false]
  rw [configLoop_spec step detect p ent ps first tl w0 hp hf hs p.configs w0 0 (fun _ => rfl) hb]
  refine ⟨_, rfl, fun c hc => ⟨?_, ?_⟩⟩
  · intro he
    apply get_table
    · rw [keys_ensembleWrites]; exact nodup_keys_ensemble p hens _ _ hlen
    · apply mem_ensembleWrites step detect p ent ps w0 p.configs c hc
      subst he; simp [configWrites]
  · intro j hj
    apply get_table
    · rw [keys_ensembleWrites]; exact nodup_keys_ensemble p hens _ _ hlen
    · apply mem_ensembleWrites step detect p ent ps w0 p.configs c hc
      exact List.mem_append_right _ (mem_planeWrites step detect _ w0 _ ps _ j hj)


/-- **The same from the entry of `multislice_and_detect`, for incident waves handed over in either representation**
(`recip`: reciprocal space; `toReal`: the uninterpreted inverse transform of `ensure_real_space`): every configuration starts
from the incident wave *after* the representation change, never from the wave as handed over. -/
theorem ensemble_result_from (step : W → S → W) (detect : W → M) (toReal : W → W) (recip : Bool) (w : W) (p : Pot S)
    (ent : Bool) (ps : List Nat)
    (hp : p.planes = natPlanes ent ps) (hens : p.ensAxis = true) (hmulti : 2 ≤ p.configs.length)
    (hs : ps.Pairwise (· < ·)) (hb : ∀ cfg ∈ p.configs, ∀ q ∈ ps, q < cfg.length) (hne : ent = true ∨ ps ≠ []) :
    ∃ out, multisliceAndDetectFrom step detect toReal recip w p = .ok out ∧
      ∀ (c : Nat) (hc : c < p.configs.length),
        (ent = true → out.get (measurementIndex p c 0) = some (detect (ensureReal toReal recip w))) ∧
        ∀ (j : Nat) (hj : j < ps.length),
          out.get (measurementIndex p c (startIndex ent + j))
            = some (detect (waveAt step (ensureReal toReal recip w) p.configs[c] (ps[j] + 1))) :=
  ensemble_result step detect (ensureReal toReal recip w) p ent ps hp hens hmulti hs hb hne

/-- handing the incident wave over in reciprocal space is the same as handing over its real-space transform -/
theorem representation_indep (step : W → S → W) (detect : W → M) (toReal : W → W) (w : W) (p : Pot S) :
    multisliceAndDetectFrom step detect toReal true w p = multisliceAndDetectFrom step detect toReal false (toReal w) p := rfl

/-- Entry `(c, plane j)` of the ensemble run equals entry `(plane j)` of the independent run through a potential that
consists of configuration `c` alone (same exit planes, same incident wave). -/
theorem config_result_eq_single_run (step : W → S → W) (detect : W → M) (w0 : W) (p : Pot S) (ent : Bool) (ps : List Nat)
    (hp : p.planes = natPlanes ent ps) (hens : p.ensAxis = true) (hmulti : 2 ≤ p.configs.length)
    (hs : ps.Pairwise (· < ·)) (hb : ∀ cfg ∈ p.configs, ∀ q ∈ ps, q < cfg.length) (hne : ent = true ∨ ps ≠ [])
    (c : Nat) (hc : c < p.configs.length) :
    ∃ out out1, multisliceAndDetect step detect w0 p = .ok out ∧
      multisliceAndDetect step detect w0 ⟨p.ensAxis, p.planes, p.configs[c].length, [p.configs[c]]⟩ = .ok out1 ∧
      (ent = true → out.get (measurementIndex p c 0)
          = out1.get (measurementIndex ⟨p.ensAxis, p.planes, p.configs[c].length, [p.configs[c]]⟩ 0 0)) ∧
      ∀ (j : Nat) (_ : j < ps.length),
        out.get (measurementIndex p c (startIndex ent + j))
          = out1.get (measurementIndex ⟨p.ensAxis, p.planes, p.configs[c].length, [p.configs[c]]⟩ 0 (startIndex ent + j)) := by
  obtain ⟨out, h1, h2⟩ := ensemble_result step detect w0 p ent ps hp hens hmulti hs hb hne
  obtain ⟨out1, g1, g2, g3⟩ := C07.exit_plane_result step detect w0
    ⟨p.ensAxis, p.planes, p.configs[c].length, [p.configs[c]]⟩ ent ps p.configs[c] hp rfl rfl hs
    (hb _ (List.getElem_mem hc)) hne
  refine ⟨out, out1, h1, g1, ?_, ?_⟩
  · intro he; rw [(h2 c hc).1 he, g2 he]
  · intro j hj; rw [(h2 c hc).2 j hj, g3 j hj]

/-- The per-configuration entries at one exit plane, as a list over the ensemble axis. -/
theorem ensemble_plane_entries (step : W → S → W) (detect : W → M) (w0 : W) (p : Pot S) (ent : Bool) (ps : List Nat)
    (hp : p.planes = natPlanes ent ps) (hens : p.ensAxis = true) (hmulti : 2 ≤ p.configs.length)
    (hs : ps.Pairwise (· < ·)) (hb : ∀ cfg ∈ p.configs, ∀ q ∈ ps, q < cfg.length) (hne : ent = true ∨ ps ≠ [])
    (j : Nat) (hj : j < ps.length) :
    ∃ out, multisliceAndDetect step detect w0 p = .ok out ∧
      (List.range p.configs.length).map (fun c => out.get (measurementIndex p c (startIndex ent + j)))
        = p.configs.map (fun cfg => some (detect (waveAt step w0 cfg (ps[j] + 1)))) := by
  obtain ⟨out, h1, h2⟩ := ensemble_result step detect w0 p ent ps hp hens hmulti hs hb hne
  refine ⟨out, h1, ?_⟩
  apply List.ext_getElem (by simp)
  intro c h1' h2'
  simp only [List.getElem_map, List.getElem_range]
  exact (h2 c (by simpa using h1')).2 j hj

/-- Corollary by congruence (no content beyond `ensemble_plane_entries`): any function `avg` of the per-configuration list
gives the same value on the ensemble run and on the independent single-configuration results.  `reduce_ensemble` itself
(which axes are averaged, intensities vs. complex waves) is NOT modelled; that clause of the property is checked by the
numeric oracle only. -/
theorem mean_eq_mean_of_singles {X : Type} (avg : List (Option M) → X) (step : W → S → W) (detect : W → M) (w0 : W)
    (p : Pot S) (ent : Bool) (ps : List Nat)
    (hp : p.planes = natPlanes ent ps) (hens : p.ensAxis = true) (hmulti : 2 ≤ p.configs.length)
    (hs : ps.Pairwise (· < ·)) (hb : ∀ cfg ∈ p.configs, ∀ q ∈ ps, q < cfg.length) (hne : ent = true ∨ ps ≠ [])
    (j : Nat) (hj : j < ps.length) :
    ∃ out, multisliceAndDetect step detect w0 p = .ok out ∧
      avg ((List.range p.configs.length).map (fun c => out.get (measurementIndex p c (startIndex ent + j))))
        = avg (p.configs.map (fun cfg => some (detect (waveAt step w0 cfg (ps[j] + 1))))) := by
  obtain ⟨out, h1, h2⟩ := ensemble_plane_entries step detect w0 p ent ps hp hens hmulti hs hb hne j hj
  exact ⟨out, h1, congrArg avg h2⟩

/-- The result of a configuration does not depend on its position in the ensemble (processing order): if configuration
`c'` of a second ensemble has the same slices as configuration `c` of the first, their entries agree. -/
theorem config_entry_indep_of_position (step : W → S → W) (detect : W → M) (w0 : W) (p p' : Pot S) (ent : Bool)
    (ps : List Nat) (hp : p.planes = natPlanes ent ps) (hp' : p'.planes = natPlanes ent ps)
    (hens : p.ensAxis = true) (hens' : p'.ensAxis = true) (hmulti : 2 ≤ p.configs.length) (hmulti' : 2 ≤ p'.configs.length)
    (hs : ps.Pairwise (· < ·)) (hb : ∀ cfg ∈ p.configs, ∀ q ∈ ps, q < cfg.length)
    (hb' : ∀ cfg ∈ p'.configs, ∀ q ∈ ps, q < cfg.length) (hne : ent = true ∨ ps ≠ [])
    (c c' : Nat) (hc : c < p.configs.length) (hc' : c' < p'.configs.length) (hsame : p'.configs[c'] = p.configs[c]) :
    ∃ out out', multisliceAndDetect step detect w0 p = .ok out ∧ multisliceAndDetect step detect w0 p' = .ok out' ∧
      ∀ (j : Nat) (_ : j < ps.length),
        out'.get (measurementIndex p' c' (startIndex ent + j)) = out.get (measurementIndex p c (startIndex ent + j)) := by
  obtain ⟨out, h1, h2⟩ := ensemble_result step detect w0 p ent ps hp hens hmulti hs hb hne
  obtain ⟨out', h1', h2'⟩ := ensemble_result step detect w0 p' ent ps hp' hens' hmulti' hs hb' hne
  refine ⟨out, out', h1, h1', fun j hj => ?_⟩
  rw [(h2 c hc).2 j hj, (h2' c' hc').2 j hj, hsame]

/-! ### the seeds -/

theorem partitionSeeds_eq_splitBy (cs : List Nat) (seeds : List α) : partitionSeeds cs seeds = splitBy cs seeds := by
  unfold partitionSeeds; rw [splitBy_eq_map_ranges]

theorem splitBy_ones (xs : List α) : splitBy (ones xs.length) xs = xs.map fun x => [x] := by
  induction xs with
  | nil => rfl
  | cons x xs ih =>
    simp only [ones, List.length_cons, List.replicate_succ, splitBy_cons, List.take_succ_cons, List.take_zero,
      List.drop_succ_cons, List.drop_zero, List.map_cons]
    rw [← ih]; rfl

/-- inside a block, re-splitting into single configurations and reading `seed[0]` uses every seed of the block once, in order -/
theorem blockConfigSeeds_eq (block : List α) : blockConfigSeeds block = block := by
  unfold blockConfigSeeds
  rw [partitionSeeds_eq_splitBy, splitBy_ones, List.filterMap_map]
  induction block with
  | nil => rfl
  | cons x xs ih => simp [randomizeSeed, ih] 

/-- **Configuration `i` is randomised with `seeds[i]`** — for every outer chunking that covers the ensemble (every lazy block
layout, `build(chunks)`, `ensemble_blocks(chunks)`), and hence in both evaluation modes. -/
theorem seed_of_config (chunks : List Nat) (seeds : List α) (h : seeds.length ≤ chunks.sum) :
    configSeeds chunks seeds = seeds := by
  unfold configSeeds
  rw [partitionSeeds_eq_splitBy]
  have : (splitBy chunks seeds).flatMap blockConfigSeeds = (splitBy chunks seeds).flatten := by
    rw [List.flatMap_def]; congr 1
    exact List.map_congr_left (fun b _ => blockConfigSeeds_eq b) |>.trans (List.map_id _)
  rw [this, flatten_splitBy chunks seeds h]

/-- the seeds used do not depend on the chunking -/
theorem seed_of_config_indep (c1 c2 : List Nat) (seeds : List α) (h1 : seeds.length ≤ c1.sum) (h2 : seeds.length ≤ c2.sum) :
    configSeeds c1 seeds = configSeeds c2 seeds := by
  rw [seed_of_config c1 seeds h1, seed_of_config c2 seeds h2]

/-- the blocks handed out by `_partition_args` are consecutive, disjoint and cover all seeds -/
theorem partition_covers (chunks : List Nat) (seeds : List α) (h : seeds.length ≤ chunks.sum) :
    (partitionSeeds chunks seeds).flatten = seeds := by
  rw [partitionSeeds_eq_splitBy, flatten_splitBy chunks seeds h]


/-! ### non-vacuity -/
example : (multisliceAndDetect hstep hdetect [] ⟨true, natPlanes true [1], 2, [[1, 2], [3, 4]]⟩).toOption.bind
    (fun o => o.get [1, 0]) = some [] := by decide
example : (multisliceAndDetect hstep hdetect [] ⟨true, natPlanes true [1], 2, [[1, 2], [3, 4]]⟩).toOption.bind
    (fun o => o.get [1, 1]) = some [3, 4] := by decide
example : (multisliceAndDetectFrom hstep hdetect htoReal true [] ⟨true, natPlanes true [1], 2, [[1, 2], [3, 4]]⟩).toOption.bind
    (fun o => o.get [1, 0]) = some [0] := by decide
example : configSeeds [2, 1] [11, 22, 33] = [11, 22, 33] := by decide
example : partitionSeeds [2, 1] [11, 22, 33] = [[11, 22], [33]] := by decide

/-- non-vacuity with the hypotheses of `ensemble_result` instantiated -/
example : ∃ out, multisliceAndDetect hstep hdetect [] ⟨true, natPlanes true [1], 2, [[1, 2], [3, 4]]⟩ = .ok out ∧
    ∀ (c : Nat) (hc : c < 2), (true = true → out.get (measurementIndex ⟨true, natPlanes true [1], 2, [[1, 2], [3, 4]]⟩ c 0)
        = some (hdetect [])) ∧ ∀ (j : Nat) (hj : j < 1),
      out.get (measurementIndex ⟨true, natPlanes true [1], 2, [[1, 2], [3, 4]]⟩ c (startIndex true + j))
        = some (hdetect (waveAt hstep [] ([[1, 2], [3, 4]][c]) ([1][j] + 1))) :=
  ensemble_result hstep hdetect [] ⟨true, natPlanes true [1], 2, [[1, 2], [3, 4]]⟩ true [1] rfl rfl (by decide) (by decide)
    (by decide) (Or.inl rfl)

end AbtemVerif.Props.C02
