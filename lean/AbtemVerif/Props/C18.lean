/-
C18 — Chunk computations partition arrays exactly (abtem/core/chunks.py).

Statements are about `AbtemVerif.Chunks.*` (Model/Chunks.lean), whose arithmetic — the equal-sized split, the
fill-in of integer chunk sizes, the (start, stop) pair of a chunk, the bump / limit test / zero test of the
`_auto_chunks` loop — is the *generated* `Gen/Chunks.lean`, regenerated from the Python source on every run.
Quantifiers: every shape (any number of dimensions, any ints), every chunk argument, every element limit.
-/
import AbtemVerif.Model.Chunks
import AbtemVerif.Lib.Partition
import Mathlib.Tactic.Ring
import Mathlib.Tactic.Linarith
import Mathlib.Data.List.Forall2
import Mathlib.Data.Rat.Floor
import Mathlib.Algebra.BigOperators.Group.List.Basic
import Mathlib.Algebra.Order.BigOperators.Group.List

namespace AbtemVerif.Props.C18
open AbtemVerif.Chunks AbtemVerif.Py AbtemVerif.Gen.Chunks AbtemVerif

/-! ### helpers -/

lemma pyFloorDiv_pos (a b : Int) (hb : 0 < b) : pyFloorDiv a b = a / b :=
  Int.fdiv_eq_ediv_of_nonneg a (le_of_lt hb)
lemma pyMod_pos (a b : Int) (hb : 0 < b) : pyMod a b = a % b :=
  Int.fmod_eq_emod_of_nonneg a (le_of_lt hb)

lemma pyRepeat_singleton (x n : Int) : pyRepeat [x] n = List.replicate n.toNat x := by
  unfold pyRepeat
  induction n.toNat with
  | zero => rfl
  | succ k ih => simp [List.replicate_succ, ih]

lemma sum_replicate_int (k : Nat) (x : Int) : (List.replicate k x).sum = k * x := by
  induction k with
  | zero => simp
  | succ k ih => simp [List.replicate_succ, ih]; ring

lemma mapM_ok {α β : Type} (f : α → Except String β) (xs : List α) (ys : List β) (h : xs.mapM f = .ok ys) :
    List.Forall₂ (fun x y => f x = .ok y) xs ys := by
  induction xs generalizing ys with
  | nil => simp [pure, Except.pure] at h; subst h; exact .nil
  | cons x xs ih =>
    rw [List.mapM_cons] at h
    cases hx : f x with
    | error e => simp [hx, bind, Except.bind] at h
    | ok y =>
      cases hxs : xs.mapM f with
      | error e => simp [hx, hxs, bind, Except.bind] at h
      | ok ys' =>
        simp [hx, hxs, bind, Except.bind, pure, Except.pure] at h
        subst h
        exact .cons hx (ih ys' hxs)

/-! ### chunk ranges -/

/-- consecutive `(start, stop)` pairs from running start `a` -/
def runsFrom (a : Int) : List Int → List (Int × Int)
  | [] => []
  | x :: xs => (a, a + x) :: runsFrom (a + x) xs

lemma chunkRanges_aux (a : Int) (c : List Int) :
    (c.zip (accumulateFrom a c)).map (fun (p : Int × Int) => rangeOf p.1 p.2) = runsFrom a c := by
  induction c generalizing a with
  | nil => rfl
  | cons x xs ih =>
    simp only [accumulateFrom, List.zip_cons_cons, List.map_cons, runsFrom]
    rw [ih (a + x)]
    simp only [rangeOf, List.cons.injEq, Prod.mk.injEq, and_true]
    ring

/-- `chunk_ranges` of one dimension lists `(S_i, S_i + c_i)` for the running sums `S_i`. -/
theorem chunkRanges1_eq (c : List Int) : chunkRanges1 c = runsFrom 0 c := by
  unfold chunkRanges1; exact chunkRanges_aux 0 c

theorem runs_eq (a : Int) (c : List Int) : runs a c = runsFrom a c := by
  induction c generalizing a with
  | nil => rfl
  | cons x xs ih => simp [runs, runsFrom, genEnd, ih]

lemma runsFrom_length (a : Int) (c : List Int) : (runsFrom a c).length = c.length := by
  induction c generalizing a with
  | nil => rfl
  | cons x xs ih => simp [runsFrom, ih]

lemma runsFrom_getElem (a : Int) (c : List Int) (i : Nat) (h : i < c.length) :
    (runsFrom a c)[i]'(by rw [runsFrom_length]; exact h) = (a + (c.take i).sum, a + (c.take i).sum + c[i]) := by
  induction c generalizing a i with
  | nil => simp at h
  | cons x xs ih =>
    cases i with
    | zero => simp [runsFrom]
    | succ i =>
      simp only [runsFrom, List.getElem_cons_succ, List.take_succ_cons, List.sum_cons]
      rw [ih (a + x) i (by simpa using h)]
      simp only [Prod.mk.injEq]; constructor <;> ring

/-- Chunk ranges are contiguous and cover the dimension — for **every** int list (also with zero or negative entries):
widths are the chunk sizes, each range starts where the previous one stopped, the first starts at 0 and the last
stops at the total. -/
theorem ranges_contiguous_cover (c : List Int) :
    (chunkRanges1 c).length = c.length ∧
    (∀ i (h : i < c.length), ((chunkRanges1 c)[i]'(by rw [chunkRanges1_eq, runsFrom_length]; exact h)).2
        - ((chunkRanges1 c)[i]'(by rw [chunkRanges1_eq, runsFrom_length]; exact h)).1 = c[i]) ∧
    (∀ i (h : i + 1 < c.length), ((chunkRanges1 c)[i]'(by rw [chunkRanges1_eq, runsFrom_length]; omega)).2
        = ((chunkRanges1 c)[i + 1]'(by rw [chunkRanges1_eq, runsFrom_length]; exact h)).1) ∧
    (∀ (h : 0 < c.length), ((chunkRanges1 c)[0]'(by rw [chunkRanges1_eq, runsFrom_length]; exact h)).1 = 0) ∧
    (∀ (h : 0 < c.length), ((chunkRanges1 c)[c.length - 1]'(by rw [chunkRanges1_eq, runsFrom_length]; omega)).2 = c.sum) := by
  simp only [chunkRanges1_eq]
  refine ⟨runsFrom_length 0 c, ?_, ?_, ?_, ?_⟩
  · intro i h; rw [runsFrom_getElem 0 c i h]; simp
  · intro i h
    rw [runsFrom_getElem 0 c i (by omega), runsFrom_getElem 0 c (i + 1) h]
    simp only [zero_add]
    rw [List.take_succ_eq_append_getElem (by omega : i < c.length), List.sum_append, List.sum_singleton]
  · intro h; rw [runsFrom_getElem 0 c 0 h]; simp
  · intro h
    rw [runsFrom_getElem 0 c (c.length - 1) (by omega)]
    simp only [zero_add]
    have h1 := List.take_succ_eq_append_getElem (l := c) (i := c.length - 1) (by omega)
    have h2 : c.length - 1 + 1 = c.length := by omega
    rw [h2, List.take_length] at h1
    conv_rhs => rw [h1, List.sum_append, List.sum_singleton]

/-- For non-negative chunk sizes the ranges are those of `Lib/Partition` (so its cover / disjointness /
re-assembly lemmas apply to `chunk_ranges`). -/
theorem chunkRanges1_nat (cs : List Nat) :
    chunkRanges1 (cs.map Int.ofNat) = (Partition.ranges cs).map fun r => ((r.1 : Int), (r.2 : Int)) := by
  rw [chunkRanges1_eq]
  unfold Partition.ranges
  have : ∀ (a : Nat), runsFrom (a : Int) (cs.map Int.ofNat)
      = (Partition.rangesFrom a cs).map fun r => ((r.1 : Int), (r.2 : Int)) := by
    induction cs with
    | nil => intro a; rfl
    | cons c cs ih =>
      intro a
      simp only [List.map_cons, runsFrom, Partition.rangesFrom]
      have := ih (a + c)
      push_cast at this ⊢
      simp [this]
  simpa using this 0

/-- `generate_chunks` yields contiguous ranges starting at `start` whose widths are the equal-sized chunks. -/
theorem generateChunks_eq (n : Int) (m cs : Option Int) (start : Int) (bs : List Int)
    (h : equalSizedChunks n m cs = .ok bs) : generateChunks n m cs start = .ok (runsFrom start bs) := by
  simp [generateChunks, h, Except.map, runs_eq]


/-! ### fill_in_chunk_sizes -/

/-- A positive integer chunk size `c` on a dimension of length `s ≥ 0` yields `s / c` chunks of size `c` plus the
remainder (if any); they sum to `s` and every chunk lies in `1..c`. -/
theorem fill_int_spec (s c : Int) (hs : 0 ≤ s) (hc : 1 ≤ c) :
    ∃ v, fillDim s (.int c) = .ok v ∧ v.sum = s ∧ (∀ x ∈ v, 1 ≤ x ∧ x ≤ c) ∧
      v = List.replicate (s / c).toNat c ++ (if s % c ≠ 0 then [s % c] else []) := by
  have hc0 : 0 < c := by omega
  have hne : c ≠ 0 := by omega
  have hw : fillIsWhole s c = false := by simp [fillIsWhole]; omega
  refine ⟨_, ?_, ?_, ?_, rfl⟩
  · simp only [fillDim, hw, hne, if_false, Bool.false_eq_true, fillFull, fillRemTest, fillRem,
      pyRepeat_singleton, pyFloorDiv_pos _ _ hc0, pyMod_pos _ _ hc0]
  · have hq : 0 ≤ s / c := Int.ediv_nonneg hs (le_of_lt hc0)
    have := Int.mul_ediv_add_emod s c
    rw [List.sum_append, sum_replicate_int, Int.toNat_of_nonneg hq]
    by_cases hr : s % c = 0
    · simp [hr] at this ⊢; linarith [mul_comm c (s / c)]
    · simp [hr]; linarith [mul_comm c (s / c)]
  · intro x hx
    rw [List.mem_append] at hx
    rcases hx with hx | hx
    · have := (List.mem_replicate.1 hx).2; omega
    · by_cases hr : s % c = 0
      · simp [hr] at hx
      · simp [hr] at hx
        have h1 := Int.emod_nonneg s hne
        have h2 := Int.emod_lt_of_pos s hc0
        omega

/-- `-1` selects the whole dimension. -/
theorem fill_whole (s : Int) : fillDim s (.int (-1)) = .ok [s] := by
  simp [fillDim, fillIsWhole]

lemma foldl_max_le (a : Int) (l : List Int) (h : ∀ x ∈ l, x ≤ a) : l.foldl max a = a := by
  induction l generalizing a with
  | nil => rfl
  | cons x xs ih =>
    have hx : x ≤ a := h x (by simp)
    simp only [List.foldl_cons, max_eq_left hx]
    exact ih a fun y hy => h y (by simp [hy])

/-- The largest block produced by an integer chunk size `1 ≤ c ≤ s` is exactly `c`: the per-dimension link between the
loop's choice and the block sizes `validate_chunks` returns (used by `auto_all_within_limit` / `auto_mixed_within_limit`,
which prove the limit clause end to end; this lemma keeps its `_partial` name because on its own it is only that link). -/
theorem fill_int_max_partial (s c : Int) (hc : 1 ≤ c) (hcs : c ≤ s) :
    ∃ v, fillDim s (.int c) = .ok v ∧ maxOf v = c := by
  obtain ⟨v, hv, _, hmem, hform⟩ := fill_int_spec s c (by omega) hc
  refine ⟨v, hv, ?_⟩
  have hq : 1 ≤ s / c := Int.le_ediv_of_mul_le (by omega) (by omega)
  have hn : (s / c).toNat = ((s / c).toNat - 1) + 1 := by omega
  rw [hform, hn, List.replicate_succ, List.cons_append]
  simp only [maxOf]
  apply foldl_max_le
  intro x hx
  have : x ∈ v := by
    rw [hform, hn, List.replicate_succ, List.cons_append]
    exact List.mem_cons_of_mem _ hx
  exact (hmem x this).2

/-! ### validate_chunks: whatever is returned matches the shape -/

lemma assertMatch_ok' (shape : List Int) (v w : Validated) (h : assertMatch shape v = .ok w) :
    w = v ∧ (∀ p ∈ shape.zip v, p.2.sum = p.1) ∧ ∀ cc ∈ v, ∀ x ∈ cc, 0 ≤ x := by
  unfold assertMatch at h
  split at h
  · simp at h
  · rename_i hneg
    split at h
    · rename_i hall
      simp only [Except.ok.injEq] at h
      refine ⟨h.symm, ?_, ?_⟩
      · intro p hp
        have := List.all_eq_true.1 hall p hp
        simpa using this
      · intro cc hcc x hx
        by_contra hlt
        apply hneg
        rw [List.any_eq_true]
        exact ⟨cc, hcc, List.any_eq_true.2 ⟨x, hx, by simp [chunkIsNegative]; omega⟩⟩
    · simp at h

lemma assertMatch_ok (shape : List Int) (v w : Validated) (h : assertMatch shape v = .ok w) :
    w = v ∧ ∀ p ∈ shape.zip v, p.2.sum = p.1 :=
  ⟨(assertMatch_ok' shape v w h).1, (assertMatch_ok' shape v w h).2.1⟩

lemma assertMatch_of (shape : List Int) (v : Validated) (hnn : ∀ cc ∈ v, ∀ x ∈ cc, 0 ≤ x)
    (hs : ∀ p ∈ shape.zip v, p.2.sum = p.1) : assertMatch shape v = .ok v := by
  unfold assertMatch
  have h1 : (v.any fun c => c.any chunkIsNegative) = false := by
    rw [List.any_eq_false]
    intro cc hcc
    rw [Bool.not_eq_true, List.any_eq_false]
    intro x hx
    have := hnn cc hcc x hx
    simp [chunkIsNegative]; omega
  have h2 : ((shape.zip v).all fun (p : Int × List Int) => decide (p.2.sum = p.1)) = true := by
    rw [List.all_eq_true]; intro p hp; simpa using hs p hp
  simp only [h1, Bool.false_eq_true, if_false]
  rw [if_pos]
  simpa using h2

lemma forall₂_of_zip {α β : Type} (R : α → β → Prop) (xs : List α) (ys : List β) (hl : xs.length = ys.length)
    (h : ∀ p ∈ xs.zip ys, R p.1 p.2) : List.Forall₂ R xs ys := by
  induction xs generalizing ys with
  | nil => cases ys with
    | nil => exact .nil
    | cons y ys => simp at hl
  | cons x xs ih => cases ys with
    | nil => simp at hl
    | cons y ys =>
      refine .cons (h (x, y) (by simp)) (ih ys (by simpa using hl) ?_)
      intro p hp; exact h p (by simp [hp])

lemma fillIn_length (shape : List Int) (l : List Spec) (v : Validated) (h : fillIn shape l = .ok v) :
    v.length = (shape.zip l).length := (mapM_ok _ _ _ h).length_eq.symm

lemma checkLength_ok (shape : List Int) (l : List Spec) : checkLength shape l = .ok () ↔ shape.length = l.length := by
  unfold checkLength; split <;> simp_all

lemma validateExplicit_ok (shape : List Int) (l : List Spec) (v : Validated) (h : validateExplicit shape l = .ok v) :
    List.Forall₂ (fun s c => c.sum = s) shape v := by
  unfold validateExplicit at h
  cases hcl : checkLength shape l with
  | error e => simp [hcl, bind, Except.bind] at h
  | ok u =>
    have hlen := (checkLength_ok shape l).1 hcl
    simp only [hcl, bind, Except.bind] at h
    split at h
    · obtain ⟨rfl, hz⟩ := assertMatch_ok _ _ _ h
      exact forall₂_of_zip _ _ _ (by simp [hlen]) (fun p hp => hz p hp)
    · split at h
      · cases hf : fillIn shape l with
        | error e => simp [hf] at h
        | ok w =>
          simp only [hf] at h
          obtain ⟨rfl, hz⟩ := assertMatch_ok _ _ _ h
          have := fillIn_length _ _ _ hf
          exact forall₂_of_zip _ _ _ (by rw [this]; simp [hlen]) (fun p hp => hz p hp)
      · simp at h

lemma bind_assertMatch_ok (shape : List Int) (r : Except String Validated) (v : Validated)
    (h : (r >>= assertMatch shape) = .ok v) : r = .ok v ∧ ∀ p ∈ shape.zip v, p.2.sum = p.1 := by
  cases r with
  | error e => simp [bind, Except.bind] at h
  | ok w =>
    simp only [bind, Except.bind] at h
    obtain ⟨rfl, hz⟩ := assertMatch_ok _ _ _ h
    exact ⟨rfl, hz⟩

lemma except_bind_ok {α β : Type} (x : Except String α) (f : α → Except String β) (v : β)
    (h : (x >>= f) = .ok v) : ∃ a, x = .ok a ∧ f a = .ok v := by
  cases x with
  | error e => simp [bind, Except.bind] at h
  | ok a => exact ⟨a, rfl, by simpa [bind, Except.bind] using h⟩

lemma autoChunks_ok (shape : List Int) (l : List Spec) (m : Option Int) (v : Validated)
    (h : autoChunks shape l m = .ok v) : List.Forall₂ (fun s c => c.sum = s) shape v := by
  unfold autoChunks at h
  obtain ⟨_, -, h⟩ := except_bind_ok _ _ _ h
  cases m with
  | none => simp at h
  | some M =>
    dsimp only at h
    obtain ⟨cls, -, h⟩ := except_bind_ok _ _ _ h
    obtain ⟨fin, -, h⟩ := except_bind_ok _ _ _ h
    exact validateExplicit_ok _ _ _ h

/-- **Validated chunks always sum to the array shape in every dimension** (and there is one chunk tuple per
dimension) — for every shape, every chunk argument and every element limit for which `validate_chunks` returns. -/
theorem validated_sum_eq_shape (shape : List Int) (ch : ChunkArg) (m : Option Int) (v : Validated)
    (h : validateChunks shape ch m = .ok v) : List.Forall₂ (fun s c => c.sum = s) shape v := by
  cases ch with
  | str => simp [validateChunks] at h
  | bad => simp [validateChunks] at h
  | int c =>
    simp only [validateChunks] at h
    split at h
    · exact validateExplicit_ok _ _ _ (bind_assertMatch_ok _ _ _ h).1
    · exact autoChunks_ok _ _ _ _ (bind_assertMatch_ok _ _ _ h).1
  | tuple l =>
    simp only [validateChunks] at h
    cases hcl : checkLength shape l with
    | error e => simp [hcl, bind, Except.bind] at h
    | ok u =>
      have hlen := (checkLength_ok shape l).1 hcl
      simp only [hcl, bind, Except.bind] at h
      split at h
      · obtain ⟨rfl, hz⟩ := assertMatch_ok _ _ _ h
        exact forall₂_of_zip _ _ _ (by simp [hlen]) (fun p hp => hz p hp)
      · split at h
        · exact autoChunks_ok _ _ _ _ (bind_assertMatch_ok _ _ _ h).1
        · split at h
          · obtain ⟨hf, hz⟩ := bind_assertMatch_ok _ _ _ h
            have := fillIn_length _ _ _ hf
            exact forall₂_of_zip _ _ _ (by rw [this]; simp [hlen]) (fun p hp => hz p hp)
          · simp at h


/-- **Validated chunk sizes are never negative** (since fix 3dfb10ad), whatever the chunk argument. -/
theorem validated_nonneg (shape : List Int) (ch : ChunkArg) (m : Option Int) (v : Validated)
    (h : validateChunks shape ch m = .ok v) : ∀ cc ∈ v, ∀ x ∈ cc, 0 ≤ x := by
  have key : ∀ (r : Except String Validated), (r >>= assertMatch shape) = .ok v → ∀ cc ∈ v, ∀ x ∈ cc, 0 ≤ x := by
    intro r hr
    cases r with
    | error e => simp [bind, Except.bind] at hr
    | ok w =>
      simp only [bind, Except.bind] at hr
      obtain ⟨rfl, _, hnn⟩ := assertMatch_ok' _ _ _ hr
      exact hnn
  cases ch with
  | str => simp [validateChunks] at h
  | bad => simp [validateChunks] at h
  | int c =>
    simp only [validateChunks] at h
    split at h <;> exact key _ h
  | tuple l =>
    simp only [validateChunks] at h
    cases hcl : checkLength shape l with
    | error e => simp [hcl, bind, Except.bind] at h
    | ok u =>
      simp only [hcl, bind, Except.bind] at h
      split at h
      · obtain ⟨rfl, _, hnn⟩ := assertMatch_ok' _ _ _ h
        exact hnn
      · split at h
        · exact key _ h
        · split at h
          · exact key _ h
          · simp at h

/-- … so the chunk ranges of every validated dimension are those of `Lib/Partition`: contiguous, pairwise disjoint and
covering `0 … shape-1` exactly once (`Partition.ranges_cover`, `ranges_disjoint`, `block_local_unique`). -/
theorem validated_ranges_partition (shape : List Int) (ch : ChunkArg) (m : Option Int) (v : Validated)
    (h : validateChunks shape ch m = .ok v) :
    ∀ cc ∈ v, chunkRanges1 cc = (Partition.ranges (cc.map Int.toNat)).map fun r => ((r.1 : Int), (r.2 : Int)) := by
  intro cc hcc
  have hnn := validated_nonneg shape ch m v h cc hcc
  have : cc = (cc.map Int.toNat).map Int.ofNat := by
    rw [List.map_map]
    conv_lhs => rw [← List.map_id cc]
    apply List.map_congr_left
    intro x hx
    simp only [id, Function.comp]
    exact (Int.toNat_of_nonneg (hnn x hx)).symm
  conv_lhs => rw [this]
  exact chunkRanges1_nat _

/-! ### equal_sized_chunks -/

lemma map_range_step {β : Type} (a b : β) (Z : Nat) : ∀ M : Nat,
    (List.range M).map (fun i => if Z ≤ i then b else a) = List.replicate (min M Z) a ++ List.replicate (M - Z) b := by
  intro M
  induction M with
  | zero => simp
  | succ M ih =>
    rw [List.range_succ, List.map_append, ih]
    by_cases h : Z ≤ M
    · have h1 : min (M + 1) Z = min M Z := by omega
      have h2 : M + 1 - Z = (M - Z) + 1 := by omega
      simp only [List.map_cons, List.map_nil, h, if_true, h1, h2, List.replicate_succ', List.append_assoc]
    · have h1 : min (M + 1) Z = min M Z + 1 := by omega
      have h2 : M + 1 - Z = 0 := by omega
      have h3 : M - Z = 0 := by omega
      simp only [List.map_cons, List.map_nil, h, if_false, h1, h2, h3, List.replicate_zero, List.append_nil,
        List.replicate_succ']

/-- closed form of the comprehension `pp + 1 if i >= zp else pp for i in range(num_chunks)` -/
lemma uneven_closed (m zp q : Int) (hz : 0 ≤ zp) (hzm : zp ≤ m) :
    (pyRange m).map (fun i => if decide (i ≥ zp) = true then q + 1 else q)
      = List.replicate zp.toNat q ++ List.replicate (m - zp).toNat (q + 1) := by
  unfold pyRange
  rw [List.map_map]
  have : ((fun i : Int => if decide (i ≥ zp) = true then q + 1 else q) ∘ Int.ofNat)
      = fun i : Nat => if zp.toNat ≤ i then q + 1 else q := by
    funext i
    simp only [Function.comp, ge_iff_le, decide_eq_true_eq, Int.ofNat_eq_natCast]
    congr 1
    apply propext
    omega
  rw [this, map_range_step]
  congr 2 <;> omega

/-- **Equal-sized chunking**: `n ≥ 1` items in `1 ≤ m ≤ n` chunks gives exactly `m` chunks summing to `n`, the first
`m − n % m` of size `⌊n/m⌋` and the last `n % m` of size `⌊n/m⌋ + 1` (sizes differ by at most one); the function's
own `assert sum(chunks) == num_items` never fires. -/
theorem equal_sized_spec (n m : Int) (hm : 1 ≤ m) (hmn : m ≤ n) :
    ∃ cs, equalSizedChunks n (some m) none = .ok cs ∧ cs.length = m.toNat ∧ cs.sum = n ∧
      (∀ c ∈ cs, c = n / m ∨ c = n / m + 1) ∧
      cs = List.replicate (m - n % m).toNat (n / m) ++ List.replicate (n % m).toNat (n / m + 1) := by
  have hm0 : 0 < m := by omega
  have hr0 := Int.emod_nonneg n (show m ≠ 0 by omega)
  have hrm := Int.emod_lt_of_pos n hm0
  have hdm := Int.mul_ediv_add_emod n m
  have hclosed : (if escDivides n m 0 = true then escEven n m 0 else escUneven n m 0)
      = List.replicate (m - n % m).toNat (n / m) ++ List.replicate (n % m).toNat (n / m + 1) := by
    by_cases hd : n % m = 0
    · simp [escDivides, escEven, pyMod_pos _ _ hm0, pyFloorDiv_pos _ _ hm0, hd, pyRepeat_singleton]
    · simp only [escDivides, pyMod_pos _ _ hm0, hd, decide_false, Bool.false_eq_true, if_false, escUneven,
        pyFloorDiv_pos _ _ hm0]
      rw [uneven_closed m (m - n % m) (n / m) (by omega) (by omega)]
      congr 2; omega
  have hsum : (List.replicate (m - n % m).toNat (n / m) ++ List.replicate (n % m).toNat (n / m + 1)).sum = n := by
    rw [List.sum_append, sum_replicate_int, sum_replicate_int, Int.toNat_of_nonneg (by omega), Int.toNat_of_nonneg hr0]
    linarith [mul_comm m (n / m)]
  refine ⟨_, ?_, ?_, hsum, ?_, rfl⟩
  · have h1 : n ≠ 0 := by omega
    have h2 : m ≠ 0 := by omega
    have h3 : ¬ (n < m) := by omega
    simp only [equalSizedChunks, h1, if_false, Option.isSome_some, Option.isSome_none, Bool.and_false,
      Bool.false_eq_true, escTooMany, h3, decide_false, h2, hclosed, hsum, if_true]
  · simp only [List.length_append, List.length_replicate]; omega
  · intro c hc
    rw [List.mem_append] at hc
    rcases hc with hc | hc
    · exact Or.inl (List.mem_replicate.1 hc).2
    · exact Or.inr (List.mem_replicate.1 hc).2

/-- Given a chunk size `cs ≥ 1` instead, the number of chunks is `⌈n / cs⌉` … -/
theorem esc_num_chunks_ceil (n cs : Int) (hn : 1 ≤ n) (hcs : 1 ≤ cs) :
    1 ≤ escNumChunks n 0 cs ∧ escNumChunks n 0 cs ≤ n ∧
      (escNumChunks n 0 cs - 1) * cs < n ∧ n ≤ escNumChunks n 0 cs * cs := by
  have hc0 : 0 < cs := by omega
  simp only [escNumChunks, pyMod_pos _ _ hc0, pyFloorDiv_pos _ _ hc0]
  have hr0 := Int.emod_nonneg (-n) (show cs ≠ 0 by omega)
  have hrm := Int.emod_lt_of_pos (-n) hc0
  -- n + (-n % cs) is a multiple of cs
  have hdvd : (n + -n % cs) % cs = 0 := by
    rw [Int.add_emod, Int.emod_emod_of_dvd _ (dvd_refl cs), ← Int.add_emod]; simp
  have hmul := Int.mul_ediv_add_emod (n + -n % cs) cs
  rw [hdvd, add_zero] at hmul
  set k := (n + -n % cs) / cs with hk
  have hk1 : 1 ≤ k := by
    by_contra hlt
    have : k ≤ 0 := by omega
    nlinarith
  refine ⟨hk1, ?_, ?_, ?_⟩
  · nlinarith
  · nlinarith
  · nlinarith

/-- … and the chunks are the equal-sized split into that many parts, none larger than `cs`. -/
theorem equal_sized_by_size_spec (n cs : Int) (hn : 1 ≤ n) (hcs : 1 ≤ cs) :
    ∃ l, equalSizedChunks n none (some cs) = .ok l ∧ l.length = (escNumChunks n 0 cs).toNat ∧ l.sum = n ∧
      (∀ c ∈ l, 1 ≤ c ∧ c ≤ cs) := by
  obtain ⟨h1, h2, h3, h4⟩ := esc_num_chunks_ceil n cs hn hcs
  set m := escNumChunks n 0 cs with hm
  obtain ⟨l, hl, hlen, hsum, hmem, hform⟩ := equal_sized_spec n m h1 h2
  refine ⟨l, ?_, hlen, hsum, ?_⟩
  · have hn0 : n ≠ 0 := by omega
    have hc0 : cs ≠ 0 := by omega
    simp only [equalSizedChunks, hn0, if_false, Option.isSome_none, Bool.false_and, Bool.false_eq_true, hc0, ← hm] at hl ⊢
    exact hl
  · intro c hc
    have hm0 : 0 < m := by omega
    have hq1 : 1 ≤ n / m := Int.le_ediv_of_mul_le hm0 (by omega)
    have hdm := Int.mul_ediv_add_emod n m
    have hr0 := Int.emod_nonneg n (show m ≠ 0 by omega)
    rcases hmem c hc with rfl | rfl
    · refine ⟨hq1, ?_⟩
      by_contra hlt
      have : cs + 1 ≤ n / m := by omega
      nlinarith
    · refine ⟨by omega, ?_⟩
      by_contra hlt
      have : cs ≤ n / m := by omega
      -- then m * cs ≤ m * (n/m) ≤ n ≤ m * cs forces n % m = 0 and n/m = cs; but then c = cs + 1 arises only if r > 0
      have hle : m * cs ≤ m * (n / m) := by nlinarith
      have hr : n % m = 0 := by nlinarith
      -- with r = 0 the list has no element n/m + 1
      rw [hform, hr] at hc
      simp only [Int.toNat_zero, List.replicate_zero, List.append_nil] at hc
      have := (List.mem_replicate.1 hc).2
      omega


/-! ### the `_auto_chunks` loop -/

/-- some "auto" dimension is not yet at its maximum -/
def nz (l : List (Int × Int)) : Bool := l.any (fun p => decide (p.1 ≠ p.2))

lemma all_eq_not_nz (l : List (Int × Int)) : l.all (fun p => decide (p.1 = p.2)) = !nz l := by
  induction l with
  | nil => rfl
  | cons x xs ih => simp only [List.all_cons, ih, nz, List.any_cons]; by_cases h : x.1 = x.2 <;> simp [h]

lemma autoDist_append (a b : List (Int × Int)) : autoDist (a ++ b) = autoDist a + autoDist b := by
  simp [autoDist, List.sum_append]

lemma autoDist_cons (x : Int × Int) (b : List (Int × Int)) : autoDist (x :: b) = (x.2 - x.1).natAbs + autoDist b := by
  simp [autoDist]

lemma nz_false_dist (l : List (Int × Int)) (h : nz l = false) : autoDist l = 0 := by
  induction l with
  | nil => rfl
  | cons x xs ih =>
    simp only [nz, List.any_cons, Bool.or_eq_false_iff, decide_eq_false_iff_not, ne_eq, not_not] at h
    rw [autoDist_cons, ih (by simpa [nz] using h.2), h.1]; simp

/-- one visit moves the dimension strictly closer to its maximum unless it is already there -/
lemma bump_dist (c n : Int) :
    (c = n → autoBump c n = n) ∧ (c ≠ n → (n - autoBump c n).natAbs + 1 ≤ (n - c).natAbs) := by
  unfold autoBump
  constructor
  · intro h; subst h; omega
  · intro h; omega

/-- termination measure: `2k · distance + (steps until the cursor reaches a dimension that can still grow)` -/
def psi (done todo : List (Int × Int)) : Nat :=
  2 * (done.length + todo.length) * autoDist (done ++ todo)
    + (if nz todo then todo.length else todo.length + (done.length + todo.length))

lemma arith_dec (K Dn Do e1 e2 : Nat) (h : Dn + 1 ≤ Do) (he : e1 < e2 + 2 * K) :
    2 * K * Dn + e1 < 2 * K * Do + e2 := by
  have := Nat.mul_le_mul_left (2 * K) h
  rw [Nat.mul_add, Nat.mul_one] at this
  omega

lemma psi_new_eq (d rest : List (Int × Int)) (x : Int × Int) :
    psi (d ++ [x]) rest = 2 * (d.length + rest.length + 1) * (autoDist d + (x.2 - x.1).natAbs + autoDist rest)
      + (if nz rest then rest.length else rest.length + (d.length + rest.length + 1)) := by
  unfold psi
  have h1 : (d ++ [x]).length + rest.length = d.length + rest.length + 1 := by simp; omega
  have h2 : autoDist ((d ++ [x]) ++ rest) = autoDist d + (x.2 - x.1).natAbs + autoDist rest := by
    simp only [autoDist_append, autoDist_cons]; simp [autoDist]
  rw [h1, h2]

lemma psi_old_eq (d rest : List (Int × Int)) (x : Int × Int) :
    psi d (x :: rest) = 2 * (d.length + rest.length + 1) * (autoDist d + (x.2 - x.1).natAbs + autoDist rest)
      + (if nz (x :: rest) then rest.length + 1 else rest.length + 1 + (d.length + rest.length + 1)) := by
  unfold psi
  have h1 : d.length + (x :: rest).length = d.length + rest.length + 1 := by simp; omega
  have h2 : autoDist (d ++ x :: rest) = autoDist d + (x.2 - x.1).natAbs + autoDist rest := by
    simp [autoDist_append, autoDist_cons]; ring
  rw [h1, h2]; simp

lemma psi_wrap_eq (rest : List (Int × Int)) (x : Int × Int) :
    psi (x :: rest) [] = 2 * (rest.length + 1) * ((x.2 - x.1).natAbs + autoDist rest) + (rest.length + 1) := by
  unfold psi
  simp [nz, autoDist_cons]

lemma psi_step (d rest : List (Int × Int)) (c n : Int) (wrapped : Bool) (hw : wrapped = true → d = [])
    (hnot : (d ++ (autoBump c n, n) :: rest).all (fun p => decide (p.1 = p.2)) = false) :
    psi (d ++ [(autoBump c n, n)]) rest <
      (if wrapped then psi ((c, n) :: rest) [] else psi d ((c, n) :: rest)) := by
  obtain ⟨h1, h2⟩ := bump_dist c n
  rw [psi_new_eq]
  by_cases hcn : c = n
  · subst hcn
    have hb := h1 rfl
    have hnzc : nz ((c, c) :: rest) = nz rest := by simp [nz]
    cases wrapped with
    | true =>
      have hd := hw rfl
      subst hd
      have hnzrest : nz rest = true := by
        rw [all_eq_not_nz, hb] at hnot
        simpa [nz] using hnot
      simp only [if_true, psi_wrap_eq, hnzrest, hb, List.length_nil, autoDist, List.map_nil, List.sum_nil,
        sub_self, Int.natAbs_zero, Nat.zero_add]
      omega
    | false =>
      simp only [Bool.false_eq_true, if_false, psi_old_eq, hnzc, hb, sub_self, Int.natAbs_zero]
      split <;> omega
  · have hdec := h2 hcn
    have hnzc : nz ((c, n) :: rest) = true := by simp [nz, hcn]
    cases wrapped with
    | true =>
      have hd := hw rfl
      subst hd
      simp only [if_true, psi_wrap_eq, List.length_nil, autoDist, List.map_nil, List.sum_nil, Nat.zero_add]
      apply arith_dec
      · omega
      · split <;> omega
    | false =>
      simp only [Bool.false_eq_true, if_false, psi_old_eq, hnzc, if_true]
      apply arith_dec
      · omega
      · split <;> omega

/-- The loop never runs out of fuel when started with more than `psi` units. -/
theorem autoLoop_fuel (F M : Int) : ∀ (fuel : Nat) (done todo : List (Int × Int)),
    psi done todo < fuel → autoLoop F M fuel done todo ≠ .error "fuel" := by
  intro fuel
  induction fuel with
  | zero => intro d t h; omega
  | succ fuel ih =>
    intro done todo hpsi
    unfold autoLoop
    cases todo with
    | nil =>
      cases done with
      | nil => simp
      | cons x rest =>
        obtain ⟨c, n⟩ := x
        simp only [List.isEmpty_nil, if_true, List.nil_append]
        split
        · split <;> simp
        · split
          · simp
          · rename_i hnot
            apply ih
            have := psi_step [] rest c n true (fun _ => rfl) (by simpa using hnot)
            simp only [if_true, List.nil_append] at this
            omega
    | cons x rest =>
      obtain ⟨c, n⟩ := x
      simp only [List.isEmpty_cons, Bool.false_eq_true, if_false]
      split
      · split <;> simp
      · split
        · simp
        · rename_i hnot
          apply ih
          have := psi_step done rest c n false (by simp) (by simpa using hnot)
          simp only [Bool.false_eq_true, if_false] at this
          omega

lemma psi_init (autos : List (Int × Int)) : psi [] autos < autoFuel autos := by
  unfold psi autoFuel
  simp only [List.length_nil, Nat.zero_add, List.nil_append]
  have : 2 * autos.length * (autoDist autos + 1) = 2 * autos.length * autoDist autos + 2 * autos.length := by ring
  split <;> omega

/-- **`_auto_chunks` terminates**: for every shape, every mix of chunk specifications and every element limit the
round-robin loop stops within the fuel the model provides (fuel exhaustion is unreachable). -/
theorem auto_terminates (F M : Int) (autos : List (Int × Int)) : autoRun F M autos ≠ .error "fuel" := by
  unfold autoRun
  split
  · simp
  · exact autoLoop_fuel F M _ [] autos (psi_init autos)


/-- Loop invariant: while the current choice fits the limit and every "auto" chunk lies in `1..n`, the loop
returns a choice that still fits the limit (the revert branch restores the previous, fitting, choice), keeps
`1 ≤ chunk ≤ n`, never raises, and leaves the dimensions in place. -/
theorem autoLoop_within (F M : Int) : ∀ (fuel : Nat) (done todo : List (Int × Int)),
    (∀ p ∈ done ++ todo, 1 ≤ p.1 ∧ p.1 ≤ p.2) → F * prodCur (done ++ todo) ≤ M →
    autoLoop F M fuel done todo = .error "fuel" ∨
    ∃ fin, autoLoop F M fuel done todo = .ok fin ∧ F * prodCur fin ≤ M ∧ (∀ p ∈ fin, 1 ≤ p.1 ∧ p.1 ≤ p.2) ∧
      fin.map Prod.snd = (done ++ todo).map Prod.snd := by
  intro fuel
  induction fuel with
  | zero => intro d t _ _; exact Or.inl rfl
  | succ fuel ih =>
    -- one iteration from the (possibly wrapped) state `(d, (c, n) :: rest)` with `d ++ (c,n)::rest = done ++ todo`
    have step : ∀ (d rest : List (Int × Int)) (c n : Int),
        (∀ p ∈ d ++ (c, n) :: rest, 1 ≤ p.1 ∧ p.1 ≤ p.2) → F * prodCur (d ++ (c, n) :: rest) ≤ M →
        let r := (if autoExceeds (F * prodCur (d ++ (autoBump c n, n) :: rest)) M = true then
            if autoIsZero (autoBump c n - 1) = true then Except.error "runtime_error"
            else Except.ok (d ++ (autoBump c n - 1, n) :: rest)
          else if (d ++ (autoBump c n, n) :: rest).all (fun p => decide (p.1 = p.2)) = true then
            Except.ok (d ++ (autoBump c n, n) :: rest)
          else autoLoop F M fuel (d ++ [(autoBump c n, n)]) rest)
        r = .error "fuel" ∨ ∃ fin, r = .ok fin ∧ F * prodCur fin ≤ M ∧ (∀ p ∈ fin, 1 ≤ p.1 ∧ p.1 ≤ p.2) ∧
          fin.map Prod.snd = (d ++ (c, n) :: rest).map Prod.snd := by
      intro d rest c n hb hfit
      have hc := hb (c, n) (by simp)
      simp only at hc
      have hbump : 1 ≤ autoBump c n ∧ autoBump c n ≤ n := by unfold autoBump; omega
      have hb' : ∀ p ∈ d ++ (autoBump c n, n) :: rest, 1 ≤ p.1 ∧ p.1 ≤ p.2 := by
        intro p hp
        simp only [List.mem_append, List.mem_cons] at hp
        rcases hp with hp | rfl | hp
        · exact hb p (by simp [hp])
        · exact hbump
        · exact hb p (by simp [hp])
      have hsnd : (d ++ (autoBump c n, n) :: rest).map Prod.snd = (d ++ (c, n) :: rest).map Prod.snd := by simp
      intro r
      by_cases hex : autoExceeds (F * prodCur (d ++ (autoBump c n, n) :: rest)) M = true
      · -- the bumped choice exceeds the limit: then the bump was a real increment and the revert restores `c`
        have hlt : c < n := by
          by_contra hge
          have hcn : c = n := by omega
          have : autoBump c n = c := by unfold autoBump; omega
          rw [this] at hex
          simp only [autoExceeds, gt_iff_lt, decide_eq_true_eq] at hex
          omega
        have hrev : autoBump c n - 1 = c := by unfold autoBump; omega
        have hz : autoIsZero c = false := by simp [autoIsZero]; omega
        refine Or.inr ⟨d ++ (c, n) :: rest, ?_, hfit, hb, rfl⟩
        simp only [r, hex, if_true, hrev, hz, Bool.false_eq_true, if_false]
      · have hfit' : F * prodCur (d ++ (autoBump c n, n) :: rest) ≤ M := by
          simp only [autoExceeds, gt_iff_lt, decide_eq_true_eq, not_lt] at hex; exact hex
        by_cases hall : (d ++ (autoBump c n, n) :: rest).all (fun p => decide (p.1 = p.2)) = true
        · exact Or.inr ⟨_, by simp only [r, hex, hall, if_true, Bool.false_eq_true, if_false], hfit', hb', hsnd⟩
        · have hrec := ih (d ++ [(autoBump c n, n)]) rest (by simpa [List.append_assoc] using hb')
            (by simpa [List.append_assoc] using hfit')
          simp only [r, hex, hall, Bool.false_eq_true, if_false]
          rcases hrec with h | ⟨fin, h1, h2, h3, h4⟩
          · exact Or.inl h
          · exact Or.inr ⟨fin, h1, h2, h3, by rw [h4]; simp⟩
    intro done todo hb hfit
    unfold autoLoop
    cases todo with
    | nil =>
      cases done with
      | nil => exact Or.inr ⟨[], by simp, by simpa using hfit, by simp, rfl⟩
      | cons x rest =>
        obtain ⟨c, n⟩ := x
        simpa using step [] rest c n (by simpa using hb) (by simpa using hfit)
    | cons x rest =>
      obtain ⟨c, n⟩ := x
      simpa using step done rest c n hb hfit

/-- **If the all-ones choice of the automatic dimensions fits the limit, `_auto_chunks`'s loop succeeds and its
choice fits the limit**, with every automatic chunk size in `1..n`. -/
theorem auto_loop_within_limit (F M : Int) (ns : List Int) (hn : ∀ n ∈ ns, 1 ≤ n)
    (hfit : F * prodCur (ns.map fun n => (1, n)) ≤ M) :
    ∃ fin, autoRun F M (ns.map fun n => (1, n)) = .ok fin ∧ F * prodCur fin ≤ M ∧
      (∀ p ∈ fin, 1 ≤ p.1 ∧ p.1 ≤ p.2) ∧ fin.map Prod.snd = ns := by
  unfold autoRun
  split
  · rename_i he
    have : ns = [] := by simpa using he
    subst this
    exact ⟨[], rfl, by simpa using hfit, by simp, rfl⟩
  · have hb : ∀ p ∈ ([] : List (Int × Int)) ++ ns.map (fun n => ((1 : Int), n)), 1 ≤ p.1 ∧ p.1 ≤ p.2 := by
      intro p hp
      simp only [List.nil_append, List.mem_map] at hp
      obtain ⟨n, hn', rfl⟩ := hp
      exact ⟨le_refl _, hn n hn'⟩
    rcases autoLoop_within F M (autoFuel (ns.map fun n => (1, n))) [] _ hb (by simpa using hfit) with h | ⟨fin, h1, h2, h3, h4⟩
    · exact absurd h (autoLoop_fuel F M _ [] _ (psi_init _))
    · exact ⟨fin, h1, h2, h3, by simpa [List.map_map, Function.comp] using h4⟩

/-! ### end to end: an integer `chunks` argument (all dimensions automatic) -/

/-- the chunk tuple `fill_in_chunk_sizes` produces for an integer chunk size -/
def fillVec (s c : Int) : List Int := List.replicate (s / c).toNat c ++ (if s % c ≠ 0 then [s % c] else [])

lemma fillDim_int_eq (s c : Int) (hs : 0 ≤ s) (hc : 1 ≤ c) : fillDim s (.int c) = .ok (fillVec s c) := by
  obtain ⟨v, hv, _, _, hform⟩ := fill_int_spec s c hs hc
  rw [hv, hform]; rfl

lemma fillVec_props (s c : Int) (hc : 1 ≤ c) (hcs : c ≤ s) :
    (fillVec s c).sum = s ∧ maxOf (fillVec s c) = c ∧ ∀ x ∈ fillVec s c, 1 ≤ x := by
  obtain ⟨v, hv, hsum, hmem, hform⟩ := fill_int_spec s c (by omega) hc
  obtain ⟨v', hv', hmax⟩ := fill_int_max_partial s c hc hcs
  have e1 : v = fillVec s c := by rw [hform]; rfl
  have e2 : v' = v := by rw [hv] at hv'; injection hv' with h; exact h.symm
  subst e1; subst e2
  exact ⟨hsum, hmax, fun x hx => (hmem x hx).1⟩

lemma mapM_ok_of_forall {α β : Type} (f : α → Except String β) (g : α → β) (xs : List α)
    (h : ∀ x ∈ xs, f x = .ok (g x)) : xs.mapM f = .ok (xs.map g) := by
  induction xs with
  | nil => rfl
  | cons x xs ih =>
    rw [List.mapM_cons, h x (by simp), ih fun y hy => h y (by simp [hy])]
    rfl

lemma zip_map_map {α β γ : Type} (f : α → β) (g : α → γ) (l : List α) :
    (l.map f).zip (l.map g) = l.map fun x => (f x, g x) := by
  induction l with
  | nil => rfl
  | cons x xs ih => simp [ih]

lemma zipWith_normalize_auto (shape : List Int) :
    List.zipWith normalize shape (List.replicate shape.length Spec.auto) = List.replicate shape.length Spec.auto := by
  induction shape with
  | nil => rfl
  | cons n ns ih => simp [List.replicate_succ, normalize, ih]

lemma zip_replicate_auto (shape : List Int) :
    shape.zip (List.replicate shape.length Spec.auto) = shape.map fun n => (n, Spec.auto) := by
  induction shape with
  | nil => rfl
  | cons n ns ih => simp [List.replicate_succ, ih]

lemma foldl_mul_ones (l : List Int) (a : Int) (h : ∀ x ∈ l, x = 1) : l.foldl (· * ·) a = a := by
  induction l generalizing a with
  | nil => rfl
  | cons x xs ih =>
    simp only [List.foldl_cons, h x (by simp), mul_one]
    exact ih a fun y hy => h y (by simp [hy])

lemma rebuild_all_auto (fin : List (Int × Int)) :
    rebuild (List.replicate fin.length Spec.auto) fin = fin.map fun p => Spec.int p.1 := by
  induction fin with
  | nil => rfl
  | cons p ps ih => obtain ⟨c, n⟩ := p; simp [List.replicate_succ, rebuild, ih]

/-- **Automatic chunking end to end** (`validate_chunks(shape, c)` with an integer `c ≥ 1`, every dimension ≥ 1, the way
abTEM chunks ensembles by a `max_batch`): the call succeeds, every chunk is ≥ 1, and the largest block — the product of
the largest chunk of every dimension — has at most `c` elements. -/
theorem auto_all_within_limit (shape : List Int) (c : Int) (hs : ∀ n ∈ shape, 1 ≤ n) (hc : 1 ≤ c) (m : Option Int) :
    ∃ v, validateChunks shape (.int c) m = .ok v ∧ (v.map maxOf).foldl (· * ·) 1 ≤ c ∧ ∀ cc ∈ v, ∀ x ∈ cc, 1 ≤ x := by
  have hc1 : c ≠ -1 := by omega
  -- the loop
  have hones : prodCur (shape.map fun n => ((1 : Int), n)) = 1 := by
    unfold prodCur
    apply foldl_mul_ones
    intro x hx
    simp only [List.map_map, List.mem_map, Function.comp] at hx
    obtain ⟨n, _, rfl⟩ := hx; rfl
  obtain ⟨fin, hrun, hfit, hb, hsnd⟩ := auto_loop_within_limit 1 c shape hs (by rw [hones]; omega)
  have hlen : fin.length = shape.length := by rw [← hsnd]; simp
  -- the result
  refine ⟨fin.map fun p => fillVec p.2 p.1, ?_, ?_, ?_⟩
  · have hcl : checkLength shape (List.replicate shape.length Spec.auto) = .ok () := by simp [checkLength]
    have hcls : (shape.zip (List.replicate shape.length Spec.auto)).mapM
        (fun (x : Int × Spec) => classify x.1 x.2) = .ok (shape.map fun n => ((1 : Int), n, true)) := by
      rw [zip_replicate_auto,
        mapM_ok_of_forall _ (fun x : Int × Spec => ((1 : Int), x.1, true))]
      · simp [List.map_map, Function.comp]
      · intro x hx
        obtain ⟨n, _, rfl⟩ := List.mem_map.1 hx
        simp [classify]
    have hautos : ((shape.map fun n => ((1 : Int), n, true)).filter fun t => t.2.2).map (fun t => (t.1, t.2.1))
        = shape.map fun n => ((1 : Int), n) := by
      rw [List.filter_eq_self.2 (by intro t ht; obtain ⟨n, _, rfl⟩ := List.mem_map.1 ht; rfl)]
      simp [List.map_map, Function.comp]
    have hF : (((shape.map fun n => ((1 : Int), n, true)).filter fun t => !t.2.2).map fun t => t.1).foldl (· * ·) 1 = (1 : Int) := by
      rw [List.filter_eq_nil_iff.2 (by intro t ht; obtain ⟨n, _, rfl⟩ := List.mem_map.1 ht; simp)]
      rfl
    have hauto : autoChunks shape (List.replicate shape.length Spec.auto) (some c)
        = validateExplicit shape (fin.map fun p => Spec.int p.1) := by
      have hreb : rebuild (List.replicate shape.length Spec.auto) fin = fin.map fun p => Spec.int p.1 := by
        rw [← hlen]; exact rebuild_all_auto fin
      unfold autoChunks
      simp only [hcl, bind, Except.bind, zipWith_normalize_auto, hcls, hautos, hF, hrun, hreb]
    have hzipl : shape.zip (fin.map fun p => Spec.int p.1) = fin.map fun p => (p.2, Spec.int p.1) := by
      rw [← hsnd]; exact zip_map_map _ _ fin
    have hzipv : shape.zip (fin.map fun p => fillVec p.2 p.1) = fin.map fun p => (p.2, fillVec p.2 p.1) := by
      rw [← hsnd]; exact zip_map_map _ _ fin
    have hassert : assertMatch shape (fin.map fun p => fillVec p.2 p.1) = .ok (fin.map fun p => fillVec p.2 p.1) := by
      apply assertMatch_of
      · intro cc hcc x hx
        obtain ⟨p, hp, rfl⟩ := List.mem_map.1 hcc
        have := (fillVec_props p.2 p.1 (hb p hp).1 (hb p hp).2).2.2 x hx
        omega
      · rw [hzipv]
        intro x hx
        obtain ⟨p, hp, rfl⟩ := List.mem_map.1 hx
        exact (fillVec_props p.2 p.1 (hb p hp).1 (hb p hp).2).1
    have hval : validateExplicit shape (fin.map fun p => Spec.int p.1) = .ok (fin.map fun p => fillVec p.2 p.1) := by
      unfold validateExplicit
      have hcl2 : checkLength shape (fin.map fun p => Spec.int p.1) = .ok () := by simp [checkLength, hlen]
      simp only [hcl2, bind, Except.bind]
      cases hfin : fin with
      | nil => subst hfin; simp at hlen; have : shape = [] := List.eq_nil_of_length_eq_zero hlen.symm; subst this; rfl
      | cons p ps =>
        rw [← hfin]
        have h1 : (fin.map fun p => Spec.int p.1).all Spec.isTup = false := by rw [hfin]; simp [Spec.isTup]
        have h2 : (fin.map fun p => Spec.int p.1).all Spec.isIntOrTup = true := by
          rw [List.all_eq_true]; intro x hx; obtain ⟨q, _, rfl⟩ := List.mem_map.1 hx; rfl
        have hfill : fillIn shape (fin.map fun p => Spec.int p.1) = .ok (fin.map fun p => fillVec p.2 p.1) := by
          unfold fillIn
          rw [hzipl, mapM_ok_of_forall _ (fun x : Int × Spec => match x.2 with | .int c => fillVec x.1 c | _ => [])]
          · simp [List.map_map, Function.comp]
          · intro x hx
            obtain ⟨q, hq, rfl⟩ := List.mem_map.1 hx
            have := hb q hq
            exact fillDim_int_eq q.2 q.1 (by omega) (by omega)
        simp only [h1, h2, hfill, Bool.false_eq_true, if_false, if_true]
        exact hassert
    simp only [validateChunks, hc1, if_false, hauto, hval, bind, Except.bind]
    exact hassert
  · have : (fin.map fun p => fillVec p.2 p.1).map maxOf = fin.map Prod.fst := by
      rw [List.map_map]
      apply List.map_congr_left
      intro p hp
      exact (fillVec_props p.2 p.1 (hb p hp).1 (hb p hp).2).2.1
    rw [this]
    have : (fin.map Prod.fst).foldl (· * ·) 1 = prodCur fin := rfl
    rw [this]; linarith
  · intro cc hcc x hx
    obtain ⟨p, hp, rfl⟩ := List.mem_map.1 hcc
    exact (fillVec_props p.2 p.1 (hb p hp).1 (hb p hp).2).2.2 x hx

example : validateChunks [7, 9] (.int 10) none = .ok [[3, 3, 1], [3, 3, 3]] ∧
    (([[3, 3, 1], [3, 3, 3]] : List (List Int)).map maxOf).foldl (· * ·) 1 ≤ 10 := by decide +kernel

/-! ### end to end: mixes of 'auto' with fixed ints / explicit tuples -/

/-- a well-formed dimension: length ≥ 1 and 'auto', a positive int, -1, or an explicit tuple of positive ints summing to it -/
def WF (d : Int × Spec) : Prop :=
  1 ≤ d.1 ∧ match d.2 with
    | .auto => True
    | .int c => 1 ≤ c ∨ c = -1
    | .tup cs => cs ≠ [] ∧ (∀ x ∈ cs, 1 ≤ x) ∧ cs.sum = d.1
    | _ => False

/-- chunk size the fixed dimension contributes to the budget (`current_chunks` of a non-auto dimension) -/
def fixedCur (d : Int × Spec) : Int :=
  match d.2 with
  | .int c => if c = -1 then d.1 else c
  | .tup cs => maxOf cs
  | _ => 1

def isAutoD (d : Int × Spec) : Bool := match d.2 with | .auto => true | _ => false

lemma foldl_mul_eq (l : List Int) (a : Int) : l.foldl (· * ·) a = a * l.prod := by
  induction l generalizing a with
  | nil => simp
  | cons x xs ih => simp only [List.foldl_cons, List.prod_cons, ih]; ring

lemma classify_wf (d : Int × Spec) (h : WF d) :
    classify d.1 (normalize d.1 d.2) = .ok (if isAutoD d then 1 else fixedCur d, if isAutoD d then d.1 else fixedCur d, isAutoD d) := by
  obtain ⟨n, sp⟩ := d
  cases sp with
  | auto => simp [normalize, classify, isAutoD]
  | int c => by_cases hc : c = -1 <;> simp [normalize, classify, isAutoD, fixedCur, hc]
  | tup cs => have := h.2.1; simp [normalize, classify, isAutoD, fixedCur, this]
  | str => exact absurd h.2 (by simp [WF])
  | bad => exact absurd h.2 (by simp [WF])

/-- the chunk tuples returned for the dimensions `ds` when the loop chose `fin` for the automatic ones -/
def vec : List (Int × Spec) → List (Int × Int) → Validated
  | [], _ => []
  | (n, .auto) :: ds, (c, _) :: fs => fillVec n c :: vec ds fs
  | (n, .auto) :: ds, [] => [] :: vec ds []
  | (n, .int c) :: ds, fs => fillVec n (if c = -1 then n else c) :: vec ds fs
  | (_, .tup cs) :: ds, fs => cs :: vec ds fs
  | (_, _) :: ds, fs => [] :: vec ds fs

lemma fillVec_big (n c : Int) (hn : 1 ≤ n) (hc : n < c) : fillVec n c = [n] := by
  have h1 : n / c = 0 := Int.ediv_eq_zero_of_lt (by omega) hc
  have h2 : n % c = n := Int.emod_eq_of_lt (by omega) hc
  simp [fillVec, h1, h2]; omega

/-- per dimension: fill-in succeeds, sums to the dimension, entries ≥ 1, and the largest chunk is at most the budgeted one -/
lemma fixed_int_dim (n c : Int) (hn : 1 ≤ n) (hc : 1 ≤ c) :
    fillDim n (.int c) = .ok (fillVec n c) ∧ (fillVec n c).sum = n ∧ (∀ x ∈ fillVec n c, 1 ≤ x) ∧
      1 ≤ maxOf (fillVec n c) ∧ maxOf (fillVec n c) ≤ c := by
  refine ⟨fillDim_int_eq n c (by omega) hc, ?_⟩
  by_cases h : c ≤ n
  · obtain ⟨h1, h2, h3⟩ := fillVec_props n c hc h
    exact ⟨h1, h3, by omega, by omega⟩
  · rw [fillVec_big n c hn (by omega)]
    simp [maxOf]; omega


lemma foldl_max_ge (a : Int) (l : List Int) : a ≤ l.foldl max a := by
  induction l generalizing a with
  | nil => exact le_refl _
  | cons x xs ih => exact le_trans (le_max_left a x) (ih (max a x))

lemma maxOf_ge_one (cs : List Int) (hne : cs ≠ []) (h : ∀ x ∈ cs, 1 ≤ x) : 1 ≤ maxOf cs := by
  cases cs with
  | nil => exact absurd rfl hne
  | cons x xs => exact le_trans (h x (by simp)) (foldl_max_ge x xs)

/-- the invariant carried through `rebuild` / `fill_in_chunk_sizes`, dimension by dimension -/
lemma fill_rebuild (ds : List (Int × Spec)) (fin : List (Int × Int)) (hwf : ∀ d ∈ ds, WF d)
    (hfin : fin.map Prod.snd = (ds.filter isAutoD).map Prod.fst) (hb : ∀ p ∈ fin, 1 ≤ p.1 ∧ p.1 ≤ p.2) :
    let l := rebuild (ds.map fun d => normalize d.1 d.2) fin
    l.length = ds.length ∧ l.all Spec.isIntOrTup = true ∧
    fillIn (ds.map Prod.fst) l = .ok (vec ds fin) ∧
    (∀ p ∈ (ds.map Prod.fst).zip (vec ds fin), p.2.sum = p.1) ∧
    (∀ cc ∈ vec ds fin, ∀ x ∈ cc, 1 ≤ x) ∧
    1 ≤ ((vec ds fin).map maxOf).prod ∧
    1 ≤ ((ds.filter fun d => !isAutoD d).map fixedCur).prod * (fin.map Prod.fst).prod ∧
    ((vec ds fin).map maxOf).prod ≤ ((ds.filter fun d => !isAutoD d).map fixedCur).prod * (fin.map Prod.fst).prod := by
  induction ds generalizing fin with
  | nil =>
    have : fin = [] := by simpa using hfin
    subst this
    simp [rebuild, fillIn, vec, pure, Except.pure]
  | cons d ds ih =>
    obtain ⟨n, sp⟩ := d
    have hw := hwf (n, sp) (by simp)
    have hwf' : ∀ d ∈ ds, WF d := fun d hd => hwf d (by simp [hd])
    have hn : 1 ≤ n := hw.1
    cases sp with
    | auto =>
      cases fin with
      | nil => simp [isAutoD] at hfin
      | cons p fs =>
        obtain ⟨c, n'⟩ := p
        simp only [isAutoD, List.filter_cons, if_true, List.map_cons, List.cons.injEq] at hfin
        obtain ⟨hn', hfs⟩ := hfin
        subst hn'
        have hc := hb (c, n') (by simp)
        simp only at hc
        obtain ⟨i1, i2, i3, i4, i5, i6, i7, i8⟩ := ih fs hwf' hfs (fun p hp => hb p (by simp [hp]))
        obtain ⟨f1, f2, f3, f4, f5⟩ := fixed_int_dim n' c hn hc.1
        have f6 : maxOf (fillVec n' c) = c := (fillVec_props n' c hc.1 hc.2).2.1
        refine ⟨by simpa [rebuild, normalize] using i1, by simpa [rebuild, normalize, Spec.isIntOrTup] using i2, ?_, ?_, ?_, ?_, ?_, ?_⟩
        · simp only [fillIn, List.map_cons, normalize, rebuild, List.zip_cons_cons, List.mapM_cons, f1, bind, Except.bind] at i3 ⊢
          rw [i3]; rfl
        · intro p hp
          simp only [List.map_cons, vec, List.zip_cons_cons, List.mem_cons] at hp
          rcases hp with rfl | hp
          · exact f2
          · exact i4 p hp
        · intro cc hcc x hx
          simp only [vec, List.mem_cons] at hcc
          rcases hcc with rfl | hcc
          · exact f3 x hx
          · exact i5 cc hcc x hx
        · simp only [vec, List.map_cons, List.prod_cons, f6]; nlinarith
        · simp only [isAutoD, List.filter_cons, Bool.not_true, Bool.false_eq_true, if_false, List.map_cons, List.prod_cons]
          simp only [isAutoD] at i7; nlinarith
        · simp only [vec, List.map_cons, List.prod_cons, f6, isAutoD, List.filter_cons, Bool.not_true, Bool.false_eq_true, if_false]
          simp only [isAutoD] at i8; nlinarith
    | int c =>
      have hfin' : fin.map Prod.snd = (ds.filter isAutoD).map Prod.fst := by simpa [isAutoD] using hfin
      obtain ⟨i1, i2, i3, i4, i5, i6, i7, i8⟩ := ih fin hwf' hfin' hb
      have hc' : 1 ≤ (if c = -1 then n else c) := by
        rcases hw.2 with h | h
        · have : c ≠ -1 := by omega
          simp [this]; exact h
        · simp [h]; exact hn
      obtain ⟨f1, f2, f3, f4, f5⟩ := fixed_int_dim n (if c = -1 then n else c) hn hc'
      have hnorm : normalize n (Spec.int c) = Spec.int (if c = -1 then n else c) := by
        by_cases h : c = -1 <;> simp [normalize, h]
      have hreb : rebuild (Spec.int (if c = -1 then n else c) :: ds.map fun d => normalize d.1 d.2) fin
          = Spec.int (if c = -1 then n else c) :: rebuild (ds.map fun d => normalize d.1 d.2) fin := by
        cases fin <;> simp [rebuild]
      refine ⟨by simp only [List.map_cons, hnorm, hreb, List.length_cons, i1], by
          simp only [List.map_cons, hnorm, hreb, List.all_cons, Spec.isIntOrTup, i2, Bool.and_self], ?_, ?_, ?_, ?_, ?_, ?_⟩
      · simp only [fillIn, List.map_cons, hnorm, hreb, List.zip_cons_cons, List.mapM_cons, f1, bind, Except.bind] at i3 ⊢
        rw [i3]; rfl
      · intro p hp
        simp only [List.map_cons, vec, List.zip_cons_cons, List.mem_cons] at hp
        rcases hp with rfl | hp
        · exact f2
        · exact i4 p hp
      · intro cc hcc x hx
        simp only [vec, List.mem_cons] at hcc
        rcases hcc with rfl | hcc
        · exact f3 x hx
        · exact i5 cc hcc x hx
      · simp only [vec, List.map_cons, List.prod_cons]; nlinarith
      · simp only [isAutoD, List.filter_cons, Bool.not_false, if_true, List.map_cons, List.prod_cons, fixedCur]
        simp only [isAutoD] at i7; nlinarith
      · simp only [vec, List.map_cons, List.prod_cons, isAutoD, List.filter_cons, Bool.not_false, if_true, fixedCur]
        simp only [isAutoD] at i7 i8
        have h0 : 0 ≤ ((vec ds fin).map maxOf).prod := by omega
        calc maxOf (fillVec n (if c = -1 then n else c)) * ((vec ds fin).map maxOf).prod
            ≤ (if c = -1 then n else c) * ((vec ds fin).map maxOf).prod := mul_le_mul_of_nonneg_right f5 h0
          _ ≤ (if c = -1 then n else c) * (((ds.filter fun d => !(match d.2 with | Spec.auto => true | _ => false)).map fixedCur).prod
                * (fin.map Prod.fst).prod) := mul_le_mul_of_nonneg_left i8 (by omega)
          _ = _ := by ring
    | tup cs =>
      have hfin' : fin.map Prod.snd = (ds.filter isAutoD).map Prod.fst := by simpa [isAutoD] using hfin
      obtain ⟨i1, i2, i3, i4, i5, i6, i7, i8⟩ := ih fin hwf' hfin' hb
      obtain ⟨hne, hpos, hsum⟩ := hw.2
      have hmax := maxOf_ge_one cs hne hpos
      have hreb : rebuild (Spec.tup cs :: ds.map fun d => normalize d.1 d.2) fin
          = Spec.tup cs :: rebuild (ds.map fun d => normalize d.1 d.2) fin := by
        cases fin <;> simp [rebuild]
      have hnorm : normalize n (Spec.tup cs) = Spec.tup cs := rfl
      have f1 : fillDim n (Spec.tup cs) = .ok cs := rfl
      refine ⟨by simp only [List.map_cons, hnorm, hreb, List.length_cons, i1], by
          simp only [List.map_cons, hnorm, hreb, List.all_cons, Spec.isIntOrTup, i2, Bool.and_self], ?_, ?_, ?_, ?_, ?_, ?_⟩
      · simp only [fillIn, List.map_cons, hnorm, hreb, List.zip_cons_cons, List.mapM_cons, f1, bind, Except.bind] at i3 ⊢
        rw [i3]; rfl
      · intro p hp
        simp only [List.map_cons, vec, List.zip_cons_cons, List.mem_cons] at hp
        rcases hp with rfl | hp
        · exact hsum
        · exact i4 p hp
      · intro cc hcc x hx
        simp only [vec, List.mem_cons] at hcc
        rcases hcc with rfl | hcc
        · exact hpos x hx
        · exact i5 cc hcc x hx
      · simp only [vec, List.map_cons, List.prod_cons]; nlinarith
      · simp only [isAutoD, List.filter_cons, Bool.not_false, if_true, List.map_cons, List.prod_cons, fixedCur]
        simp only [isAutoD] at i7; nlinarith
      · simp only [vec, List.map_cons, List.prod_cons, isAutoD, List.filter_cons, Bool.not_false, if_true, fixedCur]
        simp only [isAutoD] at i7 i8
        have h0 : 0 ≤ maxOf cs := by omega
        calc maxOf cs * ((vec ds fin).map maxOf).prod
            ≤ maxOf cs * (((ds.filter fun d => !(match d.2 with | Spec.auto => true | _ => false)).map fixedCur).prod
                * (fin.map Prod.fst).prod) := mul_le_mul_of_nonneg_left i8 h0
          _ = _ := by ring
    | str => exact absurd hw.2 (by simp [WF])
    | bad => exact absurd hw.2 (by simp [WF])


lemma fillIn_all_tup (shape : List Int) (l : List Spec) (hlen : shape.length = l.length) (h : l.all Spec.isTup = true) :
    fillIn shape l = .ok (l.map Spec.tupVal) := by
  induction l generalizing shape with
  | nil => cases shape <;> simp_all [fillIn, pure, Except.pure]
  | cons c cs ih =>
    cases shape with
    | nil => simp at hlen
    | cons s ss =>
      simp only [List.all_cons, Bool.and_eq_true] at h
      have := ih ss (by simpa using hlen) h.2
      cases c <;> simp [Spec.isTup] at h
      simp only [fillIn, List.zip_cons_cons, List.mapM_cons, fillDim, bind, Except.bind, List.map_cons, Spec.tupVal] at this ⊢
      rw [this]; rfl

lemma validateExplicit_of_fill (shape : List Int) (l : List Spec) (v : Validated) (hlen : shape.length = l.length)
    (h : l.all Spec.isIntOrTup = true) (hf : fillIn shape l = .ok v) : validateExplicit shape l = assertMatch shape v := by
  unfold validateExplicit
  have hcl : checkLength shape l = .ok () := by simp [checkLength, hlen]
  simp only [hcl, bind, Except.bind]
  by_cases ht : l.all Spec.isTup = true
  · have := fillIn_all_tup shape l hlen ht
    rw [hf] at this
    injection this with this
    simp [ht, this]
  · simp [ht, h, hf]

lemma filter_map_cls (ds : List (Int × Spec)) :
    ((ds.map fun d => ((if isAutoD d then (1 : Int) else fixedCur d), (if isAutoD d then d.1 else fixedCur d), isAutoD d)).filter
        fun t => t.2.2).map (fun t => (t.1, t.2.1)) = (ds.filter isAutoD).map fun d => ((1 : Int), d.1) := by
  induction ds with
  | nil => rfl
  | cons d ds ih => by_cases h : isAutoD d = true <;> simp [h, ih]

lemma filter_map_cls_fixed (ds : List (Int × Spec)) :
    ((ds.map fun d => ((if isAutoD d then (1 : Int) else fixedCur d), (if isAutoD d then d.1 else fixedCur d), isAutoD d)).filter
        fun t => !t.2.2).map (fun t => t.1) = (ds.filter fun d => !isAutoD d).map fixedCur := by
  induction ds with
  | nil => rfl
  | cons d ds ih => by_cases h : isAutoD d = true <;> simp [h, ih]

lemma classify_all (ds : List (Int × Spec)) (hwf : ∀ d ∈ ds, WF d) :
    (ds.map fun d => (d.1, normalize d.1 d.2)).mapM (fun (x : Int × Spec) => classify x.1 x.2)
      = .ok (ds.map fun d => ((if isAutoD d then (1 : Int) else fixedCur d), (if isAutoD d then d.1 else fixedCur d), isAutoD d)) := by
  induction ds with
  | nil => rfl
  | cons d ds ih =>
    have h1 := classify_wf d (hwf d (by simp))
    have h2 := ih fun d hd => hwf d (by simp [hd])
    simp only [List.map_cons, List.mapM_cons, h1, h2, bind, Except.bind]
    rfl

lemma zipWith_normalize_map (ds : List (Int × Spec)) :
    List.zipWith normalize (ds.map Prod.fst) (ds.map Prod.snd) = ds.map fun d => normalize d.1 d.2 := by
  induction ds with
  | nil => rfl
  | cons d ds ih => simp [ih]

/-- **Automatic chunking end to end, mixed specifications**: every dimension ≥ 1; each specification 'auto', a positive
int, -1, or an explicit tuple of positive ints summing to the dimension; at least one 'auto'; and a valid chunking
exists in the sense the code uses: the product of the fixed dimensions' NOMINAL chunk sizes (`fixedCur`: the int `c`\nitself, even when `c` exceeds the dimension) is within the limit.  Then `validate_chunks` succeeds, its
chunks are ≥ 1 and sum to the shape, and the largest block (product of the largest chunk per dimension) has at most
`M` elements. -/
theorem auto_mixed_within_limit (ds : List (Int × Spec)) (M : Int) (hwf : ∀ d ∈ ds, WF d)
    (hauto : ∃ d ∈ ds, isAutoD d = true) (hF : ((ds.filter fun d => !isAutoD d).map fixedCur).prod ≤ M) :
    ∃ v, validateChunks (ds.map Prod.fst) (.tuple (ds.map Prod.snd)) (some M) = .ok v ∧ (v.map maxOf).prod ≤ M ∧
      (∀ cc ∈ v, ∀ x ∈ cc, 1 ≤ x) ∧ List.Forall₂ (fun s c => c.sum = s) (ds.map Prod.fst) v := by
  have hn : ∀ n ∈ (ds.filter isAutoD).map Prod.fst, 1 ≤ n := by
    intro n hn
    obtain ⟨d, hd, rfl⟩ := List.mem_map.1 hn
    exact (hwf d (List.mem_filter.1 hd).1).1
  have hones : prodCur (((ds.filter isAutoD).map Prod.fst).map fun n => ((1 : Int), n)) = 1 := by
    unfold prodCur
    apply foldl_mul_ones
    intro x hx
    simp only [List.map_map, List.mem_map, Function.comp] at hx
    obtain ⟨n, _, rfl⟩ := hx; rfl
  obtain ⟨fin, hrun, hfit, hb, hsnd⟩ := auto_loop_within_limit
    (((ds.filter fun d => !isAutoD d).map fixedCur).prod) M ((ds.filter isAutoD).map Prod.fst) hn (by rw [hones]; omega)
  obtain ⟨i1, i2, i3, i4, i5, i6, i7, i8⟩ := fill_rebuild ds fin hwf hsnd hb
  have hassert : assertMatch (ds.map Prod.fst) (vec ds fin) = .ok (vec ds fin) :=
    assertMatch_of _ _ (fun cc hcc x hx => by have := i5 cc hcc x hx; omega) i4
  have hlenv : (vec ds fin).length = ds.length := by
    have := fillIn_length _ _ _ i3
    rw [this]; simp [i1]
  refine ⟨vec ds fin, ?_, ?_, i5, forall₂_of_zip _ _ _ (by simp [hlenv]) (fun p hp => i4 p hp)⟩
  · have hcl : checkLength (ds.map Prod.fst) (ds.map Prod.snd) = .ok () := by simp [checkLength]
    have hnt : (ds.map Prod.snd).all Spec.isTup = false := by
      obtain ⟨d, hd, ha⟩ := hauto
      rw [List.all_eq_false]
      refine ⟨d.2, List.mem_map_of_mem hd, ?_⟩
      obtain ⟨n, sp⟩ := d
      cases sp <;> simp_all [isAutoD, Spec.isTup]
    have hstr : (ds.map Prod.snd).any Spec.isStr = true := by
      obtain ⟨d, hd, ha⟩ := hauto
      rw [List.any_eq_true]
      refine ⟨d.2, List.mem_map_of_mem hd, ?_⟩
      obtain ⟨n, sp⟩ := d
      cases sp <;> simp_all [isAutoD, Spec.isStr]
    have hcls := classify_all ds hwf
    have hzip : (ds.map Prod.fst).zip (ds.map fun d => normalize d.1 d.2) = ds.map fun d => (d.1, normalize d.1 d.2) :=
      zip_map_map _ _ ds
    have hautos := filter_map_cls ds
    have hfixed : (((ds.map fun d => ((if isAutoD d then (1 : Int) else fixedCur d), (if isAutoD d then d.1 else fixedCur d), isAutoD d)).filter
        fun t => !t.2.2).map fun t => t.1).foldl (· * ·) 1 = ((ds.filter fun d => !isAutoD d).map fixedCur).prod := by
      rw [filter_map_cls_fixed, foldl_mul_eq, one_mul]
    have hrun' : autoRun (((ds.filter fun d => !isAutoD d).map fixedCur).prod) M ((ds.filter isAutoD).map fun d => ((1 : Int), d.1)) = .ok fin := by
      rw [List.map_map] at hrun; exact hrun
    have hve := validateExplicit_of_fill (ds.map Prod.fst) _ (vec ds fin) (by simp [i1]) i2 i3
    have hauto' : autoChunks (ds.map Prod.fst) (ds.map Prod.snd) (some M) = .ok (vec ds fin) := by
      unfold autoChunks
      simp only [hcl, bind, Except.bind, zipWith_normalize_map, hzip, hcls, hautos, hfixed, hrun', hve, hassert]
    simp only [validateChunks, hcl, hnt, hstr, hauto', bind, Except.bind, Bool.false_eq_true, if_false, if_true, hassert]
  · calc ((vec ds fin).map maxOf).prod
        ≤ ((ds.filter fun d => !isAutoD d).map fixedCur).prod * (fin.map Prod.fst).prod := i8
      _ = ((ds.filter fun d => !isAutoD d).map fixedCur).prod * prodCur fin := by
          unfold prodCur; rw [foldl_mul_eq, one_mul]
      _ ≤ M := hfit

example : validateChunks [5, 100] (.tuple [.auto, .int 100]) (some 250) = .ok [[2, 2, 1], [100]] := by decide +kernel

/-! ### `max_elements` given in bytes -/

lemma rat_floor_eq (q : Rat) : q.floor = ⌊q⌋ := rfl

/-- **Element limit from a byte budget**: for `max_elements="auto"` (dask's configured chunk size) and for a byte string,
with a dtype of `itemsize ≥ 1` bytes, the limit is `⌊bytes / itemsize⌋` elements, so a block within the limit
(`auto_all_within_limit`) occupies at most the byte budget. -/
theorem auto_max_elements_spec (nbytes itemsize : Nat) (hi : 1 ≤ itemsize) :
    autoMaxFromConfig (nbytes : Rat) (itemsize : Rat) = (nbytes / itemsize : Nat) ∧
    autoMaxFromString (nbytes : Rat) (itemsize : Rat) = (nbytes / itemsize : Nat) ∧
    (nbytes / itemsize) * itemsize ≤ nbytes := by
  have hfl : ((nbytes : Rat) / (itemsize : Rat)).floor = ((nbytes / itemsize : Nat) : Int) := by
    rw [rat_floor_eq]
    have := Rat.floor_intCast_div_natCast (nbytes : Int) itemsize
    simpa using this
  have hnn : (0 : Rat) ≤ (nbytes : Rat) / (itemsize : Rat) := by positivity
  have hfn : ((nbytes : Rat)).floor = (nbytes : Int) := by
    rw [rat_floor_eq]; exact_mod_cast Int.floor_natCast (R := Rat) nbytes
  refine ⟨?_, ?_, Nat.div_mul_le_self _ _⟩
  · unfold autoMaxFromConfig pyFloor pyInt
    rw [hfn]
    simp only [Int.cast_natCast, hnn, if_true, hfl]
  · unfold autoMaxFromString pyFloor pyInt
    rw [hfl]
    have h0 : (0 : Rat) ≤ (((nbytes / itemsize : Nat) : Int) : Rat) := by positivity
    simp only [h0, if_true]
    rw [rat_floor_eq]; exact_mod_cast Int.floor_natCast (R := Rat) (nbytes / itemsize)

/-! ### non-vacuity: concrete instances of hypotheses and conclusions -/
example : validateChunks [7, 9] (.int 10) none = .ok [[3, 3, 1], [3, 3, 3]] := by decide +kernel
example : validateChunks [5, 100] (.tuple [.auto, .int 100]) (some 50) = .ok [[1, 1, 1, 1, 1], [100]] := by decide +kernel
example : validateChunks [5] (.tuple [.tup [3, -1, 3]]) none = .error "value_error" := by decide +kernel
example : validateChunks [5] (.tuple [.tup [3, 0, 2]]) none = .ok [[3, 0, 2]] := by decide +kernel
example : validateChunks [0] (.int (-1)) none = .error "zero_division" := by decide +kernel
example : validateChunks [1, 100] (.tuple [.auto, .int 100]) (some 50) = .error "runtime_error" := by decide +kernel
example : equalSizedChunks 5 (some 2) none = .ok [2, 3] := by decide +kernel
example : equalSizedChunks 5 none (some 2) = .ok [1, 2, 2] := by decide +kernel
example : equalSizedChunks 5 (some (-2)) none = .error "assertion_error" := by decide +kernel
example : chunkRanges1 [3, -1, 3] = [(0, 3), (3, 2), (2, 5)] := by decide +kernel
example : generateChunks 7 none (some 3) 2 = .ok [(2, 4), (4, 6), (6, 9)] := by decide +kernel
example : autoRun 1 10 [(1, 7), (1, 9)] = .ok [(3, 7), (3, 9)] := by decide +kernel
example : (1 : Int) * prodCur ([7, 9].map fun n => ((1 : Int), n)) ≤ 10 := by decide +kernel

end AbtemVerif.Props.C18
