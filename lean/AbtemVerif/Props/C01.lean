/-
C01 — lazy and eager evaluation produce the same simulation results.

Model: `Blockwise.applyLazy/applyEager` (generic blockwise evaluation of a kernel over a transform ensemble and an array
ensemble) and `Blockwise.lazyEntry/eagerEntry` (the multislice transform: block function = the loop model of
`Model/Multislice.lean`, one configuration per block, the wave batch split by an arbitrary chunking).
Quantifiers: every member-wise kernel / every per-wave `step` and `detect`, every batch, every chunking that covers the
ensembles, every number of configurations, every exit-plane tuple of the documented form, every entry of the result.
-/
import AbtemVerif.Props.C02
import AbtemVerif.Model.Blockwise

namespace AbtemVerif.Props.C01
open AbtemVerif.Multislice AbtemVerif.ExitPlanes AbtemVerif.Gen.ExitPlanes AbtemVerif.Blockwise AbtemVerif.Partition
open AbtemVerif.Gen.Blockwise
variable {W S M T A R α β : Type}

/-! ### generic blockwise evaluation -/

/-- a kernel is member-wise when every (transform member, array member) pair is computed independently -/
def MemberWise (kern : List T → List A → List (List R)) (k : T → A → R) : Prop :=
  ∀ ts as, kern ts as = ts.map fun t => as.map (k t)

theorem hcat_memberwise (k : T → A → R) (tb : List T) (cA : List Nat) (as : List A) (h : as.length ≤ cA.sum) :
    hcat tb.length ((splitBy cA as).map fun ab => tb.map fun t => ab.map (k t)) = tb.map fun t => as.map (k t) := by
  unfold hcat
  apply List.ext_getElem (by simp)
  intro i h1 h2
  have hi : i < tb.length := by simpa using h1
  simp only [List.getElem_map, List.getElem_range, List.flatMap_map]
  have : ∀ ab : List A, (tb.map fun t => ab.map (k t)).getD i [] = ab.map (k tb[i]) := by
    intro ab
    rw [List.getD_eq_getElem?_getD, List.getElem?_map, List.getElem?_eq_getElem hi]; rfl
  simp only [this]
  rw [List.flatMap_def, flatten_map_splitBy _ cA as h]

/-- **generic lazy = eager**: for every member-wise kernel and all chunkings that cover the two ensembles -/
theorem applyLazy_eq_applyEager (kern : List T → List A → List (List R)) (k : T → A → R) (hk : MemberWise kern k)
    (cT cA : List Nat) (ts : List T) (as : List A) (hT : ts.length ≤ cT.sum) (hA : as.length ≤ cA.sum) :
    applyLazy kern cT cA ts as = applyEager kern ts as := by
  unfold applyLazy applyEager
  have hk' : ∀ ts as, kern ts as = ts.map fun t => as.map (k t) := hk
  simp only [hk']
  have : ∀ tb : List T, hcat tb.length ((splitBy cA as).map fun ab => tb.map fun t => ab.map (k t))
      = tb.map fun t => as.map (k t) := fun tb => hcat_memberwise k tb cA as hA
  simp only [this]
  rw [List.flatMap_def, flatten_map_splitBy _ cT ts hT]

/-- the lazy result of a member-wise kernel does not depend on either chunking -/
theorem applyLazy_indep_of_chunks (kern : List T → List A → List (List R)) (k : T → A → R) (hk : MemberWise kern k)
    (cT cA cT' cA' : List Nat) (ts : List T) (as : List A) (hT : ts.length ≤ cT.sum) (hA : as.length ≤ cA.sum)
    (hT' : ts.length ≤ cT'.sum) (hA' : as.length ≤ cA'.sum) :
    applyLazy kern cT cA ts as = applyLazy kern cT' cA' ts as := by
  rw [applyLazy_eq_applyEager kern k hk cT cA ts as hT hA, applyLazy_eq_applyEager kern k hk cT' cA' ts as hT' hA']


/-! ### the multislice transform -/

/-- the wave detected at the exit plane with slice index `q` (`q = -1`: the incident wave) -/
def planeWave (step : W → S → W) (w0 : W) (slices : List S) (q : Int) : W := waveAt step w0 slices (q + 1).toNat

theorem getElem?_natPlanes (ent : Bool) (ps : List Nat) (e : Nat) (he : e < startIndex ent + ps.length) :
    (natPlanes ent ps)[e]? = some (if e < startIndex ent then (-1 : Int) else ((ps.getD (e - startIndex ent) 0 : Nat) : Int)) := by
  cases ent
  · simp only [startIndex, Bool.false_eq_true, if_false, Nat.zero_add, Nat.not_lt_zero, Nat.sub_zero] at he ⊢
    simp only [natPlanes, Bool.false_eq_true, if_false, List.nil_append, castList]
    rw [List.getElem?_map, List.getD_eq_getElem?_getD, List.getElem?_eq_getElem he]; rfl
  · simp only [startIndex, if_true] at he ⊢
    cases e with
    | zero => simp [natPlanes]
    | succ e =>
      have he' : e < ps.length := by omega
      simp only [natPlanes, if_true, List.cons_append, List.nil_append, List.getElem?_cons_succ, castList]
      rw [List.getElem?_map, List.getD_eq_getElem?_getD]
      simp [List.getElem?_eq_getElem he']

/-- member-wise batch kernels: the batch wave after `k` slices is the member-wise wave after `k` slices -/
theorem waveAt_stepB (step : W → S → W) (ws : List W) (slices : List S) (k : Nat) :
    waveAt (stepB step) ws slices k = ws.map fun w => waveAt step w slices k := by
  unfold waveAt
  generalize slices.take k = l
  induction l generalizing ws with
  | nil => simp
  | cons s l ih => simp only [List.foldl_cons, stepB, ih, List.map_map]; rfl

theorem mapM_some {α β : Type} (f : α → β) (l : List α) : (l.mapM fun x => some (f x)) = some (l.map f) := by
  induction l with
  | nil => rfl
  | cons x xs ih => simp [List.mapM_cons, ih]


/-- slice index of the exit plane with exit index `e` -/
def planeAt (ent : Bool) (ps : List Nat) (e : Nat) : Int :=
  if e < startIndex ent then -1 else ((ps.getD (e - startIndex ent) 0 : Nat) : Int)

theorem planeWave_entrance (step : W → S → W) (w0 : W) (slices : List S) : planeWave step w0 slices (-1) = w0 := by
  simp [planeWave, waveAt]

/-- one configuration, all exit planes at once (unified form of `C07.exit_plane_result`) -/
theorem single_entry (step : W → S → W) (detect : W → M) (w0 : W) (p : Pot S) (ent : Bool) (ps : List Nat)
    (slices : List S) (hp : p.planes = natPlanes ent ps) (hc : p.configs = [slices]) (hn : p.nslices = slices.length)
    (hs : ps.Pairwise (· < ·)) (hb : ∀ q ∈ ps, q < slices.length) (hne : ent = true ∨ ps ≠ [])
    (e : Nat) (he : e < startIndex ent + ps.length) :
    getE (multisliceAndDetect step detect w0 p) (measurementIndex p 0 e)
      = some (detect (planeWave step w0 slices (planeAt ent ps e))) := by
  obtain ⟨out, h1, h2, h3⟩ := C07.exit_plane_result step detect w0 p ent ps slices hp hc hn hs hb hne
  rw [h1]; simp only [getE, planeAt]
  by_cases h : e < startIndex ent
  · have hent : ent = true := by cases ent <;> simp_all [startIndex]
    have he0 : e = 0 := by subst hent; simp [startIndex] at h; exact h
    subst he0
    rw [if_pos h, planeWave_entrance, h2 hent]
  · have hj : e - startIndex ent < ps.length := by omega
    have := h3 (e - startIndex ent) hj
    rw [show startIndex ent + (e - startIndex ent) = e by omega] at this
    rw [if_neg h, this, planeWave]
    congr 3
    rw [List.getD_eq_getElem?_getD, List.getElem?_eq_getElem hj]; simp

/-- any number of configurations (unified form of `C02.ensemble_result` and `C07.exit_plane_result`) -/
theorem ensemble_entry (step : W → S → W) (detect : W → M) (w0 : W) (p : Pot S) (ent : Bool) (ps : List Nat)
    (hp : p.planes = natPlanes ent ps) (hn : ∀ cfg ∈ p.configs, cfg.length = p.nslices)
    (hshape : p.configs.length = 1 ∨ p.ensAxis = true)
    (hs : ps.Pairwise (· < ·)) (hb : ∀ q ∈ ps, q < p.nslices) (hne : ent = true ∨ ps ≠ [])
    (c : Nat) (hc : c < p.configs.length) (e : Nat) (he : e < startIndex ent + ps.length) :
    getE (multisliceAndDetect step detect w0 p) (measurementIndex p c e)
      = some (detect (planeWave step w0 (p.configs[c]) (planeAt ent ps e))) := by
  by_cases h1 : p.configs.length = 1
  · have hc0 : c = 0 := by omega
    subst hc0
    have hcfg : p.configs = [p.configs[0]] := by
      apply List.ext_getElem (by simpa using h1)
      intro i hi1 hi2
      have : i = 0 := by simpa using hi2
      subst this; simp
    have hlen := hn _ (List.getElem_mem hc)
    exact single_entry step detect w0 p ent ps _ hp hcfg hlen.symm hs (by rw [hlen]; exact hb) hne e he
  · have hens : p.ensAxis = true := by rcases hshape with h | h; exact absurd h h1; exact h
    have hmulti : 2 ≤ p.configs.length := by omega
    have hb' : ∀ cfg ∈ p.configs, ∀ q ∈ ps, q < cfg.length := fun cfg hcfg q hq => by rw [hn cfg hcfg]; exact hb q hq
    obtain ⟨out, g1, g2⟩ := C02.ensemble_result step detect w0 p ent ps hp hens hmulti hs hb' hne
    rw [g1]; simp only [getE, planeAt]
    by_cases h : e < startIndex ent
    · have hent : ent = true := by cases ent <;> simp_all [startIndex]
      have he0 : e = 0 := by subst hent; simp [startIndex] at h; exact h
      subst he0
      rw [if_pos h, planeWave_entrance, (g2 c hc).1 hent]
    · have hj : e - startIndex ent < ps.length := by omega
      have := (g2 c hc).2 (e - startIndex ent) hj
      rw [show startIndex ent + (e - startIndex ent) = e by omega] at this
      rw [if_neg h, this, planeWave]
      congr 3
      rw [List.getD_eq_getElem?_getD, List.getElem?_eq_getElem hj]; simp


/-- what both evaluation modes must produce at (configuration `c`, exit index `e`): for every member wave of the batch,
`detect` of that wave propagated through the first slices of configuration `c` -/
def expectedEntry (step : W → S → W) (detect : W → M) (ws : List W) (cfg : List S) (q : Int) : List M :=
  ws.map fun w => detect (planeWave step w cfg q)

theorem planeWave_stepB (step : W → S → W) (ws : List W) (slices : List S) (q : Int) :
    planeWave (stepB step) ws slices q = ws.map fun w => planeWave step w slices q := by
  unfold planeWave; exact waveAt_stepB step ws slices _

/-- eager evaluation of the multislice transform on a batch -/
theorem eagerEntry_eq (step : W → S → W) (detect : W → M) (ws : List W) (p : Pot S) (ent : Bool) (ps : List Nat)
    (hp : p.planes = natPlanes ent ps) (hn : ∀ cfg ∈ p.configs, cfg.length = p.nslices)
    (hshape : p.configs.length = 1 ∨ p.ensAxis = true)
    (hs : ps.Pairwise (· < ·)) (hb : ∀ q ∈ ps, q < p.nslices) (hne : ent = true ∨ ps ≠ [])
    (c : Nat) (hc : c < p.configs.length) (e : Nat) (he : e < startIndex ent + ps.length) :
    eagerEntry step detect ws p c e = some (expectedEntry step detect ws p.configs[c] (planeAt ent ps e)) := by
  unfold eagerEntry
  rw [ensemble_entry (stepB step) (detectB detect) ws p ent ps hp hn hshape hs hb hne c hc e he, planeWave_stepB]
  simp [detectB, expectedEntry]

/-- lazy evaluation (one configuration per block, the batch split by any chunking) -/
theorem lazyEntry_eq (step : W → S → W) (detect : W → M) (cA : List Nat) (ws : List W) (p : Pot S) (ent : Bool)
    (ps : List Nat) (hp : p.planes = natPlanes ent ps) (hn : ∀ cfg ∈ p.configs, cfg.length = p.nslices)
    (hs : ps.Pairwise (· < ·)) (hb : ∀ q ∈ ps, q < p.nslices) (hne : ent = true ∨ ps ≠ [])
    (hcover : ws.length ≤ cA.sum)
    (c : Nat) (hc : c < p.configs.length) (e : Nat) (he : e < startIndex ent + ps.length) :
    lazyEntry step detect cA ws p c e = some (expectedEntry step detect ws p.configs[c] (planeAt ent ps e)) := by
  unfold lazyEntry
  have hget : p.configs.getD c [] = p.configs[c] := by
    rw [List.getD_eq_getElem?_getD, List.getElem?_eq_getElem hc]; rfl
  rw [hget]
  have hlen := hn _ (List.getElem_mem hc)
  have hfun : (fun wb => getE (multisliceAndDetect (stepB step) (detectB detect) wb (blockPot p p.configs[c]))
        (measurementIndex (blockPot p p.configs[c]) 0 e))
      = fun wb => some (wb.map fun w => detect (planeWave step w p.configs[c] (planeAt ent ps e))) := by
    funext wb
    rw [single_entry (stepB step) (detectB detect) wb (blockPot p p.configs[c]) ent ps p.configs[c] hp rfl
      (by simp [blockPot, hlen]) hs (by rw [hlen]; exact hb) hne e he, planeWave_stepB]
    simp [detectB]
  rw [hfun, mapM_some]
  simp only [Option.map_some, expectedEntry]
  rw [flatten_map_splitBy _ cA ws hcover]

/-- **Block-structure model of the multislice transform: lazy = eager.**  In the model (`Blockwise.lazyEntry`: one
configuration per block, the batch split by an arbitrary chunking, every block runs the loop model, blocks concatenated;
batch kernels member-wise *by definition*, `stepB`/`detectB`) every entry of the lazy result equals the entry of the
eager result, for every batch, chunking (every `max_batch`), number of configurations and exit-plane tuple of the documented
form.  This is a statement about the partition/reassembly structure and the loop model — it does not cover argument
forwarding to the blocks (see `algorithm_forwarded_to_blocks`), dropped-axes assembly beyond the dimension count
(`pack_ndims_eq_out_ndims`), `reduce_ensemble` or axes metadata, which are tied by correspondence and the numeric oracle. -/
theorem lazy_eq_eager (step : W → S → W) (detect : W → M) (cA : List Nat) (ws : List W) (p : Pot S) (ent : Bool)
    (ps : List Nat) (hp : p.planes = natPlanes ent ps) (hn : ∀ cfg ∈ p.configs, cfg.length = p.nslices)
    (hshape : p.configs.length = 1 ∨ p.ensAxis = true)
    (hs : ps.Pairwise (· < ·)) (hb : ∀ q ∈ ps, q < p.nslices) (hne : ent = true ∨ ps ≠ [])
    (hcover : ws.length ≤ cA.sum)
    (c : Nat) (hc : c < p.configs.length) (e : Nat) (he : e < startIndex ent + ps.length) :
    lazyEntry step detect cA ws p c e = eagerEntry step detect ws p c e := by
  rw [lazyEntry_eq step detect cA ws p ent ps hp hn hs hb hne hcover c hc e he,
    eagerEntry_eq step detect ws p ent ps hp hn hshape hs hb hne c hc e he]

/-- Entry state: a batch handed over in reciprocal space is transformed by `ensure_real_space` inside every block; doing
this block by block is the same as transforming the whole batch (member-wise `toReal`), … -/
theorem ensureReal_blocks (toReal : W → W) (recip : Bool) (cA : List Nat) (ws : List W) :
    (splitBy cA ws).map (List.map (ensureReal toReal recip)) = splitBy cA (ws.map (ensureReal toReal recip)) :=
  map_splitBy _ cA ws

/-- … so lazy = eager also from the entry of `multislice_and_detect`, for incident batches in either representation. -/
theorem lazy_eq_eager_from (step : W → S → W) (detect : W → M) (toReal : W → W) (recip : Bool) (cA : List Nat)
    (ws : List W) (p : Pot S) (ent : Bool)
    (ps : List Nat) (hp : p.planes = natPlanes ent ps) (hn : ∀ cfg ∈ p.configs, cfg.length = p.nslices)
    (hshape : p.configs.length = 1 ∨ p.ensAxis = true)
    (hs : ps.Pairwise (· < ·)) (hb : ∀ q ∈ ps, q < p.nslices) (hne : ent = true ∨ ps ≠ [])
    (hcover : ws.length ≤ cA.sum)
    (c : Nat) (hc : c < p.configs.length) (e : Nat) (he : e < startIndex ent + ps.length) :
    lazyEntry step detect cA (ws.map (ensureReal toReal recip)) p c e
      = eagerEntry step detect (ws.map (ensureReal toReal recip)) p c e :=
  lazy_eq_eager step detect cA _ p ent ps hp hn hshape hs hb hne (by simpa using hcover) c hc e he

/-- the lazy result does not depend on the batch chunking (`max_batch`, dask chunk sizes) -/
theorem lazy_indep_of_max_batch (step : W → S → W) (detect : W → M) (cA cA' : List Nat) (ws : List W) (p : Pot S)
    (ent : Bool) (ps : List Nat) (hp : p.planes = natPlanes ent ps) (hn : ∀ cfg ∈ p.configs, cfg.length = p.nslices)
    (hs : ps.Pairwise (· < ·)) (hb : ∀ q ∈ ps, q < p.nslices) (hne : ent = true ∨ ps ≠ [])
    (hcover : ws.length ≤ cA.sum) (hcover' : ws.length ≤ cA'.sum)
    (c : Nat) (hc : c < p.configs.length) (e : Nat) (he : e < startIndex ent + ps.length) :
    lazyEntry step detect cA ws p c e = lazyEntry step detect cA' ws p c e := by
  rw [lazyEntry_eq step detect cA ws p ent ps hp hn hs hb hne hcover c hc e he,
    lazyEntry_eq step detect cA' ws p ent ps hp hn hs hb hne hcover' c hc e he]


/-! ### wave batches with two ensemble axes (grid scans) -/

theorem getD_splitBy_range_flatten (f : α → β) (cY : List Nat) (row : List α) (h : row.length ≤ cY.sum) :
    ((List.range cY.length).flatMap fun j => ((splitBy cY row).getD j []).map f) = row.map f := by
  have hlen : (splitBy cY row).length = cY.length := length_splitBy cY row
  have : ((List.range cY.length).map fun j => (splitBy cY row).getD j []) = splitBy cY row := by
    apply List.ext_getElem (by simp [hlen])
    intro i h1 h2
    simp only [List.getElem_map, List.getElem_range]
    rw [List.getD_eq_getElem?_getD, List.getElem?_eq_getElem h2]; rfl
  calc ((List.range cY.length).flatMap fun j => ((splitBy cY row).getD j []).map f)
      = (((List.range cY.length).map fun j => (splitBy cY row).getD j []).map (List.map f)).flatten := by
        rw [List.flatMap_def, List.map_map]; rfl
    _ = row.map f := by rw [this, flatten_map_splitBy f cY row h]

/-- assembling the column blocks of a block of rows gives back the member-wise image of the rows -/
theorem hcat_colBlocks (f : α → β) (cY : List Nat) (rb : List (List α)) (h : ∀ row ∈ rb, row.length ≤ cY.sum) :
    hcat rb.length ((colBlocks cY rb).map fun cb => cb.map (List.map f)) = rb.map (List.map f) := by
  unfold hcat colBlocks
  apply List.ext_getElem (by simp)
  intro i h1 h2
  have hi : i < rb.length := by simpa using h1
  simp only [List.getElem_map, List.getElem_range, List.flatMap_map, List.map_map]
  have : ∀ j : Nat, ((rb.map fun row => (splitBy cY row).getD j []).map (List.map f)).getD i []
      = ((splitBy cY rb[i]).getD j []).map f := by
    intro j
    rw [List.getD_eq_getElem?_getD, List.getElem?_map, List.getElem?_map, List.getElem?_eq_getElem hi]; rfl
  simp only [Function.comp_def, this]
  exact getD_splitBy_range_flatten f cY rb[i] (h _ (List.getElem_mem hi))

/-- **2-d blockwise = whole**: for every member-wise `f`, every matrix and all chunkings covering rows and columns -/
theorem blockMap2_eq (f : α → β) (cX cY : List Nat) (m : List (List α)) (hX : m.length ≤ cX.sum)
    (hY : ∀ row ∈ m, row.length ≤ cY.sum) : blockMap2 f cX cY m = m.map (List.map f) := by
  unfold blockMap2
  have hmem : ∀ rb ∈ splitBy cX m, ∀ row ∈ rb, row ∈ m := by
    intro rb hrb row hrow
    have : row ∈ (splitBy cX m).flatten := List.mem_flatten.mpr ⟨rb, hrb, hrow⟩
    rwa [flatten_splitBy cX m hX] at this
  have : ∀ rb ∈ splitBy cX m, hcat rb.length ((colBlocks cY rb).map fun cb => cb.map (List.map f)) = rb.map (List.map f) :=
    fun rb hrb => hcat_colBlocks f cY rb (fun row hrow => hY row (hmem rb hrb row hrow))
  rw [List.flatMap_def, List.map_congr_left this, flatten_map_splitBy _ cX m hX]


/-- what both modes must produce for a two-axis batch -/
def expectedEntry2 (step : W → S → W) (detect : W → M) (wss : List (List W)) (cfg : List S) (q : Int) : List (List M) :=
  wss.map (List.map fun w => detect (planeWave step w cfg q))

theorem block_entry2 (step : W → S → W) (detect : W → M) (cb : List (List W)) (p : Pot S) (ent : Bool) (ps : List Nat)
    (slices : List S) (hp : p.planes = natPlanes ent ps) (hc : p.configs = [slices]) (hn : p.nslices = slices.length)
    (hs : ps.Pairwise (· < ·)) (hb : ∀ q ∈ ps, q < slices.length) (hne : ent = true ∨ ps ≠ [])
    (e : Nat) (he : e < startIndex ent + ps.length) :
    getE (multisliceAndDetect (stepBB step) (detectBB detect) cb p) (measurementIndex p 0 e)
      = some (cb.map (List.map fun w => detect (planeWave step w slices (planeAt ent ps e)))) := by
  have h1 : stepBB step = stepB (stepB step) := rfl
  have h2 : detectBB detect = detectB (detectB detect) := rfl
  rw [h1, h2, single_entry (stepB (stepB step)) (detectB (detectB detect)) cb p ent ps slices hp hc hn hs hb hne e he,
    planeWave_stepB]
  simp only [detectB, List.map_map, Function.comp_def, planeWave_stepB]

theorem eagerEntry2_eq (step : W → S → W) (detect : W → M) (wss : List (List W)) (p : Pot S) (ent : Bool) (ps : List Nat)
    (hp : p.planes = natPlanes ent ps) (hn : ∀ cfg ∈ p.configs, cfg.length = p.nslices)
    (hshape : p.configs.length = 1 ∨ p.ensAxis = true)
    (hs : ps.Pairwise (· < ·)) (hb : ∀ q ∈ ps, q < p.nslices) (hne : ent = true ∨ ps ≠ [])
    (c : Nat) (hc : c < p.configs.length) (e : Nat) (he : e < startIndex ent + ps.length) :
    eagerEntry2 step detect wss p c e = some (expectedEntry2 step detect wss p.configs[c] (planeAt ent ps e)) := by
  have h := eagerEntry_eq (stepB step) (detectB detect) wss p ent ps hp hn hshape hs hb hne c hc e he
  unfold eagerEntry at h
  unfold eagerEntry2
  rw [show stepBB step = stepB (stepB step) from rfl, show detectBB detect = detectB (detectB detect) from rfl, h]
  simp only [expectedEntry, expectedEntry2, detectB, planeWave_stepB, List.map_map, Function.comp_def]

/-- **lazy = eager for batches with two ensemble axes** (grid scans): every chunking of both batch axes, every number of
configurations, every exit-plane tuple of the documented form, every entry. -/
theorem lazy_eq_eager2 (step : W → S → W) (detect : W → M) (cX cY : List Nat) (wss : List (List W)) (p : Pot S)
    (ent : Bool) (ps : List Nat) (hp : p.planes = natPlanes ent ps) (hn : ∀ cfg ∈ p.configs, cfg.length = p.nslices)
    (hshape : p.configs.length = 1 ∨ p.ensAxis = true)
    (hs : ps.Pairwise (· < ·)) (hb : ∀ q ∈ ps, q < p.nslices) (hne : ent = true ∨ ps ≠ [])
    (hX : wss.length ≤ cX.sum) (hY : ∀ row ∈ wss, row.length ≤ cY.sum)
    (c : Nat) (hc : c < p.configs.length) (e : Nat) (he : e < startIndex ent + ps.length) :
    lazyEntry2 step detect cX cY wss p c e = eagerEntry2 step detect wss p c e := by
  rw [eagerEntry2_eq step detect wss p ent ps hp hn hshape hs hb hne c hc e he]
  unfold lazyEntry2
  have hget : p.configs.getD c [] = p.configs[c] := by
    rw [List.getD_eq_getElem?_getD, List.getElem?_eq_getElem hc]; rfl
  have hlen := hn _ (List.getElem_mem hc)
  simp only [hget]
  have hblock : ∀ cb : List (List W),
      getE (multisliceAndDetect (stepBB step) (detectBB detect) cb (blockPot p p.configs[c]))
        (measurementIndex (blockPot p p.configs[c]) 0 e)
      = some (cb.map (List.map fun w => detect (planeWave step w p.configs[c] (planeAt ent ps e)))) := fun cb =>
    block_entry2 step detect cb (blockPot p p.configs[c]) ent ps p.configs[c] hp rfl (by simp [blockPot, hlen]) hs
      (by rw [hlen]; exact hb) hne e he
  simp only [hblock, mapM_some, Option.map_some]
  have := blockMap2_eq (fun w => detect (planeWave step w p.configs[c] (planeAt ent ps e))) cX cY wss hX hY
  unfold blockMap2 at this
  rw [List.flatMap_def] at this
  simp only [expectedEntry2]
  rw [← this]

/-! ### dimension bookkeeping of the lazy block function (DESIGN §7 F19) and default chunks -/

/-- The packed block result of `ArrayObject._apply_transform` has exactly the number of dimensions that
`multi_output_blockwise` declares for the blockwise output — for every number of transform argument blocks, every total
number of their dimensions and every array dimensionality (both expressions are regenerated from abtem/array.py; before
fix f6c500df the packing counted argument *blocks*, so a block with two dimensions — configurations × exit planes — made
dask's concatenation along dropped axes fail).  The identification of Python's `transform_ndims` with `new_ndim`
(both: sum of the dimensions of the transform argument blocks) is made by the site's parameter renaming, i.e. trusted: this is
a regression tripwire, not a derivation. -/
theorem pack_ndims_eq_out_ndims (numArgs sumArgNdims arrayNdim : Int) :
    packNdims numArgs sumArgNdims arrayNdim = outNdim sumArgNdims arrayNdim := by
  simp [packNdims, outNdim]

/-- without exit planes both evaluation modes fail together (`potential.exit_planes[0]`) -/
theorem fails_together (step : W → S → W) (detect : W → M) (c0 : Nat) (cA : List Nat) (ws : List W) (p : Pot S)
    (hp : p.planes = []) (c e : Nat) :
    eagerEntry step detect ws p c e = none ∧ lazyEntry step detect (c0 :: cA) ws p c e = none := by
  constructor
  · simp [eagerEntry, multisliceAndDetect, hp, getE]
  · simp [lazyEntry, multisliceAndDetect, blockPot, hp, getE, splitBy]

/-- Every keyword the user passes to the multislice function (`algorithm=`, `return_backscattered=`, …) is forwarded to the
per-block transform: the `partial(…)` built by `MultisliceTransform._from_partitioned_args` (keyword list regenerated from the
source) forwards the whole `**self._multislice_func_kwargs` dictionary, together with the detectors and the multislice
function. (A regression tripwire over generated data: replacing the dictionary by hand-picked flags breaks this proof.) -/
theorem algorithm_forwarded_to_blocks :
    "**self._multislice_func_kwargs" ∈ forwardedToBlocks ∧ "detectors" ∈ forwardedToBlocks ∧
      "multislice_func" ∈ forwardedToBlocks ∧ "potential_partial" ∈ forwardedToBlocks := by decide

/-- the multislice transform partitions the configurations one per block and keeps the exit planes in one chunk -/
theorem default_chunks (nens nplanes : Nat) :
    defaultChunks nens nplanes = (if 0 < nens then [1] else []) ++ (if 1 < nplanes then [nplanes] else []) := by
  unfold defaultChunks dHasEns dHasPlanes
  congr 1 <;> simp

/-- **All places that decide whether the result has an exit-plane (thickness) axis agree**, for every number of exit
planes: the allocation in `multislice_and_detect` (`sPlaneAxis`), `MultisliceTransform.ensemble_shape`,
`.ensemble_axes_metadata`, `._out_ensemble_axes_metadata`, `._default_ensemble_chunks`, and the two tests of
`._partition_args` (all regenerated from the source) — so the declared ensemble shape, the declared axes metadata, the chunk
tuple, the partitioned argument and the array actually produced have the same number of ensemble axes; and the measurement
index drops the exit index exactly when there is no such axis. -/
theorem plane_axis_tests_agree (n : Int) :
    tShapePlanes n = sPlaneAxis n ∧ tAxesPlanes n = sPlaneAxis n ∧ tOutAxesPlanes n = sPlaneAxis n ∧
      dHasPlanes n = sPlaneAxis n ∧ tPartitionPlanes n = sPlaneAxis n ∧ tPartitionNewAxis n = sPlaneAxis n := by
  simp [tShapePlanes, tAxesPlanes, tOutAxesPlanes, dHasPlanes, tPartitionPlanes, tPartitionNewAxis, sPlaneAxis]

theorem single_plane_iff_no_plane_axis (n : Int) (hn : 1 ≤ n) : iSinglePlane n = !sPlaneAxis n := by
  simp only [iSinglePlane, sPlaneAxis]
  by_cases h : n = 1
  · subst h; simp
  · have : n > 1 := by omega
    simp [h, this]

/-! ### non-vacuity -/
example : lazyEntry hstep hdetect [1, 2] [[100], [101], [102]] ⟨true, natPlanes true [1], 2, [[1, 2], [3, 4]]⟩ 1 1
    = some [[100, 3, 4], [101, 3, 4], [102, 3, 4]] := by decide
example : eagerEntry hstep hdetect [[100], [101], [102]] ⟨true, natPlanes true [1], 2, [[1, 2], [3, 4]]⟩ 1 1
    = some [[100, 3, 4], [101, 3, 4], [102, 3, 4]] := by decide

/-- non-vacuity with the hypotheses of `lazy_eq_eager` instantiated -/
example : lazyEntry hstep hdetect [1, 2] [[100], [101], [102]] ⟨true, natPlanes true [1], 2, [[1, 2], [3, 4]]⟩ 1 1
    = eagerEntry hstep hdetect [[100], [101], [102]] ⟨true, natPlanes true [1], 2, [[1, 2], [3, 4]]⟩ 1 1 :=
  lazy_eq_eager hstep hdetect [1, 2] [[100], [101], [102]] ⟨true, natPlanes true [1], 2, [[1, 2], [3, 4]]⟩ true [1] rfl
    (by decide) (Or.inr rfl) (by decide) (by decide) (Or.inl rfl) (by decide) 1 (by decide) 1 (by decide)

end AbtemVerif.Props.C01
